/-
  C14 — the driver level (PgModel/EvoDriver.lean): the clone rule of `_evolve`, and validity of every
  proposal when the pipelines are closed over valid DNA.
-/
import PgProofs.Evo
import PgProofs.EvoPrims
import PgProofs.EvoMut
import PgModel.EvoDriver
import PgProofs.EvoBound
namespace Pg.C14

/-! ## metadata table -/

theorem find_filter_ne (u v : Nat) (hv : v ≠ u) : ∀ l : List (Nat × Meta),
    (l.filter (fun p => p.1 != u)).find? (fun p => p.1 == v) = l.find? (fun p => p.1 == v) := by
  intro l
  induction l with
  | nil => rfl
  | cons a t ih =>
    by_cases hau : a.1 = u
    · have hav : (a.1 == v) = false := by
        simp only [beq_eq_false_iff_ne, ne_eq]; intro h; exact hv (h ▸ hau)
      have hf : (a.1 != u) = false := by simp [hau]
      simp only [List.filter, hf, List.find?, hav]
      exact ih
    · have : (a.1 != u) = true := by simp [hau]
      simp only [List.filter, this, List.find?]
      cases a.1 == v with
      | true => rfl
      | false => exact ih

theorem metaOf_setMeta_self (es : EvoSt) (u : Nat) (m : Meta) : metaOf (setMeta es u m) u = some m := by
  simp [metaOf, setMeta, List.find?]

theorem metaOf_setMeta_ne (es : EvoSt) (u v : Nat) (m : Meta) (hv : v ≠ u) :
    metaOf (setMeta es u m) v = metaOf es v := by
  have huv : (u == v) = false := by simp only [beq_eq_false_iff_ne, ne_eq]; exact fun h => hv h.symm
  simp only [metaOf, setMeta, List.find?, huv]
  rw [find_filter_ne u v hv]

/-- every identity in the metadata table was created before `n`. -/
def MetaBelow (es : EvoSt) (n : Nat) : Prop := ∀ p ∈ es.metas, p.1 < n

theorem metaOf_none_of_below {es : EvoSt} {n u : Nat} (h : MetaBelow es n) (hu : n ≤ u) : metaOf es u = none := by
  unfold metaOf
  have : es.metas.find? (fun p => p.1 == u) = none := by
    rw [List.find?_eq_none]
    intro p hp
    have := h p hp
    simp only [beq_iff_eq]
    omega
  rw [this]; rfl

theorem metaBelow_setMeta {es : EvoSt} {n n' u : Nat} (m : Meta) (h : MetaBelow es n) (hu : u < n') (hn : n ≤ n') :
    MetaBelow (setMeta es u m) n' := by
  intro p hp
  simp only [setMeta, List.mem_cons, List.mem_filter] at hp
  rcases hp with rfl | ⟨hp, _⟩
  · exact hu
  · exact Nat.lt_of_lt_of_le (h p hp) hn

theorem evaluated_childMeta (es : EvoSt) (u gen step i : Nat) :
    evaluated (setMeta es u (childMeta gen step i)) u = false := by
  simp [evaluated, metaOf_setMeta_self, childMeta]

theorem setMeta_pop (es : EvoSt) (u : Nat) (m : Meta) : (setMeta es u m).pop = es.pop := rfl

/-! ## the clone rule -/

/-- the loop only ever writes "no sequence number": what was not evaluated stays so. -/
theorem stamp_unevaluated (gen step : Nat) : ∀ (cs : List Ind) (i : Nat) (seen : List Nat) (es : EvoSt) (st : St)
    (out : List Ind) (es' : EvoSt) (st' : St),
    stampChildren gen step i seen cs es st = .ok ((out, es'), st') →
    ∀ u, evaluated es u = false → evaluated es' u = false := by
  intro cs
  induction cs with
  | nil =>
    intro i seen es st out es' st' h u hu
    simp only [stampChildren] at h
    rw [pure_ok] at h
    obtain ⟨h1, _⟩ := h
    cases h1
    exact hu
  | cons c cs ih =>
    intro i seen es st out es' st' h u hu
    simp only [stampChildren] at h
    rw [bind_ok] at h
    obtain ⟨c', s1, _, h⟩ := h
    rw [bind_ok] at h
    obtain ⟨r, s2, h2, h3⟩ := h
    rw [pure_ok] at h3
    obtain ⟨h3, _⟩ := h3
    cases h3
    obtain ⟨r1, r2⟩ := r
    refine ih (i + 1) _ _ s1 r1 r2 s2 h2 u ?_
    by_cases hcu : u = c'.uid
    · rw [hcu]; exact evaluated_childMeta es c'.uid gen step i
    · simpa [evaluated, metaOf_setMeta_ne es c'.uid u _ hcu] using hu

/-- `_evolve`'s loop: the children keep their DNA values in order; the returned objects are pairwise
different, none of them is an evaluated one or one seen before (such a child is replaced by a new
object); the `j`-th carries proposal id `step + 1 + i + j`; the metadata of every object that is not
returned — in particular of every evaluated individual — and the population are untouched. -/
theorem stampChildren_spec (gen step : Nat) : ∀ (cs : List Ind) (i : Nat) (seen : List Nat) (es : EvoSt) (st : St)
    (out : List Ind) (es' : EvoSt) (st' : St),
    stampChildren gen step i seen cs es st = .ok ((out, es'), st') →
    MetaBelow es st.nextUid → (∀ c ∈ cs, c.uid < st.nextUid) → (∀ u ∈ seen, u < st.nextUid) →
    out.map (·.dna) = cs.map (·.dna) ∧
    (∀ c ∈ out, evaluated es' c.uid = false) ∧
    (∀ u, evaluated es u = true → metaOf es' u = metaOf es u) ∧
    es'.pop = es.pop ∧ es'.pending = es.pending ∧ es'.numProposals = es.numProposals ∧
    es'.numFeedbacks = es.numFeedbacks ∧ es'.numGenerations = es.numGenerations ∧
    es'.initialized = es.initialized ∧
    st.nextUid ≤ st'.nextUid ∧ MetaBelow es' st'.nextUid ∧ (∀ c ∈ out, c.uid < st'.nextUid) ∧
    (∀ c ∈ out, c.uid ∉ seen) ∧ (out.map (·.uid)).Nodup ∧
    (∀ u, (∀ c ∈ out, c.uid ≠ u) → metaOf es' u = metaOf es u) ∧
    (∀ j (hj : j < out.length), metaOf es' (out[j]).uid = some (childMeta gen step (i + j))) := by
  intro cs
  induction cs with
  | nil =>
    intro i seen es st out es' st' h hb _ _
    simp only [stampChildren] at h
    rw [pure_ok] at h
    obtain ⟨h1, rfl⟩ := h
    cases h1
    simp [hb]
  | cons c cs ih =>
    intro i seen es st out es' st' h hb hc hseen
    simp only [stampChildren] at h
    rw [bind_ok] at h
    obtain ⟨c', s1, h1, h⟩ := h
    rw [bind_ok] at h
    obtain ⟨r, s2, h2, h3⟩ := h
    rw [pure_ok] at h3
    obtain ⟨h3, rfl⟩ := h3
    cases h3
    -- the object that is stamped: `c` itself when neither evaluated nor seen, else a new one
    have hc' : c'.dna = c.dna ∧ st.nextUid ≤ s1.nextUid ∧ c'.uid < s1.nextUid ∧ evaluated es c'.uid = false ∧
        c'.uid ∉ seen := by
      by_cases hev : (evaluated es c.uid || seen.contains c.uid) = true
      · rw [if_pos hev] at h1
        obtain ⟨hd, hu, hn⟩ := mkChild_spec h1
        refine ⟨hd, by omega, by omega, ?_, ?_⟩
        · have := metaOf_none_of_below hb (Nat.le_of_eq hu.symm)
          simp [evaluated, this]
        · intro hin
          have := hseen _ hin
          omega
      · rw [if_neg hev] at h1
        rw [pure_ok] at h1
        obtain ⟨rfl, rfl⟩ := h1
        simp only [Bool.or_eq_true, not_or, Bool.not_eq_true, List.contains_eq_mem, decide_eq_false_iff_not] at hev
        exact ⟨rfl, Nat.le_refl _, hc _ List.mem_cons_self, hev.1, hev.2⟩
    obtain ⟨hd, hle, hlt, hne, hns⟩ := hc'
    have hb1 : MetaBelow (setMeta es c'.uid (childMeta gen step i)) s1.nextUid :=
      metaBelow_setMeta _ hb hlt hle
    have hcs1 : ∀ x ∈ cs, x.uid < s1.nextUid := fun x hx =>
      Nat.lt_of_lt_of_le (hc x (List.mem_cons_of_mem _ hx)) hle
    have hseen1 : ∀ u ∈ c'.uid :: seen, u < s1.nextUid := by
      intro u hu
      rcases List.mem_cons.mp hu with rfl | hu
      · exact hlt
      · exact Nat.lt_of_lt_of_le (hseen u hu) hle
    obtain ⟨r1, r2⟩ := r
    obtain ⟨e1, e2, e3, e4, e5, e6, e7, e8, e9, e10, e11, e12, e13, e14, e15, e16⟩ :=
      ih (i + 1) _ _ s1 r1 r2 s2 h2 hb1 hcs1 hseen1
    have hr1ne : ∀ x ∈ r1, x.uid ≠ c'.uid := fun x hx h => e13 x hx (h ▸ List.mem_cons_self)
    have hhead : metaOf r2 c'.uid = some (childMeta gen step i) := by
      rw [e15 c'.uid hr1ne, metaOf_setMeta_self]
    refine ⟨by simp [hd, e1], ?_, ?_, by simpa [setMeta_pop] using e4, by simpa [setMeta] using e5,
      by simpa [setMeta] using e6, by simpa [setMeta] using e7, by simpa [setMeta] using e8,
      by simpa [setMeta] using e9, Nat.le_trans hle e10, e11, ?_, ?_, ?_, ?_, ?_⟩
    · intro x hx
      rcases List.mem_cons.mp hx with rfl | hx
      · exact stamp_unevaluated gen step cs (i + 1) _ _ s1 r1 r2 s2 h2 x.uid
          (evaluated_childMeta es x.uid gen step i)
      · exact e2 x hx
    · intro u hu
      have hune : u ≠ c'.uid := by
        intro h; rw [h, hne] at hu; exact Bool.false_ne_true hu
      have hu1 : evaluated (setMeta es c'.uid (childMeta gen step i)) u = true := by
        simpa [evaluated, metaOf_setMeta_ne es c'.uid u _ hune] using hu
      rw [e3 u hu1, metaOf_setMeta_ne es c'.uid u _ hune]
    · intro x hx
      rcases List.mem_cons.mp hx with rfl | hx
      · exact Nat.lt_of_lt_of_le hlt e10
      · exact e12 x hx
    · intro x hx
      rcases List.mem_cons.mp hx with rfl | hx
      · exact hns
      · exact fun hin => e13 x hx (List.mem_cons_of_mem _ hin)
    · simp only [List.map_cons, List.nodup_cons]
      refine ⟨?_, e14⟩
      intro hin
      obtain ⟨x, hx, hxe⟩ := List.mem_map.mp hin
      exact hr1ne x hx hxe
    · intro u hu
      have hune : u ≠ c'.uid := fun h => hu c' List.mem_cons_self h.symm
      rw [e15 u (fun x hx => hu x (List.mem_cons_of_mem _ hx)), metaOf_setMeta_ne es c'.uid u _ hune]
    · intro j hj
      cases j with
      | zero => simpa using hhead
      | succ j =>
        have := e16 j (by simpa using hj)
        simp only [List.getElem_cons_succ]
        rw [this]
        congr 2
        omega

/-! ## validity of every proposal -/

/-- what the loop leaves alone, without any assumption on identities. -/
theorem stampChildren_frame (gen step : Nat) : ∀ (cs : List Ind) (i : Nat) (seen : List Nat) (es : EvoSt) (st : St)
    (out : List Ind) (es' : EvoSt) (st' : St),
    stampChildren gen step i seen cs es st = .ok ((out, es'), st') →
    out.map (·.dna) = cs.map (·.dna) ∧
    es'.pop = es.pop ∧ es'.pending = es.pending ∧ es'.numProposals = es.numProposals ∧
    es'.numFeedbacks = es.numFeedbacks ∧ es'.numGenerations = es.numGenerations ∧
    es'.initialized = es.initialized := by
  intro cs
  induction cs with
  | nil =>
    intro i seen es st out es' st' h
    simp only [stampChildren] at h
    rw [pure_ok] at h
    obtain ⟨h1, _⟩ := h
    cases h1
    simp
  | cons c cs ih =>
    intro i seen es st out es' st' h
    simp only [stampChildren] at h
    rw [bind_ok] at h
    obtain ⟨c', s1, h1, h⟩ := h
    rw [bind_ok] at h
    obtain ⟨r, s2, h2, h3⟩ := h
    rw [pure_ok] at h3
    obtain ⟨h3, _⟩ := h3
    cases h3
    have hd : c'.dna = c.dna := by
      by_cases hev : (evaluated es c.uid || seen.contains c.uid) = true
      · rw [if_pos hev] at h1; exact (mkChild_spec h1).1
      · rw [if_neg hev, pure_ok] at h1; rw [← h1.1]
    obtain ⟨r1, r2⟩ := r
    obtain ⟨e1, e2, e3, e4, e5, e6, e7⟩ := ih (i + 1) _ _ s1 r1 r2 s2 h2
    exact ⟨by simp [hd, e1], by simpa [setMeta] using e2, by simpa [setMeta] using e3,
      by simpa [setMeta] using e4, by simpa [setMeta] using e5, by simpa [setMeta] using e6,
      by simpa [setMeta] using e7⟩

/-- closure of a pipeline over valid DNA (the contract `Closed` of PgProps/C14.lean). -/
def ClosedOp (g : GSpec) (op : Op) : Prop :=
  ∀ pop st out st', (∀ x ∈ pop, valid g x.dna = true) → op pop st = .ok (out, st') →
    ∀ y ∈ out, valid g y.dna = true

/-- population and pending proposals hold valid DNA only. -/
def DriverValid (g : GSpec) (es : EvoSt) : Prop :=
  (∀ x ∈ es.pop, valid g x.dna = true) ∧ (∀ x ∈ es.pending, valid g x.dna = true)

theorem evolve_spec (cfg : EvoCfg) (hrep : ∀ n, ClosedOp cfg.g (eval (cfg.reproduction n)))
    (es : EvoSt) (st : St) (cs : List Ind) (es' : EvoSt) (st' : St)
    (hv : ∀ x ∈ es.pop, valid cfg.g x.dna = true) (h : evolve cfg es st = .ok ((cs, es'), st')) :
    cs ≠ [] ∧ (∀ y ∈ cs, valid cfg.g y.dna = true) ∧ es'.pop = es.pop ∧ es'.pending = es.pending ∧
    es'.numProposals = es.numProposals ∧ es'.numFeedbacks = es.numFeedbacks ∧
    es'.numGenerations = es.numGenerations + 1 ∧ es'.initialized = es.initialized := by
  unfold evolve at h
  rw [bind_ok] at h
  obtain ⟨children, s1, h1, h⟩ := h
  have hcv := hrep _ _ _ _ _ hv h1
  by_cases he : children.isEmpty = true
  · rw [if_pos he] at h; exact ((fail_ok _ _ _).mp h).elim
  · rw [if_neg he, bind_ok] at h
    obtain ⟨r, s2, h2, h3⟩ := h
    rw [pure_ok] at h3
    obtain ⟨h3, _⟩ := h3
    cases h3
    obtain ⟨r1, r2⟩ := r
    obtain ⟨e1, e2, e3, e4, e5, e6, e7⟩ := stampChildren_frame _ _ _ _ _ _ _ _ _ _ h2
    refine ⟨?_, ?_, e2, e3, e4, e5, by simp [e6], e7⟩
    · intro hnil
      simp only at hnil
      rw [hnil] at e1
      have : children = [] := by simpa using e1.symm
      exact he (by simp [this])
    · intro y hy
      have : y.dna ∈ children.map (·.dna) := by rw [← e1]; exact List.mem_map_of_mem hy
      obtain ⟨c, hc, hcd⟩ := List.mem_map.mp this
      rw [← hcd]; exact hcv c hc

theorem refill_spec (cfg : EvoCfg) (hrep : ∀ n, ClosedOp cfg.g (eval (cfg.reproduction n)))
    (es : EvoSt) (st : St) (es' : EvoSt) (st' : St)
    (hv : DriverValid cfg.g es) (h : refill cfg es st = .ok (es', st')) :
    DriverValid cfg.g es' ∧ es'.pending ≠ [] ∧ es'.numProposals = es.numProposals ∧
    es'.numFeedbacks = es.numFeedbacks := by
  unfold refill at h
  by_cases hp : es.pending.isEmpty = true
  · rw [if_pos hp] at h
    have hpn : es.pending = [] := by simpa using hp
    by_cases hi : es.initialized = true
    · rw [if_pos hi, bind_ok] at h
      obtain ⟨r, s1, h1, h2⟩ := h
      rw [pure_ok] at h2
      obtain ⟨rfl, _⟩ := h2
      obtain ⟨r1, r2⟩ := r
      obtain ⟨e0, e1, e2, e3, e4, e5, _, _⟩ := evolve_spec cfg hrep es st r1 r2 s1 hv.1 h1
      refine ⟨⟨by simpa [e2] using hv.1, ?_⟩, ?_, e4, e5⟩
      · intro x hx
        simp only [e3, hpn, List.nil_append] at hx
        exact e1 x hx
      · simpa [e3, hpn] using e0
    · rw [if_neg hi, bind_ok] at h
      obtain ⟨d, s1, h1, h⟩ := h
      rw [bind_ok] at h
      obtain ⟨c, s2, h2, h3⟩ := h
      rw [pure_ok] at h3
      obtain ⟨rfl, _⟩ := h3
      have hd := (randomDna_spec _ _ _ _ _ h1).1
      have hc := (mkChild_spec h2).1
      refine ⟨⟨hv.1, ?_⟩, by simp, rfl, rfl⟩
      intro x hx
      simp only [hpn, List.nil_append, List.mem_singleton] at hx
      rw [hx, hc]; exact hd
  · rw [if_neg hp, pure_ok] at h
    obtain ⟨rfl, _⟩ := h
    exact ⟨hv, by simpa using hp, rfl, rfl⟩

/-- `propose()` hands out valid DNA and moves the proposal counter by one. -/
theorem propose_spec (cfg : EvoCfg) (hrep : ∀ n, ClosedOp cfg.g (eval (cfg.reproduction n)))
    (es : EvoSt) (st : St) (x : Ind) (es' : EvoSt) (st' : St)
    (hv : DriverValid cfg.g es) (h : propose cfg es st = .ok ((x, es'), st')) :
    valid cfg.g x.dna = true ∧ DriverValid cfg.g es' ∧ es'.numProposals = es.numProposals + 1 ∧
    es'.numFeedbacks = es.numFeedbacks := by
  unfold propose at h
  rw [bind_ok] at h
  obtain ⟨e1, s1, h1, h2⟩ := h
  obtain ⟨hv1, _, hp, hf⟩ := refill_spec cfg hrep es st e1 s1 hv h1
  cases hpend : e1.pending with
  | nil => rw [hpend] at h2; exact ((fail_ok _ _ _).mp h2).elim
  | cons y rest =>
    rw [hpend] at h2
    simp only at h2
    rw [pure_ok] at h2
    obtain ⟨h2, _⟩ := h2
    have hy : ∀ z ∈ y :: rest, valid cfg.g z.dna = true := by rw [← hpend]; exact hv1.2
    cases h2
    exact ⟨hy _ List.mem_cons_self, ⟨hv1.1, fun z hz => hy z (List.mem_cons_of_mem _ hz)⟩, by simp [hp], hf⟩

theorem absorb_spec (cfg : EvoCfg) (es : EvoSt) (x : Ind) (r : Int) :
    (absorb cfg es x r).pop = es.pop ++ [{ x with fit := some r }] ∧
    (absorb cfg es x r).pending = es.pending ∧ (absorb cfg es x r).numProposals = es.numProposals ∧
    (absorb cfg es x r).numFeedbacks = es.numFeedbacks := by
  exact ⟨rfl, rfl, rfl, rfl⟩

/-- `feedback(dna, reward)` keeps the population valid and moves the feedback counter by one. -/
theorem feedback_spec (cfg : EvoCfg)
    (hupd : ∀ u, cfg.update = some u → ∀ n, ClosedOp cfg.g (eval (u n)))
    (es : EvoSt) (x : Ind) (r : Int) (st : St) (es' : EvoSt) (st' : St)
    (hv : DriverValid cfg.g es) (hx : valid cfg.g x.dna = true) (h : feedback cfg es x r st = .ok (es', st')) :
    DriverValid cfg.g es' ∧ es'.numFeedbacks = es.numFeedbacks + 1 ∧ es'.numProposals = es.numProposals := by
  unfold feedback at h
  obtain ⟨a1, a2, a3, a4⟩ := absorb_spec cfg es x r
  rw [bind_ok] at h
  obtain ⟨pop, s1, h1, h2⟩ := h
  rw [pure_ok] at h2
  obtain ⟨rfl, _⟩ := h2
  have hpop : ∀ z ∈ (absorb cfg es x r).pop, valid cfg.g z.dna = true := by
    intro z hz
    rw [a1] at hz
    rcases List.mem_append.mp hz with hz | hz
    · exact hv.1 z hz
    · simp only [List.mem_singleton] at hz; rw [hz]; exact hx
  refine ⟨⟨?_, by simpa [a2] using hv.2⟩, by simp [a4], by simp [a3]⟩
  cases hu : cfg.update with
  | none =>
    rw [hu] at h1
    simp only at h1
    rw [pure_ok] at h1
    intro z hz
    simp only at hz
    rw [← h1.1] at hz
    exact hpop z hz
  | some u =>
    rw [hu] at h1
    simp only at h1
    exact hupd u hu _ _ _ _ _ hpop h1

/-- a whole run: every proposal is valid DNA of the search space, and after `k` rounds both counters
have moved by `k`. -/
theorem runRounds_spec (cfg : EvoCfg) (hrep : ∀ n, ClosedOp cfg.g (eval (cfg.reproduction n)))
    (hupd : ∀ u, cfg.update = some u → ∀ n, ClosedOp cfg.g (eval (u n))) :
    ∀ (rs : List Int) (es : EvoSt) (st : St) (tr : List (Ind × Meta)) (es' : EvoSt) (st' : St),
    DriverValid cfg.g es → runRounds cfg rs es st = .ok ((tr, es'), st') →
    (∀ p ∈ tr, valid cfg.g p.1.dna = true) ∧ tr.length = rs.length ∧ DriverValid cfg.g es' ∧
    es'.numProposals = es.numProposals + rs.length ∧ es'.numFeedbacks = es.numFeedbacks + rs.length := by
  intro rs
  induction rs with
  | nil =>
    intro es st tr es' st' hv h
    simp only [runRounds] at h
    rw [pure_ok] at h
    obtain ⟨h1, _⟩ := h
    cases h1
    simp [hv]
  | cons r rs ih =>
    intro es st tr es' st' hv h
    simp only [runRounds] at h
    rw [bind_ok] at h
    obtain ⟨p, s1, h1, h⟩ := h
    rw [bind_ok] at h
    obtain ⟨e1, s2, h2, h⟩ := h
    rw [bind_ok] at h
    obtain ⟨t, s3, h3, h4⟩ := h
    rw [pure_ok] at h4
    obtain ⟨h4, _⟩ := h4
    cases h4
    obtain ⟨px, pe⟩ := p
    obtain ⟨v1, v2, v3, v4⟩ := propose_spec cfg hrep es st px pe s1 hv h1
    obtain ⟨w1, w2, w3⟩ := feedback_spec cfg hupd pe px r s1 e1 s2 v2 v1 h2
    obtain ⟨t1, t2⟩ := t
    obtain ⟨i1, i2, i3, i4, i5⟩ := ih e1 s2 t1 t2 s3 w1 h3
    refine ⟨?_, by simp [i2], i3, by simp [i4, w3, v3]; omega, by simp [i5, w2, v4]; omega⟩
    intro q hq
    rcases List.mem_cons.mp hq with rfl | hq
    · exact v1
    · exact i1 q hq

/-! ## identities: the invariant that makes the clone rule applicable at every round -/

/-- valid DNA in an object created before the counter reached `n`. -/
abbrev VB (g : GSpec) (n : Nat) (x : Ind) : Prop := B (fun y => valid g y.dna = true) n x

/-- population, pending proposals and the metadata table only know objects created so far. -/
def DriverInv (g : GSpec) (es : EvoSt) (n : Nat) : Prop :=
  (∀ x ∈ es.pop, VB g n x) ∧ (∀ x ∈ es.pending, VB g n x) ∧ MetaBelow es n

theorem metaBelow_mono {es : EvoSt} {a b : Nat} (h : MetaBelow es a) (hab : a ≤ b) : MetaBelow es b :=
  fun p hp => Nat.lt_of_lt_of_le (h p hp) hab

theorem driverInv_mono {g : GSpec} {es : EvoSt} {a b : Nat} (h : DriverInv g es a) (hab : a ≤ b) :
    DriverInv g es b :=
  ⟨bounded_mono h.1 hab, bounded_mono h.2.1 hab, metaBelow_mono h.2.2 hab⟩

/-- **the clone rule of `_evolve`**, for any reproduction pipeline that only returns objects it was
given or created: no returned object is an evaluated one, the metadata of every evaluated individual
and the population are exactly what they were. -/
theorem evolve_inv (cfg : EvoCfg)
    (hrep : ∀ n, Bounded (fun y => valid cfg.g y.dna = true) (eval (cfg.reproduction n)))
    (es : EvoSt) (st : St) (cs : List Ind) (es' : EvoSt) (st' : St)
    (hi : DriverInv cfg.g es st.nextUid) (h : evolve cfg es st = .ok ((cs, es'), st')) :
    cs ≠ [] ∧
    (∀ c ∈ cs, VB cfg.g st'.nextUid c ∧ evaluated es' c.uid = false) ∧
    (∀ u, evaluated es u = true → metaOf es' u = metaOf es u) ∧
    es'.pop = es.pop ∧ es'.pending = es.pending ∧ MetaBelow es' st'.nextUid ∧ st.nextUid ≤ st'.nextUid ∧
    (cs.map (·.uid)).Nodup ∧
    (∀ j (hj : j < cs.length), metaOf es' (cs[j]).uid =
      some (childMeta es.numGenerations es.numProposals j)) := by
  unfold evolve at h
  rw [bind_ok] at h
  obtain ⟨children, s1, h1, h⟩ := h
  obtain ⟨hcb, hle1⟩ := hrep _ _ _ _ _ hi.1 h1
  by_cases he : children.isEmpty = true
  · rw [if_pos he] at h; exact ((fail_ok _ _ _).mp h).elim
  · rw [if_neg he, bind_ok] at h
    obtain ⟨r, s2, h2, h3⟩ := h
    rw [pure_ok] at h3
    obtain ⟨h3, rfl⟩ := h3
    cases h3
    obtain ⟨r1, r2⟩ := r
    obtain ⟨e1, e2, e3, e4, e5, _, _, _, _, e10, e11, e12, _, e14, _, e16⟩ :=
      stampChildren_spec _ _ children 0 [] es s1 r1 r2 s2 h2 (metaBelow_mono hi.2.2 hle1)
        (fun c hc => (hcb c hc).2) (by simp)
    refine ⟨?_, ?_, ?_, e4, e5, ?_, Nat.le_trans hle1 e10, e14, ?_⟩
    rotate_right
    · intro j hj
      have := e16 j hj
      rw [Nat.zero_add] at this
      exact this
    · intro hnil
      simp only at hnil
      rw [hnil] at e1
      have : children = [] := by simpa using e1.symm
      exact he (by simp [this])
    · intro y hy
      have : y.dna ∈ children.map (·.dna) := by rw [← e1]; exact List.mem_map_of_mem hy
      obtain ⟨c, hc, hcd⟩ := List.mem_map.mp this
      refine ⟨⟨?_, e12 y hy⟩, ?_⟩
      · show valid cfg.g y.dna = true
        rw [← hcd]; exact (hcb c hc).1
      · exact e2 y hy
    · intro u hu
      exact e3 u hu
    · intro p hp
      exact e11 p hp

theorem refill_inv (cfg : EvoCfg)
    (hrep : ∀ n, Bounded (fun y => valid cfg.g y.dna = true) (eval (cfg.reproduction n)))
    (es : EvoSt) (st : St) (es' : EvoSt) (st' : St)
    (hi : DriverInv cfg.g es st.nextUid) (h : refill cfg es st = .ok (es', st')) :
    DriverInv cfg.g es' st'.nextUid ∧ st.nextUid ≤ st'.nextUid := by
  unfold refill at h
  by_cases hp : es.pending.isEmpty = true
  · rw [if_pos hp] at h
    have hpn : es.pending = [] := by simpa using hp
    by_cases hin : es.initialized = true
    · rw [if_pos hin, bind_ok] at h
      obtain ⟨r, s1, h1, h2⟩ := h
      rw [pure_ok] at h2
      obtain ⟨rfl, rfl⟩ := h2
      obtain ⟨r1, r2⟩ := r
      obtain ⟨_, e1, _, e3, e4, e5, e6, _, _⟩ := evolve_inv cfg hrep es st r1 r2 s1 hi h1
      refine ⟨⟨?_, ?_, ?_⟩, e6⟩
      · show ∀ x ∈ r2.pop, _
        rw [e3]; exact bounded_mono hi.1 e6
      · intro x hx
        simp only [e4, hpn, List.nil_append] at hx
        exact (e1 x hx).1
      · exact e5
    · rw [if_neg hin, bind_ok] at h
      obtain ⟨d, s1, h1, h⟩ := h
      rw [bind_ok] at h
      obtain ⟨c, s2, h2, h3⟩ := h
      rw [pure_ok] at h3
      obtain ⟨rfl, rfl⟩ := h3
      obtain ⟨hd, hu1⟩ := randomDna_spec _ _ _ _ _ h1
      obtain ⟨hc, hcu, hn⟩ := mkChild_spec h2
      have hle : st.nextUid ≤ s2.nextUid := by omega
      refine ⟨⟨bounded_mono hi.1 hle, ?_, ?_⟩, hle⟩
      · intro x hx
        simp only [hpn, List.nil_append, List.mem_singleton] at hx
        rw [hx]
        exact ⟨by show valid cfg.g c.dna = true; rw [hc]; exact hd, by omega⟩
      · exact metaBelow_setMeta _ hi.2.2 (by omega) hle
  · rw [if_neg hp, pure_ok] at h
    obtain ⟨rfl, rfl⟩ := h
    exact ⟨hi, Nat.le_refl _⟩

theorem propose_inv (cfg : EvoCfg)
    (hrep : ∀ n, Bounded (fun y => valid cfg.g y.dna = true) (eval (cfg.reproduction n)))
    (es : EvoSt) (st : St) (x : Ind) (es' : EvoSt) (st' : St)
    (hi : DriverInv cfg.g es st.nextUid) (h : propose cfg es st = .ok ((x, es'), st')) :
    VB cfg.g st'.nextUid x ∧ DriverInv cfg.g es' st'.nextUid ∧ st.nextUid ≤ st'.nextUid := by
  unfold propose at h
  rw [bind_ok] at h
  obtain ⟨e1, s1, h1, h2⟩ := h
  obtain ⟨hi1, hle⟩ := refill_inv cfg hrep es st e1 s1 hi h1
  cases hpend : e1.pending with
  | nil => rw [hpend] at h2; exact ((fail_ok _ _ _).mp h2).elim
  | cons y rest =>
    rw [hpend] at h2
    simp only at h2
    rw [pure_ok] at h2
    obtain ⟨h2, rfl⟩ := h2
    have hy : ∀ z ∈ y :: rest, VB cfg.g s1.nextUid z := by rw [← hpend]; exact hi1.2.1
    cases h2
    exact ⟨hy _ List.mem_cons_self, ⟨hi1.1, fun z hz => hy z (List.mem_cons_of_mem _ hz), hi1.2.2⟩, hle⟩

theorem absorb_metas (cfg : EvoCfg) (es : EvoSt) (x : Ind) (r : Int) :
    ∃ m, (absorb cfg es x r).metas = (setMeta es x.uid m).metas := by
  refine ⟨{ (metaOf es x.uid).getD default with fsn := some (es.numFeedbacks + 1) }, ?_⟩
  rfl

theorem feedback_inv (cfg : EvoCfg)
    (hupd : ∀ u, cfg.update = some u → ∀ n, Bounded (fun y => valid cfg.g y.dna = true) (eval (u n)))
    (es : EvoSt) (x : Ind) (r : Int) (st : St) (es' : EvoSt) (st' : St)
    (hi : DriverInv cfg.g es st.nextUid) (hx : VB cfg.g st.nextUid x)
    (h : feedback cfg es x r st = .ok (es', st')) :
    DriverInv cfg.g es' st'.nextUid ∧ st.nextUid ≤ st'.nextUid := by
  unfold feedback at h
  obtain ⟨a1, a2, _, _⟩ := absorb_spec cfg es x r
  obtain ⟨m, a5⟩ := absorb_metas cfg es x r
  rw [bind_ok] at h
  obtain ⟨pop, s1, h1, h2⟩ := h
  rw [pure_ok] at h2
  obtain ⟨rfl, rfl⟩ := h2
  have hpop : ∀ z ∈ (absorb cfg es x r).pop, VB cfg.g st.nextUid z := by
    intro z hz
    rw [a1] at hz
    rcases List.mem_append.mp hz with hz | hz
    · exact hi.1 z hz
    · simp only [List.mem_singleton] at hz; rw [hz]; exact hx
  have hmb : MetaBelow (absorb cfg es x r) st.nextUid := by
    intro p hp
    rw [a5] at hp
    exact metaBelow_setMeta m hi.2.2 hx.2 (Nat.le_refl _) p hp
  have key : (∀ z ∈ pop, VB cfg.g s1.nextUid z) ∧ st.nextUid ≤ s1.nextUid := by
    cases hu : cfg.update with
    | none =>
      rw [hu] at h1
      simp only at h1
      rw [pure_ok] at h1
      obtain ⟨rfl, rfl⟩ := h1
      exact ⟨hpop, Nat.le_refl _⟩
    | some u =>
      rw [hu] at h1
      simp only at h1
      exact hupd u hu _ _ _ _ _ hpop h1
  refine ⟨⟨key.1, ?_, ?_⟩, key.2⟩
  · show ∀ z ∈ (absorb cfg es x r).pending, _
    rw [a2]; exact bounded_mono hi.2.1 key.2
  · exact metaBelow_mono hmb key.2

/-- the invariant holds along a whole run that starts from the empty driver state. -/
theorem runRounds_inv (cfg : EvoCfg)
    (hrep : ∀ n, Bounded (fun y => valid cfg.g y.dna = true) (eval (cfg.reproduction n)))
    (hupd : ∀ u, cfg.update = some u → ∀ n, Bounded (fun y => valid cfg.g y.dna = true) (eval (u n))) :
    ∀ (rs : List Int) (es : EvoSt) (st : St) (tr : List (Ind × Meta)) (es' : EvoSt) (st' : St),
    DriverInv cfg.g es st.nextUid → runRounds cfg rs es st = .ok ((tr, es'), st') →
    DriverInv cfg.g es' st'.nextUid ∧ st.nextUid ≤ st'.nextUid := by
  intro rs
  induction rs with
  | nil =>
    intro es st tr es' st' hi h
    simp only [runRounds] at h
    rw [pure_ok] at h
    obtain ⟨h1, rfl⟩ := h
    cases h1
    exact ⟨hi, Nat.le_refl _⟩
  | cons r rs ih =>
    intro es st tr es' st' hi h
    simp only [runRounds] at h
    rw [bind_ok] at h
    obtain ⟨p, s1, h1, h⟩ := h
    rw [bind_ok] at h
    obtain ⟨e1, s2, h2, h⟩ := h
    rw [bind_ok] at h
    obtain ⟨t, s3, h3, h4⟩ := h
    rw [pure_ok] at h4
    obtain ⟨h4, rfl⟩ := h4
    cases h4
    obtain ⟨px, pe⟩ := p
    obtain ⟨v1, v2, v3⟩ := propose_inv cfg hrep es st px pe s1 hi h1
    obtain ⟨w1, w2⟩ := feedback_inv cfg hupd pe px r s1 e1 s2 v2 v1 h2
    obtain ⟨t1, t2⟩ := t
    obtain ⟨i1, i2⟩ := ih e1 s2 t1 t2 s3 w1 h3
    exact ⟨i1, by omega⟩

theorem driverInv_init (g : GSpec) (n : Nat) : DriverInv g {} n :=
  ⟨by simp, by simp, by intro p hp; simp at hp⟩

end Pg.C14
