/-
  From the loop theorem to `Choices._next_dna` / `first_dna` on whole DNAs (abstract candidates).
-/
import PgProofs.GenoOdo
import PgProofs.GenoRandom
namespace Pg.Geno
open DNA

/-! ### no repetition in `enumSeq` -/

theorem nodup_walkIdx_of {β γ : Type} {F : Nat → β → List γ} : ∀ (l : List β) (s : Nat),
    (∀ i b, l[i]? = some b → (F (s + i) b).Nodup) →
    (∀ i i' b b' x, i < i' → l[i]? = some b → l[i']? = some b' → x ∈ F (s + i) b → x ∉ F (s + i') b') →
    (walkIdx F s l).Nodup
  | [], _, _, _ => by simp [walkIdx]
  | a :: t, s, hnd, hdis => by
    simp only [walkIdx]
    rw [List.nodup_append]
    refine ⟨by simpa using hnd 0 a rfl, ?_, ?_⟩
    · apply nodup_walkIdx_of t (s + 1)
      · intro i b hb
        have := hnd (i + 1) b (by simpa using hb)
        rwa [show s + (i + 1) = s + 1 + i by omega] at this
      · intro i i' b b' x hii hb hb' hx
        have := hdis (i + 1) (i' + 1) b b' x (by omega) (by simpa using hb) (by simpa using hb')
          (by rwa [show s + (i + 1) = s + 1 + i by omega])
        rwa [show s + (i' + 1) = s + 1 + i' by omega] at this
    · intro x hx y hy e
      subst e
      rw [mem_walkIdx] at hy
      obtain ⟨i, b, hb, hy⟩ := hy
      have := hdis 0 (i + 1) a b x (by omega) rfl (by simpa using hb) (by simpa using hx)
      rw [show s + (i + 1) = s + 1 + i by omega] at this
      exact this hy

theorem nodup_nodeBlock (c : Nat) {ksl : List (List DNA)} (h : ksl.Nodup) : (nodeBlock c ksl).Nodup := by
  unfold nodeBlock List.Nodup
  rw [List.pairwise_map]
  exact h.imp (fun hne e => hne (node_inj e))

theorem nodup_enumSeq (subs : List (List (List DNA))) (hnd : ∀ ksl ∈ subs, ksl.Nodup) (dd ss : Bool) :
    ∀ (j : Nat) (prior : List Nat), (enumSeq subs dd ss prior j).Nodup := by
  intro j
  induction j with
  | zero => intro prior; simp [enumSeq]
  | succ j ih =>
    intro prior
    rw [enumSeq_succ]
    apply nodup_walkIdx_of
    · intro i b hb
      simp only [blk, Nat.zero_add]
      by_cases ha : admissible dd ss prior i = true
      · simp only [ha, if_true]
        exact nodup_lexProd (nodup_nodeBlock _ (hnd b (List.mem_of_getElem? hb))) (ih _)
      · simp [ha]
    · intro i i' b b' x hii _ _ hx hx'
      simp only [blk, Nat.zero_add] at hx hx'
      by_cases ha : admissible dd ss prior i = true
      · by_cases ha' : admissible dd ss prior i' = true
        · simp only [ha, ha', if_true] at hx hx'
          rw [mem_lexProd] at hx hx'
          obtain ⟨a, ham, e, _, rfl⟩ := hx
          obtain ⟨a', ham', e', _, h2⟩ := hx'
          cases h2
          simp only [nodeBlock, List.mem_map] at ham ham'
          obtain ⟨_, _, rfl⟩ := ham
          obtain ⟨_, _, h3⟩ := ham'
          have h4 := congrArg DNA.value h3
          simp only [DNA.value, Val.int.injEq] at h4
          omega
        · simp [ha'] at hx'
      · simp [ha] at hx

/-! ### explicit first completion -/

theorem minRemLoop_true_take : ∀ (j : Nat) (l : List Nat), j ≤ l.length → minRemLoop true j l = some (l.take j)
  | 0, l, _ => by simp [minRemLoop]
  | j + 1, [], h => by simp at h
  | j + 1, p :: ps, h => by
    simp only [minRemLoop, if_true, minRemLoop_true_take j ps (by simpa using h), Option.map_some,
      List.take_succ_cons]

theorem minRemLoop_false_rep (p : Nat) (ps : List Nat) : ∀ (j : Nat),
    minRemLoop false j (p :: ps) = some (List.replicate j p)
  | 0 => by simp [minRemLoop]
  | j + 1 => by
    simp only [minRemLoop, Bool.false_eq_true, if_false, minRemLoop_false_rep p ps j, Option.map_some,
      List.replicate_succ]

theorem poss_nil (n : Nat) (dd ss : Bool) : poss n dd ss [] = List.range n := by
  unfold poss
  apply List.filter_eq_self.mpr
  intro x _
  simp [admissible]

theorem take_range {k n : Nat} (h : k ≤ n) : (List.range n).take k = List.range k := by
  apply List.ext_getElem
  · simp [Nat.min_eq_left h]
  · intro i h1 h2
    simp

theorem firstChoices (n k : Nat) (dd ss : Bool) (hn : 1 ≤ n) (hd : dd = true → k ≤ n) :
    minRemLoop dd k (poss n dd ss []) = some ((List.range k).map fun i => if dd then i else 0) := by
  rw [poss_nil]
  cases dd with
  | true =>
    rw [minRemLoop_true_take k _ (by simpa using hd rfl), take_range (hd rfl)]
    simp
  | false =>
    obtain ⟨m, rfl⟩ : ∃ m, n = m + 1 := ⟨n - 1, by omega⟩
    have : List.range (m + 1) = 0 :: (List.range m).map (· + 1) := by
      rw [List.range_succ_eq_map]
    rw [this, minRemLoop_false_rep]
    simp only [Bool.false_eq_true, if_false, Option.some.injEq]
    apply List.ext_getElem
    · simp
    · intro i h1 h2; simp

end Pg.Geno
