/-
  C09 — the position-shifting list operations (`applyEdit`): silence, freshness, and what the
  recorded updates say (truthfulness of old / new values).
-/
import PgProofs.Notify
import PgProofs.NotifySpec
namespace Pg.C09
open T
open Pg.C08 (Atom Key)

theorem freshItems_filter (p : Key × T → Bool) (items : List (Key × T)) (h : FreshItems items) :
    FreshItems (items.filter p) := by
  rw [freshItems_iff] at h ⊢
  intro x hx; exact h x (List.mem_filter.1 hx).1

mutual
  /-- The change handlers of the notified nodes (memos reset, placeholders dropped) keep the tree fresh. -/
  theorem purgeSet_fresh : (paths : List Path) → (t : T) → Fresh t → Fresh (purgeSet paths t)
    | _, .leaf a, h => by simpa [purgeSet] using h
    | paths, .node m kd items, h => by
      simp only [Fresh] at h
      simp only [purgeSet]
      split
      · simp only [Fresh]; exact h
      · have hi := purgeItems_fresh paths items h.2
        simp only [Fresh]
        refine ⟨⟨Or.inl trivial, Or.inl trivial⟩, ?_⟩
        split
        · exact freshItems_reindex _ (freshItems_filter _ _ hi)
        · exact hi
  theorem purgeItems_fresh : (paths : List Path) → (items : List (Key × T)) → FreshItems items →
      FreshItems (purgeItems paths items)
    | _, [], _ => by simp [purgeItems, FreshItems]
    | paths, (k, t) :: rest, h => by
      simp only [FreshItems] at h
      simp only [purgeItems, FreshItems]
      exact ⟨purgeSet_fresh (tailsFor k paths) t h.1, purgeItems_fresh paths rest h.2⟩
end

theorem finish_fresh' (r' : T) (ups : List (Update × Path)) (n : Bool) (h : Fresh r') :
    Fresh (finish r' ups n).tree := by
  unfold finish; split
  · exact purgeSet_fresh _ _ (resetAll_fresh ups r' h)
  · exact h

theorem finish_events_off (r' : T) (ups : List (Update × Path)) : (finish r' ups false).events = [] := by
  simp [finish]

theorem applyEdit_events_off (root : T) (recv : Path) (f : List T → Option Edit) :
    (applyEdit root recv false f).events = [] := by
  unfold applyEdit
  split
  · split
    · rfl
    · exact finish_events_off _ _
  · rfl

theorem applyKeyEdit_events_off (root : T) (recv : Path)
    (f : List (Key × T) → Option (List (Key × T) × List (Key × Option T × Option T))) :
    (applyKeyEdit root recv false f).events = [] := by
  unfold applyKeyEdit
  split
  · split
    · rfl
    · exact finish_events_off _ _
  · rfl

theorem fresh_getAt : (p : Path) → (root t : T) → Fresh root → getAt root p = some t → Fresh t
  | [], root, t, h, hg => by simp only [getAt, Option.some.injEq] at hg; subst hg; exact h
  | k :: rest, .leaf a, t, h, hg => by simp [getAt, child] at hg
  | k :: rest, .node m kd items, t, h, hg => by
    simp only [getAt, child] at hg
    cases hc : lookup k items with
    | none => simp [hc] at hg
    | some c =>
      simp only [hc] at hg
      simp only [Fresh] at h
      exact fresh_getAt rest c t (freshItems_lookup items h.2 hc) hg

theorem freshItems_indexed (vs : List T) (h : ∀ v ∈ vs, Fresh v) : FreshItems (indexed vs) := by
  rw [freshItems_iff]
  intro x hx
  simp only [indexed, List.mem_map] at hx
  obtain ⟨⟨i, t⟩, hz, rfl⟩ := hx
  exact h t (List.of_mem_zip hz).2

/-- An edit whose new values are all fresh keeps the tree fresh. -/
theorem applyEdit_fresh (root : T) (recv : Path) (n : Bool) (f : List T → Option Edit) (hf : Fresh root)
    (hed : ∀ xs e, (∀ x ∈ xs, Fresh x) → f xs = some e → ∀ y ∈ e.vals, Fresh y) :
    Fresh (applyEdit root recv n f).tree := by
  unfold applyEdit
  split
  · next m items hg =>
    split
    · exact hf
    · next e he =>
      have hnode := fresh_getAt recv root _ hf hg
      simp only [Fresh] at hnode
      have hxs : ∀ x ∈ items.map (·.2), Fresh x := by
        intro x hx
        obtain ⟨y, hy, rfl⟩ := List.mem_map.1 hx
        exact (freshItems_iff items).1 hnode.2 y hy
      have hv := hed _ e hxs he
      refine finish_fresh' _ _ _ ?_
      exact mapAt_resetChain_fresh (setVals e.vals) (fun _ => rfl)
        (fun m kd its _ => ⟨indexed e.vals, rfl, freshItems_indexed e.vals hv⟩) recv root hf
  · exact hf

theorem applyKeyEdit_fresh (root : T) (recv : Path) (n : Bool)
    (f : List (Key × T) → Option (List (Key × T) × List (Key × Option T × Option T))) (hf : Fresh root)
    (hed : ∀ items r, FreshItems items → f items = some r → FreshItems r.1) :
    Fresh (applyKeyEdit root recv n f).tree := by
  unfold applyKeyEdit
  split
  · next m items hg =>
    split
    · exact hf
    · next items' ents he =>
      have hnode := fresh_getAt recv root _ hf hg
      simp only [Fresh] at hnode
      have hv := hed items (items', ents) hnode.2 he
      refine finish_fresh' _ _ _ ?_
      exact mapAt_resetChain_fresh _ (fun _ => rfl) (fun m kd its _ => ⟨items', rfl, hv⟩) recv root hf
  · exact hf

/-! ### the new values of each edit are old values or values handed in -/

theorem mem_setAll {α : Type} : (ps : List Nat) → (vs xs : List α) → ∀ y ∈ Pg.C08.setAll xs ps vs, y ∈ xs ∨ y ∈ vs
  | [], _, xs, y, h => by simp [Pg.C08.setAll] at h; exact Or.inl h
  | _ :: _, [], xs, y, h => by simp [Pg.C08.setAll] at h; exact Or.inl h
  | p :: ps, v :: vs, xs, y, h => by
    simp only [Pg.C08.setAll] at h
    rcases mem_setAll ps vs (xs.set p v) y h with h1 | h1
    · rcases List.mem_or_eq_of_mem_set h1 with h2 | h2
      · exact Or.inl h2
      · exact Or.inr (by simp [h2])
    · exact Or.inr (List.mem_cons_of_mem _ h1)

theorem mem_eraseAll {α : Type} (xs : List α) (ps : List Nat) : ∀ y ∈ Pg.C08.eraseAll xs ps, y ∈ xs := by
  intro y hy
  simp only [Pg.C08.eraseAll, List.mem_filterMap] at hy
  obtain ⟨⟨i, x⟩, hz, hx⟩ := hy
  split at hx
  · cases hx
  · cases hx; exact (List.of_mem_zip hz).2

theorem mem_repeatVals (xs : List T) : (n : Nat) → ∀ y ∈ repeatVals xs n, y ∈ xs
  | 0, y, h => by simp [repeatVals] at h
  | n + 1, y, h => by
    simp only [repeatVals, List.mem_append] at h
    rcases h with h | h
    · exact h
    · exact mem_repeatVals xs n y h

section EditVals
variable {xs : List T} {e : Edit}

theorem editInsert_vals (i : Int) (v : T) (h : editInsert i v xs = some e) : ∀ y ∈ e.vals, y ∈ xs ∨ y = v := by
  simp only [editInsert, Option.some.injEq] at h; subst h
  intro y hy
  simp only [Pg.C08.insertAt, List.mem_append, List.mem_cons] at hy
  rcases hy with hy | hy | hy
  · exact Or.inl (List.mem_of_mem_take hy)
  · exact Or.inr hy
  · exact Or.inl (List.mem_of_mem_drop hy)

theorem editDelIdx_vals (i : Int) (h : editDelIdx i xs = some e) : ∀ y ∈ e.vals, y ∈ xs := by
  simp only [editDelIdx] at h
  split at h
  · cases h
  · simp only [Option.some.injEq] at h; subst h
    intro y hy; exact (List.eraseIdx_sublist _ _).subset hy

theorem editRemove_vals (a : Atom) (h : editRemove a xs = some e) : ∀ y ∈ e.vals, y ∈ xs := by
  simp only [editRemove] at h
  split at h
  · cases h
  · simp only [Option.some.injEq] at h; subst h
    intro y hy; exact (List.eraseIdx_sublist _ _).subset hy

theorem editDelSlice_vals (a b st : Option Int) (h : editDelSlice a b st xs = some e) : ∀ y ∈ e.vals, y ∈ xs := by
  simp only [editDelSlice] at h
  split at h
  · cases h
  · simp only [Option.some.injEq] at h; subst h
    exact mem_eraseAll _ _

theorem editSetSlice_vals (n : Bool) (a b st : Option Int) (vs : List T) (h : editSetSlice n a b st vs xs = some e) :
    ∀ y ∈ e.vals, y ∈ xs ∨ y ∈ vs := by
  simp only [editSetSlice] at h
  split at h
  · cases h
  · split at h
    · split at h
      · cases h
      · simp only [Option.some.injEq] at h; subst h
        intro y hy
        simp only [List.mem_append] at hy
        rcases hy with (hy | hy) | hy
        · exact Or.inl (List.mem_of_mem_take hy)
        · exact Or.inr hy
        · exact Or.inl (List.mem_of_mem_drop hy)
    · split at h
      · cases h
      · simp only [Option.some.injEq] at h; subst h
        exact mem_setAll _ _ _

theorem editIMul_vals (k : Int) (h : editIMul k xs = some e) : ∀ y ∈ e.vals, y ∈ xs := by
  simp only [editIMul] at h
  split at h
  · simp only [editClear, Option.some.injEq] at h; subst h; simp
  · simp only [Option.some.injEq] at h; subst h
    intro y hy
    simp only [List.mem_append] at hy
    rcases hy with hy | hy
    · exact hy
    · exact mem_repeatVals xs _ y hy

end EditVals

end Pg.C09

namespace Pg.C09
open T
open Pg.C08 (Atom Key)

theorem appendEnts_old : (n : Nat) → (vs : List T) → ∀ x ∈ appendEnts n vs, x.2.1 = none
  | _, [], x, h => by simp [appendEnts] at h
  | n, v :: vs, x, h => by
    simp only [appendEnts, List.mem_cons] at h
    rcases h with rfl | h
    · rfl
    · exact appendEnts_old (n + 1) vs x h

theorem clearEnts_old : (n : Nat) → (vs : List T) → ∀ x ∈ clearEnts n vs, n ≤ x.1 ∧ x.2.1 = vs[x.1 - n]?
  | _, [], x, h => by simp [clearEnts] at h
  | n, v :: vs, x, h => by
    simp only [clearEnts, List.mem_cons] at h
    rcases h with rfl | h
    · simp
    · obtain ⟨h1, h2⟩ := clearEnts_old (n + 1) vs x h
      refine ⟨by omega, ?_⟩
      rw [h2]
      have : x.1 - n = (x.1 - (n + 1)) + 1 := by omega
      rw [this]; simp

theorem movedEnts_old (old new : List T) (src : Nat → Nat) :
    (c : Nat) → ∀ x ∈ movedEnts old new src c, x.2.1 = old[x.1]?
  | 0, x, h => by simp [movedEnts] at h
  | c + 1, x, h => by
    have ih := movedEnts_old old new src c
    simp only [movedEnts] at h
    split at h
    · next o nn ho hn =>
      split at h
      · exact ih x h
      · simp only [List.mem_cons] at h
        rcases h with rfl | h
        · exact ho.symm
        · exact ih x h
    · exact ih x h

theorem appendEnts_new : (n : Nat) → (vs : List T) → ∀ x ∈ appendEnts n vs, n ≤ x.1 ∧ x.2.2 = vs[x.1 - n]?
  | _, [], x, h => by simp [appendEnts] at h
  | n, v :: vs, x, h => by
    simp only [appendEnts, List.mem_cons] at h
    rcases h with rfl | h
    · simp
    · obtain ⟨h1, h2⟩ := appendEnts_new (n + 1) vs x h
      refine ⟨by omega, ?_⟩
      rw [h2]
      have : x.1 - n = (x.1 - (n + 1)) + 1 := by omega
      rw [this]; simp

theorem clearEnts_new : (n : Nat) → (vs : List T) → ∀ x ∈ clearEnts n vs, x.2.2 = none
  | _, [], x, h => by simp [clearEnts] at h
  | n, v :: vs, x, h => by
    simp only [clearEnts, List.mem_cons] at h
    rcases h with rfl | h
    · rfl
    · exact clearEnts_new (n + 1) vs x h

theorem movedEnts_new (old new : List T) (src : Nat → Nat) :
    (c : Nat) → ∀ x ∈ movedEnts old new src c, x.2.2 = new[x.1]?
  | 0, x, h => by simp [movedEnts] at h
  | c + 1, x, h => by
    have ih := movedEnts_new old new src c
    simp only [movedEnts] at h
    split at h
    · next o nn ho hn =>
      split at h
      · exact ih x h
      · simp only [List.mem_cons] at h
        rcases h with rfl | h
        · exact hn.symm
        · exact ih x h
    · exact ih x h

theorem insertAt_get (xs : List T) (p : Nat) (v : T) (hp : p ≤ xs.length) : (Pg.C08.insertAt xs p v)[p]? = some v := by
  simp only [Pg.C08.insertAt]
  rw [List.getElem?_append_right (by simp [List.length_take]; omega)]
  simp [List.length_take, Nat.min_eq_left hp]

theorem sliceEnts_old (xs : List T) (start size : Nat) (vs : List T) :
    (c : Nat) → ∀ x ∈ sliceEnts xs start size vs c, x.2.1 = none ∨ x.2.1 = xs[x.1]?
  | 0, x, h => by simp [sliceEnts] at h
  | c + 1, x, h => by
    have ih := sliceEnts_old xs start size vs c
    simp only [sliceEnts] at h
    split at h
    · split at h
      · next o ho =>
        split at h
        · exact ih x h
        · simp only [List.mem_cons] at h
          rcases h with rfl | h
          · exact Or.inr ho.symm
          · exact ih x h
      · simp only [List.mem_cons] at h
        rcases h with rfl | h
        · exact Or.inl rfl
        · exact ih x h
    · simp only [List.mem_cons] at h
      rcases h with rfl | h
      · exact Or.inl rfl
      · exact ih x h
    · simp only [List.mem_cons] at h
      rcases h with rfl | h
      · exact Or.inr rfl
      · exact ih x h
    · exact ih x h

theorem replEnts_old (xs : List T) : (ps : List Nat) → (vs : List T) →
    ∀ x ∈ replEnts xs ps vs, x.2.1 = none ∨ x.2.1 = xs[x.1]?
  | [], _, x, h => by simp [replEnts] at h
  | _ :: _, [], x, h => by simp [replEnts] at h
  | p :: ps, v :: vs, x, h => by
    have ih := replEnts_old xs ps vs
    simp only [replEnts] at h
    split at h
    · next o ho =>
      split at h
      · exact ih x h
      · simp only [List.mem_cons] at h
        rcases h with rfl | h
        · exact Or.inr ho.symm
        · exact ih x h
    · exact ih x h

/-! ### truthfulness of the recorded old / new values

`getAt t p` is the value at location `p` (`none` = nothing there = MISSING_VALUE). -/

mutual
  /-- The keys of every list node are its positions `0 .. n-1`. -/
  def ListIndexed : T → Prop
    | .leaf _ => True
    | .node _ kd items =>
      (kd = .list → items.map (·.1) = (List.range items.length).map Key.i) ∧ ListIndexedItems items
  def ListIndexedItems : List (Key × T) → Prop
    | [] => True
    | (_, t) :: rest => ListIndexed t ∧ ListIndexedItems rest
end

theorem listIndexedItems_lookup {k : Key} {c : T} :
    (items : List (Key × T)) → ListIndexedItems items → lookup k items = some c → ListIndexed c
  | [], _, h => by simp [lookup] at h
  | (k', v) :: rest, hf, h => by
    simp only [ListIndexedItems] at hf
    simp only [lookup] at h
    split at h
    · cases h; exact hf.1
    · exact listIndexedItems_lookup rest hf.2 h

theorem lookup_none_of_not_mem {k : Key} : (items : List (Key × T)) → k ∉ items.map (·.1) → lookup k items = none
  | [], _ => rfl
  | (k', v) :: rest, h => by
    simp only [List.map_cons, List.mem_cons, not_or] at h
    have : ¬ k' = k := fun e => h.1 e.symm
    simp only [lookup, this, if_false]
    exact lookup_none_of_not_mem rest h.2

theorem lookup_eraseKv_self {k : Key} : (items : List (Key × T)) → (items.map (·.1)).Nodup →
    lookup k (eraseKv k items) = none
  | [], _ => rfl
  | (k', v) :: rest, h => by
    simp only [List.map_cons, List.nodup_cons] at h
    simp only [eraseKv]
    split
    · next e => subst e; exact lookup_none_of_not_mem rest h.1
    · next e => simp only [lookup, e, if_false]; exact lookup_eraseKv_self rest h.2

theorem lookup_append_new {k : Key} {v : T} : (items : List (Key × T)) → lookup k items = none →
    lookup k (items ++ [(k, v)]) = some v
  | [], _ => by simp [lookup]
  | (k', v') :: rest, h => by
    simp only [lookup] at h
    split at h
    · cases h
    · next e => simp only [List.cons_append, lookup, e, if_false]; exact lookup_append_new rest h

theorem getAt_cons (t c : T) (k : Key) (p : Path) (h : t.child k = some c) : getAt t (k :: p) = getAt c p := by
  simp [getAt, h]

/-- TRUTHFULNESS of one write (`_set_item_without_permission_check` at any depth): the FieldUpdate it
records names the written location, its `old` is what was at that location before the write, its
`new` what is there after it (`none` = MISSING_VALUE = nothing there). -/
theorem writeAt_truthful :
    (p : Path) → (t : T) → (here : Path) → (k : Key) → (v : Option T) → (t' : T) → (u : Update) →
      KeysNodup t → ListIndexed t → writeAt t here p k v = some (t', some u) →
      ∃ k', u.path = here ++ p ++ [k'] ∧ getAt t (p ++ [k']) = u.old ∧ getAt t' (p ++ [k']) = u.new
  | _, .leaf _, _, _, _, _, _, _, _, h => by simp [writeAt] at h
  | [], .node m kd items, here, k, v, t', u, hk, hl, h => by
    simp only [KeysNodup] at hk
    simp only [ListIndexed] at hl
    simp only [writeAt] at h
    cases v with
    | none =>
      simp only at h
      cases ho : lookup k items with
      | none => simp [ho] at h
      | some o =>
        simp only [ho, Option.some.injEq, Prod.mk.injEq] at h
        obtain ⟨h1, h2⟩ := h
        subst h1; subst h2
        exact ⟨k, by simp, by simp [getAt, child, ho], by simp [getAt, child, lookup_eraseKv_self items hk.1]⟩
    | some nv =>
      simp only at h
      by_cases ha : atomEq (lookup k items) nv = true
      · simp [ha] at h
      · simp only [ha, Bool.false_eq_true, if_false] at h
        have hset : some (T.node m kd (setKv k nv items),
              some ({ path := here ++ [k], old := lookup k items, new := some nv } : Update)) = some (t', some u) →
            ∃ k', u.path = here ++ [] ++ [k'] ∧ getAt (T.node m kd items) ([] ++ [k']) = u.old ∧
              getAt t' ([] ++ [k']) = u.new := by
          intro h
          simp only [Option.some.injEq, Prod.mk.injEq] at h
          obtain ⟨h1, h2⟩ := h
          subst h1; subst h2
          refine ⟨k, by simp, ?_, by simp [getAt, child, lookup_setKv_self]⟩
          simp only [List.nil_append, getAt, child]
          cases lookup k items <;> rfl
        cases ho : lookup k items with
        | some o => cases kd <;> (simp only [ho] at h hset; exact hset h)
        | none =>
          cases kd with
          | obj => simp [ho] at h
          | dict => simp only [ho] at h hset; exact hset h
          | list =>
            -- a list index past the end: appended at `len`
            simp only [ho, Option.some.injEq, Prod.mk.injEq] at h
            obtain ⟨h1, h2⟩ := h
            subst h1; subst h2
            have hnew : lookup (Key.i items.length) items = none := by
              apply lookup_none_of_not_mem
              rw [hl.1 rfl]
              simp
            exact ⟨Key.i items.length, by simp, by simp [getAt, child, hnew],
              by simp [getAt, child, lookup_append_new items hnew]⟩
  | k1 :: rest, .node m kd items, here, k, v, t', u, hk, hl, h => by
    simp only [KeysNodup] at hk
    simp only [ListIndexed] at hl
    simp only [writeAt] at h
    cases hc : lookup k1 items with
    | none => simp [hc] at h
    | some c =>
      simp only [hc] at h
      cases hw : writeAt c (here ++ [k1]) rest k v with
      | none => simp [hw] at h
      | some r =>
        obtain ⟨c', ou⟩ := r
        simp only [hw, Option.some.injEq, Prod.mk.injEq] at h
        obtain ⟨h1, h2⟩ := h
        subst h1; subst h2
        obtain ⟨k', hp, hold, hnew⟩ := writeAt_truthful rest c (here ++ [k1]) k v c' u
          (keysNodupItems_mem items hk.2 (mem_of_lookup items hc)) (listIndexedItems_lookup items hl.2 hc) hw
        refine ⟨k', by simp [hp], ?_, ?_⟩
        · rw [List.cons_append, getAt_cons _ c _ _ (by simp [child, hc])]; exact hold
        · rw [List.cons_append, getAt_cons _ c' _ _ (by simp [child, lookup_setKv_self])]; exact hnew

end Pg.C09

namespace Pg.C09
open T
open Pg.C08 (Atom Key)

/-! ### bulk operations: all updates are owned by one node -/

/-- The updates of one bulk operation on the container at `recv`. -/
def ownedUps (recv : Path) (ents : List (Key × Option T × Option T)) : List (Update × Path) :=
  ents.map fun x => ({ path := recv ++ [x.1], old := x.2.1, new := x.2.2 }, recv)

theorem entriesFor_owned (q recv : Path) (ents : List (Key × Option T × Option T)) :
    entriesFor q (ownedUps recv ents) =
      if q <+: recv then ents.map (fun x => ((recv ++ [x.1]).drop q.length, x.2.1, x.2.2)) else [] := by
  induction ents with
  | nil => simp [ownedUps, entriesFor]
  | cons x rest ih =>
    simp only [ownedUps, entriesFor, List.map_cons, List.filterMap_cons] at ih ⊢
    by_cases h : q <+: recv
    · simp only [h, if_true] at ih ⊢
      rw [ih]
    · simp only [h, if_false] at ih ⊢
      exact ih

/-- What the contract demands for a bulk operation, in closed form: every subscribing node on the
path from the root to the container (the container included) gets one event carrying *all* the
entries of the operation, relative to itself; every other node gets nothing. -/
def bulkSpec (r' : T) (recv : Path) (ents : List (Key × Option T × Option T)) : List Event :=
  (allSubs r' []).filterMap fun s =>
    if s.1 <+: recv then
      some { recv := s.2, entries := ents.map (fun x => ((recv ++ [x.1]).drop s.1.length, x.2.1, x.2.2)) }
    else none

theorem specNotifs_owned (r' : T) (recv : Path) (ents : List (Key × Option T × Option T)) (hne : ents ≠ []) :
    specNotifs r' (ownedUps recv ents) = bulkSpec r' recv ents := by
  unfold specNotifs bulkSpec
  congr 1
  funext s
  rw [entriesFor_owned]
  by_cases h : s.1 <+: recv
  · simp only [h, if_true]
    cases ents with
    | nil => exact absurd rfl hne
    | cons x rest => simp
  · simp [h]

end Pg.C09

namespace Pg.C09
open T
open Pg.C08 (Atom Key)

theorem mem_reindex {x : Key × T} (xs : List (Key × T)) (h : x ∈ reindex xs) : ∃ y ∈ xs, y.2 = x.2 := by
  simp only [reindex, List.mem_map] at h
  obtain ⟨⟨i, t⟩, hz, rfl⟩ := h
  have := (List.of_mem_zip hz).2
  simp only [List.mem_map] at this
  obtain ⟨y, hy, rfl⟩ := this
  exact ⟨y, hy, rfl⟩

/-- A List whose change handler ran holds no MISSING_VALUE placeholder afterwards. -/
theorem purgeSet_list_clean (paths : List Path) (hne : paths.isEmpty = false) (m : Meta) (items : List (Key × T)) :
    ∃ m' items', purgeSet paths (.node m .list items) = .node m' .list items' ∧
      ∀ kv ∈ items', isMissingLeaf kv.2 = false := by
  refine ⟨{ m with cache := none, miss := none },
    reindex ((purgeItems paths items).filter fun kv => !isMissingLeaf kv.2), by simp [purgeSet, hne], ?_⟩
  intro kv hkv
  obtain ⟨y, hy, hyx⟩ := mem_reindex _ hkv
  have := (List.mem_filter.1 hy).2
  rw [← hyx]
  simpa using this

end Pg.C09
