/-
  C04: `Dict(child schema).extend(Dict(base schema))` only narrows when the child declares no key the
  base does not have, shared fields are in `ExtOk`, and no field default can fill a missing key
  (the complement of the F42 condition).
-/
import PgProofs.TypingExtend
namespace Pg.Typing

/-- `extend` never touches the flags of a non-`Dict` child. -/
theorem extendSelf_flags (env : Env) (child base c' : Spec) (hk : child.kind ≠ .dict)
    (h : extendSelf env child base = .ok c') : c'.flags = child.flags := by
  cases child <;> simp [Spec.kind] at hk <;> unfold extendSelf at h <;> (repeat' split at h) <;>
    (cases h <;> rfl)

/-- … nor of a `Dict` child inside `ExtOk` (schema-less over schema-less, or over `Any`). -/
theorem extendSelf_flags_ok (env : Env) (child base c' : Spec) (hok : ExtOk child base = true)
    (h : extendSelf env child base = .ok c') : c'.flags = child.flags := by
  by_cases hk : child.kind = .dict
  · cases child <;> simp [Spec.kind] at hk
    rename_i fields f
    simp only [ExtOk, Bool.and_eq_true, Bool.not_eq_true'] at hok
    obtain ⟨hcf, hb⟩ := hok
    cases hpre : extendPre env (.dict fields f) base with
    | error e => rw [extendSelf, hpre] at h; cases h
    | ok r =>
      cases base with
      | any bf =>
        obtain ⟨_, hr⟩ := extendPre_ok env (.dict fields f) _ r hcf rfl hpre
        simp [Spec.kind] at hr; subst hr
        rw [extendSelf, hpre] at h; injection h with h; subst h; rfl
      | dict bfields bf =>
        obtain ⟨_, hr⟩ := extendPre_ok env (.dict fields f) _ r hcf rfl hpre
        simp [Spec.kind, Spec.flags] at hr
        obtain ⟨hr, _⟩ := hr; subst hr
        cases bfields with
        | some bfs => simp at hb
        | none =>
          rw [extendSelf, hpre] at h
          injection h with h; subst h; rfl
      | _ => simp at hb
  · exact extendSelf_flags env child base c' hk h

/-! ### Field lists -/

theorem mem_constOnly_key (xs : List Field) (hc : constOnly xs = true) (fld : Field) (hm : fld ∈ xs) :
    ∃ k, fld.key = .const k ∧ (constKeys xs).contains k = true := by
  induction xs with
  | nil => cases hm
  | cons x xs ih =>
    obtain ⟨kx, sx⟩ := x
    cases kx with
    | strKey r => simp [constOnly] at hc
    | const kx =>
      simp only [constOnly] at hc
      simp only [List.mem_cons] at hm
      rcases hm with hm | hm
      · subst hm; exact ⟨kx, rfl, by simp [constKeys]⟩
      · obtain ⟨k, h1, h2⟩ := ih hc hm
        refine ⟨k, h1, ?_⟩
        simp only [constKeys, List.contains_cons, Bool.or_eq_true]
        exact Or.inr h2

/-- In a list of distinct const keys, a key-preserving map is looked up member by member. -/
theorem findField_map_mem (g : Field → Field) (hg : ∀ x, (g x).key = x.key) (bfs : List Field)
    (hc : constOnly bfs = true) (hd : distinctStrs (constKeys bfs) = true) :
    ∀ bfld ∈ bfs, findField (bfs.map g) bfld.key = some (g bfld).value := by
  induction bfs with
  | nil => intro b hb; cases hb
  | cons x xs ih =>
    obtain ⟨kx, sx⟩ := x
    cases kx with
    | strKey r => simp [constOnly] at hc
    | const kx =>
      simp only [constOnly] at hc
      simp only [constKeys, distinctStrs, Bool.and_eq_true, Bool.not_eq_true'] at hd
      intro bfld hm
      have hgx := hg ⟨.const kx, sx⟩
      cases hgv : g ⟨.const kx, sx⟩ with
      | mk k' s' =>
        rw [hgv] at hgx
        simp only [Field.key] at hgx
        subst hgx
        simp only [List.mem_cons] at hm
        rcases hm with hm | hm
        · subst hm
          simp [findField, hgv, Field.key, Field.value]
        · obtain ⟨kb, hkb, hin⟩ := mem_constOnly_key xs hc bfld hm
          have hne : kx ≠ kb := by
            intro e; subst e; rw [hin] at hd; cases hd.1
          simp only [List.map_cons, hgv, findField, hkb]
          have : (KeySpec.const kx == KeySpec.const kb) = false := by simp [hne]
          simp only [this, Bool.false_eq_true, if_false]
          rw [← hkb]
          exact ih hc hd.2 bfld hm

theorem findField_mem (bfs : List Field) (hc : constOnly bfs = true)
    (hd : distinctStrs (constKeys bfs) = true) (bfld : Field) (hm : bfld ∈ bfs) :
    findField bfs bfld.key = some bfld.value := by
  have := findField_map_mem id (fun _ => rfl) bfs hc hd bfld hm
  simpa using this

theorem findField_some_mem (fs : List Field) (k : KeySpec) (s : Spec) (h : findField fs k = some s) :
    Field.mk k s ∈ fs := by
  induction fs with
  | nil => simp [findField] at h
  | cons x xs ih =>
    obtain ⟨kx, sx⟩ := x
    simp only [findField] at h
    split at h
    · rename_i he
      injection h with h; subst h
      have : kx = k := by simpa using he
      subst this; exact List.mem_cons_self
    · exact List.mem_cons_of_mem _ (ih h)

theorem constOnly_map (g : Field → Field) (hg : ∀ x, (g x).key = x.key) (bfs : List Field) :
    constOnly (bfs.map g) = constOnly bfs ∧ constKeys (bfs.map g) = constKeys bfs := by
  induction bfs with
  | nil => exact ⟨rfl, rfl⟩
  | cons x xs ih =>
    obtain ⟨kx, sx⟩ := x
    have hgx := hg ⟨kx, sx⟩
    cases hgv : g ⟨kx, sx⟩ with
    | mk k' s' =>
      rw [hgv] at hgx
      simp only [Field.key] at hgx
      subst hgx
      cases k' with
      | const k => simp only [List.map_cons, hgv, constOnly, constKeys, ih.1, ih.2, and_self]
      | strKey r => simp only [List.map_cons, hgv, constOnly, constKeys, ih.2, and_self]

theorem fieldsCompat_of (env : Env) (xs ofs : List Field)
    (h : ∀ fld ∈ xs, ∃ os, findField ofs fld.key = some os ∧ isCompatible env fld.value os = true) :
    fieldsCompat env xs ofs = true := by
  induction xs with
  | nil => rfl
  | cons x xs ih =>
    obtain ⟨k, s⟩ := x
    obtain ⟨os, h1, h2⟩ := h ⟨k, s⟩ List.mem_cons_self
    simp only [Field.key, Field.value] at h1 h2
    simp only [fieldsCompat, h1, h2, Bool.true_and]
    exact ih (fun fld hf => h fld (List.mem_cons_of_mem _ hf))

theorem fieldsOk_of (xs ofs : List Field)
    (h : ∀ fld ∈ xs, ∀ os, findField ofs fld.key = some os →
      CompatOk fld.value os = true ∧ os.flags.default.isMissing = true) :
    fieldsOk xs ofs = true := by
  induction xs with
  | nil => rfl
  | cons x xs ih =>
    obtain ⟨k, s⟩ := x
    simp only [fieldsOk, Bool.and_eq_true]
    refine ⟨?_, ih (fun fld hf => h fld (List.mem_cons_of_mem _ hf))⟩
    cases hf : findField ofs k with
    | none => rfl
    | some os =>
      obtain ⟨h1, h2⟩ := h ⟨k, s⟩ List.mem_cons_self os hf
      simp only [Field.value] at h1
      simp [h1, h2]

/-- What `extendFields` returns, key by key. -/
theorem extendFields_spec (env : Env) (bfs : List Field) (fs : List Field) :
    ∀ fs', extendFields env fs bfs = .ok fs' →
      fs'.map Field.key = fs.map Field.key ∧
      ∀ k, (findField fs k = none → findField fs' k = none) ∧
        (∀ s, findField fs k = some s → ∃ s', findField fs' k = some s' ∧
          match findField bfs k with
          | none => s' = s
          | some bs => extendSelf env s bs = .ok s') := by
  induction fs with
  | nil =>
    intro fs' h
    simp only [extendFields] at h
    injection h with h; subst h
    exact ⟨rfl, fun k => ⟨fun _ => rfl, fun s hs => by simp [findField] at hs⟩⟩
  | cons x xs ih =>
    obtain ⟨kx, sx⟩ := x
    intro fs' h
    simp only [extendFields] at h
    have key : ∃ sx' rest', (match findField bfs kx with
          | none => sx' = sx
          | some bs => extendSelf env sx bs = .ok sx') ∧
        extendFields env xs bfs = .ok rest' ∧ fs' = Field.mk kx sx' :: rest' := by
      cases hb : findField bfs kx with
      | none =>
        simp only [hb] at h
        cases hr : extendFields env xs bfs with
        | error e => simp [hr] at h
        | ok rest' =>
          simp only [hr] at h
          injection h with h
          exact ⟨sx, rest', rfl, rfl, h.symm⟩
      | some bs =>
        simp only [hb] at h
        cases hx : extendSelf env sx bs with
        | error e => simp [hx] at h
        | ok sx' =>
          simp only [hx] at h
          cases hr : extendFields env xs bfs with
          | error e => simp [hr] at h
          | ok rest' =>
            simp only [hr] at h
            injection h with h
            exact ⟨sx', rest', hx, rfl, h.symm⟩
    obtain ⟨sx', rest', hx, hr, hfs'⟩ := key
    subst hfs'
    clear h
    obtain ⟨ihk, ihf⟩ := ih rest' hr
    refine ⟨by simp [Field.key, ihk], ?_⟩
    intro k
    simp only [findField]
    by_cases he : (kx == k) = true
    · simp only [he, if_true]
      refine ⟨fun hn => (by cases hn), ?_⟩
      intro s hs
      have hs : sx = s := by simpa using hs
      subst hs
      refine ⟨sx', rfl, ?_⟩
      have : kx = k := by simpa using he
      subst this
      cases hb : findField bfs kx with
      | none => simp only [hb] at hx; exact hx
      | some bs => simp only [hb] at hx; exact hx
    · simp only [he, Bool.false_eq_true, if_false]
      exact ihf k

/-! ### The exclusions and the theorem -/

/-- The schema pairs for which `Dict(fs).extend(Dict(bfs))` is claimed to narrow: child not frozen
(F44); const keys only, distinct on both sides; the child declares no key the base lacks (added fields
widen the key set by design); every shared field is in `ExtOk` and carries no default (F42: a field
default fills a key the base requires); a base field the child does not override is compatible with
itself and carries no default either. -/
def ExtOkDict (env : Env) (fs : List Field) (f : Flags) (bfs : List Field) : Bool :=
  !f.frozen && constOnly fs && constOnly bfs && distinctStrs (constKeys fs) &&
    distinctStrs (constKeys bfs) &&
    fs.all (fun fld => match findField bfs fld.key with
      | some bs => ExtOk fld.value bs && fld.value.flags.default.isMissing
      | none => false) &&
    bfs.all (fun bfld => hasKey fs bfld.key ||
      (CompatOk bfld.value bfld.value && isCompatible env bfld.value bfld.value &&
        bfld.value.flags.default.isMissing))

def mergeField (fs' : List Field) (bfld : Field) : Field :=
  match findField fs' bfld.key with
  | some s => Field.mk bfld.key s
  | none => bfld

theorem mergeField_key (fs' : List Field) (bfld : Field) : (mergeField fs' bfld).key = bfld.key := by
  unfold mergeField
  cases findField fs' bfld.key <;> rfl

theorem extend_dict_ok (env : Env) (fs : List Field) (f : Flags) (bfs : List Field) (bf : Flags)
    (c' : Spec) (hok : ExtOkDict env fs f bfs = true)
    (h : extendSelf env (.dict (some fs) f) (.dict (some bfs) bf) = .ok c') :
    isCompatible env (.dict (some bfs) bf) c' = true ∧ CompatOk (.dict (some bfs) bf) c' = true := by
  simp only [ExtOkDict, Bool.and_eq_true, Bool.not_eq_true'] at hok
  obtain ⟨⟨⟨⟨⟨⟨hcf, hcfs⟩, hcbfs⟩, hdfs⟩, hdbfs⟩, hshared⟩, hkept⟩ := hok
  cases hpre : extendPre env (.dict (some fs) f) (.dict (some bfs) bf) with
  | error e => rw [extendSelf, hpre] at h; cases h
  | ok r =>
    obtain ⟨hbf, hr⟩ := extendPre_ok env (.dict (some fs) f) _ r hcf rfl hpre
    simp only [Spec.flags] at hbf
    simp [Spec.kind, Spec.flags] at hr
    obtain ⟨hr, hn⟩ := hr; subst hr
    rw [extendSelf, hpre] at h
    simp only at h
    cases hef : extendFields env fs bfs with
    | error e => simp [hef] at h
    | ok fs' =>
      simp only [hef] at h
      obtain ⟨hkeys, hfind⟩ := extendFields_spec env bfs fs fs' hef
      -- no added fields
      have hfilter : fs'.filter (fun fld => !hasKey bfs fld.key) = [] := by
        rw [List.filter_eq_nil_iff]
        intro fld' hm
        have : fld'.key ∈ fs'.map Field.key := List.mem_map.mpr ⟨fld', hm, rfl⟩
        rw [hkeys] at this
        obtain ⟨fld, hfm, hk⟩ := List.mem_map.mp this
        have hsh := (List.all_eq_true.mp hshared) fld hfm
        rw [hk] at hsh
        cases hb : findField bfs fld'.key with
        | none => simp [hb] at hsh
        | some bs => simp [hasKey, hb]
      rw [hfilter, List.append_nil] at h
      generalize hmg : List.map _ bfs = merged at h
      have hmerged : merged = bfs.map (mergeField fs') := by rw [← hmg]; rfl
      subst hmerged
      cases hsa : schemaApply env (bfs.map (mergeField fs')) true [] with
      | error e => simp [hsa] at h
      | ok kvs =>
        simp only [hsa] at h
        injection h with h; subst h
        obtain ⟨hco, hck⟩ := constOnly_map (mergeField fs') (mergeField_key fs') bfs
        -- field by field
        have hper : ∀ bfld ∈ bfs, ∃ os, findField (bfs.map (mergeField fs')) bfld.key = some os ∧
            isCompatible env bfld.value os = true ∧ CompatOk bfld.value os = true ∧
            os.flags.default.isMissing = true := by
          intro bfld hbm
          refine ⟨_, findField_map_mem (mergeField fs') (mergeField_key fs') bfs hcbfs hdbfs bfld hbm, ?_⟩
          have hbfind := findField_mem bfs hcbfs hdbfs bfld hbm
          cases hfk : findField fs bfld.key with
          | none =>
            have := (hfind bfld.key).1 hfk
            simp only [mergeField, this]
            have hk := (List.all_eq_true.mp hkept) bfld hbm
            simp only [hasKey, hfk, Option.isSome_none, Bool.false_or, Bool.and_eq_true] at hk
            exact ⟨hk.1.2, hk.1.1, hk.2⟩
          | some s =>
            obtain ⟨s', hs', hm⟩ := (hfind bfld.key).2 s hfk
            rw [hbfind] at hm
            simp only at hm
            simp only [mergeField, hs', Field.value]
            have hmem := findField_some_mem fs bfld.key s hfk
            have hsh : (match findField bfs bfld.key with
                | some bs => ExtOk s bs && s.flags.default.isMissing
                | none => false) = true := (List.all_eq_true.mp hshared) _ hmem
            rw [hbfind] at hsh
            simp only [Bool.and_eq_true] at hsh
            obtain ⟨h1, h2⟩ := extend_ok env s bfld.value s' hsh.1 hm
            refine ⟨h1, h2, ?_⟩
            rw [extendSelf_flags_ok env s bfld.value s' hsh.1 hm]
            exact hsh.2
        have hall : (bfs.map (mergeField fs')).all (fun of_ => hasKey bfs of_.key) = true := by
          rw [List.all_eq_true]
          intro m hm
          obtain ⟨bfld, hbm, e⟩ := List.mem_map.mp hm
          subst e
          rw [mergeField_key]
          simp [hasKey, findField_mem bfs hcbfs hdbfs bfld hbm]
        have hfc : fieldsCompat env bfs (bfs.map (mergeField fs')) = true :=
          fieldsCompat_of env bfs _ (fun bfld hbm => by
            obtain ⟨os, h1, h2, _⟩ := hper bfld hbm
            exact ⟨os, h1, h2⟩)
        have hfo : fieldsOk bfs (bfs.map (mergeField fs')) = true :=
          fieldsOk_of bfs _ (fun bfld hbm os hos => by
            obtain ⟨os', h1, _, h3, h4⟩ := hper bfld hbm
            rw [h1] at hos; injection hos with hos; subst hos
            exact ⟨h3, h4⟩)
        have hn' : (!(!bf.noneable && f.noneable)) = true := by
          cases hb1 : bf.noneable <;> cases hb2 : f.noneable <;> simp_all
        refine ⟨?_, ?_⟩
        · simp only [isCompatible, Bool.and_eq_true]
          exact ⟨hn', hall, hfc⟩
        · simp only [CompatOk, Spec.flags, Bool.and_eq_true, Bool.not_eq_true']
          exact ⟨⟨hbf, hcf⟩, ⟨⟨⟨hcbfs, by rw [hco]; exact hcbfs⟩, hdbfs⟩, by rw [hck]; exact hdbfs⟩, hfo⟩

end Pg.Typing
