/- C09: the notification switch is local to the calling thread; calls touch the addressed tree only. -/
import PgModel.Notify
namespace Pg.C09

theorem stepN_stacks_other (s : NState) (x : NStep) (t : Nat)
    (h : ∀ a, x ≠ .scope t a) : (stepN s x).1.stacks t = s.stacks t := by
  cases x with
  | scope u a =>
    by_cases hu : u = t
    · subst hu; exact absurd rfl (h a)
    · have : ¬ t = u := fun e => hu e.symm
      simp [stepN, NStacks.act, this]
  | call u inExt recv w op =>
    by_cases hx : inExt = true <;> simp [stepN, hx]

/-- After any history, the stack of thread `t` is its initial stack with its OWN scope actions
applied, in order: what other threads enter or leave never shows. -/
theorem runN_stacks (t : Nat) : ∀ (hist : List NStep) (s : NState),
    (runN s hist).stacks t = (ownNActs t hist).foldl NAct.apply (s.stacks t)
  | [], _ => rfl
  | .scope u a :: rest, s => by
    by_cases hu : u = t
    · subst hu
      simp only [runN, ownNActs, if_true, List.foldl_cons]
      rw [runN_stacks u rest]
      simp [stepN, NStacks.act]
    · simp only [runN, ownNActs, hu, if_false]
      rw [runN_stacks t rest]
      have : ¬ t = u := fun e => hu e.symm
      simp [stepN, NStacks.act, this]
  | .call u inExt recv w op :: rest, s => by
    simp only [runN, ownNActs]
    rw [runN_stacks t rest]
    by_cases hx : inExt = true <;> simp [stepN, hx]

end Pg.C09
