/-
  C17 — helper lemmas about the scoped-settings model (PgModel/Scope.lean).

  `Store.Eqv` / `World.Eqv`: equality of stores up to what no getter can see — an absent cell versus
  a cell holding `None`, an empty stack, an empty map — and *literal* equality on the cells of
  value scopes and frame scopes.  Every primitive's exit respects the relation (`exitS_eqv`), and
  enter followed by exit gives back an equivalent store (`enterS_exitS`).
-/
import PgModel.Scope
import PgProofs.ScopeRules
namespace Pg.C17

def normA : Option Atom → Option Atom
  | some .none => none
  | x => x

def normS : Option (List Frame) → Option (List Frame)
  | some [] => none
  | x => x

def normF : Option Frame → Option Frame
  | some [] => none
  | x => x

structure Store.Eqv (s s' : Store) : Prop where
  val : ∀ k, s.val k = s'.val k
  once : ∀ k, normA (s.once k) = normA (s'.once k)
  tim : ∀ k, normA (s.tim k) = normA (s'.tim k)
  stk : ∀ k, normS (s.stk k) = normS (s'.stk k)
  cmap : ∀ k, normF (s.cmap k) = normF (s'.cmap k)
  ovr : ∀ k, s.ovr k = s'.ovr k

structure World.Eqv (w w' : World) : Prop where
  tls : ∀ t, (w.tls t).Eqv (w'.tls t)
  proc : w.proc.Eqv w'.proc

theorem Store.Eqv.refl (s : Store) : s.Eqv s := ⟨fun _ => rfl, fun _ => rfl, fun _ => rfl, fun _ => rfl, fun _ => rfl, fun _ => rfl⟩

theorem Store.Eqv.symm {s s' : Store} (h : s.Eqv s') : s'.Eqv s :=
  ⟨fun k => (h.val k).symm, fun k => (h.once k).symm, fun k => (h.tim k).symm, fun k => (h.stk k).symm,
   fun k => (h.cmap k).symm, fun k => (h.ovr k).symm⟩

theorem Store.Eqv.trans {a b c : Store} (h : a.Eqv b) (g : b.Eqv c) : a.Eqv c :=
  ⟨fun k => (h.val k).trans (g.val k), fun k => (h.once k).trans (g.once k), fun k => (h.tim k).trans (g.tim k),
   fun k => (h.stk k).trans (g.stk k), fun k => (h.cmap k).trans (g.cmap k), fun k => (h.ovr k).trans (g.ovr k)⟩

theorem World.Eqv.refl (w : World) : w.Eqv w := ⟨fun _ => Store.Eqv.refl _, Store.Eqv.refl _⟩

theorem World.Eqv.symm {w w' : World} (h : w.Eqv w') : w'.Eqv w := ⟨fun t => (h.tls t).symm, h.proc.symm⟩

theorem World.Eqv.trans {a b c : World} (h : a.Eqv b) (g : b.Eqv c) : a.Eqv c :=
  ⟨fun t => (h.tls t).trans (g.tls t), h.proc.trans g.proc⟩

/-! ### Getters cannot tell equivalent stores apart -/

theorem getD_normA (x : Option Atom) : (normA x).getD .none = x.getD .none := by
  cases x with
  | none => rfl
  | some a => cases a <;> rfl

theorem top_normS (x : Option (List Frame)) : ((normS x).getD []).headD [] = (x.getD []).headD [] := by
  cases x with
  | none => rfl
  | some l => cases l <;> rfl

theorem getD_normF (x : Option Frame) : (normF x).getD [] = x.getD [] := by
  cases x with
  | none => rfl
  | some l => cases l <;> rfl

theorem getS_eqv (m : Mgr) {s s' : Store} (h : s.Eqv s') : getS m s = getS m s' := by
  unfold getS
  cases m.kind with
  | valueScope => simp only [h.val]
  | dynEval => simp only [h.val]
  | outermostWins => simp only [← getD_normA (s.once m.key), ← getD_normA (s'.once m.key), h.once]
  | enterExit => simp only [← getD_normA (s.tim m.key), ← getD_normA (s'.tim m.key), h.tim]
  | argScope => simp only [← top_normS (s.stk m.key), ← top_normS (s'.stk m.key), h.stk]
  | stack r => simp only [← top_normS (s.stk m.key), ← top_normS (s'.stk m.key), h.stk]
  | cascadeMap => simp only [← getD_normF (s.cmap m.key), ← getD_normF (s'.cmap m.key), h.cmap]
  | frameScope => simp only [h.ovr]

theorem sel_eqv {w w' : World} (h : w.Eqv w') (st : Storage) (t : Nat) : (w.sel st t).Eqv (w'.sel st t) := by
  cases st <;> simp only [World.sel] <;> first | exact h.proc | exact h.tls t

theorem getter_eqv (m : Mgr) (t : Nat) {w w' : World} (h : w.Eqv w') : getter m t w = getter m t w' := by
  unfold getter
  cases hk : m.kind <;> simp only <;> try exact getS_eqv m (sel_eqv h _ _)
  rw [(h.tls t).val, h.proc.val]

/-! ### put / sel -/

theorem sel_put (w : World) (st : Storage) (t : Nat) (s : Store) : (w.put st t s).sel st t = s := by
  cases st <;> simp [World.sel, World.put, World.put.upd']

theorem put_tls_self (w : World) (st : Storage) (h : st ≠ .processWide) (t : Nat) (s : Store) :
    (w.put st t s).tls t = s := by
  cases st <;> simp_all [World.put, World.put.upd']

theorem put_tls_other (w : World) (st : Storage) (t t' : Nat) (h : t' ≠ t) (s : Store) :
    (w.put st t s).tls t' = w.tls t' := by
  cases st <;> simp_all [World.put, World.put.upd']

theorem put_proc_local (w : World) (st : Storage) (h : st ≠ .processWide) (t : Nat) (s : Store) :
    (w.put st t s).proc = w.proc := by
  cases st <;> simp_all [World.put]

theorem sel_local (w : World) (st : Storage) (h : st ≠ .processWide) (t : Nat) : w.sel st t = w.tls t := by
  cases st <;> simp_all [World.sel]

/-- Writing a store equivalent to the original content of the cell into a world that is the
original world up to that cell gives back an equivalent world. -/
theorem put_back {r w : World} {st : Storage} {t : Nat} {s1 s' : Store}
    (hr : r.Eqv (w.put st t s1)) (hs : s'.Eqv (w.sel st t)) : (r.put st t s').Eqv w := by
  constructor
  · intro t'
    cases st with
    | processWide => simpa [World.put] using hr.tls t'
    | threadLocal =>
      by_cases ht : t' = t
      · subst ht; simpa [World.put, World.put.upd', World.sel] using hs
      · have := hr.tls t'; simpa [World.put, World.put.upd', ht] using this
    | perArg =>
      by_cases ht : t' = t
      · subst ht; simpa [World.put, World.put.upd', World.sel] using hs
      · have := hr.tls t'; simpa [World.put, World.put.upd', ht] using this
  · cases st with
    | processWide => simpa [World.put, World.sel] using hs
    | threadLocal => simpa [World.put] using hr.proc
    | perArg => simpa [World.put] using hr.proc

/-! ### Exits respect the relation -/

theorem normS_tail {a b : Option (List Frame)} (h : normS a = normS b) :
    normS (a.map List.tail) = normS (b.map List.tail) := by
  cases a with
  | none =>
    cases b with
    | none => rfl
    | some l => cases l with
      | nil => rfl
      | cons x xs => simp [normS] at h
  | some l =>
    cases l with
    | nil =>
      cases b with
      | none => rfl
      | some l' => cases l' with
        | nil => rfl
        | cons x xs => simp [normS] at h
    | cons x xs =>
      cases b with
      | none => simp [normS] at h
      | some l' => cases l' with
        | nil => simp [normS] at h
        | cons y ys =>
          simp only [normS, Option.some.injEq] at h
          rw [h]

theorem exitS_eqv (key : String) (sv : Saved) {s s' : Store} (h : s.Eqv s') :
    (exitS key sv s).Eqv (exitS key sv s') := by
  cases sv with
  | vs has prev =>
    exact ⟨fun k => by simp only [exitS, upd]; split <;> simp [h.val], h.once, h.tim, h.stk, h.cmap, h.ovr⟩
  | once outer =>
    simp only [exitS]
    split
    · exact ⟨h.val, fun k => by simp only [upd]; split <;> simp [h.once], h.tim, h.stk, h.cmap, h.ovr⟩
    · exact h
  | ee parent =>
    exact ⟨h.val, h.once, fun k => by simp only [exitS, upd]; split <;> simp [h.tim], h.stk, h.cmap, h.ovr⟩
  | pop =>
    refine ⟨h.val, h.once, h.tim, fun k => ?_, h.cmap, h.ovr⟩
    simp only [exitS, upd]
    split
    · exact normS_tail (h.stk key)
    · exact h.stk k
  | cm prev =>
    exact ⟨h.val, h.once, h.tim, h.stk, fun k => by simp only [exitS, upd]; split <;> simp [h.cmap], h.ovr⟩
  | fs prev =>
    exact ⟨h.val, h.once, h.tim, h.stk, h.cmap, fun k => by simp only [exitS, upd]; split <;> simp [h.ovr]⟩
  | dynG old =>
    exact ⟨fun k => by simp only [exitS, upd]; split <;> simp [h.val], h.once, h.tim, h.stk, h.cmap, h.ovr⟩

/-! ### Enter followed by exit restores the store -/

theorem enterS_exitS (m : Mgr) (a : Arg) (s : Store) :
    (exitS m.key (enterS m a s).2 (enterS m a s).1).Eqv s := by
  have hval : ∀ (init : Atom) (k : String),
      upd (upd s.val m.key (some a.a)) m.key
        (if (s.val m.key).isSome then some ((s.val m.key).getD init) else none) k = s.val k := by
    intro init k
    simp only [upd]
    split
    · rename_i hk; subst hk
      cases s.val m.key <;> simp
    · rfl
  unfold enterS
  cases m.kind with
  | valueScope =>
    exact ⟨fun k => by simpa [exitS] using hval m.initial k, fun _ => rfl, fun _ => rfl, fun _ => rfl, fun _ => rfl, fun _ => rfl⟩
  | dynEval =>
    exact ⟨fun k => by simpa [exitS] using hval m.initial k, fun _ => rfl, fun _ => rfl, fun _ => rfl, fun _ => rfl, fun _ => rfl⟩
  | outermostWins =>
    simp only [exitS]
    split
    · rename_i ho
      refine ⟨fun _ => rfl, fun k => ?_, fun _ => rfl, fun _ => rfl, fun _ => rfl, fun _ => rfl⟩
      simp only [upd]
      split
      · rename_i hk; subst hk
        cases hs : s.once m.key with
        | none => rfl
        | some x => rw [hs] at ho; simp at ho; subst ho; rfl
      · rfl
    · rename_i ho
      refine ⟨fun _ => rfl, fun k => ?_, fun _ => rfl, fun _ => rfl, fun _ => rfl, fun _ => rfl⟩
      simp only [upd]
      split
      · rename_i hk; subst hk
        cases hs : s.once m.key with
        | none => rw [hs] at ho; simp at ho
        | some x => simp [ho]
      · rfl
  | enterExit =>
    refine ⟨fun _ => rfl, fun _ => rfl, fun k => ?_, fun _ => rfl, fun _ => rfl, fun _ => rfl⟩
    simp only [exitS, upd]
    split
    · rename_i hk; subst hk
      cases hs : s.tim m.key with
      | none => simp
      | some x => cases x <;> simp [normA]
    · rfl
  | argScope =>
    refine ⟨fun _ => rfl, fun _ => rfl, fun _ => rfl, fun k => ?_, fun _ => rfl, fun _ => rfl⟩
    simp only [exitS, upd]
    split
    · rename_i hk; subst hk
      cases hs : s.stk m.key with
      | none => simp [normS]
      | some l => simp
    · rfl
  | stack r =>
    refine ⟨fun _ => rfl, fun _ => rfl, fun _ => rfl, fun k => ?_, fun _ => rfl, fun _ => rfl⟩
    simp only [exitS, upd]
    split
    · rename_i hk; subst hk
      cases hs : s.stk m.key with
      | none => simp [normS]
      | some l => simp
    · rfl
  | cascadeMap =>
    refine ⟨fun _ => rfl, fun _ => rfl, fun _ => rfl, fun _ => rfl, fun k => ?_, fun _ => rfl⟩
    simp only [exitS, upd]
    split
    · rename_i hk; subst hk
      cases hs : s.cmap m.key with
      | none => simp [normF]
      | some l => simp
    · rfl
  | frameScope =>
    refine ⟨fun _ => rfl, fun _ => rfl, fun _ => rfl, fun _ => rfl, fun _ => rfl, fun k => ?_⟩
    simp only [exitS, upd]
    split
    · rename_i hk; subst hk; rfl
    · rfl

/-- What `enter` does, for every manager: it rewrites one store of the world, and the exit applied
to that store gives back (up to `Eqv`) what was there. -/
theorem eqv_of_fields {w0 w : World} (h1 : w0.tls = w.tls) (h2 : w0.proc = w.proc) : w0.Eqv w :=
  ⟨fun t => by rw [h1]; exact Store.Eqv.refl _, by rw [h2]; exact Store.Eqv.refl _⟩

theorem enter_spec {m : Mgr} {a : Arg} {t : Nat} {w w1 : World} {sv : Saved} {st : Storage}
    (h : enter m a t w = .ok (w1, sv, st)) :
    st = storageOf m a ∧ ∃ (w0 : World) (s1 : Store), w0.tls = w.tls ∧ w0.proc = w.proc ∧
      w1 = w0.put st t s1 ∧ (exitS m.key sv s1).Eqv (w0.sel st t) := by
  unfold enter at h
  cases hk : m.kind <;> simp only [hk] at h
  case dynEval =>
    split at h
    · split at h
      · simp only [Except.ok.injEq, Prod.mk.injEq] at h
        obtain ⟨h1, h2, h3⟩ := h
        subst h1 h2 h3
        refine ⟨by simp [storageOf, hk, *], w, _, rfl, rfl, rfl, ?_⟩
        simpa [World.sel] using enterS_exitS m a (w.tls t)
      · cases h
    · simp only [Except.ok.injEq, Prod.mk.injEq] at h
      obtain ⟨h1, h2, h3⟩ := h
      subst h1 h2 h3
      refine ⟨by simp [storageOf, hk, *], w, { w.proc with val := upd w.proc.val m.key (some a.a) }, rfl, rfl, rfl, ?_⟩
      refine ⟨fun k => ?_, fun _ => rfl, fun _ => rfl, fun _ => rfl, fun _ => rfl, fun _ => rfl⟩
      simp only [exitS, upd, World.sel]
      split
      · rename_i hk'; subst hk'; rfl
      · rfl
  all_goals
    simp only [Except.ok.injEq, Prod.mk.injEq] at h
    obtain ⟨h1, h2, h3⟩ := h
    subst h1 h2 h3
    exact ⟨by simp [storageOf, hk], w.patch _, _, rfl, rfl, rfl, enterS_exitS m a _⟩

theorem normS_cons {x : Option (List Frame)} {g : Frame} {l : List Frame}
    (h : normS x = normS (some (g :: l))) : x = some (g :: l) := by
  cases x with
  | none => simp [normS] at h
  | some y => cases y with
    | nil => simp [normS] at h
    | cons a b => simpa [normS] using h

theorem callDest_spec {m : Mgr} {c : String} {t : Nat} {w : World} {d : Val} (h : callDest m c t w = some d) :
    ∃ f l, (w.sel m.storage t).stk m.key = some (f :: l) ∧ Dict.get? f c = some d := by
  unfold callDest at h
  split at h
  · rename_i f l hs
    split at h
    · rename_i d' hg
      split at h
      · simp only [Option.some.injEq] at h
        exact ⟨f, l, hs, h ▸ hg⟩
      · cases h
    · cases h
  · cases h

/-- The call of a destination function: the temporary `c ↦ c` entry is undone by the `finally`, on
normal return and when the function raises alike — given that the function body itself leaves an
equivalent world behind. -/
theorem call_restores {m : Mgr} {c : String} {t : Nat} {w r : World} {d u : Val}
    (hd : callDest m c t w = some d) (hr : r.Eqv (setTop m c u t w)) : (setTop m c d t r).Eqv w := by
  obtain ⟨f, l, hs, hg⟩ := callDest_spec hd
  have hw1 : setTop m c u t w = w.put m.storage t { w.sel m.storage t with
      stk := upd (w.sel m.storage t).stk m.key (some (Dict.set f c u :: l)) } := by
    simp only [setTop, hs]
  rw [hw1] at hr
  have h1 := sel_eqv hr m.storage t
  rw [sel_put] at h1
  have hstk : (r.sel m.storage t).stk m.key = some (Dict.set f c u :: l) := by
    have := h1.stk m.key
    simp only [upd, if_true] at this
    exact normS_cons this
  have hr1 : setTop m c d t r = r.put m.storage t { r.sel m.storage t with
      stk := upd (r.sel m.storage t).stk m.key (some (Dict.set (Dict.set f c u) c d :: l)) } := by
    simp only [setTop, hstk]
  rw [hr1, Dict.set_set_restore f c u d hg]
  refine put_back hr ?_
  refine ⟨h1.val, h1.once, h1.tim, fun k => ?_, h1.cmap, h1.ovr⟩
  have := h1.stk k
  simp only [upd] at this ⊢
  split
  · rename_i hk; subst hk; rw [hs]
  · rename_i hk; simpa [hk] using this

/-- The central invariant: whatever a well-nested program does — any nesting, any arguments,
normal or exceptional exits — the world it leaves is equivalent to the world it found. -/
theorem exec_eqv (t : Nat) (p : Prog) : ∀ w, (exec t p w).world.Eqv w := by
  induction p with
  | skip => intro w; exact World.Eqv.refl w
  | raise => intro w; exact World.Eqv.refl w
  | fail e => intro w; exact World.Eqv.refl w
  | probe m => intro w; exact World.Eqv.refl w
  | try_ p ih => intro w; exact ih w
  | seq p q ihp ihq =>
    intro w
    simp only [exec]
    cases ho : (exec t p w).outcome with
    | normal => exact (ihq _).trans (ihp w)
    | exc e => exact ihp w
  | call m c p ih =>
    intro w
    simp only [exec]
    cases hd : callDest m c t w with
    | none => exact World.Eqv.refl w
    | some d => exact call_restores hd (ih _)
  | scope m a p ih =>
    intro w
    simp only [exec]
    cases he : enter m a t w with
    | error e => exact World.Eqv.refl w
    | ok r =>
      obtain ⟨w1, sv, st⟩ := r
      obtain ⟨_, w0, s1, ht, hp, hw1, hs⟩ := enter_spec he
      simp only
      unfold exit
      have hr : (exec t p w1).world.Eqv (w0.put st t s1) := hw1 ▸ ih w1
      refine (put_back hr ?_).trans (eqv_of_fields ht hp)
      have h1 : ((exec t p w1).world.sel st t).Eqv s1 := by
        have := sel_eqv hr st t
        rwa [sel_put] at this
      exact (exitS_eqv m.key sv h1).trans hs

/-! ### The totalised exits are never used outside their Python domain

`exitS` deletes an absent cell / pops an absent or empty stack silently, where Python raises.
`ExitDefined` says the Python code would not raise; it holds at every exit reached by `exec`. -/

def ExitDefined (key : String) (sv : Saved) (s : Store) : Prop :=
  match sv with
  | .vs false _ => (s.val key).isSome = true
  | .once outer => outer = .none → (s.once key).isSome = true
  | .ee parent => parent = .none → (s.tim key).isSome = true
  | .pop => ∃ f l, s.stk key = some (f :: l)
  | .fs none => (s.ovr key).isSome = true
  | _ => True

/-- The argument is in the documented domain: `permission()` gets a permission, `timeit` a name
(not `None`). -/
def ArgOk (m : Mgr) (a : Arg) : Prop :=
  (m.kind = .outermostWins ∨ m.kind = .enterExit) → a.a ≠ .none

theorem normA_some {x : Option Atom} {a : Atom} (ha : a ≠ .none) (h : normA x = normA (some a)) : x = some a := by
  cases x with
  | none => cases a <;> simp_all [normA]
  | some b => cases a <;> cases b <;> simp_all [normA]

theorem exitDefined_enterS (m : Mgr) (a : Arg) (s s' : Store) (hd : ArgOk m a)
    (h : s'.Eqv (enterS m a s).1) : ExitDefined m.key (enterS m a s).2 s' := by
  unfold enterS at h ⊢
  cases hk : m.kind <;> simp only [hk] at h ⊢
  case valueScope =>
    cases hv : (s.val m.key).isSome <;> simp only [ExitDefined]
    rw [h.val]; simp [upd]
  case dynEval =>
    cases hv : (s.val m.key).isSome <;> simp only [ExitDefined]
    rw [h.val]; simp [upd]
  case outermostWins =>
    intro ho
    have := h.once m.key
    simp only [upd, if_true, ho] at this
    rw [normA_some (hd (Or.inl hk)) this]; rfl
  case enterExit =>
    intro ho
    have := h.tim m.key
    simp only [upd, if_true] at this
    rw [normA_some (hd (Or.inr hk)) this]; rfl
  case argScope =>
    have := h.stk m.key
    simp only [upd, if_true] at this
    cases hs : s'.stk m.key with
    | none => simp [hs, normS] at this
    | some l => cases l with
      | nil => simp [hs, normS] at this
      | cons f l => exact ⟨f, l, hs⟩
  case stack r =>
    have := h.stk m.key
    simp only [upd, if_true] at this
    cases hs : s'.stk m.key with
    | none => simp [hs, normS] at this
    | some l => cases l with
      | nil => simp [hs, normS] at this
      | cons f l => exact ⟨f, l, hs⟩
  case cascadeMap => trivial
  case frameScope =>
    cases hv : s.ovr m.key <;> simp only [ExitDefined]
    rw [h.ovr]; simp [upd]

/-- At the exit of every block executed by `exec`, the Python code finds the cell it deletes or
pops (for arguments in the documented domain). -/
theorem exit_defined {m : Mgr} {a : Arg} {t : Nat} {w w1 : World} {sv : Saved} {st : Storage} (p : Prog)
    (hd : ArgOk m a) (h : enter m a t w = .ok (w1, sv, st)) :
    ExitDefined m.key sv ((exec t p w1).world.sel st t) := by
  have hr := exec_eqv t p w1
  unfold enter at h
  cases hk : m.kind <;> simp only [hk] at h
  case dynEval =>
    split at h
    · split at h
      · simp only [Except.ok.injEq, Prod.mk.injEq] at h
        obtain ⟨h1, h2, h3⟩ := h
        subst h1 h2 h3
        have := sel_eqv hr .threadLocal t
        rw [sel_put] at this
        exact exitDefined_enterS m a _ _ hd this
      · cases h
    · simp only [Except.ok.injEq, Prod.mk.injEq] at h
      obtain ⟨h1, h2, h3⟩ := h
      subst h1 h2 h3
      trivial
  all_goals
    simp only [Except.ok.injEq, Prod.mk.injEq] at h
    obtain ⟨h1, h2, h3⟩ := h
    subst h1 h2 h3
    have := sel_eqv hr m.storage t
    rw [sel_put] at this
    exact exitDefined_enterS m a _ _ hd this

/-! ### Isolation: simulation between a run under interference and the solo run -/

/-- `f` leaves thread `t`'s store and the process store alone. -/
def Frames (t : Nat) (f : World → World) : Prop := ∀ w, (f w).tls t = w.tls t ∧ (f w).proc = w.proc

/-- The two worlds agree on what thread `t` can read. -/
def Sim (t : Nat) (w ws : World) : Prop := w.tls t = ws.tls t ∧ w.proc = ws.proc

theorem getter_sim (m : Mgr) {t : Nat} {w ws : World} (h : Sim t w ws) : getter m t w = getter m t ws := by
  unfold getter
  cases hk : m.kind <;> simp only <;> try (cases hs : m.storage <;> simp only [World.sel, h.1, h.2])

theorem interfere_sim {t : Nat} {env : Env} {w ws : World} (henv : ∀ f ∈ env, Frames t f) (h : Sim t w ws) :
    Sim t (interfere env w).2 ws ∧ ∀ f ∈ (interfere env w).1, Frames t f := by
  cases env with
  | nil => exact ⟨h, henv⟩
  | cons f env =>
    simp only [interfere]
    have hf := henv f (List.mem_cons_self)
    refine ⟨⟨(hf w).1.trans h.1, (hf w).2.trans h.2⟩, fun g hg => henv g (List.mem_cons_of_mem _ hg)⟩

theorem isLocal_ne {m : Mgr} {a : Arg} (h : isLocal m a = true) : storageOf m a ≠ .processWide := by
  simpa [isLocal] using h

theorem enter_sim {m : Mgr} {a : Arg} {t : Nat} {w ws : World} (hl : isLocal m a = true) (h : Sim t w ws) :
    (∃ e, enter m a t w = .error e ∧ enter m a t ws = .error e) ∨
    (∃ w1 ws1 sv st, enter m a t w = .ok (w1, sv, st) ∧ enter m a t ws = .ok (ws1, sv, st) ∧
      st ≠ .processWide ∧ Sim t w1 ws1) := by
  have hne := isLocal_ne hl
  unfold enter
  cases hk : m.kind <;> simp only
  case dynEval =>
    have hp : a.perThread = true := by
      cases hpt : a.perThread
      · simp [storageOf, hk, hpt] at hne
      · rfl
    simp only [hp, if_true, h.2]
    split
    · right
      refine ⟨_, _, _, _, rfl, by rw [h.1], by simp, ?_⟩
      exact ⟨by simp [put_tls_self, h.1], by simp [World.put, h.2]⟩
    · left; exact ⟨_, rfl, rfl⟩
  all_goals
    right
    have hst : m.storage ≠ .processWide := by simpa [storageOf, hk] using hne
    have hsel : w.sel m.storage t = ws.sel m.storage t := by rw [sel_local _ _ hst, sel_local _ _ hst, h.1]
    refine ⟨_, _, _, _, rfl, by rw [hsel], hst, ?_⟩
    exact ⟨by rw [put_tls_self _ _ hst, put_tls_self _ _ hst, hsel],
           by rw [put_proc_local _ _ hst, put_proc_local _ _ hst]; exact h.2⟩

theorem exit_sim {m : Mgr} {sv : Saved} {st : Storage} {t : Nat} {w ws : World} (hst : st ≠ .processWide)
    (h : Sim t w ws) : Sim t (exit m sv st t w) (exit m sv st t ws) := by
  unfold exit
  exact ⟨by rw [put_tls_self _ _ hst, put_tls_self _ _ hst, sel_local _ _ hst, sel_local _ _ hst, h.1],
         by rw [put_proc_local _ _ hst, put_proc_local _ _ hst, h.2]⟩

theorem sel_sim {t : Nat} {w ws : World} (h : Sim t w ws) (st : Storage) : w.sel st t = ws.sel st t := by
  cases st <;> simp only [World.sel, h.1, h.2]

theorem put_sim {t : Nat} {w ws : World} (h : Sim t w ws) (st : Storage) (s : Store) :
    Sim t (w.put st t s) (ws.put st t s) := by
  cases st <;> simp [Sim, World.put, World.put.upd', h.1, h.2]

theorem callDest_sim {m : Mgr} {c : String} {t : Nat} {w ws : World} (h : Sim t w ws) :
    callDest m c t w = callDest m c t ws := by
  unfold callDest; rw [sel_sim h]

theorem topFrame_sim {m : Mgr} {t : Nat} {w ws : World} (h : Sim t w ws) : topFrame m t w = topFrame m t ws := by
  unfold topFrame; rw [sel_sim h]

theorem setTop_sim {m : Mgr} {c : String} {v : Val} {t : Nat} {w ws : World} (h : Sim t w ws) :
    Sim t (setTop m c v t w) (setTop m c v t ws) := by
  unfold setTop
  rw [sel_sim h]
  split
  · exact put_sim h _ _
  · exact h

theorem execI_sim (t : Nat) (p : Prog) : ∀ (env : Env) (w ws : World), p.threadLocal = true →
    (∀ f ∈ env, Frames t f) → Sim t w ws →
    (execI t p env w).outcome = (exec t p ws).outcome ∧ (execI t p env w).obs = (exec t p ws).obs ∧
    Sim t (execI t p env w).world (exec t p ws).world ∧ ∀ f ∈ (execI t p env w).env, Frames t f := by
  induction p with
  | skip => intro env w ws _ henv h; exact ⟨rfl, rfl, h, henv⟩
  | raise => intro env w ws _ henv h; exact ⟨rfl, rfl, h, henv⟩
  | fail e => intro env w ws _ henv h; exact ⟨rfl, rfl, h, henv⟩
  | probe m =>
    intro env w ws _ henv h
    obtain ⟨h1, h2⟩ := interfere_sim henv h
    simp only [execI, exec]
    exact ⟨by trivial, by rw [getter_sim m h1], h1, h2⟩
  | call m c p ih =>
    intro env w ws hp henv h
    obtain ⟨h1, h2⟩ := interfere_sim henv h
    simp only [execI, exec]
    rw [callDest_sim h1, topFrame_sim h1]
    cases hd : callDest m c t ws with
    | none => exact ⟨by trivial, by trivial, h1, h2⟩
    | some d =>
      obtain ⟨g1, g2, g3, g4⟩ := ih _ _ _ (by simpa [Prog.threadLocal] using hp) h2 (setTop_sim (c := c) (v := .atom (.str c)) h1)
      obtain ⟨k1, k2⟩ := interfere_sim g4 g3
      exact ⟨g1, by simp only [g2], setTop_sim k1, k2⟩
  | try_ p ih =>
    intro env w ws hp henv h
    obtain ⟨_, h2, h3, h4⟩ := ih env w ws (by simpa [Prog.threadLocal] using hp) henv h
    simp only [execI, exec]
    exact ⟨by trivial, h2, h3, h4⟩
  | seq p q ihp ihq =>
    intro env w ws hpq henv h
    simp only [Prog.threadLocal, Bool.and_eq_true] at hpq
    obtain ⟨h1, h2, h3, h4⟩ := ihp env w ws hpq.1 henv h
    simp only [execI, exec]
    rw [h1]
    cases ho : (exec t p ws).outcome with
    | normal =>
      obtain ⟨g1, g2, g3, g4⟩ := ihq _ _ _ hpq.2 h4 h3
      exact ⟨g1, by rw [h2, g2], g3, g4⟩
    | exc e => exact ⟨rfl, h2, h3, h4⟩
  | scope m a p ih =>
    intro env w ws hp henv h
    simp only [Prog.threadLocal, Bool.and_eq_true] at hp
    obtain ⟨h1, h2⟩ := interfere_sim henv h
    simp only [execI, exec]
    rcases enter_sim hp.1 h1 with ⟨e, he1, he2⟩ | ⟨w1, ws1, sv, st, he1, he2, hst, hs⟩
    · rw [he1, he2]; exact ⟨rfl, rfl, h1, h2⟩
    · rw [he1, he2]
      obtain ⟨g1, g2, g3, g4⟩ := ih _ w1 ws1 hp.2 h2 hs
      obtain ⟨k1, k2⟩ := interfere_sim g4 g3
      exact ⟨g1, g2, exit_sim hst k1, k2⟩

/-- Guarantee side: the atomic actions of a thread-local manager used by another thread are
admissible interference for thread `t`. -/
theorem enter_frames {m : Mgr} {a : Arg} {t t' : Nat} (ht : t' ≠ t) (hl : isLocal m a = true) :
    Frames t (fun w => match enter m a t' w with | .ok r => r.1 | .error _ => w) := by
  intro w
  dsimp only
  cases he : enter m a t' w with
  | error e => exact ⟨rfl, rfl⟩
  | ok r =>
    obtain ⟨w1, sv, st⟩ := r
    dsimp only
    obtain ⟨hst, w0, s1, h1, h2, hw1, _⟩ := enter_spec he
    have hne : st ≠ .processWide := hst ▸ isLocal_ne hl
    subst hw1
    exact ⟨(put_tls_other _ _ _ _ (Ne.symm ht) _).trans (congrFun h1 t),
           (put_proc_local _ _ hne _ _).trans h2⟩

theorem exit_frames {m : Mgr} {sv : Saved} {st : Storage} {t t' : Nat} (ht : t' ≠ t) (hst : st ≠ .processWide) :
    Frames t (exit m sv st t') := by
  intro w
  unfold exit
  exact ⟨put_tls_other _ _ _ _ (Ne.symm ht) _, put_proc_local _ _ hst _ _⟩

end Pg.C17
