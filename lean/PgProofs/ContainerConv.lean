/-
  C02: arguments with nested `MISSING`. The write primitives of pg.List / pg.Dict store `conv v`
  (the symbolic form of a plain value; its constructors drop nested `MISSING`), so a step with
  arbitrary arguments is the step with converted arguments — extension 4 made explicit. This removes
  the `missingFree` restriction from the refinement theorems.
-/
import PgProofs.ContainerMain
namespace Pg.C02
open PgList

theorem isMissing_conv (v : Val) : (conv v).isMissing = v.isMissing := by
  cases v <;> simp [conv, Val.isMissing]

mutual
  theorem missingFree_conv : ∀ v : Val, missingFree (conv v) = true
    | .none => rfl
    | .bool _ => rfl
    | .int _ => rfl
    | .float _ => rfl
    | .negzero => rfl
    | .str _ => rfl
    | .missing => rfl
    | .list xs => by simp only [conv, missingFree, missingFreeList_conv xs]
    | .dict kvs => by simp only [conv, missingFree, missingFreeKvs_conv kvs]
  theorem missingFreeList_conv : ∀ xs : List Val, missingFreeList (convList xs) = true
    | [] => rfl
    | x :: xs => by
      simp only [convList]
      cases h : x.isMissing with
      | true => simp only [if_true]; exact missingFreeList_conv xs
      | false =>
        simp only [Bool.false_eq_true, if_false, missingFreeList, isMissing_conv, h, Bool.not_false,
          Bool.true_and, missingFree_conv x, missingFreeList_conv xs]
  theorem missingFreeKvs_conv : ∀ kvs : List (Key × Val), missingFreeKvs (convKvs kvs) = true
    | [] => rfl
    | (k, v) :: rest => by
      simp only [convKvs]
      cases h : v.isMissing with
      | true => simp only [if_true]; exact missingFreeKvs_conv rest
      | false =>
        simp only [Bool.false_eq_true, if_false, missingFreeKvs, isMissing_conv, h, Bool.not_false,
          Bool.true_and, missingFree_conv v, missingFreeKvs_conv rest]
end

theorem conv_idem (v : Val) : conv (conv v) = conv v := conv_eq_self _ (missingFree_conv v)

def Arg.conv : Arg → Arg
  | .plain v => .plain (Pg.C02.conv v)
  | .ins v => .ins (Pg.C02.conv v)

theorem setItemRaw_conv (xs : List Val) (k : Int) (a : Arg) :
    setItemRaw xs k a.conv = setItemRaw xs k a := by
  cases a <;> simp [setItemRaw, Arg.conv, Arg.isPlainMissing, isMissing_conv, conv_idem]

theorem writeRun_conv (xs : List Val) (p c : Int) (u : Bool) (rs : List Arg) :
    writeRun xs p c u (rs.map Arg.conv) = writeRun xs p c u rs := by
  induction rs generalizing xs p u with
  | nil => rfl
  | cons r rs ih =>
    simp only [List.map_cons, writeRun, setItemRaw_conv]
    cases setItemRaw xs p r with
    | error e => rfl
    | ok t => obtain ⟨ys, u1⟩ := t; exact ih _ _ _

theorem extendRaw_conv (xs : List Val) (u : Bool) (vs : List Val) :
    extendRaw xs u (vs.map conv) = extendRaw xs u vs := by
  induction vs generalizing xs u with
  | nil => rfl
  | cons v vs ih =>
    simp only [List.map_cons, extendRaw]
    have := setItemRaw_conv xs xs.length (.plain v)
    simp only [Arg.conv] at this
    rw [this]
    cases setItemRaw xs xs.length (.plain v) with
    | error e => rfl
    | ok t => obtain ⟨ys, u1⟩ := t; exact ih _ _

def convPair (p : Int × Arg) : Int × Arg := (p.1, p.2.conv)

theorem rebindRun_conv (xs : List Val) (u : Bool) (ps : List (Int × Arg)) :
    rebindRun xs u (ps.map convPair) = rebindRun xs u ps := by
  induction ps generalizing xs u with
  | nil => rfl
  | cons p ps ih =>
    obtain ⟨k, a⟩ := p
    simp only [List.map_cons, convPair, rebindRun, setItemRaw_conv]
    cases setItemRaw xs k a with
    | error e => rfl
    | ok t => obtain ⟨ys, u1⟩ := t; exact ih _ _

theorem insertDesc_conv (p : Int × Arg) (qs : List (Int × Arg)) :
    insertDesc (convPair p) (qs.map convPair) = (insertDesc p qs).map convPair := by
  induction qs with
  | nil => rfl
  | cons q qs ih =>
    simp only [List.map_cons, insertDesc, convPair] at ih ⊢
    split
    · rfl
    · simp only [List.map_cons, convPair, ih]

theorem sortDesc_conv (ps : List (Int × Arg)) : sortDesc (ps.map convPair) = (sortDesc ps).map convPair := by
  unfold sortDesc
  have : ∀ acc : List (Int × Arg),
      (ps.map convPair).foldl (fun acc p => insertDesc p acc) (acc.map convPair) =
        (ps.foldl (fun acc p => insertDesc p acc) acc).map convPair := by
    induction ps with
    | nil => intro acc; rfl
    | cons p ps ih =>
      intro acc
      simp only [List.map_cons, List.foldl_cons, insertDesc_conv, ih]
  exact this []

/-- The step whose stored arguments are replaced by their symbolic form. -/
def convStep (st : LStep) : LStep :=
  ⟨match st.op with
    | .set i v => .set i (conv v)
    | .setSlice s vs => .setSlice s (vs.map conv)
    | .append v => .append (conv v)
    | .insert i v => .insert i (conv v)
    | .extend vs => .extend (vs.map conv)
    | .iadd vs => .iadd (vs.map conv)
    | .add vs => .add (vs.map conv)
    | .rebind pairs => .rebind (pairs.map convPair)
    | op => op, st.notify⟩

theorem map_plain_conv (vs : List Val) : (vs.map conv).map Arg.plain = (vs.map Arg.plain).map Arg.conv := by
  simp [List.map_map, Function.comp_def, Arg.conv]

theorem map_ins_conv (vs : List Val) : (vs.map conv).map Arg.ins = (vs.map Arg.ins).map Arg.conv := by
  simp [List.map_map, Function.comp_def, Arg.conv]

theorem replicate_missing_conv (k : Nat) :
    List.replicate k (Arg.plain Val.missing) = (List.replicate k (Arg.plain Val.missing)).map Arg.conv := by
  simp [Arg.conv, conv]

/-- `pg.List` cannot tell an argument from its symbolic form. -/
theorem implL_conv (xs : List Val) (st : LStep) : implL xs (convStep st) = implL xs st := by
  obtain ⟨op, nt⟩ := st
  cases op with
  | set i v =>
    have := setItemRaw_conv xs i (.plain v)
    simp only [Arg.conv] at this
    simp only [convStep, implL, this]
  | setSlice s vs =>
    simp only [convStep, implL, List.length_map]
    cases sliceIndices s xs.length with
    | error e => rfl
    | ok t =>
      obtain ⟨a, b, c⟩ := t
      simp only []
      by_cases hc : c = 1
      · simp only [hc, if_true]
        have e : (if (pyRange a b 1).length < vs.length then
              List.map Arg.plain (List.take (pyRange a b 1).length (List.map conv vs)) ++
                List.map Arg.ins (List.drop (pyRange a b 1).length (List.map conv vs))
            else List.map Arg.plain (List.map conv vs) ++
                List.replicate ((pyRange a b 1).length - vs.length) (Arg.plain Val.missing)) =
            (if (pyRange a b 1).length < vs.length then
              List.map Arg.plain (List.take (pyRange a b 1).length vs) ++
                List.map Arg.ins (List.drop (pyRange a b 1).length vs)
            else List.map Arg.plain vs ++
                List.replicate ((pyRange a b 1).length - vs.length) (Arg.plain Val.missing)).map Arg.conv := by
          split
          · rw [← List.map_take, ← List.map_drop, map_plain_conv, map_ins_conv, List.map_append]
          · rw [map_plain_conv, List.map_append, ← replicate_missing_conv]
        rw [e, writeRun_conv]
      · simp only [hc, if_false]
        by_cases hneg : c < 0
        · simp only [hneg, if_true, ← List.map_reverse, map_plain_conv, writeRun_conv]
        · simp only [hneg, if_false, map_plain_conv, writeRun_conv]
  | append v =>
    have := setItemRaw_conv xs xs.length (.plain v)
    simp only [Arg.conv] at this
    simp only [convStep, implL, this]
  | insert i v =>
    have := setItemRaw_conv xs i (.ins v)
    simp only [Arg.conv] at this
    simp only [convStep, implL, this]
  | extend vs => simp only [convStep, implL, extend, extendRaw_conv]
  | iadd vs => simp only [convStep, implL, extend, extendRaw_conv]
  | add vs => simp only [convStep, implL, extend, extendRaw_conv]
  | rebind pairs =>
    simp only [convStep, implL, sortDesc_conv, rebindRun_conv, List.isEmpty_map]
  | get i => rfl
  | getSlice s => rfl
  | len => rfl
  | contains v => rfl
  | index v => rfl
  | count v => rfl
  | indexIn v a b => rfl
  | radd vs => rfl
  | getBad => rfl
  | setBad => rfl
  | delBad => rfl
  | del i => rfl
  | delSlice s => rfl
  | pop i => rfl
  | remove v => rfl
  | clear => rfl
  | sort rev key => rfl
  | reverse => rfl
  | imul n => rfl
  | mul n => rfl
  | copy => rfl

/-- What is left of the exclusions once arguments are converted: finding F03 only (with change
notification off the step must not leave a `MISSING` placeholder) and non-negative `rebind`
indices. No condition on nested `MISSING`. -/
def admissibleConvL (xs : List Val) (st : LStep) : Bool :=
  match st.op with
  | .set _ v => st.notify || !v.isMissing
  | .insert _ v => st.notify || !v.isMissing
  | .setSlice s vs => st.notify || (vs.all (fun v => !v.isMissing) && noShrink xs s vs)
  | .rebind pairs =>
    pairs.all (fun p => decide (0 ≤ p.1)) && (st.notify || pairs.all (fun p => !p.2.val.isMissing))
  | _ => true

theorem noShrink_conv (xs : List Val) (s : Slice) (vs : List Val) :
    noShrink xs s (vs.map conv) = noShrink xs s vs := by
  unfold noShrink
  simp only [List.length_map]

theorem val_convArg (a : Arg) : a.conv.val = conv a.val := by cases a <;> rfl

theorem admissible_of_conv {xs : List Val} {st : LStep} (h : admissibleConvL xs st = true) :
    admissibleL xs (convStep st) = true := by
  obtain ⟨op, nt⟩ := st
  cases op with
  | set i v => simpa [admissibleL, convStep, admissibleConvL, missingFree_conv, isMissing_conv] using h
  | insert i v => simpa [admissibleL, convStep, admissibleConvL, missingFree_conv, isMissing_conv] using h
  | append v => simp [admissibleL, convStep, missingFree_conv]
  | extend vs => simp [admissibleL, convStep, missingFree_conv]
  | iadd vs => simp [admissibleL, convStep, missingFree_conv]
  | add vs => simp [admissibleL, convStep, missingFree_conv]
  | setSlice s vs =>
    simpa [admissibleL, convStep, admissibleConvL, missingFree_conv, isMissing_conv, noShrink_conv] using h
  | rebind pairs =>
    simp only [admissibleConvL, Bool.and_eq_true, List.all_eq_true, Bool.or_eq_true, decide_eq_true_eq,
      Bool.not_eq_true'] at h
    simp only [admissibleL, convStep, Bool.and_eq_true, List.all_eq_true, Bool.or_eq_true,
      decide_eq_true_eq, Bool.not_eq_true', List.mem_map]
    refine ⟨?_, ?_⟩
    · rintro p ⟨q, hq, rfl⟩
      exact ⟨by simp only [convPair, val_convArg]; exact missingFree_conv _, h.1 q hq⟩
    · rcases h.2 with h2 | h2
      · exact Or.inl h2
      · right
        rintro p ⟨q, hq, rfl⟩
        simp only [convPair, val_convArg, isMissing_conv]
        exact h2 q hq
  | get i => rfl
  | getSlice s => rfl
  | len => rfl
  | contains v => rfl
  | index v => rfl
  | count v => rfl
  | indexIn v a b => rfl
  | radd vs => rfl
  | getBad => rfl
  | setBad => rfl
  | delBad => rfl
  | del i => rfl
  | delSlice s => rfl
  | pop i => rfl
  | remove v => rfl
  | clear => rfl
  | sort rev key => rfl
  | reverse => rfl
  | imul n => rfl
  | mul n => rfl
  | copy => rfl

/-! ### Dicts -/

def convKV (p : Key × Val) : Key × Val := (p.1, conv p.2)

/-- `setdefault` is left alone: it *returns* the plain default it was given while storing its
symbolic form, so its argument stays under the `missingFree` restriction. -/
def convStepD (st : DStep) : DStep :=
  ⟨match st.op with
    | .set k v => .set k (conv v)
    | .update pairs kw => .update (pairs.map convKV) (kw.map convKV)
    | .rebind pairs kw => .rebind (pairs.map convKV) (kw.map convKV)
    | op => op, st.notify⟩

def admissibleConvD (st : DStep) : Bool :=
  match st.op with
  | .setdefault _ d => missingFree d
  | .update pairs kw => mergeOk (pairs ++ kw)
  | .rebind pairs kw => mergeOk (pairs ++ kw)
  | _ => true

theorem hasKey_map_convKV (kvs : List (Key × Val)) (k : Key) : hasKey (kvs.map convKV) k = hasKey kvs k := by
  unfold hasKey
  simp [List.any_map, Function.comp_def, convKV]

theorem dictSet_convKV (acc : List (Key × Val)) (k : Key) (v : Val) :
    dictSet (acc.map convKV) k (conv v) = (dictSet acc k v).map convKV := by
  unfold dictSet
  rw [hasKey_map_convKV]
  split
  · simp only [List.map_map]
    apply List.map_congr_left
    intro p _
    simp only [Function.comp_def, convKV]
    split <;> simp_all
  · simp [convKV]

theorem mergePairs_convKV (ps : List (Key × Val)) :
    PgDict.mergePairs (ps.map convKV) = (PgDict.mergePairs ps).map convKV := by
  unfold PgDict.mergePairs
  have : ∀ acc : List (Key × Val),
      (ps.map convKV).foldl (fun acc p => dictSet acc p.1 p.2) (acc.map convKV) =
        (ps.foldl (fun acc p => dictSet acc p.1 p.2) acc).map convKV := by
    induction ps with
    | nil => intro acc; rfl
    | cons p ps ih =>
      intro acc
      simp only [List.map_cons, List.foldl_cons]
      have := dictSet_convKV acc p.1 p.2
      simp only [convKV] at this ⊢
      rw [this]
      exact ih _
  exact this []

theorem distinctKeysB_convKV (ps : List (Key × Val)) : distinctKeysB (ps.map convKV) = distinctKeysB ps := by
  induction ps with
  | nil => rfl
  | cons p ps ih => simp [distinctKeysB, ih, convKV, List.all_map, Function.comp_def]

theorem dsetItemRaw_conv (kvs : List (Key × Val)) (k : Key) (v : Val) :
    PgDict.setItemRaw kvs k (conv v) = PgDict.setItemRaw kvs k v := by
  simp [PgDict.setItemRaw, isMissing_conv, conv_idem]

theorem setAll_conv (kvs pairs : List (Key × Val)) :
    PgDict.setAll kvs (pairs.map convKV) = PgDict.setAll kvs pairs := by
  induction pairs generalizing kvs with
  | nil => rfl
  | cons p rest ih =>
    obtain ⟨k, v⟩ := p
    simp only [List.map_cons, convKV, PgDict.setAll, dsetItemRaw_conv, ih]

theorem mergeOk_convKV (ps : List (Key × Val)) : mergeOk (ps.map convKV) = mergeOk ps := by
  unfold mergeOk
  rw [distinctKeysB_convKV]
  simp [List.all_map, Function.comp_def, convKV, isMissing_conv]

theorem admissibleD_conv {st : DStep} (h : admissibleConvD st = true) : admissibleD (convStepD st) = true := by
  obtain ⟨op, nt⟩ := st
  have hmf : ∀ ps : List (Key × Val), (ps.map convKV).all (fun p => missingFree p.2) = true := by
    intro ps
    simp [List.all_map, Function.comp_def, convKV, missingFree_conv]
  cases op with
  | set k v => simp [admissibleD, convStepD, missingFree_conv]
  | setdefault k d => simpa [admissibleD, convStepD, admissibleConvD] using h
  | update pairs kw =>
    simp only [admissibleConvD] at h
    simp only [admissibleD, convStepD, ← List.map_append, mergeOk_convKV, h, hmf, Bool.and_self]
  | rebind pairs kw =>
    simp only [admissibleConvD] at h
    simp only [admissibleD, convStepD, ← List.map_append, mergeOk_convKV, h, hmf, Bool.and_self]
  | get k => rfl
  | getD k d => rfl
  | contains k => rfl
  | len => rfl
  | del k => rfl
  | pop k d => rfl
  | popitem => rfl
  | clear => rfl
  | copy => rfl
  | union p r => rfl

theorem implD_conv (kvs : List (Key × Val)) (st : DStep) : implD kvs (convStepD st) = implD kvs st := by
  obtain ⟨op, nt⟩ := st
  cases op <;> first
    | rfl
    | simp only [convStepD, implD, dsetItemRaw_conv, ← List.map_append, mergePairs_convKV, setAll_conv,
        List.isEmpty_map]

end Pg.C02
