/-
  C02 helper lemmas: slice assignment through the write primitive, and rebind.
-/
import PgProofs.ContainerSlice
namespace Pg.C02
open PgList

/-! ### Runs of the write primitive -/

theorem writeRun_append (xs : List Val) (p c : Int) (u : Bool) (r1 r2 : List Arg) :
    writeRun xs p c u (r1 ++ r2) =
      match writeRun xs p c u r1 with
      | (ys, u', Option.none) => writeRun ys (p + r1.length * c) c u' r2
      | (ys, u', some e) => (ys, u', some e) := by
  induction r1 generalizing xs p u with
  | nil => simp [writeRun]
  | cons r rs ih =>
    simp only [List.cons_append, writeRun]
    cases h : setItemRaw xs p r with
    | error e => rfl
    | ok t =>
      obtain ⟨ys, u1⟩ := t
      simp only []
      rw [ih]
      have e : p + c + (rs.length : Int) * c = p + ((rs.length + 1 : Nat) : Int) * c := by
        push_cast; ring
      simp only [List.length_cons, e]

theorem take_succ_set {xs : List Val} {p : Nat} {w : Val} (h : p < xs.length) :
    (xs.set p w).take (p + 1) = xs.take p ++ [w] := by
  induction xs generalizing p with
  | nil => simp at h
  | cons x xs ih =>
    cases p with
    | zero => simp
    | succ p =>
      simp only [List.length_cons, Nat.add_lt_add_iff_right] at h
      simp [ih h]

theorem drop_set_gt {xs : List Val} {p k : Nat} {w : Val} (h : p < k) :
    (xs.set p w).drop k = xs.drop k := by
  induction xs generalizing p k with
  | nil => simp
  | cons x xs ih =>
    cases k with
    | zero => omega
    | succ k =>
      cases p with
      | zero => simp
      | succ p => simp [ih (by omega : p < k)]

theorem setItemRaw_plain_nat {xs : List Val} {p : Nat} {w : Val} (h : p < xs.length) :
    setItemRaw xs (p : Int) (.plain w) = .ok (xs.set p (conv w), true) := by
  obtain ⟨j, hj, hs⟩ := setItemRaw_plain_inrange (xs := xs) (i := (p : Int)) (v := w) (by omega)
  rw [hs]
  rw [normIndex_nonneg (Int.natCast_nonneg p) (by exact_mod_cast h)] at hj
  simp only [Int.toNat_natCast, Option.some.injEq] at hj
  rw [hj]

/-- Plain writes at consecutive in-range positions overwrite that block. -/
theorem writeRun_plain_contig {xs : List Val} {p : Nat} {ws : List Val} (u : Bool)
    (h : p + ws.length ≤ xs.length) (hw : ∀ w ∈ ws, missingFree w = true) :
    writeRun xs (p : Int) 1 u (ws.map Arg.plain) =
      (xs.take p ++ ws ++ xs.drop (p + ws.length), u || !ws.isEmpty, Option.none) := by
  induction ws generalizing xs p u with
  | nil => simp [writeRun]
  | cons w ws ih =>
    simp only [List.length_cons] at h
    have hp : p < xs.length := by omega
    simp only [List.map_cons, writeRun, setItemRaw_plain_nat hp,
      conv_eq_self w (hw w List.mem_cons_self)]
    have e : (p : Int) + 1 = ((p + 1 : Nat) : Int) := by push_cast; rfl
    rw [e, ih (xs := xs.set p w) (p := p + 1) _ (by simp only [List.length_set]; omega)
      (fun v hv => hw v (List.mem_cons_of_mem _ hv))]
    rw [take_succ_set hp, drop_set_gt (by omega : p < p + 1 + ws.length)]
    have e2 : p + 1 + ws.length = p + (ws.length + 1) := by omega
    rw [e2]
    simp

theorem pyInsert_nat {xs : List Val} {p : Nat} (v : Val) (h : p ≤ xs.length) :
    pyInsert xs (p : Int) v = xs.take p ++ v :: xs.drop p := by
  unfold pyInsert
  have h1 : ¬ ((p : Int) < 0) := by omega
  have h2 : ¬ ((p : Int) > (xs.length : Int)) := by omega
  simp only [h1, h2, if_false, Int.toNat_natCast]

/-- `Insertion` writes at consecutive positions splice the values in. -/
theorem writeRun_ins_contig {xs : List Val} {p : Nat} {ws : List Val} (u : Bool)
    (h : p ≤ xs.length) (hw : ∀ w ∈ ws, missingFree w = true) :
    writeRun xs (p : Int) 1 u (ws.map Arg.ins) =
      (xs.take p ++ ws ++ xs.drop p, u || !ws.isEmpty, Option.none) := by
  induction ws generalizing xs p u with
  | nil => simp [writeRun]
  | cons w ws ih =>
    simp only [List.map_cons, writeRun, setItemRaw_ins, conv_eq_self w (hw w List.mem_cons_self),
      pyInsert_nat w h]
    have e : (p : Int) + 1 = ((p + 1 : Nat) : Int) := by push_cast; rfl
    have hl : (xs.take p ++ w :: xs.drop p).length = xs.length + 1 := by
      simp [List.length_take, Nat.min_eq_left h]; omega
    rw [e, ih (xs := xs.take p ++ w :: xs.drop p) (p := p + 1) _ (by omega)
      (fun v hv => hw v (List.mem_cons_of_mem _ hv))]
    have hlt : (xs.take p).length = p := by rw [List.length_take]; omega
    have ht : (xs.take p ++ w :: xs.drop p).take (p + 1) = xs.take p ++ [w] := by
      rw [List.take_append, hlt, List.take_of_length_le (by omega)]
      simp
    have hd : (xs.take p ++ w :: xs.drop p).drop (p + 1) = xs.drop p := by
      rw [List.drop_append, hlt, List.drop_of_length_le (by omega)]
      simp
    rw [ht, hd]
    simp

/-! ### Slice assignment, step 1 -/

theorem pyRange_one_length {a b : Int} : (pyRange a b 1).length = (b - a).toNat := by
  unfold pyRange
  simp only [Int.one_pos, if_true]
  generalize hf : (b - a).toNat = f
  induction f generalizing a with
  | zero =>
    rfl
  | succ f ih =>
    unfold rangeUp
    have : a < b := by omega
    simp only [this, if_true, List.length_cons]
    rw [ih (by omega)]

theorem clean_take {xs : List Val} (k : Nat) (h : Clean xs) : Clean (xs.take k) :=
  h.sublist (List.take_sublist k xs)

theorem clean_drop {xs : List Val} (k : Nat) (h : Clean xs) : Clean (xs.drop k) :=
  h.sublist (List.drop_sublist k xs)

theorem purge_replicate_missing (k : Nat) : purge (List.replicate k Val.missing) = [] := by
  induction k with
  | zero => rfl
  | succ k ih => simp [List.replicate_succ, purge, Val.isMissing] at *

theorem missingFree_missing : missingFree Val.missing = true := by simp [missingFree]

/-- `notify = false` is admissible for a step-1 slice assignment only if nothing has to be purged. -/
theorem step_setSlice_one {xs vs : List Val} {s : Slice} {nt : Bool} {a b : Int}
    (hs : sliceIndices s xs.length = .ok (a, b, 1)) (hx : Clean xs)
    (hv : ∀ v ∈ vs, missingFree v = true)
    (hn : nt = true ∨ ((∀ v ∈ vs, v.isMissing = false) ∧ (pyRange a b 1).length ≤ vs.length)) :
    implL xs ⟨.setSlice s vs, nt⟩ = specL xs ⟨.setSlice s vs, nt⟩ := by
  obtain ⟨_, hp, _⟩ := sliceIndices_bounds hs
  obtain ⟨ha0, han, hb0, hbn⟩ := hp Int.one_pos
  simp only [implL, specL, PyList.setSlice, hs, if_true]
  rw [pyRange_one_length] at hn ⊢
  -- natural-number views of the bounds
  obtain ⟨A, rfl⟩ := Int.eq_ofNat_of_zero_le ha0
  obtain ⟨B, rfl⟩ := Int.eq_ofNat_of_zero_le hb0
  have hA : A ≤ xs.length := by exact_mod_cast han
  have hB : B ≤ xs.length := by exact_mod_cast hbn
  have hsize : ((B : Int) - (A : Int)).toNat = B - A := by omega
  rw [hsize] at hn ⊢
  have hb' : (if (B : Int) < (A : Int) then (A : Int) else (B : Int)).toNat = A + (B - A) := by
    split <;> omega
  rw [hb', Int.toNat_natCast]
  by_cases hlt : B - A < vs.length
  · -- more replacements than slots: overwrite, then insert the rest
    simp only [hlt, if_true]
    rw [writeRun_append]
    have h1 : A + (vs.take (B - A)).length ≤ xs.length := by
      rw [List.length_take]; omega
    rw [writeRun_plain_contig false h1 (fun v hv' => hv v (List.mem_of_mem_take hv'))]
    simp only []
    have hlen : (List.map Arg.plain (List.take (B - A) vs)).length = B - A := by
      rw [List.length_map, List.length_take]; omega
    have hpos : (A : Int) + ((List.map Arg.plain (List.take (B - A) vs)).length : Int) * 1
        = ((A + (B - A) : Nat) : Int) := by
      rw [hlen]; push_cast; ring
    rw [hpos]
    have hl2 : (List.take A xs ++ List.take (B - A) vs ++
        List.drop (A + (List.take (B - A) vs).length) xs).length = xs.length := by
      simp only [List.length_append, List.length_take, List.length_drop]; omega
    rw [writeRun_ins_contig _ (by rw [hl2]; omega) (fun v hv' => hv v (List.mem_of_mem_drop hv'))]
    simp only [okNone]
    have hres : List.take (A + (B - A)) (List.take A xs ++ List.take (B - A) vs ++
          List.drop (A + (List.take (B - A) vs).length) xs) ++ List.drop (B - A) vs ++
        List.drop (A + (B - A)) (List.take A xs ++ List.take (B - A) vs ++
          List.drop (A + (List.take (B - A) vs).length) xs)
        = List.take A xs ++ vs ++ List.drop (A + (B - A)) xs := by
      have hl3 : (List.take A xs ++ List.take (B - A) vs).length = A + (B - A) := by
        simp only [List.length_append, List.length_take]; omega
      have hl4 : (List.take (B - A) vs).length = B - A := by rw [List.length_take]; omega
      rw [hl4, List.take_append_of_le_length (by omega), List.take_of_length_le (by omega),
        List.drop_append_of_le_length (by omega), List.drop_of_length_le (by omega : _ ≤ A + (B - A))]
      simp only [List.nil_append, List.append_assoc]
      rw [← List.append_assoc (List.take (B - A) vs), List.take_append_drop]
    rw [hres]
    congr 1
    apply notifyIf_eq_purge
    rcases hn with hn | hn
    · left
      refine ⟨hn, ?_⟩
      have : (List.drop (B - A) vs).isEmpty = false := by
        rw [List.isEmpty_eq_false_iff]
        intro he
        have := congrArg List.length he
        simp only [List.length_drop, List.length_nil] at this
        omega
      simp [this]
    · right
      exact ((clean_take A hx).append hn.1).append (clean_drop _ hx)
  · -- at most as many replacements as slots: overwrite, pad with placeholders
    simp only [hlt, if_false]
    have hmap : List.map Arg.plain vs ++ List.replicate (B - A - vs.length) (Arg.plain Val.missing)
        = List.map Arg.plain (vs ++ List.replicate (B - A - vs.length) Val.missing) := by
      simp
    rw [hmap]
    have h1 : A + (vs ++ List.replicate (B - A - vs.length) Val.missing).length ≤ xs.length := by
      simp only [List.length_append, List.length_replicate]; omega
    rw [writeRun_plain_contig false h1 (by
      intro v hv'
      rcases List.mem_append.mp hv' with h | h
      · exact hv v h
      · rw [(List.mem_replicate.mp h).2]; exact missingFree_missing)]
    simp only [okNone]
    have hl : (vs ++ List.replicate (B - A - vs.length) Val.missing).length = B - A := by
      simp only [List.length_append, List.length_replicate]; omega
    rw [hl]
    rcases hn with hn | hn
    · subst hn
      by_cases he : (vs ++ List.replicate (B - A - vs.length) Val.missing).isEmpty = true
      · -- nothing written: both sides are `xs`
        have he' := List.isEmpty_iff.mp he
        have hvs : vs = [] := (List.append_eq_nil_iff.mp he').1
        have hz : B - A = 0 := by rw [← hl, he']; rfl
        rw [he', hz]
        subst hvs
        simp only [List.append_nil, Nat.add_zero, List.take_append_drop]
        congr 1
        exact notifyIf_eq_purge (Or.inr hx)
      · simp only [Bool.not_eq_true] at he
        congr 1
        rw [notifyIf_eq_purge (Or.inl ⟨rfl, by simp [he]⟩)]
        simp only [purge_append, purge_replicate_missing, List.append_nil]
    · have hz : B - A - vs.length = 0 := by omega
      simp only [hz, List.replicate_zero, List.append_nil]
      congr 1
      exact notifyIf_eq_purge (Or.inr (((clean_take A hx).append hn.1).append (clean_drop _ hx)))

end Pg.C02
