/-
  C17 — the process-wide side effect of the thread-local `detour` / `apply_wrappers`.

  The mapping is per thread, but the replaced `__new__` is shared by all threads.  `PatchInv`: every
  class mapped by any frame of a thread's detour stack is patched.  Under it object creation follows
  the thread's own mapping (`construct_follows_mapping`); it is preserved by the thread's own enter /
  exit and by every action of other threads as long as nobody *unpatches* (`patched` only grows).
-/
import PgProofs.Scope
import PgProofs.ScopeRules
namespace Pg.C17

def stackOf (m : Mgr) (t : Nat) (w : World) : List Frame := ((w.sel m.storage t).stk m.key).getD []

def PatchInv (m : Mgr) (t : Nat) (w : World) : Prop :=
  ∀ f ∈ stackOf m t w, ∀ c, (Dict.get? f c).isSome = true → w.patched c = true

theorem mappingDest_none {f : Frame} {c : String} (h : Dict.get? f c = none) : mappingDest f c = c := by
  simp [mappingDest, h]

theorem construct_follows_mapping (m : Mgr) (c : String) (t : Nat) (w : World) (h : PatchInv m t w) :
    construct m c t w = mappingDest ((stackOf m t w).headD []) c := by
  unfold construct
  by_cases hp : w.patched c = true
  · simp [hp, stackOf]
  · simp only [hp, Bool.false_eq_true, if_false]
    cases hs : stackOf m t w with
    | nil => exact (mappingDest_none rfl).symm
    | cons f l =>
      simp only [List.headD_cons]
      cases hg : Dict.get? f c with
      | none => exact (mappingDest_none hg).symm
      | some v =>
        exact absurd (h f (by rw [hs]; exact List.mem_cons_self) c (by simp [hg])) hp

theorem put_patched (w : World) (st : Storage) (t : Nat) (s : Store) : (w.put st t s).patched = w.patched := by
  cases st <;> rfl

theorem get?_set_isSome {β : Type} (f : List (String × β)) (k c : String) (v : β)
    (h : (Dict.get? (Dict.set f k v) c).isSome = true) : c = k ∨ (Dict.get? f c).isSome = true := by
  by_cases hc : c = k
  · exact Or.inl hc
  · rw [Dict.get?_set_other _ _ _ _ hc] at h; exact Or.inr h

theorem update_isSome (f g : Frame) (c : String) (h : (Dict.get? (Dict.update f g) c).isSome = true) :
    (Dict.get? f c).isSome = true ∨ ∃ p ∈ g, p.1 = c := by
  induction g generalizing f with
  | nil => exact Or.inl h
  | cons p g ih =>
    have hstep : Dict.update f (p :: g) = Dict.update (Dict.set f p.1 p.2) g := rfl
    rw [hstep] at h
    rcases ih _ h with h1 | ⟨q, hq, hqc⟩
    · rcases get?_set_isSome _ _ _ _ h1 with h2 | h2
      · exact Or.inr ⟨p, List.mem_cons_self, h2.symm⟩
      · exact Or.inl h2
    · exact Or.inr ⟨q, List.mem_cons_of_mem _ hq, hqc⟩

/-- Every class mapped by the frame pushed by `detour` was mapped by the enclosing frame or is one
of the newly patched sources. -/
theorem detourDerive_keys (top maps : Frame) (c : String)
    (h : (Dict.get? (detourDerive top maps) c).isSome = true) :
    (Dict.get? top c).isSome = true ∨ c ∈ newSources top maps := by
  unfold detourDerive at h
  rcases update_isSome _ _ _ h with h1 | ⟨p, hp, hpc⟩
  · exact Or.inl h1
  · right
    simp only [List.mem_filterMap] at hp
    obtain ⟨q, hq, hqp⟩ := hp
    simp only [newSources, List.mem_map, List.mem_filter]
    by_cases hq1 : (Dict.get? top q.1).isSome = true
    · simp [hq1] at hqp
    · refine ⟨q, ⟨hq, by simpa using hq1⟩, ?_⟩
      simp only [hq1] at hqp
      have : p.1 = q.1 := by
        split at hqp
        · cases hqp
        · split at hqp <;> (injection hqp with hqp; rw [← hqp])
      rw [← this, hpc]

/-- The thread's own `detour` / `apply_wrappers` enter keeps the invariant: it patches exactly the
sources it maps newly. -/
theorem enter_patchInv {m : Mgr} {a : Arg} {t : Nat} {w w1 : World} {sv : Saved} {st : Storage}
    (hk : m.kind = .stack .detour) (h : enter m a t w = .ok (w1, sv, st)) (hi : PatchInv m t w) :
    PatchInv m t w1 := by
  unfold enter at h
  simp only [hk, Except.ok.injEq, Prod.mk.injEq] at h
  obtain ⟨h1, _, _⟩ := h
  subst h1
  intro f hf c hc
  simp only [stackOf, sel_put, enterS, hk, upd, if_true, Option.getD_some, frameRule, derive] at hf
  rw [put_patched]
  simp only [World.patch, Bool.or_eq_true]
  rcases List.mem_cons.mp hf with hnew | hold
  · subst hnew
    rcases detourDerive_keys _ _ _ hc with h2 | h2
    · left
      cases hs : ((w.sel m.storage t).stk m.key).getD [] with
      | nil => simp [hs, Dict.get?] at h2
      | cons f0 l =>
        rw [hs] at h2
        exact hi f0 (by simp [stackOf, hs]) c h2
    · right
      simpa [patchOf, hk] using h2
  · left
    exact hi f hold c hc

/-- … and so does its exit (the pop; the patch stays). -/
theorem exit_patchInv {m : Mgr} {t : Nat} {w : World} (hi : PatchInv m t w) :
    PatchInv m t (exit m .pop m.storage t w) := by
  intro f hf c hc
  unfold exit at hf ⊢
  rw [put_patched]
  simp only [stackOf, sel_put, exitS, upd, if_true] at hf
  refine hi f ?_ c hc
  unfold stackOf
  cases hs : (w.sel m.storage t).stk m.key with
  | none => simp [hs] at hf
  | some l =>
    simp only [hs, Option.map_some, Option.getD_some] at hf ⊢
    exact List.mem_of_mem_tail hf

/-- Interference: anything that leaves this thread's stack alone and never *unpatches* a class keeps
the invariant. -/
theorem patchInv_of_mono {m : Mgr} {t : Nat} {w w' : World} (hs : stackOf m t w' = stackOf m t w)
    (hp : ∀ c, w.patched c = true → w'.patched c = true) (hi : PatchInv m t w) : PatchInv m t w' := by
  intro f hf c hc
  rw [hs] at hf
  exact hp c (hi f hf c hc)

theorem stackOf_of_frames {m : Mgr} {t : Nat} {w w' : World} (h1 : w'.tls t = w.tls t) (h2 : w'.proc = w.proc) :
    stackOf m t w' = stackOf m t w := by
  unfold stackOf
  cases m.storage <;> simp only [World.sel, h1, h2]

/-- Entering any manager never unpatches … -/
theorem enter_patched_mono {m : Mgr} {a : Arg} {t : Nat} {w w1 : World} {sv : Saved} {st : Storage}
    (h : enter m a t w = .ok (w1, sv, st)) (c : String) (hc : w.patched c = true) : w1.patched c = true := by
  unfold enter at h
  cases hk : m.kind <;> simp only [hk] at h
  case dynEval =>
    split at h
    · split at h
      · simp only [Except.ok.injEq, Prod.mk.injEq] at h
        obtain ⟨h1, _, _⟩ := h
        subst h1
        rw [put_patched]; exact hc
      · cases h
    · simp only [Except.ok.injEq, Prod.mk.injEq] at h
      obtain ⟨h1, _, _⟩ := h
      subst h1
      exact hc
  all_goals
    simp only [Except.ok.injEq, Prod.mk.injEq] at h
    obtain ⟨h1, _, _⟩ := h
    subst h1
    rw [put_patched]
    simp [World.patch, hc]

/-- … and no exit touches the patches. -/
theorem exit_patched (m : Mgr) (sv : Saved) (st : Storage) (t : Nat) (w : World) :
    (exit m sv st t w).patched = w.patched := by
  unfold exit; exact put_patched _ _ _ _

end Pg.C17
