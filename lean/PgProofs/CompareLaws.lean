/-
  C06 helper lemmas, part 4: trichotomy / totality of `lt` and symmetry of `eq` on `Comparable`
  values of any depth (mutual structural induction).
-/
import PgProofs.CompareDict
namespace Pg.C06

variable {env : Env}

theorem eq_kind {x y : Val} (h : eq x y = true) : kindOf x = kindOf y := by
  cases x <;> cases y <;> simp [eq] at h
  · rename_i a b; simp [kindOf, atomEq_kind h]
  · rfl
  · rfl
  · rfl
  · simp [kindOf, h.1]

theorem eq_false_of_kind {x y : Val} (h : kindOf x ≠ kindOf y) : eq x y = false := by
  cases he : eq x y
  · rfl
  · exact absurd (eq_kind he) h

theorem lt_of_rankCmp {x y : Val} {r : Bool} (h : rankCmp env x y = some r) : lt env x y = .ok r := by
  cases x <;> simp [lt, h]

theorem Tri.cons {a a' b b' : Except Err Bool} {e e' : Bool} (hd : Tri a e b) (tl : Tri a' e' b') :
    Tri (if e = true then a' else a) (e && e') (if e = true then b' else b) := by
  cases e
  · simpa using hd
  · simpa using tl

/-- Values of different kinds are ordered by their rank strings and are never `eq`. -/
theorem tri_diff (ok : EnvOk env) {x y : Val} (hk : kindOf x ≠ kindOf y) :
    Tri (lt env x y) (eq x y) (lt env y x) ∧ eq y x = eq x y := by
  obtain ⟨h1, hne⟩ := rankCmp_diff ok hk
  obtain ⟨h2, _⟩ := rankCmp_diff ok (x := y) (y := x) (fun h => hk h.symm)
  rw [lt_of_rankCmp h1, lt_of_rankCmp h2, eq_false_of_kind hk, eq_false_of_kind (fun h => hk h.symm)]
  exact ⟨Tri.of_lex hne, rfl⟩

/-- Native comparison of two tuples of numbers (or of strings). -/
theorem tri_tuple (num : Bool) (xs : List Val) : ∀ ys : List Val,
    xs.all (tupleElemOk num) = true → ys.all (tupleElemOk num) = true →
    Tri (pySeqLt xs ys) (eqList xs ys) (pySeqLt ys xs) ∧ eqList ys xs = eqList xs ys := by
  induction xs with
  | nil =>
    intro ys _ _
    cases ys with
    | nil => exact ⟨Or.inr (Or.inl ⟨rfl, rfl, rfl⟩), rfl⟩
    | cons y ys => exact ⟨Or.inl ⟨rfl, rfl, rfl⟩, rfl⟩
  | cons x xs ih =>
    intro ys hx hy
    cases ys with
    | nil => exact ⟨Or.inr (Or.inr ⟨rfl, rfl, rfl⟩), rfl⟩
    | cons y ys =>
      simp only [List.all_cons, Bool.and_eq_true] at hx hy
      obtain ⟨iht, ihe⟩ := ih ys hx.2 hy.2
      have hd : Tri (pyLt x y) (eq x y) (pyLt y x) ∧ eq y x = eq x y := by
        cases num
        · -- strings
          cases x with
          | atom a => cases a with
            | str s => cases y with
              | atom b => cases b with
                | str t =>
                  simp only [pyLt, eq, atomEq]
                  rcases lexLt_trichotomy s t with ⟨h1, h2, h3⟩ | ⟨h1, h2, h3⟩ | ⟨h1, h2, h3⟩ <;>
                    rw [h1, h3]
                  · exact ⟨Or.inl ⟨rfl, by simpa using h2, rfl⟩, by simp [eq_comm]⟩
                  · exact ⟨Or.inr (Or.inl ⟨rfl, by simpa using h2, rfl⟩), by simp [eq_comm]⟩
                  · exact ⟨Or.inr (Or.inr ⟨rfl, by simpa using h2, rfl⟩), by simp [eq_comm]⟩
                | _ => simp [tupleElemOk] at hy
              | _ => simp [tupleElemOk] at hy
            | _ => simp [tupleElemOk] at hx
          | _ => simp [tupleElemOk] at hx
        · cases x with
          | atom a => cases a with
            | num n => cases y with
              | atom b => cases b with
                | num m =>
                  simp only [pyLt, eq, atomEq]
                  rcases Num.trichotomy n m with ⟨h1, h2, h3⟩ | ⟨h1, h2, h3⟩ | ⟨h1, h2, h3⟩ <;>
                    rw [h1, h2, h3, Num.eq_symm m n, h2]
                  · exact ⟨Or.inl ⟨rfl, rfl, rfl⟩, rfl⟩
                  · exact ⟨Or.inr (Or.inl ⟨rfl, rfl, rfl⟩), rfl⟩
                  · exact ⟨Or.inr (Or.inr ⟨rfl, rfl, rfl⟩), rfl⟩
                | _ => simp [tupleElemOk] at hy
              | _ => simp [tupleElemOk] at hy
            | _ => simp [tupleElemOk] at hx
          | _ => simp [tupleElemOk] at hx
      simp only [pySeqLt, eqList, hd.2, ihe]
      exact ⟨Tri.cons hd.1 iht, trivial⟩

mutual
  /-- Trichotomy (hence totality: `lt` never raises) and symmetry of `eq`, any depth. -/
  theorem tri (ok : EnvOk env) (num : Bool) (x : Val) : ∀ y : Val,
      comparable env num x = true → comparable env num y = true →
      Tri (lt env x y) (eq x y) (lt env y x) ∧ eq y x = eq x y := by
    intro y hx hy
    by_cases hk : kindOf x = kindOf y
    · have hk' : kindOf y = kindOf x := hk.symm
      cases x with
      | atom a =>
        cases y with
        | atom b =>
          rw [atomLt_eq_lt, atomLt_eq_lt]
          simp only [eq]
          exact ⟨atomTri ok a b, atomEq_symm b a⟩
        | _ => cases a <;> simp [kindOf, atomKind] at hk
      | list s xs =>
        cases y with
        | list t ys =>
          simp only [lt, rankCmp_same hk, rankCmp_same hk', eq]
          simp only [comparable] at hx hy
          exact triList ok num xs ys hx hy
        | atom b => cases b <;> simp [kindOf, atomKind] at hk
        | _ => simp [kindOf] at hk
      | tuple xs =>
        cases y with
        | tuple ys =>
          simp only [lt, rankCmp_same hk, rankCmp_same hk', eq]
          simp only [comparable] at hx hy
          exact tri_tuple num xs ys hx hy
        | atom b => cases b <;> simp [kindOf, atomKind] at hk
        | _ => simp [kindOf] at hk
      | dict s xs =>
        cases y with
        | dict t ys =>
          simp only [lt, rankCmp_same hk, rankCmp_same hk', eq_dict]
          simp only [comparable, Bool.and_eq_true] at hx hy
          exact triItems ok num none xs ys hx.1 hx.2 hy.1 hy.2
        | atom b => cases b <;> simp [kindOf, atomKind] at hk
        | _ => simp [kindOf] at hk
      | obj c xs =>
        cases y with
        | obj d ys =>
          have hcd : c = d := by simpa [kindOf] using hk
          subst hcd
          simp only [lt, rankCmp_same hk, rankCmp_same hk', eq_obj, if_true, beq_self_eq_true, Bool.true_and]
          simp only [comparable, Bool.and_eq_true] at hx hy
          exact triItems ok num (objSh env c) xs ys hx.1 hx.2 hy.1 hy.2
        | _ => simp [kindOf] at hk
    · exact tri_diff ok hk
  theorem triList (ok : EnvOk env) (num : Bool) (xs : List Val) : ∀ ys : List Val,
      comparableList env num xs = true → comparableList env num ys = true →
      Tri (ltList env xs ys) (eqList xs ys) (ltList env ys xs) ∧ eqList ys xs = eqList xs ys := by
    intro ys hx hy
    cases xs with
    | nil =>
      cases ys with
      | nil => exact ⟨Or.inr (Or.inl ⟨rfl, rfl, rfl⟩), rfl⟩
      | cons y ys => exact ⟨Or.inl ⟨rfl, rfl, rfl⟩, rfl⟩
    | cons x xs =>
      cases ys with
      | nil => exact ⟨Or.inr (Or.inr ⟨rfl, rfl, rfl⟩), rfl⟩
      | cons y ys =>
        simp only [comparableList, Bool.and_eq_true] at hx hy
        obtain ⟨hd, hde⟩ := tri ok num x y hx.1 hy.1
        obtain ⟨tl, tle⟩ := triList ok num xs ys hx.2 hy.2
        simp only [ltList, eqList, hde, tle]
        exact ⟨Tri.cons hd tl, trivial⟩
  theorem triItems (ok : EnvOk env) (num : Bool) (sh : Option (List Atom)) (xs : List (Atom × Val)) : ∀ ys : List (Atom × Val),
      keysOk env sh xs = true → comparableItems env num xs = true →
      keysOk env sh ys = true → comparableItems env num ys = true →
      Tri (ltItems env xs ys) (eqD xs ys) (ltItems env ys xs) ∧ eqD ys xs = eqD xs ys := by
    intro ys ax hx ay hy
    cases xs with
    | nil =>
      cases ys with
      | nil => exact ⟨Or.inr (Or.inl ⟨rfl, eqD_nil, rfl⟩), rfl⟩
      | cons q ys => exact ⟨Or.inl ⟨rfl, eqD_nil_cons _ _, rfl⟩, by rw [eqD_nil_cons, eqD_cons_nil]⟩
    | cons p xs =>
      cases ys with
      | nil => exact ⟨Or.inr (Or.inr ⟨rfl, eqD_cons_nil _ _, rfl⟩), by rw [eqD_nil_cons, eqD_cons_nil]⟩
      | cons q ys =>
        obtain ⟨k, v⟩ := p
        obtain ⟨k', w⟩ := q
        simp only [comparableItems, Bool.and_eq_true] at hx hy
        cases hk : atomEq k k'
        · have hk' : atomEq k' k = false := by rw [atomEq_symm]; exact hk
          rw [eqD_cons_ne ok ax ay hk, eqD_cons_ne ok ay ax hk']
          simp only [ltItems, hk, hk']
          have := atomTri ok k k'
          rw [hk] at this
          exact ⟨by simpa using this, trivial⟩
        · have hk' : atomEq k' k = true := by rw [atomEq_symm]; exact hk
          obtain ⟨hd, hde⟩ := tri ok num v w hx.1 hy.1
          obtain ⟨tl, tle⟩ := triItems ok num (shTail sh) xs ys (keysOk_tail ax) hx.2 (keysOk_tail ay) hy.2
          rw [eqD_cons_eq ok ax ay hk, eqD_cons_eq ok ay ax hk']
          simp only [ltItems, hk, hk', if_true, hde, tle]
          exact ⟨Tri.cons hd tl, trivial⟩
end

end Pg.C06
