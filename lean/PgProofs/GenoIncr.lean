/-
  The enumeration `all` is strictly increasing w.r.t. `DNA.__cmp__` (and `__cmp__` never raises
  between two members).
-/
import PgProofs.GenoOdo3
namespace Pg.Geno
open DNA

def ltD (a b : DNA) : Prop := DNA.cmp a b = some .lt
def ltL (a b : List DNA) : Prop := DNA.cmpList a b = some .lt
def reflD (a : DNA) : Prop := DNA.cmp a a = some .eq
def reflL (a : List DNA) : Prop := DNA.cmpList a a = some .eq

theorem valCmp_int_lt {a b : Nat} (h : a < b) : Val.cmp (.int (a : Nat)) (.int (b : Nat)) = .lt := by
  simp only [Val.cmp]
  exact Int.compare_eq_lt.mpr (by exact_mod_cast h)

theorem valCmp_int_refl (a : Int) : Val.cmp (.int a) (.int a) = .eq := by
  simp [Val.cmp]

theorem cmp_of_val_lt {v w : Val} (cs ds : List DNA) (h : Val.cmp v w = .lt) :
    DNA.cmp (.mk v cs) (.mk w ds) = some .lt := by
  simp [DNA.cmp, h]

theorem cmp_of_val_eq {v w : Val} {cs ds : List DNA} (h : Val.cmp v w = .eq) (hl : cs.length = ds.length) :
    DNA.cmp (.mk v cs) (.mk w ds) = DNA.cmpList cs ds := by
  simp [DNA.cmp, h, hl]

theorem cmpList_cons_lt {a a' : DNA} (e e' : List DNA) (h : ltD a a') : ltL (a :: e) (a' :: e') := by
  unfold ltL ltD at *
  simp [DNA.cmpList, h]

theorem cmpList_cons_eq {a : DNA} (e e' : List DNA) (h : reflD a) :
    DNA.cmpList (a :: e) (a :: e') = DNA.cmpList e e' := by
  unfold reflD at h
  simp [DNA.cmpList, h]

theorem ltD_of_ltL_single {x x' : DNA} (h : ltL [x] [x']) : ltD x x' := by
  unfold ltL ltD at *
  simp only [DNA.cmpList] at h
  cases hc : DNA.cmp x x' with
  | none => simp [hc] at h
  | some o => cases o <;> simp_all [DNA.cmpList]

theorem reflD_of_reflL_single {x : DNA} (h : reflL [x]) : reflD x := by
  unfold reflL reflD at *
  simp only [DNA.cmpList] at h
  cases hc : DNA.cmp x x with
  | none => simp [hc] at h
  | some o => cases o <;> simp_all [DNA.cmpList]

theorem reflL_cons {a : DNA} {e : List DNA} (ha : reflD a) (he : reflL e) : reflL (a :: e) := by
  unfold reflL at *
  rw [cmpList_cons_eq e e ha]; exact he

theorem reflL_nil : reflL [] := rfl

/-! ### combinators -/

theorem pairwise_lexProd_lt {A : List DNA} {E : List (List DNA)} (hA : A.Pairwise ltD)
    (hAr : ∀ a ∈ A, reflD a) (hE : E.Pairwise ltL) : (lexProd A E).Pairwise ltL := by
  unfold lexProd
  rw [List.pairwise_flatMap]
  constructor
  · intro a ha
    rw [List.pairwise_map]
    exact hE.imp (fun {e e'} h => by unfold ltL at *; rw [cmpList_cons_eq e e' (hAr a ha)]; exact h)
  · exact hA.imp (fun {a a'} h x hx y hy => by
      simp only [List.mem_map] at hx hy
      obtain ⟨e, _, rfl⟩ := hx
      obtain ⟨e', _, rfl⟩ := hy
      exact cmpList_cons_lt e e' h)

theorem pairwise_walkIdx_of {β γ : Type} {R : γ → γ → Prop} {F : Nat → β → List γ} : ∀ (l : List β) (s : Nat),
    (∀ i b, l[i]? = some b → (F (s + i) b).Pairwise R) →
    (∀ i i' b b' x y, i < i' → l[i]? = some b → l[i']? = some b' → x ∈ F (s + i) b → y ∈ F (s + i') b' → R x y) →
    (walkIdx F s l).Pairwise R
  | [], _, _, _ => by simp [walkIdx]
  | a :: t, s, hnd, hdis => by
    simp only [walkIdx]
    rw [List.pairwise_append]
    refine ⟨by simpa using hnd 0 a rfl, ?_, ?_⟩
    · apply pairwise_walkIdx_of t (s + 1)
      · intro i b hb
        have := hnd (i + 1) b (by simpa using hb)
        rwa [show s + (i + 1) = s + 1 + i by omega] at this
      · intro i i' b b' x y hii hb hb' hx hy
        exact hdis (i + 1) (i' + 1) b b' x y (by omega) (by simpa using hb) (by simpa using hb')
          (by rwa [show s + (i + 1) = s + 1 + i by omega])
          (by rwa [show s + (i' + 1) = s + 1 + i' by omega])
    · intro x hx y hy
      rw [mem_walkIdx] at hy
      obtain ⟨i, b, hb, hy⟩ := hy
      exact hdis 0 (i + 1) a b x y (by omega) rfl (by simpa using hb) (by simpa using hx)
        (by rwa [show s + (i + 1) = s + 1 + i by omega])

/-! ### sequences of choices -/

/-- What the ordering argument assumes about the children lists of the candidates. -/
structure SubsOrd (subs : List (List (List DNA))) : Prop where
  lt : ∀ ksl ∈ subs, ksl.Pairwise ltL
  refl : ∀ ksl ∈ subs, ∀ ks ∈ ksl, reflL ks
  len : ∀ ksl ∈ subs, ∀ ks ∈ ksl, ∀ ks' ∈ ksl, ks.length = ks'.length

theorem node_lt {c : Nat} {ks ks' : List DNA} (hl : ks.length = ks'.length) (h : ltL ks ks') :
    ltD (DNA.mk (.int (c : Nat)) ks) (DNA.mk (.int (c : Nat)) ks') := by
  unfold ltD
  rw [cmp_of_val_eq (valCmp_int_refl _) hl]; exact h

theorem node_refl {c : Nat} {ks : List DNA} (h : reflL ks) : reflD (DNA.mk (.int (c : Nat)) ks) := by
  unfold reflD
  rw [cmp_of_val_eq (valCmp_int_refl _) rfl]; exact h

theorem enumSeq_ordered {subs : List (List (List DNA))} (ho : SubsOrd subs) (dd ss : Bool) :
    ∀ (j : Nat) (prior : List Nat),
      (enumSeq subs dd ss prior j).Pairwise ltL ∧ ∀ seq ∈ enumSeq subs dd ss prior j, reflL seq := by
  intro j
  induction j with
  | zero => intro prior; simp [enumSeq, reflL_nil]
  | succ j ih =>
    intro prior
    rw [enumSeq_succ]
    have hblock : ∀ (i : Nat) (b : List (List DNA)), subs[i]? = some b →
        (nodeBlock i b).Pairwise ltD ∧ ∀ a ∈ nodeBlock i b, reflD a := by
      intro i b hb
      have hbm := List.mem_of_getElem? hb
      constructor
      · unfold nodeBlock
        rw [List.pairwise_map]
        exact List.Pairwise.imp_of_mem (fun {ks ks'} h1 h2 h => node_lt (ho.len b hbm ks h1 ks' h2) h) (ho.lt b hbm)
      · intro a ha
        simp only [nodeBlock, List.mem_map] at ha
        obtain ⟨ks, hks, rfl⟩ := ha
        exact node_refl (ho.refl b hbm ks hks)
    constructor
    · apply pairwise_walkIdx_of
      · intro i b hb
        simp only [blk, Nat.zero_add]
        by_cases ha : admissible dd ss prior i = true
        · simp only [ha, if_true]
          exact pairwise_lexProd_lt (hblock i b hb).1 (hblock i b hb).2 (ih _).1
        · simp [ha]
      · intro i i' b b' x y hii _ _ hx hy
        simp only [blk, Nat.zero_add] at hx hy
        by_cases ha : admissible dd ss prior i = true
        · by_cases ha' : admissible dd ss prior i' = true
          · simp only [ha, ha', if_true] at hx hy
            rw [mem_lexProd] at hx hy
            obtain ⟨a, ham, e, _, rfl⟩ := hx
            obtain ⟨a', ham', e', _, rfl⟩ := hy
            simp only [nodeBlock, List.mem_map] at ham ham'
            obtain ⟨ks, _, rfl⟩ := ham
            obtain ⟨ks', _, rfl⟩ := ham'
            exact cmpList_cons_lt e e' (cmp_of_val_lt _ _ (valCmp_int_lt hii))
          · simp [ha'] at hy
        · simp [ha] at hx
    · intro seq hseq
      rw [mem_walkIdx] at hseq
      obtain ⟨i, b, hb, hx⟩ := hseq
      simp only [blk, Nat.zero_add] at hx
      by_cases ha : admissible dd ss prior i = true
      · simp only [ha, if_true] at hx
        rw [mem_lexProd] at hx
        obtain ⟨a, ham, e, he, rfl⟩ := hx
        exact reflL_cons ((hblock i b hb).2 a ham) ((ih _).2 e he)
      · simp [ha] at hx

/-! ### roots and children lists -/

theorem valCmp_none : Val.cmp .none .none = .eq := rfl

theorem rootOf_lt : ∀ {a b : List DNA}, a.length = b.length → ltL a b → ltD (rootOf a) (rootOf b)
  | [], [], _, h => by simp [ltL, DNA.cmpList] at h
  | [x], [y], _, h => ltD_of_ltL_single h
  | a1 :: a2 :: t, b1 :: b2 :: t', hl, h => by
    simp only [rootOf]
    unfold ltD
    rw [cmp_of_val_eq valCmp_none hl]; exact h
  | [], _ :: _, hl, _ => by simp at hl
  | _ :: _, [], hl, _ => by simp at hl
  | [_], _ :: _ :: _, hl, _ => by simp at hl
  | _ :: _ :: _, [_], hl, _ => by simp at hl

theorem rootOf_refl : ∀ {a : List DNA}, reflL a → reflD (rootOf a)
  | [], _ => by simp [rootOf, reflD, DNA.cmp, DNA.cmpList, Val.cmp]
  | [x], h => reflD_of_reflL_single h
  | a1 :: a2 :: t, h => by
    simp only [rootOf]
    unfold reflD
    rw [cmp_of_val_eq valCmp_none rfl]; exact h

/-- The number of children below an `int` node choosing the candidate space `c`. -/
def kidsLen (c : Space) : Nat :=
  match c with
  | [.choices k _ _ _ _] => if k == 1 then 1 else k
  | _ => c.length

theorem kidsL_length (c : Space) (es : List DNA) (h : validElems c es = true) :
    (kidsL es).length = kidsLen c := by
  have hl := validElems_length c es h
  match c, es, h, hl with
  | [], [], _, _ => rfl
  | [.choices k cands d s info], [x], h, _ =>
    simp only [validElems, Bool.and_true] at h
    by_cases hk : k = 1
    · subst hk
      obtain ⟨v, ks, rfl⟩ := validP_single_int h
      rfl
    · obtain ⟨gs, rfl⟩ := validP_multi_none hk h
      have := validP_multi_len hk h
      simp [kidsL, kidsLen, hk, this]
  | [.float ..], [x], h, _ =>
    simp only [validElems, Bool.and_true] at h
    cases x with
    | mk w gs => cases w <;> first | rfl | simp [validP] at h
  | [.custom _], [x], h, _ =>
    simp only [validElems, Bool.and_true] at h
    cases x with
    | mk w gs => cases w <;> first | rfl | simp [validP] at h
  | p :: q :: r, a :: b :: t, _, hl =>
    rw [kidsL_two]
    have : kidsLen (p :: q :: r) = (p :: q :: r).length := by cases p <;> rfl
    rw [this]; exact hl
  | [], _ :: _, _, hl => simp at hl
  | [_], [], _, hl => simp at hl
  | [_], _ :: _ :: _, _, hl => simp at hl
  | _ :: _ :: _, [], _, hl => simp at hl
  | _ :: _ :: _, [_], _, hl => simp at hl

theorem kidsL_lt (c : Space) (hf : finiteSpace c = true) (a b : List DNA)
    (ha : validElems c a = true) (hb : validElems c b = true) (h : ltL a b) : ltL (kidsL a) (kidsL b) := by
  have la := validElems_length c a ha
  have lb := validElems_length c b hb
  match c, a, b, ha, hb, la, lb with
  | [], [], [], _, _, _, _ => exact h
  | [.choices k cands d s info], [x], [y], ha, hb, _, _ =>
    simp only [validElems, Bool.and_true] at ha hb
    by_cases hk : k = 1
    · subst hk
      obtain ⟨v, ks, rfl⟩ := validP_single_int ha
      obtain ⟨v', ks', rfl⟩ := validP_single_int hb
      exact h
    · obtain ⟨gs, rfl⟩ := validP_multi_none hk ha
      obtain ⟨gs', rfl⟩ := validP_multi_none hk hb
      have l1 := validP_multi_len hk ha
      have l2 := validP_multi_len hk hb
      have := ltD_of_ltL_single h
      unfold ltD at this
      rw [cmp_of_val_eq valCmp_none (l1.trans l2.symm)] at this
      exact this
  | [.float ..], _, _, _, _, _, _ => simp [finiteSpace, Point.finite] at hf
  | [.custom _], _, _, _, _, _, _ => simp [finiteSpace, Point.finite] at hf
  | p :: q :: r, a1 :: a2 :: t, b1 :: b2 :: t', _, _, _, _ => rw [kidsL_two, kidsL_two]; exact h
  | [], _ :: _, _, _, _, la, _ => simp at la
  | [], [], _ :: _, _, _, _, lb => simp at lb
  | [_], [], _, _, _, la, _ => simp at la
  | [_], _ :: _ :: _, _, _, _, la, _ => simp at la
  | [.choices ..], [_], [], _, _, _, lb => simp at lb
  | [.choices ..], [_], _ :: _ :: _, _, _, _, lb => simp at lb
  | _ :: _ :: _, [], _, _, _, la, _ => simp at la
  | _ :: _ :: _, [_], _, _, _, la, _ => simp at la
  | _ :: _ :: _, _ :: _ :: _, [], _, _, _, lb => simp at lb
  | _ :: _ :: _, _ :: _ :: _, [_], _, _, _, lb => simp at lb

theorem kidsL_refl (c : Space) (hf : finiteSpace c = true) (a : List DNA)
    (ha : validElems c a = true) (h : reflL a) : reflL (kidsL a) := by
  have la := validElems_length c a ha
  match c, a, ha, la with
  | [], [], _, _ => exact h
  | [.choices k cands d s info], [x], ha, _ =>
    simp only [validElems, Bool.and_true] at ha
    by_cases hk : k = 1
    · subst hk
      obtain ⟨v, ks, rfl⟩ := validP_single_int ha
      exact h
    · obtain ⟨gs, rfl⟩ := validP_multi_none hk ha
      have := reflD_of_reflL_single h
      unfold reflD at this
      rw [cmp_of_val_eq valCmp_none rfl] at this
      exact this
  | [.float ..], _, _, _ => simp [finiteSpace, Point.finite] at hf
  | [.custom _], _, _, _ => simp [finiteSpace, Point.finite] at hf
  | p :: q :: r, a1 :: a2 :: t, _, _ => rw [kidsL_two]; exact h
  | [], _ :: _, _, la => simp at la
  | [_], [], _, la => simp at la
  | [_], _ :: _ :: _, _, la => simp at la
  | _ :: _ :: _, [], _, la => simp at la
  | _ :: _ :: _, [_], _, la => simp at la

/-! ### the induction over specs -/

mutual
  theorem ordP (p : Point) (hf : p.finite = true) :
      (allP p).Pairwise ltD ∧ ∀ d ∈ allP p, reflD d := by
    cases p with
    | float => simp [Point.finite] at hf
    | custom => simp [Point.finite] at hf
    | choices k cands dd ss info =>
      simp only [Point.finite] at hf
      have ho := ordC cands hf
      obtain ⟨hE, hR⟩ := enumSeq_ordered ho dd ss k []
      have hlen : ∀ seq ∈ enumSeq (allCands cands) dd ss [] k, seq.length = k :=
        fun seq hs => (mem_enumSeq_facts dd ss k seq hs).1
      simp only [allP]
      constructor
      · rw [List.pairwise_map]
        exact List.Pairwise.imp_of_mem (fun {a b} ha hb h => rootOf_lt ((hlen a ha).trans (hlen b hb).symm) h) hE
      · intro d hd
        simp only [List.mem_map] at hd
        obtain ⟨seq, hseq, rfl⟩ := hd
        exact rootOf_refl (hR seq hseq)
  theorem ordE (es : List Point) (hf : finiteSpace es = true) :
      (allElems es).Pairwise ltL ∧ ∀ ds ∈ allElems es, reflL ds := by
    cases es with
    | nil => simp [allElems, reflL_nil]
    | cons p ps =>
      simp only [finiteSpace, Bool.and_eq_true] at hf
      obtain ⟨hp, hpr⟩ := ordP p hf.1
      obtain ⟨he, her⟩ := ordE ps hf.2
      rw [allElems_cons]
      refine ⟨pairwise_lexProd_lt hp hpr he, ?_⟩
      intro ds hds
      rw [mem_lexProd] at hds
      obtain ⟨a, ha, e, he', rfl⟩ := hds
      exact reflL_cons (hpr a ha) (her e he')
  theorem ordC (cs : List (List Point)) (hf : finiteCands cs = true) : SubsOrd (allCands cs) := by
    cases cs with
    | nil => exact ⟨by simp [allCands], by simp [allCands], by simp [allCands]⟩
    | cons c cs =>
      simp only [finiteCands, Bool.and_eq_true] at hf
      obtain ⟨he, her⟩ := ordE c hf.1
      have hrest := ordC cs hf.2
      have hE := memE_iff c hf.1
      simp only [allCands]
      refine ⟨?_, ?_, ?_⟩
      · intro ksl hk
        cases hk with
        | head =>
          rw [List.pairwise_map]
          exact List.Pairwise.imp_of_mem
            (fun {a b} ha hb h => kidsL_lt c hf.1 a b ((hE a).mp ha) ((hE b).mp hb) h) he
        | tail _ h => exact hrest.lt ksl h
      · intro ksl hk ks hks
        cases hk with
        | head =>
          simp only [List.mem_map] at hks
          obtain ⟨a, ha, rfl⟩ := hks
          exact kidsL_refl c hf.1 a ((hE a).mp ha) (her a ha)
        | tail _ h => exact hrest.refl ksl h ks hks
      · intro ksl hk ks hks ks' hks'
        cases hk with
        | head =>
          simp only [List.mem_map] at hks hks'
          obtain ⟨a, ha, rfl⟩ := hks
          obtain ⟨b, hb, rfl⟩ := hks'
          rw [kidsL_length c a ((hE a).mp ha), kidsL_length c b ((hE b).mp hb)]
        | tail _ h => exact hrest.len ksl h ks hks ks' hks'
end

theorem all_increasing (g : Spec) (hf : g.finite = true) :
    g.all.Pairwise (fun a b => DNA.lt a b = true) := by
  have key : g.all.Pairwise ltD := by
    cases g with
    | point p => exact (ordP p hf).1
    | space s =>
      obtain ⟨he, _⟩ := ordE s hf
      have hE := memE_iff s hf
      simp only [Spec.all, allS]
      rw [List.pairwise_map]
      exact List.Pairwise.imp_of_mem (fun {a b} ha hb h =>
        rootOf_lt ((validElems_length s a ((hE a).mp ha)).trans (validElems_length s b ((hE b).mp hb)).symm) h) he
  exact key.imp (fun {a b} h => by unfold ltD at h; simp [DNA.lt, h])

end Pg.Geno
