/-
  C11: `attach_spec`.  `first_dna` / `next_dna` / `iter_dna` compute the raw tree (`Spec.first`,
  `Spec.next`: what `attach_spec=False` returns) and, with `attach_spec=True`, bind it to the spec
  (`use_spec`).  On a finite well-formed spec the binding always succeeds, so the two differ by
  the annotation only.
-/
import PgProofs.GenoOdo3
import PgProofs.GenoNumbers
namespace Pg.Geno
open DNA

mutual
  theorem noCustom_of_finiteP : ∀ (p : Point), p.finite = true → p.noCustom = true
    | .choices _ cands _ _ _, h => by
      simp only [Point.finite] at h
      simp only [Point.noCustom]
      exact noCustom_of_finiteCands cands h
    | .float .., h => by simp [Point.finite] at h
    | .custom _, h => by simp [Point.finite] at h
  theorem noCustom_of_finiteSpace : ∀ (s : List Point), finiteSpace s = true → noCustomSpace s = true
    | [], _ => rfl
    | p :: ps, h => by
      simp only [finiteSpace, Bool.and_eq_true] at h
      simp only [noCustomSpace, Bool.and_eq_true]
      exact ⟨noCustom_of_finiteP p h.1, noCustom_of_finiteSpace ps h.2⟩
  theorem noCustom_of_finiteCands : ∀ (cs : List (List Point)), finiteCands cs = true → noCustomCands cs = true
    | [], _ => rfl
    | c :: cs, h => by
      simp only [finiteCands, Bool.and_eq_true] at h
      simp only [noCustomCands, Bool.and_eq_true]
      exact ⟨noCustom_of_finiteSpace c h.1, noCustom_of_finiteCands cs h.2⟩
end

theorem Spec.noCustom_of_finite (g : Spec) (h : g.finite = true) : g.noCustom = true := by
  cases g with
  | point p => exact noCustom_of_finiteP p h
  | space s => exact noCustom_of_finiteSpace s h

/-- Every member binds. -/
theorem bind_of_mem (g : Spec) (hf : g.finite = true) (d : DNA) (h : d ∈ g.all) : g.bind d = true := by
  have hv := (mem_all_iff g hf d).mp h
  rw [bind_eq_valid g d (floatLeaves_of_valid g (Spec.noCustom_of_finite g hf) d hv)]
  exact hv

/-- `first_dna(attach_spec=True)`: the binding of the raw first DNA succeeds (when there is one). -/
theorem first_binds (g : Spec) (hf : g.finite = true) (hw : g.wf = true) (hne : g.all ≠ []) :
    g.bind g.first = true := by
  have hh := (specOk_all g hf hw).head
  apply bind_of_mem g hf
  cases hl : g.all with
  | nil => exact absurd hl hne
  | cons a t =>
    rw [hl] at hh
    simp only [List.head?_cons, Option.some.injEq] at hh
    rw [← hh]; exact List.mem_cons_self

/-- `next_dna(d, attach_spec=True)`: the binding of the raw successor succeeds. -/
theorem next_binds (g : Spec) (hf : g.finite = true) (hw : g.wf = true) (d : DNA) (hd : d ∈ g.all)
    (d' : DNA) (h : g.next d = some (some d')) : g.bind d' = true := by
  rw [(specOk_all g hf hw).next d hd] at h
  simp only [Option.some.injEq] at h
  exact bind_of_mem g hf d' (succIn_mem h)

end Pg.Geno
