/-
  `random_dna` returns a member of the space for every oracle stream that respects the contract
  of `random.Random` (`sample`: k distinct indices below n; `randint`, `uniform`: within range).
-/
import PgProofs.GenoValidate
import PgProofs.GenoEnum
namespace Pg.Geno
open DNA

/-! ### sorting -/

theorem mem_insertSorted {a x : Nat} : ∀ {l : List Nat}, x ∈ insertSorted a l ↔ x = a ∨ x ∈ l
  | [] => by simp [insertSorted]
  | b :: bs => by
    simp only [insertSorted]
    by_cases h : a ≤ b
    · simp [h]
    · simp only [h, if_false, List.mem_cons, mem_insertSorted (l := bs)]
      constructor
      · rintro (h1 | h1 | h1)
        · exact Or.inr (Or.inl h1)
        · exact Or.inl h1
        · exact Or.inr (Or.inr h1)
      · rintro (h1 | h1 | h1)
        · exact Or.inr (Or.inl h1)
        · exact Or.inl h1
        · exact Or.inr (Or.inr h1)

theorem length_insertSorted (a : Nat) : ∀ l : List Nat, (insertSorted a l).length = l.length + 1
  | [] => rfl
  | b :: bs => by
    simp only [insertSorted]
    by_cases h : a ≤ b
    · simp [h]
    · simp [h, length_insertSorted a bs]

theorem sorted_insertSorted (a : Nat) : ∀ l : List Nat, l.Pairwise (· ≤ ·) → (insertSorted a l).Pairwise (· ≤ ·)
  | [], _ => by simp [insertSorted]
  | b :: bs, h => by
    simp only [insertSorted]
    rw [List.pairwise_cons] at h
    by_cases hab : a ≤ b
    · simp only [hab, if_true, List.pairwise_cons]
      refine ⟨?_, h⟩
      intro x hx
      cases hx with
      | head => exact hab
      | tail _ hx' => exact Nat.le_trans hab (h.1 x hx')
    · simp only [hab, if_false, List.pairwise_cons]
      refine ⟨?_, sorted_insertSorted a bs h.2⟩
      intro x hx
      rcases mem_insertSorted.mp hx with rfl | hx'
      · omega
      · exact h.1 x hx'

theorem nodup_insertSorted (a : Nat) : ∀ l : List Nat, a ∉ l → l.Nodup → (insertSorted a l).Nodup
  | [], _, _ => by simp [insertSorted]
  | b :: bs, ha, h => by
    simp only [insertSorted]
    rw [List.nodup_cons] at h
    simp only [List.mem_cons, not_or] at ha
    by_cases hab : a ≤ b
    · simp only [hab, if_true, List.nodup_cons, List.mem_cons, not_or]
      exact ⟨⟨ha.1, ha.2⟩, h⟩
    · simp only [hab, if_false, List.nodup_cons]
      refine ⟨?_, nodup_insertSorted a bs ha.2 h.2⟩
      intro hb
      rcases mem_insertSorted.mp hb with e | hb'
      · exact ha.1 e.symm
      · exact h.1 hb'

theorem mem_sortNat {x : Nat} : ∀ {l : List Nat}, x ∈ sortNat l ↔ x ∈ l
  | [] => by simp [sortNat]
  | a :: as => by simp [sortNat, mem_insertSorted, mem_sortNat (l := as)]

theorem length_sortNat : ∀ l : List Nat, (sortNat l).length = l.length
  | [] => rfl
  | a :: as => by simp [sortNat, length_insertSorted, length_sortNat as]

theorem sorted_sortNat : ∀ l : List Nat, (sortNat l).Pairwise (· ≤ ·)
  | [] => by simp [sortNat]
  | a :: as => sorted_insertSorted a _ (sorted_sortNat as)

theorem nodup_sortNat : ∀ l : List Nat, l.Nodup → (sortNat l).Nodup
  | [], _ => by simp [sortNat]
  | a :: as, h => by
    rw [List.nodup_cons] at h
    exact nodup_insertSorted a _ (fun hm => h.1 (mem_sortNat.mp hm)) (nodup_sortNat as h.2)

theorem nodupNat_iff : ∀ l : List Nat, nodupNat l = true ↔ l.Nodup
  | [] => by simp [nodupNat]
  | a :: as => by simp [nodupNat, nodupNat_iff as, List.nodup_cons]

/-! ### the drawn choices -/

theorem takeRandints_spec (n : Nat) : ∀ (k : Nat) (o : List Draw) (vs : List Nat) (o' : List Draw),
    takeRandints n k o = some (vs, o') → vs.length = k ∧ ∀ c ∈ vs, c < n
  | 0, o, vs, o', h => by simp [takeRandints] at h; obtain ⟨rfl, _⟩ := h; simp
  | k + 1, [], vs, o', h => by simp [takeRandints] at h
  | k + 1, .sample _ :: _, vs, o', h => by simp [takeRandints] at h
  | k + 1, .uniform _ _ :: _, vs, o', h => by simp [takeRandints] at h
  | k + 1, .randint v :: o, vs, o', h => by
    simp only [takeRandints] at h
    by_cases hr : inRange n v = true
    · simp only [hr, if_true] at h
      cases hrec : takeRandints n k o with
      | none => simp [hrec] at h
      | some p =>
        obtain ⟨vs', o''⟩ := p
        simp only [hrec, Option.map_some, Option.some.injEq, Prod.mk.injEq] at h
        obtain ⟨rfl, rfl⟩ := h
        obtain ⟨hl, hall⟩ := takeRandints_spec n k o vs' o'' hrec
        simp only [inRange, Bool.and_eq_true, decide_eq_true_eq] at hr
        refine ⟨by simp [hl], ?_⟩
        intro c hc
        cases hc with
        | head => omega
        | tail _ hc' => exact hall c hc'
    · simp [hr] at h

theorem drawChoices_spec (n k : Nat) (dd ss : Bool) (o : List Draw) (vs : List Nat) (o' : List Draw)
    (h : drawChoices n k dd ss o = some (vs, o')) :
    vs.length = k ∧ (∀ c ∈ vs, c < n) ∧ (dd = true → vs.Nodup) ∧ (ss = true → vs.Pairwise (· ≤ ·)) := by
  unfold drawChoices at h
  -- the raw draw
  have key : ∀ raw : List Nat, raw.length = k → (∀ c ∈ raw, c < n) → (dd = true → raw.Nodup) →
      vs = (if ss then sortNat raw else raw) →
      vs.length = k ∧ (∀ c ∈ vs, c < n) ∧ (dd = true → vs.Nodup) ∧ (ss = true → vs.Pairwise (· ≤ ·)) := by
    intro raw hl hall hnd hvs
    cases ss with
    | false => subst hvs; exact ⟨hl, hall, hnd, fun h => by cases h⟩
    | true =>
      simp only [if_true] at hvs
      subst hvs
      exact ⟨by rw [length_sortNat, hl], fun c hc => hall c (mem_sortNat.mp hc),
        fun hd => nodup_sortNat raw (hnd hd), fun _ => sorted_sortNat raw⟩
  cases dd with
  | true =>
    simp only [if_true] at h
    match o, h with
    | .sample xs :: o1, h =>
      by_cases hc : (xs.length == k && xs.all (· < n) && nodupNat xs) = true
      · simp only [hc, if_true, Option.map_some, Option.some.injEq, Prod.mk.injEq] at h
        simp only [Bool.and_eq_true, beq_iff_eq, List.all_eq_true, decide_eq_true_eq, nodupNat_iff] at hc
        exact key xs hc.1.1 hc.1.2 (fun _ => hc.2) h.1.symm
      · simp [hc] at h
    | [], h => simp at h
    | .randint _ :: _, h => simp at h
    | .uniform _ _ :: _, h => simp at h
  | false =>
    simp only [Bool.false_eq_true, if_false] at h
    cases hrec : takeRandints n k o with
    | none => simp [hrec] at h
    | some p =>
      obtain ⟨raw, o''⟩ := p
      simp only [hrec, Option.map_some, Option.some.injEq, Prod.mk.injEq] at h
      obtain ⟨hl, hall⟩ := takeRandints_spec n k o raw o'' hrec
      exact key raw hl hall (fun h => by cases h) h.1.symm

/-! ### shapes -/

theorem mk'_none_wrap : ∀ (gs : List DNA), gs.length ≠ 1 → mk' .none [.mk .none gs] = .mk .none gs
  | [], _ => rfl
  | [g], h => absurd rfl h
  | a :: b :: t, _ => by
    cases a with
    | mk w c => cases w <;> rfl

theorem validP_multi_len {k : Nat} {cands : List (List Point)} {d s : Bool} {info : Info} {gs : List DNA}
    (hk : k ≠ 1) (h : validP (.choices k cands d s info) (.mk .none gs) = true) : gs.length = k := by
  have hk' : (k == 1) = false := by simp [hk]
  simp only [validP, unroot, hk', Bool.false_eq_true, if_false, Bool.and_eq_true, beq_iff_eq] at h
  exact h.1.1.1

/-- A valid element DNA is a fixed point of `DNA(None, [x])`. -/
theorem mk'_none_single_valid {p : Point} {x : DNA} (h : validP p x = true) : mk' .none [x] = x := by
  cases x with
  | mk w gs =>
    cases w with
    | int => rfl
    | flt => rfl
    | str => rfl
    | none =>
      cases p with
      | choices k cands d s info =>
        by_cases hk : k = 1
        · subst hk; rw [validP_single_none_false] at h; cases h
        · exact mk'_none_wrap gs (by rw [validP_multi_len hk h]; exact hk)
      | float => simp [validP] at h
      | custom => simp [validP] at h

theorem kids_of_value {x : DNA} (h : x.value ≠ .none) : kids x = [x] := by
  cases x with
  | mk w gs => cases w <;> first | exact absurd rfl h | rfl

theorem kids_mk'_none (c : Space) (es : List DNA) (h : validElems c es = true) :
    kids (mk' .none es) = kidsL es := by
  match es, h with
  | [], _ => rfl
  | [x], h =>
    match c, h with
    | [p], h =>
      simp only [validElems, Bool.and_true] at h
      rw [mk'_none_single_valid h]
      cases x with
      | mk w gs => cases w <;> rfl
    | [], h => simp [validElems] at h
    | _ :: _ :: _, h => simp [validElems] at h
  | a :: b :: t, _ => rw [mk'_none_two, kidsL_two]; rfl

theorem unroot_mk'_none (s : Space) (ds : List DNA) (h : validElems s ds = true) :
    unroot s.length (mk' .none ds) = some ds := by
  have hl := validElems_length s ds h
  match ds, h, hl with
  | [], _, hl => simp [← hl, unroot, mk'_none_nil]
  | [x], h, hl =>
    match s, h with
    | [p], h =>
      simp only [validElems, Bool.and_true] at h
      rw [mk'_none_single_valid h]; simp [unroot]
    | [], h => simp [validElems] at h
    | _ :: _ :: _, h => simp [validElems] at h
  | a :: b :: t, _, hl =>
    rw [mk'_none_two, ← hl]
    simp [unroot]

theorem validKidsAt_of : ∀ (cs : List (List Point)) (i : Nat) (c : List Point) (ks : List DNA),
    cs[i]? = some c → validKidsAt cs i ks = validElems c (unkids c ks)
  | [], i, c, ks, h => by simp at h
  | c' :: cs, 0, c, ks, h => by
    simp only [List.getElem?_cons_zero, Option.some.injEq] at h; subst h; rfl
  | c' :: cs, i + 1, c, ks, h => by
    simp only [List.getElem?_cons_succ] at h
    simp only [validKidsAt]; exact validKidsAt_of cs i c ks h

/-! ### the sequence of chosen nodes -/

def SeqOk (cands : List (List Point)) : List DNA → List Nat → Prop
  | [], [] => True
  | x :: xs, c :: cs => (∃ ks, x = .mk (.int (c : Nat)) ks ∧ validKidsAt cands c ks = true) ∧ SeqOk cands xs cs
  | _, _ => False

theorem SeqOk_spec (cands : List (List Point)) (n : Nat) :
    ∀ (ds : List DNA) (vs : List Nat), SeqOk cands ds vs → (∀ c ∈ vs, c < n) →
      ds.length = vs.length ∧ nodeValues ds = vs.map Int.ofNat ∧
      ds.all (validNodeWith n (validKidsAt cands)) = true
  | [], [], _, _ => ⟨rfl, rfl, rfl⟩
  | [], _ :: _, h, _ => absurd h (by simp [SeqOk])
  | _ :: _, [], h, _ => absurd h (by simp [SeqOk])
  | x :: xs, c :: cs, h, hall => by
    simp only [SeqOk] at h
    obtain ⟨⟨ks, hx, hk⟩, hr⟩ := h
    subst hx
    obtain ⟨h1, h2, h3⟩ := SeqOk_spec cands n xs cs hr (fun c' hc' => hall c' (List.mem_cons_of_mem _ hc'))
    have hc : c < n := hall c List.mem_cons_self
    refine ⟨by simp [h1], by simp [nodeValues, h2], ?_⟩
    have e : validNodeWith n (validKidsAt cands) (.mk (.int (c : Nat)) ks) = true := by
      simp only [validNodeWith, Int.toNat_natCast, hk, Bool.and_true, Bool.and_eq_true, decide_eq_true_eq]
      constructor
      · exact Int.natCast_nonneg c
      · exact_mod_cast hc
    simp only [List.all_cons, e, h3, Bool.and_self]

theorem unroot_mk'_none_nodes (k : Nat) : ∀ (ds : List DNA), ds.length = k →
    (∀ x ∈ ds, ∃ v ks, x = .mk (.int v) ks) → unroot k (mk' .none ds) = some ds
  | [], hl, _ => by simp [← hl, unroot, mk'_none_nil]
  | [x], hl, hx => by
    obtain ⟨v, ks, rfl⟩ := hx x List.mem_cons_self
    simp [← hl, unroot, mk'_none_single_int]
  | a :: b :: t, hl, _ => by
    rw [mk'_none_two, ← hl]; simp [unroot]

/-! ### random_dna returns a member -/

theorem randomSeq_ok (cands : List (List Point))
    (hC : ∀ (i : Nat) (o : List Draw) (d : DNA) (o' : List Draw), randomAt cands i o = some (d, o') →
      ∃ c es, cands[i]? = some c ∧ validElems c es = true ∧ d = mk' .none es) :
    ∀ (vs : List Nat) (o : List Draw) (ds : List DNA) (o' : List Draw),
      randomSeqWith (randomAt cands) vs o = some (ds, o') → SeqOk cands ds vs
  | [], o, ds, o', h => by
    simp only [randomSeqWith, Option.some.injEq, Prod.mk.injEq] at h
    obtain ⟨rfl, _⟩ := h
    trivial
  | c :: cs, o, ds, o', h => by
    simp only [randomSeqWith] at h
    cases h1 : randomAt cands c o with
    | none => simp [h1] at h
    | some p =>
      obtain ⟨d, o1⟩ := p
      simp only [h1] at h
      cases h2 : randomSeqWith (randomAt cands) cs o1 with
      | none => simp [h2] at h
      | some q =>
        obtain ⟨ds', o2⟩ := q
        simp only [h2, Option.map_some, Option.some.injEq, Prod.mk.injEq] at h
        obtain ⟨rfl, _⟩ := h
        obtain ⟨c', es, hc', hv, rfl⟩ := hC c o d o1 h1
        simp only [SeqOk]
        refine ⟨⟨kidsL es, ?_, ?_⟩, randomSeq_ok cands hC cs o1 ds' o2 h2⟩
        · rw [mk'_int_single, kids_mk'_none c' es hv]
        · rw [validKidsAt_of _ _ _ _ hc', unkids_kidsL c' es hv]; exact hv

mutual
  theorem randomP_valid (p : Point) :
      ∀ (o : List Draw) (d : DNA) (o' : List Draw), randomP p o = some (d, o') → validP p d = true := by
    cases p with
    | custom info => intro o d o' h; simp [randomP] at h
    | float a b c d' info =>
      intro o d o' h
      match o, h with
      | .uniform n e :: o1, h =>
        simp only [randomP] at h
        by_cases hc : (decide (0 < e) && ratLe a b n e && ratLe n e c d') = true
        · simp only [hc, if_true, Option.some.injEq, Prod.mk.injEq] at h
          obtain ⟨rfl, _⟩ := h
          simp only [Bool.and_eq_true] at hc
          simp [validP, hc.1.2, hc.2]
        · simp [hc] at h
      | [], h => simp [randomP] at h
      | .sample _ :: _, h => simp [randomP] at h
      | .randint _ :: _, h => simp [randomP] at h
    | choices k cands dd ss info =>
      have hC := randomAt_valid cands
      intro o d o' h
      simp only [randomP] at h
      cases h1 : drawChoices cands.length k dd ss o with
      | none => simp [h1] at h
      | some p =>
        obtain ⟨vs, o1⟩ := p
        simp only [h1] at h
        cases h2 : randomSeqWith (randomAt cands) vs o1 with
        | none => simp [h2] at h
        | some q =>
          obtain ⟨ds, o2⟩ := q
          simp only [h2, Option.map_some, Option.some.injEq, Prod.mk.injEq] at h
          obtain ⟨rfl, _⟩ := h
          obtain ⟨hl, hall, hnd, hsorted⟩ := drawChoices_spec _ _ _ _ _ _ _ h1
          have hseq := randomSeq_ok cands hC vs o1 ds o2 h2
          obtain ⟨hdl, hvals, hnodes⟩ := SeqOk_spec cands cands.length ds vs hseq hall
          have hint : ∀ x ∈ ds, ∃ v ks, x = .mk (.int v) ks := by
            intro x hx
            have := (List.all_eq_true.mp hnodes) x hx
            cases x with
            | mk w gs =>
              cases w with
              | int i => exact ⟨i, gs, rfl⟩
              | none => simp [validNodeWith] at this
              | flt => simp [validNodeWith] at this
              | str => simp [validNodeWith] at this
          have hdk : ds.length = k := hdl.trans hl
          simp only [validP, unroot_mk'_none_nodes k ds hdk hint, hdk, beq_self_eq_true, hnodes, Bool.true_and,
            Bool.and_eq_true, Bool.or_eq_true, Bool.not_eq_true']
          constructor
          · cases hd : dd with
            | false => left; rfl
            | true => right; rw [hvals, pairwiseNe_map]; exact hnd hd
          · cases hs : ss with
            | false => left; rfl
            | true => right; rw [hvals, pairwiseLe_map]; exact hsorted hs
  theorem randomElems_valid (es : List Point) :
      ∀ (o : List Draw) (ds : List DNA) (o' : List Draw), randomElems es o = some (ds, o') →
        validElems es ds = true := by
    cases es with
    | nil =>
      intro o ds o' h
      simp only [randomElems, Option.some.injEq, Prod.mk.injEq] at h
      obtain ⟨rfl, _⟩ := h; rfl
    | cons p ps =>
      intro o ds o' h
      simp only [randomElems] at h
      cases h1 : randomP p o with
      | none => simp [h1] at h
      | some q =>
        obtain ⟨d, o1⟩ := q
        simp only [h1] at h
        cases h2 : randomElems ps o1 with
        | none => simp [h2] at h
        | some r =>
          obtain ⟨ds', o2⟩ := r
          simp only [h2, Option.map_some, Option.some.injEq, Prod.mk.injEq] at h
          obtain ⟨rfl, _⟩ := h
          simp [validElems, randomP_valid p o d o1 h1, randomElems_valid ps o1 ds' o2 h2]
  theorem randomAt_valid (cs : List (List Point)) :
      ∀ (i : Nat) (o : List Draw) (d : DNA) (o' : List Draw), randomAt cs i o = some (d, o') →
        ∃ c es, cs[i]? = some c ∧ validElems c es = true ∧ d = mk' .none es := by
    cases cs with
    | nil => intro i o d o' h; simp [randomAt] at h
    | cons c cs =>
      intro i o d o' h
      cases i with
      | zero =>
        simp only [randomAt] at h
        cases h1 : randomElems c o with
        | none => simp [h1] at h
        | some q =>
          obtain ⟨es, o1⟩ := q
          simp only [h1, Option.map_some, Option.some.injEq, Prod.mk.injEq] at h
          obtain ⟨rfl, _⟩ := h
          exact ⟨c, es, rfl, randomElems_valid c o es o1 h1, rfl⟩
      | succ i =>
        simp only [randomAt] at h
        obtain ⟨c', es, h1, h2, h3⟩ := randomAt_valid cs i o d o' h
        exact ⟨c', es, by simpa using h1, h2, h3⟩
end

theorem random_valid (g : Spec) (o : List Draw) (d : DNA) (o' : List Draw)
    (h : g.random o = some (d, o')) : g.valid d = true := by
  cases g with
  | point p => exact randomP_valid p o d o' h
  | space s =>
    simp only [Spec.random, randomS] at h
    cases h1 : randomElems s o with
    | none => simp [h1] at h
    | some q =>
      obtain ⟨ds, o1⟩ := q
      simp only [h1, Option.map_some, Option.some.injEq, Prod.mk.injEq] at h
      obtain ⟨rfl, _⟩ := h
      have hv := randomElems_valid s o ds o1 h1
      simp only [Spec.valid, validS, unroot_mk'_none s ds hv]
      exact hv

end Pg.Geno
