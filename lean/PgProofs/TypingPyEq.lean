/-
  C04 helper lemmas: Python `==` on the modelled values is transitive (needed for `Enum`
  compatibility: membership is by `==`).
-/
import PgProofs.TypingNum
namespace Pg.Typing

theorem pyEq_of_num {a b : Val} {x y : Num} (ha : a.num? = some x) (hb : b.num? = some y) :
    Val.pyEq a b = Num.eq x y := by
  cases a <;> cases b <;> simp [Val.num?] at ha hb <;> subst ha <;> subst hb <;>
    simp [Val.pyEq, Num.eq]
  · rename_i p q
    cases p <;> cases q <;> decide
  · rename_i p i
    cases p <;> rfl
  · rename_i i p
    cases p <;> rfl
  · rfl

mutual
  theorem pyEq_trans (a b c : Val) (h1 : Val.pyEq a b = true) (h2 : Val.pyEq b c = true) :
      Val.pyEq a c = true := by
    cases a with
    | missing => cases b <;> simp [Val.pyEq] at h1; exact h2
    | none => cases b <;> simp [Val.pyEq] at h1; exact h2
    | str s => cases b <;> simp [Val.pyEq] at h1; subst h1; exact h2
    | obj k u q =>
      cases b <;> simp [Val.pyEq] at h1
      cases c <;> simp [Val.pyEq] at h2 ⊢
      exact ⟨h1.1.trans h2.1, h1.2.trans h2.2⟩
    | list xs =>
      cases b <;> simp [Val.pyEq] at h1
      cases c <;> simp [Val.pyEq] at h2 ⊢
      exact pyEqList_trans _ _ _ h1 h2
    | tuple xs =>
      cases b <;> simp [Val.pyEq] at h1
      cases c <;> simp [Val.pyEq] at h2 ⊢
      exact pyEqList_trans _ _ _ h1 h2
    | dict xs =>
      cases b <;> simp [Val.pyEq] at h1
      cases c <;> simp [Val.pyEq] at h2 ⊢
      exact pyEqKvs_trans _ _ _ h1 h2
    | bool p =>
      cases b <;> (try (simp [Val.pyEq] at h1; done)) <;>
        cases c <;> (try (simp [Val.pyEq] at h2; done)) <;>
        (rw [pyEq_of_num rfl rfl] at h1 h2 ⊢; exact Num.eq_trans h1 h2)
    | int p =>
      cases b <;> (try (simp [Val.pyEq] at h1; done)) <;>
        cases c <;> (try (simp [Val.pyEq] at h2; done)) <;>
        (rw [pyEq_of_num rfl rfl] at h1 h2 ⊢; exact Num.eq_trans h1 h2)
    | float p =>
      cases b <;> (try (simp [Val.pyEq] at h1; done)) <;>
        cases c <;> (try (simp [Val.pyEq] at h2; done)) <;>
        (rw [pyEq_of_num rfl rfl] at h1 h2 ⊢; exact Num.eq_trans h1 h2)
  termination_by structural a
  theorem pyEqList_trans (a b c : List Val) (h1 : Val.pyEqList a b = true)
      (h2 : Val.pyEqList b c = true) : Val.pyEqList a c = true := by
    cases a with
    | nil => cases b <;> simp [Val.pyEqList] at h1; exact h2
    | cons x xs =>
      cases b with
      | nil => simp [Val.pyEqList] at h1
      | cons y ys =>
        cases c with
        | nil => simp [Val.pyEqList] at h2
        | cons z zs =>
          simp only [Val.pyEqList, Bool.and_eq_true] at h1 h2 ⊢
          exact ⟨pyEq_trans x y z h1.1 h2.1, pyEqList_trans xs ys zs h1.2 h2.2⟩
  termination_by structural a
  theorem pyEqKvs_trans (a b c : List (String × Val)) (h1 : Val.pyEqKvs a b = true)
      (h2 : Val.pyEqKvs b c = true) : Val.pyEqKvs a c = true := by
    cases a with
    | nil => cases b <;> simp [Val.pyEqKvs] at h1; exact h2
    | cons x xs =>
      obtain ⟨k, x⟩ := x
      cases b with
      | nil => simp [Val.pyEqKvs] at h1
      | cons y ys =>
        obtain ⟨l, y⟩ := y
        cases c with
        | nil => simp [Val.pyEqKvs] at h2
        | cons z zs =>
          obtain ⟨m, z⟩ := z
          simp only [Val.pyEqKvs, Bool.and_eq_true, beq_iff_eq] at h1 h2 ⊢
          exact ⟨⟨h1.1.1.trans h2.1.1, pyEq_trans x y z h1.1.2 h2.1.2⟩, pyEqKvs_trans xs ys zs h1.2 h2.2⟩
  termination_by structural a
end

/-- `x in vals` is monotone along `==`-inclusion of the candidate lists. -/
theorem pyIn_trans (x : Val) (ovals vals : List Val)
    (hsub : ovals.all (fun o => Val.pyIn o vals) = true) (hx : Val.pyIn x ovals = true) :
    Val.pyIn x vals = true := by
  unfold Val.pyIn at *
  rw [List.any_eq_true] at hx ⊢
  obtain ⟨o, ho, hox⟩ := hx
  rw [List.all_eq_true] at hsub
  have := hsub o ho
  rw [List.any_eq_true] at this
  obtain ⟨e, he, heo⟩ := this
  exact ⟨e, he, pyEq_trans e o x heo hox⟩

end Pg.Typing
