/-
  Counting: `space_size` (the four `_space_size` recurrences of `Choices`) is the number of
  sequences in `enumSeq`. The bridge is `CM`: the number of weighted sequences by FIRST POSITION
  over an availability mask of the candidates; removing the FIRST CANDIDATE gives the recurrences.
-/
import PgProofs.GenoOdo
import PgProofs.GenoIter
import Mathlib.Tactic.Ring
namespace Pg.Geno
open DNA

/-! ### sums -/

def sumR (n : Nat) (f : Nat → Nat) : Nat := ((List.range n).map f).sum

theorem sumR_zero (f : Nat → Nat) : sumR 0 f = 0 := rfl

theorem sumR_succ_shift (n : Nat) (f : Nat → Nat) : sumR (n + 1) f = f 0 + sumR n (fun c => f (c + 1)) := by
  unfold sumR
  rw [List.range_succ_eq_map]
  simp [List.map_map, Function.comp_def]

theorem sumR_congr {n : Nat} {f g : Nat → Nat} (h : ∀ c, c < n → f c = g c) : sumR n f = sumR n g := by
  unfold sumR
  congr 1
  apply List.map_congr_left
  intro c hc
  exact h c (List.mem_range.mp hc)

theorem sumR_add (n : Nat) (f g : Nat → Nat) : sumR n (fun c => f c + g c) = sumR n f + sumR n g := by
  induction n generalizing f g with
  | zero => rfl
  | succ n ih =>
    rw [sumR_succ_shift, sumR_succ_shift, sumR_succ_shift, ih]
    omega

theorem sumR_mul_left (n : Nat) (a : Nat) (f : Nat → Nat) : sumR n (fun c => a * f c) = a * sumR n f := by
  induction n generalizing f with
  | zero => simp [sumR_zero]
  | succ n ih =>
    rw [sumR_succ_shift, sumR_succ_shift, ih, Nat.mul_add]

theorem sumR_zero_fn (n : Nat) : sumR n (fun _ => 0) = 0 := by
  induction n with
  | zero => rfl
  | succ n ih => rw [sumR_succ_shift, ih]

/-! ### counting by first position over a mask -/

/-- The weighted number of admissible sequences of length `j` when exactly the candidates `c`
with `m c` may be chosen next; choosing `c` restricts the mask by `extraAdm … c`. -/
def CM (dd ss : Bool) (w : List Nat) : (Nat → Bool) → Nat → Nat
  | _, 0 => 1
  | m, j + 1 =>
    sumR w.length fun c =>
      if m c then w.getD c 0 * CM dd ss w (fun i => m i && extraAdm dd ss c i) j else 0

theorem CM_nil (dd ss : Bool) (m : Nat → Bool) (j : Nat) : CM dd ss [] m (j + 1) = 0 := by
  simp [CM, sumR]

theorem extraAdm_shift (dd ss : Bool) (c i : Nat) : extraAdm dd ss (c + 1) (i + 1) = extraAdm dd ss c i := by
  simp [extraAdm]

/-- (S) An unavailable first candidate can be dropped. -/
theorem CM_shift (dd ss : Bool) (a : Nat) (t : List Nat) : ∀ (j : Nat) (m : Nat → Bool), m 0 = false →
    CM dd ss (a :: t) m j = CM dd ss t (fun i => m (i + 1)) j := by
  intro j
  induction j with
  | zero => intro m _; rfl
  | succ j ih =>
    intro m h0
    simp only [CM, List.length_cons]
    rw [sumR_succ_shift]
    simp only [h0, Bool.false_eq_true, if_false, Nat.zero_add]
    apply sumR_congr
    intro c _
    by_cases hm : m (c + 1) = true
    · simp only [hm, if_true, List.getD_cons_succ]
      congr 1
      rw [ih _ (by simp [h0])]
      congr 1
      funext i
      rw [extraAdm_shift]
    · simp [hm]

/-- (H1) The first position is either the first candidate or a later one. -/
theorem CM_head (dd ss : Bool) (a : Nat) (t : List Nat) (j : Nat) (m : Nat → Bool) (h0 : m 0 = true) :
    CM dd ss (a :: t) m (j + 1) =
      a * CM dd ss (a :: t) (fun i => m i && extraAdm dd ss 0 i) j +
      sumR t.length fun c =>
        if m (c + 1) then t.getD c 0 * CM dd ss (a :: t) (fun i => m i && extraAdm dd ss (c + 1) i) j else 0 := by
  simp only [CM, List.length_cons]
  rw [sumR_succ_shift]
  simp only [h0, if_true, List.getD_cons_zero, List.getD_cons_succ]

/-! ### first-candidate recurrences of `CM` -/

theorem CM_succ_def (dd ss : Bool) (w : List Nat) (m : Nat → Bool) (j : Nat) :
    CM dd ss w m (j + 1) = sumR w.length fun c =>
      if m c then w.getD c 0 * CM dd ss w (fun i => m i && extraAdm dd ss c i) j else 0 := rfl

/-- sorted modes: choosing a later candidate first makes the first candidate unavailable. -/
theorem CM_tail_sum_sorted (dd : Bool) (a : Nat) (t : List Nat) (j : Nat) (m : Nat → Bool) :
    (sumR t.length fun c =>
        if m (c + 1) then t.getD c 0 * CM dd true (a :: t) (fun i => m i && extraAdm dd true (c + 1) i) j else 0) =
      CM dd true t (fun i => m (i + 1)) (j + 1) := by
  rw [CM_succ_def]
  apply sumR_congr
  intro c _
  by_cases hm : m (c + 1) = true
  · simp only [hm, if_true]
    congr 1
    rw [CM_shift dd true a t j _ (by simp [extraAdm])]
    congr 1
    funext i
    rw [extraAdm_shift]
  · simp [hm]

theorem CM_rec_TT (a : Nat) (t : List Nat) (j : Nat) (m : Nat → Bool) (h0 : m 0 = true) :
    CM true true (a :: t) m (j + 1) =
      a * CM true true t (fun i => m (i + 1)) j + CM true true t (fun i => m (i + 1)) (j + 1) := by
  rw [CM_head true true a t j m h0, CM_tail_sum_sorted]
  congr 2
  rw [CM_shift true true a t j _ (by simp [extraAdm])]
  congr 1
  funext i
  simp [extraAdm]

theorem CM_rec_FT (a : Nat) (t : List Nat) (j : Nat) (m : Nat → Bool) (h0 : m 0 = true) :
    CM false true (a :: t) m (j + 1) =
      a * CM false true (a :: t) m j + CM false true t (fun i => m (i + 1)) (j + 1) := by
  rw [CM_head false true a t j m h0, CM_tail_sum_sorted]
  congr 3
  funext i
  simp [extraAdm]

theorem CM_rec_TF (a : Nat) (t : List Nat) : ∀ (j : Nat) (m : Nat → Bool), m 0 = true →
    CM true false (a :: t) m (j + 1) =
      a * (j + 1) * CM true false t (fun i => m (i + 1)) j + CM true false t (fun i => m (i + 1)) (j + 1) := by
  intro j
  induction j with
  | zero =>
    intro m h0
    rw [CM_head true false a t 0 m h0, CM_succ_def]
    simp only [CM, Nat.mul_one, Nat.zero_add]
  | succ j ih =>
    intro m h0
    rw [CM_head true false a t (j + 1) m h0]
    have hfirst : CM true false (a :: t) (fun i => m i && extraAdm true false 0 i) (j + 1) =
        CM true false t (fun i => m (i + 1)) (j + 1) := by
      rw [CM_shift true false a t (j + 1) _ (by simp [extraAdm])]
      congr 1
      funext i
      simp [extraAdm]
    rw [hfirst]
    have hterm : ∀ c, c < t.length →
        (if m (c + 1) then t.getD c 0 *
            CM true false (a :: t) (fun i => m i && extraAdm true false (c + 1) i) (j + 1) else 0) =
        a * (j + 1) * (if m (c + 1) then t.getD c 0 *
            CM true false t (fun i => m (i + 1) && extraAdm true false c i) j else 0) +
        (if m (c + 1) then t.getD c 0 *
            CM true false t (fun i => m (i + 1) && extraAdm true false c i) (j + 1) else 0) := by
      intro c _
      by_cases hm : m (c + 1) = true
      · simp only [hm, if_true]
        rw [ih (fun i => m i && extraAdm true false (c + 1) i) (by simp [h0, extraAdm])]
        have e : (fun i => m (i + 1) && extraAdm true false (c + 1) (i + 1)) =
            (fun i => m (i + 1) && extraAdm true false c i) := by
          funext i; rw [extraAdm_shift]
        simp only [e]
        rw [Nat.mul_add, Nat.mul_left_comm]
      · simp [hm]
    rw [sumR_congr hterm, sumR_add, sumR_mul_left, ← CM_succ_def, ← CM_succ_def]
    ring

theorem sumR_getD (w : List Nat) : sumR w.length (fun c => w.getD c 0) = sumNat w := by
  induction w with
  | nil => rfl
  | cons a t ih =>
    rw [List.length_cons, sumR_succ_shift]
    simp only [List.getD_cons_zero, List.getD_cons_succ, sumNat, ih]

theorem CM_FF (w : List Nat) (j : Nat) :
    CM false false w (fun _ => true) j = (sumNat w) ^ j := by
  induction j with
  | zero => rfl
  | succ j ih =>
    rw [CM_succ_def]
    have : ∀ c, c < w.length →
        (if (fun _ : Nat => true) c then w.getD c 0 *
          CM false false w (fun i => (fun _ : Nat => true) i && extraAdm false false c i) j else 0) =
        (sumNat w) ^ j * w.getD c 0 := by
      intro c _
      have e : (fun i => (fun _ : Nat => true) i && extraAdm false false c i) = fun _ => true := by
        funext i; simp [extraAdm]
      simp only [if_true, e, ih, Nat.mul_comm]
    rw [sumR_congr this, sumR_mul_left, sumR_getD, Nat.pow_succ]

/-! ### the recurrences of `_space_size`, in clean form -/

theorem sizeK_zero (dd ss : Bool) (l : List Nat) : sizeK dd ss l 0 = 1 := by
  cases l <;> simp [sizeK]

theorem sizeK_one' (dd ss : Bool) (l : List Nat) : sizeK dd ss l 1 = sumNat l := sizeK_one dd ss l

theorem sizeK_nil (dd ss : Bool) (j : Nat) : sizeK dd ss [] (j + 1) = 0 := by
  cases j <;> simp [sizeK, sumNat]

theorem sizeK_dd_gt (ss : Bool) : ∀ (l : List Nat) (j : Nat), l.length < j → sizeK true ss l j = 0
  | _, 0, h => by simp at h
  | [], j + 1, _ => sizeK_nil true ss j
  | [s0], 1, h => by simp at h
  | [s0], j + 2, _ => by simp [sizeK]
  | s0 :: s1 :: rest, 1, h => by simp at h
  | s0 :: s1 :: rest, j + 2, h => by
    have : j + 2 > rest.length + 2 := by simpa using h
    simp [sizeK, this]

theorem sizeK_TT (a : Nat) (t : List Nat) (j : Nat) :
    sizeK true true (a :: t) (j + 1) = a * sizeK true true t j + sizeK true true t (j + 1) := by
  cases j with
  | zero => simp [sizeK_one', sizeK_zero, sumNat]
  | succ j =>
    cases t with
    | nil => simp [sizeK, sizeK_nil]
    | cons s1 rest =>
      by_cases h : j + 2 > rest.length + 2
      · have h1 : sizeK true true (s1 :: rest) (j + 1) = 0 := sizeK_dd_gt true _ _ (by simp; omega)
        have h2 : sizeK true true (s1 :: rest) (j + 2) = 0 := sizeK_dd_gt true _ _ (by simp; omega)
        simp [sizeK, h, h1, h2]
      · simp [sizeK, h]

theorem sizeK_TF (a : Nat) (t : List Nat) (j : Nat) :
    sizeK true false (a :: t) (j + 1) = a * (j + 1) * sizeK true false t j + sizeK true false t (j + 1) := by
  cases j with
  | zero => simp [sizeK_one', sizeK_zero, sumNat]
  | succ j =>
    cases t with
    | nil => simp [sizeK, sizeK_nil]
    | cons s1 rest =>
      by_cases h : j + 2 > rest.length + 2
      · have h1 : sizeK true false (s1 :: rest) (j + 1) = 0 := sizeK_dd_gt false _ _ (by simp; omega)
        have h2 : sizeK true false (s1 :: rest) (j + 2) = 0 := sizeK_dd_gt false _ _ (by simp; omega)
        simp [sizeK, h, h1, h2]
      · simp [sizeK, h]

theorem sizeK_FF (l : List Nat) (j : Nat) : sizeK false false l j = (sumNat l) ^ j := by
  match l, j with
  | _, 0 => simp [sizeK_zero]
  | l, 1 => simp [sizeK_one']
  | [], j + 2 => simp [sizeK, sumNat]
  | [s0], j + 2 => simp [sizeK, sumNat]
  | s0 :: s1 :: rest, j + 2 => simp [sizeK]

/-- sorted, not distinct: the explicit sum over the multiplicity of the first candidate. -/
theorem sizeK_FT_sigma (a : Nat) (t : List Nat) (j : Nat) :
    sizeK false true (a :: t) j = sumR (j + 1) fun i => a ^ i * sizeK false true t (j - i) := by
  match t, j with
  | t, 0 => simp [sizeK_zero, sumR]
  | t, 1 =>
    rw [sizeK_one', sumR_succ_shift, sumR_succ_shift, sumR_zero]
    simp [sizeK_one', sizeK_zero, sumNat]; omega
  | [], j + 2 =>
    have hz : ∀ i, i < j + 2 → a ^ i * sizeK false true [] (j + 2 - i) = 0 := by
      intro i hi
      obtain ⟨d, hd⟩ : ∃ d, j + 2 - i = d + 1 := ⟨j + 1 - i, by omega⟩
      rw [hd, sizeK_nil]; simp
    have : sumR (j + 2 + 1) (fun i => a ^ i * sizeK false true [] (j + 2 - i)) =
        a ^ (j + 2) := by
      unfold sumR
      rw [List.range_succ, List.map_append, List.sum_append]
      have h0 : ((List.range (j + 2)).map fun i => a ^ i * sizeK false true [] (j + 2 - i)).sum = 0 := by
        have : ((List.range (j + 2)).map fun i => a ^ i * sizeK false true [] (j + 2 - i)) =
            (List.range (j + 2)).map fun _ => 0 :=
          List.map_congr_left (fun i hi => hz i (List.mem_range.mp hi))
        rw [this]
        exact sumR_zero_fn (j + 2)
      simp [h0, sizeK_zero]
    rw [this]; simp [sizeK]
  | s1 :: rest, j + 2 =>
    simp only [sizeK, Bool.false_and, Bool.false_eq_true, if_false, if_true]
    rw [sumNat_eq_sum]; rfl

theorem sizeK_FT (a : Nat) (t : List Nat) (j : Nat) :
    sizeK false true (a :: t) (j + 1) = a * sizeK false true (a :: t) j + sizeK false true t (j + 1) := by
  rw [sizeK_FT_sigma a t (j + 1), sizeK_FT_sigma a t j, sumR_succ_shift, ← sumR_mul_left]
  simp only [Nat.pow_zero, Nat.one_mul, Nat.sub_zero]
  rw [Nat.add_comm]
  congr 1
  apply sumR_congr
  intro c _
  rw [Nat.pow_succ, show j + 1 - (c + 1) = j - c by omega]
  ring

/-! ### `CM` with every candidate available is `_space_size` -/

theorem CM_eq_sizeK (dd ss : Bool) : ∀ (w : List Nat) (k : Nat),
    CM dd ss w (fun _ => true) k = sizeK dd ss w k := by
  cases dd with
  | false =>
    cases ss with
    | false => intro w k; rw [CM_FF, sizeK_FF]
    | true =>
      intro w
      induction w with
      | nil => intro k; cases k with
        | zero => rfl
        | succ k => rw [CM_nil, sizeK_nil]
      | cons a t ih =>
        intro k
        induction k with
        | zero => simp [CM, sizeK_zero]
        | succ k ihk =>
          rw [CM_rec_FT a t k _ rfl, sizeK_FT, ihk]
          exact congrArg _ (ih (k + 1))
  | true =>
    cases ss with
    | false =>
      intro w
      induction w with
      | nil => intro k; cases k with
        | zero => rfl
        | succ k => rw [CM_nil, sizeK_nil]
      | cons a t ih =>
        intro k
        cases k with
        | zero => simp [CM, sizeK_zero]
        | succ k =>
          rw [CM_rec_TF a t k _ rfl, sizeK_TF]
          have h1 := ih k
          have h2 := ih (k + 1)
          rw [h1, h2]
    | true =>
      intro w
      induction w with
      | nil => intro k; cases k with
        | zero => rfl
        | succ k => rw [CM_nil, sizeK_nil]
      | cons a t ih =>
        intro k
        cases k with
        | zero => simp [CM, sizeK_zero]
        | succ k =>
          rw [CM_rec_TT a t k _ rfl, sizeK_TT]
          have h1 := ih k
          have h2 := ih (k + 1)
          rw [h1, h2]

/-! ### the number of sequences of `enumSeq` -/

theorem length_walkIdx_sumR {β γ : Type} (F : Nat → β → List γ) : ∀ (l : List β) (s : Nat),
    (walkIdx F s l).length = sumR l.length fun i =>
      match l[i]? with
      | some b => (F (s + i) b).length
      | none => 0
  | [], _ => rfl
  | b :: bs, s => by
    rw [List.length_cons, sumR_succ_shift]
    simp only [walkIdx, List.length_append, List.getElem?_cons_zero, Nat.add_zero, List.getElem?_cons_succ,
      length_walkIdx_sumR F bs (s + 1)]
    congr 1
    apply sumR_congr
    intro c _
    rw [show s + 1 + c = s + (c + 1) by omega]

theorem length_enumSeq_eq_CM (subs : List (List (List DNA))) (dd ss : Bool) :
    ∀ (j : Nat) (prior : List Nat),
      (enumSeq subs dd ss prior j).length = CM dd ss (subs.map List.length) (admissible dd ss prior) j := by
  intro j
  induction j with
  | zero => intro prior; rfl
  | succ j ih =>
    intro prior
    rw [enumSeq_succ, length_walkIdx_sumR, CM_succ_def, List.length_map]
    apply sumR_congr
    intro c hc
    have hget : subs[c]? = some subs[c] := List.getElem?_eq_getElem hc
    simp only [hget, Nat.zero_add, blk]
    by_cases ha : admissible dd ss prior c = true
    · simp only [ha, if_true]
      rw [length_lexProd, ih (prior ++ [c])]
      have hw : (subs.map List.length).getD c 0 = subs[c].length := by
        simp [List.getD, hget]
      rw [hw]
      congr 1
      · simp [nodeBlock]
      · congr 1
        funext i
        rw [admissible_snoc]
    · simp [ha]

theorem length_enumSeq (subs : List (List (List DNA))) (dd ss : Bool) (k : Nat) :
    (enumSeq subs dd ss [] k).length = sizeK dd ss (subs.map List.length) k := by
  rw [length_enumSeq_eq_CM, ← CM_eq_sizeK]
  congr 1
  funext x
  simp [admissible]

/-! ### `space_size` for every finite spec -/

mutual
  theorem sizeP_eq' (p : Point) (hf : p.finite = true) : sizeP p = some (allP p).length := by
    cases p with
    | float => simp [Point.finite] at hf
    | custom => simp [Point.finite] at hf
    | choices k cands d s info =>
      simp only [Point.finite] at hf
      rw [sizeP, sizesC_eq' cands hf]
      simp only [Option.map_some, Option.some.injEq, allP, List.length_map, length_enumSeq]
  theorem sizeElems_eq' (es : List Point) (hf : finiteSpace es = true) :
      sizeElems es = some (allElems es).length := by
    cases es with
    | nil => rfl
    | cons p ps =>
      simp only [finiteSpace, Bool.and_eq_true] at hf
      rw [allElems_cons, length_lexProd, sizeElems, sizeP_eq' p hf.1, sizeElems_eq' ps hf.2]
  theorem sizesC_eq' (cs : List (List Point)) (hf : finiteCands cs = true) :
      sizesC cs = some ((allCands cs).map List.length) := by
    cases cs with
    | nil => rfl
    | cons c cs =>
      simp only [finiteCands, Bool.and_eq_true] at hf
      rw [sizesC, sizeElems_eq' c hf.1, sizesC_eq' cs hf.2]
      simp [allCands]
end

theorem size_eq_all (g : Spec) (hf : g.finite = true) : g.size = some g.all.length := by
  cases g with
  | space s => simp [Spec.size, Spec.all, allS, sizeElems_eq' s hf]
  | point p => exact sizeP_eq' p hf

end Pg.Geno
