/-
  The odometer theorem for ALL finite well-formed specs (multi-choices in every mode):
  `first` is the head of `all`, `next` the successor in `all`, `all` has no repetition.
-/
import PgProofs.GenoOdo2
import PgProofs.GenoIter
namespace Pg.Geno
open DNA

theorem option_map_congr {α β : Type} {f g : α → β} : ∀ (o : Option α), (∀ y, o = some y → f y = g y) →
    o.map f = o.map g
  | none, _ => rfl
  | some y, h => by simp [h y rfl]

theorem intTop_of_NodesIn (subs : List (List (List DNA))) : ∀ (seq : List DNA) (cs : List Nat),
    NodesIn subs seq cs → ∀ x ∈ seq, IntTop x
  | [], [], _, x, hx => by cases hx
  | [], _ :: _, h, _, _ => absurd h (by simp [NodesIn])
  | _ :: _, [], h, _, _ => absurd h (by simp [NodesIn])
  | y :: ys, c :: cs, h, x, hx => by
    simp only [NodesIn] at h
    obtain ⟨⟨ks, ksl, rfl, _, _⟩, hr⟩ := h
    cases hx with
    | head => exact ⟨_, _, rfl⟩
    | tail _ hx' => exact intTop_of_NodesIn subs ys cs hr x hx'

section
variable {subs : List (List (List DNA))} {first : Nat → DNA} {next : Nat → DNA → Option (Option DNA)}

theorem mem_enumSeq_facts (dd ss : Bool) (k : Nat) (seq : List DNA)
    (h : seq ∈ enumSeq subs dd ss [] k) :
    seq.length = k ∧ (∀ x ∈ seq, IntTop x) ∧ ∃ cs, NodesIn subs seq cs ∧ admSeq dd ss [] cs ∧ cs.length = k := by
  obtain ⟨cs, hl, hn, ha⟩ := (enumSeq_mem subs dd ss k [] seq).mp h
  exact ⟨(NodesIn_length seq cs hn).trans hl, intTop_of_NodesIn subs seq cs hn, cs, hn, ha, hl⟩

/-- `Choices._next_dna` on the DNA of a sequence of the enumeration. -/
theorem nextChoices_spec (ctx : OdoCtx subs first next) (k : Nat) (dd ss : Bool) (seq : List DNA)
    (hseq : seq ∈ enumSeq subs dd ss [] k) :
    nextChoicesWith subs.length k dd ss first next (rootOf seq) =
      some ((succIn (enumSeq subs dd ss [] k) seq).map rootOf) := by
  obtain ⟨hlen, hint, cs, hn, ha, hcl⟩ := mem_enumSeq_facts dd ss k seq hseq
  have hloop : ∀ pv, odoLoop subs.length k dd ss first next pv seq.reverse =
      some ((succIn (enumSeq subs dd ss [] k) seq).map (mk' pv)) := by
    intro pv
    have := odoLoop_spec ctx k dd ss pv seq.reverse cs [] (by rwa [List.reverse_reverse]) ha
      (by simp [enumSeq]) (by simpa using hcl) (by simp [enumSeq, succIn])
    simpa using this
  have hmap : (succIn (enumSeq subs dd ss [] k) seq).map (mk' .none) =
      (succIn (enumSeq subs dd ss [] k) seq).map rootOf := by
    apply option_map_congr
    intro y hy
    have hym := succIn_mem hy
    exact mk'_none_of_intTop (mem_enumSeq_facts dd ss k y hym).2.1
  unfold nextChoicesWith
  by_cases hk : k = 1
  · subst hk
    match seq, hlen with
    | [x], _ =>
      simp only [beq_self_eq_true, if_true, rootOf]
      have := hloop .none
      simp only [List.reverse_cons, List.reverse_nil, List.nil_append] at this
      rw [this, hmap]
  · have hk' : (k == 1) = false := by simp [hk]
    have hroot : rootOf seq = .mk .none seq := by
      match seq, hlen with
      | [], _ => rfl
      | [x], hl => exact absurd hl.symm hk
      | a :: b :: t, _ => rfl
    simp only [hk', Bool.false_eq_true, if_false, hroot, DNA.children, DNA.value, hlen, bne_self_eq_false]
    rw [hloop .none, hmap]

/-- `Choices._next_dna(None)`: the first DNA. -/
theorem firstChoices_spec (ctx : OdoCtx subs first next) (k : Nat) (dd ss : Bool)
    (hn : 1 ≤ subs.length) (hd : dd = true → k ≤ subs.length) :
    ((enumSeq subs dd ss [] k).map rootOf).head? =
      some (mk' .none ((List.range k).map fun i =>
        mk' (.int (((if dd then i else 0 : Nat)) : Nat)) [first (if dd then i else 0)])) := by
  rw [List.head?_map, head?_enumSeq ctx dd ss k [] (fun _ => List.Pairwise.nil),
    firstChoices subs.length k dd ss hn hd]
  simp only [Option.map_some, Option.some.injEq]
  have e : firsts first ((List.range k).map fun i => if dd then i else 0) =
      (List.range k).map fun i => mk' (.int (((if dd then i else 0 : Nat)) : Nat)) [first (if dd then i else 0)] := by
    simp only [firsts, List.map_map]
    apply List.map_congr_left
    intro i _
    simp [mk'_int_single]
  rw [← e]
  symm
  apply mk'_none_of_intTop
  intro d hd'
  simp only [firsts, List.mem_map] at hd'
  obtain ⟨c, _, rfl⟩ := hd'
  exact ⟨_, _, rfl⟩

end

/-! ### the concrete induction over specs -/

structure PtOk' (p : Point) : Prop where
  head : (allP p).head? = some (firstP p)
  nodup : (allP p).Nodup
  next : ∀ d ∈ allP p, nextP p d = some (succIn (allP p) d)

structure ElemsOk' (es : List Point) : Prop where
  head : (allElems es).head? = some (firstElems es)
  nodup : (allElems es).Nodup
  next : ∀ ds ∈ allElems es, nextElems es ds = some
    (match succIn (allElems es) ds with
     | some ds' => (false, ds')
     | none => (true, firstElems es))

structure CandsOk' (cs : List (List Point)) : Prop where
  all : ∀ (i : Nat) (c : List Point), cs[i]? = some c → ElemsOk' c ∧
    ∀ ds ∈ allElems c, nextAt cs i (mk' .none ds) = some ((succIn (allElems c) ds).map (mk' .none))

theorem firstAt_eq : ∀ (cs : List (List Point)) (i : Nat) (c : List Point), cs[i]? = some c →
    firstAt cs i = mk' .none (firstElems c)
  | [], i, c, h => by simp at h
  | c0 :: cs, 0, c, h => by simp only [List.getElem?_cons_zero, Option.some.injEq] at h; subst h; rfl
  | c0 :: cs, i + 1, c, h => by
    simp only [List.getElem?_cons_succ] at h
    simp only [firstAt]; exact firstAt_eq cs i c h

theorem mk'_none_kidsL (c : Space) (es : List DNA) (h : validElems c es = true) :
    mk' .none (kidsL es) = mk' .none es := by
  match es, h with
  | [], _ => rfl
  | [x], h =>
    match c, h with
    | [p], h =>
      simp only [validElems, Bool.and_true] at h
      cases x with
      | mk w gs =>
        cases w with
        | int => rfl
        | flt => rfl
        | str => rfl
        | none =>
          have hx := mk'_none_single_valid h
          have : kidsL [DNA.mk .none gs] = gs := rfl
          rw [this, hx]
          -- `gs` has length ≠ 1
          cases p with
          | choices k cands d s info =>
            by_cases hk : k = 1
            · subst hk; rw [validP_single_none_false] at h; cases h
            · have hl := validP_multi_len hk h
              match gs, hl with
              | [], _ => rfl
              | [g], hl => exact absurd hl.symm hk
              | a :: b :: t, _ => exact mk'_none_two a b t
          | float => simp [validP] at h
          | custom => simp [validP] at h
    | [], h => simp [validElems] at h
    | _ :: _ :: _, h => simp [validElems] at h
  | a :: b :: t, _ => rw [kidsL_two]

theorem arg_of_unroot {n : Nat} {d : DNA} {ds : List DNA} (h : unroot n d = some ds) :
    (if n == 1 then [d] else d.children) = ds := by
  unfold unroot at h
  by_cases hn : (n == 1) = true
  · simp only [hn, if_true, Option.some.injEq] at h ⊢; exact h
  · simp only [hn, Bool.false_eq_true, if_false] at h ⊢
    cases d with
    | mk w gs =>
      cases w with
      | none => simpa [DNA.children] using h
      | int => simp at h
      | flt => simp at h
      | str => simp at h

theorem nextSpaceWith_mk' {c : List Point} (ok : ElemsOk' c) {ds : List DNA} (hds : ds ∈ allElems c)
    (hv : validElems c ds = true) :
    nextSpaceWith (nextElems c) c.length (mk' .none ds) = some ((succIn (allElems c) ds).map (mk' .none)) := by
  unfold nextSpaceWith
  rw [arg_of_unroot (unroot_mk'_none c ds hv), ok.next ds hds]
  cases succIn (allElems c) ds <;> rfl

theorem kidsL_inj {c : Space} {a b : List DNA} (ha : validElems c a = true) (hb : validElems c b = true)
    (h : kidsL a = kidsL b) : a = b := by
  rw [← unkids_kidsL c a ha, ← unkids_kidsL c b hb, h]

theorem finiteCands_getElem : ∀ (cs : List (List Point)) (i : Nat) (c : List Point),
    finiteCands cs = true → cs[i]? = some c → finiteSpace c = true
  | [], i, c, _, h => by simp at h
  | c0 :: cs, 0, c, hf, h => by
    simp only [finiteCands, Bool.and_eq_true] at hf
    simp only [List.getElem?_cons_zero, Option.some.injEq] at h; subst h; exact hf.1
  | c0 :: cs, i + 1, c, hf, h => by
    simp only [finiteCands, Bool.and_eq_true] at hf
    exact finiteCands_getElem cs i c hf.2 (by simpa using h)

mutual
  theorem okP (p : Point) (hf : p.finite = true) (hw : p.wf = true) : PtOk' p := by
    cases p with
    | float => simp [Point.finite] at hf
    | custom => simp [Point.finite] at hf
    | choices k cands dd ss info =>
      simp only [Point.finite] at hf
      simp only [Point.wf, Bool.and_eq_true, decide_eq_true_eq, Bool.not_eq_true', List.isEmpty_eq_false_iff,
        Bool.or_eq_true] at hw
      obtain ⟨⟨⟨hk1, hne⟩, hdk⟩, hwc⟩ := hw
      have cok := okC cands hf hwc
      have hlen : (allCands cands).length = cands.length := allCands_length' cands
      -- valid facts of the candidates
      have hfin : ∀ (i : Nat) (c : List Point), cands[i]? = some c → finiteSpace c = true :=
        fun i c hc => finiteCands_getElem cands i c hf hc
      have hsubs : ∀ (i : Nat) (ksl : List (List DNA)), (allCands cands)[i]? = some ksl →
          ∃ c, cands[i]? = some c ∧ ksl = (allElems c).map kidsL := by
        intro i ksl h
        rw [allCands_getElem?'] at h
        cases hc : cands[i]? with
        | none => simp [hc] at h
        | some c => simp only [hc, Option.map_some, Option.some.injEq] at h; exact ⟨c, rfl, h.symm⟩
      have ctx : OdoCtx (allCands cands) (firstAt cands) (nextAt cands) := by
        refine ⟨?_, ?_, ?_, ?_⟩
        · intro ksl hk
          obtain ⟨i, hi⟩ := List.getElem?_of_mem hk
          obtain ⟨c, hc, rfl⟩ := hsubs i ksl hi
          have ok := (cok.all i c hc).1
          intro e
          have hh := ok.head
          have : allElems c = [] := by simpa using e
          rw [this] at hh; cases hh
        · intro ksl hk
          obtain ⟨i, hi⟩ := List.getElem?_of_mem hk
          obtain ⟨c, hc, rfl⟩ := hsubs i ksl hi
          have ok := (cok.all i c hc).1
          have hE := memE_iff c (hfin i c hc)
          unfold List.Nodup
          rw [List.pairwise_map]
          have h2 : List.Pairwise (fun a b => a ∈ allElems c ∧ b ∈ allElems c ∧ a ≠ b) (allElems c) := by
            have := ok.nodup
            unfold List.Nodup at this
            exact List.Pairwise.imp_of_mem (fun ha hb h => ⟨ha, hb, h⟩) this
          exact h2.imp (fun ⟨ha, hb, hne'⟩ e => hne' (kidsL_inj ((hE _).mp ha) ((hE _).mp hb) e))
        · intro i ksl hi
          obtain ⟨c, hc, rfl⟩ := hsubs i ksl hi
          have ok := (cok.all i c hc).1
          have hE := memE_iff c (hfin i c hc)
          rw [List.head?_map, ok.head, firstAt_eq cands i c hc]
          simp only [Option.map_some, Option.some.injEq]
          exact (kids_mk'_none c _ ((hE _).mp (List.mem_of_mem_head? ok.head))).symm
        · intro i ksl ks hi hks
          obtain ⟨c, hc, rfl⟩ := hsubs i ksl hi
          obtain ⟨ok, hnext⟩ := cok.all i c hc
          have hE := memE_iff c (hfin i c hc)
          simp only [List.mem_map] at hks
          obtain ⟨es, hes, rfl⟩ := hks
          have hv := (hE es).mp hes
          refine ⟨_, by rw [mk'_none_kidsL c es hv]; exact hnext es hes, ?_⟩
          rw [succIn_map (fun a ha h => kidsL_inj ((hE a).mp ha) hv h)]
          rw [Option.map_map]
          apply option_map_congr
          intro y hy
          exact kids_mk'_none c y ((hE y).mp (succIn_mem hy))
      have hn1 : 1 ≤ (allCands cands).length := by
        rw [hlen]
        cases cands with
        | nil => exact absurd rfl hne
        | cons a b => simp
      have hd : dd = true → k ≤ (allCands cands).length := by
        intro h
        rw [hlen]
        rcases hdk with h' | h'
        · rw [h] at h'; cases h'
        · exact h'
      have hEq : ∀ seq ∈ enumSeq (allCands cands) dd ss [] k, seq.length = k :=
        fun seq hs => (mem_enumSeq_facts dd ss k seq hs).1
      have hinj : ∀ a ∈ enumSeq (allCands cands) dd ss [] k, ∀ b ∈ enumSeq (allCands cands) dd ss [] k,
          rootOf a = rootOf b → a = b :=
        fun a ha b hb h => rootOf_inj ((hEq a ha).trans (hEq b hb).symm) h
      refine ⟨?_, ?_, ?_⟩
      · have := firstChoices_spec ctx k dd ss hn1 hd
        simp only [allP]
        rw [this]
        simp only [firstP]
      · simp only [allP]
        unfold List.Nodup
        rw [List.pairwise_map]
        have hnd := nodup_enumSeq (allCands cands) ctx.nodup dd ss k []
        have h2 : List.Pairwise (fun a b => a ∈ enumSeq (allCands cands) dd ss [] k ∧
            b ∈ enumSeq (allCands cands) dd ss [] k ∧ a ≠ b) (enumSeq (allCands cands) dd ss [] k) := by
          unfold List.Nodup at hnd
          exact List.Pairwise.imp_of_mem (fun ha hb h => ⟨ha, hb, h⟩) hnd
        exact h2.imp (fun ⟨ha, hb, hne'⟩ e => hne' (hinj _ ha _ hb e))
      · intro d hd'
        simp only [allP, List.mem_map] at hd'
        obtain ⟨seq, hseq, rfl⟩ := hd'
        simp only [nextP, allP]
        rw [← hlen, nextChoices_spec ctx k dd ss seq hseq,
          succIn_map (fun a ha h => hinj a ha seq hseq h)]
  theorem okE (es : List Point) (hf : finiteSpace es = true) (hw : wfSpace es = true) : ElemsOk' es := by
    cases es with
    | nil =>
      refine ⟨rfl, by simp [allElems], ?_⟩
      intro ds hds; simp [allElems] at hds; subst hds; simp [nextElems, allElems, succIn, firstElems]
    | cons p ps =>
      simp only [finiteSpace, wfSpace, Bool.and_eq_true] at hf hw
      have pok := okP p hf.1 hw.1
      have eok := okE ps hf.2 hw.2
      refine ⟨?_, ?_, ?_⟩
      all_goals rw [allElems_cons]
      · exact head?_lexProd pok.head eok.head
      · exact nodup_lexProd pok.nodup eok.nodup
      · intro ds hds
        rw [mem_lexProd] at hds
        obtain ⟨a, ha, e, he, rfl⟩ := hds
        rw [succIn_lexProd ha he]
        simp only [nextElems, eok.next e he]
        cases hs : succIn (allElems ps) e with
        | some e' => rfl
        | none =>
          simp only [pok.next a ha, firstElems]
          cases hs2 : succIn (allP p) a with
          | some a' => simp [eok.head]
          | none => simp
  theorem okC (cs : List (List Point)) (hf : finiteCands cs = true) (hw : wfCands cs = true) : CandsOk' cs := by
    cases cs with
    | nil => exact ⟨fun i c h => by simp at h⟩
    | cons c cs =>
      simp only [finiteCands, wfCands, Bool.and_eq_true] at hf hw
      have eok := okE c hf.1 hw.1
      have cok := okC cs hf.2 hw.2
      constructor
      intro i c' hc'
      cases i with
      | zero =>
        simp only [List.getElem?_cons_zero, Option.some.injEq] at hc'
        subst hc'
        refine ⟨eok, ?_⟩
        intro ds hds
        simp only [nextAt]
        exact nextSpaceWith_mk' eok hds ((memE_iff c hf.1 ds).mp hds)
      | succ i =>
        simp only [List.getElem?_cons_succ] at hc'
        obtain ⟨a, b⟩ := cok.all i c' hc'
        exact ⟨a, by simpa [nextAt] using b⟩
end

/-- The odometer theorem for every finite, well-formed root spec. -/
theorem specOk_all (g : Spec) (hf : g.finite = true) (hw : g.wf = true) : SpecOk g := by
  cases g with
  | point p =>
    have ok := okP p hf hw
    exact ⟨ok.head, ok.nodup, ok.next⟩
  | space s =>
    have ok := okE s hf hw
    have hE := memE_iff s hf
    have hroot : ∀ ds ∈ allElems s, mk' .none ds = rootOf ds := by
      intro ds hds
      have hv := (hE ds).mp hds
      have hl := validElems_length s ds hv
      exact ((unroot_iff hl).mp (unroot_mk'_none s ds hv)).symm
    have hinj : ∀ a ∈ allElems s, ∀ b ∈ allElems s, rootOf a = rootOf b → a = b := by
      intro a ha b hb h
      have la := validElems_length s a ((hE a).mp ha)
      have lb := validElems_length s b ((hE b).mp hb)
      exact rootOf_inj (la.trans lb.symm) h
    refine ⟨?_, ?_, ?_⟩
    · simp only [Spec.all, allS, Spec.first, firstS, List.head?_map, ok.head, Option.map_some]
      rw [hroot _ (List.mem_of_mem_head? ok.head)]
    · simp only [Spec.all, allS]
      unfold List.Nodup
      rw [List.pairwise_map]
      have h2 : List.Pairwise (fun a b => a ∈ allElems s ∧ b ∈ allElems s ∧ a ≠ b) (allElems s) := by
        have := ok.nodup
        unfold List.Nodup at this
        exact List.Pairwise.imp_of_mem (fun ha hb h => ⟨ha, hb, h⟩) this
      exact h2.imp (fun ⟨ha, hb, hne⟩ e => hne (hinj _ ha _ hb e))
    · intro d hd
      simp only [Spec.all, allS, List.mem_map] at hd
      obtain ⟨ds, hds, rfl⟩ := hd
      simp only [Spec.next, nextS, Spec.all, allS]
      rw [← hroot ds hds, nextSpaceWith_mk' ok hds ((hE ds).mp hds), hroot ds hds,
        succIn_map (fun a ha h => hinj a ha ds hds h)]
      apply congrArg
      apply option_map_congr
      intro y hy
      exact hroot y (succIn_mem hy)

end Pg.Geno
