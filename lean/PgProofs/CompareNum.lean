/-
  C06 helper lemmas, part 1: exact numbers (`Num`), strings (`lexLt`), atoms.
-/
import PgModel.Compare
import Mathlib.Tactic.Linarith
import Mathlib.Tactic.Positivity
import Mathlib.Tactic.Ring
namespace Pg.C06

/-! ### NumOrd: exact dyadic comparison is a strict total order compatible with `Num.eq` -/

private theorem pw_pos (e : Nat) : (0 : Int) < ((2 ^ e : Nat) : Int) := by positivity

theorem Num.eq_iff (a b : Num) :
    Num.eq a b = true ↔ a.m * ((2 ^ b.e : Nat) : Int) = b.m * ((2 ^ a.e : Nat) : Int) := by
  simp [Num.eq]

theorem Num.lt_iff (a b : Num) :
    Num.lt a b = true ↔ a.m * ((2 ^ b.e : Nat) : Int) < b.m * ((2 ^ a.e : Nat) : Int) := by
  simp [Num.lt]

theorem Num.eq_refl (a : Num) : Num.eq a a = true := by simp [Num.eq]

theorem Num.eq_symm (a b : Num) : Num.eq a b = Num.eq b a := by
  simp only [Num.eq, eq_comm]

theorem Num.eq_trans {a b c : Num} (h1 : Num.eq a b = true) (h2 : Num.eq b c = true) :
    Num.eq a c = true := by
  rw [Num.eq_iff] at *
  have hA := pw_pos a.e; have hB := pw_pos b.e; have hC := pw_pos c.e
  have : ((2 ^ b.e : Nat) : Int) * (a.m * ((2 ^ c.e : Nat) : Int)) =
      ((2 ^ b.e : Nat) : Int) * (c.m * ((2 ^ a.e : Nat) : Int)) := by
    calc ((2 ^ b.e : Nat) : Int) * (a.m * ((2 ^ c.e : Nat) : Int))
        = (a.m * ((2 ^ b.e : Nat) : Int)) * ((2 ^ c.e : Nat) : Int) := by ring
      _ = (b.m * ((2 ^ a.e : Nat) : Int)) * ((2 ^ c.e : Nat) : Int) := by rw [h1]
      _ = (b.m * ((2 ^ c.e : Nat) : Int)) * ((2 ^ a.e : Nat) : Int) := by ring
      _ = (c.m * ((2 ^ b.e : Nat) : Int)) * ((2 ^ a.e : Nat) : Int) := by rw [h2]
      _ = ((2 ^ b.e : Nat) : Int) * (c.m * ((2 ^ a.e : Nat) : Int)) := by ring
  exact mul_left_cancel₀ (ne_of_gt hB) this

theorem Num.lt_irrefl (a : Num) : Num.lt a a = false := by simp [Num.lt]

theorem Num.lt_trans {a b c : Num} (h1 : Num.lt a b = true) (h2 : Num.lt b c = true) :
    Num.lt a c = true := by
  rw [Num.lt_iff] at *
  have hA := pw_pos a.e; have hB := pw_pos b.e; have hC := pw_pos c.e
  have h3 : (a.m * ((2 ^ b.e : Nat) : Int)) * ((2 ^ c.e : Nat) : Int) <
      (b.m * ((2 ^ a.e : Nat) : Int)) * ((2 ^ c.e : Nat) : Int) := mul_lt_mul_of_pos_right h1 hC
  have h4 : (b.m * ((2 ^ c.e : Nat) : Int)) * ((2 ^ a.e : Nat) : Int) <
      (c.m * ((2 ^ b.e : Nat) : Int)) * ((2 ^ a.e : Nat) : Int) := mul_lt_mul_of_pos_right h2 hA
  have : ((2 ^ b.e : Nat) : Int) * (a.m * ((2 ^ c.e : Nat) : Int)) <
      ((2 ^ b.e : Nat) : Int) * (c.m * ((2 ^ a.e : Nat) : Int)) := by nlinarith
  exact lt_of_mul_lt_mul_left this (le_of_lt hB)

/-- Exactly one of `<`, `==`, `>`. -/
theorem Num.trichotomy (a b : Num) :
    (Num.lt a b = true ∧ Num.eq a b = false ∧ Num.lt b a = false) ∨
    (Num.lt a b = false ∧ Num.eq a b = true ∧ Num.lt b a = false) ∨
    (Num.lt a b = false ∧ Num.eq a b = false ∧ Num.lt b a = true) := by
  simp only [Num.lt, Num.eq, decide_eq_true_eq, decide_eq_false_iff_not]
  rcases lt_trichotomy (a.m * ((2 ^ b.e : Nat) : Int)) (b.m * ((2 ^ a.e : Nat) : Int)) with h | h | h
  · left; exact ⟨h, ne_of_lt h, not_lt.mpr (le_of_lt h)⟩
  · right; left; exact ⟨by rw [h]; exact _root_.lt_irrefl _, h, by rw [h]; exact _root_.lt_irrefl _⟩
  · right; right; exact ⟨not_lt.mpr (le_of_lt h), ne_of_gt h, h⟩

theorem Num.lt_congr_left {a b : Num} (c : Num) (h : Num.eq a b = true) : Num.lt a c = Num.lt b c := by
  rw [Num.eq_iff] at h
  have hA := pw_pos a.e; have hB := pw_pos b.e; have hC := pw_pos c.e
  rw [Bool.eq_iff_iff, Num.lt_iff, Num.lt_iff]
  constructor
  · intro h1
    have h3 := mul_lt_mul_of_pos_right h1 hB
    have : ((2 ^ a.e : Nat) : Int) * (b.m * ((2 ^ c.e : Nat) : Int)) <
        ((2 ^ a.e : Nat) : Int) * (c.m * ((2 ^ b.e : Nat) : Int)) := by nlinarith
    exact lt_of_mul_lt_mul_left this (le_of_lt hA)
  · intro h1
    have h3 := mul_lt_mul_of_pos_right h1 hA
    have : ((2 ^ b.e : Nat) : Int) * (a.m * ((2 ^ c.e : Nat) : Int)) <
        ((2 ^ b.e : Nat) : Int) * (c.m * ((2 ^ a.e : Nat) : Int)) := by nlinarith
    exact lt_of_mul_lt_mul_left this (le_of_lt hB)

theorem Num.lt_congr_right {a b : Num} (c : Num) (h : Num.eq a b = true) : Num.lt c a = Num.lt c b := by
  rw [Num.eq_iff] at h
  have hA := pw_pos a.e; have hB := pw_pos b.e; have hC := pw_pos c.e
  rw [Bool.eq_iff_iff, Num.lt_iff, Num.lt_iff]
  constructor
  · intro h1
    have h3 := mul_lt_mul_of_pos_right h1 hB
    have : ((2 ^ a.e : Nat) : Int) * (c.m * ((2 ^ b.e : Nat) : Int)) <
        ((2 ^ a.e : Nat) : Int) * (b.m * ((2 ^ c.e : Nat) : Int)) := by nlinarith
    exact lt_of_mul_lt_mul_left this (le_of_lt hA)
  · intro h1
    have h3 := mul_lt_mul_of_pos_right h1 hA
    have : ((2 ^ b.e : Nat) : Int) * (c.m * ((2 ^ a.e : Nat) : Int)) <
        ((2 ^ b.e : Nat) : Int) * (a.m * ((2 ^ c.e : Nat) : Int)) := by nlinarith
    exact lt_of_mul_lt_mul_left this (le_of_lt hB)

/-! ### Strings -/

theorem lexLt_irrefl (s : Str) : lexLt s s = false := by
  induction s with
  | nil => rfl
  | cons a as ih => simp [lexLt, ih]

theorem lexLt_trans {a b c : Str} (h1 : lexLt a b = true) (h2 : lexLt b c = true) : lexLt a c = true := by
  induction a generalizing b c with
  | nil =>
    cases b with
    | nil => simp [lexLt] at h1
    | cons y ys => cases c with
      | nil => simp [lexLt] at h2
      | cons z zs => simp [lexLt]
  | cons x xs ih =>
    cases b with
    | nil => simp [lexLt] at h1
    | cons y ys => cases c with
      | nil => simp [lexLt] at h2
      | cons z zs =>
        simp only [lexLt] at h1 h2 ⊢
        split at h1
        · split at h2
          · have : x < z := by omega
            simp [this]
          · split at h2
            · simp at h2
            · have : y = z := by omega
              subst this; simp [*]
        · split at h1
          · simp at h1
          · have hxy : x = y := by omega
            subst hxy
            split at h2
            · simp [*]
            · split at h2
              · simp at h2
              · simp [*, ih h1 h2]

/-- Exactly one of `<`, `=`, `>`. -/
theorem lexLt_trichotomy (a b : Str) :
    (lexLt a b = true ∧ a ≠ b ∧ lexLt b a = false) ∨
    (lexLt a b = false ∧ a = b ∧ lexLt b a = false) ∨
    (lexLt a b = false ∧ a ≠ b ∧ lexLt b a = true) := by
  induction a generalizing b with
  | nil => cases b <;> simp [lexLt]
  | cons x xs ih =>
    cases b with
    | nil => simp [lexLt]
    | cons y ys =>
      simp only [lexLt]
      rcases Nat.lt_trichotomy x y with h | h | h
      · have : ¬ y < x := by omega
        have : x ≠ y := by omega
        simp [*]
      · subst h
        simp only [Nat.lt_irrefl, if_false, List.cons.injEq, true_and, ne_eq]
        exact ih ys
      · have : ¬ x < y := by omega
        have : x ≠ y := by omega
        simp [*]

end Pg.C06
