/- Store lemmas for nested directory paths: a save is `putAt` (create the chain of directories,
put the file), and `putAt` only affects its own key among prefix-incomparable keys. -/
import PgProofs.C05Store
namespace Pg.C05

/-- A file location: directory components and file name. -/
abbrev FKey := List Name × Name

def fileAt2 : Dir → List Name → Name → Option (List Char)
  | es, [], nm => match dget es nm with
    | some (.file c) => some c
    | _ => none
  | es, x :: pk, nm => match dget es x with
    | some (.dir sub) => fileAt2 sub pk nm
    | _ => none

/-- `(pk, nm)` is usable as a file location: no directory component is a file, and the location
itself is not a directory. -/
def free2 : Dir → List Name → Name → Bool
  | es, [], nm => match dget es nm with
    | some (.dir _) => false
    | _ => true
  | es, x :: pk, nm => match dget es x with
    | none => true
    | some (.dir sub) => free2 sub pk nm
    | some (.file _) => false

/-- Neither full key is a prefix of the other. -/
def incomp2 : List Name → Name → List Name → Name → Bool
  | [], nm, [], nm' => nm != nm'
  | [], nm, y :: _, _ => nm != y
  | x :: _, _, [], nm' => x != nm'
  | x :: pk, nm, y :: pk', nm' => if x = y then incomp2 pk nm pk' nm' else true

/-- SPEC-side description of a save: make the directories, put the file. -/
def putAt : Dir → List Name → Name → List Char → Dir
  | es, [], nm, c => dset es nm (.file c)
  | es, x :: pk, nm, c => match dget es x with
    | some (.dir sub) => dset es x (.dir (putAt sub pk nm c))
    | _ => dset es x (.dir (putAt [] pk nm c))

/-- Total version of `mkdirsAt` (agrees with it when no component is a file). -/
def mkd : Dir → List Name → Dir
  | es, [] => es
  | es, x :: pk => match dget es x with
    | some (.dir sub) => dset es x (.dir (mkd sub pk))
    | _ => dset es x (.dir (mkd [] pk))

theorem dset_dset (es : Dir) (x : Name) (n m : Node) : dset (dset es x n) x m = dset es x m := by
  induction es with
  | nil => simp [dset]
  | cons p r ih =>
    obtain ⟨y, q⟩ := p
    by_cases h : y = x
    · simp [dset, h]
    · simp [dset, h, ih]

theorem fileAt2_nil : ∀ (pk : List Name) (nm : Name), fileAt2 [] pk nm = none
  | [], _ => rfl
  | _ :: _, _ => rfl

theorem free2_nil : ∀ (pk : List Name) (nm : Name), free2 [] pk nm = true
  | [], _ => rfl
  | _ :: _, _ => rfl

theorem locate_cons (es : Dir) (x : Name) (k : List Name) :
    locate (.dir es) (x :: k) = match dget es x with
      | none => .ok none
      | some n => locate n k := rfl

theorem locate_free2 : ∀ (pk : List Name) (es : Dir) (nm : Name), free2 es pk nm = true →
    locate (.dir es) (pk ++ [nm]) = .ok ((fileAt2 es pk nm).map Node.file)
  | [], es, nm, h => by
    simp only [List.nil_append, locate_one, fileAt2]
    simp only [free2] at h
    cases hd : dget es nm with
    | none => rfl
    | some n =>
      cases n with
      | file c => rfl
      | dir sub => simp [hd] at h
  | x :: pk, es, nm, h => by
    simp only [List.cons_append, locate_cons, fileAt2]
    simp only [free2] at h
    cases hd : dget es x with
    | none => rfl
    | some n =>
      cases n with
      | file c => simp [hd] at h
      | dir sub =>
        simp only [hd] at h
        exact locate_free2 pk sub nm h

theorem mkdirsAt_mkd : ∀ (pk : List Name) (es : Dir) (nm : Name), free2 es pk nm = true →
    mkdirsAt es pk = .ok (mkd es pk)
  | [], _, _, _ => rfl
  | x :: pk, es, nm, h => by
    simp only [free2] at h
    simp only [mkdirsAt, mkd]
    cases hd : dget es x with
    | none => simp only [mkdirsAt_mkd pk [] nm (free2_nil pk nm)]
    | some n =>
      cases n with
      | file c => simp [hd] at h
      | dir sub =>
        simp only [hd] at h
        simp only [mkdirsAt_mkd pk sub nm h]

theorem locate_mkd : ∀ (pk : List Name) (es : Dir), ∃ S, locate (.dir (mkd es pk)) pk = .ok (some (.dir S))
  | [], es => ⟨es, rfl⟩
  | x :: pk, es => by
    simp only [mkd]
    cases hd : dget es x with
    | none =>
      obtain ⟨S, hS⟩ := locate_mkd pk []
      exact ⟨S, by simp only [locate_cons, dget_dset_same, hS]⟩
    | some n =>
      cases n with
      | file c =>
        obtain ⟨S, hS⟩ := locate_mkd pk []
        exact ⟨S, by simp only [locate_cons, dget_dset_same, hS]⟩
      | dir sub =>
        obtain ⟨S, hS⟩ := locate_mkd pk sub
        exact ⟨S, by simp only [locate_cons, dget_dset_same, hS]⟩

theorem fileAt2_mkd : ∀ (pk : List Name) (es : Dir) (nm : Name), free2 es pk nm = true →
    fileAt2 (mkd es pk) pk nm = fileAt2 es pk nm ∧ free2 (mkd es pk) pk nm = true
  | [], _, _, h => ⟨rfl, h⟩
  | x :: pk, es, nm, h => by
    simp only [free2] at h
    simp only [mkd, fileAt2, free2]
    cases hd : dget es x with
    | none =>
      have ih := fileAt2_mkd pk [] nm (free2_nil pk nm)
      simp only [dget_dset_same, ih.1, ih.2, fileAt2_nil, and_self]
    | some n =>
      cases n with
      | file c => simp [hd] at h
      | dir sub =>
        simp only [hd] at h
        have ih := fileAt2_mkd pk sub nm h
        simp only [dget_dset_same, ih.1, ih.2, and_self]

theorem setAt_mkd : ∀ (pk : List Name) (es : Dir) (nm : Name) (c : List Char),
    setAt (mkd es pk) pk nm (.file c) = putAt es pk nm c
  | [], _, _, _ => rfl
  | x :: pk, es, nm, c => by
    simp only [mkd, putAt]
    cases hd : dget es x with
    | none => simp only [setAt, dget_dset_same, dset_dset, setAt_mkd pk [] nm c]
    | some n =>
      cases n with
      | file c0 => simp only [setAt, dget_dset_same, dset_dset, setAt_mkd pk [] nm c]
      | dir sub => simp only [setAt, dget_dset_same, dset_dset, setAt_mkd pk sub nm c]

theorem updFile_cons (es : Dir) (y : Name) (k : List Name) (hk : k ≠ []) (c : List Char) :
    updFile es (y :: k) c = match dget es y with
      | some (.dir sub) => dset es y (.dir (updFile sub k c))
      | _ => es := by
  cases k with
  | nil => exact absurd rfl hk
  | cons x k => rfl

theorem updFile_mkd : ∀ (pk : List Name) (es : Dir) (nm : Name) (c0 c : List Char),
    fileAt2 es pk nm = some c0 → updFile (mkd es pk) (pk ++ [nm]) c = putAt es pk nm c
  | [], es, nm, c0, c, h => by
    simp only [fileAt2] at h
    simp only [mkd, List.nil_append, updFile, putAt]
    cases hd : dget es nm with
    | none => simp [hd] at h
    | some n =>
      cases n with
      | file c1 => rfl
      | dir sub => simp [hd] at h
  | x :: pk, es, nm, c0, c, h => by
    simp only [fileAt2] at h
    cases hd : dget es x with
    | none => simp [hd] at h
    | some n =>
      cases n with
      | file c1 => simp [hd] at h
      | dir sub =>
        simp only [hd] at h
        simp only [mkd, putAt, hd, List.cons_append]
        rw [updFile_cons _ _ _ (by simp)]
        simp only [dget_dset_same, dset_dset, updFile_mkd pk sub nm c0 c h]

/-! ### Frame lemmas for `putAt` -/

theorem fileAt2_putAt_same : ∀ (pk : List Name) (es : Dir) (nm : Name) (c : List Char),
    fileAt2 (putAt es pk nm c) pk nm = some c ∧ free2 (putAt es pk nm c) pk nm = true
  | [], es, nm, c => by simp [putAt, fileAt2, free2, dget_dset_same]
  | x :: pk, es, nm, c => by
    simp only [putAt]
    cases hd : dget es x with
    | none => simpa [fileAt2, free2, dget_dset_same] using fileAt2_putAt_same pk [] nm c
    | some n =>
      cases n with
      | file c0 => simpa [fileAt2, free2, dget_dset_same] using fileAt2_putAt_same pk [] nm c
      | dir sub => simpa [fileAt2, free2, dget_dset_same] using fileAt2_putAt_same pk sub nm c

theorem fileAt2_congr (es es' : Dir) (y : Name) (pk : List Name) (nm : Name)
    (h : dget es y = dget es' y) : fileAt2 es (y :: pk) nm = fileAt2 es' (y :: pk) nm := by
  simp only [fileAt2, h]

theorem free2_congr (es es' : Dir) (y : Name) (pk : List Name) (nm : Name)
    (h : dget es y = dget es' y) : free2 es (y :: pk) nm = free2 es' (y :: pk) nm := by
  simp only [free2, h]

theorem putAt_head (es : Dir) (x : Name) (pk : List Name) (nm : Name) (c : List Char) :
    ∃ n, putAt es (x :: pk) nm c = dset es x n := by
  simp only [putAt]
  cases dget es x with
  | none => exact ⟨_, rfl⟩
  | some n => cases n <;> exact ⟨_, rfl⟩

theorem putAt_other : ∀ (pk : List Name) (es : Dir) (nm : Name) (c : List Char) (pk' : List Name)
    (nm' : Name), incomp2 pk nm pk' nm' = true →
    fileAt2 (putAt es pk nm c) pk' nm' = fileAt2 es pk' nm' ∧
    (free2 es pk' nm' = true → free2 (putAt es pk nm c) pk' nm' = true)
  | [], es, nm, c, [], nm', h => by
    simp only [incomp2, bne_iff_ne, ne_eq] at h
    simp [putAt, fileAt2, free2, dget_dset_other es nm nm' _ h]
  | [], es, nm, c, y :: pk', nm', h => by
    simp only [incomp2, bne_iff_ne, ne_eq] at h
    have hd := dget_dset_other es nm y (.file c) h
    simp only [putAt]
    rw [fileAt2_congr _ es y pk' nm' hd, free2_congr _ es y pk' nm' hd]
    exact ⟨rfl, id⟩
  | x :: pk, es, nm, c, [], nm', h => by
    simp only [incomp2, bne_iff_ne, ne_eq] at h
    obtain ⟨n, hn⟩ := putAt_head es x pk nm c
    rw [hn]
    simp [fileAt2, free2, dget_dset_other es x nm' n h]
  | x :: pk, es, nm, c, y :: pk', nm', h => by
    by_cases hxy : x = y
    · subst hxy
      simp only [incomp2, if_true] at h
      simp only [putAt]
      cases hd : dget es x with
      | none =>
        have ih := putAt_other pk [] nm c pk' nm' h
        simp only [fileAt2, free2, dget_dset_same, hd, ih.1, fileAt2_nil, true_and]
        intro _; exact ih.2 (free2_nil pk' nm')
      | some n =>
        cases n with
        | file c0 =>
          have ih := putAt_other pk [] nm c pk' nm' h
          simp only [fileAt2, free2, dget_dset_same, hd, ih.1, fileAt2_nil, true_and]
          intro hf; cases hf
        | dir sub =>
          have ih := putAt_other pk sub nm c pk' nm' h
          simp only [fileAt2, free2, dget_dset_same, hd, ih.1, true_and]
          exact ih.2
    · obtain ⟨n, hn⟩ := putAt_head es x pk nm c
      rw [hn]
      have hd := dget_dset_other es x y n hxy
      rw [fileAt2_congr _ es y pk' nm' hd, free2_congr _ es y pk' nm' hd]
      exact ⟨rfl, id⟩

end Pg.C05

namespace Pg.C05

/-! ### The model's save / load on a well-located nested path -/

/-- The three ways the code derives a location from the path string agree: `_locate(path)` walks
`parent ++ [name]`, `_parent_and_name(path)` gives `(parent, name)`, `dirname(path)` is the parent
and is either under the mount prefix (so `pg_io.mkdirs` reaches the memory file system) or the
mount point itself. -/
def PathOK (cfg : FsCfg) (p : Path) : Bool :=
  key cfg p == key cfg (parentStr p) ++ [nameStr p] &&
  key cfg (dirname p) == key cfg (parentStr p) &&
  (memPrefix.isPrefixOf (dirname p) || (key cfg (parentStr p)).isEmpty)

/-- The abstract key of a path. -/
def kp (cfg : FsCfg) (p : Path) : FKey := (key cfg (parentStr p), nameStr p)

theorem PathOK_key {cfg : FsCfg} {p : Path} (h : PathOK cfg p = true) :
    key cfg p = (kp cfg p).1 ++ [(kp cfg p).2] := by
  simp only [PathOK, Bool.and_eq_true, beq_iff_eq] at h; exact h.1.1

def newC (old : Option (List Char)) (content : List Char) : Mode → List Char
  | .w => content
  | .a => old.getD [] ++ content

theorem mkdirsApi_nested (cfg : FsCfg) (es : Dir) (p : Path) (hp : PathOK cfg p = true)
    (hf : free2 es (kp cfg p).1 (kp cfg p).2 = true) :
    mkdirsApi cfg es (dirname p) = .ok (mkd es (kp cfg p).1) := by
  simp only [PathOK, Bool.and_eq_true, beq_iff_eq, Bool.or_eq_true, List.isEmpty_iff] at hp
  unfold mkdirsApi
  split
  · rw [hp.1.2]; exact mkdirsAt_mkd _ es _ hf
  · rename_i hnp
    rcases hp.2 with h | h
    · exact absurd h hnp
    · simp only [kp, h, mkd]

theorem writeFile_nested (cfg : FsCfg) (es : Dir) (p : Path) (content : List Char) (mode : Mode)
    (hp : PathOK cfg p = true) (hf : free2 es (kp cfg p).1 (kp cfg p).2 = true)
    (ht : cfg.truncateOnW = true) (ha : cfg.appendAtEnd = true) :
    writeFile cfg (mkd es (kp cfg p).1) p content mode =
      .ok (putAt es (kp cfg p).1 (kp cfg p).2
        (newC (fileAt2 es (kp cfg p).1 (kp cfg p).2) content mode)) := by
  obtain ⟨hfile, hfree⟩ := fileAt2_mkd (kp cfg p).1 es (kp cfg p).2 hf
  obtain ⟨S, hS⟩ := locate_mkd (kp cfg p).1 es
  unfold writeFile
  rw [PathOK_key hp, locate_free2 _ _ _ hfree, hfile]
  have hpar : key cfg (parentStr p) = (kp cfg p).1 := rfl
  have hnm : nameStr p = (kp cfg p).2 := rfl
  rw [hpar, hnm, hS]
  cases hold : fileAt2 es (kp cfg p).1 (kp cfg p).2 with
  | none =>
    cases mode <;> simp [ht, ha, setAt_mkd, newC]
  | some c0 =>
    cases mode
    · simp [ht, ha, setAt_mkd, newC]
    · simp [ht, ha, newC, updFile_mkd _ es _ c0 _ hold]

theorem readFile_nested (cfg : FsCfg) (es : Dir) (p : Path) (hp : PathOK cfg p = true)
    (hf : free2 es (kp cfg p).1 (kp cfg p).2 = true) :
    readFile cfg es p = match fileAt2 es (kp cfg p).1 (kp cfg p).2 with
      | some c => .ok c
      | none => .error .notFound := by
  unfold readFile
  rw [PathOK_key hp, locate_free2 _ _ _ hf]
  cases fileAt2 es (kp cfg p).1 (kp cfg p).2 <;> rfl

end Pg.C05
