/- C14 — the recombinators only read the oracle: the uid counter moves only in `mkChild`. -/
import PgProofs.EvoAlignU
namespace Pg.C14

/-- `x` may consume oracle events but leaves the uid counter alone. -/
def OO {α : Type} (x : M α) : Prop := ∀ s a s', x s = .ok (a, s') → s'.nextUid = s.nextUid

theorem OO.pure {α : Type} (a : α) : OO (Pure.pure a : M α) := by
  intro s b s' h; rw [pure_ok] at h; rw [h.2]

theorem OO.fail {α : Type} (e : Err) : OO (fail e : M α) := by
  intro s b s' h; exact ((fail_ok _ _ _).mp h).elim

theorem OO.bind {α β : Type} {x : M α} {f : α → M β} (hx : OO x) (hf : ∀ a, OO (f a)) : OO (x >>= f) := by
  intro s b s' h
  rw [bind_ok] at h
  obtain ⟨a, s1, h1, h2⟩ := h
  rw [hf a s1 b s' h2, hx s a s1 h1]

theorem OO_nextIdx (k : RK) (n : Nat) : OO (nextIdx k n) := fun _ _ _ h => (nextIdx_spec h).2
theorem OO_nextSample (n k : Nat) : OO (nextSample n k) := fun _ _ _ h => (nextSample_spec h).2.2.2
theorem OO_nextChoices (n k : Nat) : OO (nextChoices n k) := fun _ _ _ h => (nextChoices_spec h).2.2

theorem OO_forEachM {α β : Type} (f : α → M β) (hf : ∀ a, OO (f a)) : ∀ l, OO (forEachM f l) := by
  intro l
  induction l with
  | nil => simp only [forEachM]; exact OO.pure _
  | cons a as ih =>
    simp only [forEachM]
    exact OO.bind (hf a) (fun b => OO.bind ih (fun bs => OO.pure _))

theorem OO_checked (g : GSpec) (d : DNA) : OO (checked g d) := by
  intro s a s' h; rw [(checked_spec h).2.2]

theorem OO_pickOne {α : Type} (sample : Bool) (vals : List (Option α)) : OO (pickOne sample vals) := by
  unfold pickOne
  split
  · exact OO.fail _
  · split
    · apply OO.bind (OO_nextChoices _ _)
      intro is
      rcases is with _ | ⟨r, _ | ⟨r2, t⟩⟩
      · exact OO.fail _
      · simp only []
        cases hv : vals[r]? with
        | none => exact OO.fail _
        | some o =>
          cases o with
          | none => exact OO.fail _
          | some a => exact OO.pure _
      · exact OO.fail _
    · apply OO.bind (OO_nextIdx _ _)
      intro r
      cases nthSome vals r with
      | none => exact OO.fail _
      | some a => exact OO.pure _

theorem OO_mergeNext (k : Nat) (dist srt : Bool) (lists : List (Option (List Nat))) :
    ∀ (steps index attempts : Nat) (results : List Nat), OO (mergeNext k dist srt lists steps index attempts results) := by
  intro steps
  induction steps with
  | zero => intro index attempts results; simp only [mergeNext]; exact OO.fail _
  | succ n ih =>
    intro index attempts results
    simp only [mergeNext]
    split
    · exact OO.pure _
    · split
      · exact OO.pure _
      · apply OO.bind (OO_nextChoices _ _)
        intro is
        rcases is with _ | ⟨r, _ | ⟨r2, t⟩⟩
        · exact OO.fail _
        · simp only []
          cases hl : lists[r]? with
          | none => exact OO.fail _
          | some o =>
            cases o with
            | none => exact OO.fail _
            | some l =>
              simp only []
              cases hd : l[index]? with
              | none => exact OO.fail _
              | some decision =>
                simp only []
                split
                · exact ih _ _ _
                · exact ih _ _ _
        · exact OO.fail _

theorem OO_mergeMulti (k : Nat) (dist srt : Bool) (lists : List (Option (List Nat))) :
    OO (mergeMulti k dist srt lists) := by
  unfold mergeMulti
  split
  · exact OO.fail _
  · apply OO.bind (OO_mergeNext _ _ _ _ _ _ _ _)
    intro res
    cases res with
    | some r => exact OO.pure _
    | none =>
      simp only []
      apply OO.bind (OO_nextChoices _ _)
      intro is
      rcases is with _ | ⟨r, _ | ⟨r2, t⟩⟩
      · exact OO.fail _
      · simp only []
        cases hl : lists[r]? with
        | none => exact OO.fail _
        | some o =>
          cases o with
          | none => exact OO.fail _
          | some l => exact OO.pure _
      · exact OO.fail _

theorem OO_mergeDna (sample : Bool) : ∀ (fuel : Nat) (g : GSpec) (ps : List (Option DNA)),
    OO (mergeDna sample fuel g ps) := by
  intro fuel
  induction fuel with
  | zero => intro g ps; simp only [mergeDna]; exact OO.fail _
  | succ f ih =>
    intro g ps
    cases g with
    | space es =>
      simp only [mergeDna]
      exact OO.bind (OO_forEachM _ (fun je => ih _ _) _) (fun ds => OO.pure _)
    | float lo hi =>
      simp only [mergeDna]
      exact OO.bind (OO_pickOne _ _) (fun v => OO.pure _)
    | choices k cands dist srt =>
      simp only [mergeDna]
      have tail : ∀ res : List Nat, OO (do
          let ds ← forEachM (fun (iv : Nat × Nat) =>
                match cands[iv.2]? with
                | some c => mergeDna sample f c (ps.map (below iv.1 iv.2))
                | none => fail .desync) (enumFrom' 0 res)
          Pure.pure (DNA.choices (mkSubs 0 res ds)) : M DNA) := by
        intro res
        refine OO.bind (OO_forEachM _ (fun iv => ?_) _) (fun ds => OO.pure _)
        cases cands[iv.2]? with
        | none => exact OO.fail _
        | some c => exact ih _ _
      split
      · exact OO.bind (OO_pickOne _ _) (fun v => tail [v])
      · exact OO.bind (OO_mergeMulti _ _ _ _) tail

theorem OO_kpointCuts (k len : Nat) : OO (kpointCuts k len) := by
  unfold kpointCuts
  split
  · exact OO.bind (OO_nextSample _ _) (fun is => OO.pure _)
  · exact OO.pure _

theorem OO_segCross (g : GSpec) (cuts : List Nat) (x y : DNA) : OO (segCross g cuts x y) := by
  simp only [segCross]
  split
  · exact OO.fail _
  · exact OO.bind (OO_checked _ _) (fun d1 => OO.bind (OO_checked _ _) (fun d2 => OO.pure _))

theorem recPointWise_fresh (sample : Bool) (fuel : Nat) (g : GSpec) (pop : Pop) (st : St) (out : Pop) (st' : St)
    (h : recPointWise sample fuel g pop st = .ok (out, st')) :
    st.nextUid ≤ st'.nextUid ∧ ∀ y ∈ out, st.nextUid ≤ y.uid ∧ y.uid < st'.nextUid := by
  simp only [recPointWise] at h
  split at h
  · rw [pure_ok] at h
    obtain ⟨rfl, rfl⟩ := h
    exact ⟨Nat.le_refl _, by intro y hy; simp at hy⟩
  · split at h
    · exact ((fail_ok _ _ _).mp h).elim
    · rw [bind_ok] at h
      obtain ⟨d, s1, h1, h2⟩ := h
      rw [bind_ok] at h2
      obtain ⟨d', s2, h3, h4⟩ := h2
      rw [bind_ok] at h4
      obtain ⟨c, s3, h5, h6⟩ := h4
      rw [pure_ok] at h6
      obtain ⟨rfl, rfl⟩ := h6
      have e1 := OO_mergeDna sample fuel g _ st d s1 h1
      have e2 := OO_checked g d s1 d' s2 h3
      obtain ⟨_, hu, hn⟩ := mkChild_spec h5
      refine ⟨by omega, ?_⟩
      intro y hy
      simp only [List.mem_singleton] at hy
      subst hy
      omega

theorem recSegment_fresh (g : GSpec) (cutsOf : Nat → M (List Nat)) (hc : ∀ n, OO (cutsOf n))
    (pop : Pop) (st : St) (out : Pop) (st' : St)
    (h : recSegment g cutsOf pop st = .ok (out, st')) :
    st.nextUid ≤ st'.nextUid ∧ ∀ y ∈ out, st.nextUid ≤ y.uid ∧ y.uid < st'.nextUid := by
  unfold recSegment at h
  split at h
  · rename_i x y
    split at h
    · exact ((fail_ok _ _ _).mp h).elim
    · rw [bind_ok] at h
      obtain ⟨cuts, s1, h1, h2⟩ := h
      rw [bind_ok] at h2
      obtain ⟨⟨d1, d2⟩, s2, h3, h4⟩ := h2
      simp only [] at h4
      rw [bind_ok] at h4
      obtain ⟨c1, s3, h5, h6⟩ := h4
      rw [bind_ok] at h6
      obtain ⟨c2, s4, h7, h8⟩ := h6
      rw [pure_ok] at h8
      obtain ⟨rfl, rfl⟩ := h8
      have e1 := hc _ st cuts s1 h1
      have e2 := OO_segCross g cuts x.dna y.dna s1 _ s2 h3
      obtain ⟨_, hu1, hn1⟩ := mkChild_spec h5
      obtain ⟨_, hu2, hn2⟩ := mkChild_spec h7
      refine ⟨by omega, ?_⟩
      intro z hz
      simp only [List.mem_cons, List.mem_nil_iff, or_false] at hz
      rcases hz with rfl | rfl <;> omega
  · exact ((fail_ok _ _ _).mp h).elim

end Pg.C14
