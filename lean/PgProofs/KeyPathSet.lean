/-
  C10 — helper lemmas about the `KeyPathSet` trie model: association lists, the invariant, the
  abstraction `has` (characteristic function of the represented set), refinement of the operations.
-/
import PgModel.KeyPathSet
namespace Pg.C10

/-! ### Association lists -/
namespace Assoc
variable {α : Type}

theorem lookup_set (l : List (Key × α)) (k k' : Key) (v : α) :
    lookup (set l k v) k' = if k = k' then some v else lookup l k' := by
  induction l with
  | nil => simp [set, lookup]
  | cons kv rest ih =>
    obtain ⟨k0, v0⟩ := kv
    simp only [set]
    by_cases h0 : k0 = k
    · subst h0
      simp only [if_true, lookup]
      by_cases h1 : k0 = k' <;> simp [h1]
    · simp only [h0, if_false, lookup, ih]
      by_cases h1 : k0 = k'
      · subst h1
        have : ¬ k = k0 := fun e => h0 e.symm
        simp [this]
      · simp [h1]

theorem hasKey_set (l : List (Key × α)) (k k' : Key) (v : α) :
    hasKey (set l k v) k' = (decide (k = k') || hasKey l k') := by
  unfold hasKey
  rw [lookup_set]
  by_cases h : k = k' <;> simp [h]

/-- keys are pairwise distinct (always true of a Python dict). -/
def nodup : List (Key × α) → Bool
  | [] => true
  | (k, _) :: rest => !hasKey rest k && nodup rest

theorem lookup_erase (l : List (Key × α)) (hn : nodup l = true) (k k' : Key) :
    lookup (erase l k) k' = if k = k' then none else lookup l k' := by
  induction l with
  | nil => simp [erase, lookup]
  | cons kv rest ih =>
    obtain ⟨k0, v0⟩ := kv
    simp only [nodup, Bool.and_eq_true, Bool.not_eq_true'] at hn
    simp only [erase]
    by_cases h0 : k0 = k
    · subst h0
      simp only [if_true, lookup]
      by_cases h1 : k0 = k'
      · subst h1
        have := hn.1
        unfold hasKey at this
        cases hl : lookup rest k0 with
        | none => simp
        | some v => rw [hl] at this; simp at this
      · simp [h1]
    · simp only [h0, if_false, lookup, ih hn.2]
      by_cases h1 : k0 = k'
      · subst h1
        have : ¬ k = k0 := fun e => h0 e.symm
        simp [this]
      · simp [h1]

theorem hasKey_erase (l : List (Key × α)) (hn : nodup l = true) (k k' : Key) :
    hasKey (erase l k) k' = (!decide (k = k') && hasKey l k') := by
  unfold hasKey
  rw [lookup_erase l hn]
  by_cases h : k = k' <;> simp [h]

theorem nodup_set (l : List (Key × α)) (hn : nodup l = true) (k : Key) (v : α) :
    nodup (set l k v) = true := by
  induction l with
  | nil => simp [set, nodup, hasKey, lookup]
  | cons kv rest ih =>
    obtain ⟨k0, v0⟩ := kv
    simp only [nodup, Bool.and_eq_true, Bool.not_eq_true'] at hn
    simp only [set]
    by_cases h0 : k0 = k
    · subst h0
      simp [nodup, hn.1, hn.2]
    · simp only [h0, if_false, nodup, Bool.and_eq_true, Bool.not_eq_true', ih hn.2, and_true]
      rw [hasKey_set]
      have : ¬ k = k0 := fun e => h0 e.symm
      simp [this, hn.1]

theorem nodup_erase (l : List (Key × α)) (hn : nodup l = true) (k : Key) :
    nodup (erase l k) = true := by
  induction l with
  | nil => simp [erase, nodup]
  | cons kv rest ih =>
    obtain ⟨k0, v0⟩ := kv
    simp only [nodup, Bool.and_eq_true, Bool.not_eq_true'] at hn
    simp only [erase]
    by_cases h0 : k0 = k
    · subst h0
      simp [hn.2]
    · simp only [h0, if_false, nodup, Bool.and_eq_true, Bool.not_eq_true', ih hn.2, and_true]
      rw [hasKey_erase rest hn.2]
      simp [hn.1]

theorem set_ne_nil (l : List (Key × α)) (k : Key) (v : α) : (set l k v).isEmpty = false := by
  cases l with
  | nil => rfl
  | cons kv rest =>
    obtain ⟨k0, v0⟩ := kv
    simp only [set]
    split <;> rfl

theorem lookup_isSome_of_mem (l : List (Key × α)) (k : Key) (v : α) (h : (k, v) ∈ l) :
    (lookup l k).isSome = true := by
  induction l with
  | nil => cases h
  | cons kv rest ih =>
    obtain ⟨k0, v0⟩ := kv
    simp only [lookup]
    by_cases h0 : k0 = k
    · simp [h0]
    · simp only [h0, if_false]
      rcases List.mem_cons.mp h with h | h
      · cases h; exact absurd rfl h0
      · exact ih h

theorem isEmpty_of_lookup_none (l : List (Key × α)) (h : ∀ k, lookup l k = none) : l.isEmpty = true := by
  cases l with
  | nil => rfl
  | cons kv rest =>
    obtain ⟨k0, v0⟩ := kv
    have := h k0
    simp [lookup] at this

end Assoc

/-! ### Invariant and abstraction -/

def Trie.isMark : Trie → Bool
  | .mark => true
  | .node _ => false

namespace Trie

mutual
  /-- The representation invariant of a `dict` node: distinct keys; `'$'` maps to `True`; every
  other key maps to a *non-empty* well-formed dict (no dead branches). -/
  def wf : Trie → Bool
    | .mark => false
    | .node kids => wfKids kids
  def wfKids : Kids → Bool
    | [] => true
    | (k, v) :: rest =>
      !Assoc.hasKey rest k && (if k = dollar then v.isMark else (wf v && v.truthy)) && wfKids rest
end

/-- The set a trie represents, as its characteristic function on paths. -/
def has : Trie → Path → Bool
  | .mark, _ => false
  | .node kids, [] => Assoc.hasKey kids dollar
  | .node kids, k :: ks =>
    match Assoc.lookup kids k with
    | none => false
    | some c => has c ks

end Trie

/-- No key of the path is the string `'$'` (F19: such keys collide with the end marker). -/
def dollarFree (p : Path) : Bool := p.all (fun k => k != dollar)

namespace Trie

theorem wfKids_nodup : ∀ kids : Kids, wfKids kids = true → Assoc.nodup kids = true := by
  intro kids
  induction kids with
  | nil => intro _; rfl
  | cons kv rest ih =>
    obtain ⟨k, v⟩ := kv
    intro h
    simp only [wfKids, Bool.and_eq_true, Bool.not_eq_true'] at h
    simp [Assoc.nodup, h.1.1, ih h.2]

/-- what `wfKids` says about each entry, through `lookup`. -/
theorem wfKids_lookup : ∀ (kids : Kids), wfKids kids = true → ∀ k v, Assoc.lookup kids k = some v →
    (if k = dollar then v.isMark = true else (wf v = true ∧ v.truthy = true)) := by
  intro kids
  induction kids with
  | nil => intro _ k v h; simp [Assoc.lookup] at h
  | cons kv rest ih =>
    obtain ⟨k0, v0⟩ := kv
    intro h k v hl
    simp only [wfKids, Bool.and_eq_true, Bool.not_eq_true'] at h
    simp only [Assoc.lookup] at hl
    by_cases h0 : k0 = k
    · subst h0
      simp only [if_true, Option.some.injEq] at hl
      subst hl
      have := h.1.2
      split at this
      · rename_i hd; simp [hd, this]
      · rename_i hd; simp only [hd, if_false]; simpa using this
    · simp only [h0, if_false] at hl
      exact ih h.2 k v hl

/-- `wfKids` from its `lookup` characterisation. -/
theorem wfKids_of_lookup : ∀ (kids : Kids), Assoc.nodup kids = true →
    (∀ k v, Assoc.lookup kids k = some v →
      (if k = dollar then v.isMark = true else (wf v = true ∧ v.truthy = true))) →
    wfKids kids = true := by
  intro kids
  induction kids with
  | nil => intro _ _; rfl
  | cons kv rest ih =>
    obtain ⟨k0, v0⟩ := kv
    intro hn h
    simp only [Assoc.nodup, Bool.and_eq_true, Bool.not_eq_true'] at hn
    simp only [wfKids, Bool.and_eq_true, Bool.not_eq_true']
    refine ⟨⟨hn.1, ?_⟩, ?_⟩
    · have := h k0 v0 (by simp [Assoc.lookup])
      split
      · rename_i hd; simpa [hd] using this
      · rename_i hd; simp only [hd, if_false] at this; simp [this.1, this.2]
    · apply ih hn.2
      intro k v hl
      apply h k v
      simp only [Assoc.lookup]
      by_cases h0 : k0 = k
      · subst h0
        have := hn.1
        unfold Assoc.hasKey at this
        rw [hl] at this
        simp at this
      · simp [h0, hl]

theorem wf_node_lookup {kids : Kids} (h : wf (.node kids) = true) {k : Key} {v : Trie}
    (hk : k ≠ dollar) (hl : Assoc.lookup kids k = some v) :
    ∃ kids', v = .node kids' ∧ wf v = true ∧ v.truthy = true := by
  have := wfKids_lookup kids h k v hl
  simp only [hk, if_false] at this
  cases v with
  | mark => simp [wf] at this
  | node kids' => exact ⟨kids', rfl, this.1, this.2⟩

theorem dollarFree_cons (k : Key) (ks : Path) :
    dollarFree (k :: ks) = true ↔ k ≠ dollar ∧ dollarFree ks = true := by
  simp [dollarFree]

/-- `__contains__` never raises on a well-formed trie and a `'$'`-free path, and computes `has`. -/
theorem contains_eq_has : ∀ (p : Path) (t : Trie), wf t = true → dollarFree p = true →
    contains t p = .ok (has t p) := by
  intro p
  induction p with
  | nil =>
    intro t h _
    cases t with
    | mark => simp [wf] at h
    | node kids => rfl
  | cons k ks ih =>
    intro t h hp
    rw [dollarFree_cons] at hp
    cases t with
    | mark => simp [wf] at h
    | node kids =>
      simp only [contains, has]
      cases hl : Assoc.lookup kids k with
      | none => rfl
      | some c =>
        obtain ⟨kids', rfl, hw, _⟩ := wf_node_lookup h hp.1 hl
        exact ih _ hw hp.2

/-! ### add -/

theorem wf_set_child {kids : Kids} (h : wf (.node kids) = true) {k : Key} (hk : k ≠ dollar)
    {c : Trie} (hc : wf c = true) (ht : c.truthy = true) : wf (.node (Assoc.set kids k c)) = true := by
  apply wfKids_of_lookup _ (Assoc.nodup_set kids (wfKids_nodup kids h) k c)
  intro k' v hl
  rw [Assoc.lookup_set] at hl
  by_cases hkk : k = k'
  · subst hkk
    simp only [if_true, Option.some.injEq] at hl
    subst hl
    simp [hk, hc, ht]
  · simp only [hkk, if_false] at hl
    exact wfKids_lookup kids h k' v hl

theorem wf_set_dollar {kids : Kids} (h : wf (.node kids) = true) :
    wf (.node (Assoc.set kids dollar .mark)) = true := by
  apply wfKids_of_lookup _ (Assoc.nodup_set kids (wfKids_nodup kids h) dollar .mark)
  intro k' v hl
  rw [Assoc.lookup_set] at hl
  by_cases hkk : dollar = k'
  · subst hkk
    simp only [if_true, Option.some.injEq] at hl
    subst hl
    simp [isMark]
  · simp only [hkk, if_false] at hl
    exact wfKids_lookup kids h k' v hl

theorem wf_empty : wf empty = true := rfl

/-- Specification of `add` (without `include_intermediate`) on a well-formed trie or the empty
dict freshly inserted for a new key. -/
theorem add_spec : ∀ (p : Path) (t : Trie), wf t = true → dollarFree p = true →
    ∃ t', add false t p = .ok (t', !has t p) ∧ wf t' = true ∧ t'.truthy = true ∧
      ∀ q, dollarFree q = true → has t' q = (decide (q = p) || has t q) := by
  intro p
  induction p with
  | nil =>
    intro t h _
    cases t with
    | mark => simp [wf] at h
    | node kids =>
      simp only [add, has]
      by_cases hd : Assoc.hasKey kids dollar = true
      · refine ⟨.node kids, by simp [hd], h, ?_, ?_⟩
        · unfold Assoc.hasKey at hd
          cases kids with
          | nil => simp [Assoc.lookup] at hd
          | cons _ _ => rfl
        · intro q _
          cases q with
          | nil => simp [has, hd]
          | cons a q => simp
      · have hd' : Assoc.hasKey kids dollar = false := by simpa using hd
        refine ⟨.node (Assoc.set kids dollar .mark), by simp [hd'], wf_set_dollar h, ?_, ?_⟩
        · simp [truthy, Assoc.set_ne_nil]
        · intro q hq
          cases q with
          | nil => simp [has, Assoc.hasKey_set]
          | cons a q =>
            rw [dollarFree_cons] at hq
            have : ¬ dollar = a := fun e => hq.1 e.symm
            simp [has, Assoc.lookup_set, this]
  | cons k ks ih =>
    intro t h hp
    rw [dollarFree_cons] at hp
    cases t with
    | mark => simp [wf] at h
    | node kids =>
      simp only [add, has]
      cases hl : Assoc.lookup kids k with
      | some c =>
        obtain ⟨kids', rfl, hw, _⟩ := wf_node_lookup h hp.1 hl
        obtain ⟨c', hadd, hw', ht', hhas⟩ := ih _ hw hp.2
        refine ⟨.node (Assoc.set kids k c'), by simp [hadd], wf_set_child h hp.1 hw' ht', ?_, ?_⟩
        · simp [truthy, Assoc.set_ne_nil]
        · intro q hq
          cases q with
          | nil =>
            simp only [has, Assoc.hasKey_set]
            have : ¬ k = dollar := hp.1
            simp [this]
          | cons a q =>
            rw [dollarFree_cons] at hq
            simp only [has, Assoc.lookup_set]
            by_cases hka : k = a
            · subst hka
              simp only [if_true, hl, hhas q hq.2]
              simp
            · have : ¬ a = k := fun e => hka e.symm
              simp [hka, this]
      | none =>
        simp only [Bool.false_eq_true, if_false]
        have hl1 : Assoc.lookup (Assoc.set kids k empty) k = some empty := by
          rw [Assoc.lookup_set]; simp
        obtain ⟨c', hadd, hw', ht', hhas⟩ := ih empty wf_empty hp.2
        have hset : Assoc.set (Assoc.set kids k empty) k c' = Assoc.set kids k c' := by
          clear hl1 hadd hhas hl h
          induction kids with
          | nil => simp [Assoc.set]
          | cons kv rest ihk =>
            obtain ⟨k0, v0⟩ := kv
            simp only [Assoc.set]
            by_cases h0 : k0 = k
            · simp [h0, Assoc.set]
            · simp [h0, Assoc.set, ihk]
        refine ⟨.node (Assoc.set kids k c'), ?_, wf_set_child h hp.1 hw' ht', ?_, ?_⟩
        · simp only [hl1, hadd, hset]
          simp [empty]
          cases ks <;> simp [has, Assoc.hasKey, Assoc.lookup]
        · simp [truthy, Assoc.set_ne_nil]
        · intro q hq
          cases q with
          | nil =>
            simp only [has, Assoc.hasKey_set]
            have : ¬ k = dollar := hp.1
            simp [this]
          | cons a q =>
            rw [dollarFree_cons] at hq
            simp only [has, Assoc.lookup_set]
            by_cases hka : k = a
            · subst hka
              simp only [if_true, hl, hhas q hq.2]
              cases q <;> simp [has, empty, Assoc.hasKey, Assoc.lookup]
            · have : ¬ a = k := fun e => hka e.symm
              simp [hka, this]

/-! ### remove -/

theorem has_of_not_truthy {t : Trie} (h : wf t = true) (ht : t.truthy = false) (q : Path) : has t q = false := by
  cases t with
  | mark => simp [wf] at h
  | node kids =>
    cases kids with
    | nil => cases q <;> simp [has, Assoc.hasKey, Assoc.lookup]
    | cons _ _ => simp [truthy] at ht

theorem wf_erase {kids : Kids} (h : wf (.node kids) = true) (k : Key) :
    wf (.node (Assoc.erase kids k)) = true := by
  have hn := wfKids_nodup kids h
  apply wfKids_of_lookup _ (Assoc.nodup_erase kids hn k)
  intro k' v hl
  rw [Assoc.lookup_erase kids hn] at hl
  by_cases hkk : k = k'
  · simp [hkk] at hl
  · simp only [hkk, if_false] at hl
    exact wfKids_lookup kids h k' v hl

theorem remove_spec : ∀ (p : Path) (t : Trie), wf t = true → dollarFree p = true →
    ∃ t', remove t p = .ok (t', has t p) ∧ wf t' = true ∧
      ∀ q, dollarFree q = true → has t' q = (!decide (q = p) && has t q) := by
  intro p
  induction p with
  | nil =>
    intro t h _
    cases t with
    | mark => simp [wf] at h
    | node kids =>
      have hn := wfKids_nodup kids h
      simp only [remove, has]
      by_cases hd : Assoc.hasKey kids dollar = true
      · refine ⟨.node (Assoc.erase kids dollar), by simp [hd], wf_erase h dollar, ?_⟩
        intro q hq
        cases q with
        | nil => simp [has, Assoc.hasKey_erase kids hn]
        | cons a q =>
          rw [dollarFree_cons] at hq
          have : ¬ dollar = a := fun e => hq.1 e.symm
          simp [has, Assoc.lookup_erase kids hn, this]
      · have hd' : Assoc.hasKey kids dollar = false := by simpa using hd
        refine ⟨.node kids, by simp [hd'], h, ?_⟩
        intro q _
        cases q with
        | nil => simp [has, hd']
        | cons a q => simp
  | cons k ks ih =>
    intro t h hp
    rw [dollarFree_cons] at hp
    cases t with
    | mark => simp [wf] at h
    | node kids =>
      have hn := wfKids_nodup kids h
      simp only [remove, has]
      cases hl : Assoc.lookup kids k with
      | none =>
        refine ⟨.node kids, rfl, h, ?_⟩
        intro q _
        by_cases hq : q = k :: ks
        · subst hq; simp [has, hl]
        · simp [hq]
      | some c =>
        obtain ⟨kids', rfl, hw, htr⟩ := wf_node_lookup h hp.1 hl
        obtain ⟨c', hrem, hw', hhas⟩ := ih _ hw hp.2
        simp only [hrem]
        cases hb : has (.node kids') ks with
        | false =>
          refine ⟨.node kids, rfl, h, ?_⟩
          intro q _
          by_cases hq : q = k :: ks
          · subst hq; simp [has, hl, hb]
          · simp [hq]
        | true =>
          by_cases hct : c'.truthy = true
          · refine ⟨.node (Assoc.set kids k c'), by simp [hct], wf_set_child h hp.1 hw' hct, ?_⟩
            intro q hq
            cases q with
            | nil =>
              have : ¬ k = dollar := hp.1
              simp [has, Assoc.hasKey_set, this]
            | cons a q =>
              rw [dollarFree_cons] at hq
              simp only [has, Assoc.lookup_set]
              by_cases hka : k = a
              · subst hka
                simp only [if_true, hl, hhas q hq.2]
                simp
              · have : ¬ a = k := fun e => hka e.symm
                simp [hka, this]
          · have hct' : c'.truthy = false := by simpa using hct
            refine ⟨.node (Assoc.erase kids k), by simp [hct'], wf_erase h k, ?_⟩
            intro q hq
            cases q with
            | nil =>
              have : ¬ k = dollar := hp.1
              simp [has, Assoc.hasKey_erase kids hn, this]
            | cons a q =>
              rw [dollarFree_cons] at hq
              simp only [has, Assoc.lookup_erase kids hn]
              by_cases hka : k = a
              · subst hka
                have h0 := hhas q hq.2
                rw [has_of_not_truthy hw' hct' q] at h0
                simp only [if_true, hl]
                simp only [List.cons.injEq, true_and]
                exact h0
              · have : ¬ a = k := fun e => hka e.symm
                simp [hka, this]

/-! ### rebase -/

/-- `q` minus the prefix `p`. -/
def dropPrefix : Path → Path → Option Path
  | q, [] => some q
  | [], _ :: _ => none
  | a :: q, b :: p => if a = b then dropPrefix q p else none

theorem rebaseAux_spec : ∀ (p : Path) (t : Trie), wf t = true → t.truthy = true → dollarFree p = true →
    wf (rebaseAux t p) = true ∧ (rebaseAux t p).truthy = true ∧
    ∀ q, has (rebaseAux t p) q = (match dropPrefix q p with
      | some r => has t r
      | none => false) := by
  intro p
  induction p with
  | nil =>
    intro t h ht _
    refine ⟨h, ht, ?_⟩
    intro q
    cases q <;> simp [rebaseAux, dropPrefix]
  | cons k ks ih =>
    intro t h ht hp
    rw [dollarFree_cons] at hp
    obtain ⟨hw, htr, hhas⟩ := ih t h ht hp.2
    refine ⟨?_, rfl, ?_⟩
    · simp only [rebaseAux, wf, wfKids, Assoc.hasKey, Assoc.lookup]
      simp [hp.1, hw, htr]
    · intro q
      cases q with
      | nil =>
        have : ¬ k = dollar := hp.1
        simp [rebaseAux, has, Assoc.hasKey, Assoc.lookup, dropPrefix, this]
      | cons a q =>
        simp only [rebaseAux, has, Assoc.lookup, dropPrefix]
        by_cases hka : k = a
        · subst hka; simp [hhas q]
        · have : ¬ a = k := fun e => hka e.symm
          simp [hka, this]

theorem rebase_spec (p : Path) (t : Trie) (h : wf t = true) (hp : dollarFree p = true) :
    wf (rebase t p) = true ∧
    ∀ q, has (rebase t p) q = (match dropPrefix q p with
      | some r => has t r
      | none => false) := by
  unfold rebase
  by_cases ht : t.truthy = true
  · simp only [ht, if_true]
    obtain ⟨a, _, c⟩ := rebaseAux_spec p t h ht hp
    exact ⟨a, c⟩
  · have ht' : t.truthy = false := by simpa using ht
    simp only [ht', Bool.false_eq_true, if_false]
    refine ⟨h, ?_⟩
    intro q
    rw [has_of_not_truthy h ht' q]
    cases dropPrefix q p with
    | none => rfl
    | some r => simp [has_of_not_truthy h ht' r]

/-! ### emptiness -/

theorem exists_has_of_truthy : ∀ (t : Trie), wf t = true → t.truthy = true →
    ∃ q, dollarFree q = true ∧ has t q = true
  | .mark, h, _ => by simp [wf] at h
  | .node [], _, ht => by simp [truthy] at ht
  | .node ((k, v) :: rest), h, _ => by
    have hl : Assoc.lookup ((k, v) :: rest) k = some v := by simp [Assoc.lookup]
    by_cases hk : k = dollar
    · subst hk
      exact ⟨[], rfl, by simp [has, Assoc.hasKey, Assoc.lookup]⟩
    · obtain ⟨kids', rfl, hw, htr⟩ := wf_node_lookup h hk hl
      obtain ⟨q, hq, hh⟩ := exists_has_of_truthy (.node kids') hw htr
      refine ⟨k :: q, by rw [dollarFree_cons]; exact ⟨hk, hq⟩, ?_⟩
      simp [has, Assoc.lookup, hh]

/-! ### difference / intersection / union -/

theorem size_lookup_lt : ∀ (kids : Kids) (k : Key) (v : Trie), Assoc.lookup kids k = some v →
    size v < size (.node kids) := by
  intro kids
  induction kids with
  | nil => intro k v h; simp [Assoc.lookup] at h
  | cons kv rest ih =>
    obtain ⟨k0, v0⟩ := kv
    intro k v h
    simp only [Assoc.lookup] at h
    simp only [size, sizeKids]
    by_cases h0 : k0 = k
    · simp only [h0, if_true, Option.some.injEq] at h
      subst h; omega
    · simp only [h0, if_false] at h
      have := ih k v h
      simp only [size] at this
      omega

/-- Shape of the result of a filtering pass over the target dict: each entry is kept, dropped or
has its value replaced, depending only on the entry (`f`). -/
def filterMapKids (f : Key → Trie → Option Trie) : Kids → Kids
  | [] => []
  | (k, v) :: rest =>
    match f k v with
    | some v' => (k, v') :: filterMapKids f rest
    | none => filterMapKids f rest

theorem lookup_filterMapKids (f : Key → Trie → Option Trie) : ∀ (kids : Kids), Assoc.nodup kids = true →
    ∀ k, Assoc.lookup (filterMapKids f kids) k = (match Assoc.lookup kids k with
      | some v => f k v
      | none => none) := by
  intro kids
  induction kids with
  | nil => intro _ k; simp [filterMapKids, Assoc.lookup]
  | cons kv rest ih =>
    obtain ⟨k0, v0⟩ := kv
    intro hn k
    simp only [Assoc.nodup, Bool.and_eq_true, Bool.not_eq_true'] at hn
    have hnone : k0 = k → Assoc.lookup rest k = none := by
      intro e; subst e
      have := hn.1
      unfold Assoc.hasKey at this
      cases hl : Assoc.lookup rest k0 with
      | none => rfl
      | some _ => rw [hl] at this; simp at this
    simp only [filterMapKids]
    cases hf : f k0 v0 with
    | some v' =>
      simp only [Assoc.lookup]
      by_cases h0 : k0 = k
      · subst h0; simp [hf]
      · simp [h0, ih hn.2 k]
    | none =>
      rw [ih hn.2 k]
      simp only [Assoc.lookup]
      by_cases h0 : k0 = k
      · subst h0; simp [hf, hnone rfl]
      · simp [h0]

theorem nodup_filterMapKids (f : Key → Trie → Option Trie) : ∀ (kids : Kids), Assoc.nodup kids = true →
    Assoc.nodup (filterMapKids f kids) = true := by
  intro kids
  induction kids with
  | nil => intro _; rfl
  | cons kv rest ih =>
    obtain ⟨k0, v0⟩ := kv
    intro hn
    have hn' := hn
    simp only [Assoc.nodup, Bool.and_eq_true, Bool.not_eq_true'] at hn
    simp only [filterMapKids]
    cases hf : f k0 v0 with
    | none => exact ih hn.2
    | some v' =>
      simp only [Assoc.nodup, Bool.and_eq_true, Bool.not_eq_true', ih hn.2, and_true]
      unfold Assoc.hasKey
      rw [lookup_filterMapKids f rest hn.2 k0]
      have := hn.1
      unfold Assoc.hasKey at this
      cases hl : Assoc.lookup rest k0 with
      | none => rfl
      | some _ => rw [hl] at this; simp at this

/-- what `_remove_same` does with one entry of the target. -/
def sameEntry (sk : Kids) (k : Key) (v : Trie) : Option Trie :=
  match Assoc.lookup sk k with
  | none => some v
  | some sv =>
    if k = dollar then none
    else if (removeSame v sv).truthy then some (removeSame v sv) else none

theorem removeSameKids_eq (sk : Kids) : ∀ tk : Kids, removeSameKids tk sk = filterMapKids (sameEntry sk) tk := by
  intro tk
  induction tk with
  | nil => rfl
  | cons kv rest ih =>
    obtain ⟨k, v⟩ := kv
    simp only [removeSameKids, filterMapKids, sameEntry]
    cases Assoc.lookup sk k with
    | none => simp [ih]
    | some sv =>
      by_cases hd : k = dollar
      · simp [hd, ih]
      · simp only [hd, if_false]
        by_cases ht : (removeSame v sv).truthy = true
        · simp [ht, ih]
        · simp [ht, ih]

/-- what `_remove_diff` does with one entry of the target. -/
def diffEntry (sk : Kids) (k : Key) (v : Trie) : Option Trie :=
  match Assoc.lookup sk k with
  | none => none
  | some sv =>
    if k = dollar then some v
    else if (removeDiff v sv).truthy then some (removeDiff v sv) else none

theorem removeDiffKids_eq (sk : Kids) : ∀ tk : Kids, removeDiffKids tk sk = filterMapKids (diffEntry sk) tk := by
  intro tk
  induction tk with
  | nil => rfl
  | cons kv rest ih =>
    obtain ⟨k, v⟩ := kv
    simp only [removeDiffKids, filterMapKids, diffEntry]
    cases Assoc.lookup sk k with
    | none => simp [ih]
    | some sv =>
      by_cases hd : k = dollar
      · simp [hd, ih]
      · simp only [hd, if_false]
        by_cases ht : (removeDiff v sv).truthy = true
        · simp [ht, ih]
        · simp [ht, ih]

theorem removeSame_wf : ∀ (n : Nat) (t s : Trie), size t ≤ n → wf t = true → wf s = true →
    wf (removeSame t s) = true := by
  intro n
  induction n with
  | zero => intro t s hs; cases t <;> simp [size] at hs
  | succ n ih =>
    intro t s hsz ht hs
    cases t with
    | mark => simp [wf] at ht
    | node tk =>
      cases s with
      | mark => simp [wf] at hs
      | node sk =>
        have hn := wfKids_nodup tk ht
        simp only [removeSame, wf, removeSameKids_eq]
        apply wfKids_of_lookup _ (nodup_filterMapKids _ tk hn)
        intro k v' hl
        rw [lookup_filterMapKids _ tk hn] at hl
        cases hlt : Assoc.lookup tk k with
        | none => rw [hlt] at hl; simp at hl
        | some v =>
          rw [hlt] at hl
          simp only [sameEntry] at hl
          have hv := wfKids_lookup tk ht k v hlt
          cases hls : Assoc.lookup sk k with
          | none =>
            rw [hls] at hl
            simp only [Option.some.injEq] at hl
            subst hl; exact hv
          | some sv =>
            rw [hls] at hl
            by_cases hd : k = dollar
            · simp [hd] at hl
            · simp only [hd, if_false] at hl hv ⊢
              have hsv := wfKids_lookup sk hs k sv hls
              simp only [hd, if_false] at hsv
              by_cases htr : (removeSame v sv).truthy = true
              · simp only [htr, if_true, Option.some.injEq] at hl
                subst hl
                have hlt' := size_lookup_lt tk k v hlt
                exact ⟨ih v sv (by omega) hv.1 hsv.1, htr⟩
              · simp [htr] at hl

theorem removeDiff_wf : ∀ (n : Nat) (t s : Trie), size t ≤ n → wf t = true → wf s = true →
    wf (removeDiff t s) = true := by
  intro n
  induction n with
  | zero => intro t s hs; cases t <;> simp [size] at hs
  | succ n ih =>
    intro t s hsz ht hs
    cases t with
    | mark => simp [wf] at ht
    | node tk =>
      cases s with
      | mark => simp [wf] at hs
      | node sk =>
        have hn := wfKids_nodup tk ht
        simp only [removeDiff, wf, removeDiffKids_eq]
        apply wfKids_of_lookup _ (nodup_filterMapKids _ tk hn)
        intro k v' hl
        rw [lookup_filterMapKids _ tk hn] at hl
        cases hlt : Assoc.lookup tk k with
        | none => rw [hlt] at hl; simp at hl
        | some v =>
          rw [hlt] at hl
          simp only [diffEntry] at hl
          have hv := wfKids_lookup tk ht k v hlt
          cases hls : Assoc.lookup sk k with
          | none => rw [hls] at hl; simp at hl
          | some sv =>
            rw [hls] at hl
            by_cases hd : k = dollar
            · simp only [hd, if_true, Option.some.injEq] at hl hv ⊢
              subst hl; exact hv
            · simp only [hd, if_false] at hl hv ⊢
              have hsv := wfKids_lookup sk hs k sv hls
              simp only [hd, if_false] at hsv
              by_cases htr : (removeDiff v sv).truthy = true
              · simp only [htr, if_true, Option.some.injEq] at hl
                subst hl
                have hlt' := size_lookup_lt tk k v hlt
                exact ⟨ih v sv (by omega) hv.1 hsv.1, htr⟩
              · simp [htr] at hl

/-- `difference`: the represented set is the set difference. -/
theorem removeSame_has : ∀ (q : Path) (t s : Trie), wf t = true → wf s = true → dollarFree q = true →
    has (removeSame t s) q = (has t q && !has s q) := by
  intro q
  induction q with
  | nil =>
    intro t s ht hs _
    cases t with
    | mark => simp [wf] at ht
    | node tk =>
      cases s with
      | mark => simp [wf] at hs
      | node sk =>
        have hn := wfKids_nodup tk ht
        simp only [removeSame, has, Assoc.hasKey, removeSameKids_eq, lookup_filterMapKids _ tk hn]
        cases Assoc.lookup tk dollar with
        | none => simp
        | some v =>
          simp only [sameEntry]
          cases Assoc.lookup sk dollar <;> simp
  | cons a q ih =>
    intro t s ht hs hq
    rw [dollarFree_cons] at hq
    cases t with
    | mark => simp [wf] at ht
    | node tk =>
      cases s with
      | mark => simp [wf] at hs
      | node sk =>
        have hn := wfKids_nodup tk ht
        simp only [removeSame, has, removeSameKids_eq, lookup_filterMapKids _ tk hn]
        cases hlt : Assoc.lookup tk a with
        | none => simp
        | some v =>
          simp only [sameEntry]
          cases hls : Assoc.lookup sk a with
          | none => simp
          | some sv =>
            obtain ⟨vk, rfl, hvw, _⟩ := wf_node_lookup ht hq.1 hlt
            obtain ⟨svk, rfl, hsw, _⟩ := wf_node_lookup hs hq.1 hls
            simp only [hq.1, if_false]
            have hrec := ih _ _ hvw hsw hq.2
            by_cases htr : (removeSame (.node vk) (.node svk)).truthy = true
            · simp only [htr, if_true]
              exact hrec
            · have htr' : (removeSame (.node vk) (.node svk)).truthy = false := by simpa using htr
              simp only [htr', Bool.false_eq_true, if_false]
              rw [← hrec]
              exact (has_of_not_truthy (removeSame_wf _ _ _ (Nat.le_refl _) hvw hsw) htr' q).symm

/-- `intersection`: the represented set is the intersection. -/
theorem removeDiff_has : ∀ (q : Path) (t s : Trie), wf t = true → wf s = true → dollarFree q = true →
    has (removeDiff t s) q = (has t q && has s q) := by
  intro q
  induction q with
  | nil =>
    intro t s ht hs _
    cases t with
    | mark => simp [wf] at ht
    | node tk =>
      cases s with
      | mark => simp [wf] at hs
      | node sk =>
        have hn := wfKids_nodup tk ht
        simp only [removeDiff, has, Assoc.hasKey, removeDiffKids_eq, lookup_filterMapKids _ tk hn]
        cases Assoc.lookup tk dollar with
        | none => simp
        | some v =>
          simp only [diffEntry]
          cases Assoc.lookup sk dollar <;> simp
  | cons a q ih =>
    intro t s ht hs hq
    rw [dollarFree_cons] at hq
    cases t with
    | mark => simp [wf] at ht
    | node tk =>
      cases s with
      | mark => simp [wf] at hs
      | node sk =>
        have hn := wfKids_nodup tk ht
        simp only [removeDiff, has, removeDiffKids_eq, lookup_filterMapKids _ tk hn]
        cases hlt : Assoc.lookup tk a with
        | none => simp
        | some v =>
          simp only [diffEntry]
          cases hls : Assoc.lookup sk a with
          | none => simp
          | some sv =>
            obtain ⟨vk, rfl, hvw, _⟩ := wf_node_lookup ht hq.1 hlt
            obtain ⟨svk, rfl, hsw, _⟩ := wf_node_lookup hs hq.1 hls
            simp only [hq.1, if_false]
            have hrec := ih _ _ hvw hsw hq.2
            by_cases htr : (removeDiff (.node vk) (.node svk)).truthy = true
            · simp only [htr, if_true]
              exact hrec
            · have htr' : (removeDiff (.node vk) (.node svk)).truthy = false := by simpa using htr
              simp only [htr', Bool.false_eq_true, if_false]
              rw [← hrec]
              exact (has_of_not_truthy (removeDiff_wf _ _ _ (Nat.le_refl _) hvw hsw) htr' q).symm

/-- the value `_merge` stores under key `k` when the source has `sv` there. -/
def mergeEntry (tk : Kids) (k : Key) (sv : Trie) : Trie :=
  if k = dollar then sv
  else match Assoc.lookup tk k with
    | some tv => merge tv sv
    | none => sv

theorem mergeEntry_congr (tk tk' : Kids) (k : Key) (sv : Trie)
    (h : Assoc.lookup tk' k = Assoc.lookup tk k) : mergeEntry tk' k sv = mergeEntry tk k sv := by
  unfold mergeEntry
  rw [h]

theorem mergeKids_cons (tk : Kids) (k : Key) (v : Trie) (rest : Kids) :
    mergeKids tk ((k, v) :: rest) = mergeKids (Assoc.set tk k (mergeEntry tk k v)) rest := by
  simp only [mergeKids, mergeEntry]
  by_cases hd : k = dollar
  · simp [hd]
  · simp only [hd, if_false]
    cases Assoc.lookup tk k <;> rfl

theorem lookup_mergeKids : ∀ (sk : Kids), Assoc.nodup sk = true → ∀ (tk : Kids) (k : Key),
    Assoc.lookup (mergeKids tk sk) k = (match Assoc.lookup sk k with
      | none => Assoc.lookup tk k
      | some sv => some (mergeEntry tk k sv)) := by
  intro sk
  induction sk with
  | nil => intro _ tk k; simp [mergeKids, Assoc.lookup]
  | cons kv rest ih =>
    obtain ⟨k0, v0⟩ := kv
    intro hn tk k
    simp only [Assoc.nodup, Bool.and_eq_true, Bool.not_eq_true'] at hn
    rw [mergeKids_cons, ih hn.2]
    simp only [Assoc.lookup]
    by_cases h0 : k0 = k
    · subst h0
      have : Assoc.lookup rest k0 = none := by
        have := hn.1
        unfold Assoc.hasKey at this
        cases hl : Assoc.lookup rest k0 with
        | none => rfl
        | some _ => rw [hl] at this; simp at this
      simp [this, Assoc.lookup_set]
    · simp only [h0, if_false]
      have hlk : Assoc.lookup (Assoc.set tk k0 (mergeEntry tk k0 v0)) k = Assoc.lookup tk k := by
        rw [Assoc.lookup_set]; simp [h0]
      cases Assoc.lookup rest k with
      | none => exact hlk
      | some sv => simp only [mergeEntry_congr tk _ k sv hlk]

theorem nodup_mergeKids : ∀ (sk tk : Kids), Assoc.nodup tk = true → Assoc.nodup (mergeKids tk sk) = true := by
  intro sk
  induction sk with
  | nil => intro tk h; exact h
  | cons kv rest ih =>
    obtain ⟨k0, v0⟩ := kv
    intro tk h
    rw [mergeKids_cons]
    exact ih _ (Assoc.nodup_set tk h _ _)

theorem mergeKids_nonempty : ∀ (sk tk : Kids), (tk.isEmpty = false ∨ sk.isEmpty = false) →
    (mergeKids tk sk).isEmpty = false := by
  intro sk
  induction sk with
  | nil => intro tk h; rcases h with h | h
           · exact h
           · simp at h
  | cons kv rest ih =>
    obtain ⟨k0, v0⟩ := kv
    intro tk _
    rw [mergeKids_cons]
    exact ih _ (Or.inl (Assoc.set_ne_nil tk _ _))

theorem merge_wf : ∀ (n : Nat) (t s : Trie), size s ≤ n → wf t = true → wf s = true →
    wf (merge t s) = true := by
  intro n
  induction n with
  | zero => intro t s hs; cases s <;> simp [size] at hs
  | succ n ih =>
    intro t s hsz ht hs
    cases t with
    | mark => simp [wf] at ht
    | node tk =>
      cases s with
      | mark => simp [wf] at hs
      | node sk =>
        have hnt := wfKids_nodup tk ht
        have hns := wfKids_nodup sk hs
        simp only [merge, wf]
        apply wfKids_of_lookup _ (nodup_mergeKids sk tk hnt)
        intro k v' hl
        rw [lookup_mergeKids sk hns] at hl
        cases hls : Assoc.lookup sk k with
        | none =>
          rw [hls] at hl
          exact wfKids_lookup tk ht k v' hl
        | some sv =>
          rw [hls] at hl
          simp only [Option.some.injEq] at hl
          subst hl
          have hsv := wfKids_lookup sk hs k sv hls
          by_cases hd : k = dollar
          · simp only [hd, if_true, mergeEntry] at hsv ⊢
            exact hsv
          · simp only [hd, if_false, mergeEntry] at hsv ⊢
            cases hlt : Assoc.lookup tk k with
            | none => exact hsv
            | some tv =>
              have htv := wfKids_lookup tk ht k tv hlt
              simp only [hd, if_false] at htv
              have hlt' := size_lookup_lt sk k sv hls
              refine ⟨ih tv sv (by omega) htv.1 hsv.1, ?_⟩
              cases tv with
              | mark => simp [wf] at htv
              | node tvk =>
                cases sv with
                | mark => simp [wf] at hsv
                | node svk =>
                  simp only [merge, truthy, Bool.not_eq_true']
                  apply mergeKids_nonempty
                  right
                  simpa [truthy] using hsv.2

/-- `union` / `update`: the represented set is the union. -/
theorem merge_has : ∀ (q : Path) (t s : Trie), wf t = true → wf s = true → dollarFree q = true →
    has (merge t s) q = (has t q || has s q) := by
  intro q
  induction q with
  | nil =>
    intro t s ht hs _
    cases t with
    | mark => simp [wf] at ht
    | node tk =>
      cases s with
      | mark => simp [wf] at hs
      | node sk =>
        have hns := wfKids_nodup sk hs
        simp only [merge, has, Assoc.hasKey, lookup_mergeKids sk hns]
        cases Assoc.lookup sk dollar <;> simp
  | cons a q ih =>
    intro t s ht hs hq
    rw [dollarFree_cons] at hq
    cases t with
    | mark => simp [wf] at ht
    | node tk =>
      cases s with
      | mark => simp [wf] at hs
      | node sk =>
        have hns := wfKids_nodup sk hs
        simp only [merge, has, lookup_mergeKids sk hns]
        cases hls : Assoc.lookup sk a with
        | none => simp
        | some sv =>
          obtain ⟨svk, rfl, hsw, _⟩ := wf_node_lookup hs hq.1 hls
          simp only [mergeEntry, hq.1, if_false]
          cases hlt : Assoc.lookup tk a with
          | none => simp
          | some tv =>
            obtain ⟨tvk, rfl, htw, _⟩ := wf_node_lookup ht hq.1 hlt
            exact ih _ _ htw hsw hq.2

/-! ### iteration -/

/-- what one dict entry contributes to `has`. -/
def entryHas (k : Key) (v : Trie) : Path → Bool
  | [] => decide (k = dollar)
  | a :: r => decide (k = a) && has v r

theorem has_cons_kids (k : Key) (v : Trie) (rest : Kids) (hn : Assoc.hasKey rest k = false) (r : Path) :
    has (.node ((k, v) :: rest)) r = (entryHas k v r || has (.node rest) r) := by
  have hnone : Assoc.lookup rest k = none := by
    unfold Assoc.hasKey at hn
    cases hl : Assoc.lookup rest k with
    | none => rfl
    | some _ => rw [hl] at hn; simp at hn
  cases r with
  | nil =>
    simp only [has, Assoc.hasKey, Assoc.lookup, entryHas]
    by_cases hd : k = dollar <;> simp [hd]
  | cons a r =>
    simp only [has, Assoc.lookup, entryHas]
    by_cases hka : k = a
    · subst hka; simp [hnone]
    · simp [hka]

mutual
  /-- `__iter__` yields exactly the paths of the represented set. -/
  theorem mem_paths : ∀ (t : Trie) (pre q : Path), wf t = true →
      (q ∈ paths t pre ↔ ∃ r, q = pre ++ r ∧ dollarFree r = true ∧ has t r = true)
    | .mark, _, _, h => by simp [wf] at h
    | .node kids, pre, q, h => by
      simp only [paths]
      exact mem_pathsKids kids pre q h
  theorem mem_pathsKids : ∀ (kids : Kids) (pre q : Path), wfKids kids = true →
      (q ∈ pathsKids kids pre ↔ ∃ r, q = pre ++ r ∧ dollarFree r = true ∧ has (.node kids) r = true)
    | [], pre, q, _ => by
      simp only [pathsKids, List.not_mem_nil, false_iff]
      rintro ⟨r, _, _, hr⟩
      cases r <;> simp [has, Assoc.hasKey, Assoc.lookup] at hr
    | (k, v) :: rest, pre, q, h => by
      have h' := h
      simp only [wfKids, Bool.and_eq_true, Bool.not_eq_true'] at h'
      obtain ⟨⟨hnk, hkv⟩, hrest⟩ := h'
      simp only [pathsKids, List.mem_append]
      rw [mem_pathsKids rest pre q hrest]
      have hsplit : ∀ r, has (.node ((k, v) :: rest)) r = (entryHas k v r || has (.node rest) r) :=
        has_cons_kids k v rest hnk
      have hentry : (q ∈ (if k = dollar then [pre] else paths v (pre ++ [k]))) ↔
          ∃ r, q = pre ++ r ∧ dollarFree r = true ∧ entryHas k v r = true := by
        by_cases hd : k = dollar
        · simp only [hd, if_true, List.mem_singleton]
          constructor
          · intro e; exact ⟨[], by simp [e], rfl, by simp [entryHas]⟩
          · rintro ⟨r, hq, hdf, he⟩
            cases r with
            | nil => simpa using hq
            | cons a r =>
              rw [dollarFree_cons] at hdf
              simp only [entryHas, Bool.and_eq_true, decide_eq_true_eq] at he
              exact absurd he.1.symm hdf.1
        · simp only [hd, if_false] at hkv ⊢
          simp only [Bool.and_eq_true] at hkv
          rw [mem_paths v (pre ++ [k]) q hkv.1]
          constructor
          · rintro ⟨r, hq, hdf, hh⟩
            refine ⟨k :: r, by simp [hq], ?_, by simp [entryHas, hh]⟩
            rw [dollarFree_cons]; exact ⟨hd, hdf⟩
          · rintro ⟨r, hq, hdf, he⟩
            cases r with
            | nil => simp [entryHas, hd] at he
            | cons a r =>
              rw [dollarFree_cons] at hdf
              simp only [entryHas, Bool.and_eq_true, decide_eq_true_eq] at he
              obtain ⟨rfl, hh⟩ := he
              exact ⟨r, by simp [hq], hdf.2, hh⟩
      rw [hentry]
      constructor
      · rintro (⟨r, a, b, c⟩ | ⟨r, a, b, c⟩)
        · exact ⟨r, a, b, by rw [hsplit, c]; rfl⟩
        · exact ⟨r, a, b, by rw [hsplit, c]; simp⟩
      · rintro ⟨r, a, b, c⟩
        rw [hsplit, Bool.or_eq_true] at c
        rcases c with c | c
        · exact Or.inl ⟨r, a, b, c⟩
        · exact Or.inr ⟨r, a, b, c⟩
end

/-! ### has_prefix / subtree -/

theorem hasPrefix_spec : ∀ (p : Path) (t : Trie), wf t = true → dollarFree p = true →
    (t.truthy = true ∨ p ≠ []) →
    ∃ b, hasPrefix t p = .ok b ∧ (b = true ↔ ∃ r, dollarFree r = true ∧ has t (p ++ r) = true) := by
  intro p
  induction p with
  | nil =>
    intro t h _ ht
    rcases ht with ht | ht
    · refine ⟨true, by cases t <;> rfl, ?_⟩
      simp only [true_iff, List.nil_append]
      exact exists_has_of_truthy t h ht
    · exact absurd rfl ht
  | cons k ks ih =>
    intro t h hp _
    rw [dollarFree_cons] at hp
    cases t with
    | mark => simp [wf] at h
    | node kids =>
      simp only [hasPrefix]
      cases hl : Assoc.lookup kids k with
      | none =>
        refine ⟨false, rfl, ?_⟩
        simp only [Bool.false_eq_true, false_iff]
        rintro ⟨r, _, hr⟩
        simp [has, hl] at hr
      | some c =>
        obtain ⟨kids', rfl, hw, htr⟩ := wf_node_lookup h hp.1 hl
        obtain ⟨b, hb, hiff⟩ := ih _ hw hp.2 (Or.inl htr)
        refine ⟨b, hb, ?_⟩
        rw [hiff]
        simp [has, hl]

theorem subtree_spec : ∀ (p : Path) (t : Trie), wf t = true → dollarFree p = true →
    ∃ o, subtree t p = .ok o ∧
      (match o with
       | some t' => wf t' = true ∧ ∀ q, has t' q = has t (p ++ q)
       | none => ∀ q, has t (p ++ q) = false) := by
  intro p
  induction p with
  | nil => intro t h _; exact ⟨some t, by cases t <;> rfl, h, fun q => rfl⟩
  | cons k ks ih =>
    intro t h hp
    rw [dollarFree_cons] at hp
    cases t with
    | mark => simp [wf] at h
    | node kids =>
      simp only [subtree]
      cases hl : Assoc.lookup kids k with
      | none => exact ⟨none, rfl, fun q => by simp [has, hl]⟩
      | some c =>
        obtain ⟨kids', rfl, hw, _⟩ := wf_node_lookup h hp.1 hl
        obtain ⟨o, ho, hs⟩ := ih _ hw hp.2
        refine ⟨o, ho, ?_⟩
        cases o with
        | none => intro q; simpa [has, hl] using hs q
        | some t' => exact ⟨hs.1, fun q => by simpa [has, hl] using hs.2 q⟩

/-! ### `==` is extensional equality of the represented sets -/

theorem mem_iff_lookup {α : Type} : ∀ (l : List (Key × α)), Assoc.nodup l = true → ∀ k v,
    ((k, v) ∈ l ↔ Assoc.lookup l k = some v) := by
  intro l
  induction l with
  | nil => intro _ k v; simp [Assoc.lookup]
  | cons kv rest ih =>
    obtain ⟨k0, v0⟩ := kv
    intro hn k v
    simp only [Assoc.nodup, Bool.and_eq_true, Bool.not_eq_true'] at hn
    simp only [List.mem_cons, Prod.mk.injEq, Assoc.lookup]
    by_cases h0 : k0 = k
    · subst h0
      simp only [if_true, Option.some.injEq]
      constructor
      · rintro (⟨_, e⟩ | hm)
        · exact e.symm
        · have := Assoc.lookup_isSome_of_mem rest k0 v hm
          have h1 := hn.1
          unfold Assoc.hasKey at h1
          rw [h1] at this; cases this
      · intro e; exact Or.inl ⟨trivial, e.symm⟩
    · simp only [h0, if_false]
      rw [← ih hn.2 k v]
      constructor
      · rintro (⟨e, _⟩ | hm)
        · exact absurd e.symm h0
        · exact hm
      · intro hm; exact Or.inr hm

theorem subKids_iff : ∀ (a b : Kids), subKids a b = true ↔
    ∀ kv ∈ a, ∃ w, Assoc.lookup b kv.1 = some w ∧ sub kv.2 w = true := by
  intro a
  induction a with
  | nil => intro b; simp [subKids]
  | cons kv rest ih =>
    obtain ⟨k, v⟩ := kv
    intro b
    simp only [subKids, Bool.and_eq_true, ih b, List.mem_cons, forall_eq_or_imp]
    constructor
    · rintro ⟨h1, h2⟩
      refine ⟨?_, h2⟩
      cases hl : Assoc.lookup b k with
      | none => rw [hl] at h1; simp at h1
      | some w => rw [hl] at h1; exact ⟨w, rfl, h1⟩
    · rintro ⟨⟨w, hl, hs⟩, h2⟩
      exact ⟨by rw [hl]; exact hs, h2⟩

theorem sub_has : ∀ (q : Path) (a b : Trie), wf a = true → wf b = true → dollarFree q = true →
    sub a b = true → has a q = true → has b q = true := by
  intro q
  induction q with
  | nil =>
    intro a b ha hb _ hs hq
    cases a with
    | mark => simp [wf] at ha
    | node ak =>
      cases b with
      | mark => simp [wf] at hb
      | node bk =>
        simp only [sub, subKids_iff] at hs
        simp only [has, Assoc.hasKey] at hq ⊢
        cases hl : Assoc.lookup ak dollar with
        | none => rw [hl] at hq; cases hq
        | some v =>
          obtain ⟨w, hw, _⟩ := hs (dollar, v) ((mem_iff_lookup ak (wfKids_nodup ak ha) dollar v).mpr hl)
          simp only at hw
          rw [hw]; rfl
  | cons k ks ih =>
    intro a b ha hb hq hs hh
    rw [dollarFree_cons] at hq
    cases a with
    | mark => simp [wf] at ha
    | node ak =>
      cases b with
      | mark => simp [wf] at hb
      | node bk =>
        simp only [sub, subKids_iff] at hs
        simp only [has] at hh ⊢
        cases hl : Assoc.lookup ak k with
        | none => rw [hl] at hh; cases hh
        | some v =>
          rw [hl] at hh
          obtain ⟨w, hw, hsub⟩ := hs (k, v) ((mem_iff_lookup ak (wfKids_nodup ak ha) k v).mpr hl)
          simp only at hw hsub
          rw [hw]
          obtain ⟨_, rfl, hvw, _⟩ := wf_node_lookup ha hq.1 hl
          obtain ⟨_, rfl, hww, _⟩ := wf_node_lookup hb hq.1 hw
          exact ih _ _ hvw hww hq.2 hsub hh

theorem sub_of_has : ∀ (n : Nat) (a b : Trie), size a ≤ n → wf a = true → wf b = true →
    (∀ q, dollarFree q = true → has a q = true → has b q = true) → sub a b = true := by
  intro n
  induction n with
  | zero => intro a b hs; cases a <;> simp [size] at hs
  | succ n ih =>
    intro a b hsz ha hb himp
    cases a with
    | mark => simp [wf] at ha
    | node ak =>
      cases b with
      | mark => simp [wf] at hb
      | node bk =>
        simp only [sub, subKids_iff]
        intro kv hm
        obtain ⟨k, v⟩ := kv
        have hl := (mem_iff_lookup ak (wfKids_nodup ak ha) k v).mp hm
        have hv := wfKids_lookup ak ha k v hl
        by_cases hd : k = dollar
        · subst hd
          simp only [if_true] at hv
          have h1 : has (.node ak) [] = true := by simp [has, Assoc.hasKey, hl]
          have h2 := himp [] rfl h1
          simp only [has, Assoc.hasKey] at h2
          cases hlb : Assoc.lookup bk dollar with
          | none => rw [hlb] at h2; cases h2
          | some w =>
            have hwm := wfKids_lookup bk hb dollar w hlb
            simp only [if_true] at hwm
            refine ⟨w, rfl, ?_⟩
            cases v with
            | node _ => simp [isMark] at hv
            | mark => cases w with
              | node _ => simp [isMark] at hwm
              | mark => rfl
        · simp only [hd, if_false] at hv
          obtain ⟨vk, rfl, hvw, hvt⟩ := wf_node_lookup ha hd hl
          obtain ⟨q, hq, hhq⟩ := exists_has_of_truthy _ hvw hvt
          have h1 : has (.node ak) (k :: q) = true := by simp [has, hl, hhq]
          have h2 := himp (k :: q) (by rw [dollarFree_cons]; exact ⟨hd, hq⟩) h1
          simp only [has] at h2
          cases hlb : Assoc.lookup bk k with
          | none => rw [hlb] at h2; cases h2
          | some w =>
            obtain ⟨wk, rfl, hww, _⟩ := wf_node_lookup hb hd hlb
            refine ⟨_, rfl, ?_⟩
            have hlt := size_lookup_lt ak k _ hl
            apply ih _ _ (by omega) hvw hww
            intro q' hq' hh'
            have h3 : has (.node ak) (k :: q') = true := by simp [has, hl, hh']
            have h4 := himp (k :: q') (by rw [dollarFree_cons]; exact ⟨hd, hq'⟩) h3
            simpa [has, hlb] using h4

/-- `s1 == s2` (dict equality of the tries) iff the two sets have the same members. -/
theorem beq_iff (a b : Trie) (ha : wf a = true) (hb : wf b = true) :
    beq a b = true ↔ ∀ q, dollarFree q = true → has a q = has b q := by
  unfold beq
  rw [Bool.and_eq_true]
  constructor
  · rintro ⟨h1, h2⟩ q hq
    cases hx : has a q with
    | true => exact (sub_has q a b ha hb hq h1 hx).symm
    | false =>
      cases hy : has b q with
      | false => rfl
      | true => rw [sub_has q b a hb ha hq h2 hy] at hx; cases hx
  · intro h
    exact ⟨sub_of_has _ a b (Nat.le_refl _) ha hb (fun q hq hh => by rw [← h q hq]; exact hh),
           sub_of_has _ b a (Nat.le_refl _) hb ha (fun q hq hh => by rw [h q hq]; exact hh)⟩

end Trie
/-! ### Escaping of user keys (fix C10-F19) -/

theorem escKey_ne_dollar (k : Key) : escKey k ≠ dollar := by
  cases k with
  | i z => simp [escKey, dollar]
  | s s =>
    simp only [escKey]
    by_cases h : allDollars s = true
    · simp only [h, if_true, dollar]
      intro e
      injection e with e
      injection e with _ e
      subst e
      simp [allDollars] at h
    · simp only [h]
      intro e
      simp only [dollar] at e
      injection e with e
      subst e
      exact h (by decide)

theorem unescKey_escKey (k : Key) : unescKey (escKey k) = k := by
  cases k with
  | i z => rfl
  | s s =>
    simp only [escKey]
    by_cases h : allDollars s = true
    · simp [h, unescKey]
    · simp only [h]
      cases s with
      | nil => rfl
      | cons c rest =>
        simp only [unescKey]
        by_cases hc : c = '$' ∧ allDollars rest = true
        · exfalso
          apply h
          simp only [allDollars, List.isEmpty_cons, Bool.not_false, Bool.true_and, List.all_cons,
            Bool.and_eq_true, decide_eq_true_eq]
          refine ⟨hc.1, ?_⟩
          have := hc.2
          simp only [allDollars, Bool.and_eq_true] at this
          exact this.2
        · simp [hc]

theorem escKey_unescKey (k : Key) (h : k ≠ dollar) : escKey (unescKey k) = k := by
  cases k with
  | i z => rfl
  | s s =>
    cases s with
    | nil => rfl
    | cons c rest =>
      simp only [unescKey]
      by_cases hc : c = '$' ∧ allDollars rest = true
      · simp only [hc, and_self, if_true, escKey, hc.1]
      · simp only [hc, if_false, escKey]
        by_cases ha : allDollars (c :: rest) = true
        · exfalso
          simp only [allDollars, List.isEmpty_cons, Bool.not_false, Bool.true_and, List.all_cons,
            Bool.and_eq_true, decide_eq_true_eq] at ha
          cases rest with
          | nil => exact h (by rw [ha.1]; rfl)
          | cons d rest' =>
            apply hc
            refine ⟨ha.1, ?_⟩
            simp only [allDollars, List.isEmpty_cons, Bool.not_false, Bool.true_and]
            exact ha.2
        · simp [ha]

theorem escKey_injective (a b : Key) (h : escKey a = escKey b) : a = b := by
  rw [← unescKey_escKey a, ← unescKey_escKey b, h]

theorem escP_injective (p q : Path) (h : escP p = escP q) : p = q := by
  induction p generalizing q with
  | nil => cases q <;> simp [escP] at h ⊢
  | cons a p ih =>
    cases q with
    | nil => simp [escP] at h
    | cons b q =>
      simp only [escP, List.map_cons, List.cons.injEq] at h
      rw [escKey_injective a b h.1, ih q h.2]

theorem dollarFree_escP (p : Path) : dollarFree (escP p) = true := by
  unfold dollarFree escP
  rw [List.all_eq_true]
  intro k hk
  obtain ⟨k', _, rfl⟩ := List.mem_map.mp hk
  simpa using escKey_ne_dollar k'

theorem unescP_escP (p : Path) : unescP (escP p) = p := by
  unfold unescP escP
  rw [List.map_map]
  conv => rhs; rw [← List.map_id p]
  apply List.map_congr_left
  intro k _
  exact unescKey_escKey k

theorem escP_unescP (p : Path) (h : dollarFree p = true) : escP (unescP p) = p := by
  unfold unescP escP
  rw [List.map_map]
  conv => rhs; rw [← List.map_id p]
  apply List.map_congr_left
  intro k hk
  unfold dollarFree at h
  rw [List.all_eq_true] at h
  exact escKey_unescKey k (by simpa using h k hk)

theorem decide_escP_eq (p q : Path) : decide (escP q = escP p) = decide (q = p) := by
  by_cases h : q = p
  · subst h; simp
  · have : ¬ escP q = escP p := fun e => h (escP_injective q p e)
    simp [h, this]

end Pg.C10
