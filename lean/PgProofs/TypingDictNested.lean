/-
  C04: idempotence of `apply` for `Dict` specs with a schema NESTED to any depth (a field of a Dict
  may again be a Dict with a schema, …), on well-formed values: every dict reached through dict
  members has distinct keys (what every Python dict has).  `wfd` is preserved by `apply`, which is
  what lets the statement pass through the levels (`IdemOn`, PgProofs/SymTypedSchema.lean).
-/
import PgProofs.TypingDictIdem
namespace Pg.Typing
open Pg.C03

mutual
  /-- Every dict reached through dict members has distinct keys (lists / tuples are not descended:
  the specs of the class below never look inside them for a dict with a schema). -/
  def wfd : Val → Bool
    | .dict kvs => decide ((kvs.map (·.1)).Nodup) && wfdKvs kvs
    | _ => true
  def wfdKvs : List (String × Val) → Bool
    | [] => true
    | (_, v) :: r => wfd v && wfdKvs r
end

theorem wfdKvs_iff (kvs : List (String × Val)) : wfdKvs kvs = true ↔ ∀ kv ∈ kvs, wfd kv.2 = true := by
  induction kvs with
  | nil => simp [wfdKvs]
  | cons kv r ih =>
    obtain ⟨k, v⟩ := kv
    simp only [wfdKvs, Bool.and_eq_true, ih, List.mem_cons, forall_eq_or_imp]

theorem wfd_dict (kvs : List (String × Val)) :
    wfd (.dict kvs) = true ↔ (kvs.map (·.1)).Nodup ∧ ∀ kv ∈ kvs, wfd kv.2 = true := by
  simp only [wfd, Bool.and_eq_true, decide_eq_true_eq, wfdKvs_iff]

mutual
  /-- The class: the fragment `frag`, and Dicts with a schema (distinct keys) whose field specs are in
  the class again. -/
  def fragD : Spec → Bool
    | .dict (some fs) _ => distinctKeys (fieldKeySpecs fs) && fragDF fs
    | s => frag s
  def fragDF : List Field → Bool
    | [] => true
    | .mk _ s :: r => fragD s && fragDF r
end

mutual
  /-- The defaults are well-formed values (what the constructors store: Python values). -/
  def defOk : Spec → Bool
    | .dict (some fs) f => wfd f.default && defOkF fs
    | s => wfd s.flags.default
  def defOkF : List Field → Bool
    | [] => true
    | .mk _ s :: r => defOk s && defOkF r
end

/-! ### What `gate` can return -/

theorem gate_out (f : Flags) (p : Bool) (v v' : Val) (k : Val → R Val) (h : gate f p v k = .ok v') :
    v' = f.default ∨ v' = .missing ∨ v' = .none ∨ (Val.proper v ∧ k v = .ok v') := by
  unfold gate at h
  by_cases hf : f.frozen = true
  · simp only [hf, if_true] at h
    split at h
    · cases h
    · injection h with h; exact Or.inl h.symm
  · simp only [hf] at h
    by_cases hm : v.isMissing = true
    · simp only [hm, if_true] at h
      by_cases hp : p = true
      · simp [hp] at h; exact Or.inr (Or.inl h.symm)
      · simp [hp] at h
    · simp only [hm] at h
      by_cases hn : v.isNone = true
      · simp only [hn, if_true] at h
        by_cases hq : f.noneable = true
        · simp [hq] at h; exact Or.inr (Or.inr (Or.inl h.symm))
        · simp [hq] at h
      · simp only [hn] at h
        exact Or.inr (Or.inr (Or.inr ⟨⟨by simpa using hm, by simpa using hn⟩, h⟩))

theorem wfd_of_gate (f : Flags) (p : Bool) (v v' : Val) (k : Val → R Val) (hd : wfd f.default = true)
    (hk : Val.proper v → k v = .ok v' → wfd v' = true) (h : gate f p v k = .ok v') : wfd v' = true := by
  rcases gate_out f p v v' k h with e | e | e | ⟨hp, hk'⟩
  · rw [e]; exact hd
  · rw [e]; rfl
  · rw [e]; rfl
  · exact hk hp hk'

theorem typeCheck_wfd (env : Env) (vt : Option (List Ty)) (w w' : Val) (hq : wfd w = true)
    (h : typeCheck env vt w = .ok w') : wfd w' = true := by
  unfold typeCheck at h
  cases vt with
  | none => simp only at h; injection h with h; subst h; exact hq
  | some ts =>
    simp only at h
    split at h
    · injection h with h; subst h; exact hq
    · split at h
      · rename_i v'' hc
        injection h with h; subst h
        unfold convert at hc
        split at hc
        · cases w <;> simp at hc <;> subst hc <;> rfl
        · cases hc
      · cases h

theorem tc_chk_wfd (env : Env) (vt : Option (List Ty)) (chk : Val → R Val)
    (hchk : ∀ x r, chk x = .ok r → r = x) (w w' : Val) (hq : wfd w = true)
    (h : (typeCheck env vt w >>= chk) = .ok w') : wfd w' = true := by
  simp only [bind, Except.bind] at h
  cases ht : typeCheck env vt w with
  | error e => simp [ht] at h
  | ok w1 =>
    simp only [ht] at h
    have := hchk w1 w' h
    subst this
    exact typeCheck_wfd env vt w _ hq ht

/-- The fragment preserves `wfd`. -/
theorem apply_frag_wfd (env : Env) (p : Bool) (s : Spec) (hs : frag s = true)
    (hd : wfd s.flags.default = true) (v v' : Val) (hq : wfd v = true)
    (h : apply env s p v = .ok v') : wfd v' = true := by
  cases s with
  | any f =>
    simp only [apply, Spec.flags] at h hd
    exact wfd_of_gate f p v v' _ hd (fun _ hk => by injection hk with hk; subst hk; exact hq) h
  | bool f =>
    simp only [apply, Spec.flags] at h hd
    exact wfd_of_gate f p v v' _ hd (fun _ hk => typeCheck_wfd env _ v v' hq hk) h
  | int lo hi f =>
    simp only [apply, Spec.flags] at h hd
    exact wfd_of_gate f p v v' _ hd (fun _ hk =>
      tc_chk_wfd env _ _ (fun x r hr => rangeCheck_id _ _ x r hr) v v' hq hk) h
  | float lo hi f =>
    simp only [apply, Spec.flags] at h hd
    exact wfd_of_gate f p v v' _ hd (fun _ hk =>
      tc_chk_wfd env _ _ (fun x r hr => rangeCheck_id _ _ x r hr) v v' hq hk) h
  | str rx f =>
    simp only [apply, Spec.flags] at h hd
    refine wfd_of_gate f p v v' _ hd (fun _ hk => tc_chk_wfd env _ _ (fun x r hr => ?_) v v' hq hk) h
    split at hr
    · split at hr
      · injection hr with hr; exact hr.symm
      · cases hr
    · injection hr with hr; exact hr.symm
  | enum vals f =>
    simp only [apply, Spec.flags] at h hd
    refine wfd_of_gate f p v v' _ hd (fun _ hk => tc_chk_wfd env _ _ (fun x r hr => ?_) v v' hq hk) h
    split at hr
    · injection hr with hr; exact hr.symm
    · cases hr
  | obj c f =>
    simp only [apply, Spec.flags] at h hd
    refine wfd_of_gate f p v v' _ hd (fun _ hk => tc_chk_wfd env _ _ (fun x r hr => ?_) v v' hq hk) h
    split at hr
    · split at hr
      · cases hr
      · injection hr with hr; exact hr.symm
    · injection hr with hr; exact hr.symm
  | dict fields f =>
    cases fields with
    | some fs => simp [frag] at hs
    | none =>
      simp only [apply, Spec.flags] at h hd
      exact wfd_of_gate f p v v' _ hd (fun _ hk => typeCheck_wfd env _ v v' hq hk) h
  | union cands f => simp [frag] at hs
  | callable f => simp [frag] at hs
  | list elem mn mx f =>
    simp only [apply, Spec.flags] at h hd
    refine wfd_of_gate f p v v' _ hd (fun _ hk => ?_) h
    simp only [bind, Except.bind] at hk
    cases ht : typeCheck env (some [.list]) v with
    | error e => simp [ht] at hk
    | ok w1 =>
      simp only [ht] at hk
      cases w1 <;> simp only [] at hk <;> try (cases hk)
      rename_i xs
      cases hm : xs.mapM (fun x => apply env elem p x) with
      | error e => simp [hm] at hk
      | ok ys =>
        simp only [hm] at hk
        split at hk
        · injection hk with hk; subst hk; rfl
        · cases hk
  | tuple elems mn mx f =>
    simp only [apply, Spec.flags] at h hd
    refine wfd_of_gate f p v v' _ hd (fun _ hk => ?_) h
    simp only [bind, Except.bind] at hk
    cases ht : typeCheck env (some [.tuple]) v with
    | error e => simp [ht] at hk
    | ok w1 =>
      simp only [ht] at hk
      cases w1 <;> simp only [] at hk <;> try (cases hk)
      rename_i xs
      split at hk
      · split at hk
        · cases hk
        · cases hz : applyZip env elems p xs with
          | error e => simp [hz] at hk
          | ok ys => simp only [hz] at hk; injection hk with hk; subst hk; rfl
      · split at hk
        · cases hk
        · cases hz : applyVar env elems p xs with
          | error e => simp [hz] at hk
          | ok ys => simp only [hz] at hk; injection hk with hk; subst hk; rfl

/-! ### One level: a Dict spec whose field specs are idempotent on well-formed values -/

theorem apply_dict_idemOn (env : Env) (fields : List Field) (f : Flags) (p : Bool)
    (hd : distinctKeys (fieldKeySpecs fields) = true)
    (hI : ∀ fld ∈ fields, IdemOn (fun v => wfd v = true) env p fld.value)
    (hQd : ∀ fld ∈ fields, wfd fld.value.flags.default = true)
    (hM : ∀ fld ∈ fields, MissingOK env p fld.value) (hfd : wfd f.default = true) :
    IdemOn (fun v => wfd v = true) env p (.dict (some fields) f) := by
  intro v v' hq h
  have ht : ∀ xs, typeCheck env (some [Ty.dict]) (Val.dict xs) = .ok (.dict xs) := by
    intro xs; simp [typeCheck, instOf, Val.ty, Ty.sub]
  -- the shape of a successful application to a proper value
  have key : Val.proper v → (do
        let v ← typeCheck env (some [.dict]) v
        match v with
        | .dict kvs =>
          if !(unmatchedKeys env fields kvs).isEmpty then .error .key
          else do
            let kvs' ← applyFields env fields (constKeys fields) [] p kvs
            .ok (.dict kvs')
        | _ => .error .type : R Val) = .ok v' →
      ∃ kvs out, v = .dict kvs ∧ v' = .dict out ∧ schemaApply env fields p kvs = .ok out := by
    intro _ hk
    cases v with
    | dict kvs =>
      simp only [ht, bind, Except.bind] at hk
      by_cases hu : (!(unmatchedKeys env fields kvs).isEmpty) = true
      · simp [hu] at hk
      · simp only [hu] at hk
        cases ha : applyFields env fields (constKeys fields) [] p kvs with
        | error e => simp [ha] at hk
        | ok out =>
          simp only [ha] at hk
          injection hk with hk
          exact ⟨kvs, out, rfl, hk.symm, by unfold schemaApply; rw [if_neg hu]; exact ha⟩
    | _ => simp [typeCheck, instOf, Val.ty, Ty.sub, convert, bind, Except.bind] at hk
  simp only [apply] at h ⊢
  refine ⟨gate_idem_at f p v v' _ (fun hw hk => ?_) h, wfd_of_gate f p v v' _ hfd (fun hw hk => ?_) h⟩
  · obtain ⟨kvs, out, e1, e2, hs⟩ := key hw hk
    subst e1; subst e2
    obtain ⟨hnd, hqv⟩ := (wfd_dict kvs).1 hq
    obtain ⟨hs2, _, _⟩ := schemaApply_idemQ (fun v => wfd v = true) env p fields hd hI hQd hM kvs out hnd hqv hs
    refine ⟨by simp [Val.proper, Val.isMissing, Val.isNone], ?_⟩
    simp only [ht, bind, Except.bind]
    unfold schemaApply at hs2
    by_cases hu2 : (!(unmatchedKeys env fields out).isEmpty) = true
    · rw [if_pos hu2] at hs2; cases hs2
    · rw [if_neg hu2] at hs2
      simp only [hu2, hs2]
      rfl
  · obtain ⟨kvs, out, e1, e2, hs⟩ := key hw hk
    subst e1; subst e2
    obtain ⟨hnd, hqv⟩ := (wfd_dict kvs).1 hq
    obtain ⟨_, g1, gq⟩ := schemaApply_idemQ (fun v => wfd v = true) env p fields hd hI hQd hM kvs out hnd hqv hs
    exact (wfd_dict out).2 ⟨g1, gq⟩

/-- A Dict spec with a schema returns `MISSING_VALUE` only as a frozen default. -/
theorem missingOK_dictSome (env : Env) (p : Bool) (fields : List Field) (f : Flags) :
    MissingOK env p (.dict (some fields) f) := by
  intro x h hx
  simp only [apply, Spec.flags] at h ⊢
  have hk : ∀ w w', Val.proper w → (do
        let v ← typeCheck env (some [.dict]) w
        match v with
        | .dict kvs =>
          if !(unmatchedKeys env fields kvs).isEmpty then .error .key
          else do
            let kvs' ← applyFields env fields (constKeys fields) [] p kvs
            .ok (.dict kvs')
        | _ => .error .type : R Val) = .ok w' → w'.isMissing = false := by
    intro w w' _ hk
    simp only [bind, Except.bind] at hk
    cases ht : typeCheck env (some [.dict]) w with
    | error e => simp [ht] at hk
    | ok w1 =>
      simp only [ht] at hk
      cases w1 <;> simp only [] at hk <;> try (cases hk)
      rename_i kvs
      split at hk
      · cases hk
      · cases ha : applyFields env fields (constKeys fields) [] p kvs with
        | error e => simp [ha] at hk
        | ok out => simp only [ha] at hk; injection hk with hk; subst hk; rfl
  obtain ⟨h1, h2⟩ := gate_missing f p x _ hk h hx
  exact gate_frozen_default f p _ h1 h2

/-! ### Any depth -/

theorem frag_of_fragD_nondict (s : Spec) (h : fragD s = true)
    (hn : ∀ fs f, s ≠ .dict (some fs) f) : frag s = true := by
  cases s with
  | dict fields f =>
    cases fields with
    | some fs => exact absurd rfl (hn fs f)
    | none => rfl
  | _ => simpa [fragD] using h

theorem idemOn_of_frag (env : Env) (p : Bool) (s : Spec) (hfr : frag s = true)
    (hdd : wfd s.flags.default = true) :
    IdemOn (fun v => wfd v = true) env p s ∧ MissingOK env p s ∧ wfd s.flags.default = true :=
  ⟨fun v v' hq h => ⟨apply_idem_frag env _ hfr p v v' h, apply_frag_wfd env p _ hfr hdd v v' hq h⟩,
    missingOK_of_frag env p _ hfr, hdd⟩

mutual
  /-- **Idempotence at any nesting depth**: for every spec of `fragD` with well-formed defaults,
  `apply` maps a well-formed value to a well-formed fixed point. -/
  theorem idemOn_fragD (env : Env) (p : Bool) (s : Spec) (hs : fragD s = true) (hd : defOk s = true) :
      IdemOn (fun v => wfd v = true) env p s ∧ MissingOK env p s ∧ wfd s.flags.default = true := by
    cases s with
    | dict fields f =>
      cases fields with
      | some fs =>
        simp only [fragD, Bool.and_eq_true] at hs
        simp only [defOk, Bool.and_eq_true] at hd
        have hall := idemOn_fragDF env p fs hs.2 hd.2
        exact ⟨apply_dict_idemOn env fs f p hs.1 (fun fld hf => (hall fld hf).1)
          (fun fld hf => (hall fld hf).2.2) (fun fld hf => (hall fld hf).2.1) hd.1,
          missingOK_dictSome env p fs f, hd.1⟩
      | none =>
        exact idemOn_of_frag env p _ rfl (by simpa [defOk, Spec.flags] using hd)
    | _ =>
      exact idemOn_of_frag env p _ (by simpa [fragD] using hs) (by simpa [defOk] using hd)
  theorem idemOn_fragDF (env : Env) (p : Bool) (fs : List Field) (hs : fragDF fs = true)
      (hd : defOkF fs = true) :
      ∀ fld ∈ fs, IdemOn (fun v => wfd v = true) env p fld.value ∧ MissingOK env p fld.value ∧
        wfd fld.value.flags.default = true := by
    cases fs with
    | nil => intro fld hf; cases hf
    | cons x r =>
      obtain ⟨k, s⟩ := x
      simp only [fragDF, Bool.and_eq_true] at hs
      simp only [defOkF, Bool.and_eq_true] at hd
      intro fld hf
      simp only [List.mem_cons] at hf
      rcases hf with hf | hf
      · subst hf; exact idemOn_fragD env p s hs.1 hd.1
      · exact idemOn_fragDF env p r hs.2 hd.2 fld hf
end

end Pg.Typing
