/-
  C04 helper lemmas: closed forms of the acceptance set `accepts env s v` of a non-frozen spec, one
  per spec class (used by the compatibility and extension theorems).
-/
import PgProofs.Typing
namespace Pg.Typing

/-! ### `mapM` -/

@[simp] theorem isOk_ok {α : Type} (a : α) : isOk (Except.ok a : R α) = true := rfl
@[simp] theorem isOk_error {α : Type} (e : Err) : isOk (Except.error e : R α) = false := rfl

theorem isOk_mapM {α β : Type} (f : α → R β) (xs : List α) :
    isOk (xs.mapM f) = xs.all (fun x => isOk (f x)) := by
  induction xs with
  | nil => simp [List.mapM_nil, pure, Except.pure]
  | cons x xs ih =>
    rw [List.mapM_cons, List.all_cons, ← ih]
    cases hx : f x <;> cases hxs : xs.mapM f <;> simp [bind, Except.bind, pure, Except.pure]

/-! ### The gate for non-frozen specs -/

theorem isOk_gate_missing (f : Flags) (hf : f.frozen = false) (k : Val → R Val) :
    isOk (gate f false .missing k) = false := by
  simp [gate, hf, Val.isMissing, isOk]

theorem isOk_gate_none (f : Flags) (hf : f.frozen = false) (k : Val → R Val) :
    isOk (gate f false .none k) = f.noneable := by
  cases hn : f.noneable <;> simp [gate, hf, Val.isMissing, Val.isNone, isOk, hn]

theorem gate_proper (f : Flags) (hf : f.frozen = false) (p : Bool) (v : Val) (hv : Val.proper v)
    (k : Val → R Val) : gate f p v k = k v := by
  simp [gate, hf, hv.1, hv.2]

/-! ### Atoms -/

theorem accepts_any (env : Env) (f : Flags) (hf : f.frozen = false) (v : Val) :
    accepts env (.any f) v =
      match v with
      | .missing => false
      | .none => f.noneable
      | _ => true := by
  cases v <;> simp [accepts, apply, isOk_gate_missing, isOk_gate_none, hf] <;>
    simp [gate, hf, Val.isMissing, Val.isNone, isOk]

theorem accepts_bool (env : Env) (f : Flags) (hf : f.frozen = false) (v : Val) :
    accepts env (.bool f) v =
      match v with
      | .none => f.noneable
      | .bool _ => true
      | _ => false := by
  cases v <;> simp [accepts, apply, isOk_gate_missing, isOk_gate_none, hf] <;>
    simp [gate, hf, Val.isMissing, Val.isNone, isOk, typeCheck, instOf, Val.ty, Ty.sub, convert]

/-- What a non-frozen `Int` spec accepts. -/
theorem accepts_int (env : Env) (lo hi : Option Int) (f : Flags) (hf : f.frozen = false) (v : Val) :
    accepts env (.int lo hi f) v =
      match v with
      | .none => f.noneable
      | .int i => !outOfRange (lo.map Num.ofInt) (hi.map Num.ofInt) ⟨i, 0⟩
      | .bool b => !outOfRange (lo.map Num.ofInt) (hi.map Num.ofInt) ⟨if b then 1 else 0, 0⟩
      | _ => false := by
  cases v <;>
    simp [accepts, apply, gate, hf, Val.isMissing, Val.isNone, typeCheck, instOf, Val.ty, Ty.sub, convert,
      isOk, bind, Except.bind, rangeCheck, Val.num?]
  · cases f.noneable <;> simp [isOk]
  · rename_i b
    cases outOfRange (lo.map Num.ofInt) (hi.map Num.ofInt) ⟨if b then 1 else 0, 0⟩ <;> rfl
  · rename_i i
    cases outOfRange (lo.map Num.ofInt) (hi.map Num.ofInt) ⟨i, 0⟩ <;> rfl

theorem accepts_float (env : Env) (lo hi : Option Num) (f : Flags) (hf : f.frozen = false) (v : Val) :
    accepts env (.float lo hi f) v =
      match v with
      | .none => f.noneable
      | .float n => !outOfRange lo hi n
      | .int i => !outOfRange lo hi ⟨i, 0⟩
      | .bool b => !outOfRange lo hi ⟨if b then 1 else 0, 0⟩
      | _ => false := by
  cases v <;> simp [accepts, apply, isOk_gate_missing, isOk_gate_none, hf] <;>
    simp [gate, hf, Val.isMissing, Val.isNone, isOk, typeCheck, instOf, Val.ty, Ty.sub, convert,
      bind, Except.bind, rangeCheck, Val.num?]
  · rename_i b
    cases outOfRange lo hi ⟨if b then 1 else 0, 0⟩ <;> rfl
  · rename_i i
    cases outOfRange lo hi ⟨i, 0⟩ <;> rfl
  · rename_i n
    cases outOfRange lo hi n <;> rfl

theorem accepts_str (env : Env) (rx : Option Nat) (f : Flags) (hf : f.frozen = false) (v : Val) :
    accepts env (.str rx f) v =
      match v with
      | .none => f.noneable
      | .str s => (match rx with | none => true | some r => env.rx r s)
      | _ => false := by
  cases v <;> simp [accepts, apply, isOk_gate_missing, isOk_gate_none, hf] <;>
    simp [gate, hf, Val.isMissing, Val.isNone, isOk, typeCheck, instOf, Val.ty, Ty.sub, convert,
      bind, Except.bind]
  rename_i s
  cases rx with
  | none => rfl
  | some r => simp only; cases env.rx r s <;> rfl

theorem accepts_obj (env : Env) (c : Nat) (f : Flags) (hf : f.frozen = false) (v : Val) :
    accepts env (.obj c f) v =
      match v with
      | .none => f.noneable
      | .obj c' _ part => env.sub c' c && !part
      | _ => false := by
  cases v <;> simp [accepts, apply, isOk_gate_missing, isOk_gate_none, hf] <;>
    simp [gate, hf, Val.isMissing, Val.isNone, isOk, typeCheck, instOf, Val.ty, Ty.sub, convert,
      bind, Except.bind]
  rename_i c' u part
  cases env.sub c' c <;> cases part <;> rfl

theorem accepts_dictNone (env : Env) (f : Flags) (hf : f.frozen = false) (v : Val) :
    accepts env (.dict none f) v =
      match v with
      | .none => f.noneable
      | .dict _ => true
      | _ => false := by
  cases v <;> simp [accepts, apply, isOk_gate_missing, isOk_gate_none, hf] <;>
    simp [gate, hf, Val.isMissing, Val.isNone, isOk, typeCheck, instOf, Val.ty, Ty.sub, convert]

/-! ### Lists and tuples -/

theorem accepts_list (env : Env) (e : Spec) (mn : Nat) (mx : Option Nat) (f : Flags)
    (hf : f.frozen = false) (v : Val) :
    accepts env (.list e mn mx f) v =
      match v with
      | .none => f.noneable
      | .list xs => xs.all (fun x => accepts env e x) && sizeOk xs.length mn mx
      | _ => false := by
  cases v <;> simp [accepts, apply, isOk_gate_missing, isOk_gate_none, hf] <;>
    simp [gate, hf, Val.isMissing, Val.isNone, isOk, typeCheck, instOf, Val.ty, Ty.sub, convert,
      bind, Except.bind]
  rename_i xs
  have h1 := isOk_mapM (fun x => apply env e false x) xs
  cases hm : xs.mapM (fun x => apply env e false x) with
  | error err =>
    rw [hm] at h1
    simp only [isOk] at h1
    simp only [accepts, ← h1]
    simp [isOk]
  | ok ys =>
    rw [hm] at h1
    simp only [isOk] at h1
    have hl := mapM_ok_length _ xs ys hm
    simp only [accepts, ← h1, hl]
    cases sizeOk xs.length mn mx <;> simp [isOk]

def zipAll (env : Env) : List Spec → List Val → Bool
  | [], _ => true
  | _ :: _, [] => true
  | s :: ss, x :: xs => accepts env s x && zipAll env ss xs

theorem isOk_applyZip (env : Env) (ss : List Spec) (xs : List Val) :
    isOk (applyZip env ss false xs) = zipAll env ss xs := by
  induction ss generalizing xs with
  | nil => simp [applyZip, zipAll, isOk]
  | cons s ss ih =>
    cases xs with
    | nil => simp [applyZip, zipAll, isOk]
    | cons x xs =>
      simp only [applyZip, zipAll, bind, Except.bind, accepts]
      cases hx : apply env s false x with
      | error e => simp [isOk]
      | ok y =>
        rw [← ih xs]
        cases hxs : applyZip env ss false xs <;> simp [isOk]

def varAll (env : Env) : List Spec → List Val → Bool
  | [], xs => xs.isEmpty
  | e :: _, xs => xs.all (fun x => accepts env e x)

theorem isOk_applyVar (env : Env) (ss : List Spec) (xs : List Val) :
    isOk (applyVar env ss false xs) = varAll env ss xs := by
  cases ss with
  | nil => simp only [applyVar, varAll]; cases xs <;> simp [isOk]
  | cons e rest =>
    simp only [applyVar, varAll]
    exact isOk_mapM _ xs

theorem accepts_tuple (env : Env) (es : List Spec) (mn : Nat) (mx : Option Nat) (f : Flags)
    (hf : f.frozen = false) (v : Val) :
    accepts env (.tuple es mn mx f) v =
      match v with
      | .none => f.noneable
      | .tuple xs =>
        if fixedLen mn mx then xs.length == es.length && zipAll env es xs
        else sizeOk xs.length mn mx && varAll env es xs
      | _ => false := by
  cases v <;> simp [accepts, apply, isOk_gate_missing, isOk_gate_none, hf] <;>
    simp [gate, hf, Val.isMissing, Val.isNone, isOk, typeCheck, instOf, Val.ty, Ty.sub, convert,
      bind, Except.bind]
  rename_i xs
  by_cases hfx : fixedLen mn mx = true
  · simp only [hfx, if_true]
    by_cases hl : xs.length = es.length
    · simp only [hl, bne_self_eq_false, Bool.false_eq_true, if_false, beq_self_eq_true, Bool.true_and]
      rw [← isOk_applyZip]
      cases applyZip env es false xs <;> simp [isOk]
    · simp [hl, isOk]
  · simp only [hfx, Bool.false_eq_true, if_false]
    cases hsz : sizeOk xs.length mn mx
    · simp [isOk]
    · simp only [Bool.not_true, Bool.false_eq_true, if_false, Bool.true_and]
      rw [← isOk_applyVar]
      cases applyVar env es false xs <;> simp [isOk]

end Pg.Typing
