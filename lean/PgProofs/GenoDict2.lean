/-
  C12: the default dictionary view (`to_dict()`: id keys, plain values, sub-choice keys) of a bound
  DNA whose decision points render to pairwise different ids holds all its decisions (`Good`), so
  `from_dict(to_dict())` is the identity (stage 2 of `from_dict ∘ to_dict = id`, default options).
-/
import PgProofs.GenoDict
namespace Pg.Geno
open DNA

/-- The `_put` calls of `_dump_node` for the default options, in order. -/
def nodePuts0 : BDNA → List (String × DV)
  | .mk v bound _ =>
    match bound, v with
    | some dp, .int i => [(renderId dp.id, .val (.int i))]
    | some dp, v' => if dp.kind != .choice then [(renderId dp.id, .val v')] else []
    | none, _ => []

mutual
  def puts0 : BDNA → List (String × DV)
    | .mk v bound cs => nodePuts0 (.mk v bound cs) ++ putsList0 cs
  def putsList0 : List BDNA → List (String × DV)
    | [] => []
    | c :: cs => puts0 c ++ putsList0 cs
end

def putAll (dict : List (String × DE)) (es : List (String × DV)) : List (String × DE) :=
  es.foldl (fun d p => dictPut d p.1 p.2) dict

theorem putAll_append (dict : List (String × DE)) (a b : List (String × DV)) :
    putAll dict (a ++ b) = putAll (putAll dict a) b := by
  simp [putAll, List.foldl_append]

mutual
  theorem dumpNode0 : ∀ (b : BDNA) (dict : List (String × DE)), dumpNode {} b dict = putAll dict (puts0 b)
    | .mk v bound cs, dict => by
      rw [puts0, putAll_append, ← dumpList0 cs]
      simp only [dumpNode]
      congr 1
      cases bound with
      | none => cases v <;> rfl
      | some dp =>
        cases v with
        | int i =>
          by_cases hk : dp.kind = .choice
          · cases hs : dp.sub <;> simp [nodePuts0, putAll, hk, hs, fmtChoice, keyOf, needsSubchoiceKey]
          · simp [nodePuts0, putAll, hk, keyOf]
        | none => by_cases hk : dp.kind = .choice <;> simp [nodePuts0, putAll, hk, keyOf]
        | flt n e => by_cases hk : dp.kind = .choice <;> simp [nodePuts0, putAll, hk, keyOf]
        | str t => by_cases hk : dp.kind = .choice <;> simp [nodePuts0, putAll, hk, keyOf]
  theorem dumpList0 : ∀ (cs : List BDNA) (dict : List (String × DE)), dumpList {} cs dict = putAll dict (putsList0 cs)
    | [], dict => rfl
    | c :: cs, dict => by
      rw [putsList0, putAll_append, ← dumpNode0 c, ← dumpList0 cs]
      rfl
end

theorem dictPut_fresh (dict : List (String × DE)) (k : String) (v : DV) (h : k ∉ dict.map (·.1)) :
    dictPut dict k v = dict ++ [(k, .one v)] := by
  unfold dictPut
  have : dict.any (fun p => p.1 == k) = false := by
    rw [Bool.eq_false_iff]
    intro hany
    rw [List.any_eq_true] at hany
    obtain ⟨p, hp, he⟩ := hany
    exact h (List.mem_map.mpr ⟨p, hp, by simpa using he⟩)
  simp [this]

theorem putAll_fresh : ∀ (es : List (String × DV)) (dict : List (String × DE)),
    (es.map (·.1)).Nodup → (∀ e ∈ es, e.1 ∉ dict.map (·.1)) →
    putAll dict es = dict ++ es.map fun e => (e.1, DE.one e.2)
  | [], dict, _, _ => by simp [putAll]
  | e :: es, dict, hnd, hdis => by
    simp only [List.map_cons, List.nodup_cons] at hnd
    have h1 := dictPut_fresh dict e.1 e.2 (hdis e List.mem_cons_self)
    have := putAll_fresh es (dict ++ [(e.1, .one e.2)]) hnd.2 (by
      intro x hx
      simp only [List.map_append, List.map_cons, List.map_nil, List.mem_append, List.mem_singleton, not_or]
      refine ⟨hdis x (List.mem_cons_of_mem _ hx), ?_⟩
      intro he
      exact hnd.1 (List.mem_map.mpr ⟨x, hx, he⟩))
    show putAll (dictPut dict e.1 e.2) es = _
    rw [h1, this]
    simp

theorem dictGet_of_mem : ∀ (L : List (String × DE)) (k : String) (e : DE), (L.map (·.1)).Nodup → (k, e) ∈ L →
    dictGet L k = some e
  | [], _, _, _, h => by cases h
  | (k', e') :: L, k, e, hnd, h => by
    simp only [List.map_cons, List.nodup_cons] at hnd
    unfold dictGet
    cases h with
    | head => simp
    | tail _ h' =>
      have hne : k' ≠ k := by
        intro heq
        exact hnd.1 (List.mem_map.mpr ⟨(k, e), h', heq.symm⟩)
      have := dictGet_of_mem L k e hnd.2 h'
      unfold dictGet at this
      simp [List.find?_cons, hne, this]

/-- With pairwise different keys the default view is the list of its puts. -/
theorem toDict0_get (b : BDNA) (hnd : ((puts0 b).map (·.1)).Nodup) :
    ∀ p ∈ puts0 b, dictGet (toDict {} b) p.1 = some (.one p.2) := by
  intro p hp
  have hd : toDict {} b = (puts0 b).map fun e => (e.1, DE.one e.2) := by
    unfold toDict
    rw [dumpNode0, putAll_fresh (puts0 b) [] hnd (by simp)]
    simp
  rw [hd]
  apply dictGet_of_mem
  · simpa [List.map_map, Function.comp_def] using hnd
  · exact List.mem_map.mpr ⟨p, hp, rfl⟩

mutual
  /-- Every bound choice node holds a candidate index within range (what `use_spec` checked). -/
  def rangesOk : BDNA → Bool
    | .mk v bound cs =>
      (match bound, v with
       | some dp, .int i => dp.kind != .choice || inRange dp.n i
       | _, _ => true) && rangesOkList cs
  def rangesOkList : List BDNA → Bool
    | [] => true
    | c :: cs => rangesOk c && rangesOkList cs
end

mutual
  theorem good_of_puts (D : List (String × DE)) : ∀ (b : BDNA),
      (∀ p ∈ puts0 b, dictGet D p.1 = some (.one p.2)) → rangesOk b = true → Good D {} false b
    | .mk v bound cs, hp, hr => by
      simp only [rangesOk, Bool.and_eq_true] at hr
      have hcs : GoodL D {} false cs := goodL_of_puts D cs
        (fun p hp' => hp p (by rw [puts0]; exact List.mem_append_right _ hp')) hr.2
      refine ⟨?_, hcs⟩
      cases bound with
      | none => cases v <;> trivial
      | some dp =>
        cases v with
        | int i =>
          intro hk
          have hput : dictGet D (renderId dp.id) = some (.one (.val (.int i))) :=
            hp (renderId dp.id, .val (.int i)) (by rw [puts0]; exact List.mem_append_left _ (by simp [nodePuts0]))
          have hfmt : fmtChoice {} dp i (BDNA.mk (.int i) (some dp) cs).erase = .val (.int i) := rfl
          rw [hfmt]
          refine ⟨?_, Or.inr ?_⟩
          · unfold lookupOk
            cases dp.sub with
            | none => exact Or.inl hput
            | some idx => simp only; exact Or.inl hput
          · have hin : inRange dp.n i = true := by
              have := hr.1
              simpa [hk] using this
            simp [choiceIndex, hin]
        | none =>
          intro hk
          exact Or.inl (hp (renderId dp.id, .val .none) (by
            rw [puts0]; exact List.mem_append_left _ (by simp [nodePuts0, hk])))
        | flt n e =>
          intro hk
          exact Or.inl (hp (renderId dp.id, .val (.flt n e)) (by
            rw [puts0]; exact List.mem_append_left _ (by simp [nodePuts0, hk])))
        | str t =>
          intro hk
          exact Or.inl (hp (renderId dp.id, .val (.str t)) (by
            rw [puts0]; exact List.mem_append_left _ (by simp [nodePuts0, hk])))
  theorem goodL_of_puts (D : List (String × DE)) : ∀ (cs : List BDNA),
      (∀ p ∈ putsList0 cs, dictGet D p.1 = some (.one p.2)) → rangesOkList cs = true → GoodL D {} false cs
    | [], _, _ => trivial
    | c :: cs, hp, hr => by
      simp only [rangesOkList, Bool.and_eq_true] at hr
      exact ⟨good_of_puts D c (fun p hp' => hp p (by rw [putsList0]; exact List.mem_append_left _ hp')) hr.1,
        goodL_of_puts D cs (fun p hp' => hp p (by rw [putsList0]; exact List.mem_append_right _ hp')) hr.2⟩
end

/-! ### the bindings produced by `use_spec` are within range -/

theorem rangesOkList_unbound : ∀ cs : List DNA, rangesOkList (unboundList cs) = true
  | [] => rfl
  | c :: cs => by
    cases c with
    | mk v gs =>
      simp only [unboundList, unboundOf, rangesOkList, rangesOk, Bool.and_eq_true]
      exact ⟨⟨by cases v <;> trivial, rangesOkList_unbound gs⟩, rangesOkList_unbound cs⟩

theorem rangesOk_annotLeaf {pre : List Tok} {p : Point} {x : DNA} {b : BDNA} (h : annotLeaf pre p x = some b) :
    rangesOk b = true := by
  cases p with
  | choices => simp [annotLeaf] at h
  | float a b' c d info =>
    cases x with
    | mk w cs =>
      cases w <;> simp [annotLeaf] at h
      subst h
      simp [rangesOk, rangesOkList_unbound]
  | custom info =>
    cases x with
    | mk w cs =>
      cases w <;> simp [annotLeaf] at h
      subst h
      simp [rangesOk, rangesOkList_unbound]

theorem rangesOk_mapIdxM (f : Nat → DNA → Option BDNA) (hf : ∀ i x b, f i x = some b → rangesOk b = true) :
    ∀ (cs : List DNA) (s : Nat) (bs : List BDNA), mapIdxM f s cs = some bs → rangesOkList bs = true
  | [], _, bs, h => by simp [mapIdxM] at h; subst h; rfl
  | c :: cs, s, bs, h => by
    simp only [mapIdxM] at h
    cases h1 : f s c with
    | none => simp [h1] at h
    | some b0 =>
      cases h2 : mapIdxM f (s + 1) cs with
      | none => simp [h1, h2] at h
      | some bs0 =>
        simp only [h1, h2, Option.some.injEq] at h
        subst h
        simp [rangesOkList, hf s c b0 h1, rangesOk_mapIdxM f hf cs (s + 1) bs0 h2]

theorem rangesOk_single {dp : Dp} {kat : Nat → List DNA → Option (List BDNA)} {x : DNA} {b : BDNA}
    (hk : ∀ v ks bs, kat v ks = some bs → rangesOkList bs = true)
    (h : annotSingleWith dp kat x = some b) : rangesOk b = true := by
  obtain ⟨i, ks, bs, rfl, hr, hkat, rfl⟩ := annotSingle_some h
  simp [rangesOk, hr, hk _ _ _ hkat]

theorem rangesOk_choiceNodes {id : List Tok} {k n : Nat} {info : Info}
    {kat : List Tok → Nat → List DNA → Option (List BDNA)} {cs : List DNA} {bs : List BDNA}
    (hk : ∀ id' v ks bs, kat id' v ks = some bs → rangesOkList bs = true)
    (h : annotChoiceNodes id k n info kat cs = some bs) : rangesOkList bs = true := by
  unfold annotChoiceNodes at h
  by_cases hl : (cs.length != k) = true
  · simp [hl] at h
  · simp only [hl, Bool.false_eq_true, if_false] at h
    by_cases hk1 : (k == 1) = true
    · simp only [hk1, if_true] at h
      exact rangesOk_mapIdxM _ (fun i x b hb => rangesOk_single (hk id) hb) cs 0 bs h
    · simp only [hk1, Bool.false_eq_true, if_false] at h
      exact rangesOk_mapIdxM _ (fun i x b hb => rangesOk_single (hk _) hb) cs 0 bs h

mutual
  theorem rangesOk_annotP (p : Point) : ∀ (pre : List Tok) (d : DNA) (b : BDNA),
      annotP pre p d = some b → rangesOk b = true := by
    cases p with
    | float a b' c d' info =>
      intro pre d b h
      have : annotP pre (.float a b' c d' info) d = annotLeaf pre (.float a b' c d' info) d := by simp [annotP]
      rw [this] at h; exact rangesOk_annotLeaf h
    | custom info =>
      intro pre d b h
      have : annotP pre (.custom info) d = annotLeaf pre (.custom info) d := by simp [annotP]
      rw [this] at h; exact rangesOk_annotLeaf h
    | choices k cands dd ss info =>
      intro pre d b h
      have hC : ∀ id' v ks bs, annotKidsAt cands cands.length id' 0 v ks = some bs → rangesOkList bs = true :=
        fun id' v ks bs hh => rangesOk_annotKidsAt cands cands.length id' 0 v ks bs hh
      simp only [annotP] at h
      by_cases hk : (k == 1) = true
      · simp only [hk, if_true] at h
        exact rangesOk_single (hC _) h
      · simp only [hk, Bool.false_eq_true, if_false] at h
        cases d with
        | mk w gs =>
          cases w with
          | none =>
            simp only at h
            cases hcn : annotChoiceNodes (pre ++ locToks info.loc) k cands.length info
                (fun id' => annotKidsAt cands cands.length id' 0) gs with
            | none => simp [hcn] at h
            | some bs =>
              simp only [hcn, Option.map_some, Option.some.injEq] at h
              subst h
              simp [rangesOk, rangesOk_choiceNodes hC hcn]
          | int => simp at h
          | flt => simp at h
          | str => simp at h
  theorem rangesOk_annotElems (es : List Point) : ∀ (pre : List Tok) (ds : List DNA) (bs : List BDNA),
      annotElems pre es ds = some bs → rangesOkList bs = true := by
    cases es with
    | nil =>
      intro pre ds bs h
      cases ds with
      | nil => simp [annotElems] at h; subst h; rfl
      | cons a t => simp [annotElems] at h
    | cons p ps =>
      intro pre ds bs h
      cases ds with
      | nil => simp [annotElems] at h
      | cons d ds =>
        simp only [annotElems] at h
        cases h1 : annotP pre p d with
        | none => simp [h1] at h
        | some b =>
          cases h2 : annotElems pre ps ds with
          | none => simp [h1, h2] at h
          | some bs' =>
            simp only [h1, h2, Option.some.injEq] at h
            subst h
            simp [rangesOkList, rangesOk_annotP p pre d b h1, rangesOk_annotElems ps pre ds bs' h2]
  theorem rangesOk_annotKids (c : List Point) : ∀ (pre : List Tok) (ks : List DNA) (bs : List BDNA),
      annotKids pre c ks = some bs → rangesOkList bs = true := by
    match c with
    | [] =>
      intro pre ks bs h
      simp only [annotKids] at h
      by_cases he : ks.isEmpty = true
      · simp [he] at h; subst h; rfl
      · simp [he] at h
    | [.choices k cands dd ss info] =>
      intro pre ks bs h
      simp only [annotKids] at h
      exact rangesOk_choiceNodes
        (fun id' v ks bs hh => rangesOk_annotKidsAt cands cands.length id' 0 v ks bs hh) h
    | [.float a b' c' d' info] =>
      intro pre ks bs h
      simp only [annotKids] at h
      match ks, h with
      | [x], h =>
        cases hl : annotLeaf pre (.float a b' c' d' info) x with
        | none => simp [hl] at h
        | some bb =>
          simp only [hl, Option.map_some, Option.some.injEq] at h
          subst h
          simp [rangesOkList, rangesOk_annotLeaf hl]
      | [], h => simp at h
      | _ :: _ :: _, h => simp at h
    | [.custom info] =>
      intro pre ks bs h
      simp only [annotKids] at h
      match ks, h with
      | [x], h =>
        cases hl : annotLeaf pre (.custom info) x with
        | none => simp [hl] at h
        | some bb =>
          simp only [hl, Option.map_some, Option.some.injEq] at h
          subst h
          simp [rangesOkList, rangesOk_annotLeaf hl]
      | [], h => simp at h
      | _ :: _ :: _, h => simp at h
    | p :: q :: r =>
      intro pre ks bs h
      match ks, h with
      | c1 :: c2 :: t, h =>
        cases h1 : annotP pre p c1 with
        | none => exfalso; cases p <;> simp [annotKids, h1] at h
        | some b1 =>
          cases h2 : annotP pre q c2 with
          | none => exfalso; cases p <;> simp [annotKids, h1, h2] at h
          | some b2 =>
            cases h3 : annotElems pre r t with
            | none => exfalso; cases p <;> simp [annotKids, h1, h2, h3] at h
            | some bs' =>
              have hbs : bs = b1 :: b2 :: bs' := by
                cases p <;> simp [annotKids, h1, h2, h3] at h <;> exact h.symm
              subst hbs
              simp [rangesOkList, rangesOk_annotP p pre c1 b1 h1, rangesOk_annotP q pre c2 b2 h2,
                rangesOk_annotElems r pre t bs' h3]
      | [], h => exfalso; cases p <;> simp [annotKids] at h
      | [_], h => exfalso; cases p <;> simp [annotKids] at h
  theorem rangesOk_annotKidsAt (cs : List (List Point)) : ∀ (n : Nat) (id : List Tok) (off v : Nat)
      (ks : List DNA) (bs : List BDNA), annotKidsAt cs n id off v ks = some bs → rangesOkList bs = true := by
    cases cs with
    | nil => intro n id off v ks bs h; simp [annotKidsAt] at h
    | cons c cs =>
      intro n id off v ks bs h
      cases v with
      | zero => simp only [annotKidsAt] at h; exact rangesOk_annotKids c _ ks bs h
      | succ v => simp only [annotKidsAt] at h; exact rangesOk_annotKidsAt cs n id (off + 1) v ks bs h
end

theorem rangesOk_annot (g : Spec) (d : DNA) (b : BDNA) (h : g.annot d = some b) : rangesOk b = true := by
  cases g with
  | point p => exact rangesOk_annotP p [] d b h
  | space s =>
    match s, d, h with
    | [p], d, h => exact rangesOk_annotP p [] d b h
    | [], .mk .none cs, h =>
      simp only [Spec.annot] at h
      cases h1 : annotElems [] [] cs with
      | none => simp [h1] at h
      | some bs =>
        simp only [h1, Option.map_some, Option.some.injEq] at h
        subst h
        simp [rangesOk, rangesOk_annotElems [] [] cs bs h1]
    | p :: q :: r, .mk .none cs, h =>
      simp only [Spec.annot] at h
      cases h1 : annotElems [] (p :: q :: r) cs with
      | none => simp [h1] at h
      | some bs =>
        simp only [h1, Option.map_some, Option.some.injEq] at h
        subst h
        simp [rangesOk, rangesOk_annotElems (p :: q :: r) [] cs bs h1]
    | [], .mk (.int _) _, h => simp [Spec.annot] at h
    | [], .mk (.flt _ _) _, h => simp [Spec.annot] at h
    | [], .mk (.str _) _, h => simp [Spec.annot] at h
    | _ :: _ :: _, .mk (.int _) _, h => simp [Spec.annot] at h
    | _ :: _ :: _, .mk (.flt _ _) _, h => simp [Spec.annot] at h
    | _ :: _ :: _, .mk (.str _) _, h => simp [Spec.annot] at h

/-- `from_dict(d.to_dict(), spec) == d` whenever the ids of the decisions of `d` are pairwise different. -/
theorem fromDict_toDict_default (g : Spec) (hc : g.noCustom = true) (d : DNA) (b : BDNA)
    (hv : g.valid d = true) (han : g.annot d = some b) (hkeys : ((puts0 b).map (·.1)).Nodup) :
    g.fromDict false (toDict {} b) = some d :=
  fromDict_of_good (toDict {} b) {} false g hc d b hv han
    (good_of_puts (toDict {} b) b (toDict0_get b hkeys) (rangesOk_annot g d b han))

end Pg.Geno
