/- Helper lemmas for the C05 codec theorems. -/
import PgModel.C05Codec
namespace Pg.C05

/-! ### `Tree.beq` is sound -/

mutual
  theorem Tree.beq_eq : (a b : Tree) → Tree.beq a b = true → a = b
    | .leaf a, .leaf b, h => by simp [Tree.beq] at h; rw [h]
    | .list xs, .list ys, h => by simp only [Tree.beq] at h; rw [Tree.beqL_eq xs ys h]
    | .tuple xs, .tuple ys, h => by simp only [Tree.beq] at h; rw [Tree.beqL_eq xs ys h]
    | .dict xs, .dict ys, h => by simp only [Tree.beq] at h; rw [Tree.beqKV_eq xs ys h]
    | .obj c xs, .obj d ys, h => by
      simp only [Tree.beq, Bool.and_eq_true, beq_iff_eq] at h
      rw [h.1, Tree.beqA_eq xs ys h.2]
    | .leaf _, .list _, h | .leaf _, .tuple _, h | .leaf _, .dict _, h | .leaf _, .obj _ _, h
    | .list _, .leaf _, h | .list _, .tuple _, h | .list _, .dict _, h | .list _, .obj _ _, h
    | .tuple _, .leaf _, h | .tuple _, .list _, h | .tuple _, .dict _, h | .tuple _, .obj _ _, h
    | .dict _, .leaf _, h | .dict _, .list _, h | .dict _, .tuple _, h | .dict _, .obj _ _, h
    | .obj _ _, .leaf _, h | .obj _ _, .list _, h | .obj _ _, .tuple _, h | .obj _ _, .dict _, h => by
      simp [Tree.beq] at h
  theorem Tree.beqL_eq : (a b : List Tree) → Tree.beqL a b = true → a = b
    | [], [], _ => rfl
    | x :: xs, y :: ys, h => by
      simp only [Tree.beqL, Bool.and_eq_true] at h
      rw [Tree.beq_eq x y h.1, Tree.beqL_eq xs ys h.2]
    | [], _ :: _, h | _ :: _, [], h => by simp [Tree.beqL] at h
  theorem Tree.beqKV_eq : (a b : List (Key × Tree)) → Tree.beqKV a b = true → a = b
    | [], [], _ => rfl
    | (k, x) :: xs, (l, y) :: ys, h => by
      simp only [Tree.beqKV, Bool.and_eq_true, beq_iff_eq] at h
      rw [h.1.1, Tree.beq_eq x y h.1.2, Tree.beqKV_eq xs ys h.2]
    | [], _ :: _, h | _ :: _, [], h => by simp [Tree.beqKV] at h
  theorem Tree.beqA_eq : (a b : List (Str × Tree)) → Tree.beqA a b = true → a = b
    | [], [], _ => rfl
    | (k, x) :: xs, (l, y) :: ys, h => by
      simp only [Tree.beqA, Bool.and_eq_true, beq_iff_eq] at h
      rw [h.1.1, Tree.beq_eq x y h.1.2, Tree.beqA_eq xs ys h.2]
    | [], _ :: _, h | _ :: _, [], h => by simp [Tree.beqA] at h
end

end Pg.C05

namespace Pg.C05

/-! ### Round trip, object form -/

theorem jisTupleMarker_toJson (env : ClassEnv) (x : Tree) (xs : List Tree)
    (h : jisTupleMarker (toJson env x) = true) : startsWithTupleMarker (x :: xs) = true := by
  cases x with
  | leaf a => cases a <;> simp_all [toJson, atomJ, jisTupleMarker, startsWithTupleMarker]
  | list ys => simp [toJson, jisTupleMarker] at h
  | tuple ys => simp [toJson, jisTupleMarker] at h
  | dict ys => simp [toJson, jisTupleMarker] at h
  | obj c ys => simp [toJson, jisTupleMarker] at h

theorem jlookup_toJsonKV_none (env : ClassEnv) :
    (kvs : List (Key × Tree)) → EncodableKV false kvs = true →
      jlookup (.s typeKey) (toJsonKV env kvs) = none
  | [], _ => rfl
  | (k, x) :: r, h => by
    simp only [EncodableKV, Bool.and_eq_true] at h
    have hk : k ≠ .s typeKey := by
      intro hk
      have := h.1.1
      simp [hk, keyReserved] at this
    simp only [toJsonKV, jlookup, if_neg hk]
    exact jlookup_toJsonKV_none env r h.2

/-- What `Object.from_json` receives as keyword arguments. -/
def keepAttr (frozen : List Str) (p : Str × Tree) : Bool := !(frozen.contains p.1 || isMissing p.2)

def kwOf (frozen : List Str) (attrs : List (Str × Tree)) : List (Key × Tree) :=
  (attrs.filter (keepAttr frozen)).map (fun p => (Key.s p.1, p.2))

theorem kwOf_cons (frozen : List Str) (k : Str) (x : Tree) (r : List (Str × Tree)) :
    kwOf frozen ((k, x) :: r) =
      if frozen.contains k || isMissing x then kwOf frozen r else (Key.s k, x) :: kwOf frozen r := by
  unfold kwOf
  rw [List.filter_cons]
  cases h1 : frozen.contains k <;> cases h2 : isMissing x <;>
    simp only [keepAttr, h1, h2, Bool.or_false, Bool.or_true, Bool.not_true, Bool.not_false,
      if_true, if_false, List.map_cons, Bool.false_eq_true]

mutual
  theorem rt_tree (env : ClassEnv) (ap : Bool)
      (hobj : ∀ c attrs, Conforms env (.obj c attrs) = true → EncodableA false attrs = true →
        (ap = true ∨ NoMissingA attrs = true) →
        construct env ap c (kwOf (env.frozenOf c) attrs) = .ok (.obj c attrs)) :
      (t : Tree) → Conforms env t = true → Encodable false t = true →
        (ap = true ∨ NoMissing t = true) → fromJ env ap (toJson env t) = .ok t
    | .leaf a, _, he, _ => by
      cases a <;> simp_all [toJson, atomJ, fromJ, Encodable]
    | .list [], _, _, _ => by simp [toJson, toJsonL, fromJ]
    | .list (x :: xs), hc, he, hm => by
      simp only [Encodable, Bool.and_eq_true, Bool.not_eq_true'] at he
      simp only [Conforms] at hc
      have hm' : ap = true ∨ NoMissingL (x :: xs) = true := by
        cases hm with
        | inl h => exact .inl h
        | inr h => exact .inr (by simpa [NoMissing] using h)
      have hl := rt_list env ap hobj (x :: xs) hc he.2 hm'
      have hnm : jisTupleMarker (toJson env x) = false := by
        cases hj : jisTupleMarker (toJson env x) with
        | false => rfl
        | true =>
          have := jisTupleMarker_toJson env x xs hj
          rw [this] at he; exact absurd he.1 (by simp)
      simp only [toJson, toJsonL, fromJ, hnm] at hl ⊢
      simp [hl]
    | .tuple [], _, he, _ => by simp [Encodable] at he
    | .tuple (x :: xs), hc, he, hm => by
      simp only [Encodable, Bool.and_eq_true] at he
      simp only [Conforms] at hc
      have hm' : ap = true ∨ NoMissingL (x :: xs) = true := by
        cases hm with
        | inl h => exact .inl h
        | inr h => exact .inr (by simpa [NoMissing] using h)
      have hl := rt_list env ap hobj (x :: xs) hc he.2 hm'
      simp only [toJsonL] at hl
      simp only [toJson, toJsonL, fromJ, jisTupleMarker, beq_self_eq_true, if_true, hl]
    | .dict kvs, hc, he, hm => by
      simp only [Encodable] at he
      simp only [Conforms, Bool.and_eq_true] at hc
      have hm' : ap = true ∨ NoMissingKV kvs = true := by
        cases hm with
        | inl h => exact .inl h
        | inr h => exact .inr (by simpa [NoMissing] using h)
      have hl := rt_kv env ap hobj kvs hc.2 he hm'
      simp only [toJson, fromJ, jlookup_toJsonKV_none env kvs he, hl]
    | .obj c attrs, hc, he, hm => by
      simp only [Encodable] at he
      have hc' := hc
      simp only [Conforms, Bool.and_eq_true] at hc
      have hm' : ap = true ∨ NoMissingA attrs = true := by
        cases hm with
        | inl h => exact .inl h
        | inr h => exact .inr (by simpa [NoMissing] using h)
      have hl := rt_attrs env ap hobj (env.frozenOf c) attrs hc.2 he hm'
      have hfilter : ∀ (l : List (Str × Tree)), EncodableA false l = true →
          (kwOf (env.frozenOf c) l).filter (fun p => p.1 != Key.s typeKey) = kwOf (env.frozenOf c) l := by
        intro l
        induction l with
        | nil => intro _; rfl
        | cons p r ih =>
          obtain ⟨k, x⟩ := p
          intro h
          simp only [EncodableA, Bool.and_eq_true, bne_iff_ne, ne_eq] at h
          rw [kwOf_cons]
          split
          · exact ih h.2
          · have : (Key.s k != Key.s typeKey) = true := by
              simp only [bne_iff_ne, ne_eq, Key.s.injEq]; exact h.1.1.1
            simp only [List.filter, this]
            rw [ih h.2]
      simp only [toJson, fromJ, jlookup, if_true, fromJKV, hl]
      have : (Key.s typeKey != Key.s typeKey) = false := by simp
      simp only [List.filter, this, hfilter attrs he]
      exact hobj c attrs hc' he hm'
  theorem rt_list (env : ClassEnv) (ap : Bool)
      (hobj : ∀ c attrs, Conforms env (.obj c attrs) = true → EncodableA false attrs = true →
        (ap = true ∨ NoMissingA attrs = true) →
        construct env ap c (kwOf (env.frozenOf c) attrs) = .ok (.obj c attrs)) :
      (xs : List Tree) → ConformsL env xs = true → EncodableL false xs = true →
        (ap = true ∨ NoMissingL xs = true) → fromJL env ap (toJsonL env xs) = .ok xs
    | [], _, _, _ => rfl
    | x :: xs, hc, he, hm => by
      simp only [ConformsL, EncodableL, Bool.and_eq_true] at hc he
      have hm1 : ap = true ∨ NoMissing x = true := by
        cases hm with
        | inl h => exact .inl h
        | inr h => simp only [NoMissingL, Bool.and_eq_true] at h; exact .inr h.1
      have hm2 : ap = true ∨ NoMissingL xs = true := by
        cases hm with
        | inl h => exact .inl h
        | inr h => simp only [NoMissingL, Bool.and_eq_true] at h; exact .inr h.2
      simp only [toJsonL, fromJL, rt_tree env ap hobj x hc.1 he.1 hm1, rt_list env ap hobj xs hc.2 he.2 hm2]
  theorem rt_kv (env : ClassEnv) (ap : Bool)
      (hobj : ∀ c attrs, Conforms env (.obj c attrs) = true → EncodableA false attrs = true →
        (ap = true ∨ NoMissingA attrs = true) →
        construct env ap c (kwOf (env.frozenOf c) attrs) = .ok (.obj c attrs)) :
      (kvs : List (Key × Tree)) → ConformsKV env kvs = true → EncodableKV false kvs = true →
        (ap = true ∨ NoMissingKV kvs = true) → fromJKV env ap (toJsonKV env kvs) = .ok kvs
    | [], _, _, _ => rfl
    | (k, x) :: xs, hc, he, hm => by
      simp only [ConformsKV, EncodableKV, Bool.and_eq_true] at hc he
      have hm1 : ap = true ∨ NoMissing x = true := by
        cases hm with
        | inl h => exact .inl h
        | inr h => simp only [NoMissingKV, Bool.and_eq_true] at h; exact .inr h.1
      have hm2 : ap = true ∨ NoMissingKV xs = true := by
        cases hm with
        | inl h => exact .inl h
        | inr h => simp only [NoMissingKV, Bool.and_eq_true] at h; exact .inr h.2
      simp only [toJsonKV, fromJKV, rt_tree env ap hobj x hc.1 he.1.2 hm1, rt_kv env ap hobj xs hc.2 he.2 hm2]
  theorem rt_attrs (env : ClassEnv) (ap : Bool)
      (hobj : ∀ c attrs, Conforms env (.obj c attrs) = true → EncodableA false attrs = true →
        (ap = true ∨ NoMissingA attrs = true) →
        construct env ap c (kwOf (env.frozenOf c) attrs) = .ok (.obj c attrs))
      (frozen : List Str) :
      (attrs : List (Str × Tree)) → ConformsA env attrs = true → EncodableA false attrs = true →
        (ap = true ∨ NoMissingA attrs = true) →
        fromJKV env ap (toJsonA env frozen attrs) = .ok (kwOf frozen attrs)
    | [], _, _, _ => rfl
    | (k, x) :: xs, hc, he, hm => by
      simp only [ConformsA, EncodableA, Bool.and_eq_true] at hc he
      have hm2 : ap = true ∨ NoMissingA xs = true := by
        cases hm with
        | inl h => exact .inl h
        | inr h => simp only [NoMissingA, Bool.and_eq_true] at h; exact .inr h.2
      have ih := rt_attrs env ap hobj frozen xs hc.2 he.2 hm2
      rw [kwOf_cons]
      simp only [toJsonA]
      split
      · exact ih
      · rename_i hkeep
        have hnm : isMissing x = false := by
          cases hx : isMissing x with
          | false => rfl
          | true => simp [hx] at hkeep
        have hex : Encodable false x = true := by
          have := he.1.2; simp [hnm] at this; exact this
        have hm1 : ap = true ∨ NoMissing x = true := by
          cases hm with
          | inl h => exact .inl h
          | inr h => simp only [NoMissingA, Bool.and_eq_true] at h; exact .inr h.1
        simp only [fromJKV, rt_tree env ap hobj x hc.1 hex hm1, ih]
end

end Pg.C05

namespace Pg.C05

/-! ### `construct` rebuilds a conforming object from its keyword arguments -/

theorem hasIntKey_map (l : List (Str × Tree)) :
    hasIntKey (l.map (fun p => (Key.s p.1, p.2))) = false := by
  induction l with
  | nil => rfl
  | cons p r ih => simpa [hasIntKey] using ih

theorem attrsOK_names : (fs : List Field) → (attrs : List (Str × Tree)) → attrsOK fs attrs = true →
    attrs.map (·.1) = fieldNames fs
  | [], [], _ => rfl
  | f :: fs, (k, v) :: r, h => by
    simp only [attrsOK, Bool.and_eq_true, beq_iff_eq] at h
    simp only [List.map_cons, fieldNames]
    rw [← h.1.1]
    congr 1
    exact attrsOK_names fs r h.2
  | [], _ :: _, h | _ :: _, [], h => by simp [attrsOK] at h

theorem fieldsNodup_names : (fs : List Field) → fieldsNodup fs = true → (fieldNames fs).Nodup
  | [], _ => List.nodup_nil
  | f :: fs, h => by
    simp only [fieldsNodup, Bool.and_eq_true, Bool.not_eq_true', List.any_eq_false, beq_iff_eq] at h
    simp only [fieldNames, List.map_cons, List.nodup_cons, List.mem_map, not_exists, not_and]
    refine ⟨fun g hg hn => h.1 g hg hn, ?_⟩
    exact fieldsNodup_names fs h.2

theorem find_wf (env : ClassEnv) (hwf : env.WF = true) (c : Str) (fs : List Field)
    (h : env.find c = some fs) : fieldsNodup fs = true := by
  unfold ClassEnv.find at h
  split at h
  · rename_i p hp
    simp only [Option.some.injEq] at h
    have hm := List.mem_of_find?_eq_some hp
    unfold ClassEnv.WF at hwf
    rw [List.all_eq_true] at hwf
    rw [← h]; exact hwf p hm
  · cases h

theorem tlookup_kwOf_none (frozen : List Str) (k : Str) :
    (attrs : List (Str × Tree)) → k ∉ attrs.map (·.1) → tlookup k (kwOf frozen attrs) = none
  | [], _ => rfl
  | (k0, v0) :: r, h => by
    simp only [List.map_cons, List.mem_cons, not_or] at h
    have ih := tlookup_kwOf_none frozen k r h.2
    rw [kwOf_cons]
    split
    · exact ih
    · have : Key.s k0 ≠ Key.s k := by
        intro e; injection e with e; exact h.1 e.symm
      simp only [tlookup, if_neg this, ih]

theorem tlookup_kwOf (frozen : List Str) (k : Str) (v : Tree) :
    (attrs : List (Str × Tree)) → (attrs.map (·.1)).Nodup → (k, v) ∈ attrs →
      tlookup k (kwOf frozen attrs) = if keepAttr frozen (k, v) then some v else none
  | [], _, h => by cases h
  | (k0, v0) :: r, hn, h => by
    simp only [List.map_cons, List.nodup_cons] at hn
    rw [kwOf_cons]
    rcases List.mem_cons.mp h with heq | hmem
    · injection heq with hk hv
      subst hk; subst hv
      have hnone := tlookup_kwOf_none frozen k r hn.1
      cases h1 : frozen.contains k <;> cases h2 : isMissing v <;>
        simp only [keepAttr, h1, h2, Bool.or_false, Bool.or_true, Bool.not_true, Bool.not_false,
          if_true, if_false, Bool.false_eq_true, tlookup, hnone]
    · have hne : k0 ≠ k := by
        intro e; subst e
        exact hn.1 (List.mem_map.mpr ⟨(k0, v), hmem, rfl⟩)
      have ih := tlookup_kwOf frozen k v r hn.2 hmem
      split
      · exact ih
      · have : Key.s k0 ≠ Key.s k := by
          intro e; injection e with e; exact hne e
        simp only [tlookup, if_neg this, ih]

theorem frozenNames_contains : (fs : List Field) → (fieldNames fs).Nodup → (f : Field) → f ∈ fs →
    (frozenNames fs).contains f.name = f.frozen
  | [], _, _, h => by cases h
  | g :: fs, hn, f, h => by
    simp only [fieldNames, List.map_cons, List.nodup_cons] at hn
    rcases List.mem_cons.mp h with heq | hmem
    · subst heq
      cases hf : f.frozen with
      | true => simp [frozenNames, List.filter, hf]
      | false =>
        simp only [frozenNames, List.filter, hf]
        rw [Bool.eq_false_iff]
        intro hc
        rw [List.contains_iff_mem] at hc
        obtain ⟨g, hg, hgn⟩ := List.mem_map.mp hc
        exact hn.1 (List.mem_map.mpr ⟨g, (List.mem_filter.mp hg).1, hgn⟩)
    · have ih := frozenNames_contains fs hn.2 f hmem
      have hne : g.name ≠ f.name := by
        intro e
        exact hn.1 (e ▸ List.mem_map.mpr ⟨f, hmem, rfl⟩)
      cases hg : g.frozen with
      | false => simpa [frozenNames, List.filter, hg] using ih
      | true =>
        simp only [frozenNames, List.filter, hg, List.map_cons, List.contains_cons]
        have : (f.name == g.name) = false := by
          rw [beq_eq_false_iff_ne]; exact fun e => hne e.symm
        rw [this, Bool.false_or]
        exact ih

theorem isMissing_of_noMissing (v : Tree) (h : NoMissing v = true) : isMissing v = false := by
  cases v with
  | leaf a => cases a <;> simp_all [NoMissing, isMissing]
  | _ => rfl

theorem applyField_ok (f : Field) (v : Tree) (hfz : f.frozen = false) (hm : isMissing v = false)
    (hok : attrOK f v = true) : applyField f v = .ok v := by
  unfold applyField
  unfold attrOK at hok
  simp only [hfz, Bool.false_eq_true, if_false] at hok ⊢
  cases v with
  | leaf a =>
    cases a with
    | none => simp only at hok ⊢; simp [hok]
    | missing => simp [isMissing] at hm
    | bool b => simp only at hok ⊢; simp [hok]
    | int i => simp only at hok ⊢; simp [hok]
    | float t => simp only at hok ⊢; simp [hok]
    | str s => simp only at hok ⊢; simp [hok]
  | list xs => simp only at hok ⊢; simp [hok]
  | tuple xs => simp only at hok ⊢; simp [hok]
  | dict xs => simp only at hok ⊢; simp [hok]
  | obj c xs => simp only at hok ⊢; simp [hok]

/-- The value `bindFields` computes for one conforming attribute. -/
theorem bindOne (frozen : List Str) (A : List (Str × Tree)) (hA : (A.map (·.1)).Nodup)
    (f : Field) (v : Tree) (hmem : (f.name, v) ∈ A) (hfz : frozen.contains f.name = f.frozen)
    (hok : attrOK f v = true) :
    fieldValue (kwOf frozen A) f = .ok v := by
  unfold fieldValue
  rw [tlookup_kwOf frozen f.name v A hA hmem]
  simp only [keepAttr, hfz]
  cases hf : f.frozen with
  | true =>
    simp only [Bool.true_or, Bool.not_true, Bool.false_eq_true, if_false]
    unfold attrOK at hok
    simp only [hf, if_true] at hok
    cases hd : f.default with
    | none => simp [hd] at hok
    | some d =>
      simp only [hd, Bool.and_eq_true] at hok
      simp only
      rw [Tree.beq_eq v d hok.1]
  | false =>
    cases hm : isMissing v with
    | true =>
      simp only [Bool.false_or, Bool.not_true, Bool.false_eq_true, if_false]
      have hv : v = .leaf .missing := by
        cases v with
        | leaf a => cases a <;> simp_all [isMissing]
        | _ => simp [isMissing] at hm
      subst hv
      unfold attrOK at hok
      simp only [hf, Bool.false_eq_true, if_false, Option.isNone_iff_eq_none] at hok
      simp [hok]
    | false =>
      simp only [Bool.false_or, Bool.not_false, if_true]
      exact applyField_ok f v hf hm hok

theorem bindFields_ok (frozen : List Str) (A : List (Str × Tree)) (hA : (A.map (·.1)).Nodup) :
    (fs : List Field) → (attrs : List (Str × Tree)) → attrsOK fs attrs = true →
      (∀ f ∈ fs, frozen.contains f.name = f.frozen) → (∀ p ∈ attrs, p ∈ A) →
      bindFields (kwOf frozen A) fs = .ok attrs
  | [], [], _, _, _ => rfl
  | f :: fs, (k, v) :: r, h, hfz, hsub => by
    simp only [attrsOK, Bool.and_eq_true, beq_iff_eq] at h
    have hk : f.name = k := h.1.1
    subst hk
    have h1 := bindOne frozen A hA f v (hsub _ (List.mem_cons_self ..)) (hfz f (List.mem_cons_self ..)) h.1.2
    have h2 := bindFields_ok frozen A hA fs r h.2 (fun g hg => hfz g (List.mem_cons_of_mem _ hg))
      (fun p hp => hsub p (List.mem_cons_of_mem _ hp))
    simp only [bindFields, h1, h2]
  | [], _ :: _, h, _, _ | _ :: _, [], h, _, _ => by simp [attrsOK] at h

/-- Every required field has a keyword argument when no attribute is MISSING. -/
theorem required_present (frozen : List Str) (A : List (Str × Tree)) (hA : (A.map (·.1)).Nodup) :
    (fs : List Field) → (attrs : List (Str × Tree)) → attrsOK fs attrs = true →
      (∀ f ∈ fs, frozen.contains f.name = f.frozen) → (∀ p ∈ attrs, p ∈ A) →
      NoMissingA attrs = true →
      fs.any (fun f => f.default.isNone && (tlookup f.name (kwOf frozen A)).isNone) = false
  | [], [], _, _, _, _ => rfl
  | f :: fs, (k, v) :: r, h, hfz, hsub, hnm => by
    simp only [attrsOK, Bool.and_eq_true, beq_iff_eq] at h
    simp only [NoMissingA, Bool.and_eq_true] at hnm
    have hk : f.name = k := h.1.1
    subst hk
    have ih := required_present frozen A hA fs r h.2 (fun g hg => hfz g (List.mem_cons_of_mem _ hg))
      (fun p hp => hsub p (List.mem_cons_of_mem _ hp)) hnm.2
    simp only [List.any_cons, ih, Bool.or_false]
    rw [tlookup_kwOf frozen f.name v A hA (hsub _ (List.mem_cons_self ..))]
    have hm := isMissing_of_noMissing v hnm.1
    simp only [keepAttr, hfz f (List.mem_cons_self ..), hm, Bool.or_false]
    cases hf : f.frozen with
    | false => simp
    | true =>
      have hok := h.1.2
      unfold attrOK at hok
      simp only [hf, if_true] at hok
      cases hd : f.default with
      | none => simp [hd] at hok
      | some d => simp
  | [], _ :: _, h, _, _, _ | _ :: _, [], h, _, _, _ => by simp [attrsOK] at h

theorem construct_ok (env : ClassEnv) (hwf : env.WF = true) (ap : Bool) (c : Str)
    (attrs : List (Str × Tree)) (hc : Conforms env (.obj c attrs) = true)
    (_he : EncodableA false attrs = true) (hm : ap = true ∨ NoMissingA attrs = true) :
    construct env ap c (kwOf (env.frozenOf c) attrs) = .ok (.obj c attrs) := by
  simp only [Conforms, Bool.and_eq_true] at hc
  cases hfind : env.find c with
  | none => simp [hfind] at hc
  | some fs =>
    simp only [hfind] at hc
    have hnd := fieldsNodup_names fs (find_wf env hwf c fs hfind)
    have hnames := attrsOK_names fs attrs hc.1
    have hA : (attrs.map (·.1)).Nodup := by rw [hnames]; exact hnd
    have hfz : ∀ f ∈ fs, (frozenNames fs).contains f.name = f.frozen :=
      fun f hf => frozenNames_contains fs hnd f hf
    have hfro : env.frozenOf c = frozenNames fs := by simp [ClassEnv.frozenOf, hfind]
    rw [hfro]
    unfold construct
    simp only [hfind]
    have h1 : hasIntKey (kwOf (frozenNames fs) attrs) = false := hasIntKey_map _
    have h2 : (kwOf (frozenNames fs) attrs).any (unknownKey fs) = false := by
      rw [List.any_eq_false]
      intro p hp
      unfold kwOf at hp
      obtain ⟨q, hq, rfl⟩ := List.mem_map.mp hp
      have : q.1 ∈ fieldNames fs := by
        rw [← hnames]; exact List.mem_map.mpr ⟨q, (List.mem_filter.mp hq).1, rfl⟩
      simp [unknownKey, this]
    have h3 : (!ap && fs.any (fun f => f.default.isNone &&
        (tlookup f.name (kwOf (frozenNames fs) attrs)).isNone)) = false := by
      cases hm with
      | inl h => simp [h]
      | inr h =>
        rw [required_present (frozenNames fs) attrs hA fs attrs hc.1 hfz (fun p hp => hp) h]
        simp
    have h4 := bindFields_ok (frozenNames fs) attrs hA fs attrs hc.1 hfz (fun p hp => hp)
    simp only [h1, h2, h3, h4, Bool.false_eq_true, if_false]

end Pg.C05

namespace Pg.C05

/-! ### `resolve_typenames` accepts what `to_json` produced -/

mutual
  theorem rs_tree (env : ClassEnv) : (t : Tree) → Conforms env t = true → Encodable false t = true →
      resolveOk env (toJson env t) = true
    | .leaf a, _, he => by cases a <;> simp_all [toJson, atomJ, resolveOk, Encodable]
    | .list xs, hc, he => by
      simp only [Encodable, Bool.and_eq_true] at he
      simp only [Conforms] at hc
      simp only [toJson, resolveOk, rs_list env xs hc he.2]
    | .tuple xs, hc, he => by
      simp only [Encodable, Bool.and_eq_true] at he
      simp only [Conforms] at hc
      simp only [toJson, resolveOk, resolveOkL, rs_list env xs hc he.2, Bool.and_self]
    | .dict kvs, hc, he => by
      simp only [Encodable] at he
      simp only [Conforms, Bool.and_eq_true] at hc
      simp only [toJson, resolveOk, jlookup_toJsonKV_none env kvs he, rs_kv env kvs hc.2 he]
    | .obj c attrs, hc, he => by
      simp only [Encodable] at he
      simp only [Conforms, Bool.and_eq_true] at hc
      have hf : (env.find c).isSome = true := by
        cases h : env.find c with
        | none => simp [h] at hc
        | some fs => rfl
      simp only [toJson, resolveOk, jlookup, if_true, resolveOkKV, hf, Bool.true_and,
        rs_attrs env (env.frozenOf c) attrs hc.2 he]
  theorem rs_list (env : ClassEnv) : (xs : List Tree) → ConformsL env xs = true →
      EncodableL false xs = true → resolveOkL env (toJsonL env xs) = true
    | [], _, _ => rfl
    | x :: xs, hc, he => by
      simp only [ConformsL, EncodableL, Bool.and_eq_true] at hc he
      simp only [toJsonL, resolveOkL, rs_tree env x hc.1 he.1, rs_list env xs hc.2 he.2, Bool.and_self]
  theorem rs_kv (env : ClassEnv) : (kvs : List (Key × Tree)) → ConformsKV env kvs = true →
      EncodableKV false kvs = true → resolveOkKV env (toJsonKV env kvs) = true
    | [], _, _ => rfl
    | (k, x) :: xs, hc, he => by
      simp only [ConformsKV, EncodableKV, Bool.and_eq_true] at hc he
      simp only [toJsonKV, resolveOkKV, rs_tree env x hc.1 he.1.2, rs_kv env xs hc.2 he.2, Bool.and_self]
  theorem rs_attrs (env : ClassEnv) (frozen : List Str) : (attrs : List (Str × Tree)) →
      ConformsA env attrs = true → EncodableA false attrs = true →
      resolveOkKV env (toJsonA env frozen attrs) = true
    | [], _, _ => rfl
    | (k, x) :: xs, hc, he => by
      simp only [ConformsA, EncodableA, Bool.and_eq_true] at hc he
      have ih := rs_attrs env frozen xs hc.2 he.2
      simp only [toJsonA]
      split
      · exact ih
      · rename_i hkeep
        have hnm : isMissing x = false := by
          cases hx : isMissing x with
          | false => rfl
          | true => simp [hx] at hkeep
        have hex : Encodable false x = true := by
          have := he.1.2; simp [hnm] at this; exact this
        simp only [resolveOkKV, rs_tree env x hc.1 hex, ih, Bool.and_self]
end

end Pg.C05
