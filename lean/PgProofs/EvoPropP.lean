/- C14 — `Proportional._partition` hands out exactly `n` items. -/
import PgModel.EvoProp
import PgProofs.Evo
namespace Pg.C14

theorem sum_set_add : ∀ (l : List Nat) (i : Nat) (a v : Nat), l[i]? = some a →
    (l.set i v).sum + a = l.sum + v ∧ (l.set i v).length = l.length := by
  intro l
  induction l with
  | nil => intro i a v h; simp at h
  | cons x xs ih =>
    intro i a v h
    cases i with
    | zero =>
      simp only [List.getElem?_cons_zero, Option.some.injEq] at h
      subst h
      simp only [List.set_cons_zero, List.sum_cons, List.length_cons]
      exact ⟨by omega, trivial⟩
    | succ i =>
      simp only [List.getElem?_cons_succ] at h
      obtain ⟨h1, h2⟩ := ih i a v h
      simp only [List.set_cons_succ, List.sum_cons, List.length_cons]
      exact ⟨by omega, by omega⟩

theorem bump_spec {up : Bool} {l l' : List Nat} {i : Nat} (h : bump up l i = some l') :
    l'.length = l.length ∧ (up = true → l'.sum = l.sum + 1) ∧ (up = false → l'.sum + 1 = l.sum) := by
  unfold bump at h
  cases ha : l[i]? with
  | none => rw [ha] at h; cases h
  | some a =>
    rw [ha] at h
    simp only [] at h
    cases up with
    | true =>
      simp only [if_true, Option.some.injEq] at h
      subst h
      obtain ⟨h1, h2⟩ := sum_set_add l i a (a + 1) ha
      exact ⟨h2, fun _ => by omega, fun h => by cases h⟩
    | false =>
      simp only [Bool.false_eq_true, if_false] at h
      split at h
      · cases h
      · simp only [Option.some.injEq] at h
        subst h
        obtain ⟨h1, h2⟩ := sum_set_add l i a (a - 1) ha
        exact ⟨h2, fun h => (by cases h), fun _ => by omega⟩

theorem adjust_spec (up : Bool) (cands : List Nat) : ∀ (s nc : Nat) (alloc a : List Nat),
    adjust up cands s nc alloc = some a →
    a.length = alloc.length ∧ (up = true → a.sum = alloc.sum + s) ∧ (up = false → a.sum + s = alloc.sum) := by
  intro s
  induction s with
  | zero =>
    intro nc alloc a h
    simp only [adjust, Option.some.injEq] at h
    subst h
    exact ⟨rfl, fun _ => rfl, fun _ => rfl⟩
  | succ s ih =>
    intro nc alloc a h
    simp only [adjust] at h
    split at h
    · cases h
    · rename_i p _
      cases hc : cands[p]? with
      | none => rw [hc] at h; cases h
      | some idx =>
        rw [hc] at h
        simp only [] at h
        cases hb : bump up alloc idx with
        | none => rw [hb] at h; cases h
        | some alloc' =>
          rw [hb] at h
          simp only [] at h
          obtain ⟨b1, b2, b3⟩ := bump_spec hb
          obtain ⟨i1, i2, i3⟩ := ih (p + 1) alloc' a h
          refine ⟨by rw [i1, b1], fun hu => ?_, fun hu => ?_⟩
          · have := i2 hu; have := b2 hu; omega
          · have := i3 hu; have := b3 hu; omega

/-- the count law of `_partition`: whatever the weights, a returned allocation sums to `n`. -/
theorem partition_spec (ws : List Q) (n : Nat) (a : List Nat) (h : partition ws n = some a) :
    a.sum = n ∧ a.length = ws.length := by
  simp only [partition] at h
  split at h
  · rename_i ht
    simp only [Option.some.injEq] at h
    subst h
    exact ⟨ht, by simp⟩
  · rename_i ht
    obtain ⟨h1, h2, h3⟩ := adjust_spec _ _ _ _ _ _ h
    refine ⟨?_, by rw [h1]; simp⟩
    by_cases hlt : (List.map (fun w => roundHalfUp (↑n * w / qsum ws)) ws).sum < n
    · have hu : decide ((List.map (fun w => roundHalfUp (↑n * w / qsum ws)) ws).sum < n) = true := by simpa using hlt
      have := h2 hu
      simp only [hu, if_true] at this
      omega
    · have hu : decide ((List.map (fun w => roundHalfUp (↑n * w / qsum ws)) ws).sum < n) = false := by simpa using hlt
      have := h3 hu
      simp only [hu, Bool.false_eq_true, if_false] at this
      omega

theorem replicateAll_spec : ∀ (pop : List Ind) (alloc : List Nat), alloc.length = pop.length →
    (replicateAll pop alloc).length = alloc.sum ∧ ∀ y ∈ replicateAll pop alloc, y ∈ pop := by
  intro pop
  induction pop with
  | nil => intro alloc h; cases alloc <;> simp_all [replicateAll]
  | cons x xs ih =>
    intro alloc h
    cases alloc with
    | nil => simp at h
    | cons c cs =>
      obtain ⟨h1, h2⟩ := ih cs (by simpa using h)
      simp only [replicateAll, List.length_append, List.length_replicate, List.sum_cons, h1, true_and]
      intro y hy
      rcases List.mem_append.mp hy with hy | hy
      · rw [(List.mem_replicate.mp hy).2]; exact List.mem_cons_self
      · exact List.mem_cons_of_mem _ (h2 y hy)

theorem selProportional_spec (n : NSpec) (wf : Nat → List Q) (hwf : ∀ m, (wf m).length = m)
    (pop : Pop) (st : St) (out : Pop) (st' : St) (h : selProportional n wf pop st = .ok (out, st')) :
    (∀ y ∈ out, y ∈ pop) ∧ out.length = numOutput n pop.length ∧ st' = st := by
  simp only [selProportional] at h
  split at h
  · split at h
    · rename_i hk
      rw [pure_ok] at h
      obtain ⟨rfl, rfl⟩ := h
      exact ⟨by intro y hy; simp at hy, by simp [hk], rfl⟩
    · exact ((fail_ok _ _ _).mp h).elim
  · split at h
    · exact ((fail_ok _ _ _).mp h).elim
    · cases hp : partition (wf pop.length) (numOutput n pop.length) with
      | none => rw [hp] at h; exact ((fail_ok _ _ _).mp h).elim
      | some alloc =>
        rw [hp] at h
        simp only [] at h
        rw [pure_ok] at h
        obtain ⟨rfl, rfl⟩ := h
        obtain ⟨hs, hl⟩ := partition_spec _ _ _ hp
        obtain ⟨r1, r2⟩ := replicateAll_spec pop alloc (by rw [hl, hwf])
        exact ⟨r2, by rw [r1, hs], rfl⟩

theorem length_cycleWeights (ws : List Q) (m : Nat) : (cycleWeights ws m).length = m := by
  simp [cycleWeights]

end Pg.C14
