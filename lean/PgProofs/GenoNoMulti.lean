/-
  The odometer theorem for specs without multi-choices: for every finite, well-formed spec whose
  choices are all single choices, `first` is the head of `all`, `next` is the successor in `all`,
  and `all` has no duplicates. (Mutual structural induction over points / element lists /
  candidate lists.)
-/
import PgProofs.GenoEnum
namespace Pg.Geno
open DNA

theorem map_walkIdx {β γ δ : Type} (g : γ → δ) (F : Nat → β → List γ) :
    ∀ (s : Nat) (l : List β), (walkIdx F s l).map g = walkIdx (fun i b => (F i b).map g) s l
  | _, [] => rfl
  | s, b :: bs => by simp [walkIdx, map_walkIdx g F (s + 1) bs]

theorem allElems_cons (p : Point) (ps : List Point) :
    allElems (p :: ps) = lexProd (allP p) (allElems ps) := by
  simp [allElems, lexProd]

theorem flatMap_singleton_map_rootOf (c : Nat) (ksl : List (List DNA)) :
    (ksl.flatMap fun ks => [[DNA.mk (.int (c : Nat)) ks]]).map rootOf = nodeBlock c ksl := by
  induction ksl with
  | nil => rfl
  | cons a r ih =>
    simp only [List.flatMap_cons, List.map_append, ih]
    simp [nodeBlock, rootOf]

theorem allP_single (cands : List (List Point)) (d s : Bool) (info : Info) :
    allP (.choices 1 cands d s info) = walkIdx nodeBlock 0 (allCands cands) := by
  show (enumSeq (allCands cands) d s [] (0 + 1)).map rootOf = _
  simp only [enumSeq]
  rw [map_walkIdx]
  congr 1
  funext c ksl
  have : admissible d s [] c = true := by simp [admissible]
  simp only [this, if_true, List.map_cons, List.map_nil]
  exact flatMap_singleton_map_rootOf c ksl

theorem allCands_getElem? (cs : List (List Point)) (i : Nat) :
    (allCands cs)[i]? = cs[i]?.map fun c => (allElems c).map kidsL := by
  induction cs generalizing i with
  | nil => simp [allCands]
  | cons c cs ih =>
    cases i with
    | zero => simp [allCands]
    | succ i => simp [allCands, ih]

theorem allCands_length (cs : List (List Point)) : (allCands cs).length = cs.length := by
  induction cs with
  | nil => rfl
  | cons c cs ih => simp [allCands, ih]

theorem nodup_walkIdx_nodeBlock (subs : List (List (List DNA))) (h : ∀ ksl ∈ subs, ksl.Nodup) :
    ∀ s, (walkIdx nodeBlock s subs).Nodup := by
  induction subs with
  | nil => intro s; simp [walkIdx]
  | cons b rest ih =>
    intro s
    simp only [walkIdx]
    rw [List.nodup_append]
    refine ⟨?_, ih (fun k hk => h k (List.mem_cons_of_mem _ hk)) (s + 1), ?_⟩
    · unfold nodeBlock List.Nodup
      rw [List.pairwise_map]
      exact (h b List.mem_cons_self).imp (fun hne e => hne (node_inj e))
    · intro x hx y hy e
      subst e
      rw [mem_walkIdx] at hy
      obtain ⟨i, b', _, hy⟩ := hy
      simp only [nodeBlock, List.mem_map] at hx hy
      obtain ⟨_, _, rfl⟩ := hx
      obtain ⟨_, _, h2⟩ := hy
      have h3 := congrArg DNA.value h2
      simp only [DNA.value, Val.int.injEq] at h3
      omega

/-! ### The invariants -/

structure PtOk (p : Point) : Prop where
  head : (allP p).head? = some (firstP p)
  intTop : ∀ d ∈ allP p, IntTop d
  nodup : (allP p).Nodup
  next : ∀ d ∈ allP p, nextP p d = some (succIn (allP p) d)

structure ElemsOk (es : List Point) : Prop where
  head : (allElems es).head? = some (firstElems es)
  intTop : ∀ ds ∈ allElems es, ∀ d ∈ ds, IntTop d
  len : ∀ ds ∈ allElems es, ds.length = es.length
  nodup : (allElems es).Nodup
  next : ∀ ds ∈ allElems es, nextElems es ds = some
    (match succIn (allElems es) ds with
     | some ds' => (false, ds')
     | none => (true, firstElems es))

structure CandsOk (cs : List (List Point)) : Prop where
  all : ∀ (i : Nat) (c : List Point), cs[i]? = some c → ElemsOk c ∧ firstAt cs i = rootOf (firstElems c) ∧
    ∀ ds ∈ allElems c, nextAt cs i (rootOf ds) = some ((succIn (allElems c) ds).map rootOf)

theorem ElemsOk.first_mem {es : List Point} (ok : ElemsOk es) : firstElems es ∈ allElems es :=
  List.mem_of_mem_head? ok.head

theorem nextSpaceWith_rootOf {c : List Point} (ok : ElemsOk c) {ds : List DNA} (hds : ds ∈ allElems c) :
    nextSpaceWith (nextElems c) c.length (rootOf ds) = some ((succIn (allElems c) ds).map rootOf) := by
  have hlen := ok.len ds hds
  have harg : (if c.length == 1 then [rootOf ds] else (rootOf ds).children) = ds := by
    match ds, hlen with
    | [], hl => simp [← hl, rootOf, DNA.children]
    | [d], hl => simp [← hl, rootOf]
    | d1 :: d2 :: r, hl => simp [← hl, rootOf, DNA.children]
  unfold nextSpaceWith
  rw [harg, ok.next ds hds]
  cases hs : succIn (allElems c) ds with
  | none => rfl
  | some ds' =>
    have hm : ds' ∈ allElems c := succIn_mem hs
    simp [mk'_none_of_intTop (ok.intTop ds' hm)]

mutual
  theorem ptOk (p : Point) (hf : p.finite = true) (hw : p.wf = true) (hm : p.noMulti = true) : PtOk p := by
    cases p with
    | float => simp [Point.finite] at hf
    | custom => simp [Point.finite] at hf
    | choices k cands d s info =>
      simp only [Point.finite] at hf
      simp only [Point.wf, Bool.and_eq_true, decide_eq_true_eq, Bool.not_eq_true', List.isEmpty_eq_false_iff] at hw
      simp only [Point.noMulti, Bool.and_eq_true, decide_eq_true_eq] at hm
      obtain ⟨⟨⟨hk1, hne⟩, _⟩, hwc⟩ := hw
      obtain ⟨hk2, hmc⟩ := hm
      have hk : k = 1 := by omega
      subst hk
      have cok := candsOk cands hf hwc hmc
      -- the candidate enumerations, without `kidsL`
      have hsub : ∀ (i : Nat) (c : List Point), cands[i]? = some c → (allCands cands)[i]? = some (allElems c) := by
        intro i c hc
        rw [allCands_getElem?, hc]
        simp only [Option.map_some, Option.some.injEq]
        have ok := (cok.all i c hc).1
        calc (allElems c).map kidsL = (allElems c).map id :=
              List.map_congr_left (fun ds hds => kidsL_of_intTop (ok.intTop ds hds))
          _ = allElems c := List.map_id _
      have hsub' : ∀ (i : Nat) (ksl : List (List DNA)), (allCands cands)[i]? = some ksl → ∃ c, cands[i]? = some c ∧ ksl = allElems c := by
        intro i ksl h
        have hi : i < cands.length := by
          have := (List.getElem?_eq_some_iff.mp h).1
          rwa [allCands_length] at this
        refine ⟨cands[i], List.getElem?_eq_getElem hi, ?_⟩
        have := hsub i cands[i] (List.getElem?_eq_getElem hi)
        rw [h] at this
        exact Option.some.inj this
      have hne' : ∀ ksl ∈ allCands cands, ksl ≠ [] := by
        intro ksl hk
        obtain ⟨i, hi⟩ := List.getElem?_of_mem hk
        obtain ⟨c, hc, rfl⟩ := hsub' i ksl hi
        have ok := (cok.all i c hc).1
        intro e
        have := ok.head
        rw [e] at this
        cases this
      obtain ⟨c0, cs0, rfl⟩ : ∃ c0 cs0, cands = c0 :: cs0 := by
        cases cands with
        | nil => exact absurd rfl hne
        | cons a b => exact ⟨a, b, rfl⟩
      have h0 := cok.all 0 c0 rfl
      constructor
      all_goals rw [allP_single]
      · -- head
        rw [head?_walkIdx_nodeBlock 0 _ hne']
        have : (allCands (c0 :: cs0)).head? = some (allElems c0) := by
          have := hsub 0 c0 rfl
          rw [← List.head?_eq_getElem?] at this
          exact this
        rw [this]
        simp only [Option.bind_some, h0.1.head, Option.map_some, Option.some.injEq]
        simp only [firstP, List.range_one, List.map_cons, List.map_nil, ite_self, mk'_int_single, h0.2.1,
          kids_rootOf (h0.1.intTop _ h0.1.first_mem)]
        rfl
      · -- intTop
        intro x hx
        rw [mem_walkIdx] at hx
        obtain ⟨i, b, _, hx⟩ := hx
        simp only [nodeBlock, List.mem_map] at hx
        obtain ⟨ks, _, rfl⟩ := hx
        exact ⟨_, _, rfl⟩
      · -- nodup
        apply nodup_walkIdx_nodeBlock
        intro ksl hk
        obtain ⟨i, hi⟩ := List.getElem?_of_mem hk
        obtain ⟨c, hc, rfl⟩ := hsub' i ksl hi
        exact (cok.all i c hc).1.nodup
      · -- next
        intro x hx
        rw [mem_walkIdx] at hx
        obtain ⟨i, ksl, hi, hx⟩ := hx
        simp only [nodeBlock, List.mem_map, Nat.zero_add] at hx
        obtain ⟨ks, hks, rfl⟩ := hx
        obtain ⟨c, hc, rfl⟩ := hsub' i ksl hi
        have hi' : i < (c0 :: cs0).length := (List.getElem?_eq_some_iff.mp hc).1
        obtain ⟨ok, _, hnext⟩ := cok.all i c hc
        have hsucc := succIn_walkIdx_nodeBlock _ hne' 0 i _ ks hi hks
        simp only [Nat.zero_add] at hsucc
        rw [hsucc]
        simp only [nextP]
        rw [nextChoicesWith_single _ _ _ _ _ _ _ hi', mk'_none_of_intTop (ok.intTop ks hks), hnext ks hks]
        cases hs : succIn (allElems c) ks with
        | some ks' =>
          have hm' : ks' ∈ allElems c := succIn_mem hs
          simp [kids_rootOf (ok.intTop ks' hm'), Option.orElse]
        | none =>
          simp only [Option.map_none, Option.orElse]
          by_cases hlt : i + 1 < (c0 :: cs0).length
          · obtain ⟨c', hc'⟩ : ∃ c', (c0 :: cs0)[i + 1]? = some c' := ⟨_, List.getElem?_eq_getElem hlt⟩
            obtain ⟨ok', hf', _⟩ := cok.all (i + 1) _ hc'
            rw [hsub (i + 1) _ hc', if_pos hlt, hf', kids_rootOf (ok'.intTop _ ok'.first_mem)]
            simp [ok'.head]
          · have hnone : (allCands (c0 :: cs0))[i + 1]? = none := by
              rw [List.getElem?_eq_none_iff, allCands_length]; omega
            rw [hnone, if_neg hlt]
            rfl
  theorem elemsOk (es : List Point) (hf : finiteSpace es = true) (hw : wfSpace es = true)
      (hm : noMultiSpace es = true) : ElemsOk es := by
    cases es with
    | nil =>
      refine ⟨rfl, ?_, ?_, ?_, ?_⟩
      · intro ds hds; simp [allElems] at hds; subst hds; intro d hd; cases hd
      · intro ds hds; simp [allElems] at hds; subst hds; rfl
      · simp [allElems]
      · intro ds hds; simp [allElems] at hds; subst hds; simp [nextElems, allElems, succIn, firstElems]
    | cons p ps =>
      simp only [finiteSpace, wfSpace, noMultiSpace, Bool.and_eq_true] at hf hw hm
      have pok := ptOk p hf.1 hw.1 hm.1
      have eok := elemsOk ps hf.2 hw.2 hm.2
      refine ⟨?_, ?_, ?_, ?_, ?_⟩
      all_goals rw [allElems_cons]
      · exact head?_lexProd pok.head eok.head
      · intro ds hds d hd
        rw [mem_lexProd] at hds
        obtain ⟨a, ha, e, he, rfl⟩ := hds
        cases hd with
        | head => exact pok.intTop _ ha
        | tail _ h => exact eok.intTop e he d h
      · intro ds hds
        rw [mem_lexProd] at hds
        obtain ⟨a, ha, e, he, rfl⟩ := hds
        simp [eok.len e he]
      · exact nodup_lexProd pok.nodup eok.nodup
      · intro ds hds
        rw [mem_lexProd] at hds
        obtain ⟨a, ha, e, he, rfl⟩ := hds
        rw [succIn_lexProd ha he]
        simp only [nextElems, eok.next e he]
        cases hs : succIn (allElems ps) e with
        | some e' => rfl
        | none =>
          simp only [pok.next a ha, firstElems]
          cases hs2 : succIn (allP p) a with
          | some a' => simp [eok.head]
          | none => simp
  theorem candsOk (cs : List (List Point)) (hf : finiteCands cs = true) (hw : wfCands cs = true)
      (hm : noMultiCands cs = true) : CandsOk cs := by
    cases cs with
    | nil => exact ⟨fun i c h => by simp at h⟩
    | cons c cs =>
      simp only [finiteCands, wfCands, noMultiCands, Bool.and_eq_true] at hf hw hm
      have eok := elemsOk c hf.1 hw.1 hm.1
      have cok := candsOk cs hf.2 hw.2 hm.2
      constructor
      intro i c' hc'
      cases i with
      | zero =>
        simp only [List.getElem?_cons_zero, Option.some.injEq] at hc'
        subst hc'
        refine ⟨eok, ?_, ?_⟩
        · simp only [firstAt]
          exact mk'_none_of_intTop (eok.intTop _ eok.first_mem)
        · intro ds hds
          simp only [nextAt]
          exact nextSpaceWith_rootOf eok hds
      | succ i =>
        simp only [List.getElem?_cons_succ] at hc'
        obtain ⟨a, b, c⟩ := cok.all i c' hc'
        exact ⟨a, by simpa [firstAt] using b, by simpa [nextAt] using c⟩
end

end Pg.Geno
