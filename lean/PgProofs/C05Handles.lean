/- Open handles: with one position per handle a fresh reader sees the whole file whatever other
handles did; reads never change a buffer's content. -/
import PgModel.C05Handles
namespace Pg.C05

theorem sioRead_zero (c : List Char) : sioRead c 0 none = (c, c.length) := by
  simp [sioRead]

theorem getElem?_append_last {α : Type} (l : List α) (x : α) : (l ++ [x])[l.length]? = some x := by
  simp

/-- What `open(p, 'r')` does when it succeeds, per-handle semantics: the state only gains a handle
at position 0 on the buffer bound to the path. -/
theorem hOpen_r_fixed (cfg : HCfg) (hph : cfg.perHandle = true) (s s1 : HSt) (p : Path) (h : Nat)
    (hop : hOpen cfg s p .r = .ok (s1, h)) :
    ∃ id, h = s.handles.length ∧ s1 = { s with handles := s.handles ++ [⟨id, 0, false⟩] } := by
  unfold hOpen at hop
  split at hop
  · cases hop
  · cases hop
  · simp only [show (HMode.r = HMode.w) = False from by simp, show (HMode.r = HMode.a) = False from by simp,
      decide_false, Bool.false_and, Bool.or_false, Bool.false_eq_true, if_false, hph, if_true] at hop
    split at hop
    · cases hop
    · rename_i id _
      simp only [Except.ok.injEq, Prod.mk.injEq] at hop
      exact ⟨id, hop.2.symm, hop.1.symm⟩

/-- F130 repaired: with one position per handle, `readfile`'s fresh handle reads the *whole*
content of the file's buffer, whatever positions other (open, closed, stale) handles are at. -/
theorem fresh_reader_reads_all (cfg : HCfg) (hph : cfg.perHandle = true) (s s1 : HSt) (p : Path)
    (h : Nat) (hop : hOpen cfg s p .r = .ok (s1, h)) :
    (hRead cfg s1 h none).2 = hContent s1 h := by
  obtain ⟨id, hh, hs1⟩ := hOpen_r_fixed cfg hph s s1 p h hop
  subst hh; subst hs1
  simp only [hRead, hPos, hph, if_true, getElem?_append_last, sioRead_zero]

end Pg.C05
