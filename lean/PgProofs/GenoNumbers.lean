/-
  C12: the flat-number view reconstructs the DNA: `from_numbers(spec, to_numbers(d)) = d` for
  every valid `d` (specs without custom decision points, whose children are user defined).
-/
import PgProofs.GenoRandom
import PgProofs.GenoBind
import PgModel.Geno.Views
namespace Pg.Geno
open DNA

theorem flatList_append : ∀ (a b : List DNA), flatList (a ++ b) = flatList a ++ flatList b
  | [], b => rfl
  | x :: a, b => by simp [flatList, flatList_append a b]

theorem flatList_unkids (c : Space) (ks : List DNA) : flatList (unkids c ks) = flatList ks := by
  match c with
  | [] => rfl
  | [.choices k cands d s info] =>
    by_cases hk : k = 1
    · subst hk; simp [unkids]
    · simp [unkids, hk, flatList, flat]
  | [.float ..] => rfl
  | [.custom _] => rfl
  | p :: q :: r => cases p <;> rfl

theorem floatLeavesList_unkids (c : Space) (ks : List DNA) (h : floatLeavesList (unkids c ks) = true) :
    floatLeavesList ks = true := by
  match c, h with
  | [], h => exact h
  | [.choices k cands d s info], h =>
    by_cases hk : k = 1
    · subst hk; simpa [unkids] using h
    · simp only [unkids, hk, beq_iff_eq, if_false, floatLeavesList, floatLeaves, Bool.and_true, Bool.true_and] at h
      exact h
  | [.float ..], h => exact h
  | [.custom _], h => exact h
  | p :: q :: r, h =>
    have : unkids (p :: q :: r) ks = ks := by cases p <;> rfl
    rw [this] at h; exact h

/-! ### valid DNAs of specs without custom points have leaf floats -/

theorem floatLeavesList_of_forall : ∀ (ss : List DNA), (∀ x ∈ ss, floatLeaves x = true) → floatLeavesList ss = true
  | [], _ => rfl
  | x :: xs, h => by
    simp only [floatLeavesList, Bool.and_eq_true]
    exact ⟨h x List.mem_cons_self, floatLeavesList_of_forall xs (fun y hy => h y (List.mem_cons_of_mem _ hy))⟩

mutual
  theorem floatLeaves_of_validP (p : Point) (hc : p.noCustom = true) :
      ∀ d, validP p d = true → floatLeaves d = true := by
    cases p with
    | custom => simp [Point.noCustom] at hc
    | float a b c d' info =>
      intro d h
      cases d with
      | mk v cs => cases v <;> cases cs <;> simp_all [validP, floatLeaves, floatLeavesList]
    | choices k cands dd ss info =>
      simp only [Point.noCustom] at hc
      have hC := floatLeaves_of_validKids cands hc
      intro d h
      simp only [validP] at h
      cases hu : unroot k d with
      | none => simp [hu] at h
      | some seq =>
        simp only [hu, Bool.and_eq_true] at h
        have hall := h.1.1.2
        have hnodes : ∀ x ∈ seq, floatLeaves x = true := by
          intro x hx
          have := (List.all_eq_true.mp hall) x hx
          cases x with
          | mk w gs =>
            cases w with
            | int i =>
              simp only [validNodeWith, Bool.and_eq_true] at this
              simp only [floatLeaves, Bool.true_and]
              exact hC _ _ this.2
            | none => simp [validNodeWith] at this
            | flt => simp [validNodeWith] at this
            | str => simp [validNodeWith] at this
        -- d is either the single node or the `None` container of the nodes
        unfold unroot at hu
        by_cases hk : (k == 1) = true
        · simp only [hk, if_true, Option.some.injEq] at hu
          subst hu
          exact hnodes d List.mem_cons_self
        · simp only [hk, Bool.false_eq_true, if_false] at hu
          cases d with
          | mk w gs =>
            cases w with
            | none =>
              simp only [Option.some.injEq] at hu
              subst hu
              simp only [floatLeaves, Bool.true_and]
              exact floatLeavesList_of_forall _ hnodes
            | int => simp at hu
            | flt => simp at hu
            | str => simp at hu
  theorem floatLeaves_of_validElems (es : List Point) (hc : noCustomSpace es = true) :
      ∀ ds, validElems es ds = true → floatLeavesList ds = true := by
    cases es with
    | nil => intro ds h; cases ds with
      | nil => rfl
      | cons a b => simp [validElems] at h
    | cons p ps =>
      simp only [noCustomSpace, Bool.and_eq_true] at hc
      intro ds h
      cases ds with
      | nil => simp [validElems] at h
      | cons d ds =>
        simp only [validElems, Bool.and_eq_true] at h
        simp only [floatLeavesList, Bool.and_eq_true]
        exact ⟨floatLeaves_of_validP p hc.1 d h.1, floatLeaves_of_validElems ps hc.2 ds h.2⟩
  theorem floatLeaves_of_validKids (cs : List (List Point)) (hc : noCustomCands cs = true) :
      ∀ (i : Nat) (ks : List DNA), validKidsAt cs i ks = true → floatLeavesList ks = true := by
    cases cs with
    | nil => intro i ks h; simp [validKidsAt] at h
    | cons c cs =>
      simp only [noCustomCands, Bool.and_eq_true] at hc
      intro i ks h
      cases i with
      | zero =>
        simp only [validKidsAt] at h
        exact floatLeavesList_unkids c ks (floatLeaves_of_validElems c hc.1 _ h)
      | succ i =>
        simp only [validKidsAt] at h
        exact floatLeaves_of_validKids cs hc.2 i ks h
end

theorem floatLeaves_of_valid (g : Spec) (hc : g.noCustom = true) (d : DNA) (h : g.valid d = true) :
    floatLeaves d = true := by
  cases g with
  | point p => exact floatLeaves_of_validP p hc d h
  | space s =>
    simp only [Spec.valid, validS] at h
    cases hu : unroot s.length d with
    | none => simp [hu] at h
    | some ds =>
      simp only [hu] at h
      have hfl := floatLeaves_of_validElems s hc ds h
      unfold unroot at hu
      by_cases hk : (s.length == 1) = true
      · simp only [hk, if_true, Option.some.injEq] at hu
        subst hu
        simp only [floatLeavesList, Bool.and_true] at hfl; exact hfl
      · simp only [hk, Bool.false_eq_true, if_false] at hu
        cases d with
        | mk w gs =>
          cases w with
          | none =>
            simp only [Option.some.injEq] at hu
            subst hu
            simp only [floatLeaves, Bool.true_and]; exact hfl
          | int => simp at hu
          | flt => simp at hu
          | str => simp at hu

/-! ### from_numbers ∘ flat -/

theorem takeIdx_int (n : Nat) (c : Nat) (hc : c < n) (rest : List Val) :
    takeIdx n (.int (c : Nat) :: rest) = some (c, rest) := by
  have : inRange n (c : Nat) = true := by simp [inRange, hc]
  simp [takeIdx, this]

theorem repeatM_all (f : List Val → Option (DNA × List Val)) :
    ∀ (ss : List DNA) (rest : List Val), (∀ x ∈ ss, ∀ r, f (flat x ++ r) = some (x, r)) →
      repeatM f ss.length (flatList ss ++ rest) = some (ss, rest)
  | [], rest, _ => rfl
  | x :: xs, rest, h => by
    simp only [List.length_cons, repeatM, flatList, List.append_assoc, h x List.mem_cons_self,
      repeatM_all f xs rest (fun y hy => h y (List.mem_cons_of_mem _ hy)), Option.map_some]

mutual
  theorem fromNumP_flat (p : Point) (hc : p.noCustom = true) :
      ∀ (d : DNA) (rest : List Val), validP p d = true → fromNumP p (flat d ++ rest) = some (d, rest) := by
    cases p with
    | custom => simp [Point.noCustom] at hc
    | float a b c d' info =>
      intro d rest h
      cases d with
      | mk v cs =>
        cases v with
        | flt n e =>
          cases cs with
          | nil =>
            simp only [validP, Bool.and_eq_true] at h
            simp [flat, flatList, fromNumP, h.1, h.2]
          | cons g gs => simp [validP] at h
        | none => simp [validP] at h
        | int => simp [validP] at h
        | str => simp [validP] at h
    | choices k cands dd ss info =>
      simp only [Point.noCustom] at hc
      have hC := fromNumAt_flat cands hc
      -- one single-choice node
      have hnode : ∀ x, validNodeWith cands.length (validKidsAt cands) x = true → ∀ r,
          fromNumSingleWith cands.length (fromNumAt cands) (flat x ++ r) = some (x, r) := by
        intro x hx r
        cases x with
        | mk w ks =>
          cases w with
          | int i =>
            simp only [validNodeWith, Bool.and_eq_true, decide_eq_true_eq] at hx
            obtain ⟨⟨h0, hlt⟩, hk⟩ := hx
            obtain ⟨c, rfl⟩ : ∃ c : Nat, i = (c : Nat) := ⟨i.toNat, (Int.toNat_of_nonneg h0).symm⟩
            have hc' : c < cands.length := by exact_mod_cast hlt
            simp only [Int.toNat_natCast] at hk
            obtain ⟨cand, hcand⟩ : ∃ cand, cands[c]? = some cand := ⟨_, List.getElem?_eq_getElem hc'⟩
            rw [validKidsAt_of _ _ _ _ hcand] at hk
            have := hC c cand (unkids cand ks) r hcand hk
            rw [flatList_unkids] at this
            simp only [flat, List.cons_append, List.nil_append, List.append_assoc, fromNumSingleWith,
              takeIdx_int _ c hc', this, Option.map_some, mk'_int_single,
              kids_mk'_none cand _ hk, kidsL_unkids cand ks hk]
          | none => simp [validNodeWith] at hx
          | flt => simp [validNodeWith] at hx
          | str => simp [validNodeWith] at hx
      intro d rest h
      simp only [validP] at h
      cases hu : unroot k d with
      | none => simp [hu] at h
      | some seq =>
        simp only [hu, Bool.and_eq_true, beq_iff_eq] at h
        obtain ⟨⟨⟨hl, hall⟩, _⟩, _⟩ := h
        have hnodes : ∀ x ∈ seq, validNodeWith cands.length (validKidsAt cands) x = true :=
          fun x hx => (List.all_eq_true.mp hall) x hx
        unfold unroot at hu
        by_cases hk : (k == 1) = true
        · simp only [hk, if_true, Option.some.injEq] at hu
          subst hu
          simp only [fromNumP, hk, if_true]
          exact hnode d (hnodes d List.mem_cons_self) rest
        · simp only [hk, Bool.false_eq_true, if_false] at hu
          cases d with
          | mk w gs =>
            cases w with
            | none =>
              simp only [Option.some.injEq] at hu
              subst hu
              have hk1 : gs.length ≠ 1 := by
                intro e; rw [hl] at e; simp [e] at hk
              simp only [fromNumP, hk, Bool.false_eq_true, if_false, flat, List.nil_append]
              rw [← hl, repeatM_all _ gs rest (fun x hx r => hnode x (hnodes x hx) r)]
              simp only [Option.map_some, Option.some.injEq, Prod.mk.injEq, and_true]
              match gs, hk1 with
              | [], _ => rfl
              | [g], h1 => exact absurd rfl h1
              | a :: b :: t, _ => exact mk'_none_two a b t
            | int => simp at hu
            | flt => simp at hu
            | str => simp at hu
  theorem fromNumElems_flat (es : List Point) (hc : noCustomSpace es = true) :
      ∀ (ds : List DNA) (rest : List Val), validElems es ds = true →
        fromNumElems es (flatList ds ++ rest) = some (ds, rest) := by
    cases es with
    | nil =>
      intro ds rest h
      cases ds with
      | nil => rfl
      | cons a b => simp [validElems] at h
    | cons p ps =>
      simp only [noCustomSpace, Bool.and_eq_true] at hc
      intro ds rest h
      cases ds with
      | nil => simp [validElems] at h
      | cons d ds =>
        simp only [validElems, Bool.and_eq_true] at h
        simp only [flatList, List.append_assoc, fromNumElems, fromNumP_flat p hc.1 d _ h.1,
          fromNumElems_flat ps hc.2 ds rest h.2, Option.map_some]
  theorem fromNumAt_flat (cs : List (List Point)) (hc : noCustomCands cs = true) :
      ∀ (i : Nat) (c : List Point) (es : List DNA) (rest : List Val), cs[i]? = some c →
        validElems c es = true → fromNumAt cs i (flatList es ++ rest) = some (mk' .none es, rest) := by
    cases cs with
    | nil => intro i c es rest h; simp at h
    | cons c0 cs =>
      simp only [noCustomCands, Bool.and_eq_true] at hc
      intro i c es rest hi hv
      cases i with
      | zero =>
        simp only [List.getElem?_cons_zero, Option.some.injEq] at hi
        subst hi
        simp only [fromNumAt, fromNumElems_flat c0 hc.1 es rest hv, Option.map_some]
      | succ i =>
        simp only [List.getElem?_cons_succ] at hi
        simp only [fromNumAt]
        exact fromNumAt_flat cs hc.2 i c es rest hi hv
end

theorem fromNumbers_flat (g : Spec) (hc : g.noCustom = true) (d : DNA) (h : g.valid d = true) :
    g.fromNumbers (flat d) = some d := by
  have hb : g.bind d = true := by
    rw [bind_eq_valid g d (floatLeaves_of_valid g hc d h)]; exact h
  cases g with
  | point p =>
    have := fromNumP_flat p hc d [] h
    simp only [List.append_nil] at this
    simp [Spec.fromNumbers, this, hb]
  | space s =>
    simp only [Spec.valid, validS] at h
    cases hu : unroot s.length d with
    | none => simp [hu] at h
    | some ds =>
      simp only [hu] at h
      have hflat : flat d = flatList ds := by
        unfold unroot at hu
        by_cases hk : (s.length == 1) = true
        · simp only [hk, if_true, Option.some.injEq] at hu
          subst hu; simp [flatList]
        · simp only [hk, Bool.false_eq_true, if_false] at hu
          cases d with
          | mk w gs =>
            cases w with
            | none => simp only [Option.some.injEq] at hu; subst hu; simp [flat]
            | int => simp at hu
            | flt => simp at hu
            | str => simp at hu
      have hd : mk' .none ds = d := by
        have h1 := unroot_mk'_none s ds h
        have hl := validElems_length s ds h
        exact ((unroot_iff hl).mp hu).symm ▸ (((unroot_iff hl).mp h1).symm ▸ rfl)
      have := fromNumElems_flat s hc ds [] h
      simp only [List.append_nil] at this
      simp [Spec.fromNumbers, hflat, this, hd, hb]

end Pg.Geno
