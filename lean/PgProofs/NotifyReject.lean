/- C09: writes refused by a value spec leave no trace. -/
import PgModel.Notify
namespace Pg.C09

theorem stepV_rejected (rules : Rules) (root : T) (recv : Path) (n : Bool) (op : Op) (e : RejErr)
    (h : rejection rules root recv op = some e) :
    stepV rules root recv n op = { tree := root, ok := false, events := [] } := by
  simp [stepV, h]

theorem stepV_accepted (rules : Rules) (root : T) (recv : Path) (n : Bool) (op : Op)
    (h : rejection rules root recv op = none) :
    stepV rules root recv n op = step root recv n op := by
  simp [stepV, h]

theorem runV_keepAccepted (rules : Rules) : ∀ (hist : List VCall) (t : T),
    runV rules t hist = runV rules t (keepAccepted rules t hist)
  | [], _ => rfl
  | c :: rest, t => by
    cases h : rejection rules t c.recv c.op with
    | some e =>
      simp only [runV, keepAccepted, h, stepV]
      exact runV_keepAccepted rules rest t
    | none =>
      simp only [runV, keepAccepted, h, stepV]
      exact runV_keepAccepted rules rest _

end Pg.C09
