/-
  C06 helper lemmas, part 7: key sorting (`canon`) is the identity on `Comparable` values, so
  `pg.lt` (`symLt`) coincides with its positional core `lt` there.
-/
import PgProofs.CompareTrans
namespace Pg.C06

variable {env : Env}

theorem okTrue_iff (r : Except Err Bool) : okTrue r = true ↔ r = .ok true := by
  cases r with
  | error e => simp [okTrue]
  | ok b => cases b <;> simp [okTrue]

theorem sortItems_asc (xs : List (Atom × Val)) (h : ascKeys env xs = true) : sortItems env xs = xs := by
  induction xs with
  | nil => rfl
  | cons p xs ih =>
    obtain ⟨k, v⟩ := p
    obtain ⟨h1, h2⟩ := ascKeys_cons h
    simp only [sortItems, ih h2]
    cases xs with
    | nil => rfl
    | cons q xs =>
      obtain ⟨k', w⟩ := q
      have := h1 (k', w) (List.mem_cons_self ..)
      simp [insertItem, (okTrue_iff _).mpr this]

theorem canonList_tuple (num : Bool) (xs : List Val) (h : xs.all (tupleElemOk num) = true) :
    canonList env xs = xs := by
  induction xs with
  | nil => rfl
  | cons x xs ih =>
    simp only [List.all_cons, Bool.and_eq_true] at h
    cases x with
    | atom a => simp [canonList, canon, ih h.2]
    | _ => simp [tupleElemOk] at h

mutual
  theorem canon_id (num : Bool) (x : Val) (hx : comparable env num x = true) : canon env x = x := by
    cases x with
    | atom a => rfl
    | list s xs => simp only [comparable] at hx; simp only [canon, canonList_id num xs hx]
    | tuple xs => simp only [comparable] at hx; simp only [canon, canonList_tuple num xs hx]
    | dict s kvs =>
      simp only [comparable, Bool.and_eq_true] at hx
      have h1 : ascKeys env kvs = true := hx.1
      simp only [canon, canonItems_id num kvs hx.2, sortItems_asc kvs h1]
    | obj c kvs =>
      simp only [comparable, Bool.and_eq_true] at hx
      simp only [canon, canonItems_id num kvs hx.2]
      cases hd : env.dyn c
      · simp
      · have h1 : ascKeys env kvs = true := by simpa [objSh, hd, keysOk] using hx.1
        simp [sortItems_asc kvs h1]
  termination_by structural x
  theorem canonList_id (num : Bool) (xs : List Val) (hx : comparableList env num xs = true) :
      canonList env xs = xs := by
    cases xs with
    | nil => rfl
    | cons x xs =>
      simp only [comparableList, Bool.and_eq_true] at hx
      simp only [canonList, canon_id num x hx.1, canonList_id num xs hx.2]
  termination_by structural xs
  theorem canonItems_id (num : Bool) (xs : List (Atom × Val)) (hx : comparableItems env num xs = true) :
      canonItems env xs = xs := by
    cases xs with
    | nil => rfl
    | cons p xs =>
      obtain ⟨k, v⟩ := p
      simp only [comparableItems, Bool.and_eq_true] at hx
      simp only [canonItems, canon_id num v hx.1, canonItems_id num xs hx.2]
  termination_by structural xs
end

/-- On comparable values `pg.lt` is its positional core. -/
theorem symLt_eq_lt (num : Bool) (x y : Val) (hx : comparable env num x = true)
    (hy : comparable env num y = true) : symLt env x y = lt env x y := by
  simp only [symLt, canon_id num x hx, canon_id num y hy]

end Pg.C06
