/-
  Lemmas about `Tree.clone` (C07) and the frame property of `updateAt`.
-/
import PgProofs.SymLocal
namespace Pg.Sym

/-- a tree that sits at (`par`, `p`) and is consistent below. -/
def Tree.okAt (par : Option Nat) (p : List Key) : Tree → Bool
  | .leaf _ => true
  | .node m its => (m.parent == par && m.path == p) && okItems m.id p its

theorem okAt_node {par : Option Nat} {p : List Key} {m : Meta} {its : Items} :
    (Tree.node m its).okAt par p = true ↔ (m.parent = par ∧ m.path = p) ∧ okItems m.id p its = true := by
  simp [Tree.okAt, Bool.and_eq_true]

theorem okSub_iff_okAt (h : Nat) (p : List Key) (t : Tree) : t.okSub h p = t.okAt (some h) p := by
  cases t <;> simp [Tree.okSub, Tree.okAt]

theorem okRoot_of_okAt {par : Option Nat} {p : List Key} {t : Tree} (h : t.okAt par p = true) : t.okRoot = true := by
  cases t with
  | leaf a => rfl
  | node m its =>
    rw [okAt_node] at h
    show okItems m.id m.path its = true
    rw [h.1.2]; exact h.2

/-! ### seal changes flags only -/

mutual
  theorem seal_okSub (s : Bool) (h : Nat) (p : List Key) : (t : Tree) → t.okSub h p = true → (t.seal s).okSub h p = true
    | .leaf _, _ => by simp [Tree.seal, Tree.okSub]
    | .node m its, hok => by
      rw [okSub_node] at hok
      unfold Tree.seal
      rw [okSub_node]; exact ⟨hok.1, sealItems_ok s m.id p its hok.2⟩
  theorem sealItems_ok (s : Bool) (h : Nat) (p : List Key) : (its : Items) → okItems h p its = true →
      okItems h p (sealItems s its) = true
    | [], _ => by simp [sealItems, okItems]
    | (k, c) :: r, hok => by
      rw [okItems_cons] at hok
      unfold sealItems
      rw [okItems_cons]
      exact ⟨seal_okSub s h (p ++ [k]) c hok.1, sealItems_ok s h p r hok.2⟩
end

theorem seal_okAt (s : Bool) (par : Option Nat) (p : List Key) (t : Tree) (h : t.okAt par p = true) :
    (t.seal s).okAt par p = true := by
  cases t with
  | leaf a => simp [Tree.seal, Tree.okAt]
  | node m its =>
    rw [okAt_node] at h
    unfold Tree.seal
    rw [okAt_node]; exact ⟨h.1, sealItems_ok s m.id p its h.2⟩

theorem sealIf_okAt (b : Bool) (par : Option Nat) (p : List Key) (t : Tree) (h : t.okAt par p = true) :
    (sealIf b t).okAt par p = true := by
  unfold sealIf
  split
  · exact seal_okAt true par p t h
  · exact h

theorem adopt_okAt (a b : Bool) (par : Option Nat) (p : List Key) (t : Tree) (h : t.okAt par p = true) :
    (adoptPartial a b t).okAt par p = true := by
  cases t with
  | leaf x => simp [adoptPartial, Tree.okAt]
  | node m its =>
    simp only [adoptPartial]
    split
    · rw [okAt_node] at h ⊢; exact h
    · exact h

theorem adoptItems_ok (b : Bool) (h : Nat) (p : List Key) (its : Items) (hok : okItems h p its = true) :
    okItems h p (its.map (fun kv => (kv.1, adoptPartial true b kv.2))) = true := by
  rw [okItems_mem] at hok ⊢
  intro kv hkv
  simp only [List.mem_map] at hkv
  obtain ⟨kv0, h0, rfl⟩ := hkv
  simp only
  rw [okSub_iff_okAt]
  apply adopt_okAt
  rw [← okSub_iff_okAt]
  exact hok kv0 h0

theorem adopt_ids (a b : Bool) (t : Tree) : (adoptPartial a b t).ids = t.ids := by
  cases t with
  | leaf x => rfl
  | node m its => simp only [adoptPartial]; split <;> rfl

theorem adoptItems_ids (b : Bool) : (its : Items) →
    idsItems (its.map (fun kv => (kv.1, adoptPartial true b kv.2))) = idsItems its
  | [] => rfl
  | (k, c) :: r => by simp [idsItems, adopt_ids, adoptItems_ids b r]

/-! ### the clone is a well-formed tree at its destination -/

mutual
  theorem clone_okAt (cfg : Cfg) (deep : Bool) (next : Nat) (par : Option Nat) (p : List Key) :
      (t : Tree) → (t.clone cfg deep next par p).1.okAt par p = true
    | .leaf a => by
      cases a <;> cases deep <;> simp [Tree.clone, Tree.okAt]
    | .node m its => by
      unfold Tree.clone
      simp only
      apply sealIf_okAt
      rw [okAt_node]
      refine ⟨⟨rfl, rfl⟩, ?_⟩
      have ih := cloneItems_ok cfg deep (next + 1) next p its
      cases hk : m.kind with
      | list =>
        simp only
        apply setPathItems_selfOk
        apply selfOk_of_vals (selfOk_of_okItems ih)
        intro kv hkv
        obtain ⟨kv1, h1, h2⟩ := renumberFrom_vals 0 _ kv hkv
        exact ⟨kv1, (List.mem_filter.mp h1).1, h2⟩
      | dict => exact ih
      | obj c => exact adoptItems_ok _ _ p _ ih
  theorem cloneItems_ok (cfg : Cfg) (deep : Bool) (next : Nat) (h : Nat) (p : List Key) :
      (its : Items) → okItems h p (cloneItems cfg deep next h p its).1 = true
    | [] => by simp [cloneItems, okItems]
    | (k, c) :: r => by
      unfold cloneItems
      simp only
      rw [okItems_cons]
      refine ⟨?_, cloneItems_ok cfg deep _ h p r⟩
      rw [okSub_iff_okAt]
      exact clone_okAt cfg deep next (some h) (p ++ [k]) c
end

/-! ### ids of a clone are fresh -/

mutual
  theorem seal_ids (s : Bool) : (t : Tree) → (t.seal s).ids = t.ids
    | .leaf _ => by simp [Tree.seal]
    | .node m its => by
      unfold Tree.seal
      simp [Tree.ids, sealItems_ids s its]
  theorem sealItems_ids (s : Bool) : (its : Items) → idsItems (sealItems s its) = idsItems its
    | [] => by simp [sealItems]
    | (k, c) :: r => by simp [sealItems, idsItems, seal_ids s c, sealItems_ids s r]
end

theorem sealIf_ids (b : Bool) (t : Tree) : (sealIf b t).ids = t.ids := by
  unfold sealIf
  split
  · exact seal_ids true t
  · rfl

mutual
  theorem setPath_ids (p : List Key) : (t : Tree) → (t.setPath p).ids = t.ids
    | .leaf _ => by simp [Tree.setPath]
    | .node m its => by
      unfold Tree.setPath
      split
      · rfl
      · simp [Tree.ids, setPathItems_ids p its]
  theorem setPathItems_ids (p : List Key) : (its : Items) → idsItems (setPathItems p its) = idsItems its
    | [] => by simp [setPathItems]
    | (k, c) :: r => by simp [setPathItems, idsItems, setPath_ids (p ++ [k]) c, setPathItems_ids p r]
end

theorem renumberFrom_ids (n : Nat) : (its : Items) → idsItems (renumberFrom n its) = idsItems its
  | [] => by simp [renumberFrom]
  | (k, c) :: r => by simp [renumberFrom, idsItems, renumberFrom_ids (n + 1) r]

theorem filterMissing_ids : (its : Items) → idsItems (its.filter (fun kv => !kv.2.isMissing)) = idsItems its
  | [] => by simp
  | (k, c) :: r => by
    simp only [List.filter]
    cases hm : c.isMissing with
    | true =>
      simp only [Bool.not_true]
      have : c.ids = [] := by
        cases c with
        | leaf a => simp [Tree.ids]
        | node m its => simp [Tree.isMissing] at hm
      simp [idsItems, this, filterMissing_ids r]
    | false => simp [idsItems, filterMissing_ids r]

mutual
  /-- every id of a clone lies in `[next, next')`, where `next'` is the returned counter. -/
  theorem clone_fresh (cfg : Cfg) (deep : Bool) (next : Nat) (par : Option Nat) (p : List Key) :
      (t : Tree) → next ≤ (t.clone cfg deep next par p).2 ∧
        ∀ i ∈ (t.clone cfg deep next par p).1.ids, next ≤ i ∧ i < (t.clone cfg deep next par p).2
    | .leaf a => by
      cases a <;> cases deep <;> simp [Tree.clone, Tree.ids]
    | .node m its => by
      have ih := cloneItems_fresh cfg deep (next + 1) next p its
      unfold Tree.clone
      simp only
      rw [sealIf_ids]
      have fin : ∀ (its' : Items), idsItems its' = idsItems (cloneItems cfg deep (next + 1) next p its).1 →
          next ≤ (cloneItems cfg deep (next + 1) next p its).2 ∧
          ∀ i ∈ next :: idsItems its', next ≤ i ∧ i < (cloneItems cfg deep (next + 1) next p its).2 := by
        intro its' he
        refine ⟨by omega, ?_⟩
        intro i hi
        simp only [List.mem_cons] at hi
        rcases hi with rfl | hi
        · omega
        · rw [he] at hi
          have := ih.2 i hi
          omega
      cases hk : m.kind with
      | list =>
        simp only [Tree.ids]
        exact fin _ (by simp [setPathItems_ids, renumber, renumberFrom_ids, filterMissing_ids])
      | dict => simp only [Tree.ids]; exact fin _ rfl
      | obj c => simp only [Tree.ids]; exact fin _ (adoptItems_ids _ _)
  theorem cloneItems_fresh (cfg : Cfg) (deep : Bool) (next : Nat) (h : Nat) (p : List Key) :
      (its : Items) → next ≤ (cloneItems cfg deep next h p its).2 ∧
        ∀ i ∈ idsItems (cloneItems cfg deep next h p its).1, next ≤ i ∧ i < (cloneItems cfg deep next h p its).2
    | [] => by simp [cloneItems, idsItems]
    | (k, c) :: r => by
      have h1 := clone_fresh cfg deep next (some h) (p ++ [k]) c
      have h2 := cloneItems_fresh cfg deep (c.clone cfg deep next (some h) (p ++ [k])).2 h p r
      unfold cloneItems
      simp only [idsItems, List.mem_append]
      refine ⟨by omega, ?_⟩
      rintro i (hi | hi)
      · have := h1.2 i hi; omega
      · have := h2.2 i hi; omega
end

/-! ### frame: a local update does not touch trees that do not contain its target -/

mutual
  theorem updateAt_noop (t : Nat) (g : Meta → Items → Items) : (tr : Tree) → t ∉ tr.ids → tr.updateAt t g = tr
    | .leaf _, _ => by simp [Tree.updateAt]
    | .node m its, h => by
      simp only [Tree.ids, List.mem_cons, not_or] at h
      unfold Tree.updateAt
      split
      · next heq => exact absurd heq.symm h.1
      · rw [updateAtItems_noop t g its h.2]
  theorem updateAtItems_noop (t : Nat) (g : Meta → Items → Items) : (its : Items) → t ∉ idsItems its →
      updateAtItems t g its = its
    | [], _ => by simp [updateAtItems]
    | (k, c) :: r, h => by
      simp only [idsItems, List.mem_append, not_or] at h
      unfold updateAtItems
      rw [updateAt_noop t g c h.1, updateAtItems_noop t g r h.2]
end

theorem addRoot_keeps (f : Forest) (t b : Tree) (hb : b ∈ f.roots) : b ∈ (f.addRoot t).roots := by
  unfold Forest.addRoot
  split
  · simp [hb]
  · exact hb

theorem addRoots_keeps (ts : List Tree) : ∀ (f : Forest) (b : Tree), b ∈ f.roots → b ∈ (addRoots f ts).roots := by
  induction ts with
  | nil => intro f b hb; exact hb
  | cons t ts ih =>
    intro f b hb
    simp only [addRoots, List.foldl_cons]
    exact ih _ b (addRoot_keeps f t b hb)

end Pg.Sym
