/-
  Helper lemmas for C09: freshness of the memoised derived state.
-/
import PgModel.Notify
namespace Pg.C09
open T
open Pg.C08 (Atom Key)

mutual
  /-- Every memo in the tree (`sym_nondefault`, `sym_missing`) is empty or equals the recomputation on
  the current contents, against the value specs. -/
  def Fresh : T → Prop
    | .leaf _ => True
    | .node m kd items =>
      ((m.cache = none ∨ m.cache = some (derive (.node m kd items))) ∧
       (m.miss = none ∨ m.miss = some (deriveMiss (.node m kd items)))) ∧ FreshItems items
  def FreshItems : List (Key × T) → Prop
    | [] => True
    | (_, t) :: rest => Fresh t ∧ FreshItems rest
end

theorem freshItems_lookup {k : Key} {c : T} :
    (items : List (Key × T)) → FreshItems items → lookup k items = some c → Fresh c
  | [], _, h => by simp [lookup] at h
  | (k', v) :: rest, hf, h => by
    simp only [FreshItems] at hf
    simp only [lookup] at h
    split at h
    · cases h; exact hf.1
    · exact freshItems_lookup rest hf.2 h

theorem freshItems_setKv {k : Key} {v : T} (hv : Fresh v) :
    (items : List (Key × T)) → FreshItems items → FreshItems (setKv k v items)
  | [], _ => by simp [setKv, FreshItems, hv]
  | (k', v') :: rest, hf => by
    simp only [FreshItems] at hf
    simp only [setKv]
    split
    · exact ⟨hv, hf.2⟩
    · exact ⟨hf.1, freshItems_setKv hv rest hf.2⟩

theorem freshItems_eraseKv {k : Key} :
    (items : List (Key × T)) → FreshItems items → FreshItems (eraseKv k items)
  | [], _ => by simp [eraseKv, FreshItems]
  | (k', v') :: rest, hf => by
    simp only [FreshItems] at hf
    simp only [eraseKv]
    split
    · exact hf.2
    · exact ⟨hf.1, freshItems_eraseKv rest hf.2⟩

theorem freshItems_append {x : Key × T} (hv : Fresh x.2) :
    (items : List (Key × T)) → FreshItems items → FreshItems (items ++ [x])
  | [], _ => by cases x; simpa [FreshItems] using hv
  | (k', v') :: rest, hf => by
    simp only [FreshItems] at hf
    exact ⟨hf.1, freshItems_append hv rest hf.2⟩

theorem setKv_setKv {k : Key} {x y : T} :
    (items : List (Key × T)) → setKv k x (setKv k y items) = setKv k x items
  | [] => by simp [setKv]
  | (k', v') :: rest => by
    simp only [setKv]
    split
    · next h => simp [setKv, h]
    · next h => simp [setKv, h, setKv_setKv rest]

theorem lookup_setKv_self {k : Key} {x : T} :
    (items : List (Key × T)) → lookup k (setKv k x items) = some x
  | [] => by simp [setKv, lookup]
  | (k', v') :: rest => by
    simp only [setKv]
    split
    · simp [lookup]
    · next h => simp [lookup, h, lookup_setKv_self rest]

theorem setKv_lookup {k : Key} {c : T} :
    (items : List (Key × T)) → lookup k items = some c → setKv k c items = items
  | [], h => by simp [lookup] at h
  | (k', v) :: rest, h => by
    simp only [lookup] at h
    simp only [setKv]
    split
    · next hk => simp only [hk, if_true] at h; cases h; subst hk; rfl
    · next hk => simp only [hk, if_false] at h; rw [setKv_lookup rest h]

/-- A write that reports no update (`old is new`, or deleting an absent key) changes nothing. -/
theorem writeAt_none_unchanged :
    (p : Path) → (t : T) → (here : Path) → (k : Key) → (v : Option T) → (t' : T) →
      writeAt t here p k v = some (t', none) → t' = t
  | _, .leaf _, _, _, _, _, h => by simp [writeAt] at h
  | [], .node m kd items, here, k, v, t', h => by
    simp only [writeAt] at h
    cases v with
    | none =>
      simp only at h
      cases ho : lookup k items with
      | none => simp [ho] at h; exact h.symm
      | some o => simp [ho] at h
    | some nv =>
      simp only at h
      split at h
      · simp at h; exact h.symm
      · revert h
        cases kd <;> cases lookup k items <;> simp
  | k1 :: rest, .node m kd items, here, k, v, t', h => by
    simp only [writeAt] at h
    cases hc : lookup k1 items with
    | none => simp [hc] at h
    | some c =>
      simp only [hc] at h
      cases hw : writeAt c (here ++ [k1]) rest k v with
      | none => simp [hw] at h
      | some r =>
        obtain ⟨c', u⟩ := r
        simp only [hw] at h
        simp at h
        obtain ⟨h1, h2⟩ := h
        subst h2
        have := writeAt_none_unchanged rest c (here ++ [k1]) k v c' hw
        subst this
        rw [← h1, setKv_lookup items hc]

/-- The write primitive followed by the reset of the chain from the root to the written node
keeps every cache fresh — at any depth. -/
theorem writeAt_resetChain_fresh :
    (p : Path) → (t : T) → (here : Path) → (k : Key) → (v : Option T) → (t' : T) → (u : Option Update) →
      Fresh t → (∀ nv, v = some nv → Fresh nv) → writeAt t here p k v = some (t', u) →
      Fresh (resetChain t' p)
  | _, .leaf _, _, _, _, _, _, _, _, h => by simp [writeAt] at h
  | [], .node m kd items, here, k, v, t', u, hf, hv, h => by
    simp only [Fresh] at hf
    simp only [writeAt] at h
    cases v with
    | none =>
      simp only at h
      cases ho : lookup k items with
      | none =>
        simp [ho] at h; obtain ⟨h1, _⟩ := h; subst h1
        simp [resetChain, resetCache, Fresh, hf.2]
      | some o =>
        simp [ho] at h; obtain ⟨h1, _⟩ := h; subst h1
        simp [resetChain, resetCache, Fresh, freshItems_eraseKv items hf.2]
    | some nv =>
      have hnv := hv nv rfl
      simp only at h
      split at h
      · simp at h; obtain ⟨h1, _⟩ := h; subst h1
        simp [resetChain, resetCache, Fresh, hf.2]
      · revert h
        cases kd <;> cases ho : lookup k items <;> simp <;> intro h1 _ <;> subst h1 <;>
          simp [resetChain, resetCache, Fresh, freshItems_setKv hnv items hf.2,
                freshItems_append (x := (Key.i items.length, nv)) hnv items hf.2]
  | k1 :: rest, .node m kd items, here, k, v, t', u, hf, hv, h => by
    simp only [Fresh] at hf
    simp only [writeAt] at h
    cases hc : lookup k1 items with
    | none => simp [hc] at h
    | some c =>
      simp only [hc] at h
      cases hw : writeAt c (here ++ [k1]) rest k v with
      | none => simp [hw] at h
      | some r =>
        obtain ⟨c', u'⟩ := r
        simp only [hw] at h
        simp at h
        obtain ⟨h1, _⟩ := h
        subst h1
        have ih := writeAt_resetChain_fresh rest c (here ++ [k1]) k v c' u'
          (freshItems_lookup items hf.2 hc) hv hw
        simp only [resetChain, child, lookup_setKv_self, resetCache, setChild, setKv_setKv, Fresh]
        exact ⟨by simp, freshItems_setKv ih items hf.2⟩

end Pg.C09

namespace Pg.C09
open T
open Pg.C08 (Atom Key)

theorem freshItems_iff : (items : List (Key × T)) → (FreshItems items ↔ ∀ x ∈ items, Fresh x.2)
  | [] => by simp [FreshItems]
  | (k, t) :: rest => by simp [FreshItems, freshItems_iff rest]

theorem resetCache_fresh {t : T} (h : Fresh t) : Fresh (resetCache t) := by
  cases t with
  | leaf a => exact h
  | node m kd items => simp only [Fresh] at h; simp [resetCache, Fresh, h.2]

theorem resetChain_fresh : (p : Path) → (t : T) → Fresh t → Fresh (resetChain t p)
  | [], t, h => by simpa [resetChain] using resetCache_fresh h
  | k :: rest, .leaf a, h => by simp [resetChain, child, resetCache, Fresh]
  | k :: rest, .node m kd items, h => by
    simp only [resetChain, child]
    cases hc : lookup k items with
    | none => simpa using resetCache_fresh h
    | some c =>
      simp only [Fresh] at h
      have ih := resetChain_fresh rest c (freshItems_lookup items h.2 hc)
      simp only [resetCache, setChild, Fresh]
      exact ⟨by simp, freshItems_setKv ih items h.2⟩

theorem resetAll_fresh : (ups : List (Update × Path)) → (t : T) → Fresh t → Fresh (resetAll t ups)
  | [], t, h => h
  | (_, tp) :: rest, t, h => resetAll_fresh rest _ (resetChain_fresh tp t h)

theorem writeReset_fresh {root r' : T} {p : Path} {k : Key} {v : Option T} {u : Option Update}
    (hf : Fresh root) (hv : ∀ nv, v = some nv → Fresh nv) (h : writeReset root p k v = some (r', u)) :
    Fresh r' := by
  unfold writeReset at h
  cases hw : writeAt root [] p k v with
  | none => simp [hw] at h
  | some r =>
    obtain ⟨r1, u1⟩ := r
    cases u1 with
    | none =>
      simp [hw] at h
      rw [← h.1, writeAt_none_unchanged p root [] k v r1 hw]; exact hf
    | some u1 =>
      simp [hw] at h
      rw [← h.1]
      exact writeAt_resetChain_fresh p root [] k v r1 (some u1) hf hv hw

theorem writeAll_fresh (recv : Path) :
    (pairs : List (Path × T)) → (root : T) → (acc : List (Update × Path)) → (r' : T) →
      (ups : List (Update × Path)) → Fresh root → (∀ pv ∈ pairs, Fresh pv.2) →
      writeAll root recv pairs acc = some (r', ups) → Fresh r'
  | [], root, acc, r', ups, hf, _, h => by simp [writeAll] at h; rw [← h.1]; exact hf
  | (p, v) :: rest, root, acc, r', ups, hf, hv, h => by
    simp only [writeAll] at h
    cases hp : p.reverse with
    | nil => simp [hp] at h
    | cons k revParent =>
      simp only [hp] at h
      cases hw : writeReset root (recv ++ revParent.reverse) k (some v) with
      | none => simp [hw] at h
      | some r =>
        obtain ⟨r1, u1⟩ := r
        have hf1 : Fresh r1 := writeReset_fresh hf (fun nv hnv => by cases hnv; exact hv (p, v) (by simp)) hw
        have hv' : ∀ pv ∈ rest, Fresh pv.2 := fun pv hm => hv pv (by simp [hm])
        cases u1 with
        | none => simp only [hw] at h; exact writeAll_fresh recv rest r1 acc r' ups hf1 hv' h
        | some u1 => simp only [hw] at h; exact writeAll_fresh recv rest r1 _ r' ups hf1 hv' h

theorem writeAllM_fresh (recv : Path) :
    (pairs : List (Path × T)) → (root : T) → (acc : List (Update × Path)) → (r' : T) →
      (ups : List (Update × Path)) → Fresh root → (∀ pv ∈ pairs, Fresh pv.2) →
      writeAllM root recv pairs acc = some (r', ups) → Fresh r'
  | [], root, acc, r', ups, hf, _, h => by simp [writeAllM] at h; rw [← h.1]; exact hf
  | (p, v) :: rest, root, acc, r', ups, hf, hv, h => by
    simp only [writeAllM] at h
    cases hp : p.reverse with
    | nil => simp [hp] at h
    | cons k revParent =>
      simp only [hp] at h
      have hv' : ∀ pv ∈ rest, Fresh pv.2 := fun pv hm => hv pv (by simp [hm])
      -- whatever the kind of the write, it is the write primitive followed by the reset of the chain
      have key : ∀ (w : Option (Option (T × Option Update))),
          (∀ r1 u1, w = some (some (r1, u1)) → Fresh r1) →
          (match w with
            | none => none
            | some none => none
            | some (some (root', none)) => writeAllM root' recv rest acc
            | some (some (root', some u)) => writeAllM root' recv rest (acc ++ [(u, recv ++ revParent.reverse)]))
            = some (r', ups) → Fresh r' := by
        intro w hw h
        match w, hw, h with
        | none, _, h => simp at h
        | some none, _, h => simp at h
        | some (some (r1, none)), hw, h => exact writeAllM_fresh recv rest r1 acc r' ups (hw r1 none rfl) hv' h
        | some (some (r1, some u)), hw, h => exact writeAllM_fresh recv rest r1 _ r' ups (hw r1 (some u) rfl) hv' h
      refine key _ ?_ h
      intro r1 u1 hw
      split at hw
      · split at hw
        · split at hw
          · simp only [Option.some.injEq, Prod.mk.injEq] at hw; rw [← hw.1]; exact hf
          · simp only [Option.some.injEq] at hw
            exact writeReset_fresh hf (fun nv hnv => by cases hnv; simp [Fresh]) hw
        · cases hw
        · simp only [Option.some.injEq] at hw
          exact writeReset_fresh hf (fun nv hnv => by cases hnv) hw
      · simp only [Option.some.injEq] at hw
        exact writeReset_fresh hf (fun nv hnv => by cases hnv; exact hv (p, v) (by simp)) hw

/-- A raw change of the receiver's items followed by the invalidation of its chain. -/
theorem mapAt_resetChain_fresh (g : T → T) (hleaf : ∀ a, g (.leaf a) = .leaf a)
    (hg : ∀ m kd items, FreshItems items → ∃ items', g (.node m kd items) = .node m kd items' ∧ FreshItems items') :
    (p : Path) → (t : T) → Fresh t → Fresh (resetChain (mapAt g t p) p)
  | [], t, h => by
    simp only [mapAt, resetChain]
    cases t with
    | leaf a => rw [hleaf]; exact h
    | node m kd items =>
      simp only [Fresh] at h
      obtain ⟨items', he, hfi⟩ := hg m kd items h.2
      rw [he]; simp [resetCache, Fresh, hfi]
  | k :: rest, .leaf a, h => by simp [mapAt, child, resetChain, resetCache, Fresh]
  | k :: rest, .node m kd items, h => by
    simp only [mapAt, child]
    cases hc : lookup k items with
    | none => simp only []; exact resetChain_fresh _ _ h
    | some c =>
      simp only [Fresh] at h
      have ih := mapAt_resetChain_fresh g hleaf hg rest c (freshItems_lookup items h.2 hc)
      simp only [setChild, resetChain, child, lookup_setKv_self, resetCache, setKv_setKv, Fresh]
      exact ⟨by simp, freshItems_setKv ih items h.2⟩

theorem freshItems_reindex (xs : List (Key × T)) (h : FreshItems xs) : FreshItems (reindex xs) := by
  rw [freshItems_iff] at h ⊢
  intro x hx
  simp only [reindex, List.mem_map] at hx
  obtain ⟨⟨i, t⟩, hz, rfl⟩ := hx
  have := (List.of_mem_zip hz).2
  simp only [List.mem_map] at this
  obtain ⟨y, hy, rfl⟩ := this
  exact h y hy

theorem freshItems_reverse (xs : List (Key × T)) (h : FreshItems xs) : FreshItems xs.reverse := by
  rw [freshItems_iff] at h ⊢
  intro x hx; exact h x (by simpa using hx)

theorem freshItems_dropLast (xs : List (Key × T)) (h : FreshItems xs) : FreshItems xs.dropLast := by
  rw [freshItems_iff] at h ⊢
  intro x hx; exact h x ((List.dropLast_sublist xs).subset hx)

end Pg.C09
