/-
  C03: a write through a nested key path (`rebind({'z.y': v, 'w[0]': v})`) preserves the invariant of
  every ancestor, although only the typed descendant that is written to validates the value.
-/
import PgProofs.TypingDictIdem
namespace Pg.C03
open Pg.Typing

/-! ### `apply` of a non-frozen container spec on a container value, in closed form -/

theorem apply_dict_eq (env : Env) (fs : List Field) (f : Flags) (hf : f.frozen = false) (p : Bool)
    (kvs : List (String × Val)) :
    apply env (.dict (some fs) f) p (.dict kvs) =
      (match schemaApply env fs p kvs with
       | .ok out => .ok (.dict out)
       | .error e => .error e) := by
  have ht : typeCheck env (some [Ty.dict]) (Val.dict kvs) = .ok (.dict kvs) := by
    simp [typeCheck, instOf, Val.ty, Ty.sub]
  simp only [apply, gate, hf, Val.isMissing, Val.isNone, Bool.false_eq_true, if_false, ht, bind, Except.bind,
    schemaApply]
  by_cases hu : (!(unmatchedKeys env fs kvs).isEmpty) = true
  · simp [hu]
  · simp only [hu]
    cases applyFields env fs (constKeys fs) [] p kvs <;> rfl

theorem apply_list_eq (env : Env) (elem : Spec) (mn : Nat) (mx : Option Nat) (f : Flags) (hf : f.frozen = false)
    (p : Bool) (xs : List Val) :
    apply env (.list elem mn mx f) p (.list xs) =
      (match xs.mapM (fun x => apply env elem p x) with
       | .ok ys => if sizeOk ys.length mn mx then .ok (.list ys) else .error .value
       | .error e => .error e) := by
  have ht : typeCheck env (some [Ty.list]) (Val.list xs) = .ok (.list xs) := by
    simp [typeCheck, instOf, Val.ty, Ty.sub]
  simp only [apply, gate, hf, Val.isMissing, Val.isNone, Bool.false_eq_true, if_false, ht, bind, Except.bind]
  cases xs.mapM (fun x => apply env elem p x) <;> rfl

theorem mapM_self {α : Type} (g : α → R α) (xs : List α) (h : xs.mapM g = .ok xs) : ∀ x ∈ xs, g x = .ok x := by
  induction xs with
  | nil => intro x hx; cases hx
  | cons y ys ih =>
    rw [List.mapM_cons] at h
    cases hy : g y with
    | error e => simp [hy, bind, Except.bind] at h
    | ok y' =>
      cases hys : ys.mapM g with
      | error e => simp [hy, hys, bind, Except.bind] at h
      | ok ys' =>
        simp [hy, hys, bind, Except.bind, pure, Except.pure] at h
        obtain ⟨h1, h2⟩ := h
        subst h1; subst h2
        intro x hx
        simp only [List.mem_cons] at hx
        rcases hx with hx | hx
        · subst hx; exact hy
        · exact ih hys x hx

/-- A stored list is a fixed point of its (non-frozen) List spec iff it conforms. -/
theorem list_fix_iff (env : Env) (elem : Spec) (mn : Nat) (mx : Option Nat) (f : Flags) (hf : f.frozen = false)
    (xs : List Val) :
    apply env (.list elem mn mx f) false (.list xs) = .ok (.list xs) ↔ Conforms env ⟨elem, mn, mx, xs⟩ := by
  rw [apply_list_eq env elem mn mx f hf]
  constructor
  · intro h
    cases hm : xs.mapM (fun x => apply env elem false x) with
    | error e => simp [hm] at h
    | ok ys =>
      simp only [hm] at h
      cases hs : sizeOk ys.length mn mx <;> simp [hs] at h
      subst h
      exact ⟨mapM_self _ _ hm, hs⟩
  · intro hc
    have := mapM_map (fun x => apply env elem false x) id xs (fun x hx => by simpa using hc.1 x hx)
    simp only [List.map_id] at this
    simp [this, hc.2]

/-- A stored dict (distinct keys) is a fixed point of its (non-frozen) Dict spec iff it conforms
and has no stale MISSING. -/
theorem dict_fix_of_conforms (env : Env) (fs : List Field) (f : Flags) (hf : f.frozen = false)
    (hd : distinctKeys (fieldKeySpecs fs) = true) (kvs : List (String × Val))
    (hc : ConformsD env false ⟨fs, kvs⟩) (hs : NoStaleMissing env false ⟨fs, kvs⟩) :
    apply env (.dict (some fs) f) false (.dict kvs) = .ok (.dict kvs) := by
  rw [apply_dict_eq env fs f hf, schemaApply_fixed env false fs kvs hd hc hs]

theorem conforms_of_dict_fix (env : Env) (fs : List Field) (f : Flags) (hf : f.frozen = false)
    (hd : distinctKeys (fieldKeySpecs fs) = true)
    (hI : ∀ fld ∈ fs, Idem env false fld.value) (hM : ∀ fld ∈ fs, MissingOK env false fld.value)
    (kvs : List (String × Val)) (hnd : (kvs.map (·.1)).Nodup)
    (h : apply env (.dict (some fs) f) false (.dict kvs) = .ok (.dict kvs)) :
    ConformsD env false ⟨fs, kvs⟩ ∧ NoStaleMissing env false ⟨fs, kvs⟩ := by
  rw [apply_dict_eq env fs f hf] at h
  cases hs : schemaApply env fs false kvs with
  | error e => simp [hs] at h
  | ok out =>
    simp only [hs] at h
    injection h with h
    injection h with h
    rw [h] at hs
    exact ⟨schemaApply_conforms env false fs hd hI kvs kvs hnd hs,
           schemaApply_nostale env false fs hd hI hM kvs kvs hnd hs⟩

/-! ### Replacing one entry by a fixed point of its field -/

theorem replace_entry_conforms (env : Env) (fs : List Field) (kvs : List (String × Val)) (k : String)
    (fld : Field) (c' : Val) (hg : getField env fs k = some fld)
    (hfix : apply env fld.value false c' = .ok c') (hnm : c'.isMissing = false)
    (hc : ConformsD env false ⟨fs, kvs⟩) (hs : NoStaleMissing env false ⟨fs, kvs⟩) :
    ConformsD env false ⟨fs, setKey kvs k c'⟩ ∧ NoStaleMissing env false ⟨fs, setKey kvs k c'⟩ := by
  refine ⟨⟨?_, ?_⟩, ?_⟩
  · intro kv hkv
    rcases mem_setKey _ _ _ _ hkv with h | h
    · exact hc.1 kv h
    · subst h; exact ⟨fld, hg, hfix⟩
  · intro k' hk'
    exact lookup_setKey_isSome _ _ _ _ (hc.2 k' hk')
  · intro kv hkv hm f' hf'
    rcases mem_setKey _ _ _ _ hkv with h | h
    · exact hs kv h hm f' hf'
    · subst h; simp only at hm; rw [hnm] at hm; cases hm

/-- The dict write primitive keeps "no stale MISSING". -/
theorem dictPrim_nostale (env : Env) (pb : Val → Bool) (d : TDict) (k : String) (a : Val)
    (hM : ∀ fld ∈ d.fields, MissingOK env false fld.value)
    (hs : NoStaleMissing env false d) : NoStaleMissing env false (dictPrim env false pb d k (.plain a)).1 := by
  unfold dictPrim
  cases hg : getField env d.fields k with
  | none => exact hs
  | some f =>
    obtain ⟨ks, spec⟩ := f
    have hmem : Field.mk ks spec ∈ d.fields := getField_mem env d.fields k _ hg
    simp only []
    split
    · intro kv hkv
      simp only [eraseKey, List.mem_filter] at hkv
      exact hs kv hkv.1
    · cases hap : applyArg env spec false pb (if (Arg.plain a).val.isMissing = true then Arg.plain spec.flags.default else Arg.plain a) with
      | error e => exact hs
      | ok w =>
        intro kv hkv hm f' hf'
        rcases mem_setKey _ _ _ _ hkv with h | h
        · exact hs kv h hm f' hf'
        · subst h
          simp only at hm hf'
          rw [hg] at hf'
          injection hf' with hf'
          subst hf'
          simp only [Field.value]
          rw [isMissing_eq _ hm] at hap
          by_cases ham : a.isMissing = true
          · simp only [Arg.val, ham, if_true, applyArg] at hap
            exact hap
          · simp only [Arg.val, ham, applyArg] at hap
            have := hM _ hmem
            simp only [Field.value] at this
            exact this a hap (by simpa using ham)


/-- (The dict write primitive preserves the invariant — plain value; the PgProps theorem
`C03_dict_prim_preserve` is the general statement.) -/
theorem C03_dict_prim_preserve_aux (env : Env) (pb : Val → Bool) (d : TDict) (k : String) (a : Val)
    (hI : ∀ f ∈ d.fields, Idem env false f.value) (hc : ConformsD env false d) :
    ConformsD env false (dictPrim env false pb d k (.plain a)).1 ∧
      (dictPrim env false pb d k (.plain a)).1.fields = d.fields := by
  unfold dictPrim
  cases hg : getField env d.fields k with
  | none => exact ⟨hc, rfl⟩
  | some f =>
    obtain ⟨ks, spec⟩ := f
    have hmem : Field.mk ks spec ∈ d.fields := getField_mem env d.fields k _ hg
    simp only []
    split
    · rename_i hdel
      simp only [Bool.and_eq_true, Bool.not_eq_true'] at hdel
      refine ⟨⟨?_, ?_⟩, rfl⟩
      · intro kv hkv
        simp only [eraseKey, List.mem_filter] at hkv
        exact hc.1 kv hkv.1
      · intro k' hk'
        have hne : k' ≠ k := by
          intro heq; subst heq
          exact not_const_of_getField env d.fields k' _ hg (by simpa [Field.key] using hdel.2) hk'
        exact lookup_eraseKey_isSome _ _ _ hne (hc.2 k' hk')
    · cases hap : applyArg env spec false pb (if (Arg.plain a).val.isMissing = true then Arg.plain spec.flags.default else Arg.plain a) with
      | error e => exact ⟨hc, rfl⟩
      | ok w =>
        refine ⟨⟨?_, ?_⟩, rfl⟩
        · intro kv hkv
          rcases mem_setKey _ _ _ _ hkv with h | h
          · exact hc.1 kv h
          · subst h
            refine ⟨.mk ks spec, hg, ?_⟩
            simp only [Field.value]
            have hi := hI _ hmem
            simp only [Field.value] at hi
            split at hap <;> simp only [applyArg] at hap <;> exact hi _ _ hap
        · intro k' hk'
          exact lookup_setKey_isSome _ _ _ _ (hc.2 k' hk')

theorem listPrim_shape (env : Env) (l : TList) (idx : Int) (ins : Bool) (v : Val) :
    (listPrim env l idx ins v).1.elem = l.elem ∧ (listPrim env l idx ins v).1.mn = l.mn ∧
      (listPrim env l idx ins v).1.mx = l.mx := by
  unfold listPrim
  simp only []
  split
  · split
    · exact ⟨rfl, rfl, rfl⟩
    · split
      · exact ⟨rfl, rfl, rfl⟩
      · cases formalize env l v <;> exact ⟨rfl, rfl, rfl⟩
  · split
    · split
      · exact ⟨rfl, rfl, rfl⟩
      · cases formalize env l v <;> exact ⟨rfl, rfl, rfl⟩
    · cases normIndex l.items.length idx with
      | none => exact ⟨rfl, rfl, rfl⟩
      | some k => cases formalize env l v <;> exact ⟨rfl, rfl, rfl⟩

/-! ### The path condition and the main lemma -/

/-! ### A container behind a Union field is governed by the candidate it is bound to -/

theorem vtUnion_sub (cands : List Spec) : ∀ ts, vtUnion cands = some ts → ∀ c ∈ cands, ∀ tc, vt c = some tc →
    ∀ t ∈ tc, t ∈ ts := by
  induction cands with
  | nil => intro ts _ c hc; cases hc
  | cons x xs ih =>
    intro ts h c hc tc htc t ht
    simp only [vtUnion] at h
    cases hx : vt x with
    | none => simp [hx] at h
    | some a =>
      cases hxs : vtUnion xs with
      | none => simp [hx, hxs] at h
      | some b =>
        simp only [hx, hxs, Option.some.injEq] at h
        subst h
        simp only [List.mem_cons] at hc
        rcases hc with hc | hc
        · subst hc; rw [hx] at htc; injection htc with htc; subst htc
          exact List.mem_append_left _ ht
        · exact List.mem_append_right _ (ih b hxs c hc tc htc t ht)

theorem unionPick_spec (env : Env) (v : Val) (cands : List Spec) (c : Spec) (h : unionPick env v cands = some c) :
    c ∈ cands ∧ ∃ tc, vt c = some tc ∧ instOf env v tc = true := by
  induction cands with
  | nil => simp [unionPick] at h
  | cons x xs ih =>
    simp only [unionPick] at h
    cases hx : vt x with
    | none =>
      simp only [hx] at h
      obtain ⟨h1, h2⟩ := ih h
      exact ⟨List.mem_cons_of_mem _ h1, h2⟩
    | some tx =>
      simp only [hx] at h
      by_cases hi : instOf env v tx = true
      · simp only [hi, if_true, Option.some.injEq] at h
        subst h
        exact ⟨List.mem_cons_self, tx, hx, hi⟩
      · simp only [hi] at h
        obtain ⟨h1, h2⟩ := ih h
        exact ⟨List.mem_cons_of_mem _ h1, h2⟩

theorem unionStrong_pick (env : Env) (p : Bool) (v : Val) (cands : List Spec) (c : Spec)
    (h : unionPick env v cands = some c) : unionStrong env cands p v = some (apply env c p v) := by
  induction cands with
  | nil => simp [unionPick] at h
  | cons x xs ih =>
    simp only [unionPick] at h
    simp only [unionStrong]
    cases hx : vt x with
    | none => simp only [hx] at h ⊢; exact ih h
    | some tx =>
      simp only [hx] at h ⊢
      by_cases hi : instOf env v tx = true
      · simp only [hi, if_true, Option.some.injEq] at h ⊢
        subst h; rfl
      · simp only [hi] at h ⊢
        exact ih h

/-- A proper value that a non-frozen Union binds to candidate `c` is applied by `c`. -/
theorem apply_union_pick (env : Env) (cands : List Spec) (f : Flags) (hf : f.frozen = false) (p : Bool) (v : Val)
    (hm : v.isMissing = false) (hn : v.isNone = false) (c : Spec) (h : unionPick env v cands = some c) :
    apply env (.union cands f) p v = apply env c p v := by
  obtain ⟨hmem, tc, htc, hi⟩ := unionPick_spec env v cands c h
  have htck : typeCheck env (vtUnion cands) v = .ok v := by
    unfold typeCheck
    cases hv : vtUnion cands with
    | none => rfl
    | some ts =>
      have : instOf env v ts = true := by
        unfold instOf at hi ⊢
        rw [List.any_eq_true] at hi ⊢
        obtain ⟨t, ht, hsub⟩ := hi
        exact ⟨t, vtUnion_sub cands ts hv c hmem tc htc t ht, hsub⟩
      simp [this]
  simp only [apply, gate, hf, hm, hn, Bool.false_eq_true, if_false, htck, bind, Except.bind,
    unionStrong_pick env p v cands c h]

theorem instOf_ty (env : Env) (v v' : Val) (h : v.ty = v'.ty) (ts : List Ty) : instOf env v ts = instOf env v' ts := by
  unfold instOf; rw [h]

theorem unionPick_ty (env : Env) (v v' : Val) (h : v.ty = v'.ty) (cands : List Spec) :
    unionPick env v cands = unionPick env v' cands := by
  induction cands with
  | nil => rfl
  | cons x xs ih =>
    simp only [unionPick]
    cases vt x with
    | none => exact ih
    | some tx => simp only [instOf_ty env v v' h tx, ih]

theorem boundSpec_ty (env : Env) (s : Spec) (v v' : Val) (h : v.ty = v'.ty) : boundSpec env s v = boundSpec env s v' := by
  cases s <;> simp only [boundSpec]
  rw [unionPick_ty env v v' h]

/-- The Union-level condition of `PathOK`: not frozen, and bound to some candidate. -/
def UnionOK (env : Env) (s : Spec) (v : Val) : Prop :=
  match s with
  | .union cands f => f.frozen = false ∧ ∃ c, unionPick env v cands = some c
  | _ => True

/-- Under `UnionOK`, a container value is a fixed point of its field spec iff it is one of the spec it
is bound to. -/
theorem apply_bound (env : Env) (s : Spec) (v : Val) (hu : UnionOK env s v) (hm : v.isMissing = false)
    (hn : v.isNone = false) : apply env s false v = apply env (boundSpec env s v) false v := by
  cases s <;> try rfl
  rename_i cands f
  obtain ⟨hf, c, hc⟩ := hu
  simp only [boundSpec, hc, Option.getD_some]
  exact apply_union_pick env cands f hf false v hm hn c hc

theorem frozenAt_bound (env : Env) (s : Spec) (v : Val) (hu : UnionOK env s v)
    (hb : (boundSpec env s v).flags.frozen = false) : frozenAt env s v = false := by
  unfold frozenAt
  rw [hb, Bool.or_false]
  cases s <;> first | (simpa [boundSpec] using hb) | exact hu.1

/-- What the theorem asks of the containers along a nested path: typed dicts (with schema, distinct
keys, a Python dict as value) and typed lists, none of them frozen (F185), field / element specs with
idempotent `apply`; a descendant behind a non-frozen Union field is covered through the candidate it is
bound to (`UnionOK`).  (Untyped descendants are modelled but not covered here.) -/
def PathOK (env : Env) : Spec → Val → List PKey → Prop
  | _, _, [] => False
  | s, v, hd :: rest =>
    UnionOK env s v ∧
    match boundSpec env s v, v, hd with
    | .dict (some fs) f, .dict kvs, .key k =>
      f.frozen = false ∧ distinctKeys (fieldKeySpecs fs) = true ∧ (kvs.map (·.1)).Nodup ∧
      (∀ fld ∈ fs, Idem env false fld.value) ∧ (∀ fld ∈ fs, MissingOK env false fld.value) ∧
      (rest ≠ [] → ∀ c fld, lookup kvs k = some c → getField env fs k = some fld → PathOK env fld.value c rest)
    | .list elem _ _ f, .list items, .idx i =>
      f.frozen = false ∧ Idem env false elem ∧
      (rest ≠ [] → ∀ c, items[i]? = some c → PathOK env elem c rest)
    | _, _, _ => False

theorem nestedSet_container (env : Env) (pb : Val → Bool) (path : List PKey) :
    ∀ (s : Spec) (v : Val) (ins : Bool) (a v' : Val), nestedSet env pb s v path ins a = .ok v' →
      v'.isMissing = false := by
  intro s v ins a v' h
  cases path with
  | nil => simp [nestedSet] at h
  | cons hd tl =>
    cases tl with
    | nil =>
      simp only [nestedSet] at h
      split at h <;> (try (split at h)) <;>
        first
        | (cases h; done)
        | (injection h with h; rw [← h]; rfl)
    | cons t ts =>
      simp only [nestedSet] at h
      split at h <;> (try (split at h)) <;> (try (split at h)) <;> (try (split at h)) <;>
        first
        | (cases h; done)
        | (injection h with h; rw [← h]; rfl)

/-- A write through a nested path keeps the container a fixed point of its own spec — hence, level
by level, every ancestor conforming — although only the innermost typed descendant validates. -/
theorem nestedSet_fix (env : Env) (pb : Val → Bool) (path : List PKey) :
    ∀ (s : Spec) (v : Val) (ins : Bool) (a v' : Val), PathOK env s v path →
      apply env s false v = .ok v → nestedSet env pb s v path ins a = .ok v' →
      apply env s false v' = .ok v' := by
  induction path with
  | nil => intro s v ins a v' hp; simp [PathOK] at hp
  | cons hd tl ih =>
    intro s v ins a v' hp hfix h
    simp only [PathOK] at hp
    obtain ⟨hu, hp⟩ := hp
    cases hb : boundSpec env s v with
    | dict fields f =>
      cases fields with
      | none => rw [hb] at hp; cases v <;> cases hd <;> simp at hp
      | some fs =>
        cases v with
        | dict kvs =>
          cases hd with
          | idx i => rw [hb] at hp; simp at hp
          | key k =>
            rw [hb] at hp
            simp only at hp
            obtain ⟨hf, hd', hnd, hI, hM, hrec⟩ := hp
            have hvm : (Val.dict kvs).isMissing = false ∧ (Val.dict kvs).isNone = false := ⟨rfl, rfl⟩
            have hfix' : apply env (.dict (some fs) f) false (.dict kvs) = .ok (.dict kvs) := by
              rw [← hb, ← apply_bound env s _ hu hvm.1 hvm.2]; exact hfix
            obtain ⟨hc, hs⟩ := conforms_of_dict_fix env fs f hf hd' hI hM kvs hnd hfix'
            -- the result is again a dict: bound to the same spec, so it suffices to fix that spec
            have back : ∀ kvs', apply env (.dict (some fs) f) false (.dict kvs') = .ok (.dict kvs') →
                apply env s false (.dict kvs') = .ok (.dict kvs') := by
              intro kvs' hx
              have hty : (Val.dict kvs).ty = (Val.dict kvs').ty := rfl
              have hu' : UnionOK env s (.dict kvs') := by
                cases s <;> simp only [UnionOK] at hu ⊢
                rw [← unionPick_ty env _ _ hty]; exact hu
              rw [apply_bound env s _ hu' rfl rfl, ← boundSpec_ty env s _ _ hty, hb]; exact hx
            cases tl with
            | nil =>
              simp only [nestedSet, hb] at h
              cases hpm : dictPrim env false pb ⟨fs, kvs⟩ k (.plain a) with
              | mk d' e =>
                simp only [hpm] at h
                cases e with
                | some e => cases h
                | none =>
                  injection h with h
                  subst h
                  have h1 := C03_dict_prim_preserve_aux env pb ⟨fs, kvs⟩ k a hI hc
                  have h2 := dictPrim_nostale env pb ⟨fs, kvs⟩ k a hM hs
                  rw [hpm] at h1 h2
                  have hfields : d'.fields = fs := h1.2
                  have hc' : ConformsD env false ⟨fs, d'.kvs⟩ := by
                    have := h1.1; rw [← hfields]; exact this
                  have hs' : NoStaleMissing env false ⟨fs, d'.kvs⟩ := by
                    rw [← hfields]; exact h2
                  exact back _ (dict_fix_of_conforms env fs f hf hd' d'.kvs hc' hs')
            | cons t ts =>
              have hfa : frozenAt env s (.dict kvs) = false :=
                frozenAt_bound env s _ hu (by rw [hb]; exact hf)
              simp only [nestedSet, hb, hfa, Bool.false_eq_true, if_false] at h
              cases hl : lookup kvs k with
              | none => simp [hl] at h
              | some c =>
                cases hg : getField env fs k with
                | none => simp [hl, hg] at h
                | some fld =>
                  simp only [hl, hg] at h
                  cases hn : nestedSet env pb fld.value c (t :: ts) ins a with
                  | error e => simp [hn] at h
                  | ok c' =>
                    simp only [hn] at h
                    injection h with h
                    subst h
                    have hcfix : apply env fld.value false c = .ok c := by
                      obtain ⟨f', hf', hx⟩ := hc.1 (k, c) (lookup_mem kvs k c hl)
                      simp only at hf' hx
                      rw [hg] at hf'; injection hf' with hf'; subst hf'; exact hx
                    have hc'fix := ih fld.value c ins a c' (hrec (by simp) c fld hl hg) hcfix hn
                    have hnm := nestedSet_container env pb (t :: ts) fld.value c ins a c' hn
                    obtain ⟨hc2, hs2⟩ := replace_entry_conforms env fs kvs k fld c' hg hc'fix hnm hc hs
                    exact back _ (dict_fix_of_conforms env fs f hf hd' _ hc2 hs2)
        | _ => rw [hb] at hp; cases hd <;> simp at hp
    | list elem mn mx f =>
      cases v with
      | list items =>
        cases hd with
        | key k => rw [hb] at hp; simp at hp
        | idx i =>
          rw [hb] at hp
          simp only at hp
          obtain ⟨hf, hI, hrec⟩ := hp
          have hfix' : apply env (.list elem mn mx f) false (.list items) = .ok (.list items) := by
            rw [← hb, ← apply_bound env s _ hu rfl rfl]; exact hfix
          have hc := (list_fix_iff env elem mn mx f hf items).1 hfix'
          have back : ∀ xs', apply env (.list elem mn mx f) false (.list xs') = .ok (.list xs') →
              apply env s false (.list xs') = .ok (.list xs') := by
            intro xs' hx
            have hty : (Val.list items).ty = (Val.list xs').ty := rfl
            have hu' : UnionOK env s (.list xs') := by
              cases s <;> simp only [UnionOK] at hu ⊢
              rw [← unionPick_ty env _ _ hty]; exact hu
            rw [apply_bound env s _ hu' rfl rfl, ← boundSpec_ty env s _ _ hty, hb]; exact hx
          cases tl with
          | nil =>
            simp only [nestedSet, hb] at h
            cases hpm : listPrim env ⟨elem, mn, mx, items⟩ i ins a with
            | mk l' e =>
              simp only [hpm] at h
              cases e with
              | some e => cases h
              | none =>
                injection h with h
                subst h
                have h1 := listPrim_preserves env ⟨elem, mn, mx, items⟩ hI i ins a hc
                rw [hpm] at h1
                have hl' : l' = ⟨elem, mn, mx, l'.items⟩ := by
                  have := listPrim_shape env ⟨elem, mn, mx, items⟩ i ins a
                  rw [hpm] at this
                  obtain ⟨e1, e2, e3⟩ := this
                  cases l'; simp only at e1 e2 e3; subst e1; subst e2; subst e3; rfl
                rw [hl'] at h1
                exact back _ ((list_fix_iff env elem mn mx f hf l'.items).2 h1.1)
          | cons t ts =>
            simp only [nestedSet, hb] at h
            cases hi : items[i]? with
            | none => simp [hi] at h
            | some c =>
              simp only [hi] at h
              cases hn : nestedSet env pb elem c (t :: ts) ins a with
              | error e => simp [hn] at h
              | ok c' =>
                simp only [hn] at h
                injection h with h
                subst h
                have hmem : c ∈ items := List.mem_of_getElem? hi
                have hc'fix := ih elem c ins a c' (hrec (by simp) c hi) (hc.1 c hmem) hn
                refine back _ ((list_fix_iff env elem mn mx f hf _).2 ⟨?_, ?_⟩)
                · intro x hx
                  rcases List.mem_or_eq_of_mem_set hx with hx | hx
                  · exact hc.1 x hx
                  · subst hx; exact hc'fix
                · simp only [List.length_set]; exact hc.2
      | _ => rw [hb] at hp; cases hd <;> simp at hp
    | _ => rw [hb] at hp; cases v <;> cases hd <;> simp at hp

end Pg.C03
