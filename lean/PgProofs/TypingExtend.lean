/-
  C04: `child.extend(base)` only narrows — on the delimited class `ExtOk` the extended spec is
  compatible with the base *and* the pair (base, result) lies in `CompatOk`, so containment of the
  acceptance sets follows from `compat_sound`.
-/
import PgProofs.TypingCompat
namespace Pg.Typing

/-! ### The exclusions -/

mutual
  /-- The pairs `(child, base)` for which `child.extend(base)` is claimed to narrow:
  * the child is not frozen, at any depth that is extended (F44 / F40);
  * an `Any` base is noneable (what `Any.__init__` enforces), a `Union` base is outside the claim;
  * `Str`: at most one regex, or the same (regexes are outside the claim);
  * `Enum` only over an `Enum` base (F45) of the same candidate value type (F41), whose noneable
    flag is consistent with its candidates (what `Enum.__init__` enforces);
  * variable-length `Tuple` over variable-length `Tuple`: the merged sizes must not make the result
    fixed-length (F46);
  * `Dict` with schema and `Union` children: outside this theorem. -/
  def ExtOk : Spec → Spec → Bool
    | .any f, b => !f.frozen && (match b with | .any bf => bf.noneable | _ => false)
    | .bool f, b => !f.frozen && (match b with | .any bf => bf.noneable | .bool _ => true | _ => false)
    | .int _ _ f, b => !f.frozen && (match b with | .any bf => bf.noneable | .int .. => true | _ => false)
    | .float _ _ f, b => !f.frozen && (match b with | .any bf => bf.noneable | .float .. => true | _ => false)
    | .str rx f, b => !f.frozen &&
        (match b with
         | .any bf => bf.noneable
         | .str brx _ => brx.isNone || rx.isNone || rx == brx
         | _ => false)
    | .enum vals f, b => !f.frozen &&
        (match b with
         | .any bf => bf.noneable
         | .enum bvals bf => enumVT bvals == enumVT vals && (!bf.noneable || bvals.any Val.isNone)
         | _ => false)
    | .list e _ _ f, b => !f.frozen &&
        (match b with
         | .any bf => bf.noneable
         | .list be _ _ _ => ExtOk e be
         | _ => false)
    | .tuple es mn mx f, b => !f.frozen &&
        (match b with
         | .any bf => bf.noneable
         | .tuple bes bmn bmx _ =>
           if fixedLen mn mx then (if fixedLen bmn bmx then zipExtOk es bes else allExtOk es bes)
           else !fixedLen (if mn == 0 then bmn else mn) (match mx with | none => bmx | some m => some m)
                && headExtOk es bes
         | _ => false)
    | .dict fields f, b => !f.frozen &&
        (match b with
         | .any bf => bf.noneable
         | .dict none _ => fields.isNone
         | _ => false)
    | .obj _ f, b => !f.frozen && (match b with | .any bf => bf.noneable | .obj .. => true | _ => false)
    | .union _ _, _ => false
    | .callable _, _ => false
  termination_by structural a => a
  def zipExtOk : List Spec → List Spec → Bool
    | [], _ => true
    | _ :: _, [] => true
    | s :: ss, b :: bs => ExtOk s b && zipExtOk ss bs
  termination_by structural a => a
  /-- Every element spec of a fixed child over `base.elements[0]`. -/
  def allExtOk : List Spec → List Spec → Bool
    | [], _ => true
    | s :: ss, bs => (match bs with | be :: _ => ExtOk s be | [] => true) && allExtOk ss bs
  termination_by structural a => a
  def headExtOk : List Spec → List Spec → Bool
    | e :: _, be :: _ => ExtOk e be
    | _, _ => true
  termination_by structural a => a
end

/-! ### The head of `extend` for a non-frozen child -/

theorem extendPre_ok (env : Env) (child base : Spec) (r : Pre) (hcf : child.flags.frozen = false)
    (hbu : base.isUnion = false) (h : extendPre env child base = .ok r) :
    base.flags.frozen = false ∧
    (if base.kind == .any then r = .retSelf
     else r = .go base ∧ (child.kind = base.kind ∨ child.kind = .enum) ∧
       (!(!base.flags.noneable && child.flags.noneable)) = true) := by
  unfold extendPre at h
  simp only [hcf, Bool.not_false, Bool.true_or, Bool.and_true] at h
  by_cases hbf : base.flags.frozen = true
  · simp [hbf] at h
  · simp only [hbf, Bool.false_eq_true, if_false] at h
    refine ⟨by simpa using hbf, ?_⟩
    split at h
    · rename_i heq
      split at heq <;> cases heq
    · by_cases hk : (base.kind == .any) = true
      · simp only [hk, if_true] at h ⊢
        injection h with h; exact h.symm
      · simp only [hk, Bool.false_eq_true, if_false] at h ⊢
        split at h
        · cases h
        · rename_i b heq
          have hb : b = base := by
            split at heq
            · simp [Spec.isUnion] at hbu
            · injection heq with heq; exact heq.symm
          subst hb
          simp only [hbu, Bool.false_and, Bool.false_eq_true, if_false] at h
          split at h
          · cases h
          · split at h
            · cases h
            · rename_i h1 h2
              injection h with h
              refine ⟨h.symm, ?_, ?_⟩
              · simp only [Bool.not_eq_true', Bool.not_eq_false, Bool.or_eq_true, beq_iff_eq] at h1
                exact h1
              · cases hbn : b.flags.noneable <;> cases hcn : child.flags.noneable <;> simp_all

/-! ### Bounds -/

theorem Num.lt_irrefl (a : Num) : Num.lt a a = false := by simp [Num.lt]

theorem Num.lt_ofInt (a b : Int) : Num.lt (Num.ofInt a) (Num.ofInt b) = decide (a < b) := by
  simp [Num.lt, Num.ofInt]

def loExt (lo blo : Option Num) : R (Option Num) :=
  match blo with
  | none => .ok lo
  | some bl => match lo with
    | none => .ok (some bl)
    | some l => if Num.lt l bl then .error .type else .ok (some l)

def hiExt (hi bhi : Option Num) : R (Option Num) :=
  match bhi with
  | none => .ok hi
  | some bh => match hi with
    | none => .ok (some bh)
    | some h => if Num.lt bh h then .error .type else .ok (some h)

theorem numExtend_eq (lo hi blo bhi : Option Num) :
    numExtend lo hi blo bhi =
      match loExt lo blo, hiExt hi bhi with
      | .error e, _ => .error e
      | .ok _, .error e => .error e
      | .ok l, .ok h =>
        match l, h with
        | some a, some b => if Num.lt b a then .error .type else .ok (l, h)
        | _, _ => .ok (l, h) := rfl

def loOk (blo l : Option Num) : Bool :=
  match blo with
  | none => true
  | some bl => match l with | none => false | some ol => !Num.lt ol bl

def hiOk (bhi h : Option Num) : Bool :=
  match bhi with
  | none => true
  | some bh => match h with | none => false | some oh => !Num.lt bh oh

theorem numCompat_eq (a b c d : Option Num) : numCompat a b c d = (loOk a c && hiOk b d) := rfl

theorem loExt_ok (lo blo l : Option Num) (h : loExt lo blo = .ok l) : loOk blo l = true := by
  unfold loExt at h
  unfold loOk
  cases blo with
  | none => rfl
  | some bl =>
    cases lo with
    | none => simp only at h; injection h with h; subst h; simp [Num.lt_irrefl]
    | some l0 =>
      simp only at h
      split at h
      · cases h
      · rename_i hlt
        injection h with h; subst h; simpa using hlt

theorem hiExt_ok (hi bhi h : Option Num) (he : hiExt hi bhi = .ok h) : hiOk bhi h = true := by
  unfold hiExt at he
  unfold hiOk
  cases bhi with
  | none => rfl
  | some bh =>
    cases hi with
    | none => simp only at he; injection he with he; subst he; simp [Num.lt_irrefl]
    | some h0 =>
      simp only at he
      split at he
      · cases he
      · rename_i hlt
        injection he with he; subst he; simpa using hlt

theorem numExtend_compat (lo hi blo bhi l h : Option Num) (he : numExtend lo hi blo bhi = .ok (l, h)) :
    numCompat blo bhi l h = true := by
  rw [numExtend_eq] at he
  cases h1 : loExt lo blo with
  | error e => simp [h1] at he
  | ok l0 =>
    cases h2 : hiExt hi bhi with
    | error e => simp [h1, h2] at he
    | ok h0 =>
      simp only [h1, h2] at he
      have e : l0 = l ∧ h0 = h := by
        split at he
        · split at he
          · cases he
          · injection he with he; injection he with a b; exact ⟨a, b⟩
        · injection he with he; injection he with a b; exact ⟨a, b⟩
      obtain ⟨e1, e2⟩ := e
      subst e1; subst e2
      rw [numCompat_eq, Bool.and_eq_true]
      exact ⟨loExt_ok _ _ _ h1, hiExt_ok _ _ _ h2⟩

def loExtI (lo blo : Option Int) : R (Option Int) :=
  match blo with
  | none => .ok lo
  | some bl => match lo with
    | none => .ok (some bl)
    | some l => if l < bl then .error .type else .ok (some l)

def hiExtI (hi bhi : Option Int) : R (Option Int) :=
  match bhi with
  | none => .ok hi
  | some bh => match hi with
    | none => .ok (some bh)
    | some h => if bh < h then .error .type else .ok (some h)

theorem intExtend_eq (lo hi blo bhi : Option Int) :
    intExtend lo hi blo bhi =
      match loExtI lo blo, hiExtI hi bhi with
      | .error e, _ => .error e
      | .ok _, .error e => .error e
      | .ok l, .ok h =>
        match l, h with
        | some a, some b => if b < a then .error .type else .ok (l, h)
        | _, _ => .ok (l, h) := rfl

theorem loExtI_ok (lo blo l : Option Int) (h : loExtI lo blo = .ok l) :
    loOk (blo.map Num.ofInt) (l.map Num.ofInt) = true := by
  unfold loExtI at h
  unfold loOk
  cases blo with
  | none => rfl
  | some bl =>
    cases lo with
    | none => simp only at h; injection h with h; subst h; simp [Num.lt_irrefl]
    | some l0 =>
      simp only at h
      split at h
      · cases h
      · rename_i hlt
        injection h with h; subst h; simpa [Num.lt_ofInt] using hlt

theorem hiExtI_ok (hi bhi h : Option Int) (he : hiExtI hi bhi = .ok h) :
    hiOk (bhi.map Num.ofInt) (h.map Num.ofInt) = true := by
  unfold hiExtI at he
  unfold hiOk
  cases bhi with
  | none => rfl
  | some bh =>
    cases hi with
    | none => simp only at he; injection he with he; subst he; simp [Num.lt_irrefl]
    | some h0 =>
      simp only at he
      split at he
      · cases he
      · rename_i hlt
        injection he with he; subst he; simpa [Num.lt_ofInt] using hlt

theorem intExtend_compat (lo hi blo bhi l h : Option Int) (he : intExtend lo hi blo bhi = .ok (l, h)) :
    numCompat (blo.map Num.ofInt) (bhi.map Num.ofInt) (l.map Num.ofInt) (h.map Num.ofInt) = true := by
  rw [intExtend_eq] at he
  cases h1 : loExtI lo blo with
  | error e => simp [h1] at he
  | ok l0 =>
    cases h2 : hiExtI hi bhi with
    | error e => simp [h1, h2] at he
    | ok h0 =>
      simp only [h1, h2] at he
      have e : l0 = l ∧ h0 = h := by
        split at he
        · split at he
          · cases he
          · injection he with he; injection he with a b; exact ⟨a, b⟩
        · injection he with he; injection he with a b; exact ⟨a, b⟩
      obtain ⟨e1, e2⟩ := e
      subst e1; subst e2
      rw [numCompat_eq, Bool.and_eq_true]
      exact ⟨loExtI_ok _ _ _ h1, hiExtI_ok _ _ _ h2⟩

/-! ### Leaves -/

theorem extend_any (env : Env) (f : Flags) (base c' : Spec) (hok : ExtOk (.any f) base = true)
    (h : extendSelf env (.any f) base = .ok c') :
    isCompatible env base c' = true ∧ CompatOk base c' = true := by
  simp only [ExtOk, Bool.and_eq_true, Bool.not_eq_true'] at hok
  obtain ⟨hcf, hb⟩ := hok
  cases hpre : extendPre env (.any f) base with
  | error e => simp [extendSelf, hpre] at h
  | ok r =>
    cases base <;> simp only [Bool.false_eq_true] at hb
    obtain ⟨hbf, hr⟩ := extendPre_ok env (.any f) _ r hcf rfl hpre
    simp only [extendSelf, hpre] at h; injection h with h; subst h
    simp only [Spec.flags] at hbf
    simp [isCompatible, CompatOk, hbf, hb, hcf, Spec.flags]

theorem extend_bool (env : Env) (f : Flags) (base c' : Spec) (hok : ExtOk (.bool f) base = true)
    (h : extendSelf env (.bool f) base = .ok c') :
    isCompatible env base c' = true ∧ CompatOk base c' = true := by
  simp only [ExtOk, Bool.and_eq_true, Bool.not_eq_true'] at hok
  obtain ⟨hcf, hb⟩ := hok
  cases hpre : extendPre env (.bool f) base with
  | error e => simp [extendSelf, hpre] at h
  | ok r =>
    cases base <;> simp only [Bool.false_eq_true] at hb <;>
      obtain ⟨hbf, hr⟩ := extendPre_ok env (.bool f) _ r hcf rfl hpre <;>
      simp only [extendSelf, hpre] at h <;> injection h with h <;> subst h <;>
      simp only [Spec.flags] at hbf
    · simp [isCompatible, CompatOk, hbf, hb, hcf, Spec.flags]
    · simp [Spec.kind, Spec.flags] at hr
      simp [isCompatible, CompatOk, hbf, hcf, Spec.flags, hr.2]

theorem extend_int (env : Env) (lo hi : Option Int) (f : Flags) (base c' : Spec)
    (hok : ExtOk (.int lo hi f) base = true) (h : extendSelf env (.int lo hi f) base = .ok c') :
    isCompatible env base c' = true ∧ CompatOk base c' = true := by
  simp only [ExtOk, Bool.and_eq_true, Bool.not_eq_true'] at hok
  obtain ⟨hcf, hb⟩ := hok
  cases hpre : extendPre env (.int lo hi f) base with
  | error e => simp [extendSelf, hpre] at h
  | ok r =>
    cases base <;> simp only [Bool.false_eq_true] at hb <;>
      obtain ⟨hbf, hr⟩ := extendPre_ok env (.int lo hi f) _ r hcf rfl hpre <;>
      simp only [Spec.flags] at hbf
    · simp [Spec.kind] at hr; subst hr
      simp only [extendSelf, hpre] at h; injection h with h; subst h
      simp [isCompatible, CompatOk, hbf, hb, hcf, Spec.flags]
    · rename_i blo bhi bf
      simp [Spec.kind, Spec.flags] at hr
      obtain ⟨hr, hn⟩ := hr; subst hr
      simp only [extendSelf, hpre] at h
      cases he : intExtend lo hi blo bhi with
      | error e => simp [he] at h
      | ok lh =>
        obtain ⟨l, h'⟩ := lh
        simp only [he] at h; injection h with h; subst h
        simp [isCompatible, CompatOk, intExtend_compat _ _ _ _ _ _ he, hn, hbf, hcf, Spec.flags]

theorem extend_float (env : Env) (lo hi : Option Num) (f : Flags) (base c' : Spec)
    (hok : ExtOk (.float lo hi f) base = true) (h : extendSelf env (.float lo hi f) base = .ok c') :
    isCompatible env base c' = true ∧ CompatOk base c' = true := by
  simp only [ExtOk, Bool.and_eq_true, Bool.not_eq_true'] at hok
  obtain ⟨hcf, hb⟩ := hok
  cases hpre : extendPre env (.float lo hi f) base with
  | error e => simp [extendSelf, hpre] at h
  | ok r =>
    cases base <;> simp only [Bool.false_eq_true] at hb <;>
      obtain ⟨hbf, hr⟩ := extendPre_ok env (.float lo hi f) _ r hcf rfl hpre <;>
      simp only [Spec.flags] at hbf
    · simp [Spec.kind] at hr; subst hr
      simp only [extendSelf, hpre] at h; injection h with h; subst h
      simp [isCompatible, CompatOk, hbf, hb, hcf, Spec.flags]
    · rename_i blo bhi bf
      simp [Spec.kind, Spec.flags] at hr
      obtain ⟨hr, hn⟩ := hr; subst hr
      simp only [extendSelf, hpre] at h
      cases he : numExtend lo hi blo bhi with
      | error e => simp [he] at h
      | ok lh =>
        obtain ⟨l, h'⟩ := lh
        simp only [he] at h; injection h with h; subst h
        simp [isCompatible, CompatOk, numExtend_compat _ _ _ _ _ _ he, hn, hbf, hcf, Spec.flags]

theorem extend_str (env : Env) (rx : Option Nat) (f : Flags) (base c' : Spec)
    (hok : ExtOk (.str rx f) base = true) (h : extendSelf env (.str rx f) base = .ok c') :
    isCompatible env base c' = true ∧ CompatOk base c' = true := by
  simp only [ExtOk, Bool.and_eq_true, Bool.not_eq_true'] at hok
  obtain ⟨hcf, hb⟩ := hok
  cases hpre : extendPre env (.str rx f) base with
  | error e => simp [extendSelf, hpre] at h
  | ok r =>
    cases base <;> simp only [Bool.false_eq_true] at hb <;>
      obtain ⟨hbf, hr⟩ := extendPre_ok env (.str rx f) _ r hcf rfl hpre <;>
      simp only [Spec.flags] at hbf
    · simp [Spec.kind] at hr; subst hr
      simp only [extendSelf, hpre] at h; injection h with h; subst h
      simp [isCompatible, CompatOk, hbf, hb, hcf, Spec.flags]
    · rename_i brx bf
      simp [Spec.kind, Spec.flags] at hr
      obtain ⟨hr, hn⟩ := hr; subst hr
      simp only [extendSelf, hpre] at h
      injection h with h; subst h
      cases rx <;> cases brx <;> simp_all [isCompatible, CompatOk, Spec.flags]

theorem extend_obj (env : Env) (c : Nat) (f : Flags) (base c' : Spec)
    (hok : ExtOk (.obj c f) base = true) (h : extendSelf env (.obj c f) base = .ok c') :
    isCompatible env base c' = true ∧ CompatOk base c' = true := by
  simp only [ExtOk, Bool.and_eq_true, Bool.not_eq_true'] at hok
  obtain ⟨hcf, hb⟩ := hok
  cases hpre : extendPre env (.obj c f) base with
  | error e => simp [extendSelf, hpre] at h
  | ok r =>
    cases base <;> simp only [Bool.false_eq_true] at hb <;>
      obtain ⟨hbf, hr⟩ := extendPre_ok env (.obj c f) _ r hcf rfl hpre <;>
      simp only [Spec.flags] at hbf
    · simp [Spec.kind] at hr; subst hr
      simp only [extendSelf, hpre] at h; injection h with h; subst h
      simp [isCompatible, CompatOk, hbf, hb, hcf, Spec.flags]
    · rename_i bc bf
      simp [Spec.kind, Spec.flags] at hr
      obtain ⟨hr, hn⟩ := hr; subst hr
      simp only [extendSelf, hpre] at h
      split at h
      · rename_i hcomp
        injection h with h; subst h
        exact ⟨hcomp, by simp [CompatOk, hbf, hcf, Spec.flags]⟩
      · cases h

theorem extend_dict (env : Env) (fields : Option (List Field)) (f : Flags) (base c' : Spec)
    (hok : ExtOk (.dict fields f) base = true) (h : extendSelf env (.dict fields f) base = .ok c') :
    isCompatible env base c' = true ∧ CompatOk base c' = true := by
  simp only [ExtOk, Bool.and_eq_true, Bool.not_eq_true'] at hok
  obtain ⟨hcf, hb⟩ := hok
  cases hpre : extendPre env (.dict fields f) base with
  | error e => rw [extendSelf, hpre] at h; cases h
  | ok r =>
    cases base with
    | any bf =>
      obtain ⟨hbf, hr⟩ := extendPre_ok env (.dict fields f) _ r hcf rfl hpre
      simp only [Spec.flags] at hbf
      simp [Spec.kind] at hr; subst hr
      rw [extendSelf, hpre] at h; injection h with h; subst h
      simp only at hb
      simp [isCompatible, CompatOk, hbf, hb, hcf, Spec.flags]
    | dict bfields bf =>
      obtain ⟨hbf, hr⟩ := extendPre_ok env (.dict fields f) _ r hcf rfl hpre
      simp only [Spec.flags] at hbf
      simp [Spec.kind, Spec.flags] at hr
      obtain ⟨hr, hn⟩ := hr; subst hr
      cases bfields with
      | some bfs => simp at hb
      | none =>
        simp only [Option.isNone_iff_eq_none] at hb
        subst hb
        rw [extendSelf, hpre] at h
        injection h with h; subst h
        simp [isCompatible, CompatOk, hbf, hcf, hn, Spec.flags]
    | _ => simp at hb

/-! ### Enum over Enum -/

theorem pyEq_num_congr (e v v' : Val) (x : Num) (hv : v.num? = some x) (hv' : v'.num? = some x) :
    Val.pyEq e v' = Val.pyEq e v := by
  cases he : e.num? with
  | some y => rw [pyEq_of_num he hv, pyEq_of_num he hv']
  | none =>
    cases e <;> simp [Val.num?] at he <;> cases v <;> simp [Val.num?] at hv <;>
      cases v' <;> simp [Val.num?] at hv' <;> simp [Val.pyEq]

theorem convert_pyEq (v v' : Val) (ts : List Ty) (h : convert v ts = some v') (e : Val) :
    Val.pyEq e v' = Val.pyEq e v := by
  unfold convert at h
  split at h
  · cases v <;> simp at h <;> subst h
    · exact pyEq_num_congr e _ _ _ rfl rfl
    · exact pyEq_num_congr e _ _ _ rfl rfl
  · cases h

theorem typeCheck_pyEq (env : Env) (vt : Option (List Ty)) (v v' : Val)
    (h : typeCheck env vt v = .ok v') (e : Val) : Val.pyEq e v' = Val.pyEq e v := by
  unfold typeCheck at h
  cases vt with
  | none => simp at h; subst h; rfl
  | some ts =>
    simp only at h
    split at h
    · injection h with h; subst h; rfl
    · split at h
      · rename_i hc
        injection h with h; subst h
        exact convert_pyEq v _ ts hc e
      · cases h

theorem accepts_enum_pyIn (env : Env) (bvals : List Val) (bf : Flags) (hbf : bf.frozen = false)
    (hwf : (!bf.noneable || bvals.any Val.isNone) = true) (v : Val)
    (h : accepts env (.enum bvals bf) v = true) : Val.pyIn v bvals = true := by
  by_cases hm : v = .missing
  · subst hm; rw [accepts_missing env _ (by simpa [Spec.flags] using hbf)] at h; cases h
  by_cases hn : v = .none
  · subst hn
    rw [accepts_none env _ (by simpa [Spec.flags] using hbf)] at h
    simp only [Spec.flags] at h
    simp only [h, Bool.not_true, Bool.false_or] at hwf
    unfold Val.pyIn
    rw [List.any_eq_true] at hwf ⊢
    obtain ⟨x, hx, hxn⟩ := hwf
    refine ⟨x, hx, ?_⟩
    cases x <;> simp [Val.isNone] at hxn
    simp [Val.pyEq]
  have hp := proper_of_ne v hm hn
  rw [accepts_enum_proper env _ bf hbf v hp] at h
  cases htc : typeCheck env ((enumVT bvals).map ([·])) v with
  | error e => simp [htc] at h
  | ok v' =>
    simp only [htc] at h
    unfold Val.pyIn at h ⊢
    rw [List.any_eq_true] at h ⊢
    obtain ⟨x, hx, hxv⟩ := h
    exact ⟨x, hx, by rw [← typeCheck_pyEq env _ v v' htc x]; exact hxv⟩

theorem extendSelf_retSelf (env : Env) (child base : Spec)
    (hpre : extendPre env child base = .ok .retSelf) : extendSelf env child base = .ok child := by
  cases child <;> rw [extendSelf, hpre]

/-- Any non-frozen child over a noneable `Any` base. -/
theorem extend_anyBase (env : Env) (child : Spec) (bf : Flags) (c' : Spec)
    (hcf : child.flags.frozen = false) (hb : bf.noneable = true)
    (h : extendSelf env child (.any bf) = .ok c') :
    isCompatible env (.any bf) c' = true ∧ CompatOk (.any bf) c' = true := by
  cases hpre : extendPre env child (.any bf) with
  | error e => cases child <;> rw [extendSelf, hpre] at h <;> cases h
  | ok r =>
    obtain ⟨hbf, hr⟩ := extendPre_ok env child _ r hcf rfl hpre
    simp only [Spec.flags] at hbf
    simp [Spec.kind] at hr; subst hr
    rw [extendSelf_retSelf env _ _ hpre] at h
    injection h with h; subst h
    simp [isCompatible, CompatOk, hbf, hb, hcf]

theorem extend_enum (env : Env) (vals : List Val) (f : Flags) (base c' : Spec)
    (hok : ExtOk (.enum vals f) base = true) (h : extendSelf env (.enum vals f) base = .ok c') :
    isCompatible env base c' = true ∧ CompatOk base c' = true := by
  simp only [ExtOk, Bool.and_eq_true, Bool.not_eq_true'] at hok
  obtain ⟨hcf, hb⟩ := hok
  cases base with
  | any bf => exact extend_anyBase env (.enum vals f) bf c' hcf (by simpa using hb) h
  | enum bvals bf =>
    cases hpre : extendPre env (.enum vals f) (.enum bvals bf) with
    | error e => rw [extendSelf, hpre] at h; cases h
    | ok r =>
      obtain ⟨hbf, hr⟩ := extendPre_ok env (.enum vals f) _ r hcf rfl hpre
      simp only [Spec.flags] at hbf
      simp [Spec.kind, Spec.flags] at hr
      obtain ⟨hr, hn⟩ := hr; subst hr
      simp only [Bool.and_eq_true, beq_iff_eq] at hb
      rw [extendSelf, hpre] at h
      simp only at h
      split at h
      · rename_i hall
        injection h with h; subst h
        have hin : vals.all (fun v => Val.pyIn v bvals) = true := by
          rw [List.all_eq_true] at hall ⊢
          intro v hv
          exact accepts_enum_pyIn env bvals bf hbf hb.2 v (hall v hv)
        refine ⟨?_, by simp [CompatOk, hbf, hcf, Spec.flags, hb.1]⟩
        simp only [isCompatible, Spec.flags, hcf, Bool.false_and, Bool.false_eq_true, if_false,
          Bool.and_eq_true]
        exact ⟨by cases hx : bf.noneable <;> cases hy : f.noneable <;> simp_all, hin⟩
      · cases h
  | _ => simp at hb

/-! ### Containers -/

theorem listKeyExtend_ok (mn : Nat) (mx : Option Nat) (bmn : Nat) (bmx mx' : Option Nat)
    (h : listKeyExtend mn mx bmn bmx = .ok mx') :
    bmn ≤ mn ∧ ∀ bm, bmx = some bm → ∃ om, mx' = some om ∧ om ≤ bm := by
  unfold listKeyExtend at h
  split at h
  · cases h
  · rename_i hlt
    refine ⟨by omega, ?_⟩
    intro bm hbm
    subst hbm
    cases mx with
    | none => simp only at h; injection h with h; subst h; exact ⟨bm, rfl, Nat.le_refl _⟩
    | some m =>
      simp only at h
      split at h
      · cases h
      · injection h with h; subst h; exact ⟨m, rfl, by omega⟩

mutual
  theorem extend_ok (env : Env) (child base c' : Spec) (hok : ExtOk child base = true)
      (h : extendSelf env child base = .ok c') :
      isCompatible env base c' = true ∧ CompatOk base c' = true := by
    cases child with
    | any f => exact extend_any env f base c' hok h
    | bool f => exact extend_bool env f base c' hok h
    | int lo hi f => exact extend_int env lo hi f base c' hok h
    | float lo hi f => exact extend_float env lo hi f base c' hok h
    | str rx f => exact extend_str env rx f base c' hok h
    | enum vals f => exact extend_enum env vals f base c' hok h
    | dict fields f => exact extend_dict env fields f base c' hok h
    | obj c f => exact extend_obj env c f base c' hok h
    | union cands f => simp [ExtOk] at hok
    | callable f => simp [ExtOk] at hok
    | list e mn mx f =>
      simp only [ExtOk, Bool.and_eq_true, Bool.not_eq_true'] at hok
      obtain ⟨hcf, hb⟩ := hok
      cases base with
      | any bf => exact extend_anyBase env (.list e mn mx f) bf c' hcf (by simpa using hb) h
      | list be bmn bmx bf =>
        simp only at hb
        cases hpre : extendPre env (.list e mn mx f) (.list be bmn bmx bf) with
        | error err => rw [extendSelf, hpre] at h; cases h
        | ok r =>
          obtain ⟨hbf, hr⟩ := extendPre_ok env (.list e mn mx f) _ r hcf rfl hpre
          simp only [Spec.flags] at hbf
          simp [Spec.kind, Spec.flags] at hr
          obtain ⟨hr, hn⟩ := hr; subst hr
          rw [extendSelf, hpre] at h
          simp only at h
          cases hk : listKeyExtend mn mx bmn bmx with
          | error err => simp [hk] at h
          | ok mx' =>
            cases he : extendSelf env e be with
            | error err => simp [hk, he] at h
            | ok e' =>
              simp only [hk, he] at h
              injection h with h; subst h
              obtain ⟨ih1, ih2⟩ := extend_ok env e be e' hb he
              obtain ⟨k1, k2⟩ := listKeyExtend_ok _ _ _ _ _ hk
              refine ⟨?_, by simp [CompatOk, hbf, hcf, Spec.flags, k1, ih2]⟩
              simp only [isCompatible, Bool.and_eq_true]
              refine ⟨⟨by cases hx : bf.noneable <;> cases hy : f.noneable <;> simp_all, ?_⟩, ih1⟩
              cases bmx with
              | none => rfl
              | some bm =>
                obtain ⟨om, e1, hle⟩ := k2 bm rfl
                subst e1
                simpa using hle
      | _ => simp at hb
    | tuple es mn mx f =>
      simp only [ExtOk, Bool.and_eq_true, Bool.not_eq_true'] at hok
      obtain ⟨hcf, hb⟩ := hok
      cases base with
      | any bf => exact extend_anyBase env (.tuple es mn mx f) bf c' hcf (by simpa using hb) h
      | tuple bes bmn bmx bf =>
        simp only at hb
        cases hpre : extendPre env (.tuple es mn mx f) (.tuple bes bmn bmx bf) with
        | error err => rw [extendSelf, hpre] at h; cases h
        | ok r =>
          obtain ⟨hbf, hr⟩ := extendPre_ok env (.tuple es mn mx f) _ r hcf rfl hpre
          simp only [Spec.flags] at hbf
          simp [Spec.kind, Spec.flags] at hr
          obtain ⟨hr, hn⟩ := hr; subst hr
          have hnn : (!(!bf.noneable && f.noneable)) = true := by
            cases hx : bf.noneable <;> cases hy : f.noneable <;> simp_all
          rw [extendSelf, hpre] at h
          simp only at h
          by_cases hfx : fixedLen mn mx = true
          · simp only [hfx, if_true] at h hb
            by_cases hbfx : fixedLen bmn bmx = true
            · simp only [hbfx, if_true] at h hb
              split at h
              · cases h
              · rename_i hlen
                have hl : es.length = bes.length := by simpa using hlen
                cases hz : extendZip env es bes with
                | error err => simp [hz] at h
                | ok es' =>
                  simp only [hz] at h
                  injection h with h; subst h
                  obtain ⟨z1, z2, z3⟩ := extendZip_ok env es bes es' hb hl hz
                  refine ⟨?_, by simp [CompatOk, hbf, hcf, Spec.flags, hbfx, z2]⟩
                  simp only [isCompatible, hbfx, hfx, if_true, Bool.and_eq_true, beq_iff_eq]
                  exact ⟨hnn, by omega, z1⟩
            · simp only [hbfx, Bool.false_eq_true, if_false] at h hb
              split at h
              · cases h
              · rename_i h1
                cases bmx with
                | none =>
                  simp only [Bool.false_eq_true, if_false] at h
                  cases bes with
                  | nil => simp at h
                  | cons be rest =>
                    simp only at h
                    cases hz : extendAll env es be with
                    | error err => simp [hz] at h
                    | ok es' =>
                      simp only [hz] at h
                      injection h with h; subst h
                      obtain ⟨z1, z2, z3⟩ := extendAll_ok env es be rest es' hb hz
                      refine ⟨?_, by simp [CompatOk, hbf, hcf, Spec.flags, hbfx, hfx, headOkAll, z2]⟩
                      simp only [isCompatible, hbfx, hfx, if_true, Bool.false_eq_true, if_false,
                        Bool.and_eq_true, headCompatAll, z3]
                      refine ⟨hnn, ?_, z1⟩
                      simp only [Bool.not_eq_true', Bool.or_eq_false_iff, decide_eq_false_iff_not]
                      refine ⟨h1, ?_⟩
                      first | rfl | trivial | simp
                | some bm =>
                  simp only at h
                  split at h
                  · cases h
                  · rename_i h2
                    cases bes with
                    | nil => simp at h
                    | cons be rest =>
                      simp only at h
                      cases hz : extendAll env es be with
                      | error err => simp [hz] at h
                      | ok es' =>
                        simp only [hz] at h
                        injection h with h; subst h
                        obtain ⟨z1, z2, z3⟩ := extendAll_ok env es be rest es' hb hz
                        refine ⟨?_, by simp [CompatOk, hbf, hcf, Spec.flags, hbfx, hfx, headOkAll, z2]⟩
                        simp only [isCompatible, hbfx, hfx, if_true, Bool.false_eq_true, if_false,
                          Bool.and_eq_true, headCompatAll, z3]
                        refine ⟨hnn, ?_, z1⟩
                        simp only [Bool.not_eq_true', Bool.or_eq_false_iff, decide_eq_false_iff_not]
                        refine ⟨h1, ?_⟩
                        simpa using h2
          · simp only [hfx, Bool.false_eq_true, if_false] at h hb
            by_cases hbfx : fixedLen bmn bmx = true
            · simp [hbfx] at h
            · simp only [hbfx, Bool.false_eq_true, if_false] at h
              simp only [Bool.and_eq_true, Bool.not_eq_true'] at hb
              obtain ⟨hnf, hhd⟩ := hb
              split at h
              · cases h
              · rename_i h1
                cases mx with
                | none =>
                  cases bmx with
                  | none =>
                    simp only [Bool.false_eq_true, if_false] at h hnf
                    cases hz : extendHead env es bes with
                    | error err => simp [hz] at h
                    | ok es' =>
                      simp only [hz] at h
                      injection h with h; subst h
                      obtain ⟨z1, z2⟩ := extendHead_ok env es bes es' hhd hz
                      have hnf' := hnf
                      simp only [beq_iff_eq] at hnf'
                      refine ⟨?_, by simp [CompatOk, hbf, hcf, Spec.flags, hbfx, hnf', z2]⟩
                      simp only [isCompatible, hbfx, hnf, Bool.false_eq_true, if_false, Bool.and_eq_true,
                        decide_eq_true_eq]
                      refine ⟨hnn, ⟨?_, ?_⟩, z1⟩
                      · by_cases hm0 : mn = 0
                        · simp [hm0]
                        · simp only [bne_iff_ne, ne_eq, hm0, not_false_eq_true, Bool.and_eq_true,
                            decide_eq_true_eq, true_and, decide_true, Bool.true_and] at h1
                          simp only [beq_iff_eq, hm0, if_false]
                          omega
                      · first | rfl | trivial | simp
                  | some bm =>
                    simp only [Bool.false_eq_true, if_false] at h hnf
                    cases hz : extendHead env es bes with
                    | error err => simp [hz] at h
                    | ok es' =>
                      simp only [hz] at h
                      injection h with h; subst h
                      obtain ⟨z1, z2⟩ := extendHead_ok env es bes es' hhd hz
                      have hnf' := hnf
                      simp only [beq_iff_eq] at hnf'
                      refine ⟨?_, by simp [CompatOk, hbf, hcf, Spec.flags, hbfx, hnf', z2]⟩
                      simp only [isCompatible, hbfx, hnf, Bool.false_eq_true, if_false, Bool.and_eq_true,
                        decide_eq_true_eq]
                      refine ⟨hnn, ⟨?_, ?_⟩, z1⟩
                      · by_cases hm0 : mn = 0
                        · simp [hm0]
                        · simp only [bne_iff_ne, ne_eq, hm0, not_false_eq_true, Bool.and_eq_true,
                            decide_eq_true_eq, true_and, decide_true, Bool.true_and] at h1
                          simp only [beq_iff_eq, hm0, if_false]
                          omega
                      · simp
                | some m =>
                  cases bmx with
                  | none =>
                    simp only [Bool.false_eq_true, if_false] at h hnf
                    cases hz : extendHead env es bes with
                    | error err => simp [hz] at h
                    | ok es' =>
                      simp only [hz] at h
                      injection h with h; subst h
                      obtain ⟨z1, z2⟩ := extendHead_ok env es bes es' hhd hz
                      have hnf' := hnf
                      simp only [beq_iff_eq] at hnf'
                      refine ⟨?_, by simp [CompatOk, hbf, hcf, Spec.flags, hbfx, hnf', z2]⟩
                      simp only [isCompatible, hbfx, hnf, Bool.false_eq_true, if_false, Bool.and_eq_true,
                        decide_eq_true_eq]
                      refine ⟨hnn, ⟨?_, ?_⟩, z1⟩
                      · by_cases hm0 : mn = 0
                        · simp [hm0]
                        · simp only [bne_iff_ne, ne_eq, hm0, not_false_eq_true, Bool.and_eq_true,
                            decide_eq_true_eq, true_and, decide_true, Bool.true_and] at h1
                          simp only [beq_iff_eq, hm0, if_false]
                          omega
                      · first | rfl | trivial | simp
                  | some bm =>
                    simp only at h hnf
                    split at h
                    · cases h
                    · rename_i h2
                      cases hz : extendHead env es bes with
                      | error err => simp [hz] at h
                      | ok es' =>
                        simp only [hz] at h
                        injection h with h; subst h
                        obtain ⟨z1, z2⟩ := extendHead_ok env es bes es' hhd hz
                        have hnf' := hnf
                        simp only [beq_iff_eq] at hnf'
                        refine ⟨?_, by simp [CompatOk, hbf, hcf, Spec.flags, hbfx, hnf', z2]⟩
                        simp only [isCompatible, hbfx, hnf, Bool.false_eq_true, if_false, Bool.and_eq_true,
                          decide_eq_true_eq]
                        refine ⟨hnn, ⟨?_, ?_⟩, z1⟩
                        · by_cases hm0 : mn = 0
                          · simp [hm0]
                          · simp only [bne_iff_ne, ne_eq, hm0, not_false_eq_true, Bool.and_eq_true,
                              decide_eq_true_eq, true_and, decide_true, Bool.true_and] at h1
                            simp only [beq_iff_eq, hm0, if_false]
                            omega
                        · simpa using h2
      | _ => simp at hb
  termination_by structural child
  theorem extendZip_ok (env : Env) (es bes es' : List Spec) (hok : zipExtOk es bes = true)
      (hl : es.length = bes.length) (h : extendZip env es bes = .ok es') :
      zipCompat env bes es' = true ∧ zipOk bes es' = true ∧ es'.length = es.length := by
    cases es with
    | nil =>
      simp only [extendZip] at h; injection h with h; subst h
      cases bes with
      | nil => simp [zipCompat, zipOk]
      | cons b bs => simp at hl
    | cons s ss =>
      cases bes with
      | nil => simp at hl
      | cons b bs =>
        simp only [extendZip] at h
        simp only [zipExtOk, Bool.and_eq_true] at hok
        cases h1 : extendSelf env s b with
        | error err => simp [h1] at h
        | ok s' =>
          cases h2 : extendZip env ss bs with
          | error err => simp [h1, h2] at h
          | ok ss' =>
            simp only [h1, h2] at h
            injection h with h; subst h
            obtain ⟨a1, a2⟩ := extend_ok env s b s' hok.1 h1
            obtain ⟨b1, b2, b3⟩ := extendZip_ok env ss bs ss' hok.2 (by simpa using hl) h2
            simp [zipCompat, zipOk, a1, a2, b1, b2, b3]
  termination_by structural es
  theorem extendAll_ok (env : Env) (es : List Spec) (be : Spec) (rest es' : List Spec)
      (hok : allExtOk es (be :: rest) = true) (h : extendAll env es be = .ok es') :
      es'.all (fun o => isCompatible env be o) = true ∧ es'.all (fun o => CompatOk be o) = true ∧
        es'.length = es.length := by
    cases es with
    | nil => simp only [extendAll] at h; injection h with h; subst h; simp
    | cons s ss =>
      simp only [extendAll] at h
      simp only [allExtOk, Bool.and_eq_true] at hok
      cases h1 : extendSelf env s be with
      | error err => simp [h1] at h
      | ok s' =>
        cases h2 : extendAll env ss be with
        | error err => simp [h1, h2] at h
        | ok ss' =>
          simp only [h1, h2] at h
          injection h with h; subst h
          obtain ⟨a1, a2⟩ := extend_ok env s be s' hok.1 h1
          obtain ⟨b1, b2, b3⟩ := extendAll_ok env ss be rest ss' hok.2 h2
          simp [a1, a2, b1, b2, b3]
  termination_by structural es
  theorem extendHead_ok (env : Env) (es bes es' : List Spec) (hok : headExtOk es bes = true)
      (h : extendHead env es bes = .ok es') :
      headCompat env bes es' = true ∧ headOk bes es' = true := by
    cases es with
    | nil => simp [extendHead] at h
    | cons e rest =>
      cases bes with
      | nil => simp [extendHead] at h
      | cons be brest =>
        simp only [extendHead] at h
        simp only [headExtOk] at hok
        cases h1 : extendSelf env e be with
        | error err => simp [h1] at h
        | ok e' =>
          simp only [h1] at h
          injection h with h; subst h
          obtain ⟨a1, a2⟩ := extend_ok env e be e' hok h1
          simp [headCompat, headOk, a1, a2]
  termination_by structural es
end

end Pg.Typing
