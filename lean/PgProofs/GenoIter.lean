/-
  Root-level consequences of the no-multi odometer theorem: `Spec.first/next/all`, iteration,
  counting.
-/
import PgProofs.GenoNoMulti
namespace Pg.Geno
open DNA

/-- What the enumeration theorems say about a root spec. -/
structure SpecOk (g : Spec) : Prop where
  head : g.all.head? = some g.first
  nodup : g.all.Nodup
  next : ∀ d ∈ g.all, g.next d = some (succIn g.all d)

theorem rootOf_inj {a b : List DNA} (hl : a.length = b.length) (h : rootOf a = rootOf b) : a = b := by
  match a, b, hl with
  | [], [], _ => rfl
  | [x], [y], _ => simp only [rootOf] at h; rw [h]
  | x1 :: x2 :: xs, y1 :: y2 :: ys, _ =>
    simp only [rootOf] at h
    cases h; rfl

theorem specOk_space {s : Space} (ok : ElemsOk s) : SpecOk (.space s) := by
  have hinj : ∀ a ∈ allElems s, ∀ b ∈ allElems s, rootOf a = rootOf b → a = b :=
    fun a ha b hb h => rootOf_inj ((ok.len a ha).trans (ok.len b hb).symm) h
  refine ⟨?_, ?_, ?_⟩
  · simp only [Spec.all, allS, Spec.first, firstS, List.head?_map, ok.head, Option.map_some]
    rw [mk'_none_of_intTop (ok.intTop _ ok.first_mem)]
  · simp only [Spec.all, allS]
    unfold List.Nodup
    rw [List.pairwise_map]
    have h2 : List.Pairwise (fun a b => a ∈ allElems s ∧ b ∈ allElems s ∧ a ≠ b) (allElems s) := by
      have := ok.nodup
      unfold List.Nodup at this
      exact List.Pairwise.imp_of_mem (fun ha hb h => ⟨ha, hb, h⟩) this
    exact h2.imp (fun ⟨ha, hb, hne⟩ e => hne (hinj _ ha _ hb e))
  · intro d hd
    simp only [Spec.all, allS, List.mem_map] at hd
    obtain ⟨ds, hds, rfl⟩ := hd
    simp only [Spec.next, nextS, Spec.all, allS]
    rw [nextSpaceWith_rootOf ok hds, succIn_map (fun a ha h => hinj a ha ds hds h)]

theorem specOk_point {p : Point} (ok : PtOk p) : SpecOk (.point p) :=
  ⟨ok.head, ok.nodup, ok.next⟩

theorem specOk (g : Spec) (hf : g.finite = true) (hw : g.wf = true) (hm : g.noMulti = true) : SpecOk g := by
  cases g with
  | space s => exact specOk_space (elemsOk s hf hw hm)
  | point p => exact specOk_point (ptOk p hf hw hm)

/-! ### iteration -/

theorem iterFrom_split (g : Spec) (L : List DNA) (hnext : ∀ d ∈ L, g.next d = some (succIn L d))
    (hnd : L.Nodup) :
    ∀ (suf pre : List DNA) (x : DNA), L = pre ++ x :: suf → ∀ fuel, suf.length < fuel →
      iterFrom g fuel x = some (suf, true) := by
  intro suf
  induction suf with
  | nil =>
    intro pre x hL fuel hfuel
    obtain ⟨f, rfl⟩ : ∃ f, fuel = f + 1 := ⟨fuel - 1, by simp at hfuel; omega⟩
    have hx : x ∈ L := by rw [hL]; simp
    have hnp : x ∉ pre := by
      rw [hL, List.nodup_append] at hnd
      intro h; exact hnd.2.2 x h x List.mem_cons_self rfl
    have hs : succIn L x = none := by
      rw [hL, succIn_append_right hnp]; simp [succIn]
    simp [iterFrom, hnext x hx, hs]
  | cons y suf ih =>
    intro pre x hL fuel hfuel
    obtain ⟨f, rfl⟩ : ∃ f, fuel = f + 1 := ⟨fuel - 1, by simp at hfuel; omega⟩
    have hx : x ∈ L := by rw [hL]; simp
    have hnp : x ∉ pre := by
      rw [hL, List.nodup_append] at hnd
      intro h; exact hnd.2.2 x h x List.mem_cons_self rfl
    have hs : succIn L x = some y := by
      rw [hL, succIn_append_right hnp]; simp [succIn]
    have hL' : L = (pre ++ [x]) ++ y :: suf := by rw [hL]; simp
    have := ih (pre ++ [x]) y hL' f (by simp at hfuel; omega)
    simp [iterFrom, hnext x hx, hs, this]

theorem iter_eq_all {g : Spec} (ok : SpecOk g) (fuel : Nat) (hfuel : g.all.length < fuel) :
    g.iter fuel = some (g.all, true) := by
  obtain ⟨f, rfl⟩ : ∃ f, fuel = f + 1 := ⟨fuel - 1, by omega⟩
  have hh := ok.head
  cases hL : g.all with
  | nil => rw [hL] at hh; cases hh
  | cons a suf =>
    rw [hL] at hh
    simp only [List.head?_cons, Option.some.injEq] at hh
    subst hh
    have := iterFrom_split g g.all ok.next ok.nodup suf [] g.first (by simp [hL]) f
      (by rw [hL] at hfuel; simp at hfuel; omega)
    simp [Spec.iter, this]

/-! ### counting -/

theorem sumNat_eq_sum (l : List Nat) : sumNat l = l.sum := by
  induction l with
  | nil => rfl
  | cons a l ih => simp [sumNat, ih]

theorem sizeK_one (d s : Bool) (l : List Nat) : sizeK d s l 1 = sumNat l := by
  cases l <;> simp [sizeK]

mutual
  theorem sizeP_eq (p : Point) (hf : p.finite = true) (hw : p.wf = true) (hm : p.noMulti = true) :
      sizeP p = some (allP p).length := by
    cases p with
    | float => simp [Point.finite] at hf
    | custom => simp [Point.finite] at hf
    | choices k cands d s info =>
      simp only [Point.finite] at hf
      simp only [Point.wf, Bool.and_eq_true, decide_eq_true_eq] at hw
      simp only [Point.noMulti, Bool.and_eq_true, decide_eq_true_eq] at hm
      have hk : k = 1 := by omega
      subst hk
      rw [allP_single, sizeP, sizesC_eq cands hf hw.2 hm.2]
      simp only [Option.map_some, Option.some.injEq, sizeK_one, sumNat_eq_sum]
      rw [walkIdx_length (G := List.length)]
      intro i b
      simp [nodeBlock]
  theorem sizeElems_eq (es : List Point) (hf : finiteSpace es = true) (hw : wfSpace es = true)
      (hm : noMultiSpace es = true) : sizeElems es = some (allElems es).length := by
    cases es with
    | nil => rfl
    | cons p ps =>
      simp only [finiteSpace, wfSpace, noMultiSpace, Bool.and_eq_true] at hf hw hm
      rw [allElems_cons, length_lexProd, sizeElems, sizeP_eq p hf.1 hw.1 hm.1,
        sizeElems_eq ps hf.2 hw.2 hm.2]
  theorem sizesC_eq (cs : List (List Point)) (hf : finiteCands cs = true) (hw : wfCands cs = true)
      (hm : noMultiCands cs = true) : sizesC cs = some ((allCands cs).map List.length) := by
    cases cs with
    | nil => rfl
    | cons c cs =>
      simp only [finiteCands, wfCands, noMultiCands, Bool.and_eq_true] at hf hw hm
      rw [sizesC, sizeElems_eq c hf.1 hw.1 hm.1, sizesC_eq cs hf.2 hw.2 hm.2]
      simp [allCands]
end

theorem size_eq (g : Spec) (hf : g.finite = true) (hw : g.wf = true) (hm : g.noMulti = true) :
    g.size = some g.all.length := by
  cases g with
  | space s => simp [Spec.size, Spec.all, allS, sizeElems_eq s hf hw hm]
  | point p => exact sizeP_eq p hf hw hm

end Pg.Geno
