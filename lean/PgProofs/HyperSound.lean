/-
  C13 — soundness of encode: a value that is encoded to a *valid* DNA decodes back to an equal value.
-/
import PgProofs.Hyper
namespace Pg.C13

theorem norm_some (x : DVal) (cs : List DNA) : DNA.norm (some x) cs = .mk (some x) (DNA.splice cs) := by
  simp [DNA.norm]

theorem nfL_splice (cs : List DNA) (h : nfL cs = true) : nfL (DNA.splice cs) = true := by
  match cs, h with
  | [], _ => simp [DNA.splice, nfL]
  | [.mk none gcs], h =>
    simp only [DNA.splice]
    simp only [nfL, nfD, Bool.and_eq_true] at h
    exact h.1.2
  | [.mk (some y) gcs], h => simpa [DNA.splice] using h
  | c1 :: c2 :: rest, h => simpa [DNA.splice] using h

theorem splice_single_ne (cs : List DNA) (h : nfL cs = true) :
    ∀ w gcs, DNA.splice cs = [.mk w gcs] → w ≠ none := by
  intro w gcs hs
  match cs, h, hs with
  | [.mk none g], h, hs =>
    simp only [DNA.splice] at hs
    simp only [nfL, nfD, Bool.and_eq_true] at h
    subst hs
    simp at h
  | [.mk (some y) g], _, hs =>
    simp only [DNA.splice, List.cons.injEq, DNA.mk.injEq, and_true] at hs
    intro hw; rw [hw] at hs; cases hs.1
  | c1 :: c2 :: rest, _, hs => simp [DNA.splice] at hs

/-- The DNA constructor produces DNA objects from DNA objects. -/
theorem nfD_norm (v : Option DVal) (cs : List DNA) (h : nfL cs = true) : nfD (DNA.norm v cs) = true := by
  have hs := nfL_splice cs h
  have hne := splice_single_ne cs h
  simp only [DNA.norm]
  generalize DNA.splice cs = sp at hs hne
  match v, sp, hs, hne with
  | none, [], _, _ => simp [nfD, nfL]
  | some x, [], _, _ => simp [nfD, nfL]
  | none, [.mk w g], hs, _ => simpa [nfL] using hs
  | some x, [.mk w g], hs, hne =>
    have hw := hne w g rfl
    cases w with
    | none => exact absurd rfl hw
    | some y => simpa [nfD] using hs
  | none, c1 :: c2 :: rest, hs, _ => simpa [nfD] using hs
  | some x, c1 :: c2 :: rest, hs, _ => simpa [nfD] using hs

theorem norm_none_of_nf (x : DNA) (h : nfD x = true) : DNA.norm none [x] = x := by
  match x, h with
  | .mk (some y) cs, _ => simp [DNA.norm, DNA.splice]
  | .mk none [], _ => simp [DNA.norm, DNA.splice]
  | .mk none [c], h => simp [nfD] at h
  | .mk none (c1 :: c2 :: rest), _ => simp [DNA.norm, DNA.splice]

theorem norm_none_splice_single (child : DNA) (h : nfD child = true) :
    DNA.norm none (DNA.splice [child]) = child := by
  match child, h with
  | .mk (some y) cs, h => simpa [DNA.splice] using norm_none_of_nf _ h
  | .mk none [], _ => simp [DNA.norm, DNA.splice]
  | .mk none [c], h => simp [nfD] at h
  | .mk none (c1 :: c2 :: rest), _ => simp [DNA.norm, DNA.splice]

theorem norm_none_many (sds : List DNA) (h : sds.length ≠ 1) : DNA.norm none sds = .mk none sds := by
  match sds, h with
  | [], _ => simp [DNA.norm, DNA.splice]
  | [x], h => simp at h
  | c1 :: c2 :: rest, _ => simp [DNA.norm, DNA.splice]

theorem splitDna_norm (ds : List DNA) (h : nfL ds = true) : splitDna ds.length (DNA.norm none ds) = some ds := by
  match ds, h with
  | [], _ => simp [splitDna, DNA.norm, DNA.splice]
  | [x], h =>
    simp only [nfL, Bool.and_eq_true] at h
    simp [splitDna, norm_none_of_nf x h.1]
  | c1 :: c2 :: rest, _ =>
    simp [splitDna, DNA.norm, DNA.splice, DNA.children]

section
variable (W : Cfg)

theorem validL_length (gs : List GSpec) (ds : List DNA) (h : validL W.dom gs ds = true) : ds.length = gs.length := by
  induction gs generalizing ds with
  | nil => simp [validL_nil W ds h]
  | cons g gs ih =>
    cases ds with
    | nil => simp [validL] at h
    | cons d ds =>
      simp only [validL, Bool.and_eq_true] at h
      simp [ih ds h.2]

theorem validL_append_len (a b : List GSpec) (d1 d2 : List DNA) (hl : d1.length = a.length)
    (h : validL W.dom (a ++ b) (d1 ++ d2) = true) : validL W.dom a d1 = true ∧ validL W.dom b d2 = true := by
  induction a generalizing d1 with
  | nil =>
    have : d1 = [] := by simpa using hl
    subst this
    exact ⟨by simp [validL], by simpa using h⟩
  | cons g gs ih =>
    cases d1 with
    | nil => simp at hl
    | cons d d1 =>
      simp only [List.cons_append, validL, Bool.and_eq_true] at h
      have := ih d1 (by simpa using hl) h.2
      exact ⟨by simp [validL, h.1, this.1], this.2⟩

/-- Traversal level. -/
def EsT (t : Tmpl) : Prop :=
  ∀ v ds, egoT W t v = .ok ds →
    nfL ds = true ∧ ds.length = (specT W t).length ∧
    (validL W.dom (specT W t) ds = true → ∀ rest, ∃ v', goT W t (ds ++ rest) = .ok (v', rest) ∧ eqvT v' v = true)

def EsL (ts : List Tmpl) : Prop :=
  ∀ vs ds, egoL W ts vs = .ok ds →
    nfL ds = true ∧ ds.length = (specL W ts).length ∧
    (validL W.dom (specL W ts) ds = true → ∀ rest, ∃ vs', goL W ts (ds ++ rest) = .ok (vs', rest) ∧ eqvL vs' vs = true)

/-- Template level. -/
def EsD (c : Tmpl) : Prop :=
  ∀ v d, encode W c v = .ok d →
    nfD d = true ∧ (validG W.dom (dnaSpec W c) d = true → ∃ v', decode W c d = .ok v' ∧ eqvT v' v = true)

theorem EsD_of_EsT (c : Tmpl) (h : EsT W c) : EsD W c := by
  intro v d henc
  simp only [encode] at henc
  split at henc
  · cases henc
  · rename_i ds hds
    cases henc
    obtain ⟨hnf, hlen, hdec⟩ := h v ds hds
    refine ⟨nfD_norm none ds hnf, ?_⟩
    intro hv
    simp only [dnaSpec, validG, ← hlen, splitDna_norm ds hnf, Bool.and_eq_true] at hv
    obtain ⟨v', hgo, heq⟩ := hdec hv.2 []
    simp only [List.append_nil] at hgo
    exact ⟨v', by simp [decode, ← hlen, splitDna_norm ds hnf, hgo], heq⟩

theorem EsL_of_mem (ts : List Tmpl) (h : ∀ t ∈ ts, EsT W t) : EsL W ts := by
  induction ts with
  | nil =>
    intro vs ds hego
    cases vs with
    | nil =>
      simp only [egoL, Except.ok.injEq] at hego
      subst hego
      exact ⟨by simp [nfL], by simp [specL], fun _ rest => ⟨[], by simp [goL], by simp [eqvL]⟩⟩
    | cons v vs => simp [egoL] at hego
  | cons t ts ih =>
    intro vs ds hego
    cases vs with
    | nil => simp [egoL] at hego
    | cons v vs =>
      simp only [egoL] at hego
      split at hego
      · cases hego
      · rename_i a ha
        split at hego
        · cases hego
        · rename_i b hb
          cases hego
          obtain ⟨hnfa, hla, hda⟩ := h t (List.mem_cons_self ..) v a ha
          obtain ⟨hnfb, hlb, hdb⟩ := ih (fun t' ht' => h t' (List.mem_cons_of_mem _ ht')) vs b hb
          refine ⟨(nfL_append a b).mpr ⟨hnfa, hnfb⟩, by simp [specL, hla, hlb], ?_⟩
          intro hv rest
          simp only [specL] at hv
          obtain ⟨hva, hvb⟩ := validL_append_len W _ _ a b hla hv
          obtain ⟨v', hgo, heq⟩ := hda hva (b ++ rest)
          obtain ⟨vs', hgoL, heqL⟩ := hdb hvb rest
          exact ⟨v' :: vs', by simp [goL, List.append_assoc, hgo, hgoL], by simp [eqvL, heq, heqL]⟩

theorem firstMatch_idx (cands : List Tmpl) (x : Tmpl) (n i : Nat) (child : DNA)
    (h : firstMatch (cands.map (encode W)) x n = some (i, child)) :
    ∃ c, n ≤ i ∧ cands[i - n]? = some c ∧ encode W c x = .ok child := by
  induction cands generalizing n with
  | nil => simp [firstMatch] at h
  | cons c0 rest ih =>
    simp only [List.map_cons, firstMatch] at h
    split at h
    · rename_i d hd
      simp only [Option.some.injEq, Prod.mk.injEq] at h
      obtain ⟨rfl, rfl⟩ := h
      exact ⟨c0, Nat.le_refl _, by simp, hd⟩
    · obtain ⟨c, hle, hc, he⟩ := ih (n + 1) h
      refine ⟨c, by omega, ?_, he⟩
      have : i - n = (i - (n + 1)) + 1 := by omega
      rw [this, List.getElem?_cons_succ]
      exact hc

/-- One encoded item: the sub-DNA is a DNA object, and if it is valid it decodes to an equal value. -/
theorem item_ok (cands : List Tmpl) (hIH : ∀ c ∈ cands, EsD W c) (x : Tmpl) (i : Nat) (child : DNA)
    (h : firstMatch (encFns W cands) x 0 = some (i, child)) :
    nfD (DNA.norm (some (.idx i)) [child]) = true ∧
    ∀ chk, validSub (candV W.dom (candSpecs W cands)) chk (DNA.norm (some (.idx i)) [child]) = true →
      ∃ x', decodeSub (candFns W cands) (DNA.norm (some (.idx i)) [child]) = .ok x' ∧ eqvT x' x = true := by
  rw [encFns_eq] at h
  obtain ⟨c, _, hc, henc⟩ := firstMatch_idx W cands x 0 i child h
  simp only [Nat.sub_zero] at hc
  have hmem := List.mem_of_getElem? hc
  obtain ⟨hnf, hdec⟩ := hIH c hmem x child henc
  refine ⟨nfD_norm _ _ (by simp [nfL, hnf]), ?_⟩
  intro chk hv
  simp only [norm_some, validSub, candV_eq, candSpecs_eq, List.getElem?_map, hc, Option.map_some,
    Bool.and_eq_true, norm_none_splice_single child hnf] at hv
  obtain ⟨x', hx', heq⟩ := hdec hv.2
  exact ⟨x', by simp [norm_some, decodeSub, candFns_eq, hc, norm_none_splice_single child hnf, hx'], heq⟩

theorem items_ok (cands : List Tmpl) (hIH : ∀ c ∈ cands, EsD W c) (vs : List Tmpl) (sds : List DNA)
    (h : encodeItems (encFns W cands) vs = .ok sds) :
    nfL sds = true ∧ sds.length = vs.length ∧
    (sds.all (validSub (candV W.dom (candSpecs W cands)) false) = true →
      ∃ vs', decodeSubs (candFns W cands) sds = .ok vs' ∧ eqvL vs' vs = true) := by
  induction vs generalizing sds with
  | nil =>
    simp only [encodeItems, Except.ok.injEq] at h
    subst h
    exact ⟨by simp [nfL], rfl, fun _ => ⟨[], by simp [decodeSubs], by simp [eqvL]⟩⟩
  | cons x vs ih =>
    simp only [encodeItems] at h
    split at h
    · cases h
    · rename_i i child hfm
      split at h
      · cases h
      · rename_i rest hrest
        cases h
        obtain ⟨hnf1, hd1⟩ := item_ok W cands hIH x i child hfm
        obtain ⟨hnf2, hl2, hd2⟩ := ih rest hrest
        refine ⟨by simp [nfL, hnf1, hnf2], by simp [hl2], ?_⟩
        intro hall
        simp only [List.all_cons, Bool.and_eq_true] at hall
        obtain ⟨x', hx', heq⟩ := hd1 false hall.1
        obtain ⟨vs', hvs', heqs⟩ := hd2 hall.2
        exact ⟨x' :: vs', by simp [decodeSubs, hx', hvs'], by simp [eqvL, heq, heqs]⟩

theorem eqvT_refl_floatv (tag : Nat) (lo hi : Num) : eqvT (.floatv tag lo hi) (.floatv tag lo hi) = true := by
  simp [eqvT]

theorem EsT_choice_active (tag : Nat) (one : Bool) (k : Nat) (cands : List Tmpl) (dst so : Bool)
    (hW : W tag = true) (hIH : ∀ c ∈ cands, EsD W c) : EsT W (.choice tag one k cands dst so) := by
  intro v ds hego
  simp only [egoT, hW, if_true] at hego
  split at hego
  · cases hego
  · rename_i d hd
    cases hego
    simp only [encodeChoice] at hd
    split at hd
    · cases hd
    · rename_i vs hitems
      split at hd
      · cases hd
      · rename_i hlen
        have hlen' : vs.length = k := by simpa using hlen
        split at hd
        · cases hd
        · rename_i sds hsds
          cases hd
          obtain ⟨hnf, hl, hdec⟩ := items_ok W cands hIH vs sds hsds
          refine ⟨by simp [nfL, nfD_norm none sds hnf], by simp [specT, hW], ?_⟩
          intro hv rest
          simp only [specT, hW, if_true, validL, Bool.and_true] at hv
          simp only [validG] at hv
          by_cases hk : k = 1
          · -- single choice: exactly one item
            subst hk
            simp only [if_true] at hv
            match sds, vs, hl, hlen', hsds, hnf, hdec, hv with
            | [sd], [x], _, _, hsds, hnf, hdec, hv =>
              simp only [nfL, Bool.and_eq_true] at hnf
              rw [norm_none_of_nf sd hnf.1] at hv ⊢
              have hall : [sd].all (validSub (candV W.dom (candSpecs W cands)) false) = true := by
                simp only [List.all_cons, List.all_nil, Bool.and_true]
                match sd, hv with
                | .mk (some (.idx i)) cs, hv =>
                  simp only [validSub] at hv ⊢
                  split at hv
                  · cases hv
                  · rename_i isC f hcv
                    simp only [Bool.and_eq_true] at hv
                    simp [hv.2]
                | .mk none cs, hv => simp [validSub] at hv
                | .mk (some (.flt y)) cs, hv => simp [validSub] at hv
              obtain ⟨vs', hvs', heqs⟩ := hdec hall
              simp only [decodeSubs] at hvs'
              split at hvs'
              · cases hvs'
              · rename_i x' hx'
                cases hvs'
                simp only [eqvL, Bool.and_eq_true] at heqs
                cases one with
                | true =>
                  simp only [if_true, Option.some.injEq] at hitems
                  refine ⟨x', by simp [goT, hW, decodeChoice, hx'], ?_⟩
                  have : v = x := by simpa using hitems
                  rw [this]; exact heqs.1
                | false =>
                  simp only [Bool.false_eq_true, if_false] at hitems
                  split at hitems
                  · rename_i vs0
                    simp only [Option.some.injEq] at hitems
                    subst hitems
                    exact ⟨.node .list [x'], by simp [goT, hW, decodeChoice, hx'], by simp [eqvT, eqvL, heqs.1]⟩
                  · cases hitems
            | [], [], hl, hlen', _, _, _, _ => simp at hlen'
            | _ :: _ :: _, [x], hl, _, _, _, _, _ => simp at hl
            | [], [x], hl, _, _, _, _, _ => simp at hl
            | _, _ :: _ :: _, _, hlen', _, _, _, _ => simp at hlen'
            | _ :: _, [], hl, _, _, _, _, _ => simp at hl
          · have hl1 : sds.length ≠ 1 := by omega
            rw [norm_none_many sds hl1] at hv ⊢
            simp only [hk, if_false, DNA.value, DNA.children, Bool.and_eq_true, decide_eq_true_eq] at hv
            obtain ⟨⟨⟨_, hlk0⟩, hidx⟩, hall⟩ := hv
            have hlk : sds.length = k := of_decide_eq_true hlk0
            obtain ⟨vs', hvs', heqs⟩ := hdec hall
            cases hai : allIdx sds with
            | none => simp [hai] at hidx
            | some is =>
              simp only [hai] at hidx
              cases one with
              | true =>
                simp only [if_true, Option.some.injEq] at hitems
                subst hitems
                simp at hlen'
                exact absurd hlen'.symm hk
              | false =>
                simp only [Bool.false_eq_true, if_false] at hitems
                split at hitems
                · rename_i vs0
                  simp only [Option.some.injEq] at hitems
                  subst hitems
                  exact ⟨.node .list vs', by simp [goT, hW, decodeChoice, hk, DNA.children, hlk, hai, hidx, hvs'],
                    by simp [eqvT, heqs]⟩
                · cases hitems

theorem EsT_all (hE : HooksEncSound W) (t : Tmpl) : EsT W t := by
  induction t using Tmpl.ind_t with
  | hconst a =>
    intro v ds hego
    cases v with
    | const b =>
      simp only [egoT] at hego
      split at hego
      · rename_i hp
        cases hego
        exact ⟨by simp [nfL], by simp [specT], fun _ rest => ⟨.const a, by simp [goT], by simpa [eqvT] using hp⟩⟩
      · cases hego
    | node l vs => simp [egoT] at hego
    | choice tag one k cs d s => simp [egoT] at hego
    | floatv tag lo hi => simp [egoT] at hego
    | custom tag cid => simp [egoT] at hego
  | hnode l kids ih =>
    intro v ds hego
    cases v with
    | node l' vs =>
      simp only [egoT] at hego
      split at hego
      · rename_i hl
        subst hl
        obtain ⟨hnf, hlen, hdec⟩ := EsL_of_mem W kids ih vs ds hego
        refine ⟨hnf, by simpa [specT] using hlen, ?_⟩
        intro hv rest
        simp only [specT] at hv
        obtain ⟨vs', hgo, heq⟩ := hdec hv rest
        exact ⟨.node l vs', by simp [goT, hgo], by simp [eqvT, heq]⟩
      · cases hego
    | const b => simp [egoT] at hego
    | choice tag one k cs d s => simp [egoT] at hego
    | floatv tag lo hi => simp [egoT] at hego
    | custom tag cid => simp [egoT] at hego
  | hchoice tag one k cands dst so ih =>
    by_cases hW : W tag = true
    · exact EsT_choice_active W tag one k cands dst so hW (fun c hc => EsD_of_EsT W c (ih c hc))
    · intro v ds hego
      simp only [egoT, hW, Bool.false_eq_true, if_false] at hego
      split at hego
      · rename_i tag' one' k' vs d' s'
        split at hego
        · rename_i heq
          obtain ⟨rfl, rfl, rfl, rfl, rfl⟩ := heq
          obtain ⟨hnf, hlen, hdec⟩ := EsL_of_mem W cands ih vs ds hego
          refine ⟨hnf, by simpa [specT, hW] using hlen, ?_⟩
          intro hv rest
          simp only [specT, hW, Bool.false_eq_true, if_false] at hv
          obtain ⟨vs', hgo, heq⟩ := hdec hv rest
          exact ⟨.choice tag one k vs' dst so, by simp [goT, hW, hgo], by simp [eqvT, heq]⟩
        · cases hego
      · cases hego
  | hfloat tag lo hi =>
    intro v ds hego
    by_cases hW : W tag = true
    · simp only [egoT, hW, if_true] at hego
      split at hego
      · rename_i x
        split at hego
        · rename_i hr
          cases hego
          refine ⟨by simp [nfL, nfD], by simp [specT, hW], ?_⟩
          intro _ rest
          exact ⟨.const (.flt x), by simp [goT, hW, DNA.value, hr], by simp [eqvT, Atom.pyEq_refl]⟩
        · cases hego
      · cases hego
    · simp only [egoT, hW, Bool.false_eq_true, if_false] at hego
      split at hego
      · split at hego
        · rename_i heq
          obtain ⟨rfl, rfl, rfl⟩ := heq
          cases hego
          exact ⟨by simp [nfL], by simp [specT, hW], fun _ rest =>
            ⟨.floatv tag lo hi, by simp [goT, hW], eqvT_refl_floatv tag lo hi⟩⟩
        · cases hego
      · cases hego
  | hcustom tag cid =>
    intro v ds hego
    by_cases hW : W tag = true
    · simp only [egoT, hW, if_true] at hego
      split at hego
      · rename_i d henc
        cases hego
        obtain ⟨hnf, ⟨g, hval⟩, v', hdec, heq⟩ := hE cid v d henc
        refine ⟨by simp [nfL, hnf], by simp [specT, hW], ?_⟩
        intro _ rest
        exact ⟨v', by simp [goT, hW, hval, hdec], heq⟩
      · cases hego
    · simp only [egoT, hW, Bool.false_eq_true, if_false] at hego
      split at hego
      · split at hego
        · rename_i heq
          obtain ⟨rfl, rfl⟩ := heq
          cases hego
          exact ⟨by simp [nfL], by simp [specT, hW], fun _ rest =>
            ⟨.custom tag cid, by simp [goT, hW], by simp [eqvT]⟩⟩
        · cases hego
      · cases hego

theorem EsD_all (hE : HooksEncSound W) (t : Tmpl) : EsD W t := EsD_of_EsT W t (EsT_all W hE t)

end

end Pg.C13
