/- C16 — list-level lemmas about trial lists (ids, lookup, update, counting). -/
import PgModel.Conc
namespace Pg.C16

theorem updTrial_length (k : Nat) (f : Trial → Trial) (l : List Trial) :
    (updTrial k f l).length = l.length := by
  simp [updTrial]

theorem updTrial_map_id (k : Nat) (f : Trial → Trial) (hf : ∀ t, (f t).id = t.id) (l : List Trial) :
    (updTrial k f l).map (·.id) = l.map (·.id) := by
  induction l with
  | nil => rfl
  | cons x xs ih =>
    simp only [updTrial, List.map_cons] at ih ⊢
    rw [ih]
    by_cases h : x.id = k <;> simp [h, hf]

theorem updTrial_noop (k : Nat) (f : Trial → Trial) (l : List Trial) (h : ∀ t ∈ l, t.id ≠ k) :
    updTrial k f l = l := by
  induction l with
  | nil => rfl
  | cons x xs ih =>
    have hx : x.id ≠ k := h x (by simp)
    have := ih (fun t ht => h t (by simp [ht]))
    simp only [updTrial, List.map_cons] at this ⊢
    rw [this]; simp [hx]

theorem mem_updTrial {k : Nat} {f : Trial → Trial} {l : List Trial} {x : Trial}
    (h : x ∈ updTrial k f l) : ∃ y ∈ l, x = if y.id = k then f y else y := by
  simp only [updTrial, List.mem_map] at h
  obtain ⟨y, hy, rfl⟩ := h
  exact ⟨y, hy, rfl⟩

theorem mem_updTrial_of_mem {k : Nat} {f : Trial → Trial} {l : List Trial} {y : Trial}
    (h : y ∈ l) : (if y.id = k then f y else y) ∈ updTrial k f l := by
  simp only [updTrial, List.mem_map]
  exact ⟨y, h, rfl⟩

theorem findTrial_some {k : Nat} {l : List Trial} {t : Trial} (h : findTrial k l = some t) :
    t ∈ l ∧ t.id = k := by
  unfold findTrial at h
  refine ⟨List.mem_of_find?_eq_some h, ?_⟩
  have := List.find?_some h
  simpa using this

theorem findTrial_none {k : Nat} {l : List Trial} (h : findTrial k l = none) : ∀ t ∈ l, t.id ≠ k := by
  unfold findTrial at h
  intro t ht
  have := List.find?_eq_none.mp h t ht
  simpa using this

theorem findTrial_of_mem {l : List Trial} (hn : (l.map (·.id)).Nodup) {t : Trial} (ht : t ∈ l) :
    findTrial t.id l = some t := by
  induction l with
  | nil => cases ht
  | cons x xs ih =>
    simp only [List.map_cons, List.nodup_cons] at hn
    simp only [findTrial, List.find?_cons]
    rcases List.mem_cons.mp ht with rfl | hxs
    · simp
    · have hne : x.id ≠ t.id := by
        intro he
        exact hn.1 (he ▸ List.mem_map.mpr ⟨t, hxs, rfl⟩)
      simp only [hne, decide_false]
      exact ih hn.2 hxs

theorem findTrial_updTrial {l : List Trial} (hn : (l.map (·.id)).Nodup) {t : Trial} (ht : t ∈ l)
    (f : Trial → Trial) (hf : ∀ t, (f t).id = t.id) :
    findTrial t.id (updTrial t.id f l) = some (f t) := by
  have hn' : ((updTrial t.id f l).map (·.id)).Nodup := by rw [updTrial_map_id _ _ hf]; exact hn
  have hm : (if t.id = t.id then f t else t) ∈ updTrial t.id f l := mem_updTrial_of_mem ht
  simp only [if_true] at hm
  have := findTrial_of_mem hn' hm
  rw [hf] at this
  exact this

theorem findTrial_updTrial_gen (k k' : Nat) (f : Trial → Trial) (hid : ∀ t, (f t).id = t.id) (l : List Trial) :
    findTrial k' (updTrial k f l) = (findTrial k' l).map (fun t => if t.id = k then f t else t) := by
  unfold findTrial updTrial
  rw [List.find?_map]
  congr 1
  congr 1
  funext t
  by_cases hx : t.id = k <;> simp [hx, hid]

/-- A status that was not PENDING does not become PENDING by an update that never un-completes. -/
theorem isPending_updTrial_false (st : Study) (k k' : Nat) (f : Trial → Trial) (hid : ∀ t, (f t).id = t.id)
    (hc : ∀ t, t.completed = true → (f t).completed = true) (h : st.isPending k' = false) :
    ({ st with trials := updTrial k f st.trials } : Study).isPending k' = false := by
  unfold Study.isPending at h ⊢
  simp only [findTrial_updTrial_gen k k' f hid]
  cases hf : findTrial k' st.trials with
  | none => rfl
  | some t =>
    rw [hf] at h
    simp only [Option.map_some]
    have ht : t.completed = true := by simpa using h
    by_cases hk : t.id = k <;> simp [hk, ht, hc t ht]

/-- Updating the unique trial with id `k` changes a count by the difference on that trial. -/
theorem countP_updTrial (p : Trial → Bool) (k : Nat) (f : Trial → Trial) :
    ∀ (l : List Trial), (l.map (·.id)).Nodup → ∀ t ∈ l, t.id = k →
      (updTrial k f l).countP p + (if p t then 1 else 0) = l.countP p + (if p (f t) then 1 else 0) := by
  intro l
  induction l with
  | nil => intro _ t ht; cases ht
  | cons x xs ih =>
    intro hn t ht hk
    simp only [List.map_cons, List.nodup_cons] at hn
    rcases List.mem_cons.mp ht with rfl | hxs
    · have hno : ∀ y ∈ xs, y.id ≠ k := by
        intro y hy he
        exact hn.1 (List.mem_map.mpr ⟨y, hy, by rw [he, hk]⟩)
      have hx := updTrial_noop k f xs hno
      simp only [updTrial, List.map_cons] at hx ⊢
      rw [hx]
      simp only [hk, if_true, List.countP_cons]
      omega
    · have hne : x.id ≠ k := by
        intro he
        exact hn.1 (List.mem_map.mpr ⟨t, hxs, by rw [hk, he]⟩)
      have := ih hn.2 t hxs hk
      simp only [updTrial, List.map_cons] at this ⊢
      simp only [hne, if_false, List.countP_cons]
      omega

theorem countP_updTrial_same (p : Trial → Bool) (k : Nat) (f : Trial → Trial)
    (hp : ∀ t, p (f t) = p t) (l : List Trial) : (updTrial k f l).countP p = l.countP p := by
  induction l with
  | nil => rfl
  | cons x xs ih =>
    simp only [updTrial, List.map_cons, List.countP_cons] at ih ⊢
    rw [ih]
    by_cases h : x.id = k <;> simp [h, hp]

theorem ids_nodup {l : List Trial} (h : l.map (·.id) = List.range' 1 l.length) : (l.map (·.id)).Nodup := by
  rw [h]; exact List.nodup_range'

theorem ids_append {l : List Trial} (h : l.map (·.id) = List.range' 1 l.length) (g : Nat) :
    (l ++ [newTrial (l.length + 1) g]).map (·.id) = List.range' 1 (l ++ [newTrial (l.length + 1) g]).length := by
  simp only [List.map_append, h, List.map_cons, List.map_nil, List.length_append, List.length_cons,
    List.length_nil, newTrial]
  rw [List.range'_concat]
  simp [Nat.add_comm]

theorem id_le_of_ids {l : List Trial} (h : l.map (·.id) = List.range' 1 l.length) {t : Trial} (ht : t ∈ l) :
    1 ≤ t.id ∧ t.id ≤ l.length := by
  have : t.id ∈ l.map (·.id) := List.mem_map.mpr ⟨t, ht, rfl⟩
  rw [h, List.mem_range'_1] at this
  omega

theorem lastInt_some {l : List Int} (h : l.isEmpty = false) : ∃ r, lastInt l = some r := by
  induction l with
  | nil => simp at h
  | cons x xs ih =>
    cases xs with
    | nil => exact ⟨x, rfl⟩
    | cons y ys =>
      have := ih (by simp)
      simpa [lastInt] using this

end Pg.C16
