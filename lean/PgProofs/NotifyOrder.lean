/-
  C09 — KeyPath order on the model's paths is a strict total order (ints before strs, fix 49638f7),
  a proper prefix is smaller, and the insertion sort of `_notify_field_updates`' dispatch
  (`sorted(..., key=path, reverse=True)`) yields a descending sequence: children before parents.
-/
import PgProofs.NotifySpec
namespace Pg.C09
open T
open Pg.C08 (Atom Key pathLt)

theorem keyLt_irrefl (a : Key) : Key.lt a a = false := by
  cases a with
  | s k => simp [Key.lt, String.lt_irrefl]
  | i n => simp [Key.lt]

theorem keyLt_asymm (a b : Key) (h : Key.lt a b = true) : Key.lt b a = false := by
  cases a <;> cases b <;> simp only [Key.lt, decide_eq_true_eq, decide_eq_false_iff_not] at h ⊢
  · exact String.lt_asymm h
  · cases h
  · omega

theorem keyLt_trans (a b c : Key) (h1 : Key.lt a b = true) (h2 : Key.lt b c = true) : Key.lt a c = true := by
  cases a <;> cases b <;> cases c <;> simp only [Key.lt, decide_eq_true_eq] at h1 h2 ⊢ <;> first
    | exact String.lt_trans h1 h2
    | omega
    | (simp at h1; done)
    | (simp at h2; done)

theorem keyLt_total (a b : Key) (hne : a ≠ b) : Key.lt a b = true ∨ Key.lt b a = true := by
  cases a with
  | s x =>
    cases b with
    | s y =>
      simp only [Key.lt, decide_eq_true_eq]
      by_cases h : x < y
      · exact Or.inl h
      · right
        have h1 : y ≤ x := String.not_lt.1 h
        by_cases h2 : y < x
        · exact h2
        · have h3 : x ≤ y := String.not_lt.1 h2
          exact absurd (by rw [String.le_antisymm h3 h1]) hne
    | i n => right; rfl
  | i m =>
    cases b with
    | s y => left; rfl
    | i n =>
      simp only [Key.lt, decide_eq_true_eq]
      have : m ≠ n := fun e => hne (by rw [e])
      omega

/-- Keys that are not ordered either way are equal. -/
theorem key_eq_of_not_lt {a b : Key} (h1 : Key.lt a b = false) (h2 : Key.lt b a = false) : a = b := by
  cases hab : decide (a = b) with
  | true => exact of_decide_eq_true hab
  | false =>
    rcases keyLt_total a b (of_decide_eq_false hab) with h | h
    · rw [h] at h1; cases h1
    · rw [h] at h2; cases h2

theorem pathLt_irrefl : (p : Path) → pathLt p p = false
  | [] => rfl
  | a :: p => by simp [pathLt, keyLt_irrefl, pathLt_irrefl p]

theorem pathLt_asymm : (p q : Path) → pathLt p q = true → pathLt q p = false
  | [], [], h => by simp [pathLt] at h
  | [], _ :: _, _ => rfl
  | _ :: _, [], h => by simp [pathLt] at h
  | a :: p, b :: q, h => by
    simp only [pathLt] at h ⊢
    cases hab : Key.lt a b with
    | true => simp [keyLt_asymm a b hab]
    | false =>
      simp only [hab, Bool.false_eq_true, if_false] at h
      cases hba : Key.lt b a with
      | true => simp [hba] at h
      | false =>
        simp only [hba, Bool.false_eq_true, if_false] at h ⊢
        exact pathLt_asymm p q h

theorem pathLt_trans : (p q r : Path) → pathLt p q = true → pathLt q r = true → pathLt p r = true
  | [], [], _, h1, _ => by simp [pathLt] at h1
  | [], _ :: _, [], _, h2 => by simp [pathLt] at h2
  | [], _ :: _, _ :: _, _, _ => rfl
  | _ :: _, [], _, h1, _ => by simp [pathLt] at h1
  | _ :: _, _ :: _, [], _, h2 => by simp [pathLt] at h2
  | a :: p, b :: q, c :: r, h1, h2 => by
    simp only [pathLt] at h1 h2 ⊢
    cases hab : Key.lt a b with
    | true =>
      cases hbc : Key.lt b c with
      | true => simp [keyLt_trans a b c hab hbc]
      | false =>
        simp only [hbc, Bool.false_eq_true, if_false] at h2
        cases hcb : Key.lt c b with
        | true => simp [hcb] at h2
        | false =>
          have : b = c := key_eq_of_not_lt hbc hcb
          subst this
          simp [hab]
    | false =>
      simp only [hab, Bool.false_eq_true, if_false] at h1
      cases hba : Key.lt b a with
      | true => simp [hba] at h1
      | false =>
        have : a = b := key_eq_of_not_lt hab hba
        subst this
        simp only [hba, Bool.false_eq_true, if_false] at h1
        cases hac : Key.lt a c with
        | true => simp
        | false =>
          simp only [hac, Bool.false_eq_true, if_false] at h2 ⊢
          cases hca : Key.lt c a with
          | true => simp [hca] at h2
          | false =>
            simp only [hca, Bool.false_eq_true, if_false] at h2 ⊢
            exact pathLt_trans p q r h1 h2

theorem pathLt_total : (p q : Path) → p ≠ q → pathLt p q = true ∨ pathLt q p = true
  | [], [], h => absurd rfl h
  | [], _ :: _, _ => Or.inl rfl
  | _ :: _, [], _ => Or.inr rfl
  | a :: p, b :: q, h => by
    simp only [pathLt]
    cases hab : Key.lt a b with
    | true => left; simp
    | false =>
      cases hba : Key.lt b a with
      | true => right; simp
      | false =>
        have : a = b := key_eq_of_not_lt hab hba
        subst this
        simp only [Bool.false_eq_true, if_false]
        exact pathLt_total p q (fun e => h (by rw [e]))

/-- A proper prefix is smaller: an ancestor's path sorts before the path of everything below it. -/
theorem pathLt_prefix : (p : Path) → (k : Key) → (r : Path) → pathLt p (p ++ k :: r) = true
  | [], _, _ => rfl
  | a :: p, k, r => by simp [pathLt, keyLt_irrefl, pathLt_prefix p k r]

/-- `≥` is transitive (the order is total). -/
theorem pathGe_trans {x y z : Path} (h1 : pathLt x y = false) (h2 : pathLt y z = false) : pathLt x z = false := by
  cases hxz : pathLt x z with
  | false => rfl
  | true =>
    cases hxy : decide (x = y) with
    | true =>
      have := of_decide_eq_true hxy; subst this
      rw [hxz] at h2; cases h2
    | false =>
      rcases pathLt_total x y (of_decide_eq_false hxy) with h | h
      · rw [h] at h1; cases h1
      · have := pathLt_trans y x z h hxz
        rw [this] at h2; cases h2

/-! ### the dispatch order -/

/-- `a` is delivered before `b` only if `a`'s path is not smaller than `b`'s. -/
def GeG (a b : Group) : Prop := pathLt a.1 b.1 = false

theorem insertDesc_pairwise (x : Group) : (l : List Group) → l.Pairwise GeG → (insertDesc x l).Pairwise GeG
  | [], _ => by simp [insertDesc]
  | y :: ys, h => by
    rw [List.pairwise_cons] at h
    simp only [insertDesc]
    split
    · next hlt =>
      rw [List.pairwise_cons]
      refine ⟨?_, insertDesc_pairwise x ys h.2⟩
      intro z hz
      have hz' := (insertDesc_perm x ys).mem_iff.1 hz
      simp only [List.mem_cons] at hz'
      rcases hz' with rfl | hz'
      · exact pathLt_asymm _ _ hlt
      · exact h.1 z hz'
    · next hnlt =>
      have hxy : pathLt x.1 y.1 = false := by simpa using hnlt
      rw [List.pairwise_cons]
      refine ⟨?_, List.pairwise_cons.2 h⟩
      intro z hz
      simp only [List.mem_cons] at hz
      rcases hz with rfl | hz
      · exact hxy
      · exact pathGe_trans hxy (h.1 z hz)

theorem sortDesc_pairwise : (l : List Group) → (sortDesc l).Pairwise GeG
  | [] => by simp [sortDesc]
  | x :: xs => insertDesc_pairwise x _ (sortDesc_pairwise xs)

end Pg.C09

namespace Pg.C09
open T
open Pg.C08 (Atom Key pathLt)

/-- The groups in dispatch order; `notifications` is their projection to (receiver, entries). -/
def delivered (root : T) (ups : List (Update × Path)) : List Group := sortDesc (groupAll root ups [])

theorem notifications_eq (root : T) (ups : List (Update × Path)) :
    notifications root ups = (delivered root ups).map fun g => { recv := g.2.1, entries := g.2.2 } := rfl

/-- Every delivered group belongs to a subscribing node of the tree, filed under that node's path. -/
theorem delivered_mem_allSubs {root : T} (hwf : WF root) (ups : List (Update × Path)) (g : Group)
    (hg : g ∈ delivered root ups) : (g.1, g.2.1) ∈ allSubs root [] := by
  have hg' : g ∈ foldW [] (work root ups) := by
    rw [← groupAll_eq_foldW root ups []]
    exact (sortDesc_perm _).mem_iff.1 hg
  obtain ⟨q, j, es⟩ := g
  obtain ⟨⟨u, hu⟩, _⟩ := (mem_foldW _ (pathOfId_work hwf ups) q j es).1 hg'
  obtain ⟨tp, _, hc⟩ := mem_work.1 hu
  exact (chainSubs_sublist tp root []).subset hc

/-- ORDER: in the delivered sequence a receiver comes after every receiver strictly below it. -/
theorem order_delivered {root : T} (hwf : WF root) (ups : List (Update × Path)) (i j : Nat) (gi gj : Group)
    (hi : (delivered root ups)[i]? = some gi) (hj : (delivered root ups)[j]? = some gj)
    (k : Key) (r : Path) (hbelow : gj.1 = gi.1 ++ k :: r) : j < i := by
  have hsorted : (delivered root ups).Pairwise GeG := sortDesc_pairwise _
  have hlt : pathLt gi.1 gj.1 = true := by rw [hbelow]; exact pathLt_prefix _ k r
  obtain ⟨hi1, hi2⟩ := List.getElem?_eq_some_iff.1 hi
  obtain ⟨hj1, hj2⟩ := List.getElem?_eq_some_iff.1 hj
  rcases Nat.lt_trichotomy i j with h | h | h
  · have := List.pairwise_iff_getElem.1 hsorted i j hi1 hj1 h
    rw [hi2, hj2] at this
    unfold GeG at this
    rw [hlt] at this; cases this
  · subst h
    rw [hi2] at hj2; subst hj2
    rw [pathLt_irrefl] at hlt; cases hlt
  · exact h

end Pg.C09
