/- C14 — algebraic laws of the composition operators (base.py:839-1480), by unfolding `eval`. -/
import PgProofs.Evo
namespace Pg.C14

theorem seq_identity_left (e : OpExpr) : eval (.seq .identity e) = eval e := by
  funext p; simp only [eval, pure_bind]

theorem seq_identity_right (e : OpExpr) : eval (.seq e .identity) = eval e := by
  funext p
  simp only [eval]
  exact bind_pure _

theorem seq_assoc (a b c : OpExpr) : eval (.seq (.seq a b) c) = eval (.seq a (.seq b c)) := by
  funext p; simp only [eval, bind_assoc]

theorem concat_assoc (a b c : OpExpr) : eval (.concat (.concat a b) c) = eval (.concat a (.concat b c)) := by
  funext p
  simp only [eval, bind_assoc, pure_bind, List.append_assoc]

theorem power_zero (e : OpExpr) : eval (.power e 0) = eval .identity := by
  funext p; simp only [eval, iterM]

theorem power_succ (e : OpExpr) (k : Nat) : eval (.power e (k + 1)) = eval (.seq e (.power e k)) := by
  funext p; simp only [eval, iterM]

theorem power_one (e : OpExpr) : eval (.power e 1) = eval e := by
  rw [power_succ, show eval (.seq e (.power e 0)) = eval (.seq e .identity) from by
    funext p; simp only [eval, iterM]]
  exact seq_identity_right e

theorem repeat_zero (e : OpExpr) (p : Pop) : eval (.repeat_ e 0) p = pure [] := by
  simp only [eval, repeatM]

theorem repeat_succ (e : OpExpr) (k : Nat) : eval (.repeat_ e (k + 1)) = eval (.concat e (.repeat_ e k)) := by
  funext p; simp only [eval, repeatM]

theorem until_one_attempt (e : OpExpr) : eval (.untilChange e 0) = eval e := by
  funext p; simp only [eval, untilM]

/-- `x * k`: if `x` always returns `c` items on `p`, `x * k` returns `k * c`. -/
theorem repeat_length (e : OpExpr) (p : Pop) (c : Nat)
    (hc : ∀ st out st', eval e p st = .ok (out, st') → out.length = c) :
    ∀ (k : Nat) (st : St) (out : Pop) (st' : St),
      eval (.repeat_ e k) p st = .ok (out, st') → out.length = k * c := by
  intro k
  induction k with
  | zero =>
    intro st out st' h
    rw [repeat_zero, pure_ok] at h
    rw [← h.1]; simp
  | succ k ih =>
    intro st out st' h
    rw [repeat_succ] at h
    simp only [eval] at h
    rw [bind_ok] at h
    obtain ⟨x, s1, h1, h2⟩ := h
    rw [bind_ok] at h2
    obtain ⟨y, s2, h3, h4⟩ := h2
    rw [pure_ok] at h4
    obtain ⟨rfl, rfl⟩ := h4
    have hy : y.length = k * c := ih s1 y s2 (by simpa only [eval] using h3)
    rw [List.length_append, hc st x s1 h1, hy, Nat.succ_mul, Nat.add_comm]

theorem everyNth_length {α : Type} (step : Nat) (hs : 0 < step) : ∀ (l : List α) (n : Nat), n < step →
    (everyNth step l n).length = (l.length + step - 1 - n) / step := by
  intro l
  induction l with
  | nil =>
    intro n hn
    simp only [everyNth, List.length_nil]
    exact (Nat.div_eq_of_lt (by omega)).symm
  | cons a as ih =>
    intro n hn
    cases n with
    | zero =>
      simp only [everyNth, List.length_cons]
      rw [ih (step - 1) (by omega)]
      have : as.length + 1 + step - 1 - 0 = (as.length + step - 1 - (step - 1)) + step := by omega
      rw [this, Nat.add_div_right _ hs]
    | succ n =>
      simp only [everyNth, List.length_cons]
      rw [ih n (by omega)]
      congr 1
      omega

/-- `x[a:b:step]`: the Python slice length. -/
theorem slice_range_length (start stop : Option Nat) (step : Nat) (hs : 0 < step) (l : Pop) (st : St)
    (out : Pop) (st' : St) (h : applySlice (.range start stop step) l st = .ok (out, st')) :
    out.length = (min (stop.getD l.length) l.length - min (start.getD 0) l.length + step - 1) / step := by
  unfold applySlice at h
  simp only [] at h
  rw [pure_ok] at h
  rw [← h.1, everyNth_length step hs _ 0 hs, List.length_drop, List.length_take]
  congr 1
  omega

/-- `x[i]` returns exactly one item (or raises IndexError). -/
theorem slice_index_length (i : Int) (l : Pop) (st : St) (out : Pop) (st' : St)
    (h : applySlice (.index i) l st = .ok (out, st')) : out.length = 1 := by
  unfold applySlice at h
  simp only [] at h
  obtain ⟨a, _, rfl, _⟩ := getOr_ok _ _ _ _ h
  rfl

end Pg.C14

namespace Pg.C14

theorem nextRandom_spec {s : St} {q : Q} {s' : St} (h : nextRandom s = .ok (q, s')) :
    qle 0 q = true ∧ qlt q 1 = true := by
  unfold nextRandom at h
  rw [bind_ok] at h
  obtain ⟨e, s1, _, h2⟩ := h
  split at h2
  · split at h2
    · rename_i hc
      rw [pure_ok] at h2
      obtain ⟨rfl, rfl⟩ := h2
      exact hc.2
    · exact ((fail_ok _ _ _).mp h2).elim
  · exact ((fail_ok _ _ _).mp h2).elim

/-- `x.with_prob(0.0)` never applies `x`: the input comes back (one draw is consumed). -/
theorem with_prob_zero (e : OpExpr) (limit : Option Nat) (p : Pop) (st : St) (out : Pop) (st' : St)
    (h : eval (.choice [e] [0] limit) p st = .ok (out, st')) : out = p := by
  simp only [eval, evalChoice] at h
  rw [bind_ok] at h
  obtain ⟨r, s1, h1, h2⟩ := h
  obtain ⟨h0, _⟩ := nextRandom_spec h1
  have : qlt r 0 = false := by
    simp only [qle, qlt, decide_eq_true_eq, decide_eq_false_iff_not] at h0 ⊢
    exact Rat.not_lt.mpr h0
  rw [this] at h2
  simp only [Bool.false_eq_true, if_false] at h2
  rw [pure_ok] at h2
  exact h2.1.symm

/-- `x.with_prob(1.0)` always applies `x` (after one draw). -/
theorem with_prob_one (e : OpExpr) (p : Pop) (st : St) (out : Pop) (st' : St)
    (h : eval (.choice [e] [1] none) p st = .ok (out, st')) :
    ∃ r s1, nextRandom st = .ok (r, s1) ∧ eval e p s1 = .ok (out, st') := by
  simp only [eval, evalChoice] at h
  rw [bind_ok] at h
  obtain ⟨r, s1, h1, h2⟩ := h
  obtain ⟨_, h1'⟩ := nextRandom_spec h1
  rw [h1'] at h2
  simp only [if_true] at h2
  rw [bind_ok] at h2
  obtain ⟨q, s2, h3, h4⟩ := h2
  have hlim : ((none : Option Nat) == some (0 + 1)) = false := rfl
  refine ⟨r, s1, h1, ?_⟩
  rw [hlim] at h4
  simp only [Bool.false_eq_true, if_false, evalChoice] at h4
  rw [pure_ok] at h4
  obtain ⟨rfl, rfl⟩ := h4
  exact h3

end Pg.C14

namespace Pg.C14

/-- `x - y` on identities: the result is `x` without exactly the objects `y` returned (whatever their
DNA values), so `|x - y| = |x| - |{d ∈ x : d is one of y's objects}|`. -/
theorem difference_by_identity (a b : OpExpr) (p : Pop) (st : St) (out : Pop) (st' : St)
    (h : eval (.diff a b) p st = .ok (out, st')) :
    ∃ x y s1, eval b p st = .ok (y, s1) ∧ eval a p s1 = .ok (x, st') ∧
      out = x.filter (fun d => !hasUid d.uid y) ∧
      out.length + (x.filter (fun d => hasUid d.uid y)).length = x.length ∧
      ∀ d ∈ x, (d ∈ out ↔ hasUid d.uid y = false) := by
  simp only [eval] at h
  rw [bind_ok] at h
  obtain ⟨y, s1, h1, h2⟩ := h
  rw [bind_ok] at h2
  obtain ⟨x, s2, h3, h4⟩ := h2
  rw [pure_ok] at h4
  obtain ⟨rfl, rfl⟩ := h4
  refine ⟨x, y, s1, h1, h3, rfl, ?_, ?_⟩
  · clear h1 h3
    induction x with
    | nil => rfl
    | cons d ds ih =>
      simp only [List.filter_cons]
      cases hasUid d.uid y <;> simp <;> omega
  · intro d hd
    simp [List.mem_filter, hd]

/-- `~x` (`Inversion`) is `Identity() - x`. -/
theorem inversion_is_difference (a : OpExpr) : eval (.inversion a) = eval (.diff .identity a) := by
  funext p
  simp only [eval, bind_assoc, pure_bind]

end Pg.C14
