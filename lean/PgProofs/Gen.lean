/- Helper lemmas for C15 (model: PgModel/Gen.lean; property theorems: PgProps/C15.lean). -/
import PgModel.Gen
namespace Pg.C15

deriving instance DecidableEq for Except

/-! ### History bookkeeping -/

def fedCount (h : Hist) : Nat := (h.filter (fun e => e.2.isSome)).length

/-- the DNA of the last entry of the history (`l` if there is none) -/
def lastOr (l : Option Nat) : Hist → Option Nat
  | [] => l
  | e :: h => lastOr (some e.1.dna) h

theorem lastOr_append_single (l : Option Nat) (h : Hist) (e : Item × Option Int) :
    lastOr l (h ++ [e]) = some e.1.dna := by
  induction h generalizing l with
  | nil => rfl
  | cons x xs ih => exact ih _

@[simp] theorem fedCount_nil : fedCount [] = 0 := rfl

theorem fedCount_cons (e : Item × Option Int) (h : Hist) :
    fedCount (e :: h) = (if e.2.isSome then 1 else 0) + fedCount h := by
  unfold fedCount
  by_cases hc : e.2.isSome
  · simp [List.filter, hc]; omega
  · simp [List.filter, hc]

theorem fedCount_append (h₁ h₂ : Hist) : fedCount (h₁ ++ h₂) = fedCount h₁ + fedCount h₂ := by
  unfold fedCount; simp [List.filter_append]

theorem length_setAt {α : Type} (xs : List α) (i : Nat) (y : α) : (setAt xs i y).length = xs.length := by
  induction xs generalizing i with
  | nil => rfl
  | cons x xs ih => cases i <;> simp [setAt, ih]

theorem fedCount_setAt (h : Hist) (i : Nat) (it it' : Item) (r : Int)
    (hi : h[i]? = some (it, none)) : fedCount (setAt h i (it', some r)) = fedCount h + 1 := by
  induction h generalizing i with
  | nil => simp at hi
  | cons x xs ih =>
    cases i with
    | zero =>
      simp at hi
      subst hi
      simp [setAt, fedCount_cons]; omega
    | succ n =>
      simp at hi
      simp [setAt, fedCount_cons, ih n hi]; omega

theorem lastOr_setAt (l : Option Nat) (h : Hist) (i : Nat) (it it' : Item) (r r' : Option Int)
    (hi : h[i]? = some (it, r)) (hd : it'.dna = it.dna) : lastOr l (setAt h i (it', r')) = lastOr l h := by
  induction h generalizing i l with
  | nil => simp at hi
  | cons x xs ih =>
    cases i with
    | zero =>
      simp at hi
      subst hi
      simp [setAt, lastOr, hd]
    | succ n =>
      simp at hi
      simp only [setAt, lastOr]
      exact ih _ n hi

/-! ### Runs: an invariant of `step` is an invariant of `runLive` -/

theorem foldl_inv {α β : Type} (P : β → Prop) (f : β → α → β) (hf : ∀ b a, P b → P (f b a)) :
    ∀ (xs : List α) (b : β), P b → P (xs.foldl f b) := by
  intro xs
  induction xs with
  | nil => intro b hb; exact hb
  | cons x xs ih => intro b hb; exact ih _ (hf b x hb)

theorem runLive_inv (env : Env) (a : Algo) (P : Live → Prop) (h0 : P ⟨setup a, []⟩)
    (hstep : ∀ l e, P l → P (step env a l e)) (run : List Event) : P (runLive env a run) :=
  foldl_inv P (step env a) hstep run _ h0

/-! ### The base `recover` loop on Sweeping and Random -/

theorem foldE_append {α β : Type} (f : β → α → Except Err β) (b : β) (xs ys : List α) :
    foldE f b (xs ++ ys) = match foldE f b xs with
      | .error e => .error e
      | .ok b' => foldE f b' ys := by
  induction xs generalizing b with
  | nil => simp [foldE]
  | cons x xs ih =>
    simp only [List.cons_append, foldE]
    cases f b x with
    | error e => rfl
    | ok b' => exact ih b'

theorem baseRecover_cons (env : Env) (a : Algo) (s : St) (e : Item × Option Int) (h : Hist) :
    baseRecover env a s (e :: h) = match replay env a s e.1 e.2 with
      | .error err => .error err
      | .ok s' => baseRecover env a (s'.bump 1 (if e.2.isSome then 1 else 0)) h := by
  unfold baseRecover
  simp only [foldE]
  cases replay env a s e.1 e.2 <;> rfl

theorem baseRecover_sweeping (env : Env) (h : Hist) (np nf : Nat) (l : Option Nat) :
    baseRecover env .sweeping (.sweeping np nf l) h
      = .ok (.sweeping (np + h.length) (nf + fedCount h) (lastOr l h)) := by
  induction h generalizing np nf l with
  | nil => simp [baseRecover, foldE, lastOr]
  | cons e h ih =>
    rw [baseRecover_cons]
    simp only [replay, St.bump]
    rw [ih, fedCount_cons]
    simp only [List.length_cons, lastOr]
    congr 2 <;> omega

theorem baseRecover_random (env : Env) (seed : Nat) (seeded : Bool) (h : Hist) (np nf pos : Nat) :
    baseRecover env (.random seed seeded) (.random np nf pos) h
      = .ok (.random (np + h.length) (nf + fedCount h) (if seeded then pos + h.length else pos)) := by
  induction h generalizing np nf pos with
  | nil => cases seeded <;> simp [baseRecover, foldE]
  | cons e h ih =>
    rw [baseRecover_cons]
    simp only [replay, St.bump]
    rw [ih, fedCount_cons]
    simp only [List.length_cons]
    cases seeded <;> simp <;> omega

/-! ### Live invariants: the state of Sweeping / Random is a function of the history -/

theorem live_sweeping (env : Env) (run : List Event) :
    (runLive env .sweeping run).st
      = .sweeping (runLive env .sweeping run).hist.length (fedCount (runLive env .sweeping run).hist)
          (lastOr none (runLive env .sweeping run).hist) := by
  apply runLive_inv env .sweeping (fun l => l.st = .sweeping l.hist.length (fedCount l.hist) (lastOr none l.hist))
  · rfl
  · intro l e hl
    obtain ⟨st, hist⟩ := l
    simp only at hl
    subst hl
    cases e with
    | propose =>
      simp only [step, propose]
      cases hn : nextAfter env.space (lastOr none hist) with
      | none => simp
      | some d =>
        simp only [List.length_append, List.length_singleton, fedCount_append, lastOr_append_single]
        simp [fedCount, List.filter]
    | feedback i r =>
      simp only [step]
      cases hi : hist[i]? with
      | none => simp
      | some e =>
        obtain ⟨it, ro⟩ := e
        cases ro with
        | some _ => simp
        | none =>
          simp only [feedback]
          rw [length_setAt, fedCount_setAt hist i it it _ hi, lastOr_setAt none hist i it it none _ hi rfl]

theorem live_random (env : Env) (seed : Nat) (seeded : Bool) (run : List Event) :
    (runLive env (.random seed seeded) run).st
      = .random (runLive env (.random seed seeded) run).hist.length
          (fedCount (runLive env (.random seed seeded) run).hist)
          (runLive env (.random seed seeded) run).hist.length := by
  apply runLive_inv env (.random seed seeded)
    (fun l => l.st = .random l.hist.length (fedCount l.hist) l.hist.length)
  · rfl
  · intro l e hl
    obtain ⟨st, hist⟩ := l
    simp only at hl
    subst hl
    cases e with
    | propose =>
      simp only [step, propose, List.length_append, List.length_singleton, fedCount_append]
      simp [fedCount, List.filter]
    | feedback i r =>
      simp only [step]
      cases hi : hist[i]? with
      | none => simp
      | some e =>
        obtain ⟨it, ro⟩ := e
        cases ro with
        | some _ => simp
        | none =>
          simp only [feedback]
          rw [length_setAt, fedCount_setAt hist i it it _ hi]

/-! ### Deduping over a generator that takes no feedback -/

def keysOf (h : Hist) : List Nat := h.map (fun e => e.1.key.getD 0)

def cacheOfKeys (c : Cache) (ks : List Nat) : Cache := ks.foldl (fun c k => cacheAdd c k none) c

def AllKeyed (h : Hist) : Prop := ∀ e ∈ h, e.1.key.isSome = true

theorem keysOf_setAt (h : Hist) (i : Nat) (it it' : Item) (r r' : Option Int)
    (hi : h[i]? = some (it, r)) (hk : it'.key = it.key) : keysOf (setAt h i (it', r')) = keysOf h := by
  induction h generalizing i with
  | nil => simp at hi
  | cons x xs ih =>
    cases i with
    | zero =>
      simp at hi
      subst hi
      simp [setAt, keysOf, hk]
    | succ n =>
      simp at hi
      have := ih n hi
      simp only [setAt, keysOf, List.map_cons] at this ⊢
      rw [this]

theorem allKeyed_setAt (h : Hist) (i : Nat) (it' : Item) (r' : Option Int)
    (hk : it'.key.isSome = true) (hh : AllKeyed h) : AllKeyed (setAt h i (it', r')) := by
  induction h generalizing i with
  | nil => intro e he; simp [setAt] at he
  | cons x xs ih =>
    cases i with
    | zero =>
      intro e he
      simp only [setAt, List.mem_cons] at he
      rcases he with rfl | he
      · exact hk
      · exact hh e (List.mem_cons_of_mem _ he)
    | succ n =>
      intro e he
      simp only [setAt, List.mem_cons] at he
      rcases he with rfl | he
      · exact hh _ (List.mem_cons_self)
      · exact ih n (fun e he => hh e (List.mem_cons_of_mem _ he)) e he

/-- A proposal that leaves the attempt loop carries its `dedup_key`. -/
theorem dedupLoop_key (pi : St → PRes) (hash : Nat → Nat) (cache : Cache) (maxDup : Nat) (auto : Bool)
    (fuel : Nat) (s s' : St) (it : Item)
    (h : dedupLoop pi hash cache maxDup auto fuel s = (.ok it, s')) : it.key = some (hash it.dna) := by
  induction fuel generalizing s with
  | zero => simp [dedupLoop] at h
  | succ n ih =>
    simp only [dedupLoop] at h
    cases hp : pi s with
    | mk r s1 =>
      rw [hp] at h
      cases r with
      | error e => simp at h
      | ok it0 =>
        simp only at h
        split at h
        · simp only [Prod.mk.injEq, Except.ok.injEq] at h
          rw [← h.1]
        · split at h
          · split at h
            · simp only [Prod.mk.injEq, Except.ok.injEq] at h
              rw [← h.1]
            · simp at h
          · exact ih s1 h

theorem baseRecover_dedup_nofb (env : Env) (inner : Algo) (hid md ma : Nat) (au : Bool)
    (hq : env.q.dedupForwardsReplay = false) (hnf : needsFeedback inner = false)
    (h : Hist) (hk : AllKeyed h) (np nf : Nat) (si : St) (c : Cache) :
    baseRecover env (.deduping inner hid md ma au) (.deduping np nf si c) h
      = .ok (.deduping (np + h.length) (nf + fedCount h) si (cacheOfKeys c (keysOf h))) := by
  induction h generalizing np nf c with
  | nil => simp [baseRecover, foldE, keysOf, cacheOfKeys]
  | cons e h ih =>
    have hke : e.1.key.isSome = true := hk e List.mem_cons_self
    obtain ⟨k, hk'⟩ := Option.isSome_iff_exists.mp hke
    rw [baseRecover_cons]
    simp only [replay, hq, hnf, hk', Bool.false_eq_true, ↓reduceIte, Bool.not_false, St.bump]
    rw [ih (fun e he => hk e (List.mem_cons_of_mem _ he)), fedCount_cons]
    simp only [List.length_cons, keysOf, List.map_cons, cacheOfKeys, List.foldl_cons, hk', Option.getD_some]
    congr 2 <;> omega

/-- Live invariant of `Deduping(inner)` when `inner` takes no feedback. -/
theorem live_dedup_nofb (env : Env) (inner : Algo) (hid md ma : Nat) (au : Bool)
    (hnf : needsFeedback inner = false) (run : List Event) :
    let l := runLive env (.deduping inner hid md ma au) run
    (∃ si, l.st = .deduping l.hist.length (fedCount l.hist) si (cacheOfKeys [] (keysOf l.hist)))
      ∧ AllKeyed l.hist := by
  apply runLive_inv env (.deduping inner hid md ma au)
    (fun l => (∃ si, l.st = .deduping l.hist.length (fedCount l.hist) si (cacheOfKeys [] (keysOf l.hist)))
      ∧ AllKeyed l.hist)
  · exact ⟨⟨setup inner, rfl⟩, fun e he => by simp at he⟩
  · intro l e hl
    obtain ⟨st, hist⟩ := l
    obtain ⟨⟨si, hst⟩, hkeyed⟩ := hl
    simp only at hst hkeyed
    subst hst
    cases e with
    | propose =>
      simp only [step, propose, hnf, Bool.and_false, Bool.false_eq_true, ↓reduceIte]
      cases hd : dedupLoop (propose env inner) (env.hash hid) (cacheOfKeys [] (keysOf hist)) md false ma si with
      | mk r si' =>
        cases r with
        | error e => exact ⟨⟨si', rfl⟩, hkeyed⟩
        | ok it =>
          have hkey := dedupLoop_key _ _ _ _ _ _ _ _ _ hd
          refine ⟨⟨si', ?_⟩, ?_⟩
          · simp only [List.length_append, List.length_singleton, fedCount_append, keysOf, List.map_append,
              List.map_cons, List.map_nil, cacheOfKeys, List.foldl_append, List.foldl_cons, List.foldl_nil]
            simp [fedCount, List.filter]
          · intro e he
            simp only [List.mem_append, List.mem_singleton] at he
            rcases he with he | rfl
            · exact hkeyed e he
            · simp [hkey]
    | feedback i r =>
      simp only [step]
      cases hi : hist[i]? with
      | none => exact ⟨⟨si, rfl⟩, hkeyed⟩
      | some e =>
        obtain ⟨it, ro⟩ := e
        cases ro with
        | some _ => exact ⟨⟨si, rfl⟩, hkeyed⟩
        | none =>
          simp only [feedback, hnf, Bool.false_eq_true, ↓reduceIte]
          have hmem : (it, none) ∈ hist := List.mem_of_getElem? hi
          refine ⟨⟨si, ?_⟩, allKeyed_setAt hist i it _ (hkeyed _ hmem) hkeyed⟩
          rw [length_setAt, fedCount_setAt hist i it it _ hi, keysOf_setAt hist i it it none _ hi rfl]

/-! ### Continuation of Deduping over Sweeping / seeded Random: proposals do not depend on counters -/

/-- the attempt loop over Sweeping: result and sweep position do not depend on the inner counters -/
theorem dedupLoop_sweeping_counters (env : Env) (hash : Nat → Nat) (c : Cache) (md : Nat) (auto : Bool)
    (fuel : Nat) (a b a' b' : Nat) (l : Option Nat) :
    ∃ r a2 b2 a2' b2' l2,
      dedupLoop (propose env .sweeping) hash c md auto fuel (.sweeping a b l) = (r, .sweeping a2 b2 l2)
      ∧ dedupLoop (propose env .sweeping) hash c md auto fuel (.sweeping a' b' l) = (r, .sweeping a2' b2' l2) := by
  induction fuel generalizing a b a' b' l with
  | zero => exact ⟨_, _, _, _, _, _, rfl, rfl⟩
  | succ n ih =>
    simp only [dedupLoop, propose]
    cases hn : nextAfter env.space l with
    | none => exact ⟨_, _, _, _, _, _, rfl, rfl⟩
    | some d =>
      simp only
      split
      · exact ⟨_, _, _, _, _, _, rfl, rfl⟩
      · split
        · split
          · exact ⟨_, _, _, _, _, _, rfl, rfl⟩
          · exact ⟨_, _, _, _, _, _, rfl, rfl⟩
        · exact ih (a + 1) b (a' + 1) b' (some d)

theorem proposeN_dedup_sweeping_counters (env : Env) (hid md ma : Nat) (au : Bool) (m : Nat)
    (np nf : Nat) (c : Cache) (a b a' b' : Nat) (l : Option Nat) :
    (proposeN env (.deduping .sweeping hid md ma au) m (.deduping np nf (.sweeping a b l) c)).1
      = (proposeN env (.deduping .sweeping hid md ma au) m (.deduping np nf (.sweeping a' b' l) c)).1 := by
  induction m generalizing np nf c a b a' b' l with
  | zero => rfl
  | succ m ih =>
    obtain ⟨r, a2, b2, a2', b2', l2, h1, h2⟩ :=
      dedupLoop_sweeping_counters env (env.hash hid) c md (au && needsFeedback .sweeping) ma a b a' b' l
    simp only [proposeN, propose, h1, h2]
    cases r with
    | error e => simp only; rw [ih]
    | ok it => simp only; rw [ih]

/-- the attempt loop over Random: result and stream position do not depend on the inner counters -/
theorem dedupLoop_random_counters (env : Env) (seed : Nat) (sd : Bool) (hash : Nat → Nat) (c : Cache) (md : Nat)
    (auto : Bool) (fuel : Nat) (a b a' b' pos : Nat) :
    ∃ r a2 b2 a2' b2' p2,
      dedupLoop (propose env (.random seed sd)) hash c md auto fuel (.random a b pos) = (r, .random a2 b2 p2)
      ∧ dedupLoop (propose env (.random seed sd)) hash c md auto fuel (.random a' b' pos) = (r, .random a2' b2' p2) := by
  induction fuel generalizing a b a' b' pos with
  | zero => exact ⟨_, _, _, _, _, _, rfl, rfl⟩
  | succ n ih =>
    simp only [dedupLoop, propose]
    split
    · exact ⟨_, _, _, _, _, _, rfl, rfl⟩
    · split
      · split
        · exact ⟨_, _, _, _, _, _, rfl, rfl⟩
        · exact ⟨_, _, _, _, _, _, rfl, rfl⟩
      · exact ih (a + 1) b (a' + 1) b' (pos + 1)

theorem proposeN_dedup_random_counters (env : Env) (seed : Nat) (sd : Bool) (hid md ma : Nat) (au : Bool) (m : Nat)
    (np nf : Nat) (c : Cache) (a b a' b' pos : Nat) :
    (proposeN env (.deduping (.random seed sd) hid md ma au) m (.deduping np nf (.random a b pos) c)).1
      = (proposeN env (.deduping (.random seed sd) hid md ma au) m (.deduping np nf (.random a' b' pos) c)).1 := by
  induction m generalizing np nf c a b a' b' pos with
  | zero => rfl
  | succ m ih =>
    obtain ⟨r, a2, b2, a2', b2', p2, h1, h2⟩ :=
      dedupLoop_random_counters env seed sd (env.hash hid) c md (au && needsFeedback (.random seed sd)) ma a b a' b' pos
    simp only [proposeN, propose, h1, h2]
    cases r with
    | error e => simp only; rw [ih]
    | ok it => simp only; rw [ih]

/-! ### Chunked recovery: `recover (h₁ ++ h₂) = recover h₂ after recover h₁` -/

theorem baseRecover_append (env : Env) (a : Algo) (s : St) (h₁ h₂ : Hist) :
    baseRecover env a s (h₁ ++ h₂) = match baseRecover env a s h₁ with
      | .error e => .error e
      | .ok s' => baseRecover env a s' h₂ := by
  unfold baseRecover
  rw [foldE_append]
  cases foldE _ s h₁ <;> rfl

theorem lastOr_append (l : Option Nat) (h₁ h₂ : Hist) : lastOr l (h₁ ++ h₂) = lastOr (lastOr l h₁) h₂ := by
  induction h₁ generalizing l with
  | nil => rfl
  | cons x xs ih => exact ih _

theorem keysOf_append (h₁ h₂ : Hist) : keysOf (h₁ ++ h₂) = keysOf h₁ ++ keysOf h₂ := by
  simp [keysOf]

theorem cacheOfKeys_append (c : Cache) (k₁ k₂ : List Nat) :
    cacheOfKeys c (k₁ ++ k₂) = cacheOfKeys (cacheOfKeys c k₁) k₂ := by
  simp [cacheOfKeys, List.foldl_append]

theorem allKeyed_append {h₁ h₂ : Hist} (hk : AllKeyed (h₁ ++ h₂)) : AllKeyed h₁ ∧ AllKeyed h₂ :=
  ⟨fun e he => hk e (List.mem_append.mpr (Or.inl he)), fun e he => hk e (List.mem_append.mpr (Or.inr he))⟩

/-- `Deduping(Sweeping).recover` from any state, explicitly (repaired source). -/
theorem recover_dedup_sweeping (env : Env) (hq : env.q.dedupForwardsReplay = false) (hid md ma : Nat) (au : Bool)
    (np nf a b : Nat) (l : Option Nat) (c : Cache) (h : Hist) (hk : AllKeyed h) :
    recover env (.deduping .sweeping hid md ma au) (.deduping np nf (.sweeping a b l) c) h
      = .ok (.deduping (np + h.length) (nf + fedCount h)
              (.sweeping (a + h.length) (b + fedCount h) (lastOr l h)) (cacheOfKeys c (keysOf h))) := by
  simp only [recover, hq, Bool.false_eq_true, ↓reduceIte, baseRecover_sweeping]
  rw [baseRecover_dedup_nofb env .sweeping hid md ma au hq rfl _ hk]

/-- `Deduping(Random).recover` from any state, explicitly (repaired source). -/
theorem recover_dedup_random (env : Env) (hq : env.q.dedupForwardsReplay = false) (seed : Nat) (sd : Bool)
    (hid md ma : Nat) (au : Bool) (np nf a b pos : Nat) (c : Cache) (h : Hist) (hk : AllKeyed h) :
    recover env (.deduping (.random seed sd) hid md ma au) (.deduping np nf (.random a b pos) c) h
      = .ok (.deduping (np + h.length) (nf + fedCount h)
              (.random (a + h.length) (b + fedCount h) (if sd then pos + h.length else pos))
              (cacheOfKeys c (keysOf h))) := by
  simp only [recover, hq, Bool.false_eq_true, ↓reduceIte, baseRecover_random]
  rw [baseRecover_dedup_nofb env (.random seed sd) hid md ma au hq rfl _ hk]

end Pg.C15
