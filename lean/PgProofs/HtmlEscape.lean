/-
  C20 helper lemmas, part 1: `escape` / `unescape`.
-/
import PgModel.Html
namespace Pg.C20

theorem escapeQ_append (q : Bool) (a b : Str) : escapeQ q (a ++ b) = escapeQ q a ++ escapeQ q b := by
  induction a with
  | nil => rfl
  | cons c a ih => simp [escapeQ, ih]

/-- Characters that `escape` never leaves in its output. -/
def isMeta (c : Char) : Bool := c == '<' || c == '>' || c == '"' || c == '\''

theorem escapeChar_clean (c : Char) : ∀ d ∈ escapeChar true c, isMeta d = false := by
  unfold escapeChar
  split
  · decide
  split
  · decide
  split
  · decide
  split
  · simp only [if_true]; decide
  split
  · simp only [if_true]; decide
  · intro d hd
    simp only [List.mem_singleton] at hd
    subst hd
    simp_all [isMeta]

theorem escape_clean (s : Str) : ∀ d ∈ escape s, isMeta d = false := by
  induction s with
  | nil => intro d hd; cases hd
  | cons c s ih =>
    intro d hd
    simp only [escape, escapeQ, List.mem_append] at hd
    rcases hd with hd | hd
    · exact escapeChar_clean c d hd
    · exact ih d hd

theorem ampOk_escapeChar (c : Char) (r : Str) : ampOk (escapeChar true c ++ r) = ampOk r := by
  unfold escapeChar
  split
  · simp [ampOk, refTails, isPrefix]
  split
  · simp [ampOk, refTails, isPrefix]
  split
  · simp [ampOk, refTails, isPrefix]
  split
  · simp [ampOk, refTails, isPrefix]
  split
  · simp [ampOk, refTails, isPrefix]
  · simp_all [ampOk]

theorem ampOk_escape_append (s r : Str) : ampOk (escape s ++ r) = ampOk r := by
  induction s with
  | nil => rfl
  | cons c s ih =>
    simp only [escape, escapeQ, List.append_assoc]
    rw [ampOk_escapeChar]
    exact ih

theorem ampOk_escape (s : Str) : ampOk (escape s) = true := by
  have := ampOk_escape_append s []
  simpa [ampOk] using this

theorem unescape_cons_ne (c : Char) (r : Str) (h : c ≠ '&') :
    unescape (c :: r) = c :: unescape r := by
  rw [unescape]
  all_goals (intros; simp_all)

theorem unescape_escapeChar (c : Char) (r : Str) :
    unescape (escapeChar true c ++ r) = c :: unescape r := by
  unfold escapeChar
  split
  · subst_vars; simp [unescape]
  split
  · subst_vars; simp [unescape]
  split
  · subst_vars; simp [unescape]
  split
  · subst_vars; simp [unescape]
  split
  · subst_vars; simp [unescape]
  · rename_i h _ _ _ _
    simpa using unescape_cons_ne c r h

theorem unescape_escape_append (s r : Str) : unescape (escape s ++ r) = s ++ unescape r := by
  induction s with
  | nil => rfl
  | cons c s ih =>
    simp only [escape, escapeQ, List.append_assoc]
    rw [unescape_escapeChar]
    simp only [List.cons_append, List.cons.injEq, true_and]
    exact ih

theorem unescape_escape (s : Str) : unescape (escape s) = s := by
  have := unescape_escape_append s []
  simpa [unescape] using this

/-- `ampOk` says what it should: every `&` is followed by one of the five reference tails. -/
theorem isPrefix_iff (a b : Str) : isPrefix a b = true ↔ ∃ r, b = a ++ r := by
  induction a generalizing b with
  | nil => simp [isPrefix]
  | cons x a ih =>
    cases b with
    | nil => simp [isPrefix]
    | cons y b =>
      simp only [isPrefix, Bool.and_eq_true, beq_iff_eq, ih, List.cons_append, List.cons.injEq]
      constructor
      · rintro ⟨rfl, r, rfl⟩; exact ⟨r, rfl, rfl⟩
      · rintro ⟨r, rfl, rfl⟩; exact ⟨rfl, r, rfl⟩

theorem ampOk_iff (s : Str) :
    ampOk s = true ↔ ∀ pre post, s = pre ++ '&' :: post → ∃ t ∈ refTails, ∃ r, post = t ++ r := by
  induction s with
  | nil =>
    simp only [ampOk, true_iff]
    intro pre post h
    cases pre <;> cases h
  | cons c s ih =>
    simp only [ampOk, Bool.and_eq_true, ih]
    constructor
    · rintro ⟨h1, h2⟩ pre post h
      cases pre with
      | nil =>
        simp only [List.nil_append, List.cons.injEq] at h
        obtain ⟨rfl, rfl⟩ := h
        simp only [beq_self_eq_true, if_true, List.any_eq_true] at h1
        obtain ⟨t, ht, hp⟩ := h1
        exact ⟨t, ht, (isPrefix_iff _ _).1 hp⟩
      | cons x pre =>
        simp only [List.cons_append, List.cons.injEq] at h
        exact h2 pre post h.2
    · intro h
      constructor
      · split
        · rename_i hc
          have hc' : c = '&' := by simpa using hc
          subst hc'
          obtain ⟨t, ht, hr⟩ := h [] s rfl
          simp only [List.any_eq_true]
          exact ⟨t, ht, (isPrefix_iff _ _).2 hr⟩
        · rfl
      · intro pre post hs
        exact h (c :: pre) post (by simp [hs])

end Pg.C20
