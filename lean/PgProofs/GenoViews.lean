/-
  Lemmas for C12: the nested / compact form parses back to the DNA it was produced from.
-/
import PgModel.Geno.Views
namespace Pg.Geno
open DNA

def Val.isNum : Val → Bool
  | .int _ => true
  | .flt _ _ => true
  | _ => false

mutual
  /-- Hereditarily in constructor normal form (`DNA(...)` never leaves a `None` node with one
  child, nor a single `None`-valued child), and only `None` / numeric nodes have children (what
  the tuple syntax can express). -/
  def viewNorm : DNA → Bool
    | .mk v cs =>
      (match v, cs with
       | .none, [_] => false
       | _, [.mk .none _] => false
       | _, _ => true) &&
      (cs.isEmpty || v == .none || v.isNum) && viewNormList cs
  def viewNormList : List DNA → Bool
    | [] => true
    | c :: cs => viewNorm c && viewNormList cs
end

theorem nestNode_nil (v : Val) (hv : v ≠ .none) : nestNode v [] = .v v := by
  cases v <;> first | exact absurd rfl hv | rfl

theorem nestNode_two (v : Val) (hv : v ≠ .none) (a b : Nest) (rest : List Nest) :
    nestNode v (a :: b :: rest) = .tuple [.v v, .list (a :: b :: rest)] := by
  cases v <;> first | exact absurd rfl hv | (cases a <;> rfl)

theorem nestNode_single_tuple (v : Val) (hv : v ≠ .none) (xs : List Nest) :
    nestNode v [.tuple xs] = .tuple (.v v :: xs) := by
  cases v <;> first | exact absurd rfl hv | rfl

theorem nestNode_single_v (v : Val) (hv : v ≠ .none) (x : Val) :
    nestNode v [.v x] = .tuple [.v v, .v x] := by
  cases v <;> first | exact absurd rfl hv | rfl

theorem nestNode_single_list (v : Val) (hv : v ≠ .none) (xs : List Nest) :
    nestNode v [.list xs] = .tuple [.v v, .list xs] := by
  cases v <;> first | exact absurd rfl hv | rfl

/-- A tuple produced by `toNested` has at least two items. -/
theorem toNested_tuple_len : ∀ (d : DNA) (xs : List Nest), toNested d = .tuple xs → 2 ≤ xs.length
  | .mk v cs, xs, h => by
    by_cases hv : v = .none
    · subst hv; simp [toNested, nestNode] at h
    · match cs, h with
      | [], h => rw [toNested, toNestedList, nestNode_nil v hv] at h; cases h
      | [c], h =>
        rw [toNested, toNestedList, toNestedList] at h
        cases hc : toNested c with
        | v x => rw [hc, nestNode_single_v v hv] at h; cases h; simp
        | list ys => rw [hc, nestNode_single_list v hv] at h; cases h; simp
        | tuple ys =>
          rw [hc, nestNode_single_tuple v hv] at h
          cases h
          have := toNested_tuple_len c ys hc
          simp; omega
      | c1 :: c2 :: rest, h =>
        rw [toNested, toNestedList, toNestedList, nestNode_two v hv] at h
        cases h; simp

theorem numVal_of_isNum (v : Val) (h : v.isNum = true) : numVal (.v v) = some v := by
  cases v <;> simp_all [Val.isNum, numVal]

mutual
  theorem parse_toNested : ∀ (d : DNA), viewNorm d = true → parse (toNested d) = some d
    | .mk v cs, h => by
      simp only [viewNorm, Bool.and_eq_true] at h
      obtain ⟨⟨h1, h2⟩, h3⟩ := h
      have ihl := parseList_toNestedList cs h3
      by_cases hv : v = .none
      · subst hv
        simp only [toNested, nestNode, parse, ihl]
        match cs, h1 with
        | [], _ => rfl
        | [c], h1 => simp at h1
        | c1 :: c2 :: rest, _ => rfl
      · match cs, h1, h2, h3, ihl with
        | [], _, _, _, _ => rw [toNested, toNestedList, nestNode_nil v hv]; rfl
        | [c], h1, h2, h3, ihl =>
          have hnum : v.isNum = true := by
            simp only [List.isEmpty_cons, Bool.false_or, Bool.or_eq_true, beq_iff_eq] at h2
            rcases h2 with h2 | h2
            · exact absurd h2 hv
            · exact h2
          have hnv := numVal_of_isNum v hnum
          simp only [viewNormList, Bool.and_eq_true] at h3
          have ihc := parse_toNested c h3.1
          cases c with
          | mk w gs =>
            have hw : w ≠ .none := by
              intro e; subst e
              cases v <;> simp at h1
            rw [toNested, toNestedList, toNestedList]
            cases hc : toNested (.mk w gs) with
            | v x =>
              rw [nestNode_single_v v hv]
              -- a leaf child
              rw [hc] at ihc
              simp only [parse, Option.some.injEq] at ihc
              cases ihc
              cases w with
              | none => exact absurd rfl hw
              | int i => simp [parse, parseTuple, hnv]
              | flt n d => simp [parse, parseTuple, hnv]
              | str s => simp [parse, parseTuple, hnv]
            | list ys =>
              exfalso
              cases gs with
              | nil => rw [toNested, toNestedList, nestNode_nil w hw] at hc; cases hc
              | cons g gs' =>
                cases gs' with
                | nil =>
                  rw [toNested, toNestedList, toNestedList] at hc
                  cases hg : toNested g with
                  | v x => rw [hg, nestNode_single_v w hw] at hc; cases hc
                  | list zs => rw [hg, nestNode_single_list w hw] at hc; cases hc
                  | tuple zs => rw [hg, nestNode_single_tuple w hw] at hc; cases hc
                | cons g2 gs2 =>
                  rw [toNested, toNestedList, toNestedList, nestNode_two w hw] at hc; cases hc
            | tuple ys =>
              rw [nestNode_single_tuple v hv]
              have hlen := toNested_tuple_len _ ys hc
              rw [hc] at ihc
              match ys, hlen, ihc with
              | t1 :: t2 :: ts, _, ihc =>
                simp only [parse] at ihc
                simp [parse, parseTuple, hnv, ihc]
        | c1 :: c2 :: rest, h1, h2, h3, ihl =>
          have hnum : v.isNum = true := by
            simp only [List.isEmpty_cons, Bool.false_or, Bool.or_eq_true, beq_iff_eq] at h2
            rcases h2 with h2 | h2
            · exact absurd h2 hv
            · exact h2
          have hnv := numVal_of_isNum v hnum
          rw [toNested]
          simp only [toNestedList] at ihl ⊢
          rw [nestNode_two v hv]
          simp [parse, parseTuple, hnv, ihl]
  theorem parseList_toNestedList : ∀ (cs : List DNA), viewNormList cs = true →
      parseList (toNestedList cs) = some cs
    | [], _ => rfl
    | c :: cs, h => by
      simp only [viewNormList, Bool.and_eq_true] at h
      simp [toNestedList, parseList, parse_toNested c h.1, parseList_toNestedList cs h.2]
end

theorem parse_toCompact (d : DNA) (h : viewNorm d = true) : parse (toCompact d) = some d := by
  cases d with
  | mk v cs =>
    cases cs with
    | nil => rfl
    | cons c cs' =>
      have : toCompact (.mk v (c :: cs')) = toNested (.mk v (c :: cs')) := rfl
      rw [this]; exact parse_toNested _ h

/-! ### the compact form as the code recurses (empty DNAs below the root are `null`) -/

theorem toCompactDeep_tuple_len : ∀ (d : DNA) (xs : List Nest), toCompactDeep d = .tuple xs → 2 ≤ xs.length
  | .mk v cs, xs, h => by
    by_cases hv : v = .none
    · subst hv
      cases cs with
      | nil => simp [toCompactDeep, toCompactDeepList, nestNodeC] at h
      | cons c cs => simp [toCompactDeep, toCompactDeepList, nestNodeC, nestNode] at h
    · match cs, h with
      | [], h => rw [toCompactDeep, toCompactDeepList, nestNodeC] at h; cases h
      | [c], h =>
        rw [toCompactDeep, toCompactDeepList, toCompactDeepList, nestNodeC] at h
        cases hc : toCompactDeep c with
        | v x => rw [hc, nestNode_single_v v hv] at h; cases h; simp
        | list ys => rw [hc, nestNode_single_list v hv] at h; cases h; simp
        | tuple ys =>
          rw [hc, nestNode_single_tuple v hv] at h
          cases h
          have := toCompactDeep_tuple_len c ys hc
          simp; omega
      | c1 :: c2 :: rest, h =>
        rw [toCompactDeep, toCompactDeepList, toCompactDeepList, nestNodeC, nestNode_two v hv] at h
        cases h; simp

mutual
  theorem parse_toCompactDeep' : ∀ (d : DNA), viewNorm d = true → parse (toCompactDeep d) = some d
    | .mk v cs, h => by
      simp only [viewNorm, Bool.and_eq_true] at h
      obtain ⟨⟨h1, h2⟩, h3⟩ := h
      have ihl := parseList_toCompactDeepList cs h3
      by_cases hv : v = .none
      · subst hv
        match cs, h1, ihl with
        | [], _, _ => rfl
        | [c], h1, _ => simp at h1
        | c1 :: c2 :: rest, _, ihl =>
          simp only [toCompactDeepList] at ihl
          simp only [toCompactDeep, toCompactDeepList, nestNodeC, nestNode, parse, ihl]
      · match cs, h1, h2, h3, ihl with
        | [], _, _, _, _ => rfl
        | [c], h1, h2, h3, ihl =>
          have hnum : v.isNum = true := by
            simp only [List.isEmpty_cons, Bool.false_or, Bool.or_eq_true, beq_iff_eq] at h2
            rcases h2 with h2 | h2
            · exact absurd h2 hv
            · exact h2
          have hnv := numVal_of_isNum v hnum
          simp only [viewNormList, Bool.and_eq_true] at h3
          have ihc := parse_toCompactDeep' c h3.1
          cases c with
          | mk w gs =>
            have hw : w ≠ .none := by
              intro e; subst e
              cases v <;> simp at h1
            rw [toCompactDeep, toCompactDeepList, toCompactDeepList, nestNodeC]
            cases hc : toCompactDeep (.mk w gs) with
            | v x =>
              rw [nestNode_single_v v hv]
              -- a leaf child
              rw [hc] at ihc
              simp only [parse, Option.some.injEq] at ihc
              cases ihc
              cases w with
              | none => exact absurd rfl hw
              | int i => simp [parse, parseTuple, hnv]
              | flt n d => simp [parse, parseTuple, hnv]
              | str s => simp [parse, parseTuple, hnv]
            | list ys =>
              exfalso
              cases gs with
              | nil => rw [toCompactDeep, toCompactDeepList, nestNodeC] at hc; cases hc
              | cons g gs' =>
                cases gs' with
                | nil =>
                  rw [toCompactDeep, toCompactDeepList, toCompactDeepList, nestNodeC] at hc
                  cases hg : toCompactDeep g with
                  | v x => rw [hg, nestNode_single_v w hw] at hc; cases hc
                  | list zs => rw [hg, nestNode_single_list w hw] at hc; cases hc
                  | tuple zs => rw [hg, nestNode_single_tuple w hw] at hc; cases hc
                | cons g2 gs2 =>
                  rw [toCompactDeep, toCompactDeepList, toCompactDeepList, nestNodeC, nestNode_two w hw] at hc; cases hc
            | tuple ys =>
              rw [nestNode_single_tuple v hv]
              have hlen := toCompactDeep_tuple_len _ ys hc
              rw [hc] at ihc
              match ys, hlen, ihc with
              | t1 :: t2 :: ts, _, ihc =>
                simp only [parse] at ihc
                simp [parse, parseTuple, hnv, ihc]
        | c1 :: c2 :: rest, h1, h2, h3, ihl =>
          have hnum : v.isNum = true := by
            simp only [List.isEmpty_cons, Bool.false_or, Bool.or_eq_true, beq_iff_eq] at h2
            rcases h2 with h2 | h2
            · exact absurd h2 hv
            · exact h2
          have hnv := numVal_of_isNum v hnum
          rw [toCompactDeep]
          simp only [toCompactDeepList] at ihl ⊢
          rw [nestNodeC, nestNode_two v hv]
          simp [parse, parseTuple, hnv, ihl]
  theorem parseList_toCompactDeepList : ∀ (cs : List DNA), viewNormList cs = true →
      parseList (toCompactDeepList cs) = some cs
    | [], _ => rfl
    | c :: cs, h => by
      simp only [viewNormList, Bool.and_eq_true] at h
      simp [toCompactDeepList, parseList, parse_toCompactDeep' c h.1, parseList_toCompactDeepList cs h.2]
end


theorem parse_toCompactDeep (d : DNA) (h : viewNorm d = true) : parse (toCompactDeep d) = some d :=
  parse_toCompactDeep' d h

/-- The two compact forms agree unless an empty DNA is a child. -/
theorem toCompactDeep_root (v : Val) : toCompactDeep (.mk v []) = toCompact (.mk v []) := rfl

/-! ### the verbose JSON form -/

theorem mk'_of_viewNorm (v : Val) (cs : List DNA) (h : viewNorm (.mk v cs) = true) : mk' v cs = .mk v cs := by
  simp only [viewNorm, Bool.and_eq_true] at h
  obtain ⟨⟨h1, _⟩, _⟩ := h
  match cs, h1 with
  | [], _ => cases v <;> rfl
  | [.mk w gs], h1 =>
    cases w with
    | none => cases v <;> simp at h1
    | int i => cases v <;> first | (simp at h1; done) | rfl
    | flt a b => cases v <;> first | (simp at h1; done) | rfl
    | str t => cases v <;> first | (simp at h1; done) | rfl
  | (.mk w1 g1) :: c2 :: rest, _ => cases w1 <;> cases v <;> rfl

/-- `from_json(d.to_json(compact=False)) == d`. -/
theorem parseVerbose_toVerbose (d : DNA) (h : viewNorm d = true) : parseVerbose (toVerbose d) = some d := by
  cases d with
  | mk v cs =>
    have hl : viewNormList cs = true := by
      simp only [viewNorm, Bool.and_eq_true] at h; exact h.2
    simp only [toVerbose, parseVerbose, parseList_toCompactDeepList cs hl, Option.map_some]
    rw [mk'_of_viewNorm v cs h]

end Pg.Geno
