/-
  Step-level lemmas for C01: the primitives of PgModel/SymOps preserve the belief invariant
  (patched tree).
-/
import PgProofs.SymLookup
namespace Pg.Sym
variable {lcs nb : Bool} {sp : Option Bool} {sat : Bool}

theorem mem_insertByIdx (key : Tree → Nat) (x : Tree) : (l : List Tree) → ∀ y, y ∈ insertByIdx key x l ↔ y = x ∨ y ∈ l
  | [], y => by simp [insertByIdx]
  | z :: zs, y => by
    unfold insertByIdx
    split
    · simp
    · simp only [List.mem_cons, mem_insertByIdx key x zs y]
      constructor
      · rintro (h | h | h)
        · exact Or.inr (Or.inl h)
        · exact Or.inl h
        · exact Or.inr (Or.inr h)
      · rintro (h | h | h)
        · exact Or.inr (Or.inl h)
        · exact Or.inl h
        · exact Or.inr (Or.inr h)

theorem mem_sortByIdx (key : Tree → Nat) : (l : List Tree) → ∀ y, y ∈ sortByIdx key l ↔ y ∈ l
  | [], y => by simp [sortByIdx]
  | x :: xs, y => by
    simp only [sortByIdx, mem_insertByIdx, mem_sortByIdx key xs y, List.mem_cons]

/-- the presentation order of the roots (and dropping roots nobody holds) does not matter. -/
theorem normalizeRoots_ok (before after : Forest) (k : Bool) (h : after.ok = true) :
    (normalizeRoots before after k).ok = true := by
  rw [Forest.ok_iff] at *
  intro r hr
  simp only [normalizeRoots, List.mem_append, List.mem_filterMap, mem_sortByIdx, List.mem_filter] at hr
  rcases hr with ⟨i, _, hfind⟩ | ⟨hmem, _⟩
  · exact h r (List.mem_of_find?_eq_some hfind)
  · exact h r hmem

theorem dropAll_ok (f : Forest) (t : Nat) (m : Meta) (its : Items) (hf : f.ok = true)
    (hits : okItems m.id m.path its = true) : (dropAll (Cfg.fixedWith lcs nb sp sat) f t m its).ok = true := by
  unfold dropAll
  apply addRoots_ok _ _ (mapAt_ok f t _ (clear_local t) hf)
  intro t ht
  simp only [List.mem_map, childNodes, List.mem_filter] at ht
  obtain ⟨c, ⟨⟨kv, hkv, rfl⟩, _⟩, rfl⟩ := ht
  rw [okItems_mem] at hits
  simp only [Cfg.fixedWith, if_true]
  exact detachFrom_ok m.kind (hits kv hkv)

theorem rawDelList_ok (f : Forest) (m : Meta) (its : Items) (pos : Nat) (hf : f.ok = true)
    (hits : okItems m.id m.path its = true) : (rawDelList (Cfg.fixedWith lcs nb sp sat) f m its pos).ok = true := by
  unfold rawDelList
  apply addRoot_ok
  · apply mapAt_ok f m.id _ _ hf
    simp only [Cfg.fixedWith, if_true, removeAt]
    exact rearrange_local m.id _ (noNew_removeAt pos)
  · simp only [Cfg.fixedWith, if_true]
    cases hg : getKey its (Key.i pos) with
    | none => simp [Option.getD, detachFrom, Tree.setParent, Tree.okRoot]
    | some c =>
      simp only [Option.getD]
      exact detachFrom_ok .list (getKey_ok hits hg)

theorem delItemList_ok (f : Forest) (n : Bool) (m : Meta) (its : Items) (idx : Int) (acc : Bool)
    (hf : f.ok = true) (hits : okItems m.id m.path its = true) :
    (delItemList (Cfg.fixedWith lcs nb sp sat) f n m its idx acc).forest.ok = true := by
  unfold delItemList
  simp only
  split; · exact hf
  split; · exact hf
  split; · exact hf
  split; · exact hf
  split
  · exact notify_ok _ _ (rawDelList_ok f m its _ hf hits)
  · exact rawDelList_ok f m its _ hf hits

theorem dictDetached_ok {m : Meta} {its : Items} {k : Key} (hits : okItems m.id m.path its = true) :
    ∀ t ∈ (dictDetached its k).toList, t.okRoot = true := by
  intro t ht
  unfold dictDetached at ht
  simp only [Option.mem_toList] at ht
  split at ht
  · next om oits hold =>
    cases ht
    exact okRoot_setPath [] _ (okRoot_setParent none _ (okRoot_of_okSub (getKey_ok hits hold)))
  · cases ht

theorem dictErase_ok (f : Forest) (m : Meta) (its : Items) (k : Key) (hf : f.ok = true)
    (hits : okItems m.id m.path its = true) : (dictErase f m its k).ok = true := by
  unfold dictErase
  exact addRoots_ok _ _ (mapAt_ok f m.id _ (erase_local m.id k) hf) (dictDetached_ok hits)

theorem rawSetDict_missing_cases (f : Forest) (m : Meta) (its : Items) (k : Key) (hk : m.kind = .dict) :
    rawSetDict (Cfg.fixedWith lcs nb sp sat) f m its k (.atom .missing) = .ok (f, false) ∨
    rawSetDict (Cfg.fixedWith lcs nb sp sat) f m its k (.atom .missing) = .ok (dictErase f m its k, true) := by
  by_cases h1 : sameValue (.atom .missing) (getKey its k) = true
  · left; simp [rawSetDict, h1]
  by_cases h2 : hasKey its k = true
  · right; simp [rawSetDict, h1, h2, VE.isMissing, dictBadKey, hk, isObjKind]
  · left; simp [rawSetDict, h1, h2, VE.isMissing]

theorem rawSetDict_missing_ok (f : Forest) (m : Meta) (its : Items) (k : Key) (hf : f.ok = true)
    (hits : okItems m.id m.path its = true) (hk : m.kind = .dict) :
    ∀ r, rawSetDict (Cfg.fixedWith lcs nb sp sat) f m its k (.atom .missing) = .ok r → r.1.ok = true := by
  intro r hr
  rcases rawSetDict_missing_cases f m its k hk with h | h
  · rw [h] at hr; cases hr; exact hf
  · rw [h] at hr; cases hr; exact dictErase_ok f m its k hf hits

theorem permute_ok (f : Forest) (t : Nat) (g : Items → Items) (hg : NoNewValues g) (hf : f.ok = true) :
    (permute (Cfg.fixedWith lcs nb sp sat) f t g).ok = true := by
  unfold permute
  simp only [Cfg.fixedWith, if_true]
  exact mapAt_ok f t _ (rearrange_local t g hg) hf

theorem delItemDict_ok (f : Forest) (n : Bool) (m : Meta) (its : Items) (k : Key) (acc : Bool)
    (hf : f.ok = true) (hits : okItems m.id m.path its = true) (hk : m.kind = .dict) :
    (delItemDict (Cfg.fixedWith lcs nb sp sat) f n m its k acc).forest.ok = true := by
  unfold delItemDict
  split; · exact hf
  split; · exact hf
  split; · exact hf
  unfold finish
  split
  · exact hf
  · next f' upd heq =>
    have := rawSetDict_missing_ok f m its k hf hits hk (f', upd) heq
    split
    · exact notify_ok _ _ this
    · exact this

end Pg.Sym

namespace Pg.Sym
variable {lcs nb : Bool} {sp : Option Bool} {sat : Bool}

/-! ### slice deletion and seal -/

theorem noNew_filter (q : Key × Tree → Bool) : NoNewValues (fun xs => xs.filter q) := by
  intro xs kv hkv
  exact ⟨kv, (List.mem_filter.mp hkv).1, rfl⟩

theorem rawDelMany_ok (f : Forest) (m : Meta) (its : Items) (ps : List Nat) (hf : f.ok = true)
    (hits : okItems m.id m.path its = true) : (rawDelMany (Cfg.fixedWith lcs nb sp sat) f m its ps).ok = true := by
  unfold rawDelMany
  apply addRoots_ok
  · apply mapAt_ok f m.id _ _ hf
    simp only [Cfg.fixedWith, if_true]
    exact rearrange_local m.id _ (noNew_filter _)
  · intro t ht
    simp only [Cfg.fixedWith, if_true, List.mem_map, List.mem_filter] at ht
    obtain ⟨c, ⟨⟨kv, ⟨hkv, _⟩, rfl⟩, _⟩, rfl⟩ := ht
    rw [okItems_mem] at hits
    exact detachFrom_ok .list (hits kv hkv)

mutual
  theorem mapSubtree_seal_okSub (t : Nat) (s : Bool) (h : Nat) (p : List Key) : (tr : Tree) → tr.okSub h p = true →
      (tr.mapSubtree t (Tree.seal s)).okSub h p = true
    | .leaf _, _ => by simp [Tree.mapSubtree, Tree.okSub]
    | .node m its, hok => by
      unfold Tree.mapSubtree
      split
      · exact seal_okSub s h p _ hok
      · rw [okSub_node] at hok ⊢
        exact ⟨hok.1, mapSubtreeItems_seal_ok t s m.id p its hok.2⟩
  theorem mapSubtreeItems_seal_ok (t : Nat) (s : Bool) (h : Nat) (p : List Key) : (its : Items) →
      okItems h p its = true → okItems h p (mapSubtreeItems t (Tree.seal s) its) = true
    | [], _ => by simp [mapSubtreeItems, okItems]
    | (k, c) :: r, hok => by
      rw [okItems_cons] at hok
      unfold mapSubtreeItems
      rw [okItems_cons]
      exact ⟨mapSubtree_seal_okSub t s h (p ++ [k]) c hok.1, mapSubtreeItems_seal_ok t s h p r hok.2⟩
end

theorem mapSubtree_seal_okRoot (t : Nat) (s : Bool) (tr : Tree) (hok : tr.okRoot = true) :
    (tr.mapSubtree t (Tree.seal s)).okRoot = true := by
  cases tr with
  | leaf a => rfl
  | node m its =>
    unfold Tree.mapSubtree
    split
    · -- the root itself is sealed: flags only
      have h1 : (Tree.node m its).okAt m.parent m.path = true := by rw [okAt_node]; exact ⟨⟨rfl, rfl⟩, hok⟩
      exact okRoot_of_okAt (seal_okAt s m.parent m.path _ h1)
    · exact mapSubtreeItems_seal_ok t s m.id m.path its hok

/-! ### roots have no parent: what an operation removes or replaces is detached -/

def Tree.parentless : Tree → Bool
  | .leaf _ => true
  | .node m _ => m.parent.isNone

def Forest.rootsFree (f : Forest) : Bool := f.roots.all Tree.parentless

theorem Forest.rootsFree_iff (f : Forest) : f.rootsFree = true ↔ ∀ r ∈ f.roots, r.parentless = true := by
  simp [Forest.rootsFree, List.all_eq_true]

theorem updateAt_parentless (t : Nat) (g : Meta → Items → Items) (tr : Tree) :
    (tr.updateAt t g).parentless = tr.parentless := by
  cases tr with
  | leaf a => rfl
  | node m its => unfold Tree.updateAt; split <;> rfl

theorem mapAt_free (f : Forest) (t : Nat) (g : Meta → Items → Items) (hf : f.rootsFree = true) :
    (f.mapAt t g).rootsFree = true := by
  rw [Forest.rootsFree_iff] at *
  intro r hr
  simp only [Forest.mapAt, List.mem_map] at hr
  obtain ⟨r0, hr0, rfl⟩ := hr
  rw [updateAt_parentless]; exact hf r0 hr0

theorem addRoot_free (f : Forest) (t : Tree) (hf : f.rootsFree = true) (ht : t.parentless = true) :
    (f.addRoot t).rootsFree = true := by
  rw [Forest.rootsFree_iff] at *
  unfold Forest.addRoot
  split
  · intro r hr
    simp only [List.mem_append, List.mem_singleton] at hr
    rcases hr with hr | rfl
    · exact hf r hr
    · exact ht
  · exact hf

theorem addRoots_free (ts : List Tree) : ∀ (f : Forest), f.rootsFree = true → (∀ t ∈ ts, t.parentless = true) →
    (addRoots f ts).rootsFree = true := by
  induction ts with
  | nil => intro f hf _; exact hf
  | cons t ts ih =>
    intro f hf hts
    simp only [addRoots, List.foldl_cons]
    exact ih (f.addRoot t) (addRoot_free f t hf (hts t (by simp))) (fun x hx => hts x (by simp [hx]))

theorem setPath_parentless (p : List Key) (t : Tree) : (t.setPath p).parentless = t.parentless := by
  cases t with
  | leaf a => rfl
  | node m its => unfold Tree.setPath; split <;> rfl

theorem setParent_none_parentless (t : Tree) : (t.setParent none).parentless = true := by
  cases t <;> simp [Tree.setParent, Tree.parentless]

theorem detachFrom_parentless (kind : Kind) (t : Tree) : (detachFrom kind t).parentless = true := by
  unfold detachFrom
  cases kind <;> simp only [setPath_parentless] <;> exact setParent_none_parentless t

theorem notify_free (f : Forest) (targets : List Nat) (hf : f.rootsFree = true) : (notify f targets).rootsFree = true := by
  unfold notify
  generalize ((targets.flatMap (chainFrom f (f.ids.length + 1))).eraseDups) = chain
  induction chain generalizing f with
  | nil => exact hf
  | cons c cs ih => exact ih (onChangeAt f c) (mapAt_free f c _ hf)

theorem normalizeRoots_free (before after : Forest) (k : Bool) (h : after.rootsFree = true) :
    (normalizeRoots before after k).rootsFree = true := by
  rw [Forest.rootsFree_iff] at *
  intro r hr
  simp only [normalizeRoots, List.mem_append, List.mem_filterMap, mem_sortByIdx, List.mem_filter] at hr
  rcases hr with ⟨i, _, hfind⟩ | ⟨hmem, _⟩
  · exact h r (List.mem_of_find?_eq_some hfind)
  · exact h r hmem

theorem dropAll_free (f : Forest) (t : Nat) (m : Meta) (its : Items) (hf : f.rootsFree = true) :
    (dropAll (Cfg.fixedWith lcs nb sp sat) f t m its).rootsFree = true := by
  unfold dropAll
  apply addRoots_free _ _ (mapAt_free f t _ hf)
  intro x hx
  simp only [List.mem_map, Cfg.fixedWith, if_true] at hx
  obtain ⟨c, _, rfl⟩ := hx
  exact detachFrom_parentless _ _

theorem rawDelList_free (f : Forest) (m : Meta) (its : Items) (pos : Nat) (hf : f.rootsFree = true) :
    (rawDelList (Cfg.fixedWith lcs nb sp sat) f m its pos).rootsFree = true := by
  unfold rawDelList
  apply addRoot_free _ _ (mapAt_free f m.id _ hf)
  simp only [Cfg.fixedWith, if_true]
  exact detachFrom_parentless _ _

theorem rawDelMany_free (f : Forest) (m : Meta) (its : Items) (ps : List Nat) (hf : f.rootsFree = true) :
    (rawDelMany (Cfg.fixedWith lcs nb sp sat) f m its ps).rootsFree = true := by
  unfold rawDelMany
  apply addRoots_free _ _ (mapAt_free f m.id _ hf)
  intro x hx
  simp only [List.mem_map, Cfg.fixedWith, if_true] at hx
  obtain ⟨c, _, rfl⟩ := hx
  exact detachFrom_parentless _ _

theorem delItemList_free (f : Forest) (n : Bool) (m : Meta) (its : Items) (idx : Int) (acc : Bool)
    (hf : f.rootsFree = true) : (delItemList (Cfg.fixedWith lcs nb sp sat) f n m its idx acc).forest.rootsFree = true := by
  unfold delItemList
  simp only
  split; · exact hf
  split; · exact hf
  split; · exact hf
  split; · exact hf
  split
  · exact notify_free _ _ (rawDelList_free f m its _ hf)
  · exact rawDelList_free f m its _ hf

theorem dictDetached_free (its : Items) (k : Key) : ∀ t ∈ (dictDetached its k).toList, t.parentless = true := by
  intro t ht
  unfold dictDetached at ht
  simp only [Option.mem_toList] at ht
  split at ht
  · cases ht
    rw [setPath_parentless]; exact setParent_none_parentless _
  · cases ht

theorem rawSetDict_missing_free (f : Forest) (m : Meta) (its : Items) (k : Key) (hf : f.rootsFree = true)
    (hk : m.kind = .dict) :
    ∀ r, rawSetDict (Cfg.fixedWith lcs nb sp sat) f m its k (.atom .missing) = .ok r → r.1.rootsFree = true := by
  intro r hr
  rcases rawSetDict_missing_cases f m its k hk with h | h
  · rw [h] at hr; cases hr; exact hf
  · rw [h] at hr; cases hr
    unfold dictErase
    exact addRoots_free _ _ (mapAt_free f m.id _ hf) (dictDetached_free its k)

theorem delItemDict_free (f : Forest) (n : Bool) (m : Meta) (its : Items) (k : Key) (acc : Bool)
    (hf : f.rootsFree = true) (hk : m.kind = .dict) :
    (delItemDict (Cfg.fixedWith lcs nb sp sat) f n m its k acc).forest.rootsFree = true := by
  unfold delItemDict
  split; · exact hf
  split; · exact hf
  split; · exact hf
  unfold finish
  split
  · exact hf
  · next f' upd heq =>
    have := rawSetDict_missing_free f m its k hf hk (f', upd) heq
    split
    · exact notify_free _ _ this
    · exact this

theorem permute_free (f : Forest) (t : Nat) (g : Items → Items) (hf : f.rootsFree = true) :
    (permute (Cfg.fixedWith lcs nb sp sat) f t g).rootsFree = true := by
  unfold permute
  exact mapAt_free f t _ hf

theorem mapSubtree_seal_parentless (t : Nat) (s : Bool) (tr : Tree) :
    (tr.mapSubtree t (Tree.seal s)).parentless = tr.parentless := by
  cases tr with
  | leaf a => rfl
  | node m its => unfold Tree.mapSubtree; split <;> simp [Tree.seal, Tree.parentless]

end Pg.Sym

namespace Pg.Sym
variable {lcs nb : Bool} {sp : Option Bool} {sat : Bool}

/-! ### clear / sort / reverse with their change notification (6daab50) -/

theorem clearAndNotify_ok (f : Forest) (n : Bool) (t : Nat) (m : Meta) (its : Items) (hf : f.ok = true)
    (hits : okItems m.id m.path its = true) : (clearAndNotify (Cfg.fixedWith lcs nb sp sat) f n t m its).ok = true := by
  unfold clearAndNotify
  simp only
  split
  · exact notify_ok _ _ (dropAll_ok f t m its hf hits)
  · exact dropAll_ok f t m its hf hits

theorem clearAndNotify_free (f : Forest) (n : Bool) (t : Nat) (m : Meta) (its : Items) (hf : f.rootsFree = true) :
    (clearAndNotify (Cfg.fixedWith lcs nb sp sat) f n t m its).rootsFree = true := by
  unfold clearAndNotify
  simp only
  split
  · exact notify_free _ _ (dropAll_free f t m its hf)
  · exact dropAll_free f t m its hf

theorem permuteAndNotify_ok (f : Forest) (n : Bool) (t : Nat) (its : Items) (g : Items → Items)
    (hg : NoNewValues g) (hf : f.ok = true) : (permuteAndNotify (Cfg.fixedWith lcs nb sp sat) f n t its g).ok = true := by
  unfold permuteAndNotify
  simp only
  split
  · exact notify_ok _ _ (permute_ok f t g hg hf)
  · exact permute_ok f t g hg hf

theorem permuteAndNotify_free (f : Forest) (n : Bool) (t : Nat) (its : Items) (g : Items → Items)
    (hf : f.rootsFree = true) : (permuteAndNotify (Cfg.fixedWith lcs nb sp sat) f n t its g).rootsFree = true := by
  unfold permuteAndNotify
  simp only
  split
  · exact notify_free _ _ (permute_free f t g hf)
  · exact permute_free f t g hf

end Pg.Sym
