/-
  Step-level lemmas for C01: the primitives of PgModel/SymOps preserve the belief invariant
  (patched tree).
-/
import PgProofs.SymLookup
namespace Pg.Sym

theorem mem_insertByIdx (key : Tree → Nat) (x : Tree) : (l : List Tree) → ∀ y, y ∈ insertByIdx key x l ↔ y = x ∨ y ∈ l
  | [], y => by simp [insertByIdx]
  | z :: zs, y => by
    unfold insertByIdx
    split
    · simp
    · simp only [List.mem_cons, mem_insertByIdx key x zs y]
      constructor
      · rintro (h | h | h)
        · exact Or.inr (Or.inl h)
        · exact Or.inl h
        · exact Or.inr (Or.inr h)
      · rintro (h | h | h)
        · exact Or.inr (Or.inl h)
        · exact Or.inl h
        · exact Or.inr (Or.inr h)

theorem mem_sortByIdx (key : Tree → Nat) : (l : List Tree) → ∀ y, y ∈ sortByIdx key l ↔ y ∈ l
  | [], y => by simp [sortByIdx]
  | x :: xs, y => by
    simp only [sortByIdx, mem_insertByIdx, mem_sortByIdx key xs y, List.mem_cons]

/-- the presentation order of the roots (and dropping roots nobody holds) does not matter. -/
theorem normalizeRoots_ok (before after : Forest) (k : Bool) (h : after.ok = true) :
    (normalizeRoots before after k).ok = true := by
  rw [Forest.ok_iff] at *
  intro r hr
  simp only [normalizeRoots, List.mem_append, List.mem_filterMap, mem_sortByIdx, List.mem_filter] at hr
  rcases hr with ⟨i, _, hfind⟩ | ⟨hmem, _⟩
  · exact h r (List.mem_of_find?_eq_some hfind)
  · exact h r hmem

theorem dropAll_ok (f : Forest) (t : Nat) (m : Meta) (its : Items) (hf : f.ok = true)
    (hits : okItems m.id m.path its = true) : (dropAll Cfg.patched f t m its).ok = true := by
  unfold dropAll
  apply addRoots_ok _ _ (mapAt_ok f t _ (clear_local t) hf)
  intro t ht
  simp only [List.mem_map, childNodes, List.mem_filter] at ht
  obtain ⟨c, ⟨⟨kv, hkv, rfl⟩, _⟩, rfl⟩ := ht
  rw [okItems_mem] at hits
  simp only [Cfg.patched, if_true]
  exact detachFrom_ok m.kind (hits kv hkv)

theorem rawDelList_ok (f : Forest) (m : Meta) (its : Items) (pos : Nat) (hf : f.ok = true)
    (hits : okItems m.id m.path its = true) : (rawDelList Cfg.patched f m its pos).ok = true := by
  unfold rawDelList
  apply addRoot_ok
  · apply mapAt_ok f m.id _ _ hf
    simp only [Cfg.patched, if_true, removeAt]
    exact rearrange_local m.id _ (noNew_removeAt pos)
  · simp only [Cfg.patched, if_true]
    cases hg : getKey its (Key.i pos) with
    | none => simp [Option.getD, detachFrom, Tree.setParent, Tree.okRoot]
    | some c =>
      simp only [Option.getD]
      exact detachFrom_ok .list (getKey_ok hits hg)

theorem delItemList_ok (f : Forest) (n : Bool) (m : Meta) (its : Items) (idx : Int) (acc : Bool)
    (hf : f.ok = true) (hits : okItems m.id m.path its = true) :
    (delItemList Cfg.patched f n m its idx acc).forest.ok = true := by
  unfold delItemList
  simp only
  split; · exact hf
  split; · exact hf
  split; · exact hf
  split
  · exact notify_ok _ _ (rawDelList_ok f m its _ hf hits)
  · exact rawDelList_ok f m its _ hf hits

theorem detachedOld_ok {m : Meta} {its : Items} {k : Key} (hits : okItems m.id m.path its = true) :
    ∀ t ∈ (match getKey its k with
      | some (Tree.node om oits) => some (Tree.setPath [] (Tree.setParent none (Tree.node om oits)))
      | _ => none).toList, t.okRoot = true := by
  intro t ht
  simp only [Option.mem_toList] at ht
  split at ht
  · next om oits hold =>
    cases ht
    exact okRoot_setPath [] _ (okRoot_setParent none _ (okRoot_of_okSub (getKey_ok hits hold)))
  · cases ht

theorem rawSetDict_missing_ok (f : Forest) (m : Meta) (its : Items) (k : Key) (hf : f.ok = true)
    (hits : okItems m.id m.path its = true) (hk : m.kind = .dict) :
    ∀ r, rawSetDict Cfg.patched f m its k (.atom .missing) = .ok r → r.1.ok = true := by
  intro r hr
  simp only [rawSetDict, hk, VE.isMissing, isObjKind, Bool.true_and, Bool.not_false, Bool.and_true] at hr
  by_cases hs : (Option.map (sameAtom (VE.atom Atom.missing)) (getKey its k)).getD false = true
  · simp only [hs, if_true] at hr
    cases hr; exact hf
  simp only [hs] at hr
  by_cases hh : hasKey its k = true
  · simp only [hh, Bool.not_true, if_true] at hr
    simp at hr
    cases hr
    exact addRoots_ok _ _ (mapAt_ok f m.id _ (erase_local m.id k) hf) (detachedOld_ok hits)
  · simp only [Bool.not_eq_true] at hh
    simp [hh] at hr
    cases hr; exact hf

theorem permute_ok (f : Forest) (t : Nat) (g : Items → Items) (hg : NoNewValues g) (hf : f.ok = true) :
    (permute Cfg.patched f t g).ok = true := by
  unfold permute
  simp only [Cfg.patched, if_true]
  exact mapAt_ok f t _ (rearrange_local t g hg) hf

theorem delItemDict_ok (f : Forest) (n : Bool) (m : Meta) (its : Items) (k : Key) (acc : Bool)
    (hf : f.ok = true) (hits : okItems m.id m.path its = true) (hk : m.kind = .dict) :
    (delItemDict Cfg.patched f n m its k acc).forest.ok = true := by
  unfold delItemDict
  split; · exact hf
  split; · exact hf
  split; · exact hf
  unfold finish
  split
  · exact hf
  · next f' upd heq =>
    have := rawSetDict_missing_ok f m its k hf hits hk (f', upd) heq
    split
    · exact notify_ok _ _ this
    · exact this

end Pg.Sym
