/-
  C06 helper lemmas, part 9: the literal transcription of `base.lt` (`ltDirect`: the keys of the two
  dicts at hand are sorted when the dict branch is reached, the values are left as they are) coincides
  with `symLt` (all dicts sorted first, then the positional core) on well-formed values. The one fact
  this rests on is (b) of CompareWf: the sub-value tests `eq` do not see the key order.
-/
import PgProofs.CompareWf
namespace Pg.C06

variable {env : Env}

theorem rank_canon (x : Val) : rank env (canon env x) = rank env x := by
  cases x with
  | atom a => rfl
  | _ => rfl

theorem rankCmp_canon (x y : Val) : rankCmp env (canon env x) (canon env y) = rankCmp env x y := by
  simp only [rankCmp, rank_canon]

theorem insertItem_canon (k : Atom) (v : Val) (xs : List (Atom × Val)) :
    insertItem env k (canon env v) (canonItems env xs) = canonItems env (insertItem env k v xs) := by
  induction xs with
  | nil => rfl
  | cons p xs ih =>
    obtain ⟨k', w⟩ := p
    simp only [canonItems, insertItem]
    split
    · simp only [canonItems]
    · simp only [canonItems, ih]

/-- sorting looks at the keys only -/
theorem sortItems_canonItems (xs : List (Atom × Val)) :
    sortItems env (canonItems env xs) = canonItems env (sortItems env xs) := by
  induction xs with
  | nil => rfl
  | cons p xs ih =>
    obtain ⟨k, v⟩ := p
    simp only [canonItems, sortItems, ih, insertItem_canon]

theorem wellFormedList_iff (num : Bool) (xs : List Val) :
    wellFormedList env num xs = true ↔ ∀ x ∈ xs, wellFormed env num x = true := by
  induction xs with
  | nil => simp [wellFormedList]
  | cons x xs ih => simp [wellFormedList, ih]

theorem depth_le_list {x : Val} {xs : List Val} (h : x ∈ xs) : depth x ≤ depthList xs := by
  induction xs with
  | nil => cases h
  | cons y ys ih =>
    simp only [depthList]
    rcases List.mem_cons.mp h with rfl | h
    · omega
    · have := ih h; omega

theorem depth_le_items {p : Atom × Val} {xs : List (Atom × Val)} (h : p ∈ xs) :
    depth p.2 ≤ depthItems xs := by
  induction xs with
  | nil => cases h
  | cons q ys ih =>
    obtain ⟨k, v⟩ := q
    simp only [depthItems]
    rcases List.mem_cons.mp h with rfl | h
    · simp only; omega
    · have := ih h; omega

theorem ltListBy_canon (num : Bool) (f : Val → Val → Except Err Bool) (xs : List Val) : ∀ ys : List Val,
    (∀ x ∈ xs, ∀ y, wellFormed env num x = true → wellFormed env num y = true →
      f x y = lt env (canon env x) (canon env y)) →
    wellFormedList env num xs = true → wellFormedList env num ys = true →
    ltListBy f xs ys = ltList env (canonList env xs) (canonList env ys) := by
  induction xs with
  | nil => intro ys _ _ _; cases ys <;> rfl
  | cons x xs ih =>
    intro ys hf hx hy
    cases ys with
    | nil => rfl
    | cons y ys =>
      simp only [wellFormedList, Bool.and_eq_true] at hx hy
      simp only [ltListBy, canonList, ltList, eq_canon num x y hx.1 hy.1,
        hf x (List.mem_cons_self ..) y hx.1 hy.1,
        ih ys (fun x' hx' => hf x' (List.mem_cons_of_mem _ hx')) hx.2 hy.2]

theorem ltItemsBy_canon (num : Bool) (f : Val → Val → Except Err Bool) (xs : List (Atom × Val)) :
    ∀ ys : List (Atom × Val),
    (∀ p ∈ xs, ∀ y, wellFormed env num p.2 = true → wellFormed env num y = true →
      f p.2 y = lt env (canon env p.2) (canon env y)) →
    wellFormedItems env num xs = true → wellFormedItems env num ys = true →
    ltItemsBy env f xs ys = ltItems env (canonItems env xs) (canonItems env ys) := by
  induction xs with
  | nil => intro ys _ _ _; cases ys <;> rfl
  | cons p xs ih =>
    intro ys hf hx hy
    cases ys with
    | nil => rfl
    | cons q ys =>
      obtain ⟨k, v⟩ := p
      obtain ⟨k', w⟩ := q
      simp only [wellFormedItems, Bool.and_eq_true] at hx hy
      simp only [ltItemsBy, canonItems, ltItems, eq_canon num v w hx.1 hy.1,
        hf (k, v) (List.mem_cons_self ..) w hx.1 hy.1,
        ih ys (fun p' hp' => hf p' (List.mem_cons_of_mem _ hp')) hx.2 hy.2]

theorem wellFormedItems_perm {num : Bool} {xs ys : List (Atom × Val)} (h : xs.Perm ys)
    (hx : wellFormedItems env num xs = true) : wellFormedItems env num ys = true := by
  rw [wellFormedItems_iff] at hx ⊢
  exact fun p hp => hx p (h.mem_iff.mpr hp)

/-- With a bound above the depth of the left value, the literal transcription is `symLt`. -/
theorem ltF_eq (num : Bool) : ∀ (n : Nat) (x y : Val), depth x < n →
    wellFormed env num x = true → wellFormed env num y = true →
    ltF env n x y = lt env (canon env x) (canon env y) := by
  intro n
  induction n with
  | zero => intro x y h; omega
  | succ n ih =>
    intro x y hd hx hy
    have hr := rankCmp_canon (env := env) x y
    cases hc : rankCmp env x y with
    | some r => rw [hc] at hr; rw [lt_of_rankCmp hr]; simp only [ltF, hc]
    | none =>
      rw [hc] at hr
      cases x with
      | atom a =>
        cases y <;> simp only [canon] at hr ⊢ <;> simp only [ltF, lt, hc, hr]
      | list s xs =>
        cases y with
        | list t ys =>
          simp only [canon] at hr ⊢
          simp only [ltF, lt, hc, hr]
          simp only [wellFormed] at hx hy
          simp only [depth] at hd
          refine ltListBy_canon num _ xs ys ?_ hx hy
          intro x' hx' y' wx wy
          exact ih x' y' (by have := depth_le_list hx'; omega) wx wy
        | _ => simp only [canon] at hr ⊢; simp only [ltF, lt, hc, hr]
      | tuple xs =>
        cases y with
        | tuple ys =>
          simp only [wellFormed] at hx hy
          simp only [canon, canonList_tuple num xs hx, canonList_tuple num ys hy] at hr ⊢
          simp only [ltF, lt, hc]
        | _ => simp only [canon] at hr ⊢; simp only [ltF, lt, hc, hr]
      | dict s xs =>
        cases y with
        | dict t ys =>
          simp only [canon, sortItems_canonItems] at hr ⊢
          simp only [ltF, lt, hc, hr]
          simp only [wellFormed, Bool.and_eq_true] at hx hy
          simp only [depth] at hd
          refine ltItemsBy_canon num _ _ _ ?_ (wellFormedItems_perm (sortItems_perm _).symm hx.2)
            (wellFormedItems_perm (sortItems_perm _).symm hy.2)
          intro p hp y' wx wy
          have hp' := (sortItems_perm (env := env) xs).mem_iff.mp hp
          exact ih p.2 y' (by have := depth_le_items hp'; omega) wx wy
        | _ => simp only [canon] at hr ⊢; simp only [ltF, lt, hc, hr]
      | obj c xs =>
        cases y with
        | obj d ys =>
          simp only [canon] at hr ⊢
          simp only [ltF, lt, hc, hr]
          simp only [wellFormed, Bool.and_eq_true] at hx hy
          simp only [depth] at hd
          split
          · cases hdyn : env.dyn c
            · simp only [Bool.false_eq_true, if_false]
              rename_i hcd
              subst hcd
              simp only [hdyn, Bool.false_eq_true, if_false]
              refine ltItemsBy_canon num _ _ _ ?_ hx.2 hy.2
              intro p hp y' wx wy
              exact ih p.2 y' (by have := depth_le_items hp; omega) wx wy
            · rename_i hcd
              subst hcd
              simp only [hdyn, if_true, sortItems_canonItems]
              refine ltItemsBy_canon num _ _ _ ?_ (wellFormedItems_perm (sortItems_perm _).symm hx.2)
                (wellFormedItems_perm (sortItems_perm _).symm hy.2)
              intro p hp y' wx wy
              have hp' := (sortItems_perm (env := env) xs).mem_iff.mp hp
              exact ih p.2 y' (by have := depth_le_items hp'; omega) wx wy
          · rfl
        | _ => simp only [canon] at hr ⊢; simp only [ltF, lt, hc, hr]

/-- Sorting the keys when the dict branch is reached = sorting all dicts first. -/
theorem ltDirect_eq_symLt (num : Bool) (x y : Val)
    (hx : wellFormed env num x = true) (hy : wellFormed env num y = true) :
    ltDirect env x y = symLt env x y :=
  ltF_eq num _ x y (Nat.lt_succ_self _) hx hy

/-- … and any larger bound gives the same answer. -/
theorem ltF_stable (num : Bool) (n : Nat) (x y : Val) (hn : depth x < n)
    (hx : wellFormed env num x = true) (hy : wellFormed env num y = true) :
    ltF env n x y = ltDirect env x y := by
  rw [ltDirect, ltF_eq num n x y hn hx hy, ltF_eq num _ x y (Nat.lt_succ_self _) hx hy]

end Pg.C06
