/-
  Enumeration lemmas: normal forms of DNAs, the single-choice odometer, `walkIdx` successor.
-/
import PgModel.Geno.Enum
import PgProofs.GenoList
namespace Pg.Geno
open DNA

/-- The node has an integer value (single-choice nodes). -/
def IntTop (d : DNA) : Prop := ∃ v cs, d = .mk (.int v) cs

theorem mk'_none_of_intTop {ds : List DNA} (h : ∀ d ∈ ds, IntTop d) : mk' .none ds = rootOf ds := by
  match ds, h with
  | [], _ => rfl
  | [d], h =>
    obtain ⟨v, cs, rfl⟩ := h d List.mem_cons_self
    rfl
  | d1 :: d2 :: rest, _ =>
    cases d1 with
    | mk w c1 => cases w <;> rfl

theorem mk'_int_single (v : Int) (d : DNA) : mk' (.int v) [d] = .mk (.int v) (kids d) := by
  cases d with
  | mk w cs => cases w <;> rfl

theorem mk'_none_single_int (v : Int) (cs : List DNA) : mk' .none [.mk (.int v) cs] = .mk (.int v) cs := rfl

theorem kids_rootOf {ds : List DNA} (h : ∀ d ∈ ds, IntTop d) : kids (rootOf ds) = ds := by
  match ds, h with
  | [], _ => rfl
  | [d], h =>
    obtain ⟨v, cs, rfl⟩ := h d List.mem_cons_self
    rfl
  | d1 :: d2 :: rest, _ => rfl

theorem kidsL_of_intTop {ds : List DNA} (h : ∀ d ∈ ds, IntTop d) : kidsL ds = ds := by
  match ds, h with
  | [], _ => rfl
  | [d], h =>
    obtain ⟨v, cs, rfl⟩ := h d List.mem_cons_self
    rfl
  | d1 :: d2 :: rest, _ =>
    cases d1 with
    | mk w c1 => cases w <;> rfl

/-! ### next_value_for_choice without prior choices -/

theorem filter_gt_range_head (n v : Nat) :
    ((List.range n).filter fun x => decide (v < x)).head? = if v + 1 < n then some (v + 1) else none := by
  induction n with
  | zero => simp
  | succ n ih =>
    rw [List.range_succ, List.filter_append, List.head?_append, ih]
    by_cases h : v + 1 < n
    · have : v + 1 < n + 1 := by omega
      simp [h, this]
    · by_cases h2 : v < n
      · have h3 : v + 1 < n + 1 := by omega
        have h4 : n = v + 1 := by omega
        simp [h, h2, h3, h4]
      · have h3 : ¬ v + 1 < n + 1 := by omega
        simp [h, h2, h3]

theorem nextValueForChoice_nil (n : Nat) (distinct : Bool) (v : Nat) :
    nextValueForChoice n distinct [] v = if v + 1 < n then some (v + 1) else none := by
  unfold nextValueForChoice
  have : (fun x => decide (v < x) && (!distinct || !([] : List Nat).contains x)) = fun x => decide (v < x) := by
    funext x; simp
  rw [this]
  exact filter_gt_range_head n v

/-- The single-choice case of `Choices._next_dna`: advance the sub-space, else move to the next
candidate with its first DNA, else `None`. -/
theorem nextChoicesWith_single (n : Nat) (distinct sorted : Bool) (first : Nat → DNA)
    (next : Nat → DNA → Option (Option DNA)) (v : Nat) (cs : List DNA) (hv : v < n) :
    nextChoicesWith n 1 distinct sorted first next (.mk (.int (v : Nat)) cs) =
      match next v (mk' .none cs) with
      | none => none
      | some (some d') => some (some (.mk (.int (v : Nat)) (kids d')))
      | some none =>
        if v + 1 < n then some (some (.mk (.int ((v + 1 : Nat) : Int)) (kids (first (v + 1))))) else some none := by
  have hr : inRange n (v : Nat) = true := by simp [inRange, hv]
  simp only [nextChoicesWith, beq_self_eq_true, if_true, odoLoop, hr, Bool.not_true, Bool.false_eq_true,
    if_false, Int.toNat_natCast, List.reverse_nil, natValues, List.nil_append]
  cases hn : next v (mk' .none cs) with
  | none => rfl
  | some sub =>
    cases sub with
    | some d' =>
      simp [minRemainingChoices, minRemLoop, mk'_int_single, mk'_none_single_int]
    | none =>
      simp only [nextValueForChoice_nil]
      by_cases h : v + 1 < n
      · simp [h, minRemainingChoices, minRemLoop, mk'_int_single, mk'_none_single_int]
      · simp [h]

/-! ### successor inside an indexed concatenation of single-choice blocks -/

/-- The block of candidate `c`: one node per admissible children list. -/
def nodeBlock (c : Nat) (ksl : List (List DNA)) : List DNA := ksl.map (DNA.mk (.int (c : Nat)))

theorem node_inj {c : Nat} {a b : List DNA} (h : DNA.mk (.int (c : Nat)) a = DNA.mk (.int (c : Nat)) b) : a = b := by
  cases h; rfl

theorem not_mem_nodeBlock {c c' : Nat} {ks : List DNA} {ksl : List (List DNA)} (h : c ≠ c') :
    DNA.mk (.int (c : Nat)) ks ∉ nodeBlock c' ksl := by
  intro hm
  simp only [nodeBlock, List.mem_map] at hm
  obtain ⟨a, _, ha⟩ := hm
  cases ha
  exact h rfl

theorem head?_walkIdx_nodeBlock (s : Nat) (subs : List (List (List DNA))) (hne : ∀ ksl ∈ subs, ksl ≠ []) :
    (walkIdx nodeBlock s subs).head? = (subs.head?.bind fun ksl => ksl.head?.map (DNA.mk (.int (s : Nat)))) := by
  cases subs with
  | nil => rfl
  | cons ksl rest =>
    have : ksl ≠ [] := hne ksl List.mem_cons_self
    cases ksl with
    | nil => exact absurd rfl this
    | cons ks r => simp [walkIdx, nodeBlock]

theorem succIn_walkIdx_nodeBlock (subs : List (List (List DNA))) (hne : ∀ ksl ∈ subs, ksl ≠ []) :
    ∀ (s i : Nat) (ksl : List (List DNA)) (ks : List DNA), subs[i]? = some ksl → ks ∈ ksl →
      succIn (walkIdx nodeBlock s subs) (.mk (.int ((s + i : Nat) : Int)) ks) =
        ((succIn ksl ks).map (DNA.mk (.int ((s + i : Nat) : Int)))).orElse fun _ =>
          (subs[i + 1]?.bind fun ksl' => ksl'.head?.map (DNA.mk (.int ((s + i + 1 : Nat) : Int)))) := by
  induction subs with
  | nil => intro s i ksl ks h; simp at h
  | cons b rest ih =>
    intro s i ksl ks hi hks
    have hne' : ∀ ksl ∈ rest, ksl ≠ [] := fun k hk => hne k (List.mem_cons_of_mem _ hk)
    cases i with
    | zero =>
      simp only [List.getElem?_cons_zero, Option.some.injEq] at hi
      subst hi
      have hm : DNA.mk (.int ((s + 0 : Nat) : Int)) ks ∈ nodeBlock s b := by
        simp only [Nat.add_zero, nodeBlock, List.mem_map]; exact ⟨ks, hks, rfl⟩
      simp only [walkIdx]
      rw [succIn_append_left hm]
      have h1 : succIn (nodeBlock s b) (DNA.mk (.int ((s + 0 : Nat) : Int)) ks) =
          (succIn b ks).map (DNA.mk (.int ((s + 0 : Nat) : Int))) := by
        simp only [Nat.add_zero, nodeBlock]
        exact succIn_map (fun a _ h => node_inj h)
      rw [h1, head?_walkIdx_nodeBlock (s + 1) rest hne']
      cases rest <;> simp
    | succ i =>
      simp only [List.getElem?_cons_succ] at hi
      have hnm : DNA.mk (.int ((s + (i + 1) : Nat) : Int)) ks ∉ nodeBlock s b :=
        not_mem_nodeBlock (by omega)
      simp only [walkIdx]
      rw [succIn_append_right hnm]
      have := ih hne' (s + 1) i ksl ks hi hks
      have e1 : s + 1 + i = s + (i + 1) := by omega
      rw [e1] at this
      rw [this]
      simp

end Pg.Geno
