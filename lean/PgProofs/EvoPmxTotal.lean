/-
  C14 — totality of the partially mapped crossover on two arrangements of the same distinct items:
  the re-mapping walk `v -> self[index_in_other(v)]` from a position outside the copied segment stays
  inside the segment on pairwise different positions (pigeonhole), so it leaves it within
  `stop - start` steps; the first-return map to the outside of the segment is injective, so the value
  found there has not been given to an earlier position: the `while v in assigned` loop ends exactly
  there, no KeyError, no endless loop.
-/
import PgProofs.EvoCycleTotal
import PgProofs.EvoPmxPerm
namespace Pg.C14

theorem seg_mem_of (other : List Nat) (start stop q : Nat) (h1 : start ≤ q) (h2 : q < stop)
    (h3 : q < other.length) : other.getD q 0 ∈ (other.take stop).drop start := by
  rw [List.getD_eq_getElem _ _ h3, List.mem_iff_getElem]
  refine ⟨q - start, by simp; omega, ?_⟩
  simp only [List.getElem_drop, List.getElem_take]
  congr 1
  omega

theorem seg_mem_inv (other : List Nat) (hno : other.Nodup) (start stop q : Nat) (h3 : q < other.length)
    (h : other.getD q 0 ∈ (other.take stop).drop start) : start ≤ q ∧ q < stop := by
  rw [List.getD_eq_getElem _ _ h3, List.mem_iff_getElem] at h
  obtain ⟨i, hi, he⟩ := h
  simp only [List.getElem_drop, List.getElem_take] at he
  have hi' : i < min stop other.length - start := by simpa using hi
  have := (List.Nodup.getElem_inj_iff hno).mp he
  omega


theorem iter_add (f : Nat → Nat) : ∀ d a x, iter f (a + d) x = iter f a (iter f d x) := by
  intro d
  induction d with
  | zero => intro a x; rfl
  | succ d ih =>
    intro a x
    show iter f (a + d + 1) x = iter f a (iter f (d + 1) x)
    rw [iter, ih a (f x)]
    rfl

section
variable {self other : List Nat} (hno : other.Nodup) (hp : self.Perm other)
include hno hp

/-- the position map of PMX: where `other` holds the item `self` has at `p`. -/
local notation "π" => cycNext other self

theorem pmx_iter_inj (x y : Nat) (hx : x < other.length) (hy : y < other.length) :
    ∀ a, iter π a x = iter π a y → x = y := by
  intro a
  induction a generalizing x y with
  | zero => intro h; exact h
  | succ a ih =>
    intro h
    simp only [iter] at h
    exact cycNext_inj hno hp _ _ hx hy
      (ih _ _ (cycNext_spec hno hp x hx).1 (cycNext_spec hno hp y hy).1 h)

/-- the value `self` has at `p` sits in `other` at `π p`. -/
theorem pmx_idxOf (p : Nat) (hpn : p < other.length) :
    other.idxOf (self.getD p 0) = π p ∧ π p < other.length ∧ other.getD (π p) 0 = self.getD p 0 :=
  ⟨rfl, (cycNext_spec hno hp p hpn).1, (cycNext_spec hno hp p hpn).2⟩


/-- position `p` lies in the copied segment. -/
def InSeg (start stop p : Nat) : Prop := start ≤ p ∧ p < stop

/-- from position `j` outside the segment the re-mapping walk stays inside the segment for `k` steps
and leaves it at step `k + 1`. -/
def Res (other self : List Nat) (start stop j k : Nat) : Prop :=
  (∀ i, i < k → InSeg start stop (iter (cycNext other self) (i + 1) j)) ∧
  ¬ InSeg start stop (iter (cycNext other self) (k + 1) j)

/-- the walk leaves the segment within `stop - start` steps: the positions it visits inside the
segment are pairwise different (pigeonhole), else `j` itself would be inside. -/
theorem res_exists (start stop j : Nat) (hj : j < other.length) (hjs : ¬ InSeg start stop j) :
    ∃ k, k ≤ stop - start ∧ Res other self start stop j k := by
  have hex : ∃ i, i ≤ stop - start ∧ ¬ InSeg start stop (iter π (i + 1) j) := by
    by_contra hall
    have hin : ∀ i, i ≤ stop - start → InSeg start stop (iter π (i + 1) j) := by
      intro i hi
      by_contra hc
      exact hall ⟨i, hi, hc⟩
    let f : Fin (stop - start + 1) → Fin (stop - start) := fun t =>
      ⟨iter π (t.val + 1) j - start, by
        have := hin t.val (by have := t.isLt; omega)
        unfold InSeg at this; omega⟩
    obtain ⟨a, b, hab, hf⟩ := Fintype.exists_ne_map_eq_of_card_lt f (by simp)
    have hv : iter π (a.val + 1) j = iter π (b.val + 1) j := by
      have h1 := hin a.val (by have := a.isLt; omega)
      have h2 := hin b.val (by have := b.isLt; omega)
      have := congrArg Fin.val hf
      simp only [f] at this
      unfold InSeg at h1 h2
      omega
    have hne : a.val ≠ b.val := fun h => hab (Fin.ext h)
    have key : ∀ x y : Nat, x < y → y ≤ stop - start → iter π (x + 1) j = iter π (y + 1) j → False := by
      intro x y hxy hy hv
      have hback : iter π (y - x) j = j := by
        apply iter_cancel hno hp j hj (x + 1)
        rw [show x + 1 + (y - x) = y + 1 by omega]; exact hv
      have := hin (y - x - 1) (by omega)
      rw [show y - x - 1 + 1 = y - x by omega, hback] at this
      exact hjs this
    rcases Nat.lt_or_gt_of_ne hne with hlt | hlt
    · exact key a.val b.val hlt (by have := b.isLt; omega) hv
    · exact key b.val a.val hlt (by have := a.isLt; omega) hv.symm
  classical
  refine ⟨Nat.find hex, (Nat.find_spec hex).1, ?_, (Nat.find_spec hex).2⟩
  intro i hi
  by_contra hc
  exact Nat.find_min hex hi ⟨by have := (Nat.find_spec hex).1; omega, hc⟩

/-- two different positions outside the segment are re-mapped to different positions. -/
theorem res_inj (start stop j j' k k' : Nat) (hj : j < other.length) (hj' : j' < other.length)
    (hjs : ¬ InSeg start stop j) (hjs' : ¬ InSeg start stop j')
    (hr : Res other self start stop j k) (hr' : Res other self start stop j' k')
    (he : iter π k j = iter π k' j') : j = j' := by
  have key : ∀ (x y a b : Nat), x < other.length → y < other.length → ¬ InSeg start stop x →
      Res other self start stop y b → a ≤ b → iter π a x = iter π b y → x = y := by
    intro x y a b hx hy hxs hry hab h
    obtain ⟨d, rfl⟩ := Nat.exists_eq_add_of_le hab
    rw [iter_add] at h
    have hd : iter π d y < other.length := iter_lt hno hp y hy d
    have hxy := pmx_iter_inj hno hp x _ hx hd a h
    cases d with
    | zero => exact hxy
    | succ d =>
      exfalso
      have := hry.1 d (by omega)
      rw [← hxy] at this
      exact hxs this
  rcases Nat.le_total k k' with hk | hk
  · exact key j j' k k' hj hj' hjs hr' hk he
  · exact (key j' j k' k hj' hj hjs' hr hk he.symm).symm

/-- the `while v in assigned` loop, started at the value `self` has at the `i`-th position of the walk:
it returns the value at the `k`-th position if all earlier ones are assigned and that one is not. -/
theorem pmxResolve_total (A : List Nat) (j k : Nat) (hj : j < other.length)
    (hin : ∀ i, i < k → self.getD (iter π i j) 0 ∈ A) (hout : self.getD (iter π k j) 0 ∉ A) :
    ∀ m i fuel, i + m = k → m + 1 ≤ fuel →
      pmxResolve self other A fuel (self.getD (iter π i j) 0) = some (self.getD (iter π k j) 0) := by
  have hl : self.length = other.length := hp.length_eq
  intro m
  induction m with
  | zero =>
    intro i fuel him hf
    obtain ⟨f, rfl⟩ : ∃ f, fuel = f + 1 := ⟨fuel - 1, by omega⟩
    have hik : i = k := by omega
    subst hik
    simp only [pmxResolve]
    rw [if_pos (by simpa using hout)]
  | succ m ih =>
    intro i fuel him hf
    obtain ⟨f, rfl⟩ : ∃ f, fuel = f + 1 := ⟨fuel - 1, by omega⟩
    have hi : self.getD (iter π i j) 0 ∈ A := hin i (by omega)
    simp only [pmxResolve]
    rw [if_neg (by simpa using hi)]
    have hpos := iter_lt hno hp j hj i
    obtain ⟨e1, e2, _⟩ := pmx_idxOf hno hp (iter π i j) hpos
    have e3 : self[other.idxOf (self.getD (iter π i j) 0)]? = some (self.getD (iter π (i + 1) j) 0) := by
      rw [e1, iter_succ_right, List.getD_eq_getElem _ _ (by omega : π (iter π i j) < self.length)]
      exact List.getElem?_eq_getElem _
    rw [e3]
    exact ih (i + 1) f (by omega) (by omega)

/-- the set of assigned values: the copied segment, and re-mapped values of positions in `D`. -/
def PmxInv (other self : List Nat) (start stop : Nat) (A : List Nat) (D : Nat → Prop) : Prop :=
  (∀ s ∈ (other.take stop).drop start, s ∈ A) ∧
  ∀ a ∈ A, a ∈ (other.take stop).drop start ∨
    ∃ j' k', D j' ∧ j' < other.length ∧ ¬ InSeg start stop j' ∧ Res other self start stop j' k' ∧
      a = self.getD (iter (cycNext other self) k' j') 0

theorem pmxFill_total (start stop : Nat) (hss : stop - start ≤ other.length) :
    ∀ (js : List Nat) (D : Nat → Prop) (A : List Nat),
    (∀ j ∈ js, j < other.length ∧ ¬ InSeg start stop j ∧ ¬ D j) → js.Nodup →
    PmxInv other self start stop A D →
    ∃ vs A', pmxFill self other js A = some (vs, A') ∧
      PmxInv other self start stop A' (fun x => x ∈ js ∨ D x) := by
  have hl : self.length = other.length := hp.length_eq
  have hns : self.Nodup := hp.nodup_iff.mpr hno
  intro js
  induction js with
  | nil =>
    intro D A _ _ hinv
    refine ⟨[], A, rfl, hinv.1, ?_⟩
    intro a ha
    rcases hinv.2 a ha with h | ⟨j', k', h1, h2⟩
    · exact Or.inl h
    · exact Or.inr ⟨j', k', Or.inr h1, h2⟩
  | cons j js ih =>
    intro D A hjs hnd hinv
    obtain ⟨hj, hjseg, hjD⟩ := hjs j List.mem_cons_self
    obtain ⟨k, hk, hres⟩ := res_exists hno hp start stop j hj hjseg
    -- values on the walk before the exit are segment values, hence assigned
    have hin : ∀ i, i < k → self.getD (iter π i j) 0 ∈ A := by
      intro i hi
      have hpos := iter_lt hno hp j hj i
      obtain ⟨_, e2, e3⟩ := pmx_idxOf hno hp (iter π i j) hpos
      have hseg := hres.1 i hi
      rw [iter_succ_right] at hseg
      rw [← e3]
      exact hinv.1 _ (seg_mem_of other start stop _ hseg.1 hseg.2 e2)
    -- the value at the exit is new
    have hout : self.getD (iter π k j) 0 ∉ A := by
      intro ha
      have hpos := iter_lt hno hp j hj k
      obtain ⟨_, e2, e3⟩ := pmx_idxOf hno hp (iter π k j) hpos
      rcases hinv.2 _ ha with h | ⟨j', k', hD, hj', hjs', hr', he⟩
      · rw [← e3] at h
        have := seg_mem_inv other hno start stop _ e2 h
        rw [← iter_succ_right (cycNext other self) k j] at this
        exact hres.2 this
      · have hpos' := iter_lt hno hp j' hj' k'
        rw [List.getD_eq_getElem _ _ (by omega : iter π k j < self.length),
          List.getD_eq_getElem _ _ (by omega : iter π k' j' < self.length)] at he
        have hpe := (List.Nodup.getElem_inj_iff hns).mp he
        have := res_inj hno hp start stop j j' k k' hj hj' hjseg hjs' hres hr' hpe
        exact hjD (this ▸ hD)
    have hr := pmxResolve_total hno hp A j k hj hin hout k 0 (self.length + 1) (by omega) (by omega)
    have hget : self[j]? = some (self.getD j 0) := by
      rw [List.getD_eq_getElem _ _ (by omega : j < self.length)]
      exact List.getElem?_eq_getElem _
    have hnd' := List.nodup_cons.mp hnd
    obtain ⟨vs, A', hfill, hinv'⟩ := ih (fun x => x = j ∨ D x) (self.getD (iter π k j) 0 :: A)
      (fun j2 hj2 => by
        obtain ⟨h1, h2, h3⟩ := hjs j2 (List.mem_cons_of_mem _ hj2)
        refine ⟨h1, h2, ?_⟩
        rintro (rfl | h)
        · exact hnd'.1 hj2
        · exact h3 h)
      hnd'.2
      ⟨fun s hs => List.mem_cons_of_mem _ (hinv.1 s hs), by
        intro a ha
        rcases List.mem_cons.mp ha with rfl | ha
        · exact Or.inr ⟨j, k, Or.inl rfl, hj, hjseg, hres, rfl⟩
        · rcases hinv.2 a ha with h | ⟨j', k', h1, h2⟩
          · exact Or.inl h
          · exact Or.inr ⟨j', k', Or.inr h1, h2⟩⟩
    refine ⟨self.getD (iter π k j) 0 :: vs, A', ?_, hinv'.1, ?_⟩
    · simp only [pmxFill, hget]
      have h0 : iter π 0 j = j := rfl
      rw [h0] at hr
      rw [hr]
      simp only [hfill]
    · intro a ha
      rcases hinv'.2 a ha with h | ⟨j', k', h1, h2⟩
      · exact Or.inl h
      · refine Or.inr ⟨j', k', ?_, h2⟩
        rcases h1 with h | h | h
        · exact Or.inl (List.mem_cons_of_mem _ h)
        · exact Or.inl (h ▸ List.mem_cons_self)
        · exact Or.inr h

/-- **PMX is total**: for two arrangements of the same distinct items and cut points
`start ≤ stop ≤ size` the re-mapping loops end and the child is built. -/
theorem pmxChild_total (start stop : Nat) (h1 : start ≤ stop) (h2 : stop ≤ self.length) :
    (pmxChild self other start stop).isSome := by
  have hl : self.length = other.length := hp.length_eq
  unfold pmxChild
  obtain ⟨pre, a1, hf1, hinv1⟩ := pmxFill_total hno hp start stop (by omega) (List.range start)
    (fun _ => False) ((other.take stop).drop start)
    (fun j hj => by
      have := List.mem_range.mp hj
      exact ⟨by omega, by unfold InSeg; omega, fun h => h⟩)
    List.nodup_range
    ⟨fun s hs => hs, fun a ha => Or.inl ha⟩
  simp only [hf1]
  obtain ⟨post, a2, hf2, _⟩ := pmxFill_total hno hp start stop (by omega)
    ((List.range self.length).drop stop) (fun x => x ∈ List.range start ∨ False) a1
    (fun j hj => by
      obtain ⟨i, hi, he⟩ := List.mem_iff_getElem.mp hj
      simp only [List.getElem_drop, List.getElem_range] at he
      have hi' : i < self.length - stop := by simpa using hi
      refine ⟨by omega, by unfold InSeg; omega, ?_⟩
      rintro (h | h)
      · have := List.mem_range.mp h; omega
      · exact h)
    (List.nodup_range.sublist (List.drop_sublist _ _))
    hinv1
  simp only [hf2]
  rfl

end

/-- cut points of `cutPoints n` are ordered and inside the arrangement. -/
theorem cutPoints_spec {n : Nat} {s : St} {se : Nat × Nat} {s' : St} (h : cutPoints n s = .ok (se, s')) :
    se.1 ≤ se.2 ∧ se.2 ≤ n := by
  unfold cutPoints at h
  rw [bind_ok] at h
  obtain ⟨ab, s1, h1, h2⟩ := h
  obtain ⟨_, hlt, _, _⟩ := nextSample_spec h1
  match ab, h2, hlt with
  | [a, b], h2, hlt =>
    simp only [] at h2
    rw [pure_ok] at h2
    obtain ⟨rfl, _⟩ := h2
    simp only [allLt, List.all_cons, List.all_nil, Bool.and_true, Bool.and_eq_true, decide_eq_true_eq] at hlt
    refine ⟨by simp only; omega, by simp only; omega⟩
  | [], h2, _ => exact ((fail_ok _ _ _).mp h2).elim
  | [_], h2, _ => exact ((fail_ok _ _ _).mp h2).elim
  | _ :: _ :: _ :: _, h2, _ => exact ((fail_ok _ _ _).mp h2).elim

theorem NoErr_nextSample (n k : Nat) : NoErr .key (nextSample n k) := by
  intro s h
  unfold nextSample at h
  have hb : ∀ (e : Ev) (s1 : St), (match e with
      | .idxs kd m j is =>
        if kd = RK.sample ∧ m = n ∧ j = k ∧ is.length = k ∧ allLt n is = true ∧ nodupNat is = true
        then (Pure.pure is : M (List Nat)) else fail .desync
      | _ => fail .desync) s1 ≠ .error .key := by
    intro e s1
    split
    · split
      · exact NoErr.pure _ _ s1
      · exact NoErr.fail _ _ (by decide) s1
    · exact NoErr.fail _ _ (by decide) s1
  refine NoErr.bind (x := popEv) ?_ (fun e s0 s1 _ => hb e s1) s h
  intro s0 h0
  unfold popEv at h0
  split at h0 <;> cases h0

theorem NoErr_cutPoints (n : Nat) : NoErr .key (cutPoints n) := by
  unfold cutPoints
  refine NoErr.bind (NoErr_nextSample n 2) ?_
  intro ab s s1 _
  split
  · exact NoErr.pure _ _ s1
  · exact NoErr.fail _ _ (by decide) s1

/-- the partially mapped crossover never raises KeyError on two arrangements of the same distinct
items; with well-formed draws it returns two children. -/
theorem permutePMX_total (vx vy : List Nat) (hn : vx.Nodup) (hp : vy.Perm vx) : NoErr .key (permutePMX vx vy) := by
  unfold permutePMX
  refine NoErr.bind (NoErr_cutPoints _) ?_
  intro se s s1 hs
  obtain ⟨h1, h2⟩ := cutPoints_spec hs
  have hny : vy.Nodup := hp.nodup_iff.mpr hn
  have c0 := pmxChild_total hny hp.symm se.1 se.2 h1 h2
  have c1 := pmxChild_total hn hp se.1 se.2 h1 (by rw [hp.length_eq]; exact h2)
  obtain ⟨x0, hx0⟩ := Option.isSome_iff_exists.mp c0
  obtain ⟨x1, hx1⟩ := Option.isSome_iff_exists.mp c1
  rw [hx0, hx1]
  exact NoErr.pure _ _ s1

end Pg.C14
