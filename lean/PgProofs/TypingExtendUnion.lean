/-
  C04: `Union(child).extend(Union(base))` only narrows when both unions are simple (non-frozen leaf
  candidates of pairwise disjoint value types — the complement of the F43 / F125 dispatch condition)
  and every child candidate is in `ExtOk` with the base candidate `_base_candidate` picks for it.
-/
import PgProofs.TypingExtend
import PgProofs.TypingUnion
namespace Pg.Typing

/-! ### A simple union accepts exactly what one of its candidates accepts -/

theorem accepts_union_inv (env : Env) (cands : List Spec) (f : Flags) (hf : f.frozen = false)
    (hs : simpleUnion cands = true) (v : Val) (hp : Val.proper v)
    (h : accepts env (.union cands f) v = true) : ∃ d ∈ cands, accepts env d v = true := by
  simp only [simpleUnion, Bool.and_eq_true] at hs
  obtain ⟨hl, hd⟩ := hs
  obtain ⟨ts, hts, hmem⟩ := vtUnion_leaf cands hl
  simp only [accepts, apply, gate_proper f hf false v hp, hts, bind, Except.bind] at h
  cases htc : typeCheck env (some ts) v with
  | error e => simp [htc, isOk] at h
  | ok w1 =>
    simp only [htc] at h
    have hi1 : instOf env w1 ts = true := by
      unfold typeCheck at htc
      simp only at htc
      split at htc
      · injection htc with htc; subst htc; assumption
      · split at htc
        · rename_i hc
          injection htc with htc; subst htc
          exact (convert_inst env v _ ts hc).1
        · cases htc
    have hi1' := hi1
    unfold instOf at hi1'
    obtain ⟨t, htin, hsub⟩ := List.any_eq_true.mp hi1'
    obtain ⟨d, hdm, htd⟩ := vtUnion_mem_inv cands ts t hl hts htin
    have hdok := (List.all_eq_true.mp hl) d hdm
    simp only [candOk, Bool.and_eq_true, Bool.not_eq_true'] at hdok
    rw [unionStrong_hit env cands hd hl false w1 d hdm t htd hsub] at h
    simp only at h
    refine ⟨d, hdm, ?_⟩
    unfold typeCheck at htc
    simp only at htc
    split at htc
    · injection htc with htc; subst htc; exact h
    · split at htc
      · rename_i v' hc
        injection htc with htc; subst htc
        -- the converted value is a float: the candidate that takes it is the `Float` one
        have hty : v'.ty = .float := by
          unfold convert at hc
          split at hc
          · cases v <;> simp at hc <;> subst hc <;> rfl
          · cases hc
        rw [hty] at hsub
        cases d <;> simp [leafTy] at htd <;> subst htd <;> simp [Ty.sub] at hsub
        rename_i lo hi g
        simp only [accepts]
        rw [← apply_float_conv env lo hi g (by simpa [Spec.flags] using hdok.2) false v v' ts hc]
        exact h
      · cases htc

/-! ### Candidate kinds -/

def leafK : Spec.Kind → Bool
  | .any | .enum | .union | .callable => false
  | _ => true

theorem leafTy_isSome (c : Spec) : (leafTy c).isSome = leafK c.kind := by
  cases c <;> rfl

def numK : Spec.Kind → Bool
  | .bool | .int | .float => true
  | _ => false

def disjK (a b : Spec.Kind) : Bool :=
  leafK a && leafK b && a != b && !(numK a && numK b)

theorem candDisj_kind (c d : Spec) : candDisj c d = disjK c.kind d.kind := by
  cases c <;> cases d <;> first
    | rfl
    | (simp [candDisj, leafTy, tyDisjoint, numericTy, disjK, leafK, numK, Spec.kind]; done)
    | (simp [candDisj, leafTy, tyDisjoint, numericTy, disjK, leafK, numK, Spec.kind]; decide)

theorem pairwiseDisj_congr (xs ys : List Spec) (h : List.Forall₂ (fun a b => a.kind = b.kind) xs ys) :
    pairwiseDisj xs = pairwiseDisj ys := by
  induction h with
  | nil => rfl
  | @cons a b as bs hab hrest ih =>
    simp only [pairwiseDisj, ih]
    congr 1
    clear ih
    induction hrest with
    | nil => rfl
    | @cons a' b' as' bs' hab' _ ih' =>
      simp only [candDisj_kind, hab] at ih'
      simp only [List.all_cons, candDisj_kind, hab, hab', ih']

/-! ### `_base_candidate` in a simple base union -/

theorem baseCand_leaf (env : Env) (sc v : Spec) (hv : candOk v = true) (bc : Spec)
    (h : baseCand env sc v = some bc) : bc = v ∧ sc.kind = v.kind := by
  simp only [candOk, Bool.and_eq_true] at hv
  cases v <;> simp [leafTy] at hv <;>
    simp only [baseCand, Option.ite_none_right_eq_some, Bool.and_eq_true, beq_iff_eq] at h <;>
    exact ⟨(Option.some.inj h.2).symm, h.1.1⟩

theorem baseCandList_mem (env : Env) (sc : Spec) (bcs : List Spec) (hl : bcs.all candOk = true)
    (bc : Spec) (h : baseCandList env sc bcs = some bc) : bc ∈ bcs ∧ sc.kind = bc.kind := by
  induction bcs with
  | nil => simp [baseCandList] at h
  | cons v vs ih =>
    simp only [List.all_cons, Bool.and_eq_true] at hl
    simp only [baseCandList] at h
    cases hb : baseCand env sc v with
    | some x =>
      simp only [hb] at h
      injection h with h; subst h
      obtain ⟨e, hk⟩ := baseCand_leaf env sc v hl.1 x hb
      subst e
      exact ⟨List.mem_cons_self, hk⟩
    | none =>
      simp only [hb] at h
      obtain ⟨h1, h2⟩ := ih hl.2 h
      exact ⟨List.mem_cons_of_mem _ h1, h2⟩

theorem forall2_imp_mem {α β : Type} {R S : α → β → Prop} {xs : List α} {ys : List β}
    (h : List.Forall₂ R xs ys) (hi : ∀ x ∈ xs, ∀ y, R x y → S x y) : List.Forall₂ S xs ys := by
  induction h with
  | nil => exact .nil
  | @cons a b as bs hab _ ih =>
    exact .cons (hi a List.mem_cons_self b hab) (ih (fun x hx => hi x (List.mem_cons_of_mem _ hx)))

theorem forall2_right {α β : Type} {R : α → β → Prop} {xs : List α} {ys : List β}
    (h : List.Forall₂ R xs ys) (y : β) (hy : y ∈ ys) : ∃ x ∈ xs, R x y := by
  induction h with
  | nil => cases hy
  | @cons a b as bs hab _ ih =>
    simp only [List.mem_cons] at hy
    rcases hy with hy | hy
    · subst hy; exact ⟨a, List.mem_cons_self, hab⟩
    · obtain ⟨x, hx, hr⟩ := ih hy
      exact ⟨x, List.mem_cons_of_mem _ hx, hr⟩

/-! ### The exclusions and the theorem -/

/-- The pairs of unions for which `child.extend(base)` is claimed to narrow: neither union frozen
(F44), both simple (F43 / F125: no value is routed to two candidates), and every child candidate in
`ExtOk` with the base candidate it extends. -/
def ExtOkUnion (env : Env) (cands : List Spec) (f : Flags) (bcs : List Spec) (bf : Flags) : Bool :=
  !f.frozen && !bf.frozen && simpleUnion cands && simpleUnion bcs &&
    cands.all (fun sc => match baseCandList env sc bcs with
      | some bc => ExtOk sc bc
      | none => true)

theorem extendPre_union (env : Env) (cands : List Spec) (f : Flags) (bcs : List Spec) (bf : Flags)
    (hbf : bf.frozen = false) :
    extendPre env (.union cands f) (.union bcs bf) =
      if !bf.noneable && f.noneable then .error .type else .ok (.go (.union bcs bf)) := by
  simp [extendPre, Spec.flags, hbf, Spec.kind, Spec.isUnion]

/-- What `extendCands` returns, candidate by candidate. -/
theorem extendCands_spec (env : Env) (bcs : List Spec) (bf : Flags) (cands : List Spec) :
    ∀ cs, extendCands env cands (.union bcs bf) = .ok cs →
      List.Forall₂ (fun sc sc' => ∃ bc, baseCandList env sc bcs = some bc ∧
        extendSelf env sc bc = .ok sc') cands cs := by
  induction cands with
  | nil => intro cs h; simp only [extendCands] at h; injection h with h; subst h; exact .nil
  | cons sc scs ih =>
    intro cs h
    simp only [extendCands, baseCand] at h
    cases hb : baseCandList env sc bcs with
    | none => simp [hb] at h
    | some bc =>
      simp only [hb] at h
      cases he : extendSelf env sc bc with
      | error e => simp [he] at h
      | ok sc' =>
        simp only [he] at h
        cases hr : extendCands env scs (.union bcs bf) with
        | error e => simp [hr] at h
        | ok scs' =>
          simp only [hr] at h
          injection h with h; subst h
          exact .cons ⟨bc, hb, he⟩ (ih scs' hr)

theorem leavesList_leaf (cs : List Spec) (h : cs.all candOk = true) : leavesList cs = cs := by
  induction cs with
  | nil => rfl
  | cons c cs ih =>
    simp only [List.all_cons, Bool.and_eq_true] at h
    have hc := h.1
    simp only [candOk, Bool.and_eq_true] at hc
    have : leaves c = [c] := by cases c <;> simp [leafTy] at hc <;> rfl
    simp [leavesList, this, ih h.2]

theorem anyCompat_of_mem (env : Env) (cands : List Spec) (b c : Spec) (hc : c ∈ cands)
    (h : isCompatible env c b = true) : anyCompat env cands b = true := by
  induction cands with
  | nil => cases hc
  | cons d ds ih =>
    simp only [anyCompat, Bool.or_eq_true]
    simp only [List.mem_cons] at hc
    rcases hc with hc | hc
    · subst hc; exact Or.inl h
    · exact Or.inr (ih hc)

/-- **Extension only narrows for simple unions.** -/
theorem extend_union_ok (env : Env) (ht : SubTrans env) (cands : List Spec) (f : Flags)
    (bcs : List Spec) (bf : Flags) (c' : Spec) (hok : ExtOkUnion env cands f bcs bf = true)
    (h : extend env (.union cands f) (.union bcs bf) = .ok c') :
    (∀ v, accepts env c' v = true → accepts env (.union bcs bf) v = true) ∧
      isCompatible env (.union bcs bf) c' = true := by
  simp only [ExtOkUnion, Bool.and_eq_true, Bool.not_eq_true'] at hok
  obtain ⟨⟨⟨⟨hf, hbf⟩, hsc⟩, hsb⟩, hall⟩ := hok
  have hpre := extendPre_union env cands f bcs bf hbf
  unfold extend at h
  rw [hpre] at h
  by_cases hn : (!bf.noneable && f.noneable) = true
  · simp [hn] at h
  · simp only [hn, Bool.false_eq_true, if_false] at h
    rw [extendSelf, hpre] at h
    simp only [hn, Bool.false_eq_true, if_false] at h
    cases hcs : extendCands env cands (.union bcs bf) with
    | error e => simp [hcs] at h
    | ok cs =>
      simp only [hcs] at h
      injection h with h; subst h
      have hspec := extendCands_spec env bcs bf cands cs hcs
      have hsb' := hsb
      simp only [simpleUnion, Bool.and_eq_true] at hsb' hsc
      obtain ⟨hbl, hbd⟩ := hsb'
      obtain ⟨hcl, hcd⟩ := hsc
      -- per candidate: a base candidate, narrowing, compatibility, same kind, not frozen
      have hper : List.Forall₂ (fun sc sc' => ∃ bc, bc ∈ bcs ∧
          (∀ v, accepts env sc' v = true → accepts env bc v = true) ∧
          isCompatible env bc sc' = true ∧ sc.kind = sc'.kind ∧ sc'.flags.frozen = false ∧
          candOk sc' = true) cands cs := by
        have hall' : ∀ sc ∈ cands, ∀ bc, baseCandList env sc bcs = some bc → ExtOk sc bc = true := by
          intro sc hsc bc hb
          have := (List.all_eq_true.mp hall) sc hsc
          simpa [hb] using this
        refine forall2_imp_mem hspec ?_
        intro sc hscm sc' hhd
        obtain ⟨bc, hb, he⟩ := hhd
        obtain ⟨hbm, hk⟩ := baseCandList_mem env sc bcs hbl bc hb
        have hext := hall' sc hscm bc hb
        obtain ⟨h1, h2⟩ := extend_ok env sc bc sc' hext he
        have hbok := (List.all_eq_true.mp hbl) bc hbm
        have hbok' := hbok
        simp only [candOk, Bool.and_eq_true, Option.isSome_iff_exists, Bool.not_eq_true'] at hbok'
        obtain ⟨⟨t, htb⟩, _⟩ := hbok'
        have hk2 := isCompatible_leaf_kind env bc sc' t htb h1
        have hfr := (CompatOk_flags bc sc' h2).2
        refine ⟨bc, hbm, fun v hv => compat_sound env ht bc sc' h2 h1 v hv, h1, hk.trans hk2, hfr, ?_⟩
        simp only [candOk, Bool.and_eq_true, Bool.not_eq_true', leafTy_isSome]
        refine ⟨?_, hfr⟩
        rw [← hk2]
        have := hbok
        simp only [candOk, Bool.and_eq_true, leafTy_isSome] at this
        exact this.1
      -- the extended union is simple again
      have hcs_ok : cs.all candOk = true := by
        rw [List.all_eq_true]
        intro x hx
        obtain ⟨_, _, hr⟩ := forall2_right hper x hx
        exact hr.choose_spec.2.2.2.2.2
      have hkinds : List.Forall₂ (fun a b => a.kind = b.kind) cands cs :=
        hper.imp (fun _ _ hx => hx.choose_spec.2.2.2.1)
      have hsimple : simpleUnion cs = true := by
        simp only [simpleUnion, Bool.and_eq_true]
        exact ⟨hcs_ok, by rw [← pairwiseDisj_congr cands cs hkinds]; exact hcd⟩
      have hmem : ∀ x ∈ cs, ∃ bc, bc ∈ bcs ∧
          (∀ v, accepts env x v = true → accepts env bc v = true) ∧ isCompatible env bc x = true := by
        intro x hx
        obtain ⟨_, _, bc, h1, h2, h3, _⟩ := forall2_right hper x hx
        exact ⟨bc, h1, h2, h3⟩
      have hnb : (!(!bf.noneable && f.noneable)) = true := by
        cases hb1 : bf.noneable <;> cases hb2 : f.noneable <;> simp_all
      refine ⟨?_, ?_⟩
      · intro v hv
        by_cases hm : v = .missing
        · subst hm
          rw [accepts_missing env (.union cs f) (by simpa [Spec.flags] using hf)] at hv; cases hv
        by_cases hnone : v = .none
        · subst hnone
          rw [accepts_none env _ (by simpa [Spec.flags] using hf)] at hv
          rw [accepts_none env _ (by simpa [Spec.flags] using hbf)]
          simp only [Spec.flags] at hv ⊢
          exact noneable_mono hnb hv
        have hp := proper_of_ne v hm hnone
        obtain ⟨d, hdm, hdv⟩ := accepts_union_inv env cs f hf hsimple v hp hv
        obtain ⟨bc, hbm, hsub, _⟩ := hmem d hdm
        exact accepts_union_of_cand env bcs bf hbf hsb v hp bc hbm (hsub v hdv)
      · simp only [isCompatible, Spec.flags, Bool.and_eq_true]
        refine ⟨hnb, ?_⟩
        simp only [leaves, leavesList_leaf cs hcs_ok]
        rw [List.all_eq_true]
        intro x hx
        obtain ⟨bc, hbm, _, hc⟩ := hmem x hx
        exact anyCompat_of_mem env bcs x bc hbm hc

end Pg.Typing
