/-
  C13 — soundness of the decidable sufficient condition `headDistinct` for `DistT`.
-/
import Mathlib.Tactic.Linarith
import PgProofs.Hyper
namespace Pg.C13

theorem two_pow_pos (e : Nat) : (0 : Int) < ((2 ^ e : Nat) : Int) := by
  have : 0 < 2 ^ e := Nat.two_pow_pos e
  exact_mod_cast this

theorem Num.le_trans (a b c : Num) (h1 : Num.le a b = true) (h2 : Num.le b c = true) : Num.le a c = true := by
  simp only [Num.le, decide_eq_true_eq] at *
  have hp := two_pow_pos a.e
  have hq := two_pow_pos b.e
  have hr := two_pow_pos c.e
  have h3 := Int.mul_le_mul_of_nonneg_right h1 (Int.le_of_lt hr)
  have h4 := Int.mul_le_mul_of_nonneg_right h2 (Int.le_of_lt hp)
  have h5 : (a.m * ((2 ^ c.e : Nat) : Int)) * ((2 ^ b.e : Nat) : Int) ≤ (c.m * ((2 ^ a.e : Nat) : Int)) * ((2 ^ b.e : Nat) : Int) := by
    nlinarith
  exact Int.le_of_mul_le_mul_right h5 hq

/-- A head describes the outermost constructor of a value. -/
def Covers : Head → Tmpl → Prop
  | .atom a, v => v = .const a
  | .node l n, v => ∃ vs, v = .node l vs ∧ vs.length = n
  | .float lo hi, v => ∃ x, v = .const (.flt x) ∧ Num.le lo x = true ∧ Num.le x hi = true
  | .inactive tag, v => (∃ one k cs d s, v = .choice tag one k cs d s) ∨ (∃ lo hi, v = .floatv tag lo hi) ∨
      (∃ cid, v = .custom tag cid)
  | .any, _ => True

section
variable (W : Cfg)

theorem shapeL_length (ts vs : List Tmpl) (h : shapeL W ts vs = true) : vs.length = ts.length := by
  induction ts generalizing vs with
  | nil => cases vs <;> simp [shapeL] at h ⊢
  | cons t ts ih =>
    cases vs with
    | nil => simp [shapeL] at h
    | cons v vs =>
      simp only [shapeL, Bool.and_eq_true] at h
      simp [ih vs h.2]

theorem egoL_length (ts vs : List Tmpl) (ds : List DNA) (h : egoL W ts vs = .ok ds) : vs.length = ts.length := by
  induction ts generalizing vs ds with
  | nil => cases vs <;> simp [egoL] at h ⊢
  | cons t ts ih =>
    cases vs with
    | nil => simp [egoL] at h
    | cons v vs =>
      simp only [egoL] at h
      split at h
      · cases h
      · split at h
        · cases h
        · rename_i b hb
          simp [ih vs b hb]

theorem headsL_mem (cands : List Tmpl) (c : Tmpl) (h : Head) (hc : c ∈ cands) (hh : h ∈ heads W c) :
    h ∈ headsL W cands := by
  induction cands with
  | nil => cases hc
  | cons c0 rest ih =>
    simp only [headsL, List.mem_append]
    rcases List.mem_cons.mp hc with rfl | h'
    · exact Or.inl hh
    · exact Or.inr (ih h')

theorem anyShape_mem (cands : List Tmpl) (v : Tmpl) (h : anyShape W cands v = true) :
    ∃ c ∈ cands, shapeT W c v = true := by
  induction cands with
  | nil => simp [anyShape] at h
  | cons c0 rest ih =>
    simp only [anyShape, Bool.or_eq_true] at h
    rcases h with h | h
    · exact ⟨c0, List.mem_cons_self .., h⟩
    · obtain ⟨c, hc, hs⟩ := ih h
      exact ⟨c, List.mem_cons_of_mem _ hc, hs⟩

/-- Claim A: a value of the shape of `c` is covered by one of the heads of `c`. -/
theorem heads_cover (c : Tmpl) : ∀ v, shapeT W c v = true → ∃ h ∈ heads W c, Covers h v := by
  induction c using Tmpl.ind_t with
  | hconst a =>
    intro v h
    cases v <;> simp [shapeT] at h
    subst h
    exact ⟨.atom a, by simp [heads], rfl⟩
  | hnode l kids _ =>
    intro v h
    cases v <;> simp [shapeT] at h
    rename_i l' vs
    obtain ⟨rfl, hs⟩ := h
    exact ⟨.node l kids.length, by simp [heads], vs, rfl, shapeL_length W kids vs hs⟩
  | hchoice tag one k cands dst so ih =>
    intro v h
    by_cases hW : W tag = true
    · simp only [shapeT, hW, if_true] at h
      cases one with
      | true =>
        simp only [if_true] at h
        obtain ⟨c, hc, hs⟩ := anyShape_mem W cands v h
        obtain ⟨hd, hhd, hcov⟩ := ih c hc v hs
        exact ⟨hd, by simp only [heads, hW, if_true]; exact headsL_mem W cands c hd hc hhd, hcov⟩
      | false =>
        simp only [Bool.false_eq_true, if_false] at h
        split at h
        · rename_i vs
          simp only [Bool.and_eq_true, decide_eq_true_eq] at h
          exact ⟨.node .list k, by simp [heads, hW], vs, rfl, h.1⟩
        · cases h
    · simp only [shapeT, hW, Bool.false_eq_true, if_false] at h
      split at h
      · rename_i tag' one' k' vs d' s'
        simp only [Bool.and_eq_true, decide_eq_true_eq] at h
        obtain ⟨⟨rfl, _⟩, _⟩ := h
        exact ⟨.inactive tag, by simp [heads, hW], Or.inl ⟨_, _, _, _, _, rfl⟩⟩
      · cases h
  | hfloat tag lo hi =>
    intro v h
    by_cases hW : W tag = true
    · simp only [shapeT, hW, if_true] at h
      split at h
      · rename_i x
        simp only [Bool.and_eq_true] at h
        exact ⟨.float lo hi, by simp [heads, hW], x, rfl, h.1, h.2⟩
      · cases h
    · simp only [shapeT, hW, Bool.false_eq_true, if_false] at h
      split at h
      · simp only [decide_eq_true_eq] at h
        obtain ⟨rfl, rfl, rfl⟩ := h
        exact ⟨.inactive tag, by simp [heads, hW], Or.inr (Or.inl ⟨_, _, rfl⟩)⟩
      · cases h
  | hcustom tag cid =>
    intro v h
    by_cases hW : W tag = true
    · exact ⟨.any, by simp [heads, hW], trivial⟩
    · simp only [shapeT, hW, Bool.false_eq_true, if_false] at h
      split at h
      · simp only [decide_eq_true_eq] at h
        obtain ⟨rfl, rfl⟩ := h
        exact ⟨.inactive tag, by simp [heads, hW], Or.inr (Or.inr ⟨_, rfl⟩)⟩
      · cases h

theorem matchHeadL_of_mem (cands : List Tmpl) (c : Tmpl) (h : Head) (hc : c ∈ cands)
    (hm : matchHead W c h = true) : matchHeadL W cands h = true := by
  induction cands with
  | nil => cases hc
  | cons c0 rest ih =>
    simp only [matchHeadL, Bool.or_eq_true]
    rcases List.mem_cons.mp hc with rfl | h'
    · exact Or.inl hm
    · exact Or.inr (ih h')

theorem firstMatch_mem (cands : List Tmpl) (v : Tmpl) (n i : Nat) (child : DNA)
    (h : firstMatch (cands.map (encode W)) v n = some (i, child)) :
    ∃ c ∈ cands, encode W c v = .ok child := by
  induction cands generalizing n with
  | nil => simp [firstMatch] at h
  | cons c0 rest ih =>
    simp only [List.map_cons, firstMatch] at h
    split at h
    · rename_i d hd
      simp only [Option.some.injEq, Prod.mk.injEq] at h
      exact ⟨c0, List.mem_cons_self .., by rw [hd, h.2]⟩
    · obtain ⟨c, hc, he⟩ := ih (n + 1) h
      exact ⟨c, List.mem_cons_of_mem _ hc, he⟩

theorem encode_ok_ego (c v : Tmpl) (d : DNA) (h : encode W c v = .ok d) : ∃ ds, egoT W c v = .ok ds := by
  simp only [encode] at h
  split at h
  · cases h
  · rename_i ds hds
    exact ⟨ds, hds⟩

theorem egoT_const_inv (b : Atom) (v : Tmpl) (ds : List DNA) (h : egoT W (.const b) v = .ok ds) :
    ∃ c, v = .const c ∧ Atom.pyEq b c = true := by
  cases v with
  | const c =>
    simp only [egoT] at h
    split at h
    · rename_i hp; exact ⟨c, rfl, hp⟩
    · cases h
  | node l vs => simp [egoT] at h
  | choice tag one k cs d s => simp [egoT] at h
  | floatv tag lo hi => simp [egoT] at h
  | custom tag cid => simp [egoT] at h

theorem egoT_node_inv (l : Label) (kids : List Tmpl) (v : Tmpl) (ds : List DNA) (h : egoT W (.node l kids) v = .ok ds) :
    ∃ vs, v = .node l vs ∧ egoL W kids vs = .ok ds := by
  cases v with
  | node l' vs =>
    simp only [egoT] at h
    split at h
    · rename_i hp; subst hp; exact ⟨vs, rfl, h⟩
    · cases h
  | const c => simp [egoT] at h
  | choice tag one k cs d s => simp [egoT] at h
  | floatv tag lo hi => simp [egoT] at h
  | custom tag cid => simp [egoT] at h

/-- Claim B: a template that encodes a value matches every head covering that value. -/
theorem ego_matchHead (a : Tmpl) : ∀ v ds h, egoT W a v = .ok ds → Covers h v → matchHead W a h = true := by
  induction a using Tmpl.ind_t with
  | hconst b =>
    intro v ds h hego hcov
    obtain ⟨c, rfl, hpe⟩ := egoT_const_inv W b v ds hego
    cases h with
    | atom a' =>
      simp only [Covers, Tmpl.const.injEq] at hcov
      subst hcov
      simpa [matchHead] using hpe
    | float lo hi =>
      obtain ⟨x, hx, hlo, hhi⟩ := hcov
      simp only [Tmpl.const.injEq] at hx
      subst hx
      cases b with
      | none => simp [Atom.pyEq] at hpe
      | str s' => simp [Atom.pyEq] at hpe
      | int n =>
        simp only [Atom.pyEq, Bool.and_eq_true] at hpe
        simp only [matchHead, Atom.num?, Bool.and_eq_true]
        exact ⟨Num.le_trans _ _ _ hlo hpe.2, Num.le_trans _ _ _ hpe.1 hhi⟩
      | flt y =>
        simp only [Atom.pyEq, Bool.and_eq_true] at hpe
        simp only [matchHead, Atom.num?, Bool.and_eq_true]
        exact ⟨Num.le_trans _ _ _ hlo hpe.2, Num.le_trans _ _ _ hpe.1 hhi⟩
    | node l n => obtain ⟨vs, hv, _⟩ := hcov; cases hv
    | inactive tag => rcases hcov with ⟨_, _, _, _, _, hv⟩ | ⟨_, _, hv⟩ | ⟨_, hv⟩ <;> cases hv
    | any => simp [matchHead]
  | hnode l kids _ =>
    intro v ds h hego hcov
    obtain ⟨vs, rfl, hL⟩ := egoT_node_inv W l kids v ds hego
    have hlen := egoL_length W kids vs ds hL
    cases h with
    | atom a' => simp [Covers] at hcov
    | float lo hi => obtain ⟨x, hx, _⟩ := hcov; cases hx
    | node l'' n =>
      obtain ⟨vs', hv, hn⟩ := hcov
      simp only [Tmpl.node.injEq] at hv
      obtain ⟨rfl, rfl⟩ := hv
      simp [matchHead, ← hlen, hn]
    | inactive tag => rcases hcov with ⟨_, _, _, _, _, hv⟩ | ⟨_, _, hv⟩ | ⟨_, hv⟩ <;> cases hv
    | any => simp [matchHead]
  | hchoice tag one k cands dst so ih =>
    intro v ds h hego hcov
    by_cases hW : W tag = true
    · simp only [egoT, hW, if_true] at hego
      split at hego
      · cases hego
      · rename_i d hd
        simp only [encodeChoice] at hd
        cases one with
        | true =>
          simp only [if_true] at hd
          split at hd
          · cases hd
          · split at hd
            · cases hd
            · rename_i items hitems
              simp only [encodeItems] at hitems
              split at hitems
              · cases hitems
              · rename_i i child hfm
                rw [encFns_eq] at hfm
                obtain ⟨c, hc, henc⟩ := firstMatch_mem W cands v 0 i child hfm
                obtain ⟨ds', hds'⟩ := encode_ok_ego W c v child henc
                have := ih c hc v ds' h hds' hcov
                simp only [matchHead, hW, if_true]
                exact matchHeadL_of_mem W cands c h hc this
        | false =>
          simp only [Bool.false_eq_true, if_false] at hd
          split at hd
          · cases hd
          · rename_i items hitems
            split at hitems
            · rename_i vs
              simp only [Option.some.injEq] at hitems
              subst hitems
              split at hd
              · cases hd
              · rename_i hlen
                have hlen' : vs.length = k := by simpa using hlen
                cases h with
                | atom a' => simp [Covers] at hcov
                | float lo hi => obtain ⟨x, hx, _⟩ := hcov; cases hx
                | node l'' n =>
                  obtain ⟨vs', hv, hn⟩ := hcov
                  simp only [Tmpl.node.injEq] at hv
                  obtain ⟨rfl, rfl⟩ := hv
                  simp [matchHead, hW, ← hn, hlen']
                | inactive tag' => rcases hcov with ⟨_, _, _, _, _, hv⟩ | ⟨_, _, hv⟩ | ⟨_, hv⟩ <;> cases hv
                | any => simp [matchHead, hW]
            · cases hitems
    · simp only [egoT, hW, Bool.false_eq_true, if_false] at hego
      split at hego
      · rename_i tag' one' k' vs d' s'
        split at hego
        · rename_i heq
          obtain ⟨rfl, _⟩ := heq
          cases h with
          | atom a' => simp [Covers] at hcov
          | float lo hi => obtain ⟨x, hx, _⟩ := hcov; cases hx
          | node l'' n => obtain ⟨vs', hv, _⟩ := hcov; cases hv
          | inactive tag'' =>
            rcases hcov with ⟨_, _, _, _, _, hv⟩ | ⟨_, _, hv⟩ | ⟨_, hv⟩
            · simp only [Tmpl.choice.injEq] at hv
              obtain ⟨rfl, _⟩ := hv
              simp [matchHead, hW]
            · cases hv
            · cases hv
          | any => simp [matchHead, hW]
        · cases hego
      · cases hego
  | hfloat tag lo hi =>
    intro v ds h hego hcov
    by_cases hW : W tag = true
    · simp only [egoT, hW, if_true] at hego
      split at hego
      · rename_i x
        split at hego
        · rename_i hr
          simp only [Bool.and_eq_true] at hr
          cases h with
          | atom a' =>
            simp only [Covers, Tmpl.const.injEq] at hcov
            subst hcov
            simp [matchHead, hW, hr]
          | float lo' hi' =>
            obtain ⟨x', hx, hlo, hhi⟩ := hcov
            simp only [Tmpl.const.injEq, Atom.flt.injEq] at hx
            subst hx
            simp only [matchHead, hW, if_true, Bool.and_eq_true]
            exact ⟨Num.le_trans _ _ _ hr.1 hhi, Num.le_trans _ _ _ hlo hr.2⟩
          | node l'' n => obtain ⟨vs', hv, _⟩ := hcov; cases hv
          | inactive tag' => rcases hcov with ⟨_, _, _, _, _, hv⟩ | ⟨_, _, hv⟩ | ⟨_, hv⟩ <;> cases hv
          | any => simp [matchHead, hW]
        · cases hego
      · cases hego
    · simp only [egoT, hW, Bool.false_eq_true, if_false] at hego
      split at hego
      · rename_i tag' lo' hi'
        split at hego
        · rename_i heq
          obtain ⟨rfl, _, _⟩ := heq
          cases h with
          | atom a' => simp [Covers] at hcov
          | float lo'' hi'' => obtain ⟨x, hx, _⟩ := hcov; cases hx
          | node l'' n => obtain ⟨vs', hv, _⟩ := hcov; cases hv
          | inactive tag'' =>
            rcases hcov with ⟨_, _, _, _, _, hv⟩ | ⟨_, _, hv⟩ | ⟨_, hv⟩
            · cases hv
            · simp only [Tmpl.floatv.injEq] at hv
              obtain ⟨rfl, _⟩ := hv
              simp [matchHead, hW]
            · cases hv
          | any => simp [matchHead, hW]
        · cases hego
      · cases hego
  | hcustom tag cid =>
    intro v ds h hego hcov
    by_cases hW : W tag = true
    · simp [matchHead, hW]
    · simp only [egoT, hW, Bool.false_eq_true, if_false] at hego
      split at hego
      · rename_i tag' cid'
        split at hego
        · rename_i heq
          obtain ⟨rfl, rfl⟩ := heq
          cases h with
          | atom a' => simp [Covers] at hcov
          | float lo'' hi'' => obtain ⟨x, hx, _⟩ := hcov; cases hx
          | node l'' n => obtain ⟨vs', hv, _⟩ := hcov; cases hv
          | inactive tag'' =>
            rcases hcov with ⟨_, _, _, _, _, hv⟩ | ⟨_, _, hv⟩ | ⟨_, hv⟩
            · cases hv
            · cases hv
            · simp only [Tmpl.custom.injEq] at hv
              obtain ⟨rfl, _⟩ := hv
              simp [matchHead, hW]
          | any => simp [matchHead, hW]
        · cases hego
      · cases hego

theorem matchFns_eq (cs : List Tmpl) : matchFns W cs = cs.map (fun c h => matchHead W c h) := by
  induction cs with
  | nil => simp [matchFns]
  | cons c cs ih => simp [matchFns, ih]

theorem headLists_eq (cs : List Tmpl) : headLists W cs = cs.map (heads W) := by
  induction cs with
  | nil => simp [headLists]
  | cons c cs ih => simp [headLists, ih]

theorem candsApart_spec (cands : List Tmpl)
    (h : candsApart (cands.map (fun c h => matchHead W c h)) (cands.map (heads W)) = true) :
    ∀ (i j : Nat) ci cj, j < i → cands[i]? = some ci → cands[j]? = some cj →
      ∀ hd ∈ heads W ci, matchHead W cj hd = false := by
  induction cands with
  | nil => intro i j ci cj _ hi; simp at hi
  | cons c0 rest ih =>
    simp only [List.map_cons, candsApart, Bool.and_eq_true, List.all_eq_true] at h
    intro i j ci cj hji hi hj hd hhd
    cases i with
    | zero => omega
    | succ i' =>
      simp only [List.getElem?_cons_succ] at hi
      cases j with
      | zero =>
        simp only [List.getElem?_cons_zero, Option.some.injEq] at hj
        subst hj
        have hmem : heads W ci ∈ rest.map (heads W) := List.mem_map.mpr ⟨ci, List.mem_of_getElem? hi, rfl⟩
        have := h.1 _ hmem hd hhd
        simpa using this
      | succ j' =>
        simp only [List.getElem?_cons_succ] at hj
        exact ih h.2 i' j' ci cj (by omega) hi hj hd hhd

theorem headDistinctL_iff (ts : List Tmpl) : headDistinctL W ts = true ↔ ∀ t ∈ ts, headDistinct W t = true := by
  induction ts with
  | nil => simp [headDistinctL]
  | cons c cs ih => simp [headDistinctL, ih]

/-- The decidable head-level check implies the semantic distinguishability. -/
theorem headDistinct_sound (hP : HooksPlain W) (t : Tmpl) : wfT t = true → headDistinct W t = true → DistT W t := by
  induction t using Tmpl.ind_t with
  | hconst a => intro _ _; simp [DistT]
  | hfloat tag lo hi => intro _ _; simp [DistT]
  | hcustom tag cid => intro _ _; simp [DistT]
  | hnode l kids ih =>
    intro hwf hhd
    simp only [wfT] at hwf
    simp only [headDistinct] at hhd
    simp only [DistT]
    exact (DistL_iff W kids).mpr (fun k hk => ih k hk ((wfL_iff kids).mp hwf k hk)
      ((headDistinctL_iff W kids).mp hhd k hk))
  | hchoice tag one k cands dst so ih =>
    intro hwf hhd
    simp only [wfT, Bool.and_eq_true] at hwf
    simp only [headDistinct, Bool.and_eq_true] at hhd
    simp only [DistT]
    refine ⟨(DistL_iff W cands).mpr (fun c hc => ih c hc ((wfL_iff cands).mp hwf.2 c hc)
      ((headDistinctL_iff W cands).mp hhd.1 c hc)), ?_⟩
    intro hW i j ci cj hji hi hj d v hdec d' henc
    have hap := hhd.2
    simp only [hW, Bool.not_true, Bool.false_or, matchFns_eq, headLists_eq] at hap
    have hwfci := (wfL_iff cands).mp hwf.2 ci (List.mem_of_getElem? hi)
    obtain ⟨hd, hhd', hcov⟩ := heads_cover W ci v (DsD_all W hP ci hwfci d v hdec).2
    obtain ⟨ds', hds'⟩ := encode_ok_ego W cj v d' henc
    have h1 := ego_matchHead W cj v ds' hd hds' hcov
    have h2 := candsApart_spec W cands hap i j ci cj hji hi hj hd hhd'
    rw [h1] at h2
    cases h2

end

end Pg.C13
