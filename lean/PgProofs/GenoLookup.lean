/-
  C12: the cache discipline of the look-up structures.  Every way a DNA object comes into being or
  changes (`__init__`, `_on_bound` after any rebind, `_sym_clone`, the lazy look-ups themselves)
  keeps "a filled cache holds the tables of the current tree"; hence every look-up equals the
  look-up on a DNA rebuilt from the raw numbers.
-/
import PgModel.Geno.Lookup
import PgProofs.GenoNumbers
namespace Pg.Geno
open DNA

theorem Obj.init_coherent (g : Spec) (d : DNA) : (Obj.init g d).Coherent :=
  ⟨fun c h => by simp [Obj.init] at h, fun c h => by simp [Obj.init] at h⟩

theorem Obj.onBound_coherent (o : Obj) (d : DNA) : (o.onBound d).Coherent :=
  ⟨fun c h => by simp [Obj.onBound] at h, fun c h => by simp [Obj.onBound] at h⟩

theorem Obj.clone_coherent (o : Obj) : o.clone.Coherent := Obj.onBound_coherent _ _

theorem Obj.readById_spec (o : Obj) (h : o.Coherent) :
    o.readById.1 = (tablesOf o.spec o.tree).map (·.byId) ∧ o.readById.2.Coherent ∧
    o.readById.2.spec = o.spec ∧ o.readById.2.tree = o.tree := by
  unfold Obj.readById
  cases hc : o.byIdCache with
  | some c => exact ⟨h.1 c hc, h, rfl, rfl⟩
  | none =>
    refine ⟨rfl, ⟨?_, ?_⟩, rfl, rfl⟩
    · intro c hc'; simp only [Option.some.injEq] at hc'; exact hc'.symm
    · exact h.2

theorem Obj.readNamed_spec (o : Obj) (h : o.Coherent) :
    o.readNamed.1 = (tablesOf o.spec o.tree).map (·.named) ∧ o.readNamed.2.Coherent ∧
    o.readNamed.2.spec = o.spec ∧ o.readNamed.2.tree = o.tree := by
  unfold Obj.readNamed
  cases hc : o.namedCache with
  | some c => exact ⟨h.2 c hc, h, rfl, rfl⟩
  | none =>
    refine ⟨rfl, ⟨h.1, ?_⟩, rfl, rfl⟩
    intro c hc'; simp only [Option.some.injEq] at hc'; exact hc'.symm

/-- The objects that `__init__`, rebinding (`_on_bound`), cloning and looking up can produce. -/
inductive Produced : Obj → Prop
  | init (g : Spec) (d : DNA) : Produced (Obj.init g d)
  | bound (o : Obj) (d : DNA) : Produced o → Produced (o.onBound d)
  | clone (o : Obj) : Produced o → Produced o.clone
  | readById (o : Obj) : Produced o → Produced o.readById.2
  | readNamed (o : Obj) : Produced o → Produced o.readNamed.2

theorem produced_coherent {o : Obj} (h : Produced o) : o.Coherent := by
  induction h with
  | init g d => exact Obj.init_coherent g d
  | bound o d _ _ => exact Obj.onBound_coherent o d
  | clone o _ _ => exact Obj.clone_coherent o
  | readById o _ ih => exact (Obj.readById_spec o ih).2.1
  | readNamed o _ ih => exact (Obj.readNamed_spec o ih).2.1

/-- Look-ups on a produced object are the look-ups on the DNA rebuilt from its raw numbers. -/
theorem lookups_eq_rebuilt {o : Obj} (h : Produced o) (hc : o.spec.noCustom = true)
    (hv : o.spec.valid o.tree = true) :
    ∃ d', o.spec.fromNumbers (flat o.tree) = some d' ∧
      o.readById.1 = (Obj.init o.spec d').readById.1 ∧
      o.readNamed.1 = (Obj.init o.spec d').readNamed.1 := by
  have hf := fromNumbers_flat o.spec hc o.tree hv
  refine ⟨o.tree, hf, ?_, ?_⟩
  · rw [(Obj.readById_spec o (produced_coherent h)).1,
      (Obj.readById_spec _ (Obj.init_coherent o.spec o.tree)).1]
    rfl
  · rw [(Obj.readNamed_spec o (produced_coherent h)).1,
      (Obj.readNamed_spec _ (Obj.init_coherent o.spec o.tree)).1]
    rfl

end Pg.Geno
