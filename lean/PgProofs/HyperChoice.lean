/-
  C13 — the first-match rule of `Choices.encode` and the constraint checks of `Choices._decode`.
-/
import PgProofs.Hyper
namespace Pg.C13

section
variable (W : Cfg)

/-- `firstMatch` returns the least index whose candidate encodes the value. -/
theorem firstMatch_least (cands : List Tmpl) (x : Tmpl) (n i : Nat) (child : DNA)
    (h : firstMatch (cands.map (encode W)) x n = some (i, child)) :
    ∃ c, n ≤ i ∧ cands[i - n]? = some c ∧ encode W c x = .ok child ∧
      ∀ j cj, j < i - n → cands[j]? = some cj → ∀ d', encode W cj x ≠ .ok d' := by
  induction cands generalizing n with
  | nil => simp [firstMatch] at h
  | cons c0 rest ih =>
    simp only [List.map_cons, firstMatch] at h
    split at h
    · rename_i d hd
      simp only [Option.some.injEq, Prod.mk.injEq] at h
      obtain ⟨rfl, rfl⟩ := h
      exact ⟨c0, Nat.le_refl _, by simp, hd, fun j cj hj => by omega⟩
    · rename_i e he
      obtain ⟨c, hle, hc, henc, hmin⟩ := ih (n + 1) h
      have hi : i - n = (i - (n + 1)) + 1 := by omega
      refine ⟨c, by omega, by rw [hi, List.getElem?_cons_succ]; exact hc, henc, ?_⟩
      intro j cj hj hcj d' hd'
      cases j with
      | zero =>
        simp only [List.getElem?_cons_zero, Option.some.injEq] at hcj
        subst hcj
        rw [he] at hd'; cases hd'
      | succ j' =>
        simp only [List.getElem?_cons_succ] at hcj
        exact hmin j' cj (by omega) hcj d' hd'

/-- **First-match rule.** When a selected `oneof` encodes a value, the DNA carries the *least*
index whose candidate template can encode the value (a value matching several candidates is
attributed to the first of them), with that candidate's encoding as children. -/
theorem oneof_encode_first_match (tag k : Nat) (cands : List Tmpl) (dst so : Bool) (v : Tmpl) (d : DNA)
    (hW : W tag = true) (h : encode W (.choice tag true k cands dst so) v = .ok d) :
    ∃ i c child, cands[i]? = some c ∧ encode W c v = .ok child ∧
      (∀ j cj, j < i → cands[j]? = some cj → ∀ d', encode W cj v ≠ .ok d') ∧
      d = DNA.norm none [DNA.norm none [DNA.norm (some (.idx i)) [child]]] := by
  simp only [encode, egoT, hW, if_true, encodeChoice] at h
  split at h
  · cases h
  · rename_i ds hds
    split at hds
    · cases hds
    · rename_i d1 hd1
      cases hds
      cases h
      split at hd1
      · cases hd1
      · split at hd1
        · cases hd1
        · rename_i sds hsds
          cases hd1
          simp only [encodeItems] at hsds
          split at hsds
          · cases hsds
          · rename_i i child hfm
            cases hsds
            rw [encFns_eq] at hfm
            obtain ⟨c, _, hc, henc, hmin⟩ := firstMatch_least W cands v 0 i child hfm
            simp only [Nat.sub_zero] at hc hmin
            exact ⟨i, c, child, hc, henc, hmin, rfl⟩

/-- **Constraint checks of a multi-choice.** If a selected `manyof(k ≠ 1)` decodes a DNA, the DNA
has exactly `k` sub-choices, all of them integer indices within range, and the index sequence
satisfies the `distinct` / `sorted` constraints — DNAs outside the constrained space are rejected. -/
theorem manyof_decode_constrained (tag k : Nat) (one : Bool) (cands : List Tmpl) (dst so : Bool)
    (d : DNA) (v : Tmpl) (hW : W tag = true) (hk : k ≠ 1)
    (h : decode W (.choice tag one k cands dst so) d = .ok v) :
    d.children.length = k ∧ ∃ is, allIdx d.children = some is ∧ constraintOk dst so is = true := by
  simp only [decode, specT, hW, if_true, List.length_singleton, splitDna] at h
  simp only [Nat.succ_ne_zero, if_false, if_true, goT, hW, decodeChoice, hk] at h
  split at h
  · cases h
  · rename_i v' r hgo
    split at hgo
    · cases hgo
    · rename_i v1 hv1
      split at hv1
      · cases hv1
      · rename_i hlen
        split at hv1
        · cases hv1
        · rename_i is hai
          split at hv1
          · cases hv1
          · rename_i hc
            exact ⟨by simpa using hlen, is, hai, by simpa using hc⟩

theorem allIdx_lt (cands : List Tmpl) (fns : List (DNA → Except Err Tmpl)) (hf : fns.length = cands.length)
    (sds : List DNA) (vs : List Tmpl) (h : decodeSubs fns sds = .ok vs) :
    ∀ is, allIdx sds = some is → ∀ i ∈ is, i < cands.length := by
  induction sds generalizing vs with
  | nil => intro is h0; simp [allIdx] at h0; subst h0; intro i hi; cases hi
  | cons sd sds ih =>
    intro is h0
    simp only [decodeSubs] at h
    split at h
    · cases h
    · rename_i v hv
      split at h
      · cases h
      · rename_i vs' hvs
        simp only [allIdx] at h0
        split at h0
        · rename_i i0 is0 hi0 his0
          simp only [Option.some.injEq] at h0
          subst h0
          intro i hi
          rcases List.mem_cons.mp hi with rfl | hi'
          · match sd, hi0, hv with
            | .mk (some (.idx j)) cs, hi0, hv =>
              simp only [idxOf, Option.some.injEq] at hi0
              subst hi0
              simp only [decodeSub] at hv
              split at hv
              · cases hv
              · rename_i f hf'
                have := (List.getElem?_eq_some_iff.mp hf').1
                omega
            | .mk none cs, hi0, _ => simp [idxOf] at hi0
            | .mk (some (.flt x)) cs, hi0, _ => simp [idxOf] at hi0
            | .mk (some (.str x)) cs, hi0, _ => simp [idxOf] at hi0
          · exact ih vs' hvs is0 his0 i hi'
        · cases h0

end

end Pg.C13
