/-
  C02 helper lemmas: slice indices, ranges, slice read / delete / assignment, rebind.
-/
import PgProofs.ContainerList
namespace Pg.C02
open PgList

/-! ### Ranges -/

/-- `[p, p + c, …]` with `k` elements. -/
def posList : Nat → Int → Int → List Int
  | 0, _, _ => []
  | k + 1, p, c => p :: posList k (p + c) c

@[simp] theorem posList_length (k : Nat) (p c : Int) : (posList k p c).length = k := by
  induction k generalizing p with
  | zero => rfl
  | succ k ih => simp [posList, ih]

theorem rangeUp_eq_posList (f : Nat) (cur stop step : Int) :
    rangeUp f cur stop step = posList (rangeUp f cur stop step).length cur step := by
  induction f generalizing cur with
  | zero => rfl
  | succ f ih =>
    unfold rangeUp
    split
    · simp only [List.length_cons, posList]
      rw [← ih]
    · rfl

theorem rangeDown_eq_posList (f : Nat) (cur stop step : Int) :
    rangeDown f cur stop step = posList (rangeDown f cur stop step).length cur step := by
  induction f generalizing cur with
  | zero => rfl
  | succ f ih =>
    unfold rangeDown
    split
    · simp only [List.length_cons, posList]
      rw [← ih]
    · rfl

theorem pyRange_eq_posList (a b c : Int) : pyRange a b c = posList (pyRange a b c).length a c := by
  unfold pyRange
  split
  · exact rangeUp_eq_posList _ _ _ _
  · split
    · exact rangeDown_eq_posList _ _ _ _
    · rfl

theorem rangeUp_bounds {f : Nat} {cur stop step : Int} (hs : 0 < step) :
    ∀ x ∈ rangeUp f cur stop step, cur ≤ x ∧ x < stop := by
  induction f generalizing cur with
  | zero => intro x hx; cases hx
  | succ f ih =>
    intro x hx
    unfold rangeUp at hx
    split at hx
    · rcases List.mem_cons.mp hx with h | h
      · subst h; omega
      · have := ih x h; omega
    · cases hx

theorem rangeDown_bounds {f : Nat} {cur stop step : Int} (hs : step < 0) :
    ∀ x ∈ rangeDown f cur stop step, stop < x ∧ x ≤ cur := by
  induction f generalizing cur with
  | zero => intro x hx; cases hx
  | succ f ih =>
    intro x hx
    unfold rangeDown at hx
    split at hx
    · rcases List.mem_cons.mp hx with h | h
      · subst h; omega
      · have := ih x h; omega
    · cases hx

theorem posList_gt {k : Nat} {p c : Int} (hc : 0 < c) : ∀ x ∈ posList k (p + c) c, p < x := by
  induction k generalizing p with
  | zero => intro x hx; cases hx
  | succ k ih =>
    intro x hx
    simp only [posList] at hx
    rcases List.mem_cons.mp hx with h | h
    · subst h; omega
    · have := ih x h; omega

theorem posList_lt {k : Nat} {p c : Int} (hc : c < 0) : ∀ x ∈ posList k (p + c) c, x < p := by
  induction k generalizing p with
  | zero => intro x hx; cases hx
  | succ k ih =>
    intro x hx
    simp only [posList] at hx
    rcases List.mem_cons.mp hx with h | h
    · subst h; omega
    · have := ih x h; omega

/-! ### `slice.indices` -/

theorem sliceIndices_bounds {s : Slice} {n : Nat} {a b c : Int} (h : sliceIndices s n = .ok (a, b, c)) :
    c ≠ 0 ∧ (0 < c → 0 ≤ a ∧ a ≤ n ∧ 0 ≤ b ∧ b ≤ n) ∧
      (c < 0 → -1 ≤ a ∧ a ≤ (n : Int) - 1 ∧ -1 ≤ b ∧ b ≤ (n : Int) - 1) := by
  obtain ⟨st, sp, stp⟩ := s
  simp only [sliceIndices] at h
  split at h
  · cases h
  · rename_i h0
    simp only [Except.ok.injEq, Prod.mk.injEq] at h
    obtain ⟨ha, hb, hc⟩ := h
    subst hc
    refine ⟨h0, ?_, ?_⟩
    · intro hpos
      have hneg : ¬ (stp.getD 1 < 0) := by omega
      simp only [hneg, if_false] at ha hb
      cases st <;> cases sp <;> simp only [] at ha hb <;> subst ha <;> subst hb <;>
        (repeat' split) <;> omega
    · intro hneg
      simp only [hneg, if_true] at ha hb
      cases st <;> cases sp <;> simp only [] at ha hb <;> subst ha <;> subst hb <;>
        (repeat' split) <;> omega

theorem pyRange_inrange {s : Slice} {n : Nat} {a b c : Int} (h : sliceIndices s n = .ok (a, b, c)) :
    ∀ x ∈ pyRange a b c, 0 ≤ x ∧ x < n := by
  obtain ⟨h0, hp, hn⟩ := sliceIndices_bounds h
  intro x hx
  unfold pyRange at hx
  split at hx
  · rename_i hc
    have := rangeUp_bounds hc x hx
    have := hp hc
    omega
  · split at hx
    · rename_i hc
      have := rangeDown_bounds hc x hx
      have := hn hc
      omega
    · cases hx

/-! ### Slice read -/

theorem getItem_inrange {xs : List Val} {x : Int} (h : 0 ≤ x ∧ x < xs.length) :
    ∃ v, PgList.getItem xs x = .ok v ∧ getAt xs x = some v := by
  have hlt : x.toNat < xs.length := by omega
  refine ⟨xs[x.toNat], ?_, ?_⟩
  · rw [getItem_eq]
    unfold PyList.getItem
    rw [normIndex_nonneg h.1 h.2]
    simp [List.getElem?_eq_getElem hlt]
  · unfold getAt
    have : ¬ x < 0 := by omega
    simp [this, List.getElem?_eq_getElem hlt]

theorem mapM_getItem {xs : List Val} {ps : List Int} (h : ∀ x ∈ ps, 0 ≤ x ∧ x < xs.length) :
    ps.mapM (PgList.getItem xs) = .ok (ps.filterMap (getAt xs)) := by
  induction ps with
  | nil => rfl
  | cons p ps ih =>
    obtain ⟨v, h1, h2⟩ := getItem_inrange (h p List.mem_cons_self)
    rw [List.mapM_cons, h1, ih (fun x hx => h x (List.mem_cons_of_mem _ hx))]
    simp [h2]
    rfl

theorem getSlice_eq (xs : List Val) (s : Slice) : PgList.getSlice xs s = PyList.getSlice xs s := by
  unfold PgList.getSlice PyList.getSlice
  cases h : sliceIndices s xs.length with
  | error e => rfl
  | ok t =>
    obtain ⟨a, b, c⟩ := t
    simp only []
    exact mapM_getItem (pyRange_inrange h)

/-- The totalised `filterMap` of the Spec drops nothing: a slice has as many items as its range. -/
theorem getSlice_length {xs : List Val} {s : Slice} {a b c : Int} {ys : List Val}
    (h : sliceIndices s xs.length = .ok (a, b, c)) (hy : PyList.getSlice xs s = .ok ys) :
    ys.length = (pyRange a b c).length := by
  unfold PyList.getSlice at hy
  rw [h] at hy
  simp only [Except.ok.injEq] at hy
  subst hy
  have hr := pyRange_inrange h
  generalize pyRange a b c = ps at hr
  induction ps with
  | nil => rfl
  | cons p ps ih =>
    obtain ⟨v, _, h2⟩ := getItem_inrange (hr p List.mem_cons_self)
    simp [h2, ih (fun x hx => hr x (List.mem_cons_of_mem _ hx))]

/-! ### Slice delete -/

theorem dropIdxsFrom_nomem {ps : List Int} {k : Nat} {xs : List Val}
    (h : ∀ q ∈ ps, q < k) : dropIdxsFrom ps k xs = xs := by
  induction xs generalizing k with
  | nil => rfl
  | cons x xs ih =>
    unfold dropIdxsFrom
    have : ps.contains (k : Int) = false := by
      rw [List.contains_eq_mem, decide_eq_false_iff_not]
      intro hm
      have := h _ hm
      omega
    simp only [this, Bool.false_eq_true, if_false]
    rw [ih (fun q hq => by have := h q hq; omega)]

/-- Erasing position `p` and then dropping smaller positions = dropping `p` and those. -/
theorem dropIdxsFrom_eraseIdx {ps : List Int} {k : Nat} {xs : List Val} {p : Nat}
    (hlt : ∀ q ∈ ps, q < ((k + p : Nat) : Int)) :
    dropIdxsFrom ps k (xs.eraseIdx p) = dropIdxsFrom (((k + p : Nat) : Int) :: ps) k xs := by
  induction xs generalizing k p with
  | nil => simp [dropIdxsFrom]
  | cons x xs ih =>
    cases p with
    | zero =>
      simp only [List.eraseIdx_cons_zero, Nat.add_zero]
      conv => rhs; unfold dropIdxsFrom
      simp only [List.contains_cons, BEq.rfl, Bool.true_or, if_true]
      -- the remaining positions are all below k + 1, so nothing else is dropped on either side
      rw [dropIdxsFrom_nomem (ps := ps) (fun q hq => by have := hlt q hq; omega)]
      rw [dropIdxsFrom_nomem (fun q hq => by
        rcases List.mem_cons.mp hq with h | h
        · subst h; omega
        · have := hlt q h; omega)]
    | succ p =>
      simp only [List.eraseIdx_cons_succ]
      unfold dropIdxsFrom
      have hk : (((k + (p + 1) : Nat) : Int) :: ps).contains (k : Int) = ps.contains (k : Int) := by
        rw [List.contains_cons]
        have : ((k : Int) == ((k + (p + 1) : Nat) : Int)) = false := by
          rw [beq_eq_false_iff_ne]; omega
        rw [this, Bool.false_or]
      rw [hk]
      have e : k + (p + 1) = (k + 1) + p := by omega
      have ih' := ih (k := k + 1) (p := p) (by rw [← e]; exact hlt)
      rw [← e] at ih'
      split <;> simp [ih']

theorem delMany_desc {xs : List Val} {ps : List Int}
    (hr : ∀ x ∈ ps, 0 ≤ x ∧ x < xs.length) (hd : ps.Pairwise (· > ·)) :
    delMany xs ps = .ok (dropIdxs xs ps) := by
  induction ps generalizing xs with
  | nil =>
    unfold delMany dropIdxs
    rw [dropIdxsFrom_nomem (by intro q hq; cases hq)]
  | cons p ps ih =>
    obtain ⟨hp0, hpn⟩ := hr p List.mem_cons_self
    have hlt : p.toNat < xs.length := by omega
    rw [List.pairwise_cons] at hd
    unfold delMany delRaw
    rw [normIndex_nonneg hp0 hpn]
    simp only []
    rw [ih (xs := xs.eraseIdx p.toNat)
      (fun x hx => by
        have := hr x (List.mem_cons_of_mem _ hx)
        have := hd.1 x hx
        rw [List.length_eraseIdx_of_lt hlt]
        omega) hd.2]
    unfold dropIdxs
    have := dropIdxsFrom_eraseIdx (ps := ps) (k := 0) (xs := xs) (p := p.toNat)
      (by intro q hq; have := hd.1 q hq; omega)
    rw [this]
    have e : ((0 + p.toNat : Nat) : Int) = p := by omega
    rw [e]

theorem dropIdxsFrom_congr {ps qs : List Int} (h : ∀ x, x ∈ ps ↔ x ∈ qs) (k : Nat) (xs : List Val) :
    dropIdxsFrom ps k xs = dropIdxsFrom qs k xs := by
  induction xs generalizing k with
  | nil => rfl
  | cons x xs ih =>
    unfold dropIdxsFrom
    have : ps.contains (k : Int) = qs.contains (k : Int) := by
      rw [List.contains_eq_mem, List.contains_eq_mem]
      exact decide_eq_decide.mpr (h _)
    rw [this, ih]

theorem posList_pairwise_gt {k : Nat} {p c : Int} (hc : c < 0) : (posList k p c).Pairwise (· > ·) := by
  induction k generalizing p with
  | zero => exact List.Pairwise.nil
  | succ k ih =>
    simp only [posList]
    exact List.Pairwise.cons (fun x hx => posList_lt hc x hx) ih

theorem posList_pairwise_lt {k : Nat} {p c : Int} (hc : 0 < c) : (posList k p c).Pairwise (· < ·) := by
  induction k generalizing p with
  | zero => exact List.Pairwise.nil
  | succ k ih =>
    simp only [posList]
    exact List.Pairwise.cons (fun x hx => posList_gt hc x hx) ih

theorem clean_dropIdxsFrom {ps : List Int} {k : Nat} {xs : List Val} (h : Clean xs) :
    Clean (dropIdxsFrom ps k xs) := by
  induction xs generalizing k with
  | nil => intro x hx; cases hx
  | cons y ys ih =>
    have hys : Clean ys := fun x hx => h x (List.mem_cons_of_mem _ hx)
    unfold dropIdxsFrom
    split
    · exact ih hys
    · intro x hx
      rcases List.mem_cons.mp hx with h' | h'
      · subst h'; exact h _ List.mem_cons_self
      · exact ih hys x h'

theorem good_dropIdxsFrom {ps : List Int} {k : Nat} {xs : List Val} (h : Good xs) :
    Good (dropIdxsFrom ps k xs) := by
  induction xs generalizing k with
  | nil => exact Good.nil
  | cons y ys ih =>
    have hys : Good ys := fun x hx => h x (List.mem_cons_of_mem _ hx)
    unfold dropIdxsFrom
    split
    · exact ih hys
    · intro x hx
      rcases List.mem_cons.mp hx with h' | h'
      · subst h'; exact h _ List.mem_cons_self
      · exact ih hys x h'

theorem step_delSlice (xs : List Val) (s : Slice) (nt : Bool) (hx : Clean xs) :
    implL xs ⟨.delSlice s, nt⟩ = specL xs ⟨.delSlice s, nt⟩ := by
  simp only [implL, specL, PyList.delSlice]
  cases h : sliceIndices s xs.length with
  | error e => rfl
  | ok t =>
    obtain ⟨a, b, c⟩ := t
    simp only []
    have hr := pyRange_inrange h
    have hc0 := (sliceIndices_bounds h).1
    have hpl := pyRange_eq_posList a b c
    by_cases hc : c > 0
    · simp only [hc, if_true]
      have hd : (pyRange a b c).reverse.Pairwise (· > ·) := by
        rw [List.pairwise_reverse, hpl]
        exact posList_pairwise_lt hc
      rw [delMany_desc (fun x hx => hr x (List.mem_reverse.mp hx)) hd]
      simp only [okNone]
      have e : dropIdxs xs (pyRange a b c).reverse = dropIdxs xs (pyRange a b c) :=
        dropIdxsFrom_congr (fun x => List.mem_reverse) 0 xs
      rw [e]
      congr 1
      exact notifyIf_eq_purge (Or.inr (clean_dropIdxsFrom hx))
    · have hc' : c < 0 := by omega
      simp only [hc, if_false]
      have hd : (pyRange a b c).Pairwise (· > ·) := by
        rw [hpl]; exact posList_pairwise_gt hc'
      rw [delMany_desc hr hd]
      simp only [okNone]
      congr 1
      exact notifyIf_eq_purge (Or.inr (clean_dropIdxsFrom hx))

/-! ### Closed form of the slice length -/

theorem rangeUp_length {f : Nat} {a b c : Int} (hc : 0 < c) (hf : (b - a).toNat ≤ f) :
    ((rangeUp f a b c).length : Int) = if a < b then (b - a - 1) / c + 1 else 0 := by
  induction f generalizing a with
  | zero =>
    have : ¬ a < b := by omega
    simp [rangeUp, this]
  | succ f ih =>
    unfold rangeUp
    by_cases h : a < b
    · simp only [h, if_true, List.length_cons]
      push_cast
      rw [ih (a := a + c) (by omega)]
      by_cases h2 : a + c < b
      · simp only [h2, if_true]
        have e : b - (a + c) - 1 = (b - a - 1) + (-1) * c := by ring
        rw [e, Int.add_mul_ediv_right _ _ (by omega : c ≠ 0)]
        ring
      · simp only [h2, if_false]
        have : (b - a - 1) / c = 0 := Int.ediv_eq_zero_of_lt (by omega) (by omega)
        rw [this]
    · simp [h]

theorem rangeDown_length {f : Nat} {a b c : Int} (hc : c < 0) (hf : (a - b).toNat ≤ f) :
    ((rangeDown f a b c).length : Int) = if b < a then (a - b - 1) / (-c) + 1 else 0 := by
  induction f generalizing a with
  | zero =>
    have : ¬ b < a := by omega
    simp [rangeDown, this]
  | succ f ih =>
    unfold rangeDown
    by_cases h : a > b
    · have h' : b < a := h
      simp only [h, if_true, List.length_cons]
      push_cast
      rw [ih (a := a + c) (by omega)]
      by_cases h2 : b < a + c
      · simp only [h2, if_true]
        have e : a + c - b - 1 = (a - b - 1) + (-1) * (-c) := by ring
        rw [e, Int.add_mul_ediv_right _ _ (by omega : -c ≠ 0)]
        ring
      · simp only [h2, if_false]
        have : (a - b - 1) / (-c) = 0 := Int.ediv_eq_zero_of_lt (by omega) (by omega)
        rw [this]
    · have h' : ¬ b < a := h
      simp [h]

/-- `len(range(start, stop, step))` is CPython's closed form of the slice length. -/
theorem pyRange_length_closed (a b c : Int) (hc : c ≠ 0) : ((pyRange a b c).length : Int) = sliceLen a b c := by
  unfold pyRange sliceLen
  by_cases h : c > 0
  · have h' : ¬ c < 0 := by omega
    simp only [h, if_true, h', if_false]
    exact rangeUp_length h (Nat.le_refl _)
  · have h' : c < 0 := by omega
    simp only [h, if_false, h', if_true]
    exact rangeDown_length h' (Nat.le_refl _)

end Pg.C02
