/- DNASpec trees conform to the geno class schemas and contain no reserved shape. -/
import PgModel.C05Geno
import PgProofs.C05Codec
namespace Pg.C05

def Good (t : Tree) : Prop :=
  Conforms genoEnv t = true ∧ Encodable false t = true ∧ NoMissing t = true

def GoodL (ts : List Tree) : Prop :=
  ConformsL genoEnv ts = true ∧ EncodableL false ts = true ∧ NoMissingL ts = true ∧
    startsWithTupleMarker ts = false

/-- The text layer produces plain literal lists. -/
def GenoText.OK (gt : GenoText) : Prop := ∀ info l, gt.lits info = some l → Good (.list l)

theorem find_space : genoEnv.find kSpace = some spaceFields := by rfl
theorem find_choices : genoEnv.find kChoices = some choicesFields := by rfl
theorem find_float : genoEnv.find kFloat = some floatFields := by rfl
theorem find_custom : genoEnv.find kCustom = some customFields := by rfl

theorem optStr_ok (o : Option String) :
    Conforms genoEnv (optStrTree o) = true ∧ Encodable false (optStrTree o) = true ∧
    NoMissing (optStrTree o) = true ∧ attrOK ⟨"name".toList, .str, true, some (.leaf .none), false⟩ (optStrTree o) = true := by
  cases o <;> simp [optStrTree, Conforms, Encodable, NoMissing, attrOK, accepts]

theorem spaceObj_good (elems : List Tree) (idx : Tree) (he : GoodL elems)
    (hi : idx = .leaf .none ∨ ∃ i, idx = .leaf (.int i)) :
    Good (.obj kSpace [("location".toList, .leaf (.str [])), ("hints".toList, .leaf .none),
      ("elements".toList, .list elems), ("index".toList, idx)]) := by
  obtain ⟨h1, h2, h3, h4⟩ := he
  rcases hi with rfl | ⟨i, rfl⟩ <;>
    simp (decide := true) [Good, Conforms, ConformsA, Encodable, EncodableA, NoMissing, NoMissingA, find_space, spaceFields,
      attrsOK, attrOK, accepts, fAny, isMissing, h1, h2, h3, h4, typeKey, intKeyPrefix]

mutual
  theorem point_good (gt : GenoText) (hgt : gt.OK) : (p : Geno.Point) → Good (pointTree gt p)
    | .choices k cands d s info => by
      obtain ⟨c1, c2, c3, c4⟩ := cands_good gt hgt cands 0
      obtain ⟨n1, n2, n3, n4⟩ := optStr_ok info.name
      cases hl : gt.lits info with
      | none =>
        simp (decide := true) [Good, pointTree, hl, optLits, Conforms, ConformsA, Encodable, EncodableA, NoMissing,
          NoMissingA, find_choices, choicesFields, attrsOK, attrOK, accepts, fAny, isMissing, c1, c2, c3, c4, n1, n2, n3,
          typeKey, intKeyPrefix]
        cases info.name <;> simp [optStrTree, accepts]
      | some l =>
        obtain ⟨l1, l2, l3⟩ := hgt info l hl
        simp only [Conforms, Encodable, NoMissing] at l1 l2 l3
        simp (decide := true) [Good, pointTree, hl, optLits, Conforms, ConformsA, Encodable, EncodableA, NoMissing,
          NoMissingA, find_choices, choicesFields, attrsOK, attrOK, accepts, fAny, isMissing, c1, c2, c3, c4, n1, n2, n3,
          l1, l2, l3, typeKey, intKeyPrefix]
        cases info.name <;> simp [optStrTree, accepts]
    | .float ln ld hn hd info => by
      obtain ⟨n1, n2, n3, n4⟩ := optStr_ok info.name
      simp (decide := true) [Good, pointTree, Conforms, ConformsA, Encodable, EncodableA, NoMissing, NoMissingA,
        find_float, floatFields, attrsOK, attrOK, accepts, fAny, isMissing, n1, n2, n3, typeKey, intKeyPrefix]
      cases info.name <;> simp [optStrTree, accepts]
    | .custom info => by
      obtain ⟨n1, n2, n3, n4⟩ := optStr_ok info.name
      simp (decide := true) [Good, pointTree, Conforms, ConformsA, Encodable, EncodableA, NoMissing, NoMissingA,
        find_custom, customFields, attrsOK, attrOK, accepts, fAny, isMissing, n1, n2, n3, typeKey, intKeyPrefix]
      cases info.name <;> simp [optStrTree, accepts]
  theorem points_good (gt : GenoText) (hgt : gt.OK) : (ps : List Geno.Point) → GoodL (pointsTree gt ps)
    | [] => by simp [GoodL, pointsTree, ConformsL, EncodableL, NoMissingL, startsWithTupleMarker]
    | p :: ps => by
      obtain ⟨a1, a2, a3⟩ := point_good gt hgt p
      obtain ⟨b1, b2, b3, _⟩ := points_good gt hgt ps
      refine ⟨by simp [pointsTree, ConformsL, a1, b1], by simp [pointsTree, EncodableL, a2, b2],
        by simp [pointsTree, NoMissingL, a3, b3], ?_⟩
      cases p <;> simp [pointsTree, pointTree, startsWithTupleMarker]
  theorem cands_good (gt : GenoText) (hgt : gt.OK) : (cs : List (List Geno.Point)) → (i : Nat) →
      GoodL (candsTree gt cs i)
    | [], _ => by simp [GoodL, candsTree, ConformsL, EncodableL, NoMissingL, startsWithTupleMarker]
    | c :: cs, i => by
      obtain ⟨a1, a2, a3⟩ := spaceObj_good (pointsTree gt c) (.leaf (.int i)) (points_good gt hgt c) (.inr ⟨i, rfl⟩)
      obtain ⟨b1, b2, b3, _⟩ := cands_good gt hgt cs (i + 1)
      refine ⟨?_, ?_, ?_, by simp [candsTree, startsWithTupleMarker]⟩
      · simp only [candsTree, ConformsL, Bool.and_eq_true]; exact ⟨a1, b1⟩
      · simp only [candsTree, EncodableL, Bool.and_eq_true]; exact ⟨a2, b2⟩
      · simp only [candsTree, NoMissingL, Bool.and_eq_true]; exact ⟨a3, b3⟩
end

theorem spec_good (gt : GenoText) (hgt : gt.OK) (g : Geno.Spec) : Good (specTree gt g) := by
  cases g with
  | space s => exact spaceObj_good _ _ (points_good gt hgt s) (.inl rfl)
  | point p => exact point_good gt hgt p

theorem genoEnv_wf : genoEnv.WF = true := by decide

end Pg.C05
