/-
  C04: `Union` specs whose candidates are non-frozen leaves of pairwise disjoint value types
  (`simpleUnion`): the dispatch of `Union._apply` is then determined by the value's type, which gives
  compatibility soundness for union receivers (F43 excluded) and idempotence (F47 excluded).
-/
import PgProofs.TypingCompat
namespace Pg.Typing

/-- The value type of a non-`Any`, non-`Enum`, non-`Union` spec. -/
def leafTy : Spec → Option Ty
  | .bool _ => some .bool
  | .int .. => some .int
  | .float .. => some .float
  | .str .. => some .str
  | .list .. => some .list
  | .tuple .. => some .tuple
  | .dict .. => some .dict
  | .obj c _ => some (.obj c)
  | _ => none

def numericTy : Ty → Bool
  | .bool | .int | .float => true
  | _ => false

/-- No value is routed (by `isinstance` or by the int→float converter) to both types: different
types, at most one of bool / int / float (F43), at most one class. -/
def tyDisjoint : Ty → Ty → Bool
  | .obj _, .obj _ => false
  | .object, _ => false
  | _, .object => false
  | a, b => a != b && !(numericTy a && numericTy b)

def candOk (c : Spec) : Bool := (leafTy c).isSome && !c.flags.frozen

def candDisj (c d : Spec) : Bool :=
  match leafTy c, leafTy d with
  | some a, some b => tyDisjoint a b
  | _, _ => false

def pairwiseDisj : List Spec → Bool
  | [] => true
  | c :: cs => cs.all (fun d => candDisj c d) && pairwiseDisj cs

/-- Candidates: non-frozen (F47) leaves of pairwise disjoint value types (F43). -/
def simpleUnion (cands : List Spec) : Bool := cands.all candOk && pairwiseDisj cands

theorem vt_leaf (c : Spec) (t : Ty) (h : leafTy c = some t) : vt c = some [t] := by
  cases c <;> simp [leafTy] at h <;> subst h <;> simp [vt]

theorem vtUnion_leaf (cands : List Spec) (h : cands.all candOk = true) :
    ∃ ts, vtUnion cands = some ts ∧ ∀ c ∈ cands, ∀ t, leafTy c = some t → t ∈ ts := by
  induction cands with
  | nil => exact ⟨[], rfl, by simp⟩
  | cons c cs ih =>
    simp only [List.all_cons, Bool.and_eq_true] at h
    obtain ⟨ts, hts, hmem⟩ := ih h.2
    have hc := h.1
    simp only [candOk, Bool.and_eq_true, Option.isSome_iff_exists] at hc
    obtain ⟨t, ht⟩ := hc.1
    refine ⟨t :: ts, by simp [vtUnion, vt_leaf c t ht, hts], ?_⟩
    intro d hd t' ht'
    simp only [List.mem_cons] at hd
    rcases hd with hd | hd
    · subst hd; rw [ht] at ht'; injection ht' with ht'; subst ht'; exact List.mem_cons_self
    · exact List.mem_cons_of_mem _ (hmem d hd t' ht')

theorem tyDisjoint_sub (env : Env) (a b : Ty) (x : Ty) (hd : tyDisjoint a b = true)
    (h1 : Ty.sub env x a = true) (h2 : Ty.sub env x b = true) : False := by
  cases a <;> cases b <;> simp [tyDisjoint, numericTy] at hd <;>
    cases x <;> simp [Ty.sub] at h1 h2

/-- Strong dispatch: the (unique) candidate whose type the value is an instance of. -/
theorem unionStrong_hit (env : Env) (cands : List Spec) (hs : pairwiseDisj cands = true)
    (hl : cands.all candOk = true) (p : Bool) (v : Val) (c : Spec) (hc : c ∈ cands) (t : Ty)
    (ht : leafTy c = some t) (hi : Ty.sub env v.ty t = true) :
    unionStrong env cands p v = some (apply env c p v) := by
  induction cands with
  | nil => cases hc
  | cons c0 cs ih =>
    simp only [pairwiseDisj, Bool.and_eq_true] at hs
    simp only [List.all_cons, Bool.and_eq_true] at hl
    have h0 := hl.1
    simp only [candOk, Bool.and_eq_true, Option.isSome_iff_exists] at h0
    obtain ⟨t0, ht0⟩ := h0.1
    simp only [unionStrong, vt_leaf c0 t0 ht0, instOf, List.any_cons, List.any_nil, Bool.or_false]
    simp only [List.mem_cons] at hc
    rcases hc with hc | hc
    · subst hc
      rw [ht] at ht0; injection ht0 with ht0; subst ht0
      simp [hi]
    · have hd := (List.all_eq_true.mp hs.1) c hc
      simp only [candDisj, ht0, ht] at hd
      have : Ty.sub env v.ty t0 = false := by
        cases hx : Ty.sub env v.ty t0
        · rfl
        · exact (tyDisjoint_sub env t0 t v.ty hd hx hi).elim
      simp only [this, Bool.false_eq_true, if_false]
      exact ih hs.2 hl.2 hc

/-- What a non-frozen leaf candidate accepts is of its type, or an int / bool for a `Float`. -/
theorem accepts_leaf_ty (env : Env) (c : Spec) (t : Ty) (ht : leafTy c = some t)
    (hf : c.flags.frozen = false) (v : Val) (hp : Val.proper v) (h : accepts env c v = true) :
    Ty.sub env v.ty t = true ∨ (t = .float ∧ (v.ty = .int ∨ v.ty = .bool)) := by
  cases c <;> simp [leafTy] at ht <;> subst ht <;> simp only [Spec.flags] at hf
  · rw [accepts_bool env _ hf] at h; cases v <;> simp [Val.ty, Ty.sub, Val.proper, Val.isNone, Val.isMissing] at h hp ⊢
  · rw [accepts_int env _ _ _ hf] at h; cases v <;> simp [Val.ty, Ty.sub, Val.proper, Val.isNone, Val.isMissing] at h hp ⊢
  · rw [accepts_float env _ _ _ hf] at h; cases v <;> simp [Val.ty, Ty.sub, Val.proper, Val.isNone, Val.isMissing] at h hp ⊢
  · rw [accepts_str env _ _ hf] at h; cases v <;> simp [Val.ty, Ty.sub, Val.proper, Val.isNone, Val.isMissing] at h hp ⊢
  · rw [accepts_list env _ _ _ _ hf] at h; cases v <;> simp [Val.ty, Ty.sub, Val.proper, Val.isNone, Val.isMissing] at h hp ⊢
  · rw [accepts_tuple env _ _ _ _ hf] at h; cases v <;> simp [Val.ty, Ty.sub, Val.proper, Val.isNone, Val.isMissing] at h hp ⊢
  · rename_i fields f
    cases fields with
    | none => rw [accepts_dictNone env _ hf] at h; cases v <;> simp [Val.ty, Ty.sub, Val.proper, Val.isNone, Val.isMissing] at h hp ⊢
    | some fs =>
      rcases accepts_dictSome_shape env fs f hf v h with ⟨e, _⟩ | ⟨kvs, e⟩
      · subst e; simp [Val.proper, Val.isNone] at hp
      · subst e; simp [Val.ty, Ty.sub]
  · rw [accepts_obj env _ _ hf] at h
    cases v <;> simp [Val.ty, Ty.sub, Val.proper, Val.isNone, Val.isMissing] at h hp ⊢
    exact h.1

/-- A `Float` spec treats an int / bool exactly as the converted float. -/
theorem apply_float_conv (env : Env) (lo hi : Option Num) (g : Flags) (hg : g.frozen = false)
    (p : Bool) (v v' : Val) (ts : List Ty) (hc : convert v ts = some v') :
    apply env (.float lo hi g) p v' = apply env (.float lo hi g) p v := by
  unfold convert at hc
  split at hc
  · cases v <;> simp at hc <;> subst hc <;>
      simp [apply, gate, hg, Val.isMissing, Val.isNone, typeCheck, instOf, Val.ty, Ty.sub, convert,
        bind, Except.bind, rangeCheck, Val.num?]
  · cases hc

/-- **Acceptance of a simple union**: it accepts every proper value one of its candidates accepts. -/
theorem accepts_union_of_cand (env : Env) (cands : List Spec) (f : Flags) (hf : f.frozen = false)
    (hs : simpleUnion cands = true) (v : Val) (hp : Val.proper v) (c : Spec) (hc : c ∈ cands)
    (h : accepts env c v = true) : accepts env (.union cands f) v = true := by
  simp only [simpleUnion, Bool.and_eq_true] at hs
  obtain ⟨hl, hd⟩ := hs
  have hcok := (List.all_eq_true.mp hl) c hc
  simp only [candOk, Bool.and_eq_true, Option.isSome_iff_exists, Bool.not_eq_true'] at hcok
  obtain ⟨⟨t, ht⟩, hcf⟩ := hcok
  obtain ⟨ts, hts, hmem⟩ := vtUnion_leaf cands hl
  have htin := hmem c hc t ht
  simp only [accepts, apply, gate_proper f hf false v hp, hts, bind, Except.bind]
  rcases accepts_leaf_ty env c t ht hcf v hp h with hsub | ⟨hfl, hnum⟩
  · have hi : instOf env v ts = true := by
      unfold instOf
      exact List.any_eq_true.mpr ⟨t, htin, hsub⟩
    simp only [typeCheck, hi, if_true]
    rw [unionStrong_hit env cands hd hl false v c hc t ht hsub]
    exact h
  · subst hfl
    by_cases hi : instOf env v ts = true
    · -- another candidate would claim the int / bool: excluded by disjointness
      exfalso
      unfold instOf at hi
      obtain ⟨t', ht', hsub'⟩ := List.any_eq_true.mp hi
      -- t' is the type of some candidate d
      have : ∀ (cs : List Spec) (us : List Ty), cs.all candOk = true → vtUnion cs = some us → t' ∈ us →
          ∃ d ∈ cs, leafTy d = some t' := by
        intro cs
        induction cs with
        | nil => intro us _ h2 h3; simp [vtUnion] at h2; subst h2; cases h3
        | cons d ds ih =>
          intro us h1 h2 h3
          simp only [List.all_cons, Bool.and_eq_true] at h1
          have hdok := h1.1
          simp only [candOk, Bool.and_eq_true, Option.isSome_iff_exists] at hdok
          obtain ⟨td, htd⟩ := hdok.1
          obtain ⟨us', hus', _⟩ := vtUnion_leaf ds h1.2
          simp only [vtUnion, vt_leaf d td htd, hus'] at h2
          injection h2 with h2; subst h2
          simp only [List.cons_append, List.nil_append, List.mem_cons] at h3
          rcases h3 with h3 | h3
          · subst h3; exact ⟨d, List.mem_cons_self, htd⟩
          · obtain ⟨e, he, hte⟩ := ih us' h1.2 hus' h3
            exact ⟨e, List.mem_cons_of_mem _ he, hte⟩
      obtain ⟨d, hdm, htd⟩ := this cands ts hl hts ht'
      -- d ≠ c (its type admits an int / bool, Float's does not), so the two are disjoint
      have hne : t' ≠ .float := by
        intro e; subst e
        rcases hnum with e | e <;> rw [e] at hsub' <;> simp [Ty.sub] at hsub'
      have hno : t' ≠ .object := by
        intro e; subst e; cases d <;> simp [leafTy] at htd
      have hnumt' : numericTy t' = true := by
        rcases hnum with e | e <;> rw [e] at hsub' <;> cases t' <;>
          simp [Ty.sub, numericTy] at hsub' hno ⊢
      -- pairwise disjointness of c and d
      have hpair : ∀ (cs : List Spec), pairwiseDisj cs = true → c ∈ cs → d ∈ cs → c ≠ d →
          candDisj c d = true ∨ candDisj d c = true := by
        intro cs
        induction cs with
        | nil => intro _ h2; cases h2
        | cons x xs ih =>
          intro h1 h2 h3 h4
          simp only [pairwiseDisj, Bool.and_eq_true] at h1
          simp only [List.mem_cons] at h2 h3
          rcases h2 with h2 | h2 <;> rcases h3 with h3 | h3
          · exact (h4 (h2.trans h3.symm)).elim
          · subst h2; exact Or.inl ((List.all_eq_true.mp h1.1) d h3)
          · subst h3; exact Or.inr ((List.all_eq_true.mp h1.1) c h2)
          · exact ih h1.2 h2 h3 h4
      have hcd : c ≠ d := by
        intro e; subst e; rw [ht] at htd; injection htd with htd; exact hne htd.symm
      rcases hpair cands hd hc hdm hcd with hx | hx <;>
        simp only [candDisj, ht, htd] at hx <;>
        cases t' <;> simp [tyDisjoint, numericTy] at hx hnumt' hne
    · -- no candidate claims the value: the union converts it and routes the float to `c`
      have hcv : ∃ v', convert v ts = some v' ∧ v'.ty = .float ∧ Val.proper v' := by
        unfold convert
        have : ts.any (fun t => t == .float || t == .object) = true :=
          List.any_eq_true.mpr ⟨.float, htin, by simp⟩
        simp only [this, if_true]
        rcases hnum with e | e <;> cases v <;> simp [Val.ty] at e <;>
          exact ⟨_, rfl, rfl, by simp [Val.proper, Val.isMissing, Val.isNone]⟩
      obtain ⟨v', hcv', hty', hp'⟩ := hcv
      simp only [typeCheck, hi, Bool.false_eq_true, if_false, hcv']
      rw [unionStrong_hit env cands hd hl false v' c hc .float ht (by rw [hty']; simp [Ty.sub])]
      simp only
      cases c <;> simp [leafTy] at ht
      rename_i lo hi' g
      rw [apply_float_conv env lo hi' g (by simpa [Spec.flags] using hcf) false v v' ts hcv']
      exact h

/-! ### Compatibility with a union receiver -/

/-- Exclusions for `Union(cands).is_compatible(b)`: neither side frozen (F09, F40), `b` not itself a
union, the candidates form a simple union (F43), and every candidate of `b`'s class is in
`CompatOk` with `b`. -/
def CompatOkUnion (cands : List Spec) (f : Flags) (b : Spec) : Bool :=
  !f.frozen && !b.flags.frozen && !b.isUnion && simpleUnion cands &&
    cands.all (fun c => c.kind != b.kind || CompatOk c b)

theorem isCompatible_leaf_kind (env : Env) (c b : Spec) (t : Ty) (ht : leafTy c = some t)
    (h : isCompatible env c b = true) : c.kind = b.kind := by
  cases c <;> simp [leafTy] at ht <;> cases b <;> simp [isCompatible, Spec.kind] at h ⊢

theorem anyCompat_mem (env : Env) (cands : List Spec) (b : Spec) (h : anyCompat env cands b = true) :
    ∃ c ∈ cands, isCompatible env c b = true := by
  induction cands with
  | nil => simp [anyCompat] at h
  | cons c cs ih =>
    simp only [anyCompat, Bool.or_eq_true] at h
    rcases h with h | h
    · exact ⟨c, List.mem_cons_self, h⟩
    · obtain ⟨d, hd, hcd⟩ := ih h
      exact ⟨d, List.mem_cons_of_mem _ hd, hcd⟩

theorem compat_sound_union (env : Env) (ht : SubTrans env) (cands : List Spec) (f : Flags) (b : Spec)
    (hok : CompatOkUnion cands f b = true) (hc : isCompatible env (.union cands f) b = true) (v : Val)
    (hv : accepts env b v = true) : accepts env (.union cands f) v = true := by
  simp only [CompatOkUnion, Bool.and_eq_true, Bool.not_eq_true'] at hok
  obtain ⟨⟨⟨⟨hf, hg⟩, hbu⟩, hs⟩, hcs⟩ := hok
  simp only [isCompatible, Bool.and_eq_true] at hc
  obtain ⟨hn, hl⟩ := hc
  by_cases hm : v = .missing
  · subst hm; rw [accepts_missing env b hg] at hv; cases hv
  by_cases hnone : v = .none
  · subst hnone
    rw [accepts_none env b hg] at hv
    rw [accepts_none env _ (by simpa [Spec.flags] using hf)]
    simp only [Spec.flags]
    cases hfn : f.noneable <;> simp [hfn, hv] at hn ⊢
  have hp := proper_of_ne v hm hnone
  have hlv : leaves b = [b] := by cases b <;> simp [leaves, Spec.isUnion] at hbu ⊢
  rw [hlv] at hl
  simp only [List.all_cons, List.all_nil, Bool.and_true] at hl
  obtain ⟨c, hcm, hcb⟩ := anyCompat_mem env cands b hl
  have hs' := hs
  simp only [simpleUnion, Bool.and_eq_true] at hs'
  have hcok := (List.all_eq_true.mp hs'.1) c hcm
  simp only [candOk, Bool.and_eq_true, Option.isSome_iff_exists] at hcok
  obtain ⟨t, htc⟩ := hcok.1
  have hk := isCompatible_leaf_kind env c b t htc hcb
  have hcc := (List.all_eq_true.mp hcs) c hcm
  simp only [hk, bne_self_eq_false, Bool.false_or] at hcc
  exact accepts_union_of_cand env cands f hf hs v hp c hcm (compat_sound env ht c b hcc hcb v hv)

/-! ### Idempotence of `apply` for simple unions -/

theorem vtUnion_mem_inv (cs : List Spec) (us : List Ty) (t' : Ty) (h1 : cs.all candOk = true)
    (h2 : vtUnion cs = some us) (h3 : t' ∈ us) : ∃ d ∈ cs, leafTy d = some t' := by
  induction cs generalizing us with
  | nil => simp [vtUnion] at h2; subst h2; cases h3
  | cons d ds ih =>
    simp only [List.all_cons, Bool.and_eq_true] at h1
    have hdok := h1.1
    simp only [candOk, Bool.and_eq_true, Option.isSome_iff_exists] at hdok
    obtain ⟨td, htd⟩ := hdok.1
    obtain ⟨us', hus', _⟩ := vtUnion_leaf ds h1.2
    simp only [vtUnion, vt_leaf d td htd, hus'] at h2
    injection h2 with h2; subst h2
    simp only [List.cons_append, List.nil_append, List.mem_cons] at h3
    rcases h3 with h3 | h3
    · subst h3; exact ⟨d, List.mem_cons_self, htd⟩
    · obtain ⟨e, he, hte⟩ := ih us' h1.2 hus' h3
      exact ⟨e, List.mem_cons_of_mem _ he, hte⟩

theorem typeCheck_inst (env : Env) (ts : List Ty) (w : Val) (h : instOf env w ts = true) :
    typeCheck env (some ts) w = .ok w := by
  simp [typeCheck, h]

/-- A non-frozen leaf applied to a proper value of its own type returns a proper value of the same
Python type. -/
theorem apply_leaf_ty (env : Env) (d : Spec) (t : Ty) (ht : leafTy d = some t)
    (hf : d.flags.frozen = false) (p : Bool) (w w' : Val) (hp : Val.proper w)
    (hi : Ty.sub env w.ty t = true) (h : apply env d p w = .ok w') :
    w'.ty = w.ty ∧ Val.proper w' := by
  have hinst : instOf env w [t] = true := by simp [instOf, hi]
  cases d <;> simp [leafTy] at ht <;> subst ht <;> simp only [Spec.flags] at hf
  · simp only [apply, gate_proper _ hf p w hp, typeCheck_inst env _ w hinst] at h
    injection h with h; subst h; exact ⟨rfl, hp⟩
  · simp only [apply, gate_proper _ hf p w hp, typeCheck_inst env _ w hinst, bind, Except.bind] at h
    have := rangeCheck_id _ _ _ _ h; subst this; exact ⟨rfl, hp⟩
  · simp only [apply, gate_proper _ hf p w hp, typeCheck_inst env _ w hinst, bind, Except.bind] at h
    have := rangeCheck_id _ _ _ _ h; subst this; exact ⟨rfl, hp⟩
  · simp only [apply, gate_proper _ hf p w hp, typeCheck_inst env _ w hinst, bind, Except.bind] at h
    split at h
    · split at h
      · injection h with h; subst h; exact ⟨rfl, hp⟩
      · cases h
    · injection h with h; subst h; exact ⟨rfl, hp⟩
  · simp only [apply, gate_proper _ hf p w hp, typeCheck_inst env _ w hinst, bind, Except.bind] at h
    cases w <;> simp only [] at h <;> try (cases h)
    rename_i xs
    split at h
    · cases h
    · split at h
      · injection h with h; subst h
        exact ⟨rfl, by simp [Val.proper, Val.isMissing, Val.isNone]⟩
      · cases h
  · simp only [apply, gate_proper _ hf p w hp, typeCheck_inst env _ w hinst, bind, Except.bind] at h
    cases w <;> simp only [] at h <;> try (cases h)
    rename_i xs
    split at h
    · split at h
      · cases h
      · split at h
        · cases h
        · injection h with h; subst h
          exact ⟨rfl, by simp [Val.proper, Val.isMissing, Val.isNone]⟩
    · split at h
      · cases h
      · split at h
        · cases h
        · injection h with h; subst h
          exact ⟨rfl, by simp [Val.proper, Val.isMissing, Val.isNone]⟩
  · rename_i fields f
    cases fields with
    | none =>
      simp only [apply, gate_proper _ hf p w hp, typeCheck_inst env _ w hinst] at h
      injection h with h; subst h; exact ⟨rfl, hp⟩
    | some fs =>
      simp only [apply, gate_proper _ hf p w hp, typeCheck_inst env _ w hinst, bind, Except.bind] at h
      cases w <;> simp only [] at h <;> try (cases h)
      rename_i kvs
      split at h
      · cases h
      · split at h
        · cases h
        · injection h with h; subst h
          exact ⟨rfl, by simp [Val.proper, Val.isMissing, Val.isNone]⟩
  · simp only [apply, gate_proper _ hf p w hp, typeCheck_inst env _ w hinst, bind, Except.bind] at h
    split at h
    · split at h
      · cases h
      · injection h with h; subst h; exact ⟨rfl, hp⟩
    · injection h with h; subst h; exact ⟨rfl, hp⟩

theorem fragList_mem (cs : List Spec) (h : fragList cs = true) (c : Spec) (hc : c ∈ cs) :
    frag c = true := by
  induction cs with
  | nil => cases hc
  | cons d ds ih =>
    simp only [fragList, Bool.and_eq_true] at h
    simp only [List.mem_cons] at hc
    rcases hc with hc | hc
    · subst hc; exact h.1
    · exact ih h.2 hc

/-- **Idempotence for simple unions** of fragment candidates (any flags on the union itself). -/
theorem apply_idem_union (env : Env) (cands : List Spec) (f : Flags) (hs : simpleUnion cands = true)
    (hfr : fragList cands = true) (p : Bool) (v v' : Val)
    (h : apply env (.union cands f) p v = .ok v') : apply env (.union cands f) p v' = .ok v' := by
  simp only [simpleUnion, Bool.and_eq_true] at hs
  obtain ⟨hl, hd⟩ := hs
  obtain ⟨ts, hts, hmem⟩ := vtUnion_leaf cands hl
  simp only [apply] at h ⊢
  refine gate_idem f p v v' _ (fun w w' hw hk => ?_) h
  simp only [hts, bind, Except.bind] at hk ⊢
  cases htc : typeCheck env (some ts) w with
  | error e => simp [htc] at hk
  | ok w1 =>
    simp only [htc] at hk
    obtain ⟨_, hp1⟩ := typeCheck_ok env (some ts) w w1 hw htc
    -- `w1` is an instance of one of the candidate types
    have hi1 : instOf env w1 ts = true := by
      unfold typeCheck at htc
      simp only at htc
      split at htc
      · injection htc with htc; subst htc; assumption
      · split at htc
        · rename_i hc
          injection htc with htc; subst htc
          exact (convert_inst env w _ ts hc).1
        · cases htc
    unfold instOf at hi1
    obtain ⟨t, htin, hsub⟩ := List.any_eq_true.mp hi1
    obtain ⟨d, hdm, htd⟩ := vtUnion_mem_inv cands ts t hl hts htin
    have hdok := (List.all_eq_true.mp hl) d hdm
    simp only [candOk, Bool.and_eq_true, Bool.not_eq_true'] at hdok
    rw [unionStrong_hit env cands hd hl p w1 d hdm t htd hsub] at hk
    simp only at hk
    obtain ⟨hty, hp'⟩ := apply_leaf_ty env d t htd hdok.2 p w1 w' hp1 hsub hk
    have hidem := apply_idem_frag env d (fragList_mem cands hfr d hdm) p w1 w' hk
    refine ⟨hp', ?_⟩
    have hi' : instOf env w' ts = true := by
      unfold instOf
      exact List.any_eq_true.mpr ⟨t, htin, by rw [hty]; exact hsub⟩
    rw [typeCheck_inst env ts w' hi']
    simp only
    rw [unionStrong_hit env cands hd hl p w' d hdm t htd (by rw [hty]; exact hsub)]
    exact hidem

end Pg.Typing
