/-
  Helper lemmas for C18 (PgProps/C18.lean): Python-dict primitives, the two phases of the
  language binding rule, and the loops of the functor model.
-/
import PgModel.Call
namespace Pg.C18

theorem kget_nil (k : Name) : kget [] k = none := rfl

theorem kget_cons (k' : Name) (v : V) (r : KW) (k : Name) :
    kget ((k', v) :: r) k = if k' = k then some v else kget r k := rfl

theorem kget_append (a b : KW) (k : Name) :
    kget (a ++ b) k = match kget a k with
      | some v => some v
      | none => kget b k := by
  induction a with
  | nil => simp [kget]
  | cons p r ih =>
    obtain ⟨k', v⟩ := p
    simp only [List.cons_append, kget_cons]
    split <;> simp_all

theorem kget_eq_none_iff (m : KW) (k : Name) : kget m k = none ↔ k ∉ keys m := by
  induction m with
  | nil => simp [kget, keys]
  | cons p r ih =>
    obtain ⟨k', v⟩ := p
    simp only [keys] at ih
    simp only [kget_cons, keys, List.map_cons, List.mem_cons]
    grind

theorem khas_iff (m : KW) (k : Name) : khas m k = true ↔ k ∈ keys m := by
  have := kget_eq_none_iff m k
  unfold khas
  cases h : kget m k <;> simp_all

theorem khas_false_iff (m : KW) (k : Name) : khas m k = false ↔ kget m k = none := by
  unfold khas; cases kget m k <;> simp

theorem kget_kset (m : KW) (k : Name) (v : V) (k' : Name) :
    kget (kset m k v) k' = if k = k' then some v else kget m k' := by
  induction m with
  | nil => simp [kset, kget]
  | cons p r ih =>
    obtain ⟨k0, v0⟩ := p
    simp only [kset]
    split <;> simp only [kget_cons, ih] <;> grind

theorem keys_kset (m : KW) (k : Name) (v : V) :
    keys (kset m k v) = if k ∈ keys m then keys m else keys m ++ [k] := by
  induction m with
  | nil => simp [kset, keys]
  | cons p r ih =>
    obtain ⟨k0, v0⟩ := p
    simp only [keys] at ih
    simp only [kset]
    split <;> simp only [keys, List.map_cons, List.mem_cons, ih] <;> grind

theorem nodup_keys_kset (m : KW) (k : Name) (v : V) (h : (keys m).Nodup) :
    (keys (kset m k v)).Nodup := by
  rw [keys_kset]
  split
  · exact h
  · rename_i hk
    rw [List.nodup_append]
    refine ⟨h, by simp, ?_⟩
    intro a ha b hb
    simp at hb; subst hb
    intro e; subst e; exact hk ha

theorem filter_kset (P : Name → Bool) (m : KW) (k : Name) (v : V) :
    (kset m k v).filter (fun p => P p.1) =
      if P k then kset (m.filter (fun p => P p.1)) k v else m.filter (fun p => P p.1) := by
  induction m with
  | nil => by_cases hk : P k <;> simp [kset, hk]
  | cons p r ih =>
    obtain ⟨k0, v0⟩ := p
    simp only [kset]
    split
    · rename_i h; subst h
      simp only [List.filter_cons]
      split <;> simp_all [kset]
    · rename_i h
      simp only [List.filter_cons, ih]
      by_cases hk : P k <;> by_cases hk0 : P k0 <;> simp [hk, hk0, kset, h]

theorem mergeKw_nil (m : KW) : mergeKw m [] = m := by cases m <;> rfl
theorem mergeKw_cons (m : KW) (k : Name) (v : V) (r : KW) :
    mergeKw m ((k, v) :: r) = mergeKw (kset m k v) r := by cases m <;> rfl

theorem filter_mergeKw (P : Name → Bool) (m m' : KW) :
    (mergeKw m m').filter (fun p => P p.1) =
      mergeKw (m.filter (fun p => P p.1)) (m'.filter (fun p => P p.1)) := by
  induction m' generalizing m with
  | nil => simp [mergeKw_nil]
  | cons p r ih =>
    obtain ⟨k, v⟩ := p
    rw [mergeKw_cons, ih, filter_kset]
    by_cases hk : P k <;> simp [hk, mergeKw_cons]

theorem kget_mergeKw (m m' : KW) (h : (keys m').Nodup) (k : Name) :
    kget (mergeKw m m') k = match kget m' k with
      | some v => some v
      | none => kget m k := by
  induction m' generalizing m with
  | nil => simp [mergeKw_nil, kget]
  | cons p r ih =>
    obtain ⟨k0, v0⟩ := p
    simp only [keys, List.map_cons, List.nodup_cons] at h
    have hn : kget r k0 = none := (kget_eq_none_iff r k0).2 h.1
    rw [mergeKw_cons, ih _ h.2, kget_cons, kget_kset]
    by_cases hk : k0 = k
    · subst hk; simp [hn]
    · simp [hk]

theorem nodup_keys_mergeKw (m m' : KW) (h : (keys m).Nodup) : (keys (mergeKw m m')).Nodup := by
  induction m' generalizing m with
  | nil => simpa [mergeKw_nil] using h
  | cons p r ih =>
    obtain ⟨k, v⟩ := p
    rw [mergeKw_cons]
    exact ih _ (nodup_keys_kset m k v h)

theorem mem_keys_mergeKw (m m' : KW) (k : Name) :
    k ∈ keys (mergeKw m m') ↔ k ∈ keys m ∨ k ∈ keys m' := by
  induction m' generalizing m with
  | nil => simp [mergeKw_nil, keys]
  | cons p r ih =>
    obtain ⟨k0, v0⟩ := p
    rw [mergeKw_cons, ih, keys_kset]
    simp only [keys, List.map_cons, List.mem_cons]
    by_cases h : k0 ∈ List.map (fun x => x.fst) m <;> simp only [h, if_true, if_false, List.mem_append, List.mem_singleton] <;> grind

theorem kget_filter (P : Name → Bool) (m : KW) (k : Name) :
    kget (m.filter (fun p => P p.1)) k = if P k then kget m k else none := by
  induction m with
  | nil => simp [kget]
  | cons p r ih =>
    obtain ⟨k0, v0⟩ := p
    simp only [List.filter_cons]
    split <;> simp only [kget_cons, ih] <;> grind

theorem keys_filter (P : Name → Bool) (m : KW) :
    keys (m.filter (fun p => P p.1)) = (keys m).filter P := by
  induction m with
  | nil => rfl
  | cons p r ih =>
    simp only [keys] at ih
    simp only [List.filter_cons, keys, List.map_cons]
    split <;> simp_all

theorem keys_append (a b : KW) : keys (a ++ b) = keys a ++ keys b := by simp [keys]

theorem keys_zip (ns : List Name) (vs : List V) : keys (ns.zip vs) = ns.take vs.length := by
  induction ns generalizing vs with
  | nil => simp [keys]
  | cons n r ih =>
    cases vs with
    | nil => simp [keys]
    | cons v vs =>
      simp only [keys] at ih
      simp [keys, ih]

theorem kget_zip_none (ns : List Name) (vs : List V) (k : Name) (h : k ∉ ns) :
    kget (ns.zip vs) k = none := by
  rw [kget_eq_none_iff, keys_zip]
  intro hk; exact h (List.mem_of_mem_take hk)


/-! ### the spec: keyword phase -/

def isNamed (s : Sig) (p : Name × V) : Bool := s.names.contains p.1

/-- Inversion of a successful keyword phase. -/
theorem bindKw_ok {s : Sig} {kws : KW} {n n' : Named} (h : bindKw s kws n = .ok n') :
    n'.named = n.named ++ kws.filter (fun p => s.names.contains p.1) ∧
    n'.va = n.va ∧
    n'.extra = n.extra ++ kws.filter (fun p => !s.names.contains p.1) ∧
    (∀ p ∈ kws, s.names.contains p.1 = true → kget n.named p.1 = none) ∧
    (∀ p ∈ kws, s.names.contains p.1 = false → s.varkw.isSome = true) := by
  induction kws generalizing n with
  | nil => simp [bindKw] at h; subst h; simp
  | cons p r ih =>
    obtain ⟨k, v⟩ := p
    simp only [bindKw] at h
    by_cases hk : s.names.contains k = true
    · have hkm : k ∈ s.names := by simpa using hk
      simp only [hk, if_true] at h
      by_cases hh : khas n.named k = true
      · simp [hh] at h
      · simp only [hh] at h
        have ih' := ih h
        simp only [Bool.not_eq_true, khas_false_iff] at hh
        refine ⟨?_, ih'.2.1, ?_, ?_, ?_⟩
        · rw [ih'.1]; simp [hkm]
        · rw [ih'.2.2.1]; simp [hkm]
        · intro p hp hpn
          rcases List.mem_cons.1 hp with rfl | hp
          · exact hh
          · have := ih'.2.2.2.1 p hp hpn
            rw [kget_append] at this
            cases h1 : kget n.named p.1 <;> simp_all
        · intro p hp hpn
          rcases List.mem_cons.1 hp with rfl | hp
          · simp_all
          · exact ih'.2.2.2.2 p hp hpn
    · have hkm : k ∉ s.names := by simpa using hk
      simp only [hk] at h
      by_cases hv : s.varkw.isSome = true
      · simp only [hv, if_true] at h
        by_cases hh : khas n.extra k = true
        · simp [hh] at h
        · simp only [hh] at h
          have ih' := ih h
          refine ⟨?_, ih'.2.1, ?_, ?_, ?_⟩
          · rw [ih'.1]; simp [hkm]
          · rw [ih'.2.2.1]; simp [hkm]
          · intro p hp hpn
            rcases List.mem_cons.1 hp with rfl | hp
            · simp_all
            · exact ih'.2.2.2.1 p hp hpn
          · intro p hp hpn
            rcases List.mem_cons.1 hp with rfl | hp
            · exact hv
            · exact ih'.2.2.2.2 p hp hpn
      · simp [hv] at h

/-- A keyword phase over fresh, pairwise distinct keywords succeeds, with this result. -/
theorem bindKw_of_fresh {s : Sig} {kws : KW} {n : Named}
    (hnd : (keys kws).Nodup)
    (h1 : ∀ p ∈ kws, s.names.contains p.1 = true → kget n.named p.1 = none)
    (h2 : ∀ p ∈ kws, s.names.contains p.1 = false → s.varkw.isSome = true ∧ kget n.extra p.1 = none) :
    bindKw s kws n = .ok ⟨n.named ++ kws.filter (fun p => s.names.contains p.1), n.va,
                          n.extra ++ kws.filter (fun p => !s.names.contains p.1)⟩ := by
  induction kws generalizing n with
  | nil => simp [bindKw]
  | cons p r ih =>
    obtain ⟨k, v⟩ := p
    simp only [keys, List.map_cons, List.nodup_cons] at hnd
    have hne : ∀ q ∈ r, q.1 ≠ k := by
      intro q hq e; exact hnd.1 (e ▸ List.mem_map.2 ⟨q, hq, rfl⟩)
    simp only [bindKw]
    by_cases hk : s.names.contains k = true
    · have hkm : k ∈ s.names := by simpa using hk
      have hg := h1 (k, v) (List.mem_cons_self ..) hk
      have hh : khas n.named k = false := (khas_false_iff _ _).2 hg
      simp only [hk, if_true, hh]
      rw [ih (n := { n with named := n.named ++ [(k, v)] }) hnd.2]
      · simp [hkm]
      · intro q hq hqn
        have := h1 q (List.mem_cons_of_mem _ hq) hqn
        rw [kget_append, this]
        simp [kget_cons, kget_nil, (hne q hq).symm]
      · intro q hq hqn
        exact h2 q (List.mem_cons_of_mem _ hq) hqn
    · have hk' : s.names.contains k = false := by simpa using hk
      have hkm : k ∉ s.names := by simpa using hk
      have hg := h2 (k, v) (List.mem_cons_self ..) hk'
      have hh : khas n.extra k = false := (khas_false_iff _ _).2 hg.2
      simp only [hk', hg.1, if_true, hh]
      rw [ih (n := { n with extra := n.extra ++ [(k, v)] }) hnd.2]
      · simp [hkm]
      · intro q hq hqn
        exact h1 q (List.mem_cons_of_mem _ hq) hqn
      · intro q hq hqn
        have := h2 q (List.mem_cons_of_mem _ hq) hqn
        refine ⟨this.1, ?_⟩
        rw [kget_append, this.2]
        simp [kget_cons, kget_nil, (hne q hq).symm]

theorem fill_congr {m m' : KW} {ps : List Param}
    (h : ∀ p ∈ ps, kget m p.name = kget m' p.name) : fill m ps = fill m' ps := by
  induction ps with
  | nil => rfl
  | cons p r ih =>
    simp only [fill]
    rw [h p (List.mem_cons_self ..), ih (fun q hq => h q (List.mem_cons_of_mem _ hq))]



theorem zip_take_right (ns : List Name) (vs : List V) : ns.zip (vs.take ns.length) = ns.zip vs := by
  induction ns generalizing vs with
  | nil => simp
  | cons n r ih => cases vs with
    | nil => simp
    | cons v vs => simp [ih]

/-- The canonical-call lemma: positional values for a prefix of the positional parameters,
surplus positionals only after all of them, fresh distinct keywords. -/
theorem nameArgs_canon (s : Sig) (vals va : List V) (kws : KW)
    (hlen : vals.length ≤ s.pos.length)
    (hva : va ≠ [] → vals.length = s.pos.length ∧ s.varargs.isSome = true)
    (hnd : (keys kws).Nodup)
    (h1 : ∀ p ∈ kws, s.names.contains p.1 = true → p.1 ∉ s.posNames.take vals.length)
    (h2 : ∀ p ∈ kws, s.names.contains p.1 = false → s.varkw.isSome = true) :
    nameArgs s ⟨vals ++ va, kws⟩ =
      .ok ⟨s.posNames.zip vals ++ kws.filter (fun p => s.names.contains p.1), va,
           kws.filter (fun p => !s.names.contains p.1)⟩ := by
  have hpl : s.posNames.length = s.pos.length := by simp [Sig.posNames]
  have hzip : s.posNames.zip (vals ++ va) = s.posNames.zip vals := by
    by_cases hv : va = []
    · subst hv; simp
    · have := (hva hv).1
      rw [← zip_take_right, hpl, ← this]; simp
  have hdrop : (vals ++ va).drop s.pos.length = va := by
    by_cases hv : va = []
    · subst hv; simp; omega
    · have := (hva hv).1
      rw [← this]; simp
  unfold nameArgs
  simp only [hzip, hdrop]
  rw [bindKw_of_fresh hnd]
  · simp only [List.nil_append]
    by_cases hv : va = []
    · subst hv; simp
    · have := (hva hv).2
      cases hvv : s.varargs <;> simp_all
  · intro p hp hpn
    rw [kget_eq_none_iff, keys_zip]
    exact h1 p hp hpn
  · intro p hp hpn
    exact ⟨h2 p hp hpn, rfl⟩

theorem complete_congr {s : Sig} {n n' : Named}
    (h : ∀ k ∈ s.names, kget n.named k = kget n'.named k) (hva : n.va = n'.va) (hex : n.extra = n'.extra) :
    complete s n = complete s n' := by
  unfold complete
  have hp : fill n.named s.pos = fill n'.named s.pos :=
    fill_congr (fun p hp => h _ (by simp [Sig.names, Sig.posNames]; exact Or.inl ⟨p, hp, rfl⟩))
  have hk : fill n.named s.kwonly = fill n'.named s.kwonly :=
    fill_congr (fun p hp => h _ (by simp [Sig.names, Sig.kwNames]; exact Or.inr ⟨p, hp, rfl⟩))
  rw [hp, hk, hva, hex]


/-! ### the functor's call-time loops -/

theorem posLoop_ok (spec : List Name) (ovr : Bool) (l kw : KW)
    (h : ovr = true ∨ ∀ p ∈ l, spec.contains p.1 = false) :
    posLoop spec ovr l kw = .ok (mergeKw kw l) := by
  induction l generalizing kw with
  | nil => simp [posLoop, mergeKw_nil]
  | cons p r ih =>
    obtain ⟨k, v⟩ := p
    have hc : (spec.contains k && !ovr) = false := by
      rcases h with h | h
      · simp only [h, Bool.not_true, Bool.and_false]
      · simp only [h (k, v) (List.mem_cons_self ..), Bool.false_and]
    simp only [posLoop, hc, mergeKw_cons]
    exact ih _ (h.imp id (fun h p hp => h p (List.mem_cons_of_mem _ hp)))

theorem posLoop_err (spec : List Name) (l kw : KW)
    (hb : ∃ p ∈ l, spec.contains p.1 = true) :
    posLoop spec false l kw = .error .typeError := by
  induction l generalizing kw with
  | nil => simp at hb
  | cons p r ih =>
    obtain ⟨k, v⟩ := p
    simp only [posLoop]
    by_cases hk : spec.contains k = true
    · simp only [hk, Bool.not_false, Bool.and_true, if_true]
    · obtain ⟨q, hq, hqs⟩ := hb
      rcases List.mem_cons.1 hq with rfl | hq
      · exact absurd hqs hk
      · have hk' : spec.contains k = false := by simpa using hk
        simp only [hk', Bool.false_and, Bool.false_eq_true, if_false]
        exact ih _ ⟨q, hq, hqs⟩

def keep (s : Sig) (p : Name × V) : Bool := s.names.contains p.1 || s.varkw.isSome

theorem kwLoop_ok (fix : Bool) (s : Sig) (spec positional : List Name) (ovr ign : Bool) (kws : KW)
    (st : CallState)
    (hpos : ∀ p ∈ kws, positional.contains p.1 = false)
    (hspec : ovr = true ∨ ∀ p ∈ kws, spec.contains p.1 = false)
    (hva : ∀ p ∈ kws, s.varargs ≠ some p.1)
    (hkeep : ign = true ∨ ∀ p ∈ kws, keep s p = true) :
    kwLoop fix s spec positional ovr ign kws st = .ok ⟨mergeKw st.kw (kws.filter (keep s)), st.slot⟩ := by
  induction kws generalizing st with
  | nil => simp [kwLoop, mergeKw_nil]
  | cons p r ih =>
    obtain ⟨k, v⟩ := p
    have h1 : positional.contains k = false := hpos (k, v) (List.mem_cons_self ..)
    have h2 : (spec.contains k && !ovr) = false := by
      rcases hspec with h | h
      · simp only [h, Bool.not_true, Bool.and_false]
      · simp only [h (k, v) (List.mem_cons_self ..), Bool.false_and]
    have h3 : (s.varargs == some k) = false := by
      have := hva (k, v) (List.mem_cons_self ..)
      simpa using this
    have ihr := fun st' => ih st' (fun p hp => hpos p (List.mem_cons_of_mem _ hp))
      (hspec.imp id (fun h p hp => h p (List.mem_cons_of_mem _ hp)))
      (fun p hp => hva p (List.mem_cons_of_mem _ hp))
      (hkeep.imp id (fun h p hp => h p (List.mem_cons_of_mem _ hp)))
    simp only [kwLoop, h1, Bool.and_false, h2]
    by_cases hn : s.names.contains k = true
    · have hkk : keep s (k, v) = true := by simp only [keep, hn, Bool.true_or]
      simp only [hn, if_true, Bool.false_eq_true, if_false]
      rw [ihr]
      simp only [List.filter_cons, hkk, if_true, mergeKw_cons]
    · have hn' : s.names.contains k = false := by simpa using hn
      by_cases hv : s.varkw.isSome = true
      · have hkk : keep s (k, v) = true := by simp only [keep, hv, Bool.or_true]
        simp only [hn', hv, h3, if_true, Bool.false_eq_true, if_false]
        rw [ihr]
        simp only [List.filter_cons, hkk, if_true, mergeKw_cons]
      · have hv' : s.varkw.isSome = false := by simpa using hv
        have hkk : keep s (k, v) = false := by simp only [keep, hn', hv', Bool.or_false]
        have hi : ign = true := by
          rcases hkeep with h | h
          · exact h
          · have := h (k, v) (List.mem_cons_self ..)
            rw [hkk] at this; cases this
        subst hi
        simp only [hn', hv', Bool.false_eq_true, if_false, Bool.not_true]
        rw [ihr]
        simp only [List.filter_cons, hkk, Bool.false_eq_true, if_false]

theorem kwLoop_err (s : Sig) (spec positional : List Name) (ovr ign : Bool) (kws : KW) (st : CallState)
    (hb : ∃ p ∈ kws, positional.contains p.1 = true ∨ (keep s p = false ∧ ign = false)
                      ∨ (spec.contains p.1 = true ∧ ovr = false)) :
    kwLoop true s spec positional ovr ign kws st = .error .typeError := by
  induction kws generalizing st with
  | nil => simp at hb
  | cons p r ih =>
    obtain ⟨k, v⟩ := p
    simp only [kwLoop]
    obtain ⟨q, hq, hbad⟩ := hb
    rcases List.mem_cons.1 hq with rfl | hq
    · rcases hbad with h | ⟨h1, h2⟩ | ⟨h1, h2⟩
      · have h' : positional.contains k = true := h
        simp only [h', Bool.and_true, if_true]
      · simp only [keep, Bool.or_eq_false_iff] at h1
        have h1a : s.names.contains k = false := h1.1
        have h1b : s.varkw.isSome = false := h1.2
        simp only [h1a, h1b, h2, Bool.not_false, Bool.false_eq_true, if_false, if_true]
        split <;> try rfl
        split <;> rfl
      · have h1' : spec.contains k = true := h1
        simp only [h1', h2, Bool.not_false, Bool.and_true, if_true]
        split <;> rfl
    · have ih' := fun st' => ih st' ⟨q, hq, hbad⟩
      split; · rfl
      split; · rfl
      split; · exact ih' _
      split
      · split <;> exact ih' _
      split; · rfl
      exact ih' _



theorem filterMap_congr' {α β : Type} {f g : α → Option β} {l : List α} (h : ∀ x ∈ l, f x = g x) :
    l.filterMap f = l.filterMap g := by
  induction l with
  | nil => rfl
  | cons a r ih =>
    simp only [List.filterMap_cons, h a (List.mem_cons_self ..)]
    rw [ih (fun x hx => h x (List.mem_cons_of_mem _ hx))]

theorem contains_false_iff {l : List Name} {a : Name} : l.contains a = false ↔ a ∉ l := by
  rw [← List.contains_iff_mem]; cases l.contains a <;> simp

def pval (kw : KW) (p : Param) : Option V := (kget kw p.name).orElse (fun _ => p.dflt)

theorem kget_kdel (m : KW) (a b : Name) (h : b ≠ a) : kget (kdel m a) b = kget m b := by
  unfold kdel
  rw [kget_filter (fun k => k != a)]
  simp [h]

theorem listArgs_spec (ps : List Param) (kw : KW) (hnd : (ps.map (·.name)).Nodup) :
    listArgs ps kw =
      (ps.filterMap (pval kw), (ps.filter (fun p => (pval kw p).isNone)).map (·.name),
       kw.filter (fun q => !(ps.map (·.name)).contains q.1)) := by
  induction ps generalizing kw with
  | nil =>
    simp only [listArgs, List.filterMap_nil, List.filter_nil, List.map_nil]
    refine Prod.ext rfl (Prod.ext rfl ?_)
    exact (List.filter_eq_self.2 (fun _ _ => rfl)).symm
  | cons p r ih =>
    simp only [List.map_cons, List.nodup_cons] at hnd
    have hne : ∀ q ∈ r, q.name ≠ p.name := fun q hq e => hnd.1 (e ▸ List.mem_map.2 ⟨q, hq, rfl⟩)
    simp only [listArgs]
    cases hg : kget kw p.name with
    | some v =>
      have hpv : pval kw p = some v := by simp [pval, hg]
      have hcongr : ∀ q ∈ r, pval (kdel kw p.name) q = pval kw q := by
        intro q hq; simp only [pval, kget_kdel _ _ _ (hne q hq)]
      simp only [ih _ hnd.2, List.filterMap_cons, hpv, List.filter_cons, Option.isNone_some,
        Bool.false_eq_true, if_false]
      rw [filterMap_congr' hcongr]
      refine Prod.ext rfl (Prod.ext ?_ ?_)
      · simp only
        congr 1
        apply List.filter_congr
        intro q hq; rw [hcongr q hq]
      · simp only [kdel, List.filter_filter]
        apply List.filter_congr
        intro q _
        show ((!(r.map (·.name)).contains q.1) && (q.1 != p.name)) = !(List.contains (p.name :: r.map (·.name)) q.1)
        rw [List.contains_cons]
        cases h : q.1 == p.name <;> simp [bne, h]
    | none =>
      have hk : kw.filter (fun q => !(List.contains (p.name :: r.map (·.name)) q.1))
          = kw.filter (fun q => !(r.map (·.name)).contains q.1) := by
        apply List.filter_congr
        intro q hq
        simp only [List.contains_cons, Bool.not_or]
        have : (q.1 == p.name) = false := by
          have : q.1 ∈ keys kw := List.mem_map.2 ⟨q, hq, rfl⟩
          have hn := (kget_eq_none_iff kw p.name).1 hg
          cases h : q.1 == p.name
          · rfl
          · simp at h; rw [h] at this; exact absurd this hn
        simp [this]
      cases hd : p.dflt with
      | some d =>
        have hpv : pval kw p = some d := by simp [pval, hg, hd]
        simp only [ih _ hnd.2, List.filterMap_cons, hpv, List.filter_cons, Option.isNone_some,
          Bool.false_eq_true, if_false, List.map_cons, hk]
      | none =>
        have hpv : pval kw p = none := by simp [pval, hg, hd]
        simp only [ih _ hnd.2, List.filterMap_cons, hpv, List.filter_cons, Option.isNone_none,
          if_true, List.map_cons, hk]

/-- `fill` in terms of `pval`. -/
theorem fill_ok_of_all (kw : KW) (ps : List Param) (h : ps.filter (fun p => (pval kw p).isNone) = []) :
    fill kw ps = .ok ((ps.map (·.name)).zip (ps.filterMap (pval kw))) ∧
    (ps.filterMap (pval kw)).length = ps.length := by
  induction ps with
  | nil => simp [fill]
  | cons p r ih =>
    simp only [List.filter_cons] at h
    cases hp : pval kw p with
    | none => simp [hp] at h
    | some v =>
      simp only [hp, Option.isNone_some, Bool.false_eq_true, if_false] at h
      have ih' := ih h
      have hp' : (kget kw p.name).orElse (fun _ => p.dflt) = some v := hp
      simp only [fill, hp', ih'.1, List.filterMap_cons, hp, List.map_cons, List.zip_cons_cons,
        List.length_cons, ih'.2]
      trivial

theorem fill_err_of_missing (kw : KW) (ps : List Param) (h : ps.filter (fun p => (pval kw p).isNone) ≠ []) :
    fill kw ps = .error .missingRequired := by
  induction ps with
  | nil => simp at h
  | cons p r ih =>
    cases hp : pval kw p with
    | none =>
      have hp' : (kget kw p.name).orElse (fun _ => p.dflt) = none := hp
      simp only [fill, hp']
    | some v =>
      have hp' : (kget kw p.name).orElse (fun _ => p.dflt) = some v := hp
      simp only [List.filter_cons, hp, Option.isNone_some, Bool.false_eq_true, if_false] at h
      simp only [fill, hp', ih h]


theorem fill_ok_inv {kw : KW} {p : Param} {ps : List Param} {r : KW} (h : fill kw (p :: ps) = .ok r) :
    ∃ v r', (kget kw p.name).orElse (fun _ => p.dflt) = some v ∧ fill kw ps = .ok r' ∧ r = (p.name, v) :: r' := by
  simp only [fill] at h
  cases hv : (kget kw p.name).orElse (fun _ => p.dflt) with
  | none => rw [hv] at h; cases h
  | some v =>
    rw [hv] at h
    cases hr : fill kw ps with
    | error e => rw [hr] at h; cases h
    | ok r' => rw [hr] at h; cases h; exact ⟨v, r', rfl, rfl, rfl⟩

theorem fill_append_self {ps : List Param} {kw rest r : KW} (hnd : (ps.map (·.name)).Nodup)
    (h : fill kw ps = .ok r) : fill (r ++ rest) ps = .ok r := by
  induction ps generalizing r with
  | nil => simp only [fill] at h ⊢; exact h
  | cons p ps ih =>
    obtain ⟨v, r', hv, hr, rfl⟩ := fill_ok_inv h
    simp only [List.map_cons, List.nodup_cons] at hnd
    have hc : fill ((p.name, v) :: (r' ++ rest)) ps = fill (r' ++ rest) ps := by
      apply fill_congr
      intro q hq
      have : p.name ≠ q.name := fun e => hnd.1 (e ▸ List.mem_map.2 ⟨q, hq, rfl⟩)
      simp only [kget_cons, this, if_false]
    have hk : kget ((p.name, v) :: (r' ++ rest)) p.name = some v := by simp [kget_cons]
    rw [List.cons_append]
    simp only [fill, hk, Option.orElse_some, hc, ih hnd.2 hr]

theorem Sig.wf_nodup {s : Sig} (h : s.wf = true) : s.allNames.Nodup := by
  simp only [Sig.wf, Bool.and_eq_true, decide_eq_true_eq] at h; exact h.1

theorem Sig.wf_names_nodup {s : Sig} (h : s.wf = true) : s.names.Nodup := by
  have := Sig.wf_nodup h
  simp only [Sig.allNames, List.append_assoc] at this
  exact (List.nodup_append.1 this).1

theorem Sig.wf_pos_nodup {s : Sig} (h : s.wf = true) : s.posNames.Nodup :=
  (List.nodup_append.1 (Sig.wf_names_nodup h)).1

theorem Sig.wf_kw_not_pos {s : Sig} (h : s.wf = true) {k : Name} (hk : k ∈ s.kwNames) : k ∉ s.posNames := by
  intro hp
  exact (List.nodup_append.1 (Sig.wf_names_nodup h)).2.2 k hp k hk rfl

theorem Sig.pos_sub_names (s : Sig) {k : Name} (hk : k ∈ s.posNames) : s.names.contains k = true :=
  List.contains_iff_mem.2 (List.mem_append_left _ hk)

/-- The call the functor hands to the wrapped function binds like phase 2 applied to the
functor's final `keyword_args`. -/
theorem pyBind_final (s : Sig) (hwf : s.wf = true) (kw : KW) (va : List V)
    (hnd : (keys kw).Nodup)
    (hex : ∀ p ∈ kw, s.names.contains p.1 = false → s.varkw.isSome = true)
    (hva : va ≠ [] → s.varargs.isSome = true) :
    ((listArgs s.pos kw).2.1 ≠ [] →
        complete s ⟨kw, va, kw.filter (fun p => !s.names.contains p.1)⟩ = .error .missingRequired) ∧
    ((listArgs s.pos kw).2.1 = [] →
        pyBind s ⟨(listArgs s.pos kw).1 ++ va, (listArgs s.pos kw).2.2⟩ =
          complete s ⟨kw, va, kw.filter (fun p => !s.names.contains p.1)⟩) := by
  have hpn := Sig.wf_pos_nodup hwf
  have hpn' : (s.pos.map (·.name)).Nodup := hpn
  rw [listArgs_spec s.pos kw hpn']
  simp only
  constructor
  · intro hm
    have hm' : s.pos.filter (fun p => (pval kw p).isNone) ≠ [] := by
      intro e; rw [e] at hm; exact hm rfl
    simp only [complete, fill_err_of_missing kw s.pos hm']
  · intro hm
    have hm' : s.pos.filter (fun p => (pval kw p).isNone) = [] := by
      cases hf : s.pos.filter (fun p => (pval kw p).isNone) with
      | nil => rfl
      | cons a r => rw [hf] at hm; cases hm
    obtain ⟨hfill, hlen⟩ := fill_ok_of_all kw s.pos hm'
    have hkw2 : ∀ p ∈ kw.filter (fun q => !(s.pos.map (·.name)).contains q.1), p ∈ kw ∧ p.1 ∉ s.posNames := by
      intro p hp
      rw [List.mem_filter] at hp
      refine ⟨hp.1, ?_⟩
      intro hc
      have : (s.pos.map (·.name)).contains p.1 = true := List.contains_iff_mem.2 hc
      rw [this] at hp; simp at hp
    unfold pyBind
    rw [nameArgs_canon s _ va _ (by omega) (fun h => ⟨hlen, hva h⟩)]
    · simp only
      have hz : s.posNames.zip (s.pos.filterMap (pval kw)) = (s.pos.map (·.name)).zip (s.pos.filterMap (pval kw)) := rfl
      unfold complete
      simp only [hz, fill_append_self hpn' hfill, hfill]
      have hkwonly : fill ((s.pos.map (·.name)).zip (s.pos.filterMap (pval kw)) ++
            (kw.filter (fun q => !(s.pos.map (·.name)).contains q.1)).filter (fun p => s.names.contains p.1)) s.kwonly
          = fill kw s.kwonly := by
        apply fill_congr
        intro q hq
        have hqk : q.name ∈ s.kwNames := List.mem_map.2 ⟨q, hq, rfl⟩
        have hqp : q.name ∉ s.posNames := Sig.wf_kw_not_pos hwf hqk
        have hqn : s.names.contains q.name = true := List.contains_iff_mem.2 (List.mem_append_right _ hqk)
        have hz0 : kget ((s.pos.map (·.name)).zip (s.pos.filterMap (pval kw))) q.name = none :=
          kget_zip_none _ _ _ hqp
        rw [kget_append, hz0]
        simp only
        rw [kget_filter (fun k => s.names.contains k), hqn]
        simp only [if_true]
        rw [kget_filter (fun k => !(s.pos.map (·.name)).contains k)]
        have : (s.pos.map (·.name)).contains q.name = false := contains_false_iff.2 hqp
        simp only [this, Bool.not_false, if_true]
      rw [hkwonly]
      have hext : (kw.filter (fun q => !(s.pos.map (·.name)).contains q.1)).filter (fun p => !s.names.contains p.1)
          = kw.filter (fun p => !s.names.contains p.1) := by
        rw [List.filter_filter]
        apply List.filter_congr
        intro p _
        cases hn : s.names.contains p.1
        · have : (s.pos.map (·.name)).contains p.1 = false := by
            cases hc : (s.pos.map (·.name)).contains p.1
            · rfl
            · have : p.1 ∈ s.posNames := List.contains_iff_mem.1 hc
              rw [Sig.pos_sub_names s this] at hn; cases hn
          simp only [this, Bool.not_false, Bool.and_self]
        · simp only [Bool.not_true, Bool.false_and]
      rw [hext]
    · rw [keys_filter (fun k => !(s.pos.map (·.name)).contains k)]
      exact List.Nodup.sublist List.filter_sublist hnd
    · intro p hp _ hc
      exact (hkw2 p hp).2 (List.mem_of_mem_take hc)
    · intro p hp hn
      exact hex p (hkw2 p hp).1 hn



instance instDecEqExcept {ε α : Type} [DecidableEq ε] [DecidableEq α] : DecidableEq (Except ε α)
  | .ok a, .ok b => if h : a = b then isTrue (h ▸ rfl) else isFalse (fun e => by cases e; exact h rfl)
  | .error a, .error b => if h : a = b then isTrue (h ▸ rfl) else isFalse (fun e => by cases e; exact h rfl)
  | .ok _, .error _ => isFalse (fun e => by cases e)
  | .error _, .ok _ => isFalse (fun e => by cases e)

def toPyE {α : Type} : Except BindErr α → Except PyErr α
  | .ok a => .ok a
  | .error e => .error e.toPy

theorem pyCall_eq (s : Sig) (c : Call) : pyCall s c = toPyE (pyBind s c) := by
  unfold pyCall toPyE; cases pyBind s c <;> rfl

theorem kget_some_mem {m : KW} {k : Name} {v : V} (h : kget m k = some v) : (k, v) ∈ m := by
  induction m with
  | nil => cases h
  | cons p r ih =>
    obtain ⟨k0, v0⟩ := p
    rw [kget_cons] at h
    by_cases e : k0 = k
    · subst e; simp only [if_true] at h; cases h; exact List.mem_cons_self ..
    · simp only [e, if_false] at h; exact List.mem_cons_of_mem _ (ih h)

theorem mem_keys_of_mem {m : KW} {p : Name × V} (h : p ∈ m) : p.1 ∈ keys m := List.mem_map.2 ⟨p, h, rfl⟩

theorem exists_of_mem_keys {m : KW} {k : Name} (h : k ∈ keys m) : ∃ p ∈ m, p.1 = k := by
  obtain ⟨p, hp, e⟩ := List.mem_map.1 h; exact ⟨p, hp, e⟩

/-- "F was built from the supplied arguments n₁". -/
structure Built (s : Sig) (F : Functor) (n1 : Named) : Prop where
  sig : F.sig = s
  nodup : (keys F.bound).Nodup
  named : F.bound.filter (fun p => s.names.contains p.1) = n1.named
  extra : F.bound.filter (fun p => !s.names.contains p.1) = n1.extra
  extraVarkw : ∀ p ∈ F.bound, s.names.contains p.1 = false → s.varkw.isSome = true
  va : F.va.getD [] = n1.va
  vaSome : F.va.isSome = true → s.varargs.isSome = true
  noVaKey : ∀ p ∈ F.bound, s.varargs ≠ some p.1

theorem zip_filter_not_names (s : Sig) (vs : List V) :
    (s.posNames.zip vs).filter (fun p => !s.names.contains p.1) = [] := by
  rw [List.filter_eq_nil_iff]
  intro p hp
  have : p.1 ∈ s.posNames := (List.of_mem_zip hp).1
  simp only [Sig.pos_sub_names s this, Bool.not_true, Bool.false_eq_true, not_false_eq_true]


theorem dropExtras_zip (s : Sig) (c : Call) (ign : Bool) :
    s.posNames.zip (if ign = true then dropExtras s c else c).args = s.posNames.zip c.args := by
  cases ign
  · rfl
  · simp only [if_true, dropExtras]
    split
    · have : s.pos.length = s.posNames.length := by simp [Sig.posNames]
      rw [this, zip_take_right]
    · rfl

/-- The central lemma: what a functor built from `n₁` computes when called with arguments that
name to `n₂` (patched code, fix F29). -/
theorem functorCall_eq (s : Sig) (hwf : s.wf = true) (F : Functor) (n1 n2 : Named) (hB : Built s F n1)
    (c2 : Call) (ovr? ign? : Option Bool)
    (hc2 : c2.wf = true) (hav : ∀ p ∈ c2.kwargs, s.varargs ≠ some p.1)
    (hn2 : nameArgs s (if ign?.getD F.ignoreExtraArgs = true then dropExtras s c2 else c2) = .ok n2)
    (hcompat : ovr?.getD F.overrideArgs = true ∨ conflicts n1 n2 = false) :
    functorCall true F c2 ovr? ign? = toPyE (complete s (mergeNamed n1 n2)) := by
  obtain ⟨hsig, hnd, hnamed, hextra, hexv, hva, hvas, hnovk⟩ := hB
  have hc2nd : (keys c2.kwargs).Nodup := by simpa [Call.wf] using hc2
  have hpn := Sig.wf_pos_nodup hwf
  have hall := Sig.wf_nodup hwf
  -- the *args name is not a parameter name
  have hvn : ∀ vn, s.varargs = some vn → vn ∉ s.names := by
    intro vn hv hmem
    simp only [Sig.allNames, hv, Option.toList_some, List.append_assoc] at hall
    have := (List.nodup_append.1 hall).2.2 vn hmem vn (by simp) 
    exact this rfl
  generalize hign : ign?.getD F.ignoreExtraArgs = ign at hn2
  generalize hovr : ovr?.getD F.overrideArgs = ovr at hcompat
  have hzip := dropExtras_zip s c2 ign
  generalize hc2' : (if ign = true then dropExtras s c2 else c2) = c2' at hn2 hzip
  unfold nameArgs at hn2
  cases hb : bindKw s c2'.kwargs ⟨s.posNames.zip c2'.args, c2'.args.drop s.pos.length, []⟩ with
  | error e => rw [hb] at hn2; cases hn2
  | ok n =>
    rw [hb] at hn2
    simp only at hn2
    split at hn2
    · cases hn2
    · rename_i htm
      cases hn2
      obtain ⟨hnm, hnva, hnex, hfresh, hvk⟩ := bindKw_ok hb
      simp only [List.nil_append] at hnex
      simp only at hnva hfresh
      rw [hzip] at hnm hfresh
      -- (B) the keywords that survive
      have hkws : c2'.kwargs = c2.kwargs.filter (keep s) := by
        subst hc2'
        cases hi : ign
        · simp only [Bool.false_eq_true, if_false]
          symm; rw [List.filter_eq_self]
          intro p hp
          simp only [hi, Bool.false_eq_true, if_false] at hvk
          unfold keep
          cases hn : s.names.contains p.1
          · simp only [hvk p hp hn, Bool.or_true]
          · rfl
        · simp only [if_true, dropExtras]
          cases hv : s.varkw with
          | none =>
            simp only [Option.isNone_none, if_true]
            apply List.filter_congr; intro p _; simp [keep, hv]
          | some w =>
            simp only [Option.isNone_some, Bool.false_eq_true, if_false]
            symm; rw [List.filter_eq_self]; intro p _; simp [keep, hv]
      -- (C) the arity check of the functor passes
      have hfirst : (decide (c2.args.length > s.pos.length) && s.varargs.isNone && !ign) = false := by
        cases hi : ign
        · subst hc2'
          simp only [hi, Bool.false_eq_true, if_false] at htm hnva
          cases hv : s.varargs.isNone
          · simp
          · rw [hv] at htm
            simp only [Bool.and_true, Bool.not_eq_true', Bool.not_eq_false] at htm
            have : n2.va = [] := by simpa using htm
            rw [hnva, List.drop_eq_nil_iff] at this
            simp; omega
        · simp
      -- (D) the surplus positionals seen by the functor
      have hcallva : (if s.varargs.isSome = true then c2.args.drop s.pos.length else []) = n2.va := by
        cases hv : s.varargs with
        | none =>
          simp only [Option.isSome_none, Bool.false_eq_true, if_false]
          rw [hv] at htm
          simp only [Option.isNone_none, Bool.and_true, Bool.not_eq_true', Bool.not_eq_false] at htm
          symm; simpa using htm
        | some vn =>
          simp only [Option.isSome_some, if_true]
          subst hc2'
          rw [hnva]
          cases ign
          · rfl
          · simp [dropExtras, hv]
      have hspec_mem : ∀ k, F.specified.contains k = true → k ∈ keys F.bound ∨ s.varargs = some k := by
        intro k hk
        have hm := List.contains_iff_mem.1 hk
        unfold Functor.specified at hm
        rw [hsig] at hm
        rcases List.mem_append.1 hm with h | h
        · exact Or.inl h
        · right
          cases hv : s.varargs with
          | none => simp [hv] at h
          | some vn =>
            cases hfa : F.va with
            | none => simp [hv, hfa] at h
            | some xs => simp [hv, hfa] at h; rw [h]
      have hnotspec : ∀ k, k ∉ keys F.bound → s.varargs ≠ some k → F.specified.contains k = false := by
        intro k h1 h2
        cases hc : F.specified.contains k
        · rfl
        · rcases hspec_mem k hc with h | h
          · exact absurd h h1
          · exact absurd h h2
      have hk1n : ∀ k, s.names.contains k = true → k ∈ keys F.bound → k ∈ keys n1.named := by
        intro k hn hk
        rw [← hnamed, keys_filter (fun k => s.names.contains k), List.mem_filter]; exact ⟨hk, hn⟩
      have hk1e : ∀ k, s.names.contains k = false → k ∈ keys F.bound → k ∈ keys n1.extra := by
        intro k hn hk
        rw [← hextra, keys_filter (fun k => !s.names.contains k), List.mem_filter]; exact ⟨hk, by rw [hn]; rfl⟩
      have hconf : ovr = true ∨ ((∀ p ∈ n2.named, p.1 ∉ keys n1.named) ∧ (∀ p ∈ n2.extra, p.1 ∉ keys n1.extra)) := by
        rcases hcompat with h | h
        · exact Or.inl h
        · right
          simp only [conflicts, Bool.or_eq_false_iff, List.any_eq_false] at h
          exact ⟨fun p hp hk => h.1 p hp ((khas_iff _ _).2 hk), fun p hp hk => h.2 p hp ((khas_iff _ _).2 hk)⟩
      have hvne : ∀ k, s.names.contains k = true → s.varargs ≠ some k := by
        intro k hk hv; exact hvn k hv (List.contains_iff_mem.1 hk)
      -- positional loop
      have hpl : posLoop F.specified ovr (s.posNames.zip c2.args) F.bound
          = .ok (mergeKw F.bound (s.posNames.zip c2.args)) := by
        apply posLoop_ok
        rcases hconf with h | h
        · exact Or.inl h
        · right
          intro p hp
          have hpn' : s.names.contains p.1 = true := Sig.pos_sub_names s (List.of_mem_zip hp).1
          apply hnotspec
          · intro hk
            exact h.1 p (by rw [hnm]; exact List.mem_append_left _ hp) (hk1n _ hpn' hk)
          · exact hvne _ hpn'
      -- keyword loop
      have hkl : ∀ slot, kwLoop true s F.specified (keys (s.posNames.zip c2.args)) ovr ign c2.kwargs
            ⟨mergeKw F.bound (s.posNames.zip c2.args), slot⟩
          = .ok ⟨mergeKw (mergeKw F.bound (s.posNames.zip c2.args)) c2'.kwargs, slot⟩ := by
        intro slot
        rw [hkws]
        apply kwLoop_ok
        · intro p hp
          rw [contains_false_iff]
          cases hn : s.names.contains p.1
          · intro hk
            rw [keys_zip] at hk
            have := Sig.pos_sub_names s (List.mem_of_mem_take hk)
            rw [hn] at this; cases this
          · have hp' : p ∈ c2'.kwargs := by
              rw [hkws, List.mem_filter]; exact ⟨hp, by simp only [keep, hn, Bool.true_or]⟩
            rw [← kget_eq_none_iff]
            exact hfresh p hp' hn
        · rcases hconf with h | h
          · exact Or.inl h
          · right
            intro p hp
            apply hnotspec _ _ (hav p hp)
            intro hk
            cases hn : s.names.contains p.1
            · obtain ⟨q, hq, hqe⟩ := exists_of_mem_keys hk
              have hvk' := hexv q hq (by rw [hqe]; exact hn)
              have hp' : p ∈ c2'.kwargs := by
                rw [hkws, List.mem_filter]; exact ⟨hp, by simp only [keep, hvk', Bool.or_true]⟩
              exact h.2 p (by rw [hnex, List.mem_filter]; exact ⟨hp', by rw [hn]; rfl⟩) (hk1e _ hn hk)
            · have hp' : p ∈ c2'.kwargs := by
                rw [hkws, List.mem_filter]; exact ⟨hp, by simp only [keep, hn, Bool.true_or]⟩
              exact h.1 p (by rw [hnm]; exact List.mem_append_right _ (List.mem_filter.2 ⟨hp', hn⟩)) (hk1n _ hn hk)
        · exact hav
        · cases hi : ign
          · right
            intro p hp
            have : c2' = c2 := by subst hc2'; simp [hi]
            rw [this] at hvk
            unfold keep
            cases hn : s.names.contains p.1
            · simp only [hvk p hp hn, Bool.or_true]
            · rfl
          · exact Or.inl rfl
      have hzipnd : (keys (s.posNames.zip c2.args)).Nodup := by
        rw [keys_zip]; exact List.Nodup.sublist (List.take_sublist _ _) hpn
      have hkws2nd : (keys c2'.kwargs).Nodup := by
        rw [hkws]
        have : keys (c2.kwargs.filter (keep s)) = (keys c2.kwargs).filter (fun k => s.names.contains k || s.varkw.isSome) :=
          keys_filter (fun k => s.names.contains k || s.varkw.isSome) c2.kwargs
        rw [this]; exact List.Nodup.sublist List.filter_sublist hc2nd
      have hn2nd : (keys n2.named).Nodup := by
        rw [hnm]
        simp only
        rw [keys_append, List.nodup_append]
        refine ⟨hzipnd, ?_, ?_⟩
        · rw [keys_filter (fun k => s.names.contains k)]
          exact List.Nodup.sublist List.filter_sublist hkws2nd
        · intro a ha b hb e
          subst e
          obtain ⟨q, hq, hqe⟩ := exists_of_mem_keys hb
          rw [List.mem_filter] at hq
          have := hfresh q hq.1 hq.2
          rw [hqe, kget_eq_none_iff] at this
          exact this ha
      have hn2end : (keys n2.extra).Nodup := by
        rw [hnex, keys_filter (fun k => !s.names.contains k)]
        exact List.Nodup.sublist List.filter_sublist hkws2nd
      -- the final keyword_args of the functor
      have hkwFnd : (keys (mergeKw (mergeKw F.bound (s.posNames.zip c2.args)) c2'.kwargs)).Nodup :=
        nodup_keys_mergeKw _ _ (nodup_keys_mergeKw _ _ hnd)
      have hkwFex : ∀ p ∈ mergeKw (mergeKw F.bound (s.posNames.zip c2.args)) c2'.kwargs,
          s.names.contains p.1 = false → s.varkw.isSome = true := by
        intro p hp hn
        have hk := mem_keys_of_mem hp
        rw [mem_keys_mergeKw, mem_keys_mergeKw] at hk
        rcases hk with (hk | hk) | hk
        · obtain ⟨q, hq, hqe⟩ := exists_of_mem_keys hk
          exact hexv q hq (by rw [hqe]; exact hn)
        · rw [keys_zip] at hk
          have := Sig.pos_sub_names s (List.mem_of_mem_take hk)
          rw [hn] at this; cases this
        · obtain ⟨q, hq, hqe⟩ := exists_of_mem_keys hk
          exact hvk q hq (by rw [hqe]; exact hn)
      have hcongr : complete s (mergeNamed n1 n2) =
          complete s ⟨mergeKw (mergeKw F.bound (s.posNames.zip c2.args)) c2'.kwargs, (mergeNamed n1 n2).va,
            (mergeKw (mergeKw F.bound (s.posNames.zip c2.args)) c2'.kwargs).filter (fun p => !s.names.contains p.1)⟩ := by
        apply complete_congr
        · intro k hk
          have hkc : s.names.contains k = true := List.contains_iff_mem.2 hk
          simp only [mergeNamed]
          rw [kget_mergeKw _ _ hn2nd, kget_mergeKw _ _ hkws2nd, kget_mergeKw _ _ hzipnd, hnm]
          simp only
          rw [kget_append, kget_filter (fun k => s.names.contains k), hkc, ← hnamed,
            kget_filter (fun k => s.names.contains k), hkc]
          simp only [if_true]
          cases h1 : kget c2'.kwargs k with
          | none => cases kget (s.posNames.zip c2.args) k <;> rfl
          | some v =>
            have := hfresh _ (kget_some_mem h1) hkc
            simp only at this
            rw [this]
        · rfl
        · simp only [mergeNamed]
          rw [filter_mergeKw (fun k => !s.names.contains k), filter_mergeKw (fun k => !s.names.contains k),
            zip_filter_not_names, mergeKw_nil, hextra, hnex]
      have hvaF : (mergeNamed n1 n2).va ≠ [] → s.varargs.isSome = true := by
        intro h
        cases hv : s.varargs with
        | some vn => rfl
        | none =>
          exfalso; apply h
          have h2 : n2.va = [] := by rw [← hcallva, hv]; rfl
          have h1 : n1.va = [] := by
            rw [← hva]
            cases hfa : F.va with
            | none => rfl
            | some xs => have := hvas (by rw [hfa]; rfl); rw [hv] at this; cases this
          simp [mergeNamed, h1, h2]
      have hfin := pyBind_final s hwf _ (mergeNamed n1 n2).va hkwFnd hkwFex hvaF
      rw [hcongr]
      unfold functorCall parseOverrides
      simp only [hsig, hign, hovr, hfirst, Bool.false_eq_true, if_false, hpl, hkl]
      generalize hla : listArgs s.pos (mergeKw (mergeKw F.bound (s.posNames.zip c2.args)) c2'.kwargs) = la at hfin
      obtain ⟨l, missing, kw2⟩ := la
      simp only at hfin ⊢
      cases missing with
      | cons m ms =>
        simp only [List.isEmpty_cons, Bool.not_false, if_true]
        rw [hfin.1 (by simp)]; rfl
      | nil =>
        simp only [List.isEmpty_nil, Bool.not_true, Bool.false_eq_true, if_false]
        rw [← hfin.2 rfl, hcallva]
        cases hv : s.varargs with
        | none =>
          have h2 : n2.va = [] := by rw [← hcallva, hv]; rfl
          have h1 : n1.va = [] := by
            rw [← hva]
            cases hfa : F.va with
            | none => rfl
            | some xs => have := hvas (by rw [hfa]; rfl); rw [hv] at this; cases this
          simp only [Option.isSome_none, Bool.false_eq_true, if_false, mergeNamed, h1, h2,
            List.isEmpty_nil, if_true, List.append_nil, pyCall_eq]
        | some vn =>
          simp only [Option.isSome_some, if_true, mergeNamed]
          cases hne : n2.va with
          | cons a r =>
            simp only [List.isEmpty_cons, Bool.not_false, if_true, Bool.false_eq_true, if_false, pyCall_eq]
          | nil =>
            simp only [List.isEmpty_nil, Bool.not_true, Bool.false_eq_true, if_false, if_true]
            rw [← hva]
            cases hfa : F.va with
            | none => simp only [Option.getD_none, List.append_nil, pyCall_eq]
            | some xs => simp only [Option.getD_some, pyCall_eq]



theorem initKw_ok {s : Sig} {vb : Bool} {kws b b' : KW} (h : initKw s vb kws b = .ok b') : b' = b ++ kws := by
  induction kws generalizing b with
  | nil => simp only [initKw] at h; cases h; simp
  | cons p r ih =>
    obtain ⟨k, v⟩ := p
    simp only [initKw] at h
    split at h
    · cases h
    · rw [ih h]; simp

theorem nameArgs_ok_inv {s : Sig} {c : Call} {n : Named} (h : nameArgs s c = .ok n) :
    n.named = s.posNames.zip c.args ++ c.kwargs.filter (fun p => s.names.contains p.1) ∧
    n.va = c.args.drop s.pos.length ∧
    n.extra = c.kwargs.filter (fun p => !s.names.contains p.1) ∧
    (∀ p ∈ c.kwargs, s.names.contains p.1 = true → kget (s.posNames.zip c.args) p.1 = none) ∧
    (∀ p ∈ c.kwargs, s.names.contains p.1 = false → s.varkw.isSome = true) ∧
    (n.va ≠ [] → s.varargs.isSome = true) := by
  unfold nameArgs at h
  cases hb : bindKw s c.kwargs ⟨s.posNames.zip c.args, c.args.drop s.pos.length, []⟩ with
  | error e => rw [hb] at h; cases h
  | ok n' =>
    rw [hb] at h
    simp only at h
    split at h
    · cases h
    · rename_i htm
      cases h
      obtain ⟨h1, h2, h3, h4, h5⟩ := bindKw_ok hb
      simp only [List.nil_append] at h3
      refine ⟨h1, h2, h3, h4, h5, ?_⟩
      intro hne
      cases hv : s.varargs with
      | some vn => rfl
      | none =>
        exfalso; apply htm
        rw [hv]
        cases hva : n.va with
        | nil => exact absurd hva hne
        | cons a r => rfl

theorem built_of_init (s : Sig) (hwf : s.wf = true) (c : Call) (o i : Bool) (F : Functor) (n1 : Named)
    (hc : c.wf = true) (hav : ∀ p ∈ c.kwargs, s.varargs ≠ some p.1)
    (hF : functorInit s c o i = .ok F) (hn : nameArgs s c = .ok n1) :
    Built s F n1 ∧ F.overrideArgs = o ∧ F.ignoreExtraArgs = i := by
  obtain ⟨hnm, hnva, hnex, hfresh, hvk, _⟩ := nameArgs_ok_inv hn
  have hcnd : (keys c.kwargs).Nodup := by simpa [Call.wf] using hc
  have hpn := Sig.wf_pos_nodup hwf
  have hall := Sig.wf_nodup hwf
  have hvn : ∀ vn, s.varargs = some vn → vn ∉ s.names := by
    intro vn hv hmem
    simp only [Sig.allNames, hv, Option.toList_some, List.append_assoc] at hall
    exact (List.nodup_append.1 hall).2.2 vn hmem vn (by simp) rfl
  unfold functorInit at hF
  simp only at hF
  split at hF
  · cases hF
  · rename_i h1
    cases hk : initKw s (if c.args.length > s.pos.length then some (c.args.drop s.pos.length) else none).isSome
        c.kwargs (s.posNames.zip c.args) with
    | error e => rw [hk] at hF; cases hF
    | ok bound =>
      rw [hk] at hF
      simp only at hF
      have hbound := initKw_ok hk
      split at hF
      · cases hF
      · split at hF
        · cases hF
        · cases hF
          refine ⟨⟨rfl, ?_, ?_, ?_, ?_, ?_, ?_, ?_⟩, rfl, rfl⟩
          · -- nodup
            simp only [hbound]
            rw [keys_append, List.nodup_append]
            refine ⟨?_, hcnd, ?_⟩
            · rw [keys_zip]; exact List.Nodup.sublist (List.take_sublist _ _) hpn
            · intro a ha b hb e
              subst e
              obtain ⟨q, hq, hqe⟩ := exists_of_mem_keys hb
              have hp : a ∈ s.posNames := by rw [keys_zip] at ha; exact List.mem_of_mem_take ha
              have := hfresh q hq (by rw [hqe]; exact Sig.pos_sub_names s hp)
              rw [hqe, kget_eq_none_iff] at this
              exact this ha
          · simp only [hbound, List.filter_append]
            rw [hnm]
            congr 1
            rw [List.filter_eq_self]
            intro p hp
            exact Sig.pos_sub_names s (List.of_mem_zip hp).1
          · simp only [hbound, List.filter_append, zip_filter_not_names, List.nil_append]
            rw [hnex]
          · intro p hp hnn
            simp only [hbound] at hp
            rcases List.mem_append.1 hp with hp | hp
            · have := Sig.pos_sub_names s (List.of_mem_zip hp).1
              rw [hnn] at this; cases this
            · exact hvk p hp hnn
          · simp only
            rw [hnva]
            split
            · rfl
            · rename_i hl
              simp only [Option.getD_none]
              symm; rw [List.drop_eq_nil_iff]; omega
          · simp only
            intro hs
            split at hs
            · rename_i hl
              cases hv : s.varargs with
              | some vn => rfl
              | none =>
                exfalso; apply h1
                simp [hl, hv]
            · cases hs
          · intro p hp
            simp only [hbound] at hp
            rcases List.mem_append.1 hp with hp | hp
            · intro hv
              exact hvn _ hv (List.mem_append_left _ (List.of_mem_zip hp).1)
            · exact hav p hp



theorem mergeKw_disjoint (a r : KW) (hnd : (keys r).Nodup) (hd : ∀ k ∈ keys r, k ∉ keys a) :
    mergeKw a r = a ++ r := by
  induction r generalizing a with
  | nil => simp [mergeKw_nil]
  | cons p r ih =>
    obtain ⟨k, v⟩ := p
    simp only [keys, List.map_cons, List.nodup_cons] at hnd
    have hk : k ∉ keys a := hd k (by simp [keys])
    have hks : kset a k v = a ++ [(k, v)] := by
      clear ih hd
      induction a with
      | nil => rfl
      | cons q a iha =>
        obtain ⟨k0, v0⟩ := q
        simp only [keys, List.map_cons, List.mem_cons, not_or] at hk
        have : ¬ k0 = k := fun e => hk.1 e.symm
        simp only [kset, this, if_false, List.cons_append]
        rw [iha hk.2]
    rw [mergeKw_cons, hks, ih _ hnd.2]
    · simp
    · intro k' hk' hmem
      rw [keys_append] at hmem
      rcases List.mem_append.1 hmem with h | h
      · exact hd k' (by simp only [keys, List.map_cons, List.mem_cons]; exact Or.inr hk') h
      · simp only [keys, List.map_cons, List.map_nil, List.mem_singleton] at h
        subst h; exact hnd.1 hk'

theorem nameArgs_empty (s : Sig) : nameArgs s Call.empty = .ok ⟨[], [], []⟩ := by
  simp [nameArgs, Call.empty, bindKw]

theorem mergeNamed_empty_right (n : Named) : mergeNamed n ⟨[], [], []⟩ = n := by
  cases n; simp [mergeNamed, mergeKw_nil]

theorem functorInit_empty (s : Sig) (o i : Bool) :
    functorInit s Call.empty o i = .ok ⟨s, [], none, defaultArgsOf s [] none, nonDefaultArgsOf s [] none, o, i⟩ := by
  simp [functorInit, Call.empty, initKw]

/-- Late binding, error side (patched code): arguments that the language cannot distribute
over the parameters are refused by the functor as well. -/
theorem functorCall_late_err (s : Sig) (o : Bool) (F : Functor)
    (hF : functorInit s Call.empty o false = .ok F) (c : Call) (hc : c.wf = true)
    (hav : ∀ p ∈ c.kwargs, s.varargs ≠ some p.1) (e : BindErr)
    (hn : nameArgs s c = .error e) :
    functorCall true F c none none = .error .typeError := by
  rw [functorInit_empty] at hF
  cases hF
  have hcnd : (keys c.kwargs).Nodup := by simpa [Call.wf] using hc
  unfold functorCall parseOverrides
  simp only [Option.getD_none]
  by_cases htm : (decide (c.args.length > s.pos.length) && s.varargs.isNone) = true
  · simp [htm]
  · have htm' : (decide (c.args.length > s.pos.length) && s.varargs.isNone && !false) = false := by
      cases h : (decide (c.args.length > s.pos.length) && s.varargs.isNone)
      · rfl
      · exact absurd h htm
    simp only [htm', Bool.false_eq_true, if_false]
    have hpl : posLoop (Functor.specified ⟨s, [], none, defaultArgsOf s [] none, nonDefaultArgsOf s [] none, o, false⟩) o
        (s.posNames.zip c.args) [] = .ok (mergeKw [] (s.posNames.zip c.args)) := by
      apply posLoop_ok
      right; intro p _
      simp only [Functor.specified, keys, List.map_nil, List.nil_append]
      cases s.varargs <;> rfl
    simp only [hpl]
    by_cases hbad : ∃ p ∈ c.kwargs, (keys (s.posNames.zip c.args)).contains p.1 = true ∨
        (keep s p = false ∧ false = false) ∨
        ((Functor.specified ⟨s, [], none, defaultArgsOf s [] none, nonDefaultArgsOf s [] none, o, false⟩).contains p.1 = true ∧ o = false)
    · rw [kwLoop_err s _ _ o false c.kwargs _ hbad]
    · exfalso
      -- no bad keyword: the keyword phase of the language succeeds, and so does the arity check
      have hgood : ∀ p ∈ c.kwargs, (keys (s.posNames.zip c.args)).contains p.1 = false ∧ keep s p = true := by
        intro p hp
        constructor
        · cases h : (keys (s.posNames.zip c.args)).contains p.1
          · rfl
          · exact absurd ⟨p, hp, Or.inl h⟩ hbad
        · cases h : keep s p
          · exact absurd ⟨p, hp, Or.inr (Or.inl ⟨h, rfl⟩)⟩ hbad
          · rfl
      have hb := bindKw_of_fresh (s := s) (kws := c.kwargs)
        (n := ⟨s.posNames.zip c.args, c.args.drop s.pos.length, []⟩) hcnd
        (fun p hp _ => by
          rw [kget_eq_none_iff]; exact contains_false_iff.1 (hgood p hp).1)
        (fun p hp hnn => by
          have := (hgood p hp).2
          simp only [keep, hnn, Bool.false_or] at this
          exact ⟨this, rfl⟩)
      unfold nameArgs at hn
      rw [hb] at hn
      simp only at hn
      split at hn
      · rename_i h
        apply htm
        simp only [Bool.and_eq_true, Bool.not_eq_true', List.isEmpty_eq_false_iff] at h
        simp only [Bool.and_eq_true, decide_eq_true_eq]
        refine ⟨?_, h.2⟩
        have := h.1
        rw [Ne, List.drop_eq_nil_iff] at this
        omega
      · cases hn



theorem nameArgs_nodup {s : Sig} {c : Call} {n : Named} (hwf : s.wf = true) (hc : c.wf = true)
    (h : nameArgs s c = .ok n) : (keys n.named).Nodup ∧ (keys n.extra).Nodup := by
  obtain ⟨hnm, _, hnex, hfresh, _, _⟩ := nameArgs_ok_inv h
  have hcnd : (keys c.kwargs).Nodup := by simpa [Call.wf] using hc
  have hpn := Sig.wf_pos_nodup hwf
  constructor
  · rw [hnm, keys_append, List.nodup_append]
    refine ⟨?_, ?_, ?_⟩
    · rw [keys_zip]; exact List.Nodup.sublist (List.take_sublist _ _) hpn
    · rw [keys_filter (fun k => s.names.contains k)]
      exact List.Nodup.sublist List.filter_sublist hcnd
    · intro a ha b hb e
      subst e
      obtain ⟨q, hq, hqe⟩ := exists_of_mem_keys hb
      rw [List.mem_filter] at hq
      have := hfresh q hq.1 hq.2
      rw [hqe, kget_eq_none_iff] at this
      exact this ha
  · rw [hnex, keys_filter (fun k => !s.names.contains k)]
    exact List.Nodup.sublist List.filter_sublist hcnd

theorem mergeNamed_empty_left {n : Named} (h1 : (keys n.named).Nodup) (h2 : (keys n.extra).Nodup) :
    mergeNamed ⟨[], [], []⟩ n = n := by
  cases n with
  | mk named va extra =>
    simp only [mergeNamed]
    rw [mergeKw_disjoint [] named h1 (fun _ _ h => by simp [keys] at h),
        mergeKw_disjoint [] extra h2 (fun _ _ h => by simp [keys] at h)]
    cases va <;> simp

theorem conflicts_empty_left (n : Named) : conflicts ⟨[], [], []⟩ n = false := by
  simp [conflicts, khas, kget]

theorem conflicts_empty_right (n : Named) : conflicts n ⟨[], [], []⟩ = false := by
  simp [conflicts]

theorem pyCall_of_named {s : Sig} {c : Call} {n : Named} (h : nameArgs s c = .ok n) :
    pyCall s c = toPyE (complete s n) := by
  rw [pyCall_eq]; unfold pyBind; rw [h]

theorem pyCall_of_named_err {s : Sig} {c : Call} {e : BindErr} (h : nameArgs s c = .error e) :
    pyCall s c = .error .typeError := by
  rw [pyCall_eq]; unfold pyBind; rw [h]; rfl



/-- An argument bound at construction and supplied again at call time without `override_args`
is refused (patched and pinned code alike go through the same tests; stated for the patched one). -/
theorem functorCall_conflict (s : Sig) (F : Functor) (n1 n2 : Named) (hB : Built s F n1)
    (c2 : Call) (ovr? ign? : Option Bool)
    (hn2 : nameArgs s (if ign?.getD F.ignoreExtraArgs = true then dropExtras s c2 else c2) = .ok n2)
    (hovr : ovr?.getD F.overrideArgs = false) (hconf : conflicts n1 n2 = true) :
    functorCall true F c2 ovr? ign? = .error .typeError := by
  obtain ⟨hsig, _, hnamed, hextra, _, _, _, _⟩ := hB
  obtain ⟨hnm, _, hnex, _, _, _⟩ := nameArgs_ok_inv hn2
  have hzip := dropExtras_zip s c2 (ign?.getD F.ignoreExtraArgs)
  rw [hzip] at hnm
  have hsub : ∀ p ∈ (if ign?.getD F.ignoreExtraArgs = true then dropExtras s c2 else c2).kwargs, p ∈ c2.kwargs := by
    intro p hp
    split at hp
    · simp only [dropExtras] at hp
      split at hp
      · exact (List.mem_filter.1 hp).1
      · exact hp
    · exact hp
  have hspec : ∀ k, k ∈ keys F.bound → F.specified.contains k = true := by
    intro k hk
    exact List.contains_iff_mem.2 (List.mem_append_left _ hk)
  have hk1 : ∀ k, khas n1.named k = true → k ∈ keys F.bound := by
    intro k hk
    rw [khas_iff, ← hnamed, keys_filter (fun k => s.names.contains k)] at hk
    exact (List.mem_filter.1 hk).1
  have hk2 : ∀ k, khas n1.extra k = true → k ∈ keys F.bound := by
    intro k hk
    rw [khas_iff, ← hextra, keys_filter (fun k => !s.names.contains k)] at hk
    exact (List.mem_filter.1 hk).1
  -- the offending argument is either positional or a keyword of this call
  have hoff : (∃ p ∈ s.posNames.zip c2.args, F.specified.contains p.1 = true) ∨
      (∃ p ∈ c2.kwargs, F.specified.contains p.1 = true) := by
    simp only [conflicts, Bool.or_eq_true, List.any_eq_true] at hconf
    rcases hconf with ⟨p, hp, hk⟩ | ⟨p, hp, hk⟩
    · rw [hnm] at hp
      rcases List.mem_append.1 hp with hp | hp
      · exact Or.inl ⟨p, hp, hspec _ (hk1 _ hk)⟩
      · exact Or.inr ⟨p, hsub p (List.mem_filter.1 hp).1, hspec _ (hk1 _ hk)⟩
    · rw [hnex] at hp
      exact Or.inr ⟨p, hsub p (List.mem_filter.1 hp).1, hspec _ (hk2 _ hk)⟩
  have hpo : parseOverrides true F c2 ovr? ign? = .error .typeError := by
    unfold parseOverrides
    simp only [hsig, hovr]
    split
    · rfl
    · rcases hoff with h | h
      · rw [posLoop_err _ _ _ h]
      · cases hp : posLoop F.specified false (s.posNames.zip c2.args) F.bound with
        | error e => cases e; rfl
        | ok kw1 =>
          simp only
          rw [kwLoop_err s _ _ false _ c2.kwargs _
            (by obtain ⟨p, hp, hs⟩ := h; exact ⟨p, hp, Or.inr (Or.inr ⟨hs, rfl⟩)⟩)]
  unfold functorCall
  rw [hpo]



theorem objKw_ok {vs : Bool} {s : Sig} {kws f f' : KW} (h : objKw vs s kws f = .ok f') :
    f' = f ++ kws ∧ ∀ p ∈ kws, kget f p.1 = none := by
  induction kws generalizing f with
  | nil => simp only [objKw] at h; cases h; simp
  | cons p r ih =>
    obtain ⟨k, v⟩ := p
    simp only [objKw] at h
    split at h
    · cases h
    · rename_i hc
      obtain ⟨h1, h2⟩ := ih h
      refine ⟨by rw [h1]; simp, ?_⟩
      intro q hq
      rcases List.mem_cons.1 hq with rfl | hq
      · simp only [Bool.or_eq_true, not_or, Bool.not_eq_true] at hc
        exact (khas_false_iff _ _).1 hc.1
      · have := h2 q hq
        rw [kget_append] at this
        cases h3 : kget f q.1 with
        | none => rfl
        | some w => rw [h3] at this; cases this

theorem objKw_of_fresh {s : Sig} {kws f : KW} (vs : Bool) (hnd : (keys kws).Nodup)
    (h1 : ∀ p ∈ kws, kget f p.1 = none) (h2 : ∀ p ∈ kws, s.varargs ≠ some p.1) :
    objKw vs s kws f = .ok (f ++ kws) := by
  induction kws generalizing f with
  | nil => simp [objKw]
  | cons p r ih =>
    obtain ⟨k, v⟩ := p
    simp only [keys, List.map_cons, List.nodup_cons] at hnd
    have hk : khas f k = false := (khas_false_iff _ _).2 (h1 (k, v) (List.mem_cons_self ..))
    have hv : (s.varargs == some k) = false := by
      have := h2 (k, v) (List.mem_cons_self ..); simpa using this
    simp only [objKw, hk, hv, Bool.and_false, Bool.or_false, Bool.false_eq_true, if_false]
    rw [ih hnd.2]
    · simp
    · intro q hq
      rw [kget_append, h1 q (List.mem_cons_of_mem _ hq)]
      have : k ≠ q.1 := fun e => hnd.1 (e ▸ mem_keys_of_mem hq)
      simp [kget_cons, kget_nil, this]
    · intro q hq; exact h2 q (List.mem_cons_of_mem _ hq)

/-- `withDefaults` is the result of `fill` when nothing is missing. -/
theorem withDefaults_eq (fields : KW) (ps : List Param) :
    withDefaults fields ps = ps.filterMap (fun p => (pval fields p).map fun v => (p.name, v)) := rfl

theorem fill_eq_withDefaults {fields : KW} {ps : List Param} {r : KW} (h : fill fields ps = .ok r) :
    withDefaults fields ps = r := by
  induction ps generalizing r with
  | nil => simp only [fill] at h; cases h; rfl
  | cons p ps ih =>
    obtain ⟨v, r', hv, hr, rfl⟩ := fill_ok_inv h
    simp only [withDefaults, List.filterMap_cons, hv, Option.map_some]
    have := ih hr
    simp only [withDefaults] at this
    rw [this]

theorem fill_keys {fields : KW} {ps : List Param} {r : KW} (h : fill fields ps = .ok r) :
    keys r = ps.map (·.name) := by
  induction ps generalizing r with
  | nil => simp only [fill] at h; cases h; rfl
  | cons p ps ih =>
    obtain ⟨v, r', _, hr, rfl⟩ := fill_ok_inv h
    simp only [keys, List.map_cons] at *
    rw [ih hr]

theorem fill_missing_iff (m : KW) (ps : List Param) :
    (∃ e, fill m ps = .error e) ↔ ∃ p ∈ ps, p.dflt.isNone = true ∧ khas m p.name = false := by
  induction ps with
  | nil => simp [fill]
  | cons p ps ih =>
    simp only [fill]
    cases hg : kget m p.name with
    | some v =>
      have hk : khas m p.name = true := by simp [khas, hg]
      simp only [Option.orElse_some]
      cases hf : fill m ps with
      | error e =>
        have := ih.1 ⟨e, hf⟩
        simp only [true_iff, exists_eq']
        obtain ⟨q, hq, h⟩ := this
        constructor
        · intro _; exact ⟨q, List.mem_cons_of_mem _ hq, h⟩
        · intro _; exact ⟨e, rfl⟩
      | ok r =>
        constructor
        · rintro ⟨e, he⟩; cases he
        · rintro ⟨q, hq, h1, h2⟩
          rcases List.mem_cons.1 hq with rfl | hq
          · rw [hk] at h2; cases h2
          · have := ih.2 ⟨q, hq, h1, h2⟩
            rw [hf] at this; obtain ⟨e, he⟩ := this; cases he
    | none =>
      have hk : khas m p.name = false := by simp [khas, hg]
      simp only [Option.orElse_none]
      cases hd : p.dflt with
      | none =>
        simp only
        constructor
        · intro _; exact ⟨p, List.mem_cons_self .., by simp [hd], hk⟩
        · intro _; exact ⟨_, rfl⟩
      | some d =>
        simp only
        cases hf : fill m ps with
        | error e =>
          obtain ⟨q, hq, h⟩ := ih.1 ⟨e, hf⟩
          constructor
          · intro _; exact ⟨q, List.mem_cons_of_mem _ hq, h⟩
          · intro _; exact ⟨e, rfl⟩
        | ok r =>
          constructor
          · rintro ⟨e, he⟩; cases he
          · rintro ⟨q, hq, h1, h2⟩
            rcases List.mem_cons.1 hq with rfl | hq
            · rw [hd] at h1; cases h1
            · have := ih.2 ⟨q, hq, h1, h2⟩
              rw [hf] at this; obtain ⟨e, he⟩ := this; cases he


theorem zip_keys_vals (r : KW) : (keys r).zip (r.map (·.2)) = r := by
  induction r with
  | nil => rfl
  | cons p r ih => simp only [keys, List.map_cons, List.zip_cons_cons] at *; rw [ih]

theorem split_fields {s : Sig} {c : Call} {n : Named} (h : nameArgs s c = .ok n) :
    (s.posNames.zip c.args ++ c.kwargs).filter (fun p => s.names.contains p.1) = n.named ∧
    (s.posNames.zip c.args ++ c.kwargs).filter (fun p => !s.names.contains p.1) = n.extra := by
  obtain ⟨hnm, _, hnex, _, _, _⟩ := nameArgs_ok_inv h
  constructor
  · rw [List.filter_append, hnm]
    congr 1
    rw [List.filter_eq_self]
    intro p hp
    exact Sig.pos_sub_names s (List.of_mem_zip hp).1
  · rw [List.filter_append, zip_filter_not_names, List.nil_append, hnex]

theorem Sig.wf_varargs_not_name {s : Sig} (hwf : s.wf = true) {vn : Name} (hv : s.varargs = some vn) :
    vn ∉ s.names := by
  have hall := Sig.wf_nodup hwf
  intro hmem
  simp only [Sig.allNames, hv, Option.toList_some, List.append_assoc] at hall
  exact (List.nodup_append.1 hall).2.2 vn hmem vn (by simp) rfl

theorem Sig.wf_kw_nodup {s : Sig} (h : s.wf = true) : s.kwNames.Nodup :=
  (List.nodup_append.1 (Sig.wf_names_nodup h)).2.1

/-- Direct construction of a symbolized class, success side of the naming phase. -/
theorem classInit_of_named (s : Sig) (hwf : s.wf = true) (c : Call) (hc : c.wf = true)
    (hav : ∀ p ∈ c.kwargs, s.varargs ≠ some p.1) (n : Named) (hn : nameArgs s c = .ok n) :
    classInit s c = toPyE (complete s n) := by
  obtain ⟨hnm, hnva, hnex, hfresh, hvk, hvas⟩ := nameArgs_ok_inv hn
  obtain ⟨hsn, hse⟩ := split_fields hn
  have hcnd : (keys c.kwargs).Nodup := by simpa [Call.wf] using hc
  have hpn := Sig.wf_pos_nodup hwf
  have hnd := nameArgs_nodup hwf hc hn
  -- (a)
  have ha : (s.varkw.isNone && c.kwargs.any (fun p => !(s.names.contains p.1) && s.varargs != some p.1)) = false := by
    cases hv : s.varkw with
    | some w => rfl
    | none =>
      simp only [Option.isNone_none, Bool.true_and, List.any_eq_false]
      intro p hp
      cases hnn : s.names.contains p.1
      · have := hvk p hp hnn; rw [hv] at this; cases this
      · simp
  -- (b)
  have hb : (!c.args.isEmpty && s.pos.isEmpty && s.kwonly.isEmpty && s.varargs.isNone && s.varkw.isNone) = false := by
    cases hargs : c.args with
    | nil => rfl
    | cons a r =>
      cases hp : s.pos with
      | cons p ps => simp
      | nil =>
        have : n.va ≠ [] := by rw [hnva, hp, hargs]; simp
        have := hvas this
        cases hv : s.varargs with
        | none => rw [hv] at this; cases this
        | some vn => simp
  -- (c)
  have hcc : (s.varargs.isNone && decide (c.args.length > s.pos.length)) = false := by
    cases hv : s.varargs with
    | some vn => rfl
    | none =>
      have : n.va = [] := by
        cases hva : n.va with
        | nil => rfl
        | cons a r => have := hvas (by rw [hva]; simp); rw [hv] at this; cases this
      rw [hnva, List.drop_eq_nil_iff] at this
      simp; omega
  -- (d)
  have hd : ∀ vs, objKw vs s c.kwargs (s.posNames.zip c.args) = .ok (s.posNames.zip c.args ++ c.kwargs) := by
    intro vs
    apply objKw_of_fresh vs hcnd _ hav
    intro p hp
    cases hnn : s.names.contains p.1
    · apply kget_zip_none
      intro hmem; rw [Sig.pos_sub_names s hmem] at hnn; cases hnn
    · exact hfresh p hp hnn
  -- (f)
  have hf : (s.posNames.zip c.args ++ c.kwargs).any (fun p => s.varargs == some p.1) = false := by
    rw [List.any_eq_false]
    intro p hp
    rcases List.mem_append.1 hp with hp | hp
    · intro h
      have hv : s.varargs = some p.1 := by simpa using h
      exact Sig.wf_varargs_not_name hwf hv (List.mem_append_left _ (List.of_mem_zip hp).1)
    · intro h
      exact hav p hp (by simpa using h)
  have hkeq : ∀ k, s.names.contains k = true → kget (s.posNames.zip c.args ++ c.kwargs) k = kget n.named k := by
    intro k hk
    rw [← hsn, kget_filter (fun k => s.names.contains k), hk]; rfl
  have hfp : fill (s.posNames.zip c.args ++ c.kwargs) s.pos = fill n.named s.pos :=
    fill_congr (fun p hp => hkeq _ (Sig.pos_sub_names s (List.mem_map.2 ⟨p, hp, rfl⟩)))
  have hfk : fill (s.posNames.zip c.args ++ c.kwargs) s.kwonly = fill n.named s.kwonly :=
    fill_congr (fun p hp => hkeq _ (List.contains_iff_mem.2 (List.mem_append_right _ (List.mem_map.2 ⟨p, hp, rfl⟩))))
  unfold classInit objectInit
  simp only [ha, hb, hcc, hd, hf, Bool.false_eq_true, if_false]
  by_cases hm : s.params.any (fun p => p.dflt.isNone && !khas (s.posNames.zip c.args ++ c.kwargs) p.name) = true
  · simp only [hm, if_true]
    -- some required parameter is missing: phase 2 fails as well
    rw [List.any_eq_true] at hm
    obtain ⟨p, hp, hpm⟩ := hm
    simp only [Bool.and_eq_true, Bool.not_eq_true'] at hpm
    simp only [Sig.params, List.mem_append] at hp
    unfold complete
    rcases hp with hp | hp
    · obtain ⟨e, he⟩ := (fill_missing_iff _ s.pos).2 ⟨p, hp, hpm⟩
      rw [← hfp, he]; rfl
    · cases h1 : fill n.named s.pos with
      | error e => rfl
      | ok a =>
        obtain ⟨e, he⟩ := (fill_missing_iff _ s.kwonly).2 ⟨p, hp, hpm⟩
        simp only
        rw [← hfk, he]; rfl
  · simp only [hm, Bool.false_eq_true, if_false]
    have hnomiss : ∀ ps, (∀ p ∈ ps, p ∈ s.params) → ∃ r, fill (s.posNames.zip c.args ++ c.kwargs) ps = .ok r := by
      intro ps hsub
      cases hfl : fill (s.posNames.zip c.args ++ c.kwargs) ps with
      | ok r => exact ⟨r, rfl⟩
      | error e =>
        exfalso; apply hm
        obtain ⟨p, hp, h1, h2⟩ := (fill_missing_iff _ ps).1 ⟨e, hfl⟩
        rw [List.any_eq_true]
        exact ⟨p, hsub p hp, by simp [h1, h2]⟩
    obtain ⟨rp, hrp⟩ := hnomiss s.pos (fun p hp => List.mem_append_left _ hp)
    obtain ⟨rk, hrk⟩ := hnomiss s.kwonly (fun p hp => List.mem_append_right _ hp)
    have hkrp : keys rp = s.posNames := fill_keys hrp
    have hkrk : keys rk = s.kwNames := fill_keys hrk
    unfold callInitCall
    simp only [fill_eq_withDefaults hrp, fill_eq_withDefaults hrk, hse]
    -- the surplus positionals handed over
    have hva' : (if (!c.args.isEmpty && s.varargs.isSome) = true then some (c.args.drop s.pos.length) else none).getD []
        = n.va := by
      rw [hnva]
      cases hargs : c.args with
      | nil => simp
      | cons a r =>
        cases hv : s.varargs with
        | some vn => simp
        | none =>
          have : n.va = [] := by
            cases hva : n.va with
            | nil => rfl
            | cons a r => have := hvas (by rw [hva]; simp); rw [hv] at this; cases this
          rw [hnva, hargs] at this
          simp [this]
    rw [hva', pyCall_eq]
    unfold pyBind
    have hlen : (rp.map (·.2)).length = s.pos.length := by
      rw [List.length_map, ← List.length_map (as := rp) (f := (·.1))]
      show (keys rp).length = _
      rw [hkrp]; simp [Sig.posNames]
    rw [nameArgs_canon s (rp.map (·.2)) n.va (rk ++ n.extra) (by omega) (fun h => ⟨hlen, hvas h⟩)]
    · -- named part and extras of the canonical call
      have hrkn : ∀ p ∈ rk, s.names.contains p.1 = true := by
        intro p hp
        apply List.contains_iff_mem.2
        apply List.mem_append_right
        rw [← hkrk]; exact mem_keys_of_mem hp
      have hexn : ∀ p ∈ n.extra, s.names.contains p.1 = false := by
        intro p hp
        rw [← hse, List.mem_filter] at hp
        simpa using hp.2
      have e1 : (rk ++ n.extra).filter (fun p => s.names.contains p.1) = rk := by
        rw [List.filter_append, List.filter_eq_self.2 hrkn, List.filter_eq_nil_iff.2 (fun p hp => by rw [hexn p hp]; simp)]
        simp
      have e2 : (rk ++ n.extra).filter (fun p => !s.names.contains p.1) = n.extra := by
        rw [List.filter_append, List.filter_eq_nil_iff.2 (fun p hp => by rw [hrkn p hp]; simp),
          List.filter_eq_self.2 (fun p hp => by rw [hexn p hp]; rfl)]
        simp
      have e3 : s.posNames.zip (rp.map (·.2)) = rp := by rw [← hkrp]; exact zip_keys_vals rp
      rw [e1, e2, e3]
      rw [hfp] at hrp
      rw [hfk] at hrk
      have hpn' : (s.pos.map (·.name)).Nodup := hpn
      have hkn' : (s.kwonly.map (·.name)).Nodup := Sig.wf_kw_nodup hwf
      have f1 : fill (rp ++ rk) s.pos = .ok rp := fill_append_self hpn' hrp
      have f2 : fill (rp ++ rk) s.kwonly = .ok rk := by
        have : fill (rp ++ rk) s.kwonly = fill (rk ++ []) s.kwonly := by
          apply fill_congr
          intro q hq
          have hqk : q.name ∈ s.kwNames := List.mem_map.2 ⟨q, hq, rfl⟩
          have hqp : q.name ∉ keys rp := by rw [hkrp]; exact Sig.wf_kw_not_pos hwf hqk
          rw [kget_append, (kget_eq_none_iff _ _).2 hqp, List.append_nil]
        rw [this]
        exact fill_append_self hkn' hrk
      unfold complete
      simp only [f1, f2, hrp, hrk]
    · rw [keys_append, List.nodup_append]
      refine ⟨by rw [hkrk]; exact Sig.wf_kw_nodup hwf, hnd.2, ?_⟩
      intro a ha b hb e
      subst e
      obtain ⟨q, hq, hqe⟩ := exists_of_mem_keys hb
      rw [← hse, List.mem_filter] at hq
      have : s.names.contains a = true := List.contains_iff_mem.2 (List.mem_append_right _ (hkrk ▸ ha))
      rw [← hqe] at this
      rw [this] at hq
      exact absurd hq.2 (by simp)
    · intro p hp hnn hmem
      rcases List.mem_append.1 hp with hp | hp
      · have : p.1 ∈ s.kwNames := by rw [← hkrk]; exact mem_keys_of_mem hp
        exact Sig.wf_kw_not_pos hwf this (List.mem_of_mem_take hmem)
      · rw [← hse, List.mem_filter] at hp
        rw [hnn] at hp
        exact absurd hp.2 (by simp)
    · intro p hp hnn
      rcases List.mem_append.1 hp with hp | hp
      · have : s.names.contains p.1 = true :=
          List.contains_iff_mem.2 (List.mem_append_right _ (hkrk ▸ mem_keys_of_mem hp))
        rw [hnn] at this; cases this
      · rw [← hse, List.mem_filter] at hp
        rcases List.mem_append.1 hp.1 with h | h
        · have := Sig.pos_sub_names s (List.of_mem_zip h).1
          rw [hnn] at this; cases this
        · exact hvk p h hnn


/-- Direct construction, error side: arguments that cannot be distributed are refused. -/
theorem classInit_of_err (s : Sig) (c : Call) (hc : c.wf = true)
    (hav : ∀ p ∈ c.kwargs, s.varargs ≠ some p.1) (e : BindErr) (hn : nameArgs s c = .error e) :
    classInit s c = .error .typeError := by
  have hcnd : (keys c.kwargs).Nodup := by simpa [Call.wf] using hc
  unfold classInit
  cases ho : objectInit s c with
  | error e' => cases e'; rfl
  | ok o =>
    exfalso
    unfold objectInit at ho
    simp only at ho
    split at ho
    · cases ho
    · rename_i ha
      split at ho
      · cases ho
      · split at ho
        · cases ho
        · rename_i hcc
          generalize hvs : (if (!c.args.isEmpty && s.varargs.isSome) = true then
            some (c.args.drop s.pos.length) else none : Option (List V)).isSome = vs at ho
          cases hk : objKw vs s c.kwargs (s.posNames.zip c.args) with
          | error e' => rw [hk] at ho; cases ho
          | ok fields =>
            obtain ⟨_, hfr⟩ := objKw_ok hk
            have hb := bindKw_of_fresh (s := s) (kws := c.kwargs)
              (n := ⟨s.posNames.zip c.args, c.args.drop s.pos.length, []⟩) hcnd
              (fun p hp _ => hfr p hp)
              (fun p hp hnn => by
                refine ⟨?_, rfl⟩
                cases hv : s.varkw with
                | some w => rfl
                | none =>
                  exfalso; apply ha
                  simp only [hv, Option.isNone_none, Bool.true_and, List.any_eq_true]
                  refine ⟨p, hp, ?_⟩
                  have hvne : (s.varargs != some p.1) = true := by
                    have := hav p hp; simpa using this
                  rw [hnn, hvne]; rfl)
            unfold nameArgs at hn
            rw [hb] at hn
            simp only at hn
            split at hn
            · rename_i h
              apply hcc
              simp only [Bool.and_eq_true, Bool.not_eq_true', List.isEmpty_eq_false_iff] at h
              simp only [Bool.and_eq_true, decide_eq_true_eq]
              refine ⟨h.2, ?_⟩
              have := h.1
              rw [Ne, List.drop_eq_nil_iff] at this
              omega
            · cases hn

theorem classInit_eq (s : Sig) (hwf : s.wf = true) (c : Call) (hc : c.wf = true)
    (hav : ∀ p ∈ c.kwargs, s.varargs ≠ some p.1) : classInit s c = pyCall s c := by
  cases hn : nameArgs s c with
  | error e => rw [classInit_of_err s c hc hav e hn, pyCall_of_named_err hn]
  | ok n => rw [classInit_of_named s hwf c hc hav n hn, pyCall_of_named hn]



theorem initKw_fresh {s : Sig} {vb : Bool} {kws b b' : KW} (h : initKw s vb kws b = .ok b') :
    ∀ p ∈ kws, kget b p.1 = none := by
  induction kws generalizing b with
  | nil => intro p hp; cases hp
  | cons q r ih =>
    obtain ⟨k, v⟩ := q
    simp only [initKw] at h
    split at h
    · cases h
    · rename_i hc
      intro p hp
      rcases List.mem_cons.1 hp with rfl | hp
      · simp only [Bool.or_eq_true, not_or, Bool.not_eq_true] at hc
        exact (khas_false_iff _ _).1 hc.1
      · have := ih h p hp
        rw [kget_append] at this
        cases h3 : kget b p.1 with
        | none => rfl
        | some w => rw [h3] at this; cases this

theorem initKw_of_fresh {s : Sig} {kws b : KW} (vb : Bool) (hnd : (keys kws).Nodup)
    (h1 : ∀ p ∈ kws, kget b p.1 = none) (h2 : ∀ p ∈ kws, s.varargs ≠ some p.1) :
    initKw s vb kws b = .ok (b ++ kws) := by
  induction kws generalizing b with
  | nil => simp [initKw]
  | cons p r ih =>
    obtain ⟨k, v⟩ := p
    simp only [keys, List.map_cons, List.nodup_cons] at hnd
    have hk : khas b k = false := (khas_false_iff _ _).2 (h1 (k, v) (List.mem_cons_self ..))
    have hv : (s.varargs == some k) = false := by
      have := h2 (k, v) (List.mem_cons_self ..); simpa using this
    simp only [initKw, hk, hv, Bool.and_false, Bool.or_false, Bool.false_eq_true, if_false]
    rw [ih hnd.2]
    · simp
    · intro q hq
      rw [kget_append, h1 q (List.mem_cons_of_mem _ hq)]
      have : k ≠ q.1 := fun e => hnd.1 (e ▸ mem_keys_of_mem hq)
      simp [kget_cons, kget_nil, this]
    · intro q hq; exact h2 q (List.mem_cons_of_mem _ hq)

/-- Arguments the language can distribute are accepted by `Functor.__init__`. -/
theorem functorInit_of_named (s : Sig) (hwf : s.wf = true) (c : Call) (o i : Bool) (hc : c.wf = true)
    (hav : ∀ p ∈ c.kwargs, s.varargs ≠ some p.1) (n : Named) (hn : nameArgs s c = .ok n) :
    ∃ F, functorInit s c o i = .ok F := by
  obtain ⟨_, hnva, _, hfresh, hvk, hvas⟩ := nameArgs_ok_inv hn
  have hcnd : (keys c.kwargs).Nodup := by simpa [Call.wf] using hc
  have h1 : (decide (c.args.length > s.pos.length) && s.varargs.isNone) = false := by
    cases hv : s.varargs with
    | some vn => simp
    | none =>
      have : n.va = [] := by
        cases hva : n.va with
        | nil => rfl
        | cons a r => have := hvas (by rw [hva]; simp); rw [hv] at this; cases this
      rw [hnva, List.drop_eq_nil_iff] at this
      simp; omega
  have hd : ∀ vb, initKw s vb c.kwargs (s.posNames.zip c.args) = .ok (s.posNames.zip c.args ++ c.kwargs) := by
    intro vb
    apply initKw_of_fresh vb hcnd _ hav
    intro p hp
    cases hnn : s.names.contains p.1
    · apply kget_zip_none
      intro hmem; rw [Sig.pos_sub_names s hmem] at hnn; cases hnn
    · exact hfresh p hp hnn
  have h2 : (s.varkw.isNone && (s.posNames.zip c.args ++ c.kwargs).any
      (fun p => !(s.names.contains p.1) && s.varargs != some p.1)) = false := by
    cases hv : s.varkw with
    | some w => rfl
    | none =>
      simp only [Option.isNone_none, Bool.true_and, List.any_eq_false]
      intro p hp
      rcases List.mem_append.1 hp with hp | hp
      · rw [Sig.pos_sub_names s (List.of_mem_zip hp).1]; simp
      · cases hnn : s.names.contains p.1
        · have := hvk p hp hnn; rw [hv] at this; cases this
        · simp
  have h3 : (s.posNames.zip c.args ++ c.kwargs).any (fun p => s.varargs == some p.1) = false := by
    rw [List.any_eq_false]
    intro p hp
    rcases List.mem_append.1 hp with hp | hp
    · intro h
      have hv : s.varargs = some p.1 := by simpa using h
      exact Sig.wf_varargs_not_name hwf hv (List.mem_append_left _ (List.of_mem_zip hp).1)
    · intro h
      exact hav p hp (by simpa using h)
  unfold functorInit
  simp only [h1, hd, h2, h3, Bool.false_eq_true, if_false]
  exact ⟨_, rfl⟩

/-- Arguments the language cannot distribute are refused by `Functor.__init__`. -/
theorem functorInit_of_err (s : Sig) (c : Call) (o i : Bool) (hc : c.wf = true)
    (hav : ∀ p ∈ c.kwargs, s.varargs ≠ some p.1) (e : BindErr) (hn : nameArgs s c = .error e) :
    functorInit s c o i = .error .typeError := by
  have hcnd : (keys c.kwargs).Nodup := by simpa [Call.wf] using hc
  cases hF : functorInit s c o i with
  | error e' => cases e'; rfl
  | ok F =>
    exfalso
    unfold functorInit at hF
    simp only at hF
    split at hF
    · cases hF
    · rename_i h1
      generalize hvb : (if c.args.length > s.pos.length then some (c.args.drop s.pos.length)
        else none : Option (List V)).isSome = vb at hF
      cases hk : initKw s vb c.kwargs (s.posNames.zip c.args) with
      | error e' => rw [hk] at hF; cases hF
      | ok bound =>
        rw [hk] at hF
        simp only at hF
        have hbound := initKw_ok hk
        have hfr := initKw_fresh hk
        split at hF
        · cases hF
        · rename_i h2
          have hb := bindKw_of_fresh (s := s) (kws := c.kwargs)
            (n := ⟨s.posNames.zip c.args, c.args.drop s.pos.length, []⟩) hcnd
            (fun p hp _ => hfr p hp)
            (fun p hp hnn => by
              refine ⟨?_, rfl⟩
              cases hv : s.varkw with
              | some w => rfl
              | none =>
                exfalso; apply h2
                simp only [hv, Option.isNone_none, Bool.true_and, List.any_eq_true]
                refine ⟨p, by rw [hbound]; exact List.mem_append_right _ hp, ?_⟩
                have hvne : (s.varargs != some p.1) = true := by
                  have := hav p hp; simpa using this
                rw [hnn, hvne]; rfl)
          unfold nameArgs at hn
          rw [hb] at hn
          simp only at hn
          split at hn
          · rename_i h
            apply h1
            simp only [Bool.and_eq_true, Bool.not_eq_true', List.isEmpty_eq_false_iff] at h
            simp only [Bool.and_eq_true, decide_eq_true_eq]
            refine ⟨?_, h.2⟩
            have := h.1
            rw [Ne, List.drop_eq_nil_iff] at this
            omega
          · cases hn



/-- Well-formed supplied arguments. -/
structure NamedWF (s : Sig) (n : Named) : Prop where
  nd1 : (keys n.named).Nodup
  in1 : ∀ k ∈ keys n.named, s.names.contains k = true
  nd2 : (keys n.extra).Nodup
  in2 : ∀ k ∈ keys n.extra, s.names.contains k = false
  vk : ∀ k ∈ keys n.extra, s.varkw.isSome = true
  va : n.va ≠ [] → s.varargs.isSome = true ∧ ∀ k ∈ s.posNames, k ∈ keys n.named

theorem namedWF_of_nameArgs {s : Sig} {c : Call} {n : Named} (hwf : s.wf = true) (hc : c.wf = true)
    (h : nameArgs s c = .ok n) : NamedWF s n := by
  obtain ⟨hnm, hnva, hnex, _, hvk, hvas⟩ := nameArgs_ok_inv h
  obtain ⟨h1, h2⟩ := nameArgs_nodup hwf hc h
  refine ⟨h1, ?_, h2, ?_, ?_, ?_⟩
  · intro k hk
    rw [hnm, keys_append] at hk
    rcases List.mem_append.1 hk with hk | hk
    · rw [keys_zip] at hk; exact Sig.pos_sub_names s (List.mem_of_mem_take hk)
    · rw [keys_filter (fun k => s.names.contains k), List.mem_filter] at hk; exact hk.2
  · intro k hk
    rw [hnex, keys_filter (fun k => !s.names.contains k), List.mem_filter] at hk
    simpa using hk.2
  · intro k hk
    rw [hnex] at hk
    obtain ⟨p, hp, rfl⟩ := exists_of_mem_keys hk
    rw [List.mem_filter] at hp
    exact hvk p hp.1 (by simpa using hp.2)
  · intro hne
    refine ⟨hvas hne, ?_⟩
    intro k hk
    rw [hnm, keys_append, keys_zip]
    apply List.mem_append_left
    have : s.posNames.length ≤ c.args.length := by
      rw [hnva] at hne
      have : ¬ c.args.length ≤ s.pos.length := fun h => hne (List.drop_eq_nil_iff.2 h)
      simp [Sig.posNames]; omega
    rw [List.take_of_length_le this]; exact hk

theorem namedWF_merge {s : Sig} {n1 n2 : Named} (h1 : NamedWF s n1) (h2 : NamedWF s n2) :
    NamedWF s (mergeNamed n1 n2) := by
  refine ⟨nodup_keys_mergeKw _ _ h1.nd1, ?_, nodup_keys_mergeKw _ _ h1.nd2, ?_, ?_, ?_⟩
  · intro k hk
    rcases (mem_keys_mergeKw _ _ _).1 hk with h | h
    · exact h1.in1 k h
    · exact h2.in1 k h
  · intro k hk
    rcases (mem_keys_mergeKw _ _ _).1 hk with h | h
    · exact h1.in2 k h
    · exact h2.in2 k h
  · intro k hk
    rcases (mem_keys_mergeKw _ _ _).1 hk with h | h
    · exact h1.vk k h
    · exact h2.vk k h
  · intro hne
    simp only [mergeNamed] at hne ⊢
    split at hne
    · obtain ⟨a, b⟩ := h1.va hne
      exact ⟨a, fun k hk => (mem_keys_mergeKw _ _ _).2 (Or.inl (b k hk))⟩
    · obtain ⟨a, b⟩ := h2.va hne
      exact ⟨a, fun k hk => (mem_keys_mergeKw _ _ _).2 (Or.inr (b k hk))⟩

theorem kget_zip_filterMap (m : KW) (ps : List Param) (hnd : (ps.map (·.name)).Nodup)
    (hall : ∀ p ∈ ps, (kget m p.name).isSome = true) :
    (ps.filterMap (fun p => kget m p.name)).length = ps.length ∧
    ∀ k ∈ ps.map (·.name), kget ((ps.map (·.name)).zip (ps.filterMap (fun p => kget m p.name))) k = kget m k := by
  induction ps with
  | nil => simp
  | cons p ps ih =>
    simp only [List.map_cons, List.nodup_cons] at hnd
    have hp := hall p (List.mem_cons_self ..)
    obtain ⟨ihl, ihk⟩ := ih hnd.2 (fun q hq => hall q (List.mem_cons_of_mem _ hq))
    cases hv : kget m p.name with
    | none => rw [hv] at hp; cases hp
    | some v =>
      simp only [List.filterMap_cons, hv, List.length_cons, ihl, List.map_cons, List.zip_cons_cons, true_and]
      intro k hk
      rw [kget_cons]
      by_cases e : p.name = k
      · subst e; simp [hv]
      · simp only [e, if_false]
        rcases List.mem_cons.1 hk with h | h
        · exact absurd h.symm e
        · exact ihk k h

/-- A direct call that supplies exactly the arguments `n` binds like phase 2 applied to `n`. -/
theorem pyCall_toCall (s : Sig) (hwf : s.wf = true) (n : Named) (h : NamedWF s n) :
    pyCall s (toCall s n) = toPyE (complete s n) := by
  have hpn := Sig.wf_pos_nodup hwf
  rw [pyCall_eq]
  unfold pyBind toCall
  cases hva : n.va with
  | nil =>
    simp only [List.isEmpty_nil, if_true]
    have hnd : (keys (n.named ++ n.extra)).Nodup := by
      rw [keys_append, List.nodup_append]
      refine ⟨h.nd1, h.nd2, ?_⟩
      intro a ha b hb e; subst e
      have := h.in1 a ha; rw [h.in2 a hb] at this; cases this
    have := nameArgs_canon s [] [] (n.named ++ n.extra) (by simp) (fun hh => absurd rfl hh) hnd
      (fun p _ _ hm => by simp at hm)
      (fun p hp hnn => by
        rcases List.mem_append.1 hp with hp | hp
        · have := h.in1 _ (mem_keys_of_mem hp); rw [hnn] at this; cases this
        · exact h.vk _ (mem_keys_of_mem hp))
    simp only [List.append_nil, List.zip_nil_right, List.nil_append] at this
    rw [this]
    have e1 : (n.named ++ n.extra).filter (fun p => s.names.contains p.1) = n.named := by
      rw [List.filter_append, List.filter_eq_self.2 (fun p hp => h.in1 _ (mem_keys_of_mem hp)),
        List.filter_eq_nil_iff.2 (fun p hp => by rw [h.in2 _ (mem_keys_of_mem hp)]; simp)]
      simp
    have e2 : (n.named ++ n.extra).filter (fun p => !s.names.contains p.1) = n.extra := by
      rw [List.filter_append, List.filter_eq_nil_iff.2 (fun p hp => by rw [h.in1 _ (mem_keys_of_mem hp)]; simp),
        List.filter_eq_self.2 (fun p hp => by rw [h.in2 _ (mem_keys_of_mem hp)]; rfl)]
      simp
    simp only [e1, e2]
    congr 1
    cases n; simp only at hva; subst hva; rfl
  | cons a r =>
    simp only [List.isEmpty_cons, Bool.false_eq_true, if_false]
    have hne : n.va ≠ [] := by rw [hva]; simp
    obtain ⟨hvs, hallp⟩ := h.va hne
    have hall : ∀ p ∈ s.pos, (kget n.named p.name).isSome = true := by
      intro p hp
      have := hallp p.name (List.mem_map.2 ⟨p, hp, rfl⟩)
      exact (khas_iff _ _).2 this
    have hallb : s.pos.all (fun p => ((kget n.named p.name).orElse fun _ => p.dflt).isSome) = true := by
      rw [List.all_eq_true]
      intro p hp
      have := hall p hp
      cases hg : kget n.named p.name with
      | none => rw [hg] at this; cases this
      | some v => rfl
    have hfm : (s.pos.filterMap fun p => (kget n.named p.name).orElse fun _ => p.dflt)
        = s.pos.filterMap fun p => kget n.named p.name := by
      apply filterMap_congr'
      intro p hp
      have := hall p hp
      cases hg : kget n.named p.name with
      | none => rw [hg] at this; cases this
      | some v => rfl
    simp only [hallb, if_true, hfm]
    obtain ⟨hlen, hkz⟩ := kget_zip_filterMap n.named s.pos hpn hall
    have hkw2 : ∀ p ∈ n.named.filter (fun p => !(s.posNames.contains p.1)) ++ n.extra, s.names.contains p.1 = true →
        p.1 ∉ s.posNames := by
      intro p hp hnn hm
      rcases List.mem_append.1 hp with hp | hp
      · rw [List.mem_filter] at hp
        rw [List.contains_iff_mem.2 hm] at hp; simp at hp
      · have := h.in2 _ (mem_keys_of_mem hp); rw [hnn] at this; cases this
    rw [← hva]
    rw [nameArgs_canon s _ n.va _ (by omega) (fun _ => ⟨hlen, hvs⟩)]
    · apply congrArg
      apply complete_congr
      · intro k hk
        simp only
        have hkc : s.names.contains k = true := List.contains_iff_mem.2 hk
        rw [kget_append]
        by_cases hkp : k ∈ s.posNames
        · have := hkz k hkp
          have e : s.posNames.zip (s.pos.filterMap fun p => kget n.named p.name)
              = (s.pos.map (·.name)).zip (s.pos.filterMap fun p => kget n.named p.name) := rfl
          rw [e, this]
          have hs := hallp k hkp
          cases hg : kget n.named k with
          | none => exact absurd hs ((kget_eq_none_iff _ _).1 hg)
          | some v => rfl
        · rw [kget_zip_none _ _ _ hkp]
          simp only
          rw [kget_filter (fun k => s.names.contains k), hkc]
          simp only [if_true]
          rw [kget_append, kget_filter (fun k => !(s.posNames.contains k)), contains_false_iff.2 hkp]
          simp only [Bool.not_false, if_true]
          cases hg : kget n.named k with
          | some v => rfl
          | none =>
            simp only
            rw [kget_eq_none_iff]
            intro hm
            have := h.in2 _ hm; rw [hkc] at this; cases this
      · rfl
      · simp only
        rw [List.filter_append, List.filter_eq_nil_iff.2, List.filter_eq_self.2]
        · simp
        · intro p hp; rw [h.in2 _ (mem_keys_of_mem hp)]; rfl
        · intro p hp
          rw [List.mem_filter] at hp
          rw [h.in1 _ (mem_keys_of_mem hp.1)]; simp
    · rw [keys_append, List.nodup_append]
      refine ⟨?_, h.nd2, ?_⟩
      · rw [keys_filter (fun k => !(s.posNames.contains k))]
        exact List.Nodup.sublist List.filter_sublist h.nd1
      · intro a ha b hb e; subst e
        rw [keys_filter (fun k => !(s.posNames.contains k)), List.mem_filter] at ha
        have := h.in1 a ha.1; rw [h.in2 a hb] at this; cases this
    · intro p hp hnn hm
      exact hkw2 p hp hnn (List.mem_of_mem_take hm)
    · intro p hp hnn
      rcases List.mem_append.1 hp with hp | hp
      · rw [List.mem_filter] at hp
        have := h.in1 _ (mem_keys_of_mem hp.1); rw [hnn] at this; cases this
      · exact h.vk _ (mem_keys_of_mem hp)



theorem bool_eq_of_iff {a b : Bool} (h : a = true ↔ b = true) : a = b := by
  cases a <;> cases b <;> simp_all

theorem kwAble_contains (npo : Nat) (s : Sig) (k : Name) (hk : (s.posNames.take npo).contains k = false) :
    (kwAble npo s).contains k = s.names.contains k := by
  apply bool_eq_of_iff
  rw [List.contains_iff_mem, List.contains_iff_mem]
  have hk' : k ∉ s.posNames.take npo := contains_false_iff.1 hk
  unfold kwAble Sig.names
  constructor
  · intro h
    rcases List.mem_append.1 h with h | h
    · exact List.mem_append_left _ (List.mem_of_mem_drop h)
    · exact List.mem_append_right _ h
  · intro h
    rcases List.mem_append.1 h with h | h
    · rw [← List.take_append_drop npo s.posNames] at h
      rcases List.mem_append.1 h with h | h
      · exact absurd h hk'
      · exact List.mem_append_left _ h
    · exact List.mem_append_right _ h

theorem bindKwPO_eq (npo : Nat) (s : Sig) (all kws : KW) (n : Named)
    (hall : all.any (fun p => (s.posNames.take npo).contains p.1) = false)
    (h : ∀ p ∈ kws, (s.posNames.take npo).contains p.1 = false) :
    bindKwPO npo s all kws n = bindKw s kws n := by
  induction kws generalizing n with
  | nil => rfl
  | cons p r ih =>
    obtain ⟨k, v⟩ := p
    have hk := h (k, v) (List.mem_cons_self ..)
    have ihr := fun n' => ih n' (fun q hq => h q (List.mem_cons_of_mem _ hq))
    simp only [bindKwPO, bindKw, kwAble_contains npo s k hk, hall, ihr, Bool.false_eq_true, if_false]

/-- Calls that do not name a positional-only parameter by keyword bind as if there were none. -/
theorem pyCallPO_eq (npo : Nat) (s : Sig) (c : Call)
    (h : ∀ p ∈ c.kwargs, (s.posNames.take npo).contains p.1 = false) :
    pyCallPO npo s c = pyCall s c := by
  have hall : c.kwargs.any (fun p => (s.posNames.take npo).contains p.1) = false := by
    rw [List.any_eq_false]; intro p hp; rw [h p hp]; simp
  unfold pyCallPO pyCall pyBindPO pyBind nameArgsPO nameArgs
  rw [bindKwPO_eq npo s c.kwargs c.kwargs _ hall h]



theorem kget_withDefaults (f : KW) (ps : List Param) (hnd : (ps.map (·.name)).Nodup) :
    (∀ p ∈ ps, kget (withDefaults f ps) p.name = pval f p) ∧
    (∀ k, k ∉ ps.map (·.name) → kget (withDefaults f ps) k = none) := by
  induction ps with
  | nil => simp [withDefaults, kget]
  | cons p ps ih =>
    simp only [List.map_cons, List.nodup_cons] at hnd
    obtain ⟨ih1, ih2⟩ := ih hnd.2
    have hunf : withDefaults f (p :: ps) =
        (match pval f p with | some v => [(p.name, v)] | none => []) ++ withDefaults f ps := by
      simp only [withDefaults, List.filterMap_cons, pval]
      cases (kget f p.name).orElse (fun _ => p.dflt) <;> simp
    constructor
    · intro q hq
      rw [hunf, kget_append]
      rcases List.mem_cons.1 hq with rfl | hq
      · cases hv : pval f q with
        | some v => simp only [kget_cons, if_true]
        | none => simp only [kget_nil]; exact ih2 _ hnd.1
      · have hne : p.name ≠ q.name := fun e => hnd.1 (e ▸ List.mem_map.2 ⟨q, hq, rfl⟩)
        cases hv : pval f p with
        | some v => simp only [kget_cons, hne, if_false, kget_nil]; exact ih1 q hq
        | none => simp only [kget_nil]; exact ih1 q hq
    · intro k hk
      simp only [List.map_cons, List.mem_cons, not_or] at hk
      rw [hunf, kget_append]
      cases hv : pval f p with
      | some v =>
        have : p.name ≠ k := fun e => hk.1 e.symm
        simp only [kget_cons, this, if_false, kget_nil]; exact ih2 k hk.2
      | none => simp only [kget_nil]; exact ih2 k hk.2

theorem keys_withDefaults_sub (f : KW) (ps : List Param) : ∀ k ∈ keys (withDefaults f ps), k ∈ ps.map (·.name) := by
  intro k hk
  obtain ⟨q, hq, rfl⟩ := exists_of_mem_keys hk
  simp only [withDefaults, List.mem_filterMap] at hq
  obtain ⟨p, hp, hpq⟩ := hq
  cases hv : (kget f p.name).orElse (fun _ => p.dflt) with
  | none => rw [hv] at hpq; cases hpq
  | some v => rw [hv] at hpq; cases hpq; exact List.mem_map.2 ⟨p, hp, rfl⟩

theorem reportOne_pval (f : KW) (p : Param) (g : Name → Option V) (h : g p.name = pval f p) :
    reportOne g p = reportOne (kget f) p := by
  unfold reportOne
  rw [h]
  unfold pval
  cases kget f p.name <;> cases p.dflt <;> rfl

/-- The arguments reported after a JSON round trip are the arguments reported before. -/
theorem symInitArgs_json (s : Sig) (hwf : s.wf = true) (F : Functor) (hsig : F.sig = s)
    (hva : F.va.isSome = true → s.varargs.isSome = true) :
    symInitArgs F.jsonRoundTrip = symInitArgs F := by
  have hpn : (s.pos.map (·.name)).Nodup := Sig.wf_pos_nodup hwf
  have hkn : (s.kwonly.map (·.name)).Nodup := Sig.wf_kw_nodup hwf
  obtain ⟨hp1, hp2⟩ := kget_withDefaults F.bound s.pos hpn
  obtain ⟨hk1, hk2⟩ := kget_withDefaults F.bound s.kwonly hkn
  have hex : ∀ k, s.names.contains k = true →
      kget (F.bound.filter (fun p => !(s.names.contains p.1))) k = none := by
    intro k hk; rw [kget_filter (fun k => !(s.names.contains k)), hk]; rfl
  have hget : ∀ p ∈ s.params, kget (withDefaults F.bound s.pos ++ withDefaults F.bound s.kwonly
      ++ F.bound.filter (fun p => !(s.names.contains p.1))) p.name = pval F.bound p := by
    intro p hp
    rw [List.append_assoc, kget_append]
    rcases List.mem_append.1 hp with hp | hp
    · rw [hp1 p hp]
      cases hv : pval F.bound p with
      | some v => rfl
      | none =>
        simp only
        have hpk : p.name ∉ s.kwonly.map (·.name) := by
          intro h; exact Sig.wf_kw_not_pos hwf h (List.mem_map.2 ⟨p, hp, rfl⟩)
        rw [kget_append, hk2 _ hpk]
        exact hex _ (Sig.pos_sub_names s (List.mem_map.2 ⟨p, hp, rfl⟩))
    · have hpp : p.name ∉ s.pos.map (·.name) :=
        Sig.wf_kw_not_pos hwf (List.mem_map.2 ⟨p, hp, rfl⟩)
      rw [hp2 _ hpp]
      simp only
      rw [kget_append, hk1 p hp]
      cases hv : pval F.bound p with
      | some v => rfl
      | none =>
        exact hex _ (List.contains_iff_mem.2 (List.mem_append_right _ (List.mem_map.2 ⟨p, hp, rfl⟩)))
  have hfil : (withDefaults F.bound s.pos ++ withDefaults F.bound s.kwonly
      ++ F.bound.filter (fun p => !(s.names.contains p.1))).filter (fun p => !(s.names.contains p.1))
      = F.bound.filter (fun p => !(s.names.contains p.1)) := by
    rw [List.filter_append, List.filter_append, List.filter_filter]
    rw [List.filter_eq_nil_iff.2, List.filter_eq_nil_iff.2]
    · simp
    · intro q hq
      have := keys_withDefaults_sub _ _ _ (mem_keys_of_mem hq)
      have hc : s.names.contains q.1 = true := List.contains_iff_mem.2 (List.mem_append_right _ this)
      rw [hc]; simp
    · intro q hq
      have := keys_withDefaults_sub _ _ _ (mem_keys_of_mem hq)
      rw [Sig.pos_sub_names s this]; simp
  have hvaeq : (s.varargs.map (fun _ => F.va.getD [])).getD [] = F.va.getD [] := by
    cases hv : s.varargs with
    | some vn => rfl
    | none =>
      cases hf : F.va with
      | none => rfl
      | some xs => have := hva (by rw [hf]; rfl); rw [hv] at this; cases this
  unfold symInitArgs Functor.jsonRoundTrip reportArgs reportWith
  simp only [hsig, hfil, hvaeq]
  rw [List.map_congr_left (fun p hp => reportOne_pval F.bound p _ (hget p (List.mem_append_left _ hp))),
      List.map_congr_left (fun p hp => reportOne_pval F.bound p _ (hget p (List.mem_append_right _ hp)))]



/-- "The wrapper `o` holds the supplied arguments `n`" (all required parameters present). -/
structure ObjBuilt (s : Sig) (o : SymObject) (n : Named) : Prop where
  sig : o.sig = s
  named : o.fields.filter (fun p => s.names.contains p.1) = n.named
  extra : o.fields.filter (fun p => !s.names.contains p.1) = n.extra
  extraNd : (keys n.extra).Nodup
  extraVk : ∀ p ∈ n.extra, s.varkw.isSome = true
  va : o.va.getD [] = n.va
  vaSome : n.va ≠ [] → s.varargs.isSome = true
  full : ∀ p ∈ s.params, p.dflt.isNone = true → khas o.fields p.name = true

/-- What the user's `__init__` sees when a well-formed wrapper (re-)initialises it: the language's
binding of the arguments it holds. -/
theorem initOutcome_eq (s : Sig) (hwf : s.wf = true) (o : SymObject) (n : Named) (hB : ObjBuilt s o n) :
    initOutcome o = toPyE (complete s n) := by
  obtain ⟨hsig, hsn, hse, hend, hevk, hva, hvas, hfull⟩ := hB
  have hpn := Sig.wf_pos_nodup hwf
  have hkeq : ∀ k, s.names.contains k = true → kget o.fields k = kget n.named k := by
    intro k hk
    rw [← hsn, kget_filter (fun k => s.names.contains k), hk]; rfl
  have hfp : fill o.fields s.pos = fill n.named s.pos :=
    fill_congr (fun p hp => hkeq _ (Sig.pos_sub_names s (List.mem_map.2 ⟨p, hp, rfl⟩)))
  have hfk : fill o.fields s.kwonly = fill n.named s.kwonly :=
    fill_congr (fun p hp => hkeq _ (List.contains_iff_mem.2 (List.mem_append_right _ (List.mem_map.2 ⟨p, hp, rfl⟩))))
  have hnomiss : ∀ ps, (∀ p ∈ ps, p ∈ s.params) → ∃ r, fill o.fields ps = .ok r := by
    intro ps hsub
    cases hfl : fill o.fields ps with
    | ok r => exact ⟨r, rfl⟩
    | error e =>
      exfalso
      obtain ⟨p, hp, h1, h2⟩ := (fill_missing_iff _ ps).1 ⟨e, hfl⟩
      have := hfull p (hsub p hp) h1
      rw [h2] at this; cases this
  obtain ⟨rp, hrp⟩ := hnomiss s.pos (fun p hp => List.mem_append_left _ hp)
  obtain ⟨rk, hrk⟩ := hnomiss s.kwonly (fun p hp => List.mem_append_right _ hp)
  have hkrp : keys rp = s.posNames := fill_keys hrp
  have hkrk : keys rk = s.kwNames := fill_keys hrk
  unfold initOutcome callInitCall
  simp only [hsig, fill_eq_withDefaults hrp, fill_eq_withDefaults hrk, hse, hva]
  rw [pyCall_eq]
  unfold pyBind
  have hlen : (rp.map (·.2)).length = s.pos.length := by
    rw [List.length_map, ← List.length_map (as := rp) (f := (·.1))]
    show (keys rp).length = _
    rw [hkrp]; simp [Sig.posNames]
  have hexn : ∀ p ∈ n.extra, s.names.contains p.1 = false := by
    intro p hp
    rw [← hse, List.mem_filter] at hp
    simpa using hp.2
  have hrkn : ∀ p ∈ rk, s.names.contains p.1 = true := by
    intro p hp
    apply List.contains_iff_mem.2
    apply List.mem_append_right
    rw [← hkrk]; exact mem_keys_of_mem hp
  rw [nameArgs_canon s (rp.map (·.2)) n.va (rk ++ n.extra) (by omega) (fun h => ⟨hlen, hvas h⟩)]
  · have e1 : (rk ++ n.extra).filter (fun p => s.names.contains p.1) = rk := by
      rw [List.filter_append, List.filter_eq_self.2 hrkn, List.filter_eq_nil_iff.2 (fun p hp => by rw [hexn p hp]; simp)]
      simp
    have e2 : (rk ++ n.extra).filter (fun p => !s.names.contains p.1) = n.extra := by
      rw [List.filter_append, List.filter_eq_nil_iff.2 (fun p hp => by rw [hrkn p hp]; simp),
        List.filter_eq_self.2 (fun p hp => by rw [hexn p hp]; rfl)]
      simp
    have e3 : s.posNames.zip (rp.map (·.2)) = rp := by rw [← hkrp]; exact zip_keys_vals rp
    rw [e1, e2, e3]
    rw [hfp] at hrp
    rw [hfk] at hrk
    have hpn' : (s.pos.map (·.name)).Nodup := hpn
    have hkn' : (s.kwonly.map (·.name)).Nodup := Sig.wf_kw_nodup hwf
    have f1 : fill (rp ++ rk) s.pos = .ok rp := fill_append_self hpn' hrp
    have f2 : fill (rp ++ rk) s.kwonly = .ok rk := by
      have : fill (rp ++ rk) s.kwonly = fill (rk ++ []) s.kwonly := by
        apply fill_congr
        intro q hq
        have hqk : q.name ∈ s.kwNames := List.mem_map.2 ⟨q, hq, rfl⟩
        have hqp : q.name ∉ keys rp := by rw [hkrp]; exact Sig.wf_kw_not_pos hwf hqk
        rw [kget_append, (kget_eq_none_iff _ _).2 hqp, List.append_nil]
      rw [this]
      exact fill_append_self hkn' hrk
    unfold complete
    simp only [f1, f2, hrp, hrk]
  · rw [keys_append, List.nodup_append]
    refine ⟨by rw [hkrk]; exact Sig.wf_kw_nodup hwf, hend, ?_⟩
    intro a ha b hb e
    subst e
    obtain ⟨q, hq, hqe⟩ := exists_of_mem_keys hb
    have h1 := hexn q hq
    have h2 : s.names.contains a = true := List.contains_iff_mem.2 (List.mem_append_right _ (hkrk ▸ ha))
    rw [← hqe, h1] at h2; cases h2
  · intro p hp hnn hmem
    rcases List.mem_append.1 hp with hp | hp
    · have : p.1 ∈ s.kwNames := by rw [← hkrk]; exact mem_keys_of_mem hp
      exact Sig.wf_kw_not_pos hwf this (List.mem_of_mem_take hmem)
    · rw [hexn p hp] at hnn; cases hnn
  · intro p hp hnn
    rcases List.mem_append.1 hp with hp | hp
    · rw [hrkn p hp] at hnn; cases hnn
    · exact hevk p hp

/-- A rebind of declared parameters keeps the wrapper well-formed; it now holds the merged
arguments (later values replace earlier ones). -/
theorem objBuilt_rebind (s : Sig) (o : SymObject) (n : Named) (hB : ObjBuilt s o n) (upd : KW)
    (hupd : ∀ p ∈ upd, s.names.contains p.1 = true) :
    ObjBuilt s (objectRebind o upd) ⟨mergeKw n.named upd, n.va, n.extra⟩ := by
  obtain ⟨hsig, hsn, hse, hend, hevk, hva, hvas, hfull⟩ := hB
  refine ⟨hsig, ?_, ?_, hend, hevk, hva, hvas, ?_⟩
  · simp only [objectRebind]
    rw [filter_mergeKw (fun k => s.names.contains k), hsn, List.filter_eq_self.2 hupd]
  · simp only [objectRebind]
    rw [filter_mergeKw (fun k => !s.names.contains k), hse,
      List.filter_eq_nil_iff.2 (fun p hp => by rw [hupd p hp]; simp), mergeKw_nil]
  · intro p hp hd
    have := (khas_iff _ _).1 (hfull p hp hd)
    simp only [objectRebind]
    exact (khas_iff _ _).2 ((mem_keys_mergeKw _ _ _).2 (Or.inl this))


/-- `Object.__init__` on arguments that the language can distribute: every check but the
missing-argument one passes. -/
theorem objectInit_of_named (s : Sig) (hwf : s.wf = true) (c : Call) (hc : c.wf = true)
    (hav : ∀ p ∈ c.kwargs, s.varargs ≠ some p.1) (n : Named) (hn : nameArgs s c = .ok n) :
    objectInit s c =
      if s.params.any (fun p => p.dflt.isNone && !khas (s.posNames.zip c.args ++ c.kwargs) p.name) = true
      then .error .typeError
      else .ok ⟨s, s.posNames.zip c.args ++ c.kwargs,
                if (!c.args.isEmpty && s.varargs.isSome) = true then some (c.args.drop s.pos.length) else none⟩ := by
  obtain ⟨hnm, hnva, hnex, hfresh, hvk, hvas⟩ := nameArgs_ok_inv hn
  obtain ⟨hsn, hse⟩ := split_fields hn
  have hcnd : (keys c.kwargs).Nodup := by simpa [Call.wf] using hc
  have hpn := Sig.wf_pos_nodup hwf
  have hnd := nameArgs_nodup hwf hc hn
  -- (a)
  have ha : (s.varkw.isNone && c.kwargs.any (fun p => !(s.names.contains p.1) && s.varargs != some p.1)) = false := by
    cases hv : s.varkw with
    | some w => rfl
    | none =>
      simp only [Option.isNone_none, Bool.true_and, List.any_eq_false]
      intro p hp
      cases hnn : s.names.contains p.1
      · have := hvk p hp hnn; rw [hv] at this; cases this
      · simp
  -- (b)
  have hb : (!c.args.isEmpty && s.pos.isEmpty && s.kwonly.isEmpty && s.varargs.isNone && s.varkw.isNone) = false := by
    cases hargs : c.args with
    | nil => rfl
    | cons a r =>
      cases hp : s.pos with
      | cons p ps => simp
      | nil =>
        have : n.va ≠ [] := by rw [hnva, hp, hargs]; simp
        have := hvas this
        cases hv : s.varargs with
        | none => rw [hv] at this; cases this
        | some vn => simp
  -- (c)
  have hcc : (s.varargs.isNone && decide (c.args.length > s.pos.length)) = false := by
    cases hv : s.varargs with
    | some vn => rfl
    | none =>
      have : n.va = [] := by
        cases hva : n.va with
        | nil => rfl
        | cons a r => have := hvas (by rw [hva]; simp); rw [hv] at this; cases this
      rw [hnva, List.drop_eq_nil_iff] at this
      simp; omega
  -- (d)
  have hd : ∀ vs, objKw vs s c.kwargs (s.posNames.zip c.args) = .ok (s.posNames.zip c.args ++ c.kwargs) := by
    intro vs
    apply objKw_of_fresh vs hcnd _ hav
    intro p hp
    cases hnn : s.names.contains p.1
    · apply kget_zip_none
      intro hmem; rw [Sig.pos_sub_names s hmem] at hnn; cases hnn
    · exact hfresh p hp hnn
  -- (f)
  have hf : (s.posNames.zip c.args ++ c.kwargs).any (fun p => s.varargs == some p.1) = false := by
    rw [List.any_eq_false]
    intro p hp
    rcases List.mem_append.1 hp with hp | hp
    · intro h
      have hv : s.varargs = some p.1 := by simpa using h
      exact Sig.wf_varargs_not_name hwf hv (List.mem_append_left _ (List.of_mem_zip hp).1)
    · intro h
      exact hav p hp (by simpa using h)
  have hkeq : ∀ k, s.names.contains k = true → kget (s.posNames.zip c.args ++ c.kwargs) k = kget n.named k := by
    intro k hk
    rw [← hsn, kget_filter (fun k => s.names.contains k), hk]; rfl
  have hfp : fill (s.posNames.zip c.args ++ c.kwargs) s.pos = fill n.named s.pos :=
    fill_congr (fun p hp => hkeq _ (Sig.pos_sub_names s (List.mem_map.2 ⟨p, hp, rfl⟩)))
  have hfk : fill (s.posNames.zip c.args ++ c.kwargs) s.kwonly = fill n.named s.kwonly :=
    fill_congr (fun p hp => hkeq _ (List.contains_iff_mem.2 (List.mem_append_right _ (List.mem_map.2 ⟨p, hp, rfl⟩))))
  unfold objectInit
  simp only [ha, hb, hcc, hd, hf, Bool.false_eq_true, if_false]

theorem objBuilt_of_init (s : Sig) (hwf : s.wf = true) (c : Call) (hc : c.wf = true)
    (hav : ∀ p ∈ c.kwargs, s.varargs ≠ some p.1) (n : Named) (hn : nameArgs s c = .ok n)
    (o : SymObject) (ho : objectInit s c = .ok o) : ObjBuilt s o n := by
  rw [objectInit_of_named s hwf c hc hav n hn] at ho
  split at ho
  · cases ho
  · rename_i hm
    cases ho
    obtain ⟨_, hnva, _, _, hvk, hvas⟩ := nameArgs_ok_inv hn
    obtain ⟨hsn, hse⟩ := split_fields hn
    have hnd := nameArgs_nodup hwf hc hn
    refine ⟨rfl, hsn, hse, hnd.2, ?_, ?_, hvas, ?_⟩
    · intro p hp
      rw [← hse, List.mem_filter] at hp
      rcases List.mem_append.1 hp.1 with h | h
      · have := Sig.pos_sub_names s (List.of_mem_zip h).1
        rw [this] at hp; exact absurd hp.2 (by simp)
      · exact hvk p h (by simpa using hp.2)
    · simp only
      rw [hnva]
      cases hargs : c.args with
      | nil => simp
      | cons a r =>
        cases hv : s.varargs with
        | some vn => simp
        | none =>
          have : n.va = [] := by
            cases hva : n.va with
            | nil => rfl
            | cons a r => have := hvas (by rw [hva]; simp); rw [hv] at this; cases this
          rw [hnva, hargs] at this
          simp [this]
    · intro p hp hd
      cases hk : khas (s.posNames.zip c.args ++ c.kwargs) p.name with
      | true => rfl
      | false =>
        exfalso; apply hm
        rw [List.any_eq_true]
        exact ⟨p, hp, by simp [hd, hk]⟩

theorem resolve_enter_other (attrs : Nat → KW) (st : OvStore) (o t o' t' : Nat) (kw : KW) (k : Name)
    (h : ¬ (o' = o ∧ t' = t)) :
    resolve attrs (st.enter o t kw) o' t' k = resolve attrs st o' t' k := by
  unfold resolve OvStore.enter
  have : ((o == o') && (t == t')) = false := by
    cases h1 : o == o' <;> cases h2 : t == t' <;> simp_all
  simp only [List.find?_cons, this]

theorem resolve_enter_self (attrs : Nat → KW) (st : OvStore) (o t : Nat) (kw : KW) (k : Name) :
    resolve attrs (st.enter o t kw) o t k =
      match kget kw k with
      | some v => some v
      | none => kget (attrs o) k := by
  unfold resolve OvStore.enter
  simp only [List.find?_cons, beq_self_eq_true, Bool.and_self]
  cases kget kw k <;> rfl

theorem exit_enter (st : OvStore) (o t : Nat) (kw : KW) : (st.enter o t kw).exit = st := rfl



theorem mem_kset {m : KW} {k : Name} {v : V} {p : Name × V} (h : p ∈ kset m k v) : p = (k, v) ∨ p ∈ m := by
  induction m with
  | nil => simp [kset] at h; exact Or.inl h
  | cons q r ih =>
    obtain ⟨k0, v0⟩ := q
    simp only [kset] at h
    split at h
    · rcases List.mem_cons.1 h with h | h
      · exact Or.inl h
      · exact Or.inr (List.mem_cons_of_mem _ h)
    · rcases List.mem_cons.1 h with h | h
      · exact Or.inr (h ▸ List.mem_cons_self ..)
      · exact (ih h).imp id (List.mem_cons_of_mem _)

theorem kset_same {m : KW} {k : Name} {v : V} (h : kget m k = some v) : kset m k v = m := by
  induction m with
  | nil => cases h
  | cons q r ih =>
    obtain ⟨k0, v0⟩ := q
    rw [kget_cons] at h
    simp only [kset]
    by_cases e : k0 = k
    · subst e; simp only [if_true] at h ⊢; cases h; rfl
    · simp only [e, if_false] at h ⊢; rw [ih h]

theorem noteChange_bound (F : Functor) (k : Name) (a b : Bool) :
    (F.noteChange k a b).bound = F.bound ∧ (F.noteChange k a b).va = F.va ∧ (F.noteChange k a b).sig = F.sig ∧
    (F.noteChange k a b).overrideArgs = F.overrideArgs ∧ (F.noteChange k a b).ignoreExtraArgs = F.ignoreExtraArgs := by
  unfold Functor.noteChange; split <;> exact ⟨rfl, rfl, rfl, rfl, rfl⟩

theorem find_param_none (s : Sig) (k : Name) (h : s.names.contains k = false) :
    s.params.find? (fun p => p.name == k) = none := by
  rw [List.find?_eq_none]
  intro p hp hpk
  have hk : p.name = k := by simpa using hpk
  have : k ∈ s.names := by
    simp only [Sig.params, List.mem_append] at hp
    simp only [Sig.names, Sig.posNames, Sig.kwNames, List.mem_append, List.mem_map]
    exact hp.imp (fun h => ⟨p, h, hk⟩) (fun h => ⟨p, h, hk⟩)
  rw [List.contains_iff_mem.2 this] at h; cases h

theorem built_setArg (s : Sig) (F : Functor) (n : Named) (hB : Built s F n) (k : Name) (v : V)
    (hk : s.names.contains k = true ∨ s.varkw.isSome = true) (hv : s.varargs ≠ some k) :
    Built s (F.setArg k v) (Named.setArg s n k v) ∧
    (F.setArg k v).overrideArgs = F.overrideArgs ∧ (F.setArg k v).ignoreExtraArgs = F.ignoreExtraArgs := by
  obtain ⟨hsig, hnd, hnamed, hextra, hexv, hva, hvas, hnovk⟩ := hB
  subst hsig
  have hB : Built F.sig F n := ⟨rfl, hnd, hnamed, hextra, hexv, hva, hvas, hnovk⟩
  unfold Functor.setArg Named.setArg
  simp only []
  cases hn : F.sig.names.contains k with
  | true =>
    have hkg : kget F.bound k = kget n.named k := by
      rw [← hnamed, kget_filter (fun k => F.sig.names.contains k), hn]; rfl
    simp only [if_true, hkg]
    split
    · exact ⟨hB, rfl, rfl⟩
    · obtain ⟨e1, e2, e3, e4, e5⟩ := noteChange_bound { F with bound := kset F.bound k v } k
        (((F.sig.params.find? (fun p => p.name == k)).bind (·.dflt)) == some v)
        ((F.sig.params.find? (fun p => p.name == k)).bind (·.dflt)).isSome
      refine ⟨⟨e3, by rw [e1]; exact nodup_keys_kset _ _ _ hnd, ?_, ?_, ?_, by rw [e2]; exact hva,
        by rw [e2]; exact hvas, ?_⟩, e4, e5⟩
      · rw [e1]; simp only
        rw [filter_kset (fun k => F.sig.names.contains k), hn, hnamed]; rfl
      · rw [e1]; simp only
        rw [filter_kset (fun k => !F.sig.names.contains k), hn, hextra]; rfl
      · rw [e1]; intro p hp hpn
        rcases mem_kset hp with rfl | hp
        · rw [hn] at hpn; cases hpn
        · exact hexv p hp hpn
      · rw [e1]; intro p hp
        rcases mem_kset hp with rfl | hp
        · exact hv
        · exact hnovk p hp
  | false =>
    have hvk : F.sig.varkw.isSome = true := by
      rcases hk with h | h
      · rw [hn] at h; cases h
      · exact h
    have hfind := find_param_none F.sig k hn
    have hkg : kget F.bound k = kget n.extra k := by
      rw [← hextra, kget_filter (fun k => !F.sig.names.contains k), hn]; rfl
    simp only [Bool.false_eq_true, if_false, hfind, Option.bind_none, Option.orElse_none]
    split
    · rename_i hc
      have hs : kget n.extra k = some v := by
        rw [← hkg]
        cases hg : kget F.bound k with
        | none => rw [hg] at hc; simp at hc
        | some w => rw [hg] at hc; simp at hc; rw [hc]
      refine ⟨⟨rfl, hnd, hnamed, ?_, hexv, hva, hvas, hnovk⟩, rfl, rfl⟩
      simp only [kset_same hs]; exact hextra
    · obtain ⟨e1, e2, e3, e4, e5⟩ := noteChange_bound { F with bound := kset F.bound k v } k
        ((none : Option V) == some v) (none : Option V).isSome
      refine ⟨⟨e3, by rw [e1]; exact nodup_keys_kset _ _ _ hnd, ?_, ?_, ?_, by rw [e2]; exact hva,
        by rw [e2]; exact hvas, ?_⟩, e4, e5⟩
      · rw [e1]; simp only
        rw [filter_kset (fun k => F.sig.names.contains k), hn, hnamed]; rfl
      · rw [e1]; simp only
        rw [filter_kset (fun k => !F.sig.names.contains k), hn, hextra]; rfl
      · rw [e1]; intro p hp _
        exact hvk
      · rw [e1]; intro p hp
        rcases mem_kset hp with rfl | hp
        · exact hv
        · exact hnovk p hp


/-- A late-binding operation is admissible for a signature: only declared parameters, wildcard
keywords when `**kwargs` is declared, the variadic list when `*args` is declared; no key named like
the `*args` parameter. -/
def LateOp.ok (s : Sig) : LateOp → Prop
  | .rebind upd => ∀ p ∈ upd, (s.names.contains p.1 = true ∨ s.varkw.isSome = true) ∧ s.varargs ≠ some p.1
  | .setVarargs _ => s.varargs.isSome = true
  | .del _ => True

theorem built_rebind (s : Sig) (F : Functor) (n : Named) (hB : Built s F n) (upd : KW)
    (h : ∀ p ∈ upd, (s.names.contains p.1 = true ∨ s.varkw.isSome = true) ∧ s.varargs ≠ some p.1) :
    Built s (F.rebind upd) (n.rebind s upd) ∧
    (F.rebind upd).overrideArgs = F.overrideArgs ∧ (F.rebind upd).ignoreExtraArgs = F.ignoreExtraArgs := by
  induction upd generalizing F n with
  | nil => exact ⟨hB, rfl, rfl⟩
  | cons p r ih =>
    obtain ⟨k, v⟩ := p
    obtain ⟨h1, h2⟩ := h (k, v) (List.mem_cons_self ..)
    obtain ⟨hB', e1, e2⟩ := built_setArg s F n hB k v h1 h2
    obtain ⟨hB'', e3, e4⟩ := ih (F.setArg k v) (Named.setArg s n k v) hB' (fun q hq => h q (List.mem_cons_of_mem _ hq))
    exact ⟨hB'', by rw [← e1]; exact e3, by rw [← e2]; exact e4⟩

theorem built_setVarargs (s : Sig) (F : Functor) (n : Named) (hB : Built s F n) (xs : List V)
    (h : s.varargs.isSome = true) :
    Built s (F.setVarargs xs) { n with va := xs } ∧
    (F.setVarargs xs).overrideArgs = F.overrideArgs ∧ (F.setVarargs xs).ignoreExtraArgs = F.ignoreExtraArgs := by
  obtain ⟨hsig, hnd, hnamed, hextra, hexv, hva, hvas, hnovk⟩ := hB
  subst hsig
  unfold Functor.setVarargs
  cases hv : F.sig.varargs with
  | none => rw [hv] at h; cases h
  | some vn =>
    simp only
    obtain ⟨e1, e2, e3, e4, e5⟩ := noteChange_bound { F with va := some xs } vn xs.isEmpty true
    exact ⟨⟨e3, by rw [e1]; exact hnd, by rw [e1]; exact hnamed, by rw [e1]; exact hextra,
      by rw [e1]; exact hexv, by rw [e2]; rfl, fun _ => by rw [hv]; rfl, by rw [e1]; exact hnovk⟩, e4, e5⟩

theorem built_delArg (s : Sig) (F : Functor) (n : Named) (hB : Built s F n) (k : Name) :
    Built s (F.delArg k) ⟨kdel n.named k, n.va, kdel n.extra k⟩ ∧
    (F.delArg k).overrideArgs = F.overrideArgs ∧ (F.delArg k).ignoreExtraArgs = F.ignoreExtraArgs := by
  obtain ⟨hsig, hnd, hnamed, hextra, hexv, hva, hvas, hnovk⟩ := hB
  refine ⟨⟨hsig, ?_, ?_, ?_, ?_, hva, hvas, ?_⟩, rfl, rfl⟩
  · simp only [Functor.delArg, kdel]
    rw [keys_filter (fun x => x != k)]
    exact List.Nodup.sublist List.filter_sublist hnd
  · simp only [Functor.delArg, kdel]
    rw [← hnamed, List.filter_filter, List.filter_filter]
    apply List.filter_congr; intro p _; rw [Bool.and_comm]
  · simp only [Functor.delArg, kdel]
    rw [← hextra, List.filter_filter, List.filter_filter]
    apply List.filter_congr; intro p _; rw [Bool.and_comm]
  · intro p hp
    simp only [Functor.delArg, kdel, List.mem_filter] at hp
    exact hexv p hp.1
  · intro p hp
    simp only [Functor.delArg, kdel, List.mem_filter] at hp
    exact hnovk p hp.1

theorem built_late (s : Sig) (F : Functor) (n : Named) (hB : Built s F n) (ops : List LateOp)
    (h : ∀ op ∈ ops, LateOp.ok s op) :
    Built s (ops.foldl Functor.late F) (ops.foldl (Named.late s) n) ∧
    (ops.foldl Functor.late F).overrideArgs = F.overrideArgs ∧
    (ops.foldl Functor.late F).ignoreExtraArgs = F.ignoreExtraArgs := by
  induction ops generalizing F n with
  | nil => exact ⟨hB, rfl, rfl⟩
  | cons op r ih =>
    have hop := h op (List.mem_cons_self ..)
    have hr := fun o ho => h o (List.mem_cons_of_mem _ ho)
    simp only [List.foldl_cons]
    cases op with
    | rebind upd =>
      obtain ⟨hB', e1, e2⟩ := built_rebind s F n hB upd hop
      obtain ⟨hB'', e3, e4⟩ := ih (F.rebind upd) (n.rebind s upd) hB' hr
      exact ⟨hB'', by rw [← e1]; exact e3, by rw [← e2]; exact e4⟩
    | setVarargs xs =>
      obtain ⟨hB', e1, e2⟩ := built_setVarargs s F n hB xs hop
      obtain ⟨hB'', e3, e4⟩ := ih (F.setVarargs xs) { n with va := xs } hB' hr
      exact ⟨hB'', by rw [← e1]; exact e3, by rw [← e2]; exact e4⟩
    | del k =>
      obtain ⟨hB', e1, e2⟩ := built_delArg s F n hB k
      obtain ⟨hB'', e3, e4⟩ := ih (F.delArg k) ⟨kdel n.named k, n.va, kdel n.extra k⟩ hB' hr
      exact ⟨hB'', by rw [← e1]; exact e3, by rw [← e2]; exact e4⟩



theorem fill_congr_orElse {m m' : KW} {ps : List Param}
    (h : ∀ p ∈ ps, (kget m p.name).orElse (fun _ => p.dflt) = (kget m' p.name).orElse (fun _ => p.dflt)) :
    fill m ps = fill m' ps := by
  induction ps with
  | nil => rfl
  | cons p r ih =>
    simp only [fill]
    rw [h p (List.mem_cons_self ..), ih (fun q hq => h q (List.mem_cons_of_mem _ hq))]

theorem keys_withDefaults_sublist (f : KW) (ps : List Param) :
    (keys (withDefaults f ps)).Sublist (ps.map (·.name)) := by
  induction ps with
  | nil => simp [withDefaults, keys]
  | cons p ps ih =>
    simp only [withDefaults, List.filterMap_cons, List.map_cons]
    cases hv : (kget f p.name).orElse (fun _ => p.dflt) with
    | none => simp only [Option.map_none]; exact (ih).cons _
    | some v => simp only [Option.map_some, keys, List.map_cons]; exact (ih).cons₂ _

/-- The JSON round trip of a functor built from `n` is a functor built from `n` with the defaults
made explicit. -/
theorem built_json (s : Sig) (hwf : s.wf = true) (F : Functor) (n : Named) (hB : Built s F n) :
    Built s F.jsonRoundTrip
      ⟨withDefaults F.bound s.pos ++ withDefaults F.bound s.kwonly, F.va.getD [], n.extra⟩ := by
  obtain ⟨hsig, hnd, hnamed, hextra, hexv, hva, hvas, hnovk⟩ := hB
  subst hsig
  have hpn : (F.sig.pos.map (·.name)).Nodup := Sig.wf_pos_nodup hwf
  have hkn : (F.sig.kwonly.map (·.name)).Nodup := Sig.wf_kw_nodup hwf
  have hP : ∀ p ∈ withDefaults F.bound F.sig.pos, F.sig.names.contains p.1 = true := fun p hp =>
    Sig.pos_sub_names F.sig (keys_withDefaults_sub _ _ _ (mem_keys_of_mem hp))
  have hK : ∀ p ∈ withDefaults F.bound F.sig.kwonly, F.sig.names.contains p.1 = true := fun p hp =>
    List.contains_iff_mem.2 (List.mem_append_right _ (keys_withDefaults_sub _ _ _ (mem_keys_of_mem hp)))
  have hE : ∀ p ∈ F.bound.filter (fun p => !(F.sig.names.contains p.1)), F.sig.names.contains p.1 = false := by
    intro p hp; rw [List.mem_filter] at hp; simpa using hp.2
  refine ⟨rfl, ?_, ?_, ?_, ?_, ?_, ?_, ?_⟩
  · -- nodup
    simp only [Functor.jsonRoundTrip]
    rw [keys_append, keys_append, List.nodup_append]
    refine ⟨?_, ?_, ?_⟩
    · rw [List.nodup_append]
      refine ⟨List.Nodup.sublist (keys_withDefaults_sublist _ _) hpn,
              List.Nodup.sublist (keys_withDefaults_sublist _ _) hkn, ?_⟩
      intro a ha b hb e; subst e
      exact Sig.wf_kw_not_pos hwf (keys_withDefaults_sub _ _ _ hb) (keys_withDefaults_sub _ _ _ ha)
    · rw [keys_filter (fun k => !(F.sig.names.contains k))]
      exact List.Nodup.sublist List.filter_sublist hnd
    · intro a ha b hb e; subst e
      obtain ⟨q, hq, hqe⟩ := exists_of_mem_keys hb
      have h1 := hE q hq
      rw [hqe] at h1
      rcases List.mem_append.1 ha with ha | ha
      · obtain ⟨q', hq', hqe'⟩ := exists_of_mem_keys ha
        have := hP q' hq'; rw [hqe', h1] at this; cases this
      · obtain ⟨q', hq', hqe'⟩ := exists_of_mem_keys ha
        have := hK q' hq'; rw [hqe', h1] at this; cases this
  · simp only [Functor.jsonRoundTrip]
    rw [List.filter_append, List.filter_append, List.filter_eq_self.2 hP, List.filter_eq_self.2 hK,
      List.filter_eq_nil_iff.2 (fun p hp => by rw [hE p hp]; simp)]
    simp
  · simp only [Functor.jsonRoundTrip]
    rw [List.filter_append, List.filter_append,
      List.filter_eq_nil_iff.2 (fun p hp => by rw [hP p hp]; simp),
      List.filter_eq_nil_iff.2 (fun p hp => by rw [hK p hp]; simp),
      List.filter_eq_self.2 (fun p hp => by rw [hE p hp]; rfl)]
    simpa using hextra
  · intro p hp hpn'
    simp only [Functor.jsonRoundTrip] at hp
    rcases List.mem_append.1 hp with hp | hp
    · rcases List.mem_append.1 hp with hp | hp
      · rw [hP p hp] at hpn'; cases hpn'
      · rw [hK p hp] at hpn'; cases hpn'
    · exact hexv p (List.mem_filter.1 hp).1 hpn'
  · simp only [Functor.jsonRoundTrip]
    cases hv : F.sig.varargs with
    | some vn => rfl
    | none =>
      cases hf : F.va with
      | none => rfl
      | some xs => have := hvas (by rw [hf]; rfl); rw [hv] at this; cases this
  · intro hne
    simp only [Functor.jsonRoundTrip] at hne
    cases hv : F.sig.varargs with
    | some vn => rfl
    | none => rw [hv] at hne; cases hne
  · intro p hp
    simp only [Functor.jsonRoundTrip] at hp
    intro hvn
    have hnn : p.1 ∉ F.sig.names := Sig.wf_varargs_not_name hwf hvn
    rcases List.mem_append.1 hp with hp | hp
    · rcases List.mem_append.1 hp with hp | hp
      · exact hnn (List.contains_iff_mem.1 (hP p hp))
      · exact hnn (List.contains_iff_mem.1 (hK p hp))
    · exact hnovk p (List.mem_filter.1 hp).1 hvn


theorem nameArgs_empty_if (s : Sig) (b : Bool) :
    nameArgs s (if b = true then dropExtras s Call.empty else Call.empty) = .ok ⟨[], [], []⟩ := by
  cases b
  · exact nameArgs_empty s
  · simp [nameArgs, dropExtras, Call.empty, bindKw]

/-- The round-tripped functor calls like the original: `from_json(to_json(F))()` is `F()`. -/
theorem functorCall_json (s : Sig) (hwf : s.wf = true) (F : Functor) (n : Named) (hB : Built s F n) :
    functorCall true F.jsonRoundTrip Call.empty none none = functorCall true F Call.empty none none := by
  have hBj := built_json s hwf F n hB
  rw [functorCall_eq s hwf F.jsonRoundTrip _ ⟨[], [], []⟩ hBj Call.empty none none rfl
        (fun p hp => by simp [Call.empty] at hp) (nameArgs_empty_if s _) (Or.inr (conflicts_empty_right _)),
      functorCall_eq s hwf F n ⟨[], [], []⟩ hB Call.empty none none rfl
        (fun p hp => by simp [Call.empty] at hp) (nameArgs_empty_if s _) (Or.inr (conflicts_empty_right _)),
      mergeNamed_empty_right, mergeNamed_empty_right]
  obtain ⟨hsig, _, hnamed, _, _, hva, _, _⟩ := hB
  subst hsig
  have hpn : (F.sig.pos.map (·.name)).Nodup := Sig.wf_pos_nodup hwf
  have hkn : (F.sig.kwonly.map (·.name)).Nodup := Sig.wf_kw_nodup hwf
  obtain ⟨hp1, hp2⟩ := kget_withDefaults F.bound F.sig.pos hpn
  obtain ⟨hk1, hk2⟩ := kget_withDefaults F.bound F.sig.kwonly hkn
  have hget : ∀ p ∈ F.sig.params,
      (kget (withDefaults F.bound F.sig.pos ++ withDefaults F.bound F.sig.kwonly) p.name).orElse (fun _ => p.dflt)
        = (kget n.named p.name).orElse (fun _ => p.dflt) := by
    intro p hp
    have hpn' : F.sig.names.contains p.name = true := by
      apply List.contains_iff_mem.2
      simp only [Sig.params, List.mem_append] at hp
      simp only [Sig.names, Sig.posNames, Sig.kwNames, List.mem_append, List.mem_map]
      exact hp.imp (fun h => ⟨p, h, rfl⟩) (fun h => ⟨p, h, rfl⟩)
    have hn : kget n.named p.name = kget F.bound p.name := by
      rw [← hnamed, kget_filter (fun k => F.sig.names.contains k), hpn']; rfl
    have hval : kget (withDefaults F.bound F.sig.pos ++ withDefaults F.bound F.sig.kwonly) p.name = pval F.bound p := by
      rw [kget_append]
      rcases List.mem_append.1 hp with hp | hp
      · rw [hp1 p hp]
        cases hv : pval F.bound p with
        | some v => rfl
        | none =>
          simp only
          exact hk2 _ (fun h => Sig.wf_kw_not_pos hwf h (List.mem_map.2 ⟨p, hp, rfl⟩))
      · rw [hp2 _ (Sig.wf_kw_not_pos hwf (List.mem_map.2 ⟨p, hp, rfl⟩))]
        exact hk1 p hp
    rw [hval, hn]
    unfold pval
    cases kget F.bound p.name <;> cases p.dflt <;> rfl
  unfold complete
  simp only
  rw [fill_congr_orElse (fun p hp => hget p (List.mem_append_left _ hp)),
      fill_congr_orElse (fun p hp => hget p (List.mem_append_right _ hp)), hva]



theorem bindKw_err_of_unknown (s : Sig) (kws : KW) (n : Named) (hv : s.varkw = none)
    (h : ∃ p ∈ kws, s.names.contains p.1 = false) : ∃ e, bindKw s kws n = .error e := by
  induction kws generalizing n with
  | nil => obtain ⟨p, hp, _⟩ := h; cases hp
  | cons q r ih =>
    obtain ⟨k, v⟩ := q
    simp only [bindKw, hv, Option.isSome_none, Bool.false_eq_true, if_false]
    cases hn : s.names.contains k with
    | false => exact ⟨_, rfl⟩
    | true =>
      simp only [if_true]
      split
      · exact ⟨_, rfl⟩
      · obtain ⟨p, hp, hpn⟩ := h
        rcases List.mem_cons.1 hp with rfl | hp
        · rw [hn] at hpn; cases hpn
        · exact ih _ ⟨p, hp, hpn⟩

/-- Without `**kwargs`, a call-time keyword that is not a parameter name — in particular one named
like the `*args` parameter — is refused by the functor exactly as by the plain function. -/
theorem functorCall_unknown_keyword (s : Sig) (F : Functor) (hsig : F.sig = s) (c : Call) (o? : Option Bool)
    (hv : s.varkw = none) (hign : F.ignoreExtraArgs = false)
    (h : ∃ p ∈ c.kwargs, s.names.contains p.1 = false) :
    functorCall true F c o? none = .error .typeError ∧ pyCall s c = .error .typeError := by
  constructor
  · have hpo : parseOverrides true F c o? none = .error .typeError := by
      unfold parseOverrides
      simp only [hsig, Option.getD_none, hign]
      split
      · rfl
      · cases hp : posLoop F.specified (o?.getD F.overrideArgs) (s.posNames.zip c.args) F.bound with
        | error e => cases e; rfl
        | ok kw1 =>
          simp only
          rw [kwLoop_err s _ _ _ false c.kwargs _
            (by obtain ⟨p, hp, hn⟩ := h
                exact ⟨p, hp, Or.inr (Or.inl ⟨by simp only [keep, hn, hv, Option.isSome_none, Bool.or_false], rfl⟩)⟩)]
    unfold functorCall
    rw [hpo]
  · rw [pyCall_eq]
    unfold pyBind nameArgs
    obtain ⟨e, he⟩ := bindKw_err_of_unknown s c.kwargs ⟨s.posNames.zip c.args, c.args.drop s.pos.length, []⟩ hv h
    rw [he]; rfl

theorem withOverrides_store {ε α : Type} (st : OvStore) (o t : Nat) (kw : KW) (body : OvStore → Except ε α) :
    (withOverrides st o t kw body).1 = st := rfl

end Pg.C18
