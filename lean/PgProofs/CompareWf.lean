/-
  C06 helper lemmas, part 8: the key-order-free class `wellFormed` (dict keys pairwise different
  under `==`, in ANY order) and the three bridges to the ascending-key class `comparable`:

  (a) `wf_canon`   : `wellFormed x → comparable (canon x)` (insertion sort of pairwise different keys
                     is strictly ascending);
  (b) `eq_canon`   : `eq (canon x) (canon y) = eq x y` (the dict equality looks keys up, and lookup
                     under pairwise different keys is invariant under permutation);
  (c) `hash_canon` : `pg.hash (canon x) = pg.hash x` for every `hash` whose frozenset combination is
                     invariant under permutation of the items
                     (`HashOk.fset_perm`).
-/
import PgProofs.CompareCanon
namespace Pg.C06

variable {env : Env}

/-! ### The class -/

mutual
  /-- The class of values the C06 theorems quantify over (decidable): any nesting of atoms, plain or
  symbolic lists, dicts whose keys are pairwise different under `==` — **in any order** —, objects
  whose attributes are the declared fields of their class (`env.fields c`, any declaration order) or
  — for a class with a variable-key schema (`env.dyn c`) — pairwise different keys in any order,
  tuples of numbers only (`num = true`) or of strings only (`num = false`). -/
  def wellFormed (env : Env) (num : Bool) : Val → Bool
    | .atom _ => true
    | .list _ xs => wellFormedList env num xs
    | .tuple xs => xs.all (tupleElemOk num)
    | .dict _ kvs => nodupAtoms (keysOf kvs) && wellFormedItems env num kvs
    | .obj c kvs =>
        (if env.dyn c then nodupAtoms (keysOf kvs) else keysOk env (some (env.fields c)) kvs)
        && wellFormedItems env num kvs
  def wellFormedList (env : Env) (num : Bool) : List Val → Bool
    | [] => true
    | x :: xs => wellFormed env num x && wellFormedList env num xs
  def wellFormedItems (env : Env) (num : Bool) : List (Atom × Val) → Bool
    | [] => true
    | (_, v) :: rest => wellFormed env num v && wellFormedItems env num rest
end

theorem wellFormedItems_iff (num : Bool) (xs : List (Atom × Val)) :
    wellFormedItems env num xs = true ↔ ∀ p ∈ xs, wellFormed env num p.2 = true := by
  induction xs with
  | nil => simp [wellFormedItems]
  | cons p xs ih => obtain ⟨k, v⟩ := p; simp [wellFormedItems, ih]

theorem comparableItems_iff (num : Bool) (xs : List (Atom × Val)) :
    comparableItems env num xs = true ↔ ∀ p ∈ xs, comparable env num p.2 = true := by
  induction xs with
  | nil => simp [comparableItems]
  | cons p xs ih => obtain ⟨k, v⟩ := p; simp [comparableItems, ih]

/-! ### Pairwise forms of the two key disciplines -/

theorem nodupAtoms_iff (L : List Atom) :
    nodupAtoms L = true ↔ L.Pairwise (fun a b => atomEq a b = false) := by
  induction L with
  | nil => simp [nodupAtoms]
  | cons a L ih => simp [nodupAtoms, List.pairwise_cons, ih]

theorem nodupAtoms_perm {L L' : List Atom} (h : L.Perm L') (hn : nodupAtoms L = true) :
    nodupAtoms L' = true := by
  rw [nodupAtoms_iff] at hn ⊢
  exact (h.pairwise_iff (fun {x y} hxy => by rw [atomEq_symm]; exact hxy)).mp hn

theorem ascKeys_iff (xs : List (Atom × Val)) :
    ascKeys env xs = true ↔ xs.Pairwise (fun p q => atomLt env p.1 q.1 = .ok true) := by
  induction xs with
  | nil => simp [ascKeys]
  | cons p xs ih => obtain ⟨k, v⟩ := p; simp [ascKeys, List.pairwise_cons, ih, isTrue_iff]

/-- Strictly ascending keys are pairwise different: the old class is contained in the new one. -/
theorem nodup_of_asc (ok : EnvOk env) (xs : List (Atom × Val)) (h : ascKeys env xs = true) :
    nodupAtoms (keysOf xs) = true := by
  induction xs with
  | nil => rfl
  | cons p xs ih =>
    obtain ⟨k, v⟩ := p
    obtain ⟨h1, h2⟩ := ascKeys_cons h
    simp only [keysOf, List.map_cons, nodupAtoms, Bool.and_eq_true, List.all_eq_true,
      Bool.not_eq_true', List.mem_map]
    refine ⟨?_, ih h2⟩
    rintro b ⟨q, hq, rfl⟩
    exact (atom_ne_of_lt ok (h1 q hq)).1

mutual
  theorem comparable_wellFormed (ok : EnvOk env) (num : Bool) (x : Val)
      (hx : comparable env num x = true) : wellFormed env num x = true := by
    cases x with
    | atom a => rfl
    | list s xs => simp only [comparable] at hx; simp only [wellFormed]; exact comparableList_wellFormed ok num xs hx
    | tuple xs => simpa only [comparable, wellFormed] using hx
    | dict s kvs =>
      simp only [comparable, Bool.and_eq_true] at hx
      simp only [wellFormed, Bool.and_eq_true]
      exact ⟨nodup_of_asc ok kvs hx.1, comparableItems_wellFormed ok num kvs hx.2⟩
    | obj c kvs =>
      simp only [comparable, Bool.and_eq_true] at hx
      simp only [wellFormed, Bool.and_eq_true]
      refine ⟨?_, comparableItems_wellFormed ok num kvs hx.2⟩
      have h1 := hx.1
      cases hd : env.dyn c
      · simpa [objSh, hd] using h1
      · simp only [objSh, hd, if_true] at h1 ⊢
        exact nodup_of_asc ok kvs h1
  termination_by structural x
  theorem comparableList_wellFormed (ok : EnvOk env) (num : Bool) (xs : List Val)
      (hx : comparableList env num xs = true) : wellFormedList env num xs = true := by
    cases xs with
    | nil => rfl
    | cons x xs =>
      simp only [comparableList, Bool.and_eq_true] at hx
      simp only [wellFormedList, Bool.and_eq_true]
      exact ⟨comparable_wellFormed ok num x hx.1, comparableList_wellFormed ok num xs hx.2⟩
  termination_by structural xs
  theorem comparableItems_wellFormed (ok : EnvOk env) (num : Bool) (xs : List (Atom × Val))
      (hx : comparableItems env num xs = true) : wellFormedItems env num xs = true := by
    cases xs with
    | nil => rfl
    | cons p xs =>
      obtain ⟨k, v⟩ := p
      simp only [comparableItems, Bool.and_eq_true] at hx
      simp only [wellFormedItems, Bool.and_eq_true]
      exact ⟨comparable_wellFormed ok num v hx.1, comparableItems_wellFormed ok num xs hx.2⟩
  termination_by structural xs
end

/-! ### (a) Sorting pairwise different keys gives strictly ascending keys -/

theorem insertItem_perm (k : Atom) (v : Val) (xs : List (Atom × Val)) :
    (insertItem env k v xs).Perm ((k, v) :: xs) := by
  induction xs with
  | nil => exact List.Perm.refl _
  | cons p xs ih =>
    obtain ⟨k', w⟩ := p
    simp only [insertItem]
    split
    · exact List.Perm.refl _
    · exact (List.Perm.cons _ ih).trans (List.Perm.swap _ _ _)

theorem sortItems_perm (xs : List (Atom × Val)) : (sortItems env xs).Perm xs := by
  induction xs with
  | nil => exact List.Perm.refl _
  | cons p xs ih =>
    obtain ⟨k, v⟩ := p
    simp only [sortItems]
    exact (insertItem_perm k v _).trans (List.Perm.cons _ ih)

theorem keysOf_perm {xs ys : List (Atom × Val)} (h : xs.Perm ys) : (keysOf xs).Perm (keysOf ys) :=
  h.map _

theorem insertItem_sorted (ok : EnvOk env) (k : Atom) (v : Val) (xs : List (Atom × Val))
    (ha : xs.Pairwise (fun p q => atomLt env p.1 q.1 = .ok true))
    (hf : ∀ q ∈ xs, atomEq k q.1 = false) :
    (insertItem env k v xs).Pairwise (fun p q => atomLt env p.1 q.1 = .ok true) := by
  induction xs with
  | nil => simp [insertItem]
  | cons p xs ih =>
    obtain ⟨k', w⟩ := p
    obtain ⟨h1, h2⟩ := List.pairwise_cons.mp ha
    simp only [insertItem]
    split
    · rename_i hlt
      have hlt := (okTrue_iff _).mp hlt
      refine List.pairwise_cons.mpr ⟨?_, ha⟩
      intro q hq
      rcases List.mem_cons.mp hq with rfl | hq
      · exact hlt
      · exact atomLt_trans ok hlt (h1 q hq)
    · rename_i hnlt
      refine List.pairwise_cons.mpr ⟨?_, ih h2 (fun q hq => hf q (List.mem_cons_of_mem _ hq))⟩
      intro q hq
      rcases List.mem_cons.mp ((insertItem_perm k v xs).mem_iff.mp hq) with rfl | hq
      · rcases atomTri ok k k' with ⟨h, _, _⟩ | ⟨_, h, _⟩ | ⟨_, _, h⟩
        · exact absurd ((okTrue_iff _).mpr h) hnlt
        · rw [hf (k', w) (List.mem_cons_self ..)] at h; cases h
        · exact h
      · exact h1 q hq

theorem sortItems_sorted (ok : EnvOk env) (xs : List (Atom × Val))
    (hn : nodupAtoms (keysOf xs) = true) : ascKeys env (sortItems env xs) = true := by
  rw [ascKeys_iff]
  induction xs with
  | nil => simp [sortItems]
  | cons p xs ih =>
    obtain ⟨k, v⟩ := p
    simp only [keysOf, List.map_cons, nodupAtoms, Bool.and_eq_true, List.all_eq_true,
      Bool.not_eq_true'] at hn
    simp only [sortItems]
    refine insertItem_sorted ok k v _ (ih hn.2) ?_
    intro q hq
    exact hn.1 q.1 (List.mem_map.mpr ⟨q, (sortItems_perm xs).mem_iff.mp hq, rfl⟩)

theorem keysOf_canonItems (xs : List (Atom × Val)) : keysOf (canonItems env xs) = keysOf xs := by
  induction xs with
  | nil => rfl
  | cons p xs ih =>
    obtain ⟨k, v⟩ := p
    simp only [canonItems, keysOf, List.map_cons] at ih ⊢
    rw [ih]

theorem comparableItems_perm {num : Bool} {xs ys : List (Atom × Val)} (h : xs.Perm ys)
    (hx : comparableItems env num xs = true) : comparableItems env num ys = true := by
  rw [comparableItems_iff] at hx ⊢
  exact fun p hp => hx p (h.mem_iff.mpr hp)

mutual
  /-- (a) Sorting the keys of every dict of a well-formed value gives a `comparable` value. -/
  theorem wf_canon (ok : EnvOk env) (num : Bool) (x : Val) (hx : wellFormed env num x = true) :
      comparable env num (canon env x) = true := by
    cases x with
    | atom a => rfl
    | list s xs =>
      simp only [wellFormed] at hx
      simp only [canon, comparable]
      exact wfList_canon ok num xs hx
    | tuple xs =>
      simp only [wellFormed] at hx
      simp only [canon, comparable, canonList_tuple num xs hx]
      exact hx
    | dict s kvs =>
      simp only [wellFormed, Bool.and_eq_true] at hx
      simp only [canon, comparable, Bool.and_eq_true, keysOk]
      refine ⟨sortItems_sorted ok _ (by rw [keysOf_canonItems]; exact hx.1), ?_⟩
      exact comparableItems_perm (sortItems_perm _).symm (wfItems_canon ok num kvs hx.2)
    | obj c kvs =>
      simp only [wellFormed, Bool.and_eq_true] at hx
      simp only [canon, comparable, Bool.and_eq_true]
      have h1 := hx.1
      cases hd : env.dyn c
      · simp only [hd, Bool.false_eq_true, if_false, objSh] at h1 ⊢
        refine ⟨?_, wfItems_canon ok num kvs hx.2⟩
        simp only [keysOk, keysOf_canonItems] at h1 ⊢
        exact h1
      · simp only [hd, if_true, objSh, keysOk] at h1 ⊢
        refine ⟨sortItems_sorted ok _ (by rw [keysOf_canonItems]; exact h1), ?_⟩
        exact comparableItems_perm (sortItems_perm _).symm (wfItems_canon ok num kvs hx.2)
  termination_by structural x
  theorem wfList_canon (ok : EnvOk env) (num : Bool) (xs : List Val)
      (hx : wellFormedList env num xs = true) : comparableList env num (canonList env xs) = true := by
    cases xs with
    | nil => rfl
    | cons x xs =>
      simp only [wellFormedList, Bool.and_eq_true] at hx
      simp only [canonList, comparableList, Bool.and_eq_true]
      exact ⟨wf_canon ok num x hx.1, wfList_canon ok num xs hx.2⟩
  termination_by structural xs
  theorem wfItems_canon (ok : EnvOk env) (num : Bool) (xs : List (Atom × Val))
      (hx : wellFormedItems env num xs = true) : comparableItems env num (canonItems env xs) = true := by
    cases xs with
    | nil => rfl
    | cons p xs =>
      obtain ⟨k, v⟩ := p
      simp only [wellFormedItems, Bool.and_eq_true] at hx
      simp only [canonItems, comparableItems, Bool.and_eq_true]
      exact ⟨wf_canon ok num v hx.1, wfItems_canon ok num xs hx.2⟩
  termination_by structural xs
end

/-- Sorting twice is sorting once. -/
theorem canon_idem (ok : EnvOk env) (num : Bool) (x : Val) (hx : wellFormed env num x = true) :
    canon env (canon env x) = canon env x :=
  canon_id num _ (wf_canon ok num x hx)

/-! ### (b) `eq` does not see the key order -/

/-- The per-item test of the dict equality (`ne(v, right[k])`). -/
def itemEq (ys : List (Atom × Val)) (p : Atom × Val) : Bool :=
  match lookup p.1 ys with
  | some w => eq p.2 w
  | none => false

theorem eqItems_eq_all (xs ys : List (Atom × Val)) : eqItems xs ys = xs.all (itemEq ys) := by
  induction xs with
  | nil => simp [eqItems]
  | cons p xs ih =>
    obtain ⟨k, v⟩ := p
    simp only [eqItems, List.all_cons, ih]
    rfl

theorem hasKey_eq (k : Atom) (ys : List (Atom × Val)) : hasKey k ys = (keysOf ys).any (atomEq k) := by
  simp [hasKey, keysOf, List.any_map, Function.comp_def]

theorem keysSubset_eq (xs ys : List (Atom × Val)) :
    keysSubset xs ys = (keysOf xs).all (fun k => (keysOf ys).any (atomEq k)) := by
  simp [keysSubset, keysOf, List.all_map, Function.comp_def, hasKey, List.any_map]

theorem lookup_mem {k : Atom} {ys : List (Atom × Val)} {w : Val} (h : lookup k ys = some w) :
    ∃ k', (k', w) ∈ ys ∧ atomEq k k' = true := by
  induction ys with
  | nil => simp [lookup] at h
  | cons q ys ih =>
    obtain ⟨k0, w0⟩ := q
    simp only [lookup] at h
    split at h
    · rename_i hk
      simp only [Option.some.injEq] at h
      subst h
      exact ⟨k0, List.mem_cons_self .., hk⟩
    · obtain ⟨k', hm, hk⟩ := ih h
      exact ⟨k', List.mem_cons_of_mem _ hm, hk⟩

/-- Under pairwise different keys, `lookup` is characterised by membership. -/
theorem lookup_eq_some_iff {ys : List (Atom × Val)} (hn : nodupAtoms (keysOf ys) = true) (k : Atom) (w : Val) :
    lookup k ys = some w ↔ ∃ k', (k', w) ∈ ys ∧ atomEq k k' = true := by
  refine ⟨lookup_mem, ?_⟩
  induction ys with
  | nil => rintro ⟨k', hm, _⟩; cases hm
  | cons q ys ih =>
    obtain ⟨k0, w0⟩ := q
    simp only [keysOf, List.map_cons, nodupAtoms, Bool.and_eq_true, List.all_eq_true,
      Bool.not_eq_true'] at hn
    rintro ⟨k', hm, hk⟩
    simp only [lookup]
    rcases List.mem_cons.mp hm with heq | hm
    · simp only [Prod.mk.injEq] at heq
      obtain ⟨rfl, rfl⟩ := heq
      simp [hk]
    · have hne : atomEq k0 k' = false := hn.1 k' (List.mem_map.mpr ⟨(k', w), hm, rfl⟩)
      have : atomEq k k0 = false := by
        cases h : atomEq k k0
        · rfl
        · have h' : atomEq k0 k = true := by rw [atomEq_symm]; exact h
          rw [atomEq_trans h' hk] at hne; cases hne
      simp only [this, Bool.false_eq_true, if_false]
      exact ih hn.2 ⟨k', hm, hk⟩

theorem lookup_perm {ys ys' : List (Atom × Val)} (h : ys.Perm ys') (hn : nodupAtoms (keysOf ys) = true)
    (k : Atom) : lookup k ys = lookup k ys' := by
  have hn' := nodupAtoms_perm (keysOf_perm h) hn
  apply Option.ext
  intro w
  rw [lookup_eq_some_iff hn, lookup_eq_some_iff hn']
  exact ⟨fun ⟨k', hm, hk⟩ => ⟨k', h.mem_iff.mp hm, hk⟩, fun ⟨k', hm, hk⟩ => ⟨k', h.mem_iff.mpr hm, hk⟩⟩

/-- The dict equality is invariant under permutation of either item list (the right one with
pairwise different keys). -/
theorem eqD_perm {xs xs' ys ys' : List (Atom × Val)} (hx : xs.Perm xs') (hy : ys.Perm ys')
    (hn : nodupAtoms (keysOf ys) = true) : eqD xs ys = eqD xs' ys' := by
  have e1 : xs.length = xs'.length := hx.length_eq
  have e2 : ys.length = ys'.length := hy.length_eq
  have k1 : keysSubset xs ys = keysSubset xs' ys' := by
    rw [keysSubset_eq, keysSubset_eq, (keysOf_perm hx).all_eq]
    congr 1
    funext k
    exact (keysOf_perm hy).any_eq
  have k2 : keysSubset ys xs = keysSubset ys' xs' := by
    rw [keysSubset_eq, keysSubset_eq, (keysOf_perm hy).all_eq]
    congr 1
    funext k
    exact (keysOf_perm hx).any_eq
  have k3 : eqItems xs ys = eqItems xs' ys' := by
    rw [eqItems_eq_all, eqItems_eq_all, hx.all_eq]
    congr 1
    funext p
    simp only [itemEq, lookup_perm hy hn p.1]
  simp only [eqD, e1, e2, k1, k2, k3]

theorem lookup_canonItems (k : Atom) (ys : List (Atom × Val)) :
    lookup k (canonItems env ys) = (lookup k ys).map (canon env) := by
  induction ys with
  | nil => rfl
  | cons q ys ih =>
    obtain ⟨k0, w0⟩ := q
    simp only [canonItems, lookup, ih]
    split <;> rfl

theorem length_canonItems (xs : List (Atom × Val)) : (canonItems env xs).length = xs.length := by
  induction xs with
  | nil => rfl
  | cons p xs ih => obtain ⟨k, v⟩ := p; simp [canonItems, ih]

theorem keysSubset_canonItems (xs ys : List (Atom × Val)) :
    keysSubset (canonItems env xs) (canonItems env ys) = keysSubset xs ys := by
  rw [keysSubset_eq, keysSubset_eq, keysOf_canonItems, keysOf_canonItems]

mutual
  /-- (b) `eq` of the key-sorted values is `eq` of the values. -/
  theorem eq_canon (num : Bool) (x : Val) : ∀ y : Val,
      wellFormed env num x = true → wellFormed env num y = true →
      eq (canon env x) (canon env y) = eq x y := by
    intro y hx hy
    cases x with
    | atom a => cases y <;> simp [canon, eq]
    | list s xs =>
      cases y with
      | list t ys =>
        simp only [wellFormed] at hx hy
        simp only [canon, eq]
        exact eqList_canon num xs ys hx hy
      | _ => simp [canon, eq]
    | tuple xs =>
      cases y with
      | tuple ys =>
        simp only [wellFormed] at hx hy
        simp only [canon, canonList_tuple num xs hx, canonList_tuple num ys hy]
      | _ => simp [canon, eq]
    | dict s xs =>
      cases y with
      | dict t ys =>
        simp only [wellFormed, Bool.and_eq_true] at hx hy
        simp only [canon]
        rw [eq_dict, eq_dict, eqD_perm (sortItems_perm _) (sortItems_perm _)
          (nodupAtoms_perm (keysOf_perm (sortItems_perm _).symm) (by rw [keysOf_canonItems]; exact hy.1))]
        simp only [eqD, length_canonItems, keysSubset_canonItems, eqItems_canon num xs ys hx.2 hy.2]
      | _ => simp [canon, eq]
    | obj c xs =>
      cases y with
      | obj d ys =>
        simp only [wellFormed, Bool.and_eq_true] at hx hy
        simp only [canon]
        rw [eq_obj, eq_obj]
        by_cases hcd : c = d
        · subst hcd
          cases hd : env.dyn c
          · simp only [Bool.false_eq_true, if_false]
            simp only [eqD, length_canonItems, keysSubset_canonItems, eqItems_canon num xs ys hx.2 hy.2]
          · have hn : nodupAtoms (keysOf ys) = true := by simpa [hd] using hy.1
            simp only [if_true]
            rw [eqD_perm (sortItems_perm _) (sortItems_perm _)
              (nodupAtoms_perm (keysOf_perm (sortItems_perm _).symm) (by rw [keysOf_canonItems]; exact hn))]
            simp only [eqD, length_canonItems, keysSubset_canonItems, eqItems_canon num xs ys hx.2 hy.2]
        · have : (c == d) = false := by simpa using hcd
          simp [this]
      | _ => simp [canon, eq]
  termination_by structural x
  theorem eqList_canon (num : Bool) (xs : List Val) : ∀ ys : List Val,
      wellFormedList env num xs = true → wellFormedList env num ys = true →
      eqList (canonList env xs) (canonList env ys) = eqList xs ys := by
    intro ys hx hy
    cases xs with
    | nil => cases ys <;> simp [canonList, eqList]
    | cons x xs =>
      cases ys with
      | nil => simp [canonList, eqList]
      | cons y ys =>
        simp only [wellFormedList, Bool.and_eq_true] at hx hy
        simp only [canonList, eqList, eq_canon num x y hx.1 hy.1, eqList_canon num xs ys hx.2 hy.2]
  termination_by structural xs
  theorem eqItems_canon (num : Bool) (xs : List (Atom × Val)) : ∀ ys : List (Atom × Val),
      wellFormedItems env num xs = true → wellFormedItems env num ys = true →
      eqItems (canonItems env xs) (canonItems env ys) = eqItems xs ys := by
    intro ys hx hy
    cases xs with
    | nil => simp [canonItems, eqItems]
    | cons p xs =>
      obtain ⟨k, v⟩ := p
      simp only [wellFormedItems, Bool.and_eq_true] at hx
      simp only [canonItems, eqItems, lookup_canonItems, eqItems_canon num xs ys hx.2 hy]
      cases hl : lookup k ys with
      | none => rfl
      | some w =>
        obtain ⟨k', hm, _⟩ := lookup_mem hl
        have hw : wellFormed env num w = true := (wellFormedItems_iff num ys).mp hy (k', w) hm
        simp only [Option.map_some, eq_canon num v w hx.1 hw]
  termination_by structural xs
end

/-! ### (c) the hash does not see the key order -/

mutual
  /-- `hashTerm` without the (never taken) error branches. -/
  def hT : Val → HTerm
    | .atom a => .atom a
    | .list _ xs => .tup [.reh (.cls .list), .reh (.tup (((hList xs).map .reh).map .reh))]
    | .tuple xs => .tup ((hList xs).map .reh)
    | .dict _ kvs => .tup [.reh (.cls .dict), .reh (.fset (hItems kvs))]
    | .obj c kvs => .tup [.reh (.cls (.user c)),
                          .reh (.reh (.tup [.reh (.cls .dict), .reh (.fset (hItems kvs))]))]
  def hList : List Val → List HTerm
    | [] => []
    | x :: xs => hT x :: hList xs
  def hItems : List (Atom × Val) → List HTerm
    | [] => []
    | (k, v) :: rest => if isMissing v then hItems rest else .tup [.atom k, .reh (hT v)] :: hItems rest
end

mutual
  theorem hashTerm_eq (x : Val) : hashTerm x = .ok (hT x) := by
    cases x with
    | atom a => rfl
    | list s xs => simp only [hashTerm, hashList_eq xs, hT]
    | tuple xs => simp only [hashTerm, hashList_eq xs, hT]
    | dict s kvs => simp only [hashTerm, hashItems_eq kvs, hT]
    | obj c kvs => simp only [hashTerm, hashItems_eq kvs, hT]
  termination_by structural x
  theorem hashList_eq (xs : List Val) : hashList xs = .ok (hList xs) := by
    cases xs with
    | nil => rfl
    | cons x xs => simp only [hashList, hashTerm_eq x, hashList_eq xs, hList]
  termination_by structural xs
  theorem hashItems_eq (xs : List (Atom × Val)) : hashItems xs = .ok (hItems xs) := by
    cases xs with
    | nil => rfl
    | cons p xs =>
      obtain ⟨k, v⟩ := p
      simp only [hashItems, hashTerm_eq v, hashItems_eq xs, hItems]
  termination_by structural xs
end

theorem symHash_eq (H : PyHash) (x : Val) : symHash H x = .ok (evalHash H (hT x)) := by
  simp only [symHash, hashTerm_eq]

theorem evalHashList_eq_map (H : PyHash) (ts : List HTerm) : evalHashList H ts = ts.map (evalHash H) := by
  induction ts with
  | nil => rfl
  | cons t ts ih => simp [evalHashList, ih]

def itemTerm (p : Atom × Val) : Option HTerm :=
  if isMissing p.2 then none else some (.tup [.atom p.1, .reh (hT p.2)])

theorem hItems_eq_filterMap (xs : List (Atom × Val)) : hItems xs = xs.filterMap itemTerm := by
  induction xs with
  | nil => rfl
  | cons p xs ih =>
    obtain ⟨k, v⟩ := p
    simp only [hItems, List.filterMap_cons, itemTerm, ih]
    cases isMissing v <;> rfl

theorem hItems_perm {xs ys : List (Atom × Val)} (h : xs.Perm ys) (H : PyHash) :
    (evalHashList H (hItems xs)).Perm (evalHashList H (hItems ys)) := by
  rw [evalHashList_eq_map, evalHashList_eq_map, hItems_eq_filterMap, hItems_eq_filterMap]
  exact (h.filterMap _).map _

theorem isMissing_canon (v : Val) : isMissing (canon env v) = isMissing v := by
  cases v with
  | atom a => rfl
  | _ => rfl

mutual
  /-- (c) sorting the keys does not change the hash value. -/
  theorem hash_canon {H : PyHash} (hF : HashOk H) (x : Val) :
      evalHash H (hT (canon env x)) = evalHash H (hT x) := by
    cases x with
    | atom a => rfl
    | list s xs =>
      simp only [canon, hT, evalHash, evalHashList]
      rw [evalHashList_reh, evalHashList_reh, evalHashList_reh, evalHashList_reh, hashList_canon hF xs]
    | tuple xs =>
      simp only [canon, hT, evalHash]
      rw [evalHashList_reh, evalHashList_reh, hashList_canon hF xs]
    | dict s kvs =>
      simp only [canon, hT, evalHash, evalHashList]
      rw [hF.fset_perm _ _ (hItems_perm (sortItems_perm _) H), hashItems_canon hF kvs]
    | obj c kvs =>
      simp only [canon, hT, evalHash, evalHashList]
      cases env.dyn c
      · simp only [Bool.false_eq_true, if_false]
        rw [hashItems_canon hF kvs]
      · simp only [if_true]
        rw [hF.fset_perm _ _ (hItems_perm (sortItems_perm _) H), hashItems_canon hF kvs]
  termination_by structural x
  theorem hashList_canon {H : PyHash} (hF : HashOk H) (xs : List Val) :
      evalHashList H (hList (canonList env xs)) = evalHashList H (hList xs) := by
    cases xs with
    | nil => rfl
    | cons x xs => simp only [canonList, hList, evalHashList, hash_canon hF x, hashList_canon hF xs]
  termination_by structural xs
  theorem hashItems_canon {H : PyHash} (hF : HashOk H) (xs : List (Atom × Val)) :
      evalHashList H (hItems (canonItems env xs)) = evalHashList H (hItems xs) := by
    cases xs with
    | nil => rfl
    | cons p xs =>
      obtain ⟨k, v⟩ := p
      simp only [canonItems, hItems, isMissing_canon]
      cases isMissing v
      · simp only [Bool.false_eq_true, if_false, evalHashList, evalHash, hash_canon hF v,
          hashItems_canon hF xs]
      · simp only [if_true, hashItems_canon hF xs]
  termination_by structural xs
end

theorem symHash_canon {H : PyHash} (hF : HashOk H) (x : Val) :
    symHash H (canon env x) = symHash H x := by
  rw [symHash_eq, symHash_eq, hash_canon hF]

/-! ### (d) The laws on well-formed values (any key order) -/

/-- Trichotomy of `pg.lt` (never raises) and symmetry of `eq`. -/
theorem wf_tri (ok : EnvOk env) (num : Bool) (x y : Val)
    (hx : wellFormed env num x = true) (hy : wellFormed env num y = true) :
    Tri (symLt env x y) (eq x y) (symLt env y x) ∧ eq y x = eq x y := by
  have h := tri ok num (canon env x) (canon env y) (wf_canon ok num x hx) (wf_canon ok num y hy)
  rw [eq_canon num x y hx hy, eq_canon num y x hy hx] at h
  exact h

theorem wf_eq_refl (ok : EnvOk env) (num : Bool) (x : Val) (hx : wellFormed env num x = true) :
    eq x x = true := by
  rw [← eq_canon (env := env) num x x hx hx]
  exact eq_refl ok num _ (wf_canon ok num x hx)

theorem wf_eq_trans (ok : EnvOk env) (num : Bool) (x y z : Val)
    (hx : wellFormed env num x = true) (hy : wellFormed env num y = true)
    (hz : wellFormed env num z = true) (h1 : eq x y = true) (h2 : eq y z = true) : eq x z = true := by
  rw [← eq_canon (env := env) num _ _ hx hy] at h1
  rw [← eq_canon (env := env) num _ _ hy hz] at h2
  rw [← eq_canon (env := env) num _ _ hx hz]
  exact eq_trans ok num _ _ _ (wf_canon ok num x hx) (wf_canon ok num y hy) (wf_canon ok num z hz) h1 h2

theorem wf_hash_congr (ok : EnvOk env) {H : PyHash} (hH : HashOk H) (num : Bool) (x y : Val)
    (hx : wellFormed env num x = true) (hy : wellFormed env num y = true) (he : eq x y = true) :
    symHash H x = symHash H y := by
  rw [← eq_canon (env := env) num _ _ hx hy] at he
  rw [← symHash_canon (env := env) hH x, ← symHash_canon (env := env) hH y, symHash_eq, symHash_eq]
  exact congrArg _ (hash_congr ok hH num _ _ _ _ (wf_canon ok num x hx) (wf_canon ok num y hy) he
    (hashTerm_eq _) (hashTerm_eq _))

theorem wf_lt_trans (ok : EnvOk env) (num : Bool) (x y z : Val)
    (hx : wellFormed env num x = true) (hy : wellFormed env num y = true)
    (hz : wellFormed env num z = true)
    (h1 : symLt env x y = .ok true) (h2 : symLt env y z = .ok true) : symLt env x z = .ok true :=
  lt_trans ok num _ _ _ (wf_canon ok num x hx) (wf_canon ok num y hy) (wf_canon ok num z hz) h1 h2

theorem wf_lt_congr_left (ok : EnvOk env) (num : Bool) (x y z : Val)
    (hx : wellFormed env num x = true) (hy : wellFormed env num y = true)
    (hz : wellFormed env num z = true) (h : eq x y = true) : symLt env x z = symLt env y z := by
  rw [← eq_canon (env := env) num _ _ hx hy] at h
  exact lt_congr_left ok num _ _ _ (wf_canon ok num x hx) (wf_canon ok num y hy) (wf_canon ok num z hz) h

theorem wf_lt_congr_right (ok : EnvOk env) (num : Bool) (x y z : Val)
    (hx : wellFormed env num x = true) (hy : wellFormed env num y = true)
    (hz : wellFormed env num z = true) (h : eq y z = true) : symLt env x y = symLt env x z := by
  rw [← eq_canon (env := env) num _ _ hy hz] at h
  exact lt_congr_right ok num _ _ _ (wf_canon ok num x hx) (wf_canon ok num y hy) (wf_canon ok num z hz) h

end Pg.C06
