/- C14 — the partially mapped crossover of two arrangements of the same distinct items yields such an
   arrangement: every value it places has been checked against the set of values already assigned. -/
import PgModel.EvoPerm
import Mathlib.Data.List.Perm.Subperm
import Mathlib.Data.List.Nodup
import Mathlib.Data.List.Range
namespace Pg.C14

theorem pmxResolve_spec (self other assigned : List Nat) : ∀ (f v r : Nat),
    pmxResolve self other assigned f v = some r → v ∈ self → r ∉ assigned ∧ r ∈ self := by
  intro f
  induction f with
  | zero => intro v r h; simp [pmxResolve] at h
  | succ f ih =>
    intro v r h hv
    simp only [pmxResolve] at h
    split at h
    · rename_i hc
      simp only [Option.some.injEq] at h
      subst h
      exact ⟨by simpa using hc, hv⟩
    · cases hw : self[other.idxOf v]? with
      | none => rw [hw] at h; cases h
      | some w =>
        rw [hw] at h
        exact ih w r h (List.mem_of_getElem? hw)

theorem pmxFill_spec (self other : List Nat) : ∀ (js assigned vs a : List Nat),
    pmxFill self other js assigned = some (vs, a) → assigned.Nodup →
    a = vs.reverse ++ assigned ∧ a.Nodup ∧ vs.length = js.length ∧ ∀ v ∈ vs, v ∈ self := by
  intro js
  induction js with
  | nil =>
    intro assigned vs a h hn
    simp only [pmxFill, Option.some.injEq, Prod.mk.injEq] at h
    obtain ⟨rfl, rfl⟩ := h
    exact ⟨by simp, hn, rfl, by simp⟩
  | cons j js ih =>
    intro assigned vs a h hn
    simp only [pmxFill] at h
    cases hj : self[j]? with
    | none => rw [hj] at h; cases h
    | some v0 =>
      rw [hj] at h
      simp only [] at h
      cases hr : pmxResolve self other assigned (self.length + 1) v0 with
      | none => rw [hr] at h; cases h
      | some v =>
        rw [hr] at h
        simp only [] at h
        cases hf : pmxFill self other js (v :: assigned) with
        | none => rw [hf] at h; cases h
        | some res =>
          obtain ⟨vs', a'⟩ := res
          rw [hf] at h
          simp only [Option.some.injEq, Prod.mk.injEq] at h
          obtain ⟨rfl, rfl⟩ := h
          obtain ⟨hv1, hv2⟩ := pmxResolve_spec self other assigned _ v0 v hr (List.mem_of_getElem? hj)
          obtain ⟨e1, e2, e3, e4⟩ := ih (v :: assigned) vs' a' hf (List.nodup_cons.mpr ⟨hv1, hn⟩)
          refine ⟨by rw [e1]; simp, e2, by simp [e3], ?_⟩
          intro x hx
          rcases List.mem_cons.mp hx with rfl | hx
          · exact hv2
          · exact e4 x hx

/-- PMX: for two arrangements of the same distinct items and cut points `start ≤ stop ≤ size`, a child
(whenever the re-mapping loop returns) is an arrangement of those items. -/
theorem pmxChild_perm (self other : List Nat) (hn : self.Nodup) (hp : other.Perm self)
    (start stop : Nat) (h1 : start ≤ stop) (h2 : stop ≤ self.length) (c : List Nat)
    (h : pmxChild self other start stop = some c) : c.Perm self := by
  have hlen : other.length = self.length := hp.length_eq
  have hon : other.Nodup := hp.nodup_iff.mpr hn
  unfold pmxChild at h
  simp only [] at h
  generalize hseg : (other.take stop).drop start = seg at h
  have hsegsub : seg.Sublist other := by
    rw [← hseg]; exact (List.drop_sublist _ _).trans (List.take_sublist _ _)
  have hsegn : seg.Nodup := hsegsub.nodup hon
  have hseglen : seg.length = stop - start := by
    rw [← hseg, List.length_drop, List.length_take]; omega
  cases hf1 : pmxFill self other (List.range start) seg with
  | none => rw [hf1] at h; cases h
  | some r1 =>
    obtain ⟨pre, a1⟩ := r1
    rw [hf1] at h
    simp only [] at h
    cases hf2 : pmxFill self other ((List.range self.length).drop stop) a1 with
    | none => rw [hf2] at h; cases h
    | some r2 =>
      obtain ⟨post, a2⟩ := r2
      rw [hf2] at h
      simp only [Option.some.injEq] at h
      subst h
      obtain ⟨e1, n1, l1, m1⟩ := pmxFill_spec self other _ _ _ _ hf1 hsegn
      obtain ⟨e2, n2, l2, m2⟩ := pmxFill_spec self other _ _ _ _ hf2 n1
      have hnd : (pre ++ seg ++ post).Nodup := by
        have hperm : (pre ++ seg ++ post).Perm a2 := by
          rw [e2, e1]
          calc (pre ++ seg ++ post).Perm (post ++ (pre ++ seg)) := List.perm_append_comm
            _ |>.Perm (post.reverse ++ (pre.reverse ++ seg)) :=
              (List.reverse_perm post).symm.append ((List.reverse_perm pre).symm.append_right seg)
        exact hperm.nodup_iff.mpr n2
      have hsub : (pre ++ seg ++ post) ⊆ self := by
        intro v hv
        simp only [List.mem_append] at hv
        rcases hv with (hv | hv) | hv
        · exact m1 v hv
        · exact hp.mem_iff.mp (hsegsub.subset hv)
        · exact m2 v hv
      have hl : self.length ≤ (pre ++ seg ++ post).length := by
        simp only [List.length_append, l1, l2, hseglen, List.length_range, List.length_drop]
        omega
      exact (List.subperm_of_subset hnd hsub).perm_of_length_le hl

end Pg.C14
