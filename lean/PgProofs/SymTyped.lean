/-
  Helper lemmas for C03 (typed list / dict write primitives preserve the schema invariant).
-/
import PgModel.SymTyped
import PgProofs.Typing
namespace Pg.C03
open Pg.Typing

/-- Idempotence of `apply` for one spec (C04; proved for the fragment `frag`, see `idem_of_frag`). -/
def Idem (env : Env) (p : Bool) (s : Spec) : Prop :=
  ∀ v v', apply env s p v = .ok v' → apply env s p v' = .ok v'

theorem idem_of_frag (env : Env) (p : Bool) (s : Spec) (h : frag s = true) : Idem env p s :=
  fun v v' hv => apply_idem_frag env s h p v v' hv

/-! ### Lists -/

theorem formalize_ok (env : Env) (l : TList) (hI : Idem env false l.elem) (v w : Val)
    (h : formalize env l v = .ok w) : apply env l.elem false w = .ok w := by
  unfold formalize at h
  cases ha : apply env l.elem false v with
  | error e => simp [ha] at h
  | ok x => simp [ha] at h; subst h; exact hI v x ha

theorem sizeOk_grow (n mn : Nat) (mx : Option Nat) (h : sizeOk n mn mx = true)
    (hm : ∀ m, mx = some m → n + 1 ≤ m) : sizeOk (n + 1) mn mx = true := by
  unfold sizeOk at h ⊢
  cases mx with
  | none => simp at h ⊢; omega
  | some m => have := hm m rfl; simp at h ⊢; omega

theorem atMax_false (l : TList) (h : atMax l 1 = false) : ∀ m, l.mx = some m → l.items.length + 1 ≤ m := by
  intro m hm
  unfold atMax at h
  rw [hm] at h
  simp at h
  omega

theorem mem_insertAt (xs : List Val) (k : Nat) (w x : Val) (h : x ∈ insertAt xs k w) : x ∈ xs ∨ x = w := by
  unfold insertAt at h
  simp only [List.mem_append, List.mem_singleton] at h
  rcases h with (h | h) | h
  · exact Or.inl (List.mem_of_mem_take h)
  · exact Or.inr h
  · exact Or.inl (List.mem_of_mem_drop h)

theorem length_insertAt (xs : List Val) (k : Nat) (w : Val) : (insertAt xs k w).length = xs.length + 1 := by
  unfold insertAt
  simp only [List.length_append, List.length_take, List.length_drop, List.length_singleton]
  omega

/-- The list write primitive preserves the invariant, whether it succeeds or fails. -/
theorem listPrim_preserves (env : Env) (l : TList) (hI : Idem env false l.elem) (idx : Int) (ins : Bool)
    (v : Val) (hc : Conforms env l) :
    Conforms env (listPrim env l idx ins v).1 ∧ (listPrim env l idx ins v).1.elem = l.elem := by
  unfold listPrim
  simp only []
  split
  · split
    · exact ⟨hc, rfl⟩
    · split
      · exact ⟨hc, rfl⟩
      · rename_i hmax
        cases hf : formalize env l v with
        | error e => exact ⟨hc, rfl⟩
        | ok w =>
          refine ⟨⟨?_, ?_⟩, rfl⟩
          · intro x hx
            simp only [List.mem_append, List.mem_singleton] at hx
            rcases hx with hx | hx
            · exact hc.1 x hx
            · subst hx; exact formalize_ok env l hI v _ hf
          · simp only [List.length_append, List.length_singleton]
            exact sizeOk_grow _ _ _ hc.2 (atMax_false l (by simpa using hmax))
  · split
    · split
      · exact ⟨hc, rfl⟩
      · rename_i hmax
        cases hf : formalize env l v with
        | error e => exact ⟨hc, rfl⟩
        | ok w =>
          refine ⟨⟨?_, ?_⟩, rfl⟩
          · intro x hx
            rcases mem_insertAt _ _ _ _ hx with hx | hx
            · exact hc.1 x hx
            · subst hx; exact formalize_ok env l hI v _ hf
          · simp only [length_insertAt]
            exact sizeOk_grow _ _ _ hc.2 (atMax_false l (by simpa using hmax))
    · cases hn : normIndex l.items.length idx with
      | none => exact ⟨hc, rfl⟩
      | some k =>
        cases hf : formalize env l v with
        | error e => exact ⟨hc, rfl⟩
        | ok w =>
          refine ⟨⟨?_, ?_⟩, rfl⟩
          · intro x hx
            rcases List.mem_or_eq_of_mem_set hx with hx | hx
            · exact hc.1 x hx
            · subst hx; exact formalize_ok env l hI v _ hf
          · simp only [List.length_set]; exact hc.2

/-- A rejected primitive write stores nothing. -/
theorem listPrim_reject (env : Env) (l : TList) (idx : Int) (ins : Bool) (v : Val) (e : E)
    (h : (listPrim env l idx ins v).2 = some e) : (listPrim env l idx ins v).1 = l := by
  unfold listPrim at h ⊢
  simp only [] at h ⊢
  split
  · split
    · rfl
    · split
      · rfl
      · cases hf : formalize env l v with
        | error e' => rfl
        | ok w => simp [*] at h
  · split
    · split
      · rfl
      · cases hf : formalize env l v with
        | error e' => rfl
        | ok w => simp [*] at h
    · cases hn : normIndex l.items.length idx with
      | none => rfl
      | some k =>
        cases hf : formalize env l v with
        | error e' => rfl
        | ok w => simp [*] at h

theorem primLoop_preserves (env : Env) (ws : List (Bool × Val)) :
    ∀ (l : TList) (pos step : Int), Idem env false l.elem → Conforms env l →
      Conforms env (primLoop env l pos step ws).1 ∧ (primLoop env l pos step ws).1.elem = l.elem := by
  induction ws with
  | nil => intro l pos step _ hc; exact ⟨hc, rfl⟩
  | cons w ws ih =>
    intro l pos step hI hc
    obtain ⟨ins, v⟩ := w
    have h1 := listPrim_preserves env l hI pos ins v hc
    simp only [primLoop]
    cases hp : listPrim env l pos ins v with
    | mk l' e =>
      rw [hp] at h1
      cases e with
      | some e => exact h1
      | none =>
        simp only []
        have := ih l' (pos + step) step (by rw [h1.2]; exact hI) h1.1
        exact ⟨this.1, by rw [this.2, h1.2]⟩

theorem primAt_preserves (env : Env) (ws : List (Nat × Bool × Val)) :
    ∀ (l : TList), Idem env false l.elem → Conforms env l →
      Conforms env (primAt env l ws).1 ∧ (primAt env l ws).1.elem = l.elem := by
  induction ws with
  | nil => intro l _ hc; exact ⟨hc, rfl⟩
  | cons w ws ih =>
    intro l hI hc
    obtain ⟨k, ins, v⟩ := w
    have h1 := listPrim_preserves env l hI k ins v hc
    simp only [primAt]
    cases hp : listPrim env l k ins v with
    | mk l' e =>
      rw [hp] at h1
      cases e with
      | some e => exact h1
      | none =>
        simp only []
        have := ih l' (by rw [h1.2]; exact hI) h1.1
        exact ⟨this.1, by rw [this.2, h1.2]⟩

theorem extendLoop_preserves (env : Env) (vs : List Val) :
    ∀ (l : TList), Idem env false l.elem → Conforms env l →
      Conforms env (extendLoop env l vs).1 ∧ (extendLoop env l vs).1.elem = l.elem := by
  induction vs with
  | nil => intro l _ hc; exact ⟨hc, rfl⟩
  | cons v vs ih =>
    intro l hI hc
    have h1 := listPrim_preserves env l hI l.items.length false v hc
    simp only [extendLoop]
    cases hp : listPrim env l l.items.length false v with
    | mk l' e =>
      rw [hp] at h1
      cases e with
      | some e => exact h1
      | none =>
        simp only []
        have := ih l' (by rw [h1.2]; exact hI) h1.1
        exact ⟨this.1, by rw [this.2, h1.2]⟩

theorem sizeOk_shrink (n k mn : Nat) (mx : Option Nat) (h : sizeOk n mn mx = true) (hk : mn ≤ k) (hkn : k ≤ n) :
    sizeOk k mn mx = true := by
  unfold sizeOk at h ⊢
  cases mx with
  | none => simp at h ⊢; omega
  | some m => simp at h ⊢; omega

theorem normIndex_lt (len : Nat) (i : Int) (k : Nat) (h : normIndex len i = some k) : k < len := by
  unfold normIndex at h
  split at h
  · cases h
  · rename_i hc
    simp only [Bool.or_eq_true, decide_eq_true_eq, not_or, Int.not_lt, ge_iff_le, Int.not_le] at hc
    injection h with h
    subst h
    split <;> omega

theorem erase_conforms (env : Env) (l : TList) (k : Nat) (hk : k < l.items.length) (hc : Conforms env l)
    (hm : belowMin l 1 = false) : Conforms env { l with items := l.items.eraseIdx k } := by
  refine ⟨fun x hx => hc.1 x (List.mem_of_mem_eraseIdx hx), ?_⟩
  simp only [belowMin, decide_eq_false_iff_not, Nat.not_lt] at hm
  simp only [List.length_eraseIdx, hk, if_true]
  exact sizeOk_shrink _ _ _ _ hc.2 (by omega) (by omega)

theorem findEq_lt (v : Val) (xs : List Val) (k : Nat) (h : findEq v xs = some k) : k < xs.length := by
  induction xs generalizing k with
  | nil => simp [findEq] at h
  | cons x xs ih =>
    simp only [findEq] at h
    split at h
    · injection h with h; subst h; simp
    · cases hf : findEq v xs with
      | none => simp [hf] at h
      | some j => simp [hf] at h; subst h; have := ih j hf; simp; omega

/-! #### slice deletion: the erased list loses at most `ks.length` items -/

theorem filter_ne_length (ps : List (Val × Nat)) (k : Nat) (hnd : (ps.map (·.2)).Nodup) :
    ps.length ≤ (ps.filter (fun p => p.2 != k)).length + 1 := by
  induction ps with
  | nil => simp
  | cons p ps ih =>
    simp only [List.map_cons, List.nodup_cons] at hnd
    by_cases hp : p.2 = k
    · have : ps.filter (fun q => q.2 != k) = ps := by
        rw [List.filter_eq_self]
        intro q hq
        have : q.2 ≠ k := by
          intro hqk
          apply hnd.1
          rw [hp, ← hqk]
          exact List.mem_map_of_mem hq
        simpa using this
      simp [List.filter_cons, hp, this]
    · have := ih hnd.2
      simp [List.filter_cons, hp]
      omega

theorem filter_notin_length (ks : List Nat) : ∀ (ps : List (Val × Nat)), (ps.map (·.2)).Nodup →
    ps.length ≤ (ps.filter (fun p => !ks.contains p.2)).length + ks.length := by
  induction ks with
  | nil =>
    intro ps _
    have : ps.filter (fun p => !([] : List Nat).contains p.2) = ps := List.filter_eq_self.mpr (by simp)
    rw [this]; simp
  | cons k ks ih =>
    intro ps hnd
    have h1 := filter_ne_length ps k hnd
    have hsub : ((ps.filter (fun p => p.2 != k)).map (·.2)).Nodup :=
      (List.Nodup.sublist (List.Sublist.map _ List.filter_sublist) hnd)
    have h2 := ih (ps.filter (fun p => p.2 != k)) hsub
    have heq : (ps.filter (fun p => p.2 != k)).filter (fun p => !ks.contains p.2)
        = ps.filter (fun p => !(k :: ks).contains p.2) := by
      rw [List.filter_filter]
      congr 1
      funext p
      simp only [List.contains_cons, Bool.not_or, bne, Bool.and_comm]
    rw [heq] at h2
    simp only [List.length_cons]
    omega

theorem eraseIdxs_facts (xs : List Val) (ks : List Nat) :
    (∀ x ∈ eraseIdxs xs ks, x ∈ xs) ∧ (eraseIdxs xs ks).length ≤ xs.length ∧
      xs.length ≤ (eraseIdxs xs ks).length + ks.length := by
  unfold eraseIdxs
  refine ⟨?_, ?_, ?_⟩
  · intro x hx
    simp only [List.mem_map, List.mem_filter] at hx
    obtain ⟨p, ⟨hp, _⟩, rfl⟩ := hx
    exact (List.mem_zipIdx hp).2.2 ▸ List.getElem_mem _
  · simp only [List.length_map]
    exact Nat.le_trans (List.length_filter_le _ _) (by simp)
  · simp only [List.length_map]
    have hnd : ((xs.zipIdx).map (·.2)).Nodup := by
      rw [List.zipIdx_map_snd]
      exact List.nodup_range' ..
    have := filter_notin_length ks xs.zipIdx hnd
    simpa using this

/-! ### sort / reverse keep the members -/

theorem mem_insertSorted (x : Val) (ys : List Val) (z : Val) : z ∈ insertSorted x ys ↔ z = x ∨ z ∈ ys := by
  induction ys with
  | nil => simp [insertSorted]
  | cons y ys ih =>
    simp only [insertSorted]
    split
    · simp only [List.mem_cons, ih]
      constructor
      · rintro (h | h | h) <;> simp [h]
      · rintro (h | h | h) <;> simp [h]
    · simp

theorem length_insertSorted (x : Val) (ys : List Val) : (insertSorted x ys).length = ys.length + 1 := by
  induction ys with
  | nil => simp [insertSorted]
  | cons y ys ih =>
    simp only [insertSorted]
    split <;> simp [ih]

theorem foldl_insertSorted (xs : List Val) : ∀ (acc : List Val),
    (∀ z, z ∈ xs.foldl (fun acc x => insertSorted x acc) acc ↔ z ∈ xs ∨ z ∈ acc) ∧
    (xs.foldl (fun acc x => insertSorted x acc) acc).length = xs.length + acc.length := by
  induction xs with
  | nil => intro acc; simp
  | cons x xs ih =>
    intro acc
    simp only [List.foldl_cons]
    obtain ⟨h1, h2⟩ := ih (insertSorted x acc)
    refine ⟨fun z => ?_, ?_⟩
    · rw [h1 z, mem_insertSorted]
      simp only [List.mem_cons]
      constructor
      · rintro (h | h | h) <;> simp [h]
      · rintro ((h | h) | h) <;> simp [h]
    · rw [h2, length_insertSorted]; simp; omega

theorem sortVals_facts (xs : List Val) : (∀ z, z ∈ sortVals xs ↔ z ∈ xs) ∧ (sortVals xs).length = xs.length := by
  unfold sortVals
  obtain ⟨h1, h2⟩ := foldl_insertSorted xs.reverse []
  exact ⟨fun z => by simpa using h1 z, by simpa using h2⟩

/-! ### Dicts -/

theorem mem_setKey (kvs : List (String × Val)) (k : String) (w : Val) (kv : String × Val)
    (h : kv ∈ setKey kvs k w) : kv ∈ kvs ∨ kv = (k, w) := by
  induction kvs with
  | nil => simp [setKey] at h; exact Or.inr h
  | cons p ps ih =>
    obtain ⟨l, x⟩ := p
    simp only [setKey] at h
    split at h
    · rename_i hlk
      simp only [List.mem_cons] at h
      rcases h with h | h
      · right; rw [h]; simp at hlk; rw [hlk]
      · left; exact List.mem_cons_of_mem _ h
    · simp only [List.mem_cons] at h
      rcases h with h | h
      · left; rw [h]; exact List.mem_cons_self
      · rcases ih h with h | h
        · left; exact List.mem_cons_of_mem _ h
        · right; exact h

theorem lookup_setKey_isSome (kvs : List (String × Val)) (k k' : String) (w : Val)
    (h : (lookup kvs k').isSome = true) : (lookup (setKey kvs k w) k').isSome = true := by
  induction kvs with
  | nil => simp [lookup] at h
  | cons p ps ih =>
    obtain ⟨l, x⟩ := p
    simp only [setKey]
    by_cases hlk : (l == k) = true
    · simp only [hlk, if_true]
      simp only [lookup, List.find?_cons] at h ⊢
      by_cases hl : (l == k') = true
      · simp [hl]
      · simp [hl] at h ⊢; exact h
    · rw [if_neg hlk]
      simp only [lookup, List.find?_cons] at h ⊢
      by_cases hl : (l == k') = true
      · simp [hl]
      · simp only [hl] at h ⊢
        exact ih h

theorem lookup_setKey_self (kvs : List (String × Val)) (k : String) (w : Val) :
    (lookup (setKey kvs k w) k).isSome = true := by
  induction kvs with
  | nil => simp [setKey, lookup]
  | cons p ps ih =>
    obtain ⟨l, x⟩ := p
    simp only [setKey]
    by_cases hlk : (l == k) = true
    · simp [hlk, lookup]
    · simp only [hlk, lookup, List.find?_cons]
      simp only [lookup] at ih
      simp [hlk, ih]

theorem lookup_eraseKey_isSome (kvs : List (String × Val)) (k k' : String) (hne : k' ≠ k)
    (h : (lookup kvs k').isSome = true) : (lookup (eraseKey kvs k) k').isSome = true := by
  induction kvs with
  | nil => simp [lookup] at h
  | cons p ps ih =>
    obtain ⟨l, x⟩ := p
    simp only [eraseKey, List.filter_cons]
    simp only [lookup, List.find?_cons] at h
    by_cases hl : (l == k') = true
    · have : l = k' := by simpa using hl
      have hlk : (l != k) = true := by simp [this, hne]
      simp [hlk, lookup, hl]
    · simp only [hl] at h
      by_cases hlk : (l != k) = true
      · simp only [hlk, if_true, lookup, List.find?_cons, hl]
        exact ih h
      · simp only [hlk]
        exact ih h

theorem not_const_of_getField (env : Env) (fields : List Field) (k : String) (f : Field)
    (h : getField env fields k = some f) (hnc : f.key.isConst = false) : k ∉ constKeys fields := by
  unfold getField at h
  cases hf : fields.find? (fun f => f.key == KeySpec.const k) with
  | some g =>
    simp only [hf] at h
    injection h with h; subst h
    have := List.find?_some hf
    simp only [beq_iff_eq] at this
    rw [this] at hnc
    simp [KeySpec.isConst] at hnc
  | none =>
    rw [List.find?_eq_none] at hf
    intro hmem
    clear h hnc
    induction fields with
    | nil => simp [constKeys] at hmem
    | cons g gs ih =>
      obtain ⟨gk, gv⟩ := g
      cases gk with
      | const c =>
        simp only [constKeys, List.mem_cons] at hmem
        rcases hmem with hm | hm
        · have := hf (.mk (.const c) gv) List.mem_cons_self
          simp [Field.key, hm] at this
        · exact ih (fun x hx => hf x (List.mem_cons_of_mem _ hx)) hm
      | strKey r =>
        simp only [constKeys] at hmem
        exact ih (fun x hx => hf x (List.mem_cons_of_mem _ hx)) hmem

end Pg.C03
