/- C14 — fuel adequacy: with more fuel than the depth of the spec, `randomDna` and `mergeDna` never run
   out of fuel, and the attempt loop of `_merge_multi_choice` ends within `k + 10` steps. -/
import PgProofs.EvoPure
namespace Pg.C14

/-- `x` never fails for lack of fuel. -/
def NF {α : Type} (x : M α) : Prop := ∀ s, x s ≠ .error .fuel

theorem NF.pure {α : Type} (a : α) : NF (Pure.pure a : M α) := by
  intro s h
  have : (Pure.pure a : M α) s = .ok (a, s) := rfl
  rw [this] at h; cases h

theorem NF.fail {α : Type} (e : Err) (he : e ≠ .fuel) : NF (fail e : M α) := by
  intro s h
  simp only [Pg.C14.fail, Except.error.injEq] at h
  exact he h

theorem NF.bind {α β : Type} {x : M α} {f : α → M β} (hx : NF x) (hf : ∀ a, NF (f a)) : NF (x >>= f) := by
  intro s h
  have hb : (x >>= f) s = (match x s with | .ok (a, s1) => f a s1 | .error e => .error e) := by
    show (StateT.bind x f) s = _
    unfold StateT.bind
    cases x s with
    | error e => rfl
    | ok r => obtain ⟨a, s1⟩ := r; rfl
  rw [hb] at h
  cases hxs : x s with
  | error e =>
    rw [hxs] at h
    simp only [Except.error.injEq] at h
    exact hx s (by rw [hxs, h])
  | ok r =>
    obtain ⟨a, s1⟩ := r
    rw [hxs] at h
    exact hf a s1 h

theorem NF_popEv : NF popEv := by
  intro s h
  unfold popEv at h
  split at h
  · cases h
  · cases h

theorem NF_nextIdx (k : RK) (n : Nat) : NF (nextIdx k n) := by
  unfold nextIdx
  apply NF.bind NF_popEv
  intro e
  split
  · split
    · exact NF.pure _
    · exact NF.fail _ (by decide)
  · exact NF.fail _ (by decide)

theorem NF_nextSample (n k : Nat) : NF (nextSample n k) := by
  unfold nextSample
  apply NF.bind NF_popEv
  intro e
  split
  · split
    · exact NF.pure _
    · exact NF.fail _ (by decide)
  · exact NF.fail _ (by decide)

theorem NF_nextChoices (n k : Nat) : NF (nextChoices n k) := by
  unfold nextChoices
  apply NF.bind NF_popEv
  intro e
  split
  · split
    · exact NF.pure _
    · exact NF.fail _ (by decide)
  · exact NF.fail _ (by decide)

theorem NF_nextUniform (lo hi : Q) : NF (nextUniform lo hi) := by
  unfold nextUniform
  apply NF.bind NF_popEv
  intro e
  split
  · split
    · exact NF.pure _
    · exact NF.fail _ (by decide)
  · exact NF.fail _ (by decide)

theorem NF_forEachM {α β : Type} (f : α → M β) : ∀ (l : List α), (∀ a ∈ l, NF (f a)) → NF (forEachM f l) := by
  intro l
  induction l with
  | nil => intro _; simp only [forEachM]; exact NF.pure _
  | cons a as ih =>
    intro h
    simp only [forEachM]
    exact NF.bind (h a List.mem_cons_self)
      (fun b => NF.bind (ih (fun a' ha' => h a' (List.mem_cons_of_mem _ ha'))) (fun bs => NF.pure _))

theorem depth_le_depthAll : ∀ (es : List GSpec) (e : GSpec), e ∈ es → depth e ≤ depthAll es := by
  intro es
  induction es with
  | nil => intro e h; simp at h
  | cons x xs ih =>
    intro e h
    simp only [depthAll]
    rcases List.mem_cons.mp h with rfl | h
    · exact Nat.le_max_left _ _
    · exact Nat.le_trans (ih e h) (Nat.le_max_right _ _)

/-- the fuel the driver passes (`depth g + 2`) always suffices for `random_dna`. -/
theorem randomDna_NF : ∀ (fuel : Nat) (g : GSpec), depth g ≤ fuel → NF (randomDna fuel g) := by
  intro fuel
  induction fuel with
  | zero =>
    intro g h
    cases g <;> simp [depth] at h
  | succ f ih =>
    intro g h
    cases g with
    | space es =>
      simp only [depth] at h
      simp only [randomDna]
      exact NF.bind (NF_forEachM _ _ (fun e he => ih e (Nat.le_trans (depth_le_depthAll es e he) (by omega))))
        (fun _ => NF.pure _)
    | float lo hi =>
      simp only [randomDna]
      exact NF.bind (NF_nextUniform _ _) (fun _ => NF.pure _)
    | choices k cands dist srt =>
      simp only [depth] at h
      have tail : ∀ vs : List Nat, NF (do
          let ds ← forEachM (fun v => match cands[v]? with
                                  | some c => randomDna f c
                                  | none => fail .desync) (if srt = true then sortNats vs else vs)
          Pure.pure (DNA.choices (mkSubs 0 (if srt = true then sortNats vs else vs) ds)) : M DNA) := by
        intro vs
        refine NF.bind (NF_forEachM _ _ (fun v _ => ?_)) (fun _ => NF.pure _)
        cases hc : cands[v]? with
        | none => exact NF.fail _ (by decide)
        | some c =>
          exact ih c (Nat.le_trans (depth_le_depthAll cands c (List.mem_of_getElem? hc)) (by omega))
      cases dist with
      | true =>
        simp only [randomDna, if_true]
        exact NF.bind (NF_nextSample _ _) tail
      | false =>
        simp only [randomDna, Bool.false_eq_true, if_false]
        exact NF.bind (NF_forEachM _ _ (fun _ _ => NF_nextIdx _ _)) tail

theorem NF_pickOne {α : Type} (sample : Bool) (vals : List (Option α)) : NF (pickOne sample vals) := by
  unfold pickOne
  split
  · exact NF.fail _ (by decide)
  · split
    · apply NF.bind (NF_nextChoices _ _)
      intro is
      rcases is with _ | ⟨r, _ | ⟨r2, t⟩⟩
      · exact NF.fail _ (by decide)
      · simp only []
        cases hv : vals[r]? with
        | none => exact NF.fail _ (by decide)
        | some o =>
          cases o with
          | none => exact NF.fail _ (by decide)
          | some a => exact NF.pure _
      · exact NF.fail _ (by decide)
    · apply NF.bind (NF_nextIdx _ _)
      intro r
      cases nthSome vals r with
      | none => exact NF.fail _ (by decide)
      | some a => exact NF.pure _

/-- the attempt loop: every step either accepts a subchoice or uses up one of the 8 attempts. -/
theorem mergeNext_NF (k : Nat) (dist srt : Bool) (lists : List (Option (List Nat))) :
    ∀ (steps index attempts : Nat) (results : List Nat), index ≤ k →
      (k - index) + (8 - attempts) < steps → NF (mergeNext k dist srt lists steps index attempts results) := by
  intro steps
  induction steps with
  | zero => intro index attempts results _ h; omega
  | succ n ih =>
    intro index attempts results hik hm
    simp only [mergeNext]
    split
    · exact NF.pure _
    · rename_i hne
      have hlt : index < k := by
        have : index ≠ k := by simpa using hne
        omega
      split
      · exact NF.pure _
      · rename_i hat
        apply NF.bind (NF_nextChoices _ _)
        intro is
        rcases is with _ | ⟨r, _ | ⟨r2, t⟩⟩
        · exact NF.fail _ (by decide)
        · simp only []
          cases hl : lists[r]? with
          | none => exact NF.fail _ (by decide)
          | some o =>
            cases o with
            | none => exact NF.fail _ (by decide)
            | some l =>
              simp only []
              cases hd : l[index]? with
              | none => exact NF.fail _ (by decide)
              | some decision =>
                simp only []
                split
                · exact ih _ _ _ (by omega) (by omega)
                · exact ih _ _ _ hik (by omega)
        · exact NF.fail _ (by decide)

theorem NF_mergeMulti (k : Nat) (dist srt : Bool) (lists : List (Option (List Nat))) :
    NF (mergeMulti k dist srt lists) := by
  unfold mergeMulti
  split
  · exact NF.fail _ (by decide)
  · apply NF.bind (mergeNext_NF k dist srt lists (k + 10) 0 0 [] (by omega) (by omega))
    intro res
    cases res with
    | some r => exact NF.pure _
    | none =>
      simp only []
      apply NF.bind (NF_nextChoices _ _)
      intro is
      rcases is with _ | ⟨r, _ | ⟨r2, t⟩⟩
      · exact NF.fail _ (by decide)
      · simp only []
        cases hl : lists[r]? with
        | none => exact NF.fail _ (by decide)
        | some o =>
          cases o with
          | none => exact NF.fail _ (by decide)
          | some l => exact NF.pure _
      · exact NF.fail _ (by decide)

theorem mem_enumFrom' {α : Type} : ∀ (l : List α) (i : Nat) (p : Nat × α), p ∈ enumFrom' i l → p.2 ∈ l := by
  intro l
  induction l with
  | nil => intro i p h; simp [enumFrom'] at h
  | cons a as ih =>
    intro i p h
    simp only [enumFrom', List.mem_cons] at h
    rcases h with rfl | h
    · exact List.mem_cons_self
    · exact List.mem_cons_of_mem _ (ih _ _ h)

/-- the fuel the driver passes always suffices for the point-wise merge. -/
theorem mergeDna_NF (sample : Bool) : ∀ (fuel : Nat) (g : GSpec) (ps : List (Option DNA)),
    depth g ≤ fuel → NF (mergeDna sample fuel g ps) := by
  intro fuel
  induction fuel with
  | zero =>
    intro g ps h
    cases g <;> simp [depth] at h
  | succ f ih =>
    intro g ps h
    cases g with
    | space es =>
      simp only [depth] at h
      simp only [mergeDna]
      refine NF.bind (NF_forEachM _ _ (fun je hje => ?_)) (fun _ => NF.pure _)
      exact ih _ _ (Nat.le_trans (depth_le_depthAll es je.2 (mem_enumFrom' es 0 je hje)) (by omega))
    | float lo hi =>
      simp only [mergeDna]
      exact NF.bind (NF_pickOne _ _) (fun _ => NF.pure _)
    | choices k cands dist srt =>
      simp only [depth] at h
      simp only [mergeDna]
      have tail : ∀ res : List Nat, NF (do
          let ds ← forEachM (fun (iv : Nat × Nat) =>
                match cands[iv.2]? with
                | some c => mergeDna sample f c (ps.map (below iv.1 iv.2))
                | none => fail .desync) (enumFrom' 0 res)
          Pure.pure (DNA.choices (mkSubs 0 res ds)) : M DNA) := by
        intro res
        refine NF.bind (NF_forEachM _ _ (fun iv _ => ?_)) (fun _ => NF.pure _)
        cases hc : cands[iv.2]? with
        | none => exact NF.fail _ (by decide)
        | some c =>
          exact ih c _ (Nat.le_trans (depth_le_depthAll cands c (List.mem_of_getElem? hc)) (by omega))
      split
      · exact NF.bind (NF_pickOne _ _) (fun v => tail [v])
      · exact NF.bind (NF_mergeMulti _ _ _ _) tail

theorem NF_checked (g : GSpec) (d : DNA) : NF (checked g d) := by
  unfold checked
  split
  · exact NF.pure _
  · exact NF.fail _ (by decide)

theorem NF_mkChild (d : DNA) : NF (mkChild d) := by
  unfold mkChild
  refine NF.bind ?_ (fun _ => NF.pure _)
  intro s h
  simp [freshUid] at h

/-- the point-wise recombinators, as the driver runs them, never stop for lack of fuel. -/
theorem recPointWise_NF (sample : Bool) (fuel : Nat) (g : GSpec) (hf : depth g ≤ fuel) (pop : Pop) :
    NF (recPointWise sample fuel g pop) := by
  simp only [recPointWise]
  split
  · exact NF.pure _
  · split
    · exact NF.fail _ (by decide)
    · exact NF.bind (mergeDna_NF sample fuel g _ hf)
        (fun d => NF.bind (NF_checked g d) (fun d' => NF.bind (NF_mkChild d') (fun _ => NF.pure _)))

end Pg.C14
