/- What a stand-alone typed dict loses on the round trip. -/
import PgModel.C05Typed
import PgProofs.C05Str
namespace Pg.C05

theorem fromJKV_keys (env : ClassEnv) (ap : Bool) : ∀ (l : List (Key × JV)) (l' : List (Key × Tree)),
    fromJKV env ap l = .ok l' → l'.map (·.1) = l.map (·.1)
  | [], l', h => by simp only [fromJKV] at h; injection h with h; subst h; rfl
  | (k, x) :: r, l', h => by
    simp only [fromJKV] at h
    cases hx : fromJ env ap x with
    | error e => simp [hx] at h
    | ok t =>
      cases hr : fromJKV env ap r with
      | error e => simp [hx, hr] at h
      | ok ts =>
        simp only [hx, hr] at h
        injection h with h; subst h
        simp only [List.map_cons, fromJKV_keys env ap r ts hr]

theorem tlookup_none_of_not_mem (k : Str) : ∀ (l : List (Key × Tree)), Key.s k ∉ l.map (·.1) →
    tlookup k l = none
  | [], _ => rfl
  | (l0, v) :: r, h => by
    simp only [List.map_cons, List.mem_cons, not_or] at h
    have : l0 ≠ Key.s k := fun e => h.1 e.symm
    simp only [tlookup, if_neg this, tlookup_none_of_not_mem k r h.2]

theorem jlookup_none_of_not_mem (k : Key) : ∀ (l : List (Key × JV)), k ∉ l.map (·.1) →
    jlookup k l = none
  | [], _ => rfl
  | (l0, v) :: r, h => by
    simp only [List.map_cons, List.mem_cons, not_or] at h
    have : l0 ≠ k := fun e => h.1 e.symm
    simp only [jlookup, if_neg this, jlookup_none_of_not_mem k r h.2]

/-- Keys emitted for the attribute / typed-dict part: never a hidden name, never a MISSING item. -/
theorem toJsonA_dropped (env : ClassEnv) (frozen : List Str) (k : Str) :
    ∀ (items : List (Str × Tree)),
      (∀ p ∈ items, p.1 = k → frozen.contains k = true ∨ isMissing p.2 = true) →
      Key.s k ∉ (toJsonA env frozen items).map (·.1)
  | [], _ => by simp [toJsonA]
  | (k0, x) :: r, h => by
    have ih := toJsonA_dropped env frozen k r (fun p hp => h p (List.mem_cons_of_mem _ hp))
    simp only [toJsonA]
    split
    · exact ih
    · rename_i hkeep
      simp only [List.map_cons, List.mem_cons, not_or]
      refine ⟨?_, ih⟩
      intro e
      injection e with e
      subst e
      rcases h (k, x) (List.mem_cons_self ..) rfl with h1 | h1
      · rw [List.contains_iff_mem] at h1
        simp [h1] at hkeep
      · simp [h1] at hkeep

end Pg.C05
