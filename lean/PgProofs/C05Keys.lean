/- `int(str(i)) = i` for the model's own digit functions, and the key coding of the string form. -/
import PgModel.C05Codec
namespace Pg.C05

def isDig (c : Char) : Bool := (digitVal? c).isSome

theorem digitVal_digitChar (d : Nat) (h : d < 10) : digitVal? (digitChar d) = some d := by
  have : d = 0 ∨ d = 1 ∨ d = 2 ∨ d = 3 ∨ d = 4 ∨ d = 5 ∨ d = 6 ∨ d = 7 ∨ d = 8 ∨ d = 9 := by omega
  rcases this with rfl | rfl | rfl | rfl | rfl | rfl | rfl | rfl | rfl | rfl <;> decide

theorem isDig_digitChar (d : Nat) : isDig (digitChar d) = true := by
  unfold digitChar
  split <;> decide

theorem natDigits_isDig (n : Nat) : ∀ c ∈ natDigits n, isDig c = true := by
  induction n using Nat.strongRecOn with
  | _ n ih =>
    intro c hc
    rw [natDigits] at hc
    split at hc
    · simp only [List.mem_singleton] at hc; rw [hc]; exact isDig_digitChar n
    · rw [List.mem_append] at hc
      rcases hc with hc | hc
      · exact ih (n / 10) (by omega) c hc
      · simp only [List.mem_singleton] at hc; rw [hc]; exact isDig_digitChar _

theorem natDigits_ne_nil (n : Nat) : natDigits n ≠ [] := by
  rw [natDigits]
  split <;> simp

def digStep (a : Nat) (c : Char) : Nat := a * 10 + (digitVal? c).getD 0

theorem natDigits_value (n : Nat) : (natDigits n).foldl digStep 0 = n := by
  induction n using Nat.strongRecOn with
  | _ n ih =>
    rw [natDigits]
    split
    · rename_i h
      simp [digStep, digitVal_digitChar n h]
    · rename_i h
      rw [List.foldl_append, ih (n / 10) (by omega)]
      simp only [List.foldl_cons, List.foldl_nil, digStep,
        digitVal_digitChar (n % 10) (Nat.mod_lt _ (by omega)), Option.getD_some]
      omega

theorem parseDigits_digits : ∀ (ds : List Char) (acc : Nat) (b : Bool), (∀ c ∈ ds, isDig c = true) →
    ds ≠ [] → parseDigits ds acc b = some (ds.foldl digStep acc)
  | [], _, _, _, h => absurd rfl h
  | c :: cs, acc, b, hd, _ => by
    have hc := hd c (List.mem_cons_self ..)
    unfold isDig at hc
    obtain ⟨d, hdv⟩ := Option.isSome_iff_exists.mp hc
    simp only [parseDigits, hdv, List.foldl_cons, digStep, Option.getD_some]
    cases cs with
    | nil => simp [parseDigits]
    | cons c2 cs2 =>
      exact parseDigits_digits (c2 :: cs2) _ true
        (fun x hx => hd x (List.mem_cons_of_mem _ hx)) (by simp)

theorem not_dig_of_special (c : Char)
    (h : c = ' ' ∨ c = '\t' ∨ c = '\n' ∨ c = '\r' ∨ c = '\x0b' ∨ c = '\x0c' ∨ c = '-' ∨ c = '+') :
    isDig c = false := by
  rcases h with rfl | rfl | rfl | rfl | rfl | rfl | rfl | rfl <;> decide

theorem not_space_of_dig (c : Char) (h : isDig c = true) : isPySpace c = false := by
  cases hs : isPySpace c with
  | false => rfl
  | true =>
    simp only [isPySpace, Bool.or_eq_true, decide_eq_true_eq] at hs
    have : isDig c = false := not_dig_of_special c (by
      rcases hs with ((((h | h) | h) | h) | h) | h <;> simp [h])
    rw [this] at h; cases h

theorem dropWhile_self (p : Char → Bool) (l : List Char) (h : ∀ c ∈ l, p c = false) :
    l.dropWhile p = l := by
  cases l with
  | nil => rfl
  | cons c cs => simp [List.dropWhile, h c (List.mem_cons_self ..)]

theorem stripSpaces_self (s : List Char) (h : ∀ c ∈ s, isPySpace c = false) : stripSpaces s = s := by
  unfold stripSpaces
  rw [dropWhile_self _ s h, dropWhile_self _ s.reverse (fun c hc => h c (List.mem_reverse.mp hc)),
    List.reverse_reverse]

theorem parseInt_natDigits (n : Nat) : parseInt (natDigits n) = some (Int.ofNat n) := by
  have hd := natDigits_isDig n
  have hne := natDigits_ne_nil n
  have hv := natDigits_value n
  unfold parseInt
  rw [stripSpaces_self _ (fun c hc => not_space_of_dig c (hd c hc))]
  generalize natDigits n = ds at hd hne hv
  cases ds with
  | nil => exact absurd rfl hne
  | cons c cs =>
    have hc := hd c (List.mem_cons_self ..)
    have h1 : c ≠ '-' := by
      intro e; rw [not_dig_of_special c (by simp [e])] at hc; cases hc
    have h2 : c ≠ '+' := by
      intro e; rw [not_dig_of_special c (by simp [e])] at hc; cases hc
    split
    · rename_i heq; injection heq with e _; exact absurd e h1
    · rename_i heq; injection heq with e _; exact absurd e h2
    · rw [parseDigits_digits (c :: cs) 0 false hd hne, hv]; rfl

theorem parseInt_reprInt (i : Int) : parseInt (reprInt i) = some i := by
  cases i with
  | ofNat n => exact parseInt_natDigits n
  | negSucc n =>
    have hd := natDigits_isDig (n + 1)
    have hne := natDigits_ne_nil (n + 1)
    have hv := natDigits_value (n + 1)
    unfold reprInt parseInt
    rw [stripSpaces_self]
    · simp only [parseDigits_digits _ 0 false hd hne, hv, Option.map_some]
      rfl
    · intro c hc
      rcases List.mem_cons.mp hc with rfl | hc
      · decide
      · exact not_space_of_dig c (hd c hc)

end Pg.C05
