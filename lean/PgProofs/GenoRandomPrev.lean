/-
  `random_dna(…, previous_dna=p)`: whatever `p` is, if the call returns it returns what the call
  without `previous_dna` returns (the previous DNA is only routed to the candidates; spaces, choices
  and floats do not use it) — hence a member.
-/
import PgProofs.GenoRandom
namespace Pg.Geno
open DNA

theorem randomSeqPrev_some (rat' : Nat → Option DNA → List Draw → Option (DNA × List Draw))
    (rat : Nat → List Draw → Option (DNA × List Draw))
    (h : ∀ c pv o r, rat' c pv o = some r → rat c o = some r) :
    ∀ (vs : List Nat) (pvs : List (Option DNA)) (o : List Draw) (r : List DNA × List Draw),
      randomSeqPrevWith rat' vs pvs o = some r → randomSeqWith rat vs o = some r
  | [], _, o, r, hr => by simpa [randomSeqPrevWith, randomSeqWith] using hr
  | c :: cs, pvs, o, r, hr => by
    simp only [randomSeqPrevWith] at hr
    cases h1 : rat' c (pvs.head?.getD none) o with
    | none => simp [h1] at hr
    | some x =>
      obtain ⟨d, o1⟩ := x
      simp only [h1] at hr
      cases h2 : randomSeqPrevWith rat' cs pvs.tail o1 with
      | none => simp [h2] at hr
      | some y =>
        simp only [h2, Option.map_some, Option.some.injEq] at hr
        have e1 := h c _ o (d, o1) h1
        have e2 := randomSeqPrev_some rat' rat h cs pvs.tail o1 y h2
        simp [randomSeqWith, e1, e2, hr]

mutual
  theorem randomPrevP_some (p : Point) : ∀ (prev : Option DNA) (o : List Draw) (r : DNA × List Draw),
      randomPrevP p prev o = some r → randomP p o = some r := by
    cases p with
    | float a b c d info => intro prev o r h; simpa [randomPrevP] using h
    | custom info => intro prev o r h; simpa [randomPrevP] using h
    | choices k cands dd ss info =>
      intro prev o r h
      simp only [randomPrevP] at h
      simp only [randomP]
      cases h1 : drawChoices cands.length k dd ss o with
      | none => simp [h1] at h
      | some x =>
        obtain ⟨vs, o1⟩ := x
        simp only [h1] at h ⊢
        cases h2 : childPrevs cands k prev vs with
        | none => simp [h2] at h
        | some pvs =>
          simp only [h2] at h
          cases h3 : randomSeqPrevWith (randomPrevAt cands) vs pvs o1 with
          | none => simp [h3] at h
          | some y =>
            simp only [h3, Option.map_some, Option.some.injEq] at h
            have := randomSeqPrev_some (randomPrevAt cands) (randomAt cands)
              (fun c pv o' r' hh => randomPrevAt_some cands c pv o' r' hh) vs pvs o1 y h3
            simp [this, h]
  theorem randomPrevElems_some (es : List Point) : ∀ (pvs : List (Option DNA)) (o : List Draw)
      (r : List DNA × List Draw), randomPrevElems es pvs o = some r → randomElems es o = some r := by
    cases es with
    | nil => intro pvs o r h; simpa [randomPrevElems, randomElems] using h
    | cons p ps =>
      intro pvs o r h
      simp only [randomPrevElems] at h
      cases h1 : randomPrevP p (pvs.head?.getD none) o with
      | none => simp [h1] at h
      | some x =>
        obtain ⟨d, o1⟩ := x
        simp only [h1] at h
        cases h2 : randomPrevElems ps pvs.tail o1 with
        | none => simp [h2] at h
        | some y =>
          simp only [h2, Option.map_some, Option.some.injEq] at h
          simp [randomElems, randomPrevP_some p _ o (d, o1) h1, randomPrevElems_some ps pvs.tail o1 y h2, h]
  theorem randomPrevAt_some (cs : List (List Point)) : ∀ (i : Nat) (prev : Option DNA) (o : List Draw)
      (r : DNA × List Draw), randomPrevAt cs i prev o = some r → randomAt cs i o = some r := by
    cases cs with
    | nil => intro i prev o r h; simp [randomPrevAt] at h
    | cons c cs =>
      intro i prev o r h
      cases i with
      | zero =>
        simp only [randomPrevAt] at h
        cases h1 : elemPrevs c.length prev with
        | none => simp [h1] at h
        | some pvs =>
          simp only [h1] at h
          cases h2 : randomPrevElems c pvs o with
          | none => simp [h2] at h
          | some y =>
            simp only [h2, Option.map_some, Option.some.injEq] at h
            simp [randomAt, randomPrevElems_some c pvs o y h2, h]
      | succ i =>
        simp only [randomPrevAt] at h
        simp only [randomAt]
        exact randomPrevAt_some cs i prev o r h
end

theorem randomPrev_some (g : Spec) (prev : Option DNA) (o : List Draw) (r : DNA × List Draw)
    (h : g.randomPrev prev o = some r) : g.random o = some r := by
  cases g with
  | point p => exact randomPrevP_some p prev o r h
  | space s =>
    simp only [Spec.randomPrev] at h
    cases h1 : elemPrevs s.length prev with
    | none => simp [h1] at h
    | some pvs =>
      simp only [h1] at h
      cases h2 : randomPrevElems s pvs o with
      | none => simp [h2] at h
      | some y =>
        simp only [h2, Option.map_some, Option.some.injEq] at h
        simp [Spec.random, randomS, randomPrevElems_some s pvs o y h2, h]

end Pg.Geno
