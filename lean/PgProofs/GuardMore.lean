/-
  C08 — benign calls, rebind with a sealed target, unprotected receivers, accessor protection,
  deep seal.
-/
import PgProofs.GuardOps
namespace Pg.C08
open Tree

/-! ### benign calls never change anything (under any table, any scopes) -/

theorem benign_noop (G : Table) (env : Env) (t : Tree) (op : Op)
    (hb : benign t op = true) : (nodeStep G env t op).1 = t := by
  cases t with
  | leaf a => cases op <;> rfl
  | list f xs =>
    cases op
    case lPop i =>
      simp only [benign, Option.isNone_iff_eq_none] at hb
      show (lPop G env f xs i).1 = _
      unfold lPop
      rcases guard_cases G env f .l_pop with h | h <;> simp [h, hb]
    case lRemove a =>
      simp only [benign, Option.isNone_iff_eq_none] at hb
      show (lRemove G env f xs a).1 = _
      unfold lRemove
      rcases guard_cases G env f .l_remove with h | h <;> simp [h, hb]
    all_goals first | (simp [benign] at hb; done) | rfl
  | dict f kvs =>
    cases op
    case dPop k d =>
      simp only [benign, Bool.not_eq_true'] at hb
      show (dPop G f kvs env k d).1 = _
      unfold dPop
      rcases guard_cases G env f .d_pop with h | h
      · simp only [h, hb]; cases d <;> simp
      · simp [h]
    case dSetDefault k v =>
      simp only [benign] at hb
      show (dSetDefault G f kvs env k v).1 = _
      unfold dSetDefault
      rcases guard_cases G env f .d_setdefault with h | h <;> simp [h, hb]
    case dUpdate us =>
      simp only [benign, List.isEmpty_iff] at hb; subst hb
      show (dUpdate G env f kvs []).1 = _
      unfold dUpdate rebindNode
      rcases guard_cases G env f .d_update with h | h
      · simp only [h, flags?, kvPairs, List.map_nil, List.isEmpty_nil, Bool.and_false, Bool.false_eq_true, if_false]
        rcases guard_cases G env f (rebindEP (.dict f kvs)) with h2 | h2
        · simp [h2, anySealedTarget, treeSetAll]
        · simp [h2]
      · simp [h]
    case dIOr us =>
      simp only [benign, List.isEmpty_iff] at hb; subst hb
      show (dIOr G env f kvs []).1 = _
      unfold dIOr dUpdate rebindNode
      rcases guard_cases G env f .d_ior with h0 | h0
      · rcases guard_cases G env f .d_update with h | h
        · simp only [h0, h, flags?, kvPairs, List.map_nil, List.isEmpty_nil, Bool.and_false, Bool.false_eq_true, if_false]
          rcases guard_cases G env f (rebindEP (.dict f kvs)) with h2 | h2
          · simp [h2, anySealedTarget, treeSetAll]
          · simp [h2]
        · simp [h0, h]
      · simp [h0]
    all_goals first | (simp [benign] at hb; done) | rfl
  | obj f cls attrs =>
    cases op
    case oSetAttr k v =>
      simp only [benign, Bool.not_eq_true'] at hb
      show (oSetAttr G env f cls attrs k v).1 = _
      simp [oSetAttr, hb]
    all_goals first | (simp [benign] at hb; done) | rfl

/-! ### rebind: one sealed target refuses the whole batch (pre-check) -/

theorem flags_asLoopRoot (t : Tree) : (asLoopRoot t).flags?.isSome = t.flags?.isSome := by
  cases t <;> rfl

theorem rebindNode_sealed_target {G : Table} {env : Env} {t : Tree} {pairs : List (List Key × Tree)}
    (r : Bool) (hpre : (G (loopEP t)).precheck = true) (h : anySealedTarget env (asLoopRoot t) pairs = true) :
    rebindNode G env t pairs r = (t, .err .perm) := by
  have h' := h
  simp only [anySealedTarget, List.any_eq_true] at h'
  obtain ⟨p, hmem, hst⟩ := h'
  obtain ⟨f, hf⟩ : ∃ f, t.flags? = some f := by
    obtain ⟨f', hf'⟩ := sealedTarget_symbolic hst
    have := flags_asLoopRoot t
    rw [hf'] at this
    cases ht : t.flags? with
    | none => simp [ht] at this
    | some f => exact ⟨f, rfl⟩
  have hne : pairs.isEmpty = false := by
    cases pairs with
    | nil => simp at hmem
    | cons _ _ => rfl
  unfold rebindNode
  simp only [hf, hne, Bool.false_and, Bool.false_eq_true, if_false]
  rcases guard_cases G env f (rebindEP t) with hg | hg
  · simp [hg, hpre, h]
  · simp [hg]

/-! ### nothing sealed, accessors writable: never a permission error -/

theorem treeSetAll_kv_unprot (G : Table) {env : Env} {f : Flags} (hs : treatsAsSealed env f = false) :
    (us kvs : List (String × Tree)) → (treeSetAll G env (.dict f kvs) (kvPairs us)).2 = .ok
  | [], kvs => by simp [kvPairs, treeSetAll]
  | (k, v) :: rest, kvs => by
    have ih := treeSetAll_kv_unprot G hs rest (setKv k v kvs)
    simp only [kvPairs, List.map_cons] at ih ⊢
    simp only [treeSetAll, treeSet, flags?, hs, Bool.and_false, Bool.false_eq_true, if_false, rawSet]
    exact ih

theorem anySealedTarget_kv {env : Env} {f : Flags} {kvs : List (String × Tree)}
    (hs : treatsAsSealed env f = false) (us : List (String × Tree)) :
    anySealedTarget env (.dict f kvs) (kvPairs us) = false := by
  induction us with
  | nil => rfl
  | cons kv rest ih =>
    simp only [anySealedTarget, kvPairs, List.map_cons, List.any_cons, sealedTarget, flags?, hs, Bool.false_or] at ih ⊢
    exact ih

section Unprot
variable {G : Table} {env : Env} {f : Flags} (hs : treatsAsSealed env f = false) (hw : writable env f = true)
include hs hw

theorem nodeStep_unprot (t : Tree) (op : Op) (hf : t.flags? = some f) (hr : op.isRebind = false)
    (hi : ∀ c attrs, t = .obj f c attrs → treatsAsSealed env f.container = false) :
    (nodeStep G env t op).2 ≠ .err .perm := by
  have g : ∀ ep, guard G env f ep = none := fun ep => guard_none ep hs hw
  cases t with
  | leaf a => simp [flags?] at hf
  | list f' xs =>
    simp [flags?] at hf; subst hf
    cases op
    case lSetItem i v => show (lSetItem G env f' xs i v).2 ≠ _; simp only [lSetItem, g]; split <;> simp
    case lSetSlice a b st vs =>
      show (lSetSlice G env f' xs a b st vs).2 ≠ _
      simp only [lSetSlice, g]; split
      · simp
      · split
        · simp
        · split <;> simp
    case lDelSlice a b st =>
      show (lDelSlice G env f' xs a b st).2 ≠ _
      simp only [lDelSlice, g]; split <;> simp
    case lDelItem i => show (lDelItem G f' xs env i).2 ≠ _; simp only [lDelItem, g]; split <;> simp
    case lIAdd vs => show (lIAdd G env f' xs vs).2 ≠ _; simp [lIAdd, lExtend, g]
    case lIMul k => show (lIMul G env f' xs k).2 ≠ _; simp only [lIMul, lClear, lExtend, g]; split <;> simp
    case lAppend v => show (lAppend G env f' xs v).2 ≠ _; simp [lAppend, g]
    case lExtend vs => show (lExtend G env f' xs vs).2 ≠ _; simp [lExtend, g]
    case lInsert i v => show (lInsert G env f' xs i v).2 ≠ _; simp [lInsert, g]
    case lClear => show (lClear G env f' xs).2 ≠ _; simp [lClear, g]
    case lSort => show (lSort G env f' xs).2 ≠ _; simp only [lSort, g]; split <;> (try split) <;> simp
    case lReverse => show (lReverse G env f' xs).2 ≠ _; simp [lReverse, g]
    case lPop i =>
      show (lPop G env f' xs i).2 ≠ _
      have g' : guard G (if (G .l_pop).accScope = true then env.pushAcc (some true) else env) f' .l_delitem = none :=
        guard_none _ (by rw [tas_ite]; exact hs) (writable_ite_true hw)
      simp only [lPop, g]; split
      · simp
      · simp only [lDelItem, g']; split <;> simp
    case lRemove a =>
      show (lRemove G env f' xs a).2 ≠ _
      simp only [lRemove, g]; split
      · simp
      · simp only [lDelItem, g]; split <;> simp
    case rebind ps => simp [Op.isRebind] at hr
    all_goals first | (show (_, Res.err Err.attr).2 ≠ _; simp) | (show (_, Res.ok).2 ≠ _; simp)
  | dict f' kvs =>
    simp [flags?] at hf; subst hf
    have hreb : ∀ us, (rebindNode G env (.dict f' kvs) (kvPairs us) false).2 ≠ .err .perm := by
      intro us
      simp only [rebindNode, flags?, Bool.and_false, Bool.false_eq_true, if_false, g, asLoopRoot_dict,
        anySealedTarget_kv hs us, treeSetAll_kv_unprot G hs us kvs]
      simp
    cases op
    case dSetItem k v => show (dSetItem G f' kvs env k v).2 ≠ _; simp [dSetItem, g]
    case dDelItem k => show (dDelItem G f' kvs env k).2 ≠ _; simp only [dDelItem, g]; split <;> simp
    case dPopItem => show (dPopItem G f' kvs env).2 ≠ _; simp only [dPopItem, g]; split <;> simp
    case dClear => show (dClear G f' kvs env).2 ≠ _; simp [dClear, g]
    case dSetAttr k v => show (dSetAttr G f' kvs env k v).2 ≠ _; simp [dSetAttr, dSetItem, g]
    case dDelAttr k => show (dDelAttr G f' kvs env k).2 ≠ _; simp only [dDelAttr, dDelItem, g]; split <;> simp
    case dSetDefault k v =>
      show (dSetDefault G f' kvs env k v).2 ≠ _; simp only [dSetDefault, dSetItem, g]; split <;> simp
    case dPop k d =>
      show (dPop G f' kvs env k d).2 ≠ _
      have g' : guard G (if (G .d_pop).accScope = true then env.pushAcc (some true) else env) f' .d_delitem = none :=
        guard_none _ (by rw [tas_ite]; exact hs) (writable_ite_true hw)
      simp only [dPop, g]; split
      · simp only [dDelItem, g']; split <;> simp
      · split <;> simp
    case dUpdate us => show (dUpdate G env f' kvs us).2 ≠ _; simp only [dUpdate, g]; exact hreb us
    case dIOr us => show (dIOr G env f' kvs us).2 ≠ _; simp only [dIOr, dUpdate, g]; exact hreb us
    case rebind ps => simp [Op.isRebind] at hr
    all_goals first | (show (_, Res.err Err.attr).2 ≠ _; simp) | (show (_, Res.ok).2 ≠ _; simp)
  | obj f' cls attrs =>
    simp [flags?] at hf; subst hf
    cases op
    case oSetAttr k v =>
      show (oSetAttr G env f' cls attrs k v).2 ≠ _
      have gc : guard G env f'.container .d_setitem = none := by
        apply guard_none
        · exact hi cls attrs rfl
        · revert hw; simp only [writable, Flags.container]; split <;> simp
      simp only [oSetAttr, g, gc]; split <;> simp
    case rebind ps => simp [Op.isRebind] at hr
    all_goals first | (show (_, Res.err Err.attr).2 ≠ _; simp) | (show (_, Res.ok).2 ≠ _; simp)

end Unprot

/-- A single rebind target whose parent node is not treated as sealed is never refused for
permission reasons by the write primitive. -/
theorem treeSet_no_perm (G : Table) (env : Env) :
    (p : List Key) → (t v : Tree) → sealedTarget env t p = false → (treeSet G env t p v).2 ≠ .err .perm
  | [], t, v, _ => by simp [treeSet]
  | [k], t, v, h => by
    simp only [sealedTarget] at h
    simp only [treeSet]
    cases hf : t.flags? with
    | none => simp
    | some f =>
      simp only [hf] at h
      simp only [h, Bool.and_false, Bool.false_eq_true, if_false]
      cases t <;> cases k <;> simp [rawSet] <;> split <;> simp
  | k :: k2 :: rest, t, v, h => by
    simp only [sealedTarget] at h
    simp only [treeSet]
    cases hc : t.child k with
    | none => simp
    | some c =>
      simp only [hc] at h
      exact treeSet_no_perm G env (k2 :: rest) c v h

/-! ### accessor protection -/

def AccGuarded (G : Table) : Prop :=
  (G .l_setitem).directAcc = true ∧ (G .l_delitem).directAcc = true ∧ (G .d_setitem).directAcc = true ∧
  (G .d_delitem).directAcc = true ∧ (G .o_setattr).directAcc = true

theorem nodeStep_acc {G : Table} {env : Env} {f : Flags} (hA : AccGuarded G) (hw : writable env f = false)
    (t : Tree) (op : Op) (hf : t.flags? = some f) (ha : op.isAccessor = true) :
    (nodeStep G env t op).1 = t ∧ ((nodeStep G env t op).2 = .err .perm ∨ benign t op = true) := by
  obtain ⟨h1, h2, h3, h4, h5⟩ := hA
  cases t with
  | leaf a => simp [flags?] at hf
  | list f' xs =>
    simp [flags?] at hf; subst hf
    cases op
    case lSetItem i v => exact of_eq_perm (by simp [nodeStep, lSetItem, guard_acc h1 hw])
    case lSetSlice a b st vs => exact of_eq_perm (by simp [nodeStep, lSetSlice, guard_acc h1 hw])
    case lDelSlice a b st => exact of_eq_perm (by simp [nodeStep, lDelSlice, guard_acc h2 hw])
    case lDelItem i => exact of_eq_perm (by simp [nodeStep, lDelItem, guard_acc h2 hw])
    all_goals first | (simp [Op.isAccessor] at ha; done) | exact ⟨rfl, Or.inr rfl⟩
  | dict f' kvs =>
    simp [flags?] at hf; subst hf
    cases op
    case dSetItem k v => exact of_eq_perm (by simp [nodeStep, dSetItem, guard_acc h3 hw])
    case dDelItem k => exact of_eq_perm (by simp [nodeStep, dDelItem, guard_acc h4 hw])
    case dSetAttr k v =>
      refine of_eq_perm ?_
      show dSetAttr G f' kvs env k v = _
      unfold dSetAttr
      rcases guard_cases G env f' .d_setattr with h | h <;> simp [h, dSetItem, guard_acc h3 hw]
    case dDelAttr k =>
      refine of_eq_perm ?_
      show dDelAttr G f' kvs env k = _
      unfold dDelAttr
      rcases guard_cases G env f' .d_delattr with h | h <;> simp [h, dDelItem, guard_acc h4 hw]
    all_goals first | (simp [Op.isAccessor] at ha; done) | exact ⟨rfl, Or.inr rfl⟩
  | obj f' cls attrs =>
    simp [flags?] at hf; subst hf
    cases op
    case oSetAttr k v =>
      show (oSetAttr G env f' cls attrs k v).1 = _ ∧ ((oSetAttr G env f' cls attrs k v).2 = _ ∨ _)
      cases hk : hasKey k attrs
      · simp [oSetAttr, hk, benign]
      · simp [oSetAttr, hk, guard_acc h5 hw]
    all_goals first | (simp [Op.isAccessor] at ha; done) | exact ⟨rfl, Or.inr rfl⟩

/-- The rebind path never consults the accessor flag or the accessor scope. -/
def RebindIgnoresAcc (G : Table) : Prop :=
  (G .l_rebind).directAcc = false ∧ (G .d_rebind).directAcc = false ∧ (G .o_rebind).directAcc = false

theorem guard_acc_indep {G : Table} (env : Env) (s : List (Option Bool)) (f : Flags) (w : Bool) (ep : EP)
    (h : (G ep).directAcc = false) :
    guard G { env with accStack := s } { f with accW := w } ep = guard G env f ep := by
  simp [guard, h, treatsAsSealed]

theorem treeSet_acc_indep (G : Table) (env : Env) (s : List (Option Bool)) :
    (p : List Key) → (t v : Tree) → treeSet G { env with accStack := s } t p v = treeSet G env t p v
  | [], t, v => rfl
  | [k], t, v => by simp [treeSet, treatsAsSealed]
  | k :: k2 :: rest, t, v => by
    simp only [treeSet]
    cases t.child k with
    | none => rfl
    | some c => simp [treeSet_acc_indep G env s (k2 :: rest) c v]

theorem treeSetAll_acc_indep (G : Table) (env : Env) (s : List (Option Bool)) :
    (ps : List (List Key × Tree)) → (t : Tree) →
      treeSetAll G { env with accStack := s } t ps = treeSetAll G env t ps
  | [], t => rfl
  | (p, v) :: rest, t => by
    simp only [treeSetAll, treeSet_acc_indep G env s p t v]
    cases treeSet G env t p v with
    | mk t' r => cases r <;> simp [treeSetAll_acc_indep G env s rest t']

theorem sealedTarget_acc_indep (env : Env) (s : List (Option Bool)) :
    (p : List Key) → (t : Tree) → sealedTarget { env with accStack := s } t p = sealedTarget env t p
  | [], t => rfl
  | [k], t => by simp [sealedTarget, treatsAsSealed]
  | k :: k2 :: rest, t => by
    simp only [sealedTarget]
    cases t.child k with
    | none => rfl
    | some c => simp [sealedTarget_acc_indep env s (k2 :: rest) c]

theorem rebindNode_acc_indep {G : Table} (h : RebindIgnoresAcc G) (env : Env) (s : List (Option Bool))
    (t : Tree) (pairs : List (List Key × Tree)) (r : Bool) :
    rebindNode G { env with accStack := s } t pairs r = rebindNode G env t pairs r := by
  obtain ⟨h1, h2, h3⟩ := h
  have hany : ∀ t', anySealedTarget { env with accStack := s } t' pairs = anySealedTarget env t' pairs := by
    intro t'
    simp only [anySealedTarget]
    congr 1
    funext p
    exact sealedTarget_acc_indep env s p.1 t'
  cases t with
  | leaf a => rfl
  | dict f kvs =>
    have hg : guard G { env with accStack := s } f .d_rebind = guard G env f .d_rebind := by
      simp [guard, h2, treatsAsSealed]
    simp only [rebindNode, flags?, rebindEP, loopEP, hany, treeSetAll_acc_indep, hg]
    try rfl
  | list f xs =>
    have hg : guard G { env with accStack := s } f .l_rebind = guard G env f .l_rebind := by
      simp [guard, h1, treatsAsSealed]
    simp only [rebindNode, flags?, rebindEP, loopEP, hany, treeSetAll_acc_indep, hg]
    try rfl
  | obj f c attrs =>
    have hg : guard G { env with accStack := s } f .o_rebind = guard G env f .o_rebind := by
      simp [guard, h3, treatsAsSealed]
    simp only [rebindNode, flags?, rebindEP, loopEP, hany, treeSetAll_acc_indep, hg]
    try rfl

/-! ### deep seal -/

mutual
  theorem sealT_deep (b : Bool) :
      (t : Tree) → allFlags (fun f => f.sealed == b) (sealT false b t) = true
    | .leaf _ => rfl
    | .dict f items => by simp [sealT, allFlags, sealKvs_deep b items]
    | .list f items => by simp [sealT, allFlags, sealList_deep b items]
    | .obj f c attrs => by simp [sealT, allFlags, sealKvs_deep b attrs, Flags.container]
  theorem sealList_deep (b : Bool) :
      (ts : List Tree) → allFlagsList (fun f => f.sealed == b) (sealList false b ts) = true
    | [] => rfl
    | t :: ts => by simp [sealList, allFlagsList, sealT_deep b t, sealList_deep b ts]
  theorem sealKvs_deep (b : Bool) :
      (ts : List (String × Tree)) → allFlagsKvs (fun f => f.sealed == b) (sealKvs false b ts) = true
    | [] => rfl
    | (k, t) :: ts => by simp [sealKvs, allFlagsKvs, sealT_deep b t, sealKvs_deep b ts]
end

mutual
  /-- Contents with all flags erased (what `seal` must not touch). -/
  def shape : Tree → Tree
    | .leaf a => .leaf a
    | .dict _ items => .dict ⟨false, true, false⟩ (shapeKvs items)
    | .list _ items => .list ⟨false, true, false⟩ (shapeList items)
    | .obj _ c attrs => .obj ⟨false, true, false⟩ c (shapeKvs attrs)
  def shapeList : List Tree → List Tree
    | [] => []
    | t :: ts => shape t :: shapeList ts
  def shapeKvs : List (String × Tree) → List (String × Tree)
    | [] => []
    | (k, t) :: ts => (k, shape t) :: shapeKvs ts
end

mutual
  theorem sealT_shape (sc b : Bool) : (t : Tree) → shape (sealT sc b t) = shape t
    | .leaf _ => rfl
    | .dict f items => by simp only [sealT]; split <;> simp [shape, sealKvs_shape sc b items]
    | .list f items => by simp only [sealT]; split <;> simp [shape, sealList_shape sc b items]
    | .obj f c attrs => by simp only [sealT]; split <;> simp [shape, sealKvs_shape sc b attrs]
  theorem sealList_shape (sc b : Bool) : (ts : List Tree) → shapeList (sealList sc b ts) = shapeList ts
    | [] => rfl
    | t :: ts => by simp [sealList, shapeList, sealT_shape sc b t, sealList_shape sc b ts]
  theorem sealKvs_shape (sc b : Bool) :
      (ts : List (String × Tree)) → shapeKvs (sealKvs sc b ts) = shapeKvs ts
    | [] => rfl
    | (k, t) :: ts => by simp [sealKvs, shapeKvs, sealT_shape sc b t, sealKvs_shape sc b ts]
end

end Pg.C08

namespace Pg.C08
open Tree

mutual
  theorem allFlags_of_forall {p : Flags → Bool} (h : ∀ f, p f = true) : (t : Tree) → allFlags p t = true
    | .leaf _ => rfl
    | .dict f items => by simp [allFlags, h f, allFlagsKvs_of_forall h items]
    | .list f items => by simp [allFlags, h f, allFlagsList_of_forall h items]
    | .obj f _ attrs => by simp [allFlags, h f, h f.container, allFlagsKvs_of_forall h attrs]
  theorem allFlagsList_of_forall {p : Flags → Bool} (h : ∀ f, p f = true) :
      (ts : List Tree) → allFlagsList p ts = true
    | [] => rfl
    | t :: ts => by simp [allFlagsList, allFlags_of_forall h t, allFlagsList_of_forall h ts]
  theorem allFlagsKvs_of_forall {p : Flags → Bool} (h : ∀ f, p f = true) :
      (ts : List (String × Tree)) → allFlagsKvs p ts = true
    | [] => rfl
    | (_, t) :: ts => by simp [allFlagsKvs, allFlags_of_forall h t, allFlagsKvs_of_forall h ts]
end

theorem resolve_append : (p q : List Key) → (root n r : Tree) →
    resolve root p = some n → resolve n q = some r → resolve root (p ++ q) = some r
  | [], q, root, n, r, hn, hr => by simp [resolve] at hn; subst hn; simpa using hr
  | k :: rest, q, root, n, r, hn, hr => by
    simp only [resolve, List.cons_append] at hn ⊢
    cases hc : root.child k with
    | none => simp [hc] at hn
    | some c =>
      simp only [hc] at hn ⊢
      exact resolve_append rest q c n r hn hr

theorem sealedTarget_cons (env : Env) (t : Tree) (k : Key) (tail : List Key) (hne : tail ≠ []) :
    sealedTarget env t (k :: tail) = (match t.child k with
      | none => false
      | some c => sealedTarget env c tail) := by
  cases tail with
  | nil => exact absurd rfl hne
  | cons k2 rest => rfl

/-- The target `q ++ [k]` is "sealed" exactly when the node at `q` is treated as sealed. -/
theorem sealedTarget_resolve (env : Env) (k : Key) :
    (q : List Key) → (t m : Tree) → (f : Flags) → resolve t q = some m → m.flags? = some f →
      sealedTarget env t (q ++ [k]) = treatsAsSealed env f
  | [], t, m, f, hm, hf => by
    simp [resolve] at hm; subst hm
    simp [sealedTarget, hf]
  | k1 :: rest, t, m, f, hm, hf => by
    simp only [resolve] at hm
    rw [List.cons_append, sealedTarget_cons env t k1 (rest ++ [k]) (by simp)]
    cases hc : t.child k1 with
    | none => simp [hc] at hm
    | some c =>
      simp only [hc] at hm ⊢
      exact sealedTarget_resolve env k rest c m f hm hf

theorem sealedTarget_asLoopRoot (env : Env) (t : Tree) (k : Key) (tail : List Key) (hne : tail ≠ []) :
    sealedTarget env (asLoopRoot t) (k :: tail) = sealedTarget env t (k :: tail) := by
  rw [sealedTarget_cons _ _ _ _ hne, sealedTarget_cons _ _ _ _ hne]
  cases t <;> first | rfl | (cases k <;> simp [asLoopRoot, child])

/-- `rebind` with a pair that addresses a key of a node treated as sealed when the call starts:
refused as a whole (own guard of an Object receiver, or the up-front check of all targets). -/
theorem rebindNode_target_sealed {G : Table} {env : Env} {recv m : Tree} {q : List Key} {k : Key} {v : Tree}
    {f : Flags} {pairs : List (List Key × Tree)} (r : Bool)
    (hpre : (G (loopEP recv)).precheck = true) (hO : (G .o_rebind).directSealed = true)
    (hm : resolve recv q = some m) (hf : m.flags? = some f) (hs : treatsAsSealed env f = true)
    (hmem : (q ++ [k], v) ∈ pairs) :
    rebindNode G env recv pairs r = (recv, .err .perm) := by
  have hst : sealedTarget env recv (q ++ [k]) = true := by
    rw [sealedTarget_resolve env k q recv m f hm hf]; exact hs
  have hany_of : sealedTarget env (asLoopRoot recv) (q ++ [k]) = true →
      anySealedTarget env (asLoopRoot recv) pairs = true := by
    intro h
    simp only [anySealedTarget, List.any_eq_true]
    exact ⟨_, hmem, h⟩
  cases q with
  | nil =>
    simp only [resolve, Option.some.injEq] at hm; subst hm
    cases recv with
    | leaf a => simp [flags?] at hf
    | dict f' kvs => exact rebindNode_sealed_target r hpre (hany_of hst)
    | list f' xs => exact rebindNode_sealed_target r hpre (hany_of hst)
    | obj f' c attrs =>
      simp only [flags?, Option.some.injEq] at hf; subst hf
      have hne : pairs.isEmpty = false := by
        cases pairs with
        | nil => simp at hmem
        | cons _ _ => rfl
      unfold rebindNode
      simp only [flags?, rebindEP, guard_prot hO hs, hne, Bool.false_and, Bool.false_eq_true, if_false]
  | cons k1 rest =>
    refine rebindNode_sealed_target r hpre (hany_of ?_)
    rw [List.cons_append, sealedTarget_asLoopRoot env recv k1 (rest ++ [k]) (by simp)]
    exact hst

theorem nodeStep_rebind_acc_indep {G : Table} (h : RebindIgnoresAcc G) (env : Env) (s : List (Option Bool))
    (t : Tree) (pairs : List (List Key × Tree)) :
    nodeStep G { env with accStack := s } t (.rebind pairs) = nodeStep G env t (.rebind pairs) := by
  cases t with
  | leaf a => rfl
  | dict f kvs =>
    show rebindNode G _ (.dict f kvs) pairs true = rebindNode G env (.dict f kvs) pairs true
    exact rebindNode_acc_indep h env s _ pairs true
  | list f xs =>
    show rebindNode G _ (.list f xs) pairs true = rebindNode G env (.list f xs) pairs true
    exact rebindNode_acc_indep h env s _ pairs true
  | obj f c attrs =>
    show rebindNode G _ (.obj f c attrs) pairs true = rebindNode G env (.obj f c attrs) pairs true
    exact rebindNode_acc_indep h env s _ pairs true

theorem stepAt_rebind_acc_indep {G : Table} (h : RebindIgnoresAcc G) (env : Env) (s : List (Option Bool))
    (pairs : List (List Key × Tree)) :
    (p : List Key) → (root : Tree) →
      stepAt G { env with accStack := s } root p (.rebind pairs) = stepAt G env root p (.rebind pairs)
  | [], root => nodeStep_rebind_acc_indep h env s root pairs
  | k :: rest, root => by
    simp only [stepAt]
    cases root.child k with
    | none => rfl
    | some c => simp [stepAt_rebind_acc_indep h env s pairs rest c]

theorem rebind_dict_works {G : Table} (h : RebindIgnoresAcc G) (env : Env) (f : Flags)
    (kvs : List (String × Tree)) (k : String) (v : Tree) (hs : treatsAsSealed env f = false) :
    rebindNode G env (.dict f kvs) [([.s k], v)] true = (.dict f (setKv k v kvs), .ok) := by
  have hg : guard G env f .d_rebind = none := by simp [guard, hs, h.2.1]
  simp [rebindNode, flags?, rebindEP, loopEP, hg, anySealedTarget, sealedTarget, hs, treeSetAll, treeSet, rawSet]

end Pg.C08
