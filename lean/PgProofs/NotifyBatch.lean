/-
  C09 — truthfulness of the recorded old / new values for a whole batch (`rebind` with many pairs,
  `extend`, `update`): frame lemmas (a write changes nothing at locations unrelated to the written
  one), preservation of well-formedness, and the batch theorem.
-/
import PgProofs.NotifyEdit
namespace Pg.C09
open T
open Pg.C08 (Atom Key)

/-- Two locations neither of which is at or below the other. -/
def Unrelated (a b : Path) : Prop := ¬ a <+: b ∧ ¬ b <+: a

theorem lookup_setKv_ne {k k2 : Key} {c : T} (h : k ≠ k2) :
    (items : List (Key × T)) → lookup k2 (setKv k c items) = lookup k2 items
  | [] => by simp [setKv, lookup, h]
  | (k0, v0) :: rest => by
    simp only [setKv]
    by_cases h0 : k0 = k
    · subst h0; simp [lookup, h]
    · simp only [h0, if_false, lookup]
      rw [lookup_setKv_ne h rest]

theorem lookup_eraseKv_ne {k k2 : Key} (h : k ≠ k2) :
    (items : List (Key × T)) → lookup k2 (eraseKv k items) = lookup k2 items
  | [] => rfl
  | (k0, v0) :: rest => by
    simp only [eraseKv]
    by_cases h0 : k0 = k
    · subst h0; simp [lookup, h]
    · simp only [h0, if_false, lookup]
      rw [lookup_eraseKv_ne h rest]

theorem lookup_append_ne {k k2 : Key} {v : T} (h : k ≠ k2) :
    (items : List (Key × T)) → lookup k2 (items ++ [(k, v)]) = lookup k2 items
  | [] => by simp [lookup, h]
  | (k0, v0) :: rest => by
    simp only [List.cons_append, lookup]
    rw [lookup_append_ne h rest]

theorem getAt_resetCache (t : T) (k : Key) (L : Path) : getAt (resetCache t) (k :: L) = getAt t (k :: L) := by
  cases t <;> rfl

theorem getAt_node_cons (m : Meta) (kd : Kind) (items : List (Key × T)) (k : Key) (L : Path) :
    getAt (.node m kd items) (k :: L) = match lookup k items with
      | none => none
      | some c => getAt c L := rfl

/-- `_invalidate_content_caches` touches nothing off the chain. -/
theorem resetChain_frame : (p : Path) → (t : T) → (L : Path) → ¬ L <+: p → getAt (resetChain t p) L = getAt t L
  | _, _, [], h => absurd List.nil_prefix h
  | [], t, k :: L, _ => by simp only [resetChain]; exact getAt_resetCache t k L
  | k1 :: rest, .leaf a, k :: L, _ => by simp [resetChain, child, resetCache]
  | k1 :: rest, .node m kd items, k :: L, h => by
    simp only [resetChain, child]
    cases hc : lookup k1 items with
    | none => simp only []; exact getAt_resetCache _ k L
    | some c =>
      simp only [resetCache, setChild, getAt_node_cons]
      by_cases hk : k1 = k
      · subst hk
        rw [lookup_setKv_self, hc]
        exact resetChain_frame rest c L (fun hp => h (List.cons_prefix_cons.2 ⟨rfl, hp⟩))
      · rw [lookup_setKv_ne hk]

/-- A write changes nothing at locations unrelated to the written one. -/
theorem writeAt_frame :
    (p : Path) → (t : T) → (here : Path) → (k : Key) → (v : Option T) → (t' : T) → (u : Update) → (k' : Key) →
      writeAt t here p k v = some (t', some u) → u.path = here ++ p ++ [k'] →
      ∀ L, Unrelated (p ++ [k']) L → getAt t' L = getAt t L
  | _, .leaf _, _, _, _, _, _, _, h, _, _, _ => by simp [writeAt] at h
  | _, _, _, _, _, _, _, _, _, _, [], hu => absurd List.nil_prefix hu.2
  | [], .node m kd items, here, k, v, t', u, k', h, hp, k2 :: L, hu => by
    have hne : k' ≠ k2 := by
      intro e; subst e
      exact hu.1 (by simp)
    simp only [writeAt] at h
    cases v with
    | none =>
      simp only at h
      cases ho : lookup k items with
      | none => simp [ho] at h
      | some o =>
        simp only [ho, Option.some.injEq, Prod.mk.injEq] at h
        obtain ⟨h1, h2⟩ := h
        subst h1; subst h2
        have hk : k = k' := by simpa using hp
        subst hk
        simp only [getAt_node_cons, lookup_eraseKv_ne hne]
    | some nv =>
      simp only at h
      by_cases ha : atomEq (lookup k items) nv = true
      · simp [ha] at h
      · simp only [ha, Bool.false_eq_true, if_false] at h
        have hset : some (T.node m kd (setKv k nv items),
              some ({ path := here ++ [k], old := lookup k items, new := some nv } : Update)) = some (t', some u) →
            getAt t' (k2 :: L) = getAt (T.node m kd items) (k2 :: L) := by
          intro h
          simp only [Option.some.injEq, Prod.mk.injEq] at h
          obtain ⟨h1, h2⟩ := h
          subst h1; subst h2
          have hk : k = k' := by simpa using hp
          subst hk
          simp only [getAt_node_cons, lookup_setKv_ne hne]
        cases ho : lookup k items with
        | some o => cases kd <;> (simp only [ho] at h hset; exact hset h)
        | none =>
          cases kd with
          | obj => simp [ho] at h
          | dict => simp only [ho] at h hset; exact hset h
          | list =>
            simp only [ho, Option.some.injEq, Prod.mk.injEq] at h
            obtain ⟨h1, h2⟩ := h
            subst h1; subst h2
            have hk : Key.i items.length = k' := by simpa using hp
            subst hk
            simp only [getAt_node_cons, lookup_append_ne hne]
  | k1 :: rest, .node m kd items, here, k, v, t', u, k', h, hp, k2 :: L, hu => by
    simp only [writeAt] at h
    cases hc : lookup k1 items with
    | none => simp [hc] at h
    | some c =>
      simp only [hc] at h
      cases hw : writeAt c (here ++ [k1]) rest k v with
      | none => simp [hw] at h
      | some r =>
        obtain ⟨c', ou⟩ := r
        simp only [hw, Option.some.injEq, Prod.mk.injEq] at h
        obtain ⟨h1, h2⟩ := h
        subst h1; subst h2
        simp only [getAt_node_cons]
        by_cases hk : k1 = k2
        · subst hk
          rw [lookup_setKv_self, hc]
          refine writeAt_frame rest c (here ++ [k1]) k v c' u k' hw (by simp [hp]) L ⟨?_, ?_⟩
          · intro hpre
            exact hu.1 (show (k1 :: rest ++ [k']) <+: (k1 :: L) from List.cons_prefix_cons.2 ⟨rfl, hpre⟩)
          · intro hpre
            exact hu.2 (show (k1 :: L) <+: (k1 :: rest ++ [k']) from List.cons_prefix_cons.2 ⟨rfl, hpre⟩)
        · rw [lookup_setKv_ne hk]

end Pg.C09

namespace Pg.C09
open T
open Pg.C08 (Atom Key)

/-! ### well-formedness (distinct keys, lists indexed 0..n-1) is kept by writes -/

def WFK (t : T) : Prop := KeysNodup t ∧ ListIndexed t

theorem keys_setKv_present {k : Key} {c c0 : T} :
    (items : List (Key × T)) → lookup k items = some c0 →
      (setKv k c items).map (·.1) = items.map (·.1) ∧ (setKv k c items).length = items.length
  | [], h => by simp [lookup] at h
  | (k0, v0) :: rest, h => by
    simp only [lookup] at h
    simp only [setKv]
    by_cases h0 : k0 = k
    · subst h0; simp
    · simp only [h0, if_false] at h ⊢
      have := keys_setKv_present (c := c) rest h
      simp [this.1, this.2]

theorem keys_setKv_absent {k : Key} {c : T} :
    (items : List (Key × T)) → lookup k items = none → (setKv k c items).map (·.1) = items.map (·.1) ++ [k]
  | [], _ => by simp [setKv]
  | (k0, v0) :: rest, h => by
    simp only [lookup] at h
    simp only [setKv]
    by_cases h0 : k0 = k
    · simp [h0] at h
    · simp only [h0, if_false] at h ⊢
      simp [keys_setKv_absent rest h]

theorem not_mem_keys_of_lookup_none {k : Key} : (items : List (Key × T)) → lookup k items = none → k ∉ items.map (·.1)
  | [], _ => by simp
  | (k0, v0) :: rest, h => by
    simp only [lookup] at h
    by_cases h0 : k0 = k
    · simp [h0] at h
    · simp only [h0, if_false] at h
      simp only [List.map_cons, List.mem_cons, not_or]
      exact ⟨fun e => h0 e.symm, not_mem_keys_of_lookup_none rest h⟩

theorem keysNodupItems_setKv {k : Key} {v : T} (hv : KeysNodup v) :
    (items : List (Key × T)) → KeysNodupItems items → KeysNodupItems (setKv k v items)
  | [], _ => by simp [setKv, KeysNodupItems, hv]
  | (k', v') :: rest, hf => by
    simp only [KeysNodupItems] at hf
    simp only [setKv]
    split
    · exact ⟨hv, hf.2⟩
    · exact ⟨hf.1, keysNodupItems_setKv hv rest hf.2⟩

theorem listIndexedItems_setKv {k : Key} {v : T} (hv : ListIndexed v) :
    (items : List (Key × T)) → ListIndexedItems items → ListIndexedItems (setKv k v items)
  | [], _ => by simp [setKv, ListIndexedItems, hv]
  | (k', v') :: rest, hf => by
    simp only [ListIndexedItems] at hf
    simp only [setKv]
    split
    · exact ⟨hv, hf.2⟩
    · exact ⟨hf.1, listIndexedItems_setKv hv rest hf.2⟩

theorem keysNodupItems_append {x : Key × T} (hv : KeysNodup x.2) :
    (items : List (Key × T)) → KeysNodupItems items → KeysNodupItems (items ++ [x])
  | [], _ => by cases x; simpa [KeysNodupItems] using hv
  | (k', v') :: rest, hf => by
    simp only [KeysNodupItems] at hf
    exact ⟨hf.1, keysNodupItems_append hv rest hf.2⟩

theorem listIndexedItems_append {x : Key × T} (hv : ListIndexed x.2) :
    (items : List (Key × T)) → ListIndexedItems items → ListIndexedItems (items ++ [x])
  | [], _ => by cases x; simpa [ListIndexedItems] using hv
  | (k', v') :: rest, hf => by
    simp only [ListIndexedItems] at hf
    exact ⟨hf.1, listIndexedItems_append hv rest hf.2⟩

/-- Putting a well-formed value at a key of a well-formed node (the key present, or absent and the
node not a list). -/
theorem wfk_setKv {m : Meta} {kd : Kind} {items : List (Key × T)} {k : Key} {nv : T}
    (h : WFK (.node m kd items)) (hv : WFK nv) (hl : kd = .list → (lookup k items).isSome) :
    WFK (.node m kd (setKv k nv items)) := by
  obtain ⟨hk, hi⟩ := h
  simp only [KeysNodup] at hk
  simp only [ListIndexed] at hi
  refine ⟨?_, ?_⟩
  · simp only [KeysNodup]
    refine ⟨?_, keysNodupItems_setKv hv.1 items hk.2⟩
    cases ho : lookup k items with
    | some c0 => rw [(keys_setKv_present items ho).1]; exact hk.1
    | none =>
      rw [keys_setKv_absent items ho]
      refine List.nodup_append.2 ⟨hk.1, by simp, ?_⟩
      intro a ha b hb
      simp only [List.mem_singleton] at hb
      subst hb
      exact fun e => not_mem_keys_of_lookup_none items ho (e ▸ ha)
  · simp only [ListIndexed]
    refine ⟨?_, listIndexedItems_setKv hv.2 items hi.2⟩
    intro hkd
    have := hl hkd
    cases ho : lookup k items with
    | none => simp [ho] at this
    | some c0 =>
      obtain ⟨h1, h2⟩ := keys_setKv_present (c := nv) items ho
      rw [h1, h2]; exact hi.1 hkd

theorem wfk_child {m : Meta} {kd : Kind} {items : List (Key × T)} {k : Key} {c : T}
    (h : WFK (.node m kd items)) (hc : lookup k items = some c) : WFK c := by
  obtain ⟨hk, hi⟩ := h
  simp only [KeysNodup] at hk
  simp only [ListIndexed] at hi
  exact ⟨keysNodupItems_mem items hk.2 (mem_of_lookup items hc), listIndexedItems_lookup items hi.2 hc⟩

theorem writeAt_wfk :
    (p : Path) → (t : T) → (here : Path) → (k : Key) → (nv : T) → (t' : T) → (ou : Option Update) →
      WFK t → WFK nv → writeAt t here p k (some nv) = some (t', ou) → WFK t'
  | _, .leaf _, _, _, _, _, _, _, _, h => by simp [writeAt] at h
  | [], .node m kd items, here, k, nv, t', ou, hw, hv, h => by
    simp only [writeAt] at h
    by_cases ha : atomEq (lookup k items) nv = true
    · simp only [ha, if_true, Option.some.injEq, Prod.mk.injEq] at h
      rw [← h.1]; exact hw
    · simp only [ha, Bool.false_eq_true, if_false] at h
      cases ho : lookup k items with
      | some o =>
        have : t' = .node m kd (setKv k nv items) := by
          cases kd <;> (simp only [ho, Option.some.injEq, Prod.mk.injEq] at h; exact h.1.symm)
        rw [this]
        exact wfk_setKv hw hv (fun _ => by simp [ho])
      | none =>
        cases kd with
        | obj => simp [ho] at h
        | dict =>
          simp only [ho, Option.some.injEq, Prod.mk.injEq] at h
          rw [← h.1]
          exact wfk_setKv hw hv (fun e => by cases e)
        | list =>
          simp only [ho, Option.some.injEq, Prod.mk.injEq] at h
          rw [← h.1]
          obtain ⟨hk, hi⟩ := hw
          simp only [KeysNodup] at hk
          simp only [ListIndexed] at hi
          have hkeys := hi.1 trivial
          refine ⟨?_, ?_⟩
          · simp only [KeysNodup]
            refine ⟨?_, keysNodupItems_append hv.1 items hk.2⟩
            rw [List.map_append, hkeys]
            simp only [List.map_cons, List.map_nil]
            refine List.nodup_append.2 ⟨by rw [← hkeys]; exact hk.1, by simp, ?_⟩
            intro a ha b hb
            simp only [List.mem_singleton] at hb
            subst hb
            simp only [List.mem_map, List.mem_range] at ha
            obtain ⟨j, hj, rfl⟩ := ha
            intro e
            have : j = items.length := by injection e
            omega
          · simp only [ListIndexed]
            refine ⟨fun _ => ?_, listIndexedItems_append hv.2 items hi.2⟩
            rw [List.map_append, hkeys]
            simp [List.range_succ]
  | k1 :: rest, .node m kd items, here, k, nv, t', ou, hw, hv, h => by
    simp only [writeAt] at h
    cases hc : lookup k1 items with
    | none => simp [hc] at h
    | some c =>
      simp only [hc] at h
      cases hw' : writeAt c (here ++ [k1]) rest k (some nv) with
      | none => simp [hw'] at h
      | some r =>
        obtain ⟨c', ou'⟩ := r
        simp only [hw', Option.some.injEq, Prod.mk.injEq] at h
        rw [← h.1]
        have hc' := writeAt_wfk rest c (here ++ [k1]) k nv c' ou' (wfk_child hw hc) hv hw'
        exact wfk_setKv hw hc' (fun _ => by simp [hc])

theorem wfk_resetCache {t : T} (h : WFK t) : WFK (resetCache t) := by
  cases t with
  | leaf a => exact h
  | node m kd items =>
    obtain ⟨hk, hi⟩ := h
    exact ⟨by simpa [resetCache, KeysNodup] using hk, by simpa [resetCache, ListIndexed] using hi⟩

theorem resetChain_wfk : (p : Path) → (t : T) → WFK t → WFK (resetChain t p)
  | [], t, h => by simpa [resetChain] using wfk_resetCache h
  | k :: rest, .leaf a, h => by simpa [resetChain, child] using wfk_resetCache h
  | k :: rest, .node m kd items, h => by
    simp only [resetChain, child]
    cases hc : lookup k items with
    | none => simpa using wfk_resetCache h
    | some c =>
      have ih := resetChain_wfk rest c (wfk_child h hc)
      simp only [resetCache, setChild]
      have h' : WFK (.node { m with cache := none } kd items) := by
        obtain ⟨hk, hi⟩ := h
        exact ⟨by simpa [KeysNodup] using hk, by simpa [ListIndexed] using hi⟩
      exact wfk_setKv h' ih (fun _ => by simp [hc])

end Pg.C09

namespace Pg.C09
open T
open Pg.C08 (Atom Key)

/-! ### one pair of a batch, then the whole batch -/

theorem writeReset_spec {root r1 v : T} {parent : Path} {k : Key} {ou : Option Update}
    (hw : WFK root) (hv : WFK v) (h : writeReset root parent k (some v) = some (r1, ou)) :
    WFK r1 ∧ (ou = none → r1 = root) ∧
      ∀ u, ou = some u → ∃ k', u.path = parent ++ [k'] ∧ getAt root u.path = u.old ∧ getAt r1 u.path = u.new ∧
        ∀ L, Unrelated u.path L → getAt r1 L = getAt root L := by
  unfold writeReset at h
  cases hwa : writeAt root [] parent k (some v) with
  | none => simp [hwa] at h
  | some r =>
    obtain ⟨r', ou'⟩ := r
    have hwf' := writeAt_wfk parent root [] k v r' ou' hw hv hwa
    cases ou' with
    | none =>
      simp only [hwa, Option.some.injEq, Prod.mk.injEq] at h
      obtain ⟨h1, h2⟩ := h
      subst h1; subst h2
      exact ⟨hwf', fun _ => writeAt_none_unchanged parent root [] k (some v) r' hwa, fun u hu => by cases hu⟩
    | some u =>
      simp only [hwa, Option.some.injEq, Prod.mk.injEq] at h
      obtain ⟨h1, h2⟩ := h
      subst h1; subst h2
      refine ⟨resetChain_wfk parent r' hwf', (fun hn => by cases hn), ?_⟩
      intro u' hu'
      cases hu'
      obtain ⟨k', hp, hold, hnew⟩ := writeAt_truthful parent root [] k (some v) r' u hw.1 hw.2 hwa
      simp only [List.nil_append] at hp
      have hnp : ∀ L, L <+: parent → L <+: parent ++ [k'] := fun L hL => hL.trans (List.prefix_append _ _)
      refine ⟨k', hp, by rw [hp]; exact hold, ?_, ?_⟩
      · rw [hp, resetChain_frame parent r' (parent ++ [k']) ?_]
        · exact hnew
        · intro hpre
          have := hpre.length_le
          simp at this
          omega
      · intro L hL
        rw [hp] at hL
        rw [resetChain_frame parent r' L (fun hpre => hL.2 (hnp L hpre))]
        exact writeAt_frame parent root [] k (some v) r' u k' hwa (by simp [hp]) L hL

theorem writeAll_acc (recv : Path) : (pairs : List (Path × T)) → (root : T) → (acc : List (Update × Path)) →
    writeAll root recv pairs acc = (writeAll root recv pairs []).map fun r => (r.1, acc ++ r.2)
  | [], root, acc => by simp [writeAll]
  | (p, v) :: rest, root, acc => by
    simp only [writeAll]
    cases p.reverse with
    | nil => rfl
    | cons k revParent =>
      simp only []
      cases writeReset root (recv ++ revParent.reverse) k (some v) with
      | none => rfl
      | some r =>
        obtain ⟨r1, ou⟩ := r
        cases ou with
        | none => simp only []; exact writeAll_acc recv rest r1 acc
        | some u =>
          simp only []
          rw [writeAll_acc recv rest r1 (acc ++ [(u, recv ++ revParent.reverse)]),
            writeAll_acc recv rest r1 ([] ++ [(u, recv ++ revParent.reverse)])]
          cases writeAll r1 recv rest [] with
          | none => rfl
          | some x => simp [List.append_assoc]

/-- BATCH: well-formedness is kept; whatever is unrelated to every reported location is untouched;
and — when the reported locations are pairwise unrelated — every recorded `old` is the value at
that location before the whole batch and every `new` the value there after it. -/
theorem writeAll_truthful (recv : Path) :
    (pairs : List (Path × T)) → (root r' : T) → (ups : List (Update × Path)) →
      WFK root → (∀ pv ∈ pairs, WFK pv.2) → writeAll root recv pairs [] = some (r', ups) →
      WFK r' ∧
      (∀ L, (∀ x ∈ ups, Unrelated x.1.path L) → getAt r' L = getAt root L) ∧
      ((ups.map (·.1.path)).Pairwise Unrelated →
        ∀ x ∈ ups, getAt root x.1.path = x.1.old ∧ getAt r' x.1.path = x.1.new)
  | [], root, r', ups, hw, _, h => by
    simp only [writeAll, Option.some.injEq, Prod.mk.injEq] at h
    obtain ⟨h1, h2⟩ := h
    subst h1; subst h2
    exact ⟨hw, fun _ _ => rfl, fun _ x hx => by simp at hx⟩
  | (p, v) :: rest, root, r', ups, hw, hv, h => by
    simp only [writeAll] at h
    cases hp : p.reverse with
    | nil => simp [hp] at h
    | cons k revParent =>
      simp only [hp] at h
      cases hwr : writeReset root (recv ++ revParent.reverse) k (some v) with
      | none => simp [hwr] at h
      | some r =>
        obtain ⟨r1, ou⟩ := r
        obtain ⟨hw1, hnone, hsome⟩ := writeReset_spec hw (hv (p, v) (by simp)) hwr
        have hv' : ∀ pv ∈ rest, WFK pv.2 := fun pv hm => hv pv (List.mem_cons_of_mem _ hm)
        cases ou with
        | none =>
          simp only [hwr] at h
          have := hnone rfl
          subst this
          exact writeAll_truthful recv rest r1 r' ups hw hv' h
        | some u =>
          simp only [hwr] at h
          rw [writeAll_acc] at h
          cases hrest : writeAll r1 recv rest [] with
          | none => simp [hrest] at h
          | some x =>
            obtain ⟨r2, ups2⟩ := x
            simp only [hrest, Option.map_some, Option.some.injEq, Prod.mk.injEq, List.nil_append] at h
            obtain ⟨h1, h2⟩ := h
            subst h1; subst h2
            obtain ⟨hw2, hframe2, htruth2⟩ := writeAll_truthful recv rest r1 r2 ups2 hw1 hv' hrest
            obtain ⟨k', hpath, hold, hnew, hframe1⟩ := hsome u rfl
            refine ⟨hw2, ?_, ?_⟩
            · intro L hL
              rw [hframe2 L (fun x hx => hL x (by simp [hx]))]
              exact hframe1 L (hL (u, recv ++ revParent.reverse) (by simp))
            · intro hpw x hx
              simp only [List.singleton_append, List.map_cons, List.pairwise_cons] at hpw
              simp only [List.singleton_append, List.mem_cons] at hx
              rcases hx with rfl | hx
              · refine ⟨hold, ?_⟩
                rw [hframe2 u.path ?_]
                · exact hnew
                · intro y hy
                  have := hpw.1 y.1.path (List.mem_map.2 ⟨y, hy, rfl⟩)
                  exact ⟨this.2, this.1⟩
              · obtain ⟨ho, hn⟩ := htruth2 hpw.2 x hx
                refine ⟨?_, hn⟩
                rw [← hframe1 x.1.path (hpw.1 x.1.path (List.mem_map.2 ⟨x, hx, rfl⟩))]
                exact ho

end Pg.C09
