/-
  C11: custom decision points with hooks as parameters.
  * conservativity: without custom points the hooked `first_dna` / `next_dna` / `iter_dna` are the
    plain ones, whatever the hooks;
  * `listHooks` meets `HookContract`;
  * a spec that IS a custom point whose hook meets the contract for `L` iterates exactly `L`.
-/
import PgModel.Geno.Hooks
namespace Pg.Geno
open DNA

mutual
  theorem firstPH_eq (hk : Hooks) : ∀ (p : Point), p.noCustom = true → firstPH hk p = firstP p
    | .choices k cands distinct s info, h => by
      simp only [Point.noCustom] at h
      have : firstAtH hk cands = firstAt cands := funext fun i => firstAtH_eq hk cands h i
      simp only [firstPH, firstP, this]
    | .float .., _ => rfl
    | .custom _, h => by simp [Point.noCustom] at h
  theorem firstElemsH_eq (hk : Hooks) : ∀ (s : List Point), noCustomSpace s = true →
      firstElemsH hk s = firstElems s
    | [], _ => rfl
    | p :: ps, h => by
      simp only [noCustomSpace, Bool.and_eq_true] at h
      simp only [firstElemsH, firstElems, firstPH_eq hk p h.1, firstElemsH_eq hk ps h.2]
  theorem firstAtH_eq (hk : Hooks) : ∀ (cs : List (List Point)), noCustomCands cs = true → ∀ i,
      firstAtH hk cs i = firstAt cs i
    | [], _, _ => rfl
    | c :: cs, h, 0 => by
      simp only [noCustomCands, Bool.and_eq_true] at h
      simp only [firstAtH, firstAt, firstElemsH_eq hk c h.1]
    | c :: cs, h, i + 1 => by
      simp only [noCustomCands, Bool.and_eq_true] at h
      simp only [firstAtH, firstAt]
      exact firstAtH_eq hk cs h.2 i
end

mutual
  theorem nextPH_eq (hk : Hooks) : ∀ (p : Point), p.noCustom = true → ∀ d, nextPH hk p d = nextP p d
    | .choices k cands distinct s info, h, d => by
      simp only [Point.noCustom] at h
      have h1 : firstAtH hk cands = firstAt cands := funext fun i => firstAtH_eq hk cands h i
      have h2 : nextAtH hk cands = nextAt cands := funext fun i => funext fun d => nextAtH_eq hk cands h i d
      simp only [nextPH, nextP, h1, h2]
    | .float .., _, _ => rfl
    | .custom _, h, _ => by simp [Point.noCustom] at h
  theorem nextElemsH_eq (hk : Hooks) : ∀ (s : List Point), noCustomSpace s = true → ∀ ds,
      nextElemsH hk s ds = nextElems s ds
    | [], _, _ => rfl
    | _ :: _, _, [] => rfl
    | p :: ps, h, d :: ds => by
      simp only [noCustomSpace, Bool.and_eq_true] at h
      simp only [nextElemsH, nextElems, nextElemsH_eq hk ps h.2 ds, nextPH_eq hk p h.1 d, firstPH_eq hk p h.1]
      rfl
  theorem nextAtH_eq (hk : Hooks) : ∀ (cs : List (List Point)), noCustomCands cs = true → ∀ i d,
      nextAtH hk cs i d = nextAt cs i d
    | [], _, _, _ => rfl
    | c :: cs, h, 0, d => by
      simp only [noCustomCands, Bool.and_eq_true] at h
      have : nextElemsH hk c = nextElems c := funext fun ds => nextElemsH_eq hk c h.1 ds
      simp only [nextAtH, nextAt, this]
    | c :: cs, h, i + 1, d => by
      simp only [noCustomCands, Bool.and_eq_true] at h
      simp only [nextAtH, nextAt]
      exact nextAtH_eq hk cs h.2 i d
end

theorem Spec.firstH_eq (hk : Hooks) (g : Spec) (h : g.noCustom = true) : g.firstH hk = g.first := by
  cases g with
  | point p => exact firstPH_eq hk p h
  | space s => simp only [Spec.firstH, Spec.first, firstS, firstElemsH_eq hk s h]

theorem Spec.nextH_eq (hk : Hooks) (g : Spec) (h : g.noCustom = true) (d : DNA) : g.nextH hk d = g.next d := by
  cases g with
  | point p => exact nextPH_eq hk p h d
  | space s =>
    have : nextElemsH hk s = nextElems s := funext fun ds => nextElemsH_eq hk s h ds
    simp only [Spec.nextH, Spec.next, nextS, this]

theorem iterFromH_eq (hk : Hooks) (g : Spec) (h : g.noCustom = true) : ∀ fuel d,
    iterFromH hk g fuel d = iterFrom g fuel d
  | 0, _ => rfl
  | fuel + 1, d => by
    simp only [iterFromH, iterFrom, Spec.nextH_eq hk g h d]
    cases g.next d with
    | none => rfl
    | some r =>
      cases r with
      | none => rfl
      | some d' => simp only [iterFromH_eq hk g h fuel d']

theorem Spec.iterH_eq (hk : Hooks) (g : Spec) (h : g.noCustom = true) (fuel : Nat) :
    g.iterH hk fuel = g.iter fuel := by
  cases fuel with
  | zero => rfl
  | succ n => simp only [Spec.iterH, Spec.iter, Spec.firstH_eq hk g h, iterFromH_eq hk g h]

/-! ### the hooks of the harness meet the contract -/

theorem listHooks_contract (tbl : Info → Option (List String)) (info : Info) (L : List String)
    (ht : tbl info = some L) (hne : L ≠ []) (hnd : L.Nodup) : HookContract (listHooks tbl) info L := by
  refine ⟨hne, hnd, by simp [listHooks, ht], ?_⟩
  intro s hs
  simp [listHooks, ht, hs]

/-! ### a custom point with a hook under contract iterates its list -/

theorem succStr_of_cons_nodup (a : String) (t : List String) (hnd : (a :: t).Nodup) :
    ∀ s ∈ t, succStr (a :: t) s = succStr t s := by
  intro s hs
  cases t with
  | nil => simp at hs
  | cons b t' =>
    have hne : (a == s) = false := by
      rw [List.nodup_cons] at hnd
      have : a ≠ s := fun e => hnd.1 (e ▸ hs)
      simp [this]
    simp [succStr, hne]

theorem succStr_last (x : String) : ∀ (pre : List String), (pre ++ [x]).Nodup → succStr (pre ++ [x]) x = none
  | [], _ => rfl
  | a :: t, hnd => by
    have hnd' : (a :: (t ++ [x])).Nodup := by simpa using hnd
    have := succStr_of_cons_nodup a (t ++ [x]) hnd' x (by simp)
    rw [List.cons_append, this]
    exact succStr_last x t (List.nodup_cons.mp hnd').2

theorem succStr_mid (x y : String) (suffix : List String) : ∀ (pre : List String),
    (pre ++ x :: y :: suffix).Nodup → succStr (pre ++ x :: y :: suffix) x = some y
  | [], _ => by simp [succStr]
  | a :: t, hnd => by
    have hnd' : (a :: (t ++ x :: y :: suffix)).Nodup := by simpa using hnd
    have := succStr_of_cons_nodup a (t ++ x :: y :: suffix) hnd' x (by simp)
    rw [List.cons_append, this]
    exact succStr_mid x y suffix t (List.nodup_cons.mp hnd').2

/-- Iterating from `leaf x` follows the list. -/
theorem iterFromH_custom (hk : Hooks) (info : Info) (L : List String)
    (hnext : ∀ s ∈ L, hk.next info (.mk (.str s) []) = some ((succStr L s).map fun t => .mk (.str t) [])) :
    ∀ (suffix : List String) (x : String) (pre : List String), L = pre ++ x :: suffix → L.Nodup →
      ∀ fuel, suffix.length < fuel →
      iterFromH hk (.point (.custom info)) fuel (.mk (.str x) []) =
        some (suffix.map fun t => .mk (.str t) [], true)
  | [], x, pre, hL, hnd, fuel, hf => by
    cases fuel with
    | zero => simp at hf
    | succ n =>
      have hx : x ∈ L := by rw [hL]; simp
      have hs : succStr L x = none := by
        rw [hL]; exact succStr_last x pre (hL ▸ hnd)
      simp [iterFromH, Spec.nextH, nextPH, hnext x hx, hs]
  | y :: suffix, x, pre, hL, hnd, fuel, hf => by
    cases fuel with
    | zero => simp at hf
    | succ n =>
      have hx : x ∈ L := by rw [hL]; simp
      have hs : succStr L x = some y := by
        rw [hL]; exact succStr_mid x y suffix pre (hL ▸ hnd)
      have ih := iterFromH_custom hk info L hnext suffix y (pre ++ [x]) (by rw [hL]; simp) hnd n
        (by simp only [List.length_cons] at hf; omega)
      simp [iterFromH, Spec.nextH, nextPH, hnext x hx, hs, ih]

/-- `list(custom_point.iter_dna())` is the list of the hook, and the iteration ends by itself. -/
theorem iterH_custom (hk : Hooks) (info : Info) (L : List String) (hc : HookContract hk info L)
    (fuel : Nat) (hf : L.length < fuel) :
    (Spec.point (.custom info)).iterH hk fuel = some (L.map fun t => .mk (.str t) [], true) := by
  obtain ⟨hne, hnd, hfirst, hnext⟩ := hc
  cases L with
  | nil => exact absurd rfl hne
  | cons x suffix =>
    cases fuel with
    | zero => simp at hf
    | succ n =>
      have hfx : (Spec.point (.custom info)).firstH hk = .mk (.str x) [] := by
        simp [Spec.firstH, firstPH, hfirst]
      have := iterFromH_custom hk info (x :: suffix) hnext suffix x [] rfl hnd n
        (by simp only [List.length_cons] at hf; omega)
      simp only [Spec.iterH, hfx, this, Option.map_some, List.map_cons]

end Pg.Geno
