/- The memory sequence store against its specification. -/
import PgModel.C05MemSeq
namespace Pg.C05

theorem msGet_msSet_same (r : List (Path × List Rec)) (p : Path) (rs : List Rec) :
    msGet (msSet r p rs) p = rs := by
  induction r with
  | nil => simp [msSet, msGet]
  | cons h t ih =>
    obtain ⟨q, qs⟩ := h
    by_cases e : q = p
    · simp [msSet, msGet, e]
    · simp [msSet, msGet, e, ih]

theorem msGet_msSet_other (r : List (Path × List Rec)) (p q : Path) (rs : List Rec) (h : p ≠ q) :
    msGet (msSet r p rs) q = msGet r q := by
  induction r with
  | nil => simp [msSet, msGet, h]
  | cons hd t ih =>
    obtain ⟨x, xs⟩ := hd
    by_cases e : x = p
    · subst e; simp [msSet, msGet, h]
    · by_cases e2 : x = q
      · subst e2; simp [msSet, msGet, e]
      · simp [msSet, msGet, e, e2, ih]

/-- SPEC: the records of `p` after a history — everything added since the last 'w', whatever
callers did with the results of reads. -/
def specRecs (p : Path) : List SOp → List Rec → List Rec
  | [], acc => acc
  | .add q .w recs :: ops, acc => specRecs p ops (if q = p then recs else acc)
  | .add q .a recs :: ops, acc => specRecs p ops (if q = p then acc ++ recs else acc)
  | _ :: ops, acc => specRecs p ops acc

theorem sRun_state (p : Path) : ∀ (ops : List SOp) (s : MemSeq),
    msGet (sRun s ops).1.root p = specRecs p ops (msGet s.root p) := by
  intro ops
  induction ops with
  | nil => intro s; rfl
  | cons op ops ih =>
    intro s
    cases op with
    | add q m recs =>
      cases m
      · simp only [sRun, sStep, specRecs]
        rw [ih]
        by_cases e : q = p
        · subst e; simp [msGet_msSet_same]
        · simp [e, msGet_msSet_other _ _ _ _ e]
      · simp only [sRun, sStep, specRecs]
        rw [ih]
        by_cases e : q = p
        · subst e; simp [msGet_msSet_same]
        · simp [e, msGet_msSet_other _ _ _ _ e]
    | read q => simp only [sRun, sStep, specRecs]; exact ih s
    | mutateResult a b => simp only [sRun, sStep, specRecs]; exact ih s

def notMutate : SOp → Bool
  | .mutateResult _ _ => false
  | _ => true

def isRead : SOut → Bool
  | .records _ => true
  | .unit => false

theorem sRun_erase_mutations : ∀ (ops : List SOp) (s : MemSeq),
    (sRun s ops).1 = (sRun s (ops.filter notMutate)).1 ∧
    (sRun s ops).2.filter isRead = (sRun s (ops.filter notMutate)).2.filter isRead := by
  intro ops
  induction ops with
  | nil => intro s; exact ⟨rfl, rfl⟩
  | cons op ops ih =>
    intro s
    cases op with
    | add q m recs =>
      cases m
      · obtain ⟨h1, h2⟩ := ih ⟨msSet s.root q recs⟩
        simp only [List.filter, notMutate, sRun, sStep, isRead]
        exact ⟨h1, h2⟩
      · obtain ⟨h1, h2⟩ := ih ⟨msSet s.root q (msGet s.root q ++ recs)⟩
        simp only [List.filter, notMutate, sRun, sStep, isRead]
        exact ⟨h1, h2⟩
    | read q =>
      obtain ⟨h1, h2⟩ := ih s
      simp only [List.filter, notMutate, sRun, sStep, isRead]
      exact ⟨h1, by rw [h2]⟩
    | mutateResult a b =>
      obtain ⟨h1, h2⟩ := ih s
      simp only [List.filter, notMutate, sRun, sStep, isRead]
      exact ⟨h1, h2⟩

end Pg.C05
