/- C14 — helper lemmas for the evolution-operator model. -/
import PgModel.Evo
namespace Pg.C14

/-! ## The monad -/

theorem bind_ok {α β : Type} (x : M α) (f : α → M β) (s : St) (b : β) (s' : St) :
    (x >>= f) s = .ok (b, s') ↔ ∃ a s1, x s = .ok (a, s1) ∧ f a s1 = .ok (b, s') := by
  show (StateT.bind x f) s = _ ↔ _
  unfold StateT.bind
  cases h : x s with
  | error e => simp [bind, Except.bind]
  | ok r =>
    obtain ⟨a, s1⟩ := r
    simp only [bind, Except.bind, Except.ok.injEq, Prod.mk.injEq]
    constructor
    · intro h; exact ⟨a, s1, ⟨rfl, rfl⟩, h⟩
    · rintro ⟨a', s1', ⟨rfl, rfl⟩, h⟩; exact h

theorem pure_ok {α : Type} (a b : α) (s s' : St) :
    (pure a : M α) s = .ok (b, s') ↔ a = b ∧ s = s' := by
  show (StateT.pure a) s = _ ↔ _
  unfold StateT.pure
  simp [pure, Except.pure]

theorem fail_ok {α : Type} (e : Err) (s : St) (r : α × St) : (fail e : M α) s = .ok r ↔ False := by
  simp [fail]

/-- The contract shape that is lifted through the algebra: an element-wise invariant `P` of
populations and an invariant `S` of the uid counter. -/
def Preserves (P : Ind → Prop) (S : Nat → Prop) (op : Op) : Prop :=
  ∀ pop st out st', (∀ x ∈ pop, P x) → S st.nextUid → op pop st = .ok (out, st') →
    (∀ y ∈ out, P y) ∧ S st'.nextUid

end Pg.C14

namespace Pg.C14

/-! ## Draws keep the uid counter -/

theorem popEv_uid {s : St} {e : Ev} {s' : St} (h : popEv s = .ok (e, s')) : s'.nextUid = s.nextUid := by
  unfold popEv at h
  split at h
  · cases h
  · simp only [Except.ok.injEq, Prod.mk.injEq] at h; rw [← h.2]

theorem nextRandom_uid {s : St} {q : Q} {s' : St} (h : nextRandom s = .ok (q, s')) :
    s'.nextUid = s.nextUid := by
  unfold nextRandom at h
  rw [bind_ok] at h
  obtain ⟨e, s1, h1, h2⟩ := h
  have := popEv_uid h1
  split at h2
  · split at h2
    · rw [pure_ok] at h2; rw [← h2.2, this]
    · exact absurd h2 (by simp [fail])
  · exact absurd h2 (by simp [fail])

/-! ## Loops -/

variable {P : Ind → Prop} {S : Nat → Prop}

theorem iterM_preserves {f : Pop → M Pop} (hf : Preserves P S f) : ∀ k, Preserves P S (iterM f k) := by
  intro k
  induction k with
  | zero =>
    intro pop st out st' hp hs h
    simp only [iterM] at h
    rw [pure_ok] at h
    obtain ⟨rfl, rfl⟩ := h
    exact ⟨hp, hs⟩
  | succ k ih =>
    intro pop st out st' hp hs h
    simp only [iterM] at h
    rw [bind_ok] at h
    obtain ⟨q, s1, h1, h2⟩ := h
    obtain ⟨hq, hs1⟩ := hf pop st q s1 hp hs h1
    exact ih q s1 out st' hq hs1 h2

theorem repeatM_preserves {f : Pop → M Pop} (hf : Preserves P S f) (pop : Pop) (hp : ∀ x ∈ pop, P x) :
    ∀ k st out st', S st.nextUid → repeatM f pop k st = .ok (out, st') →
      (∀ y ∈ out, P y) ∧ S st'.nextUid := by
  intro k
  induction k with
  | zero =>
    intro st out st' hs h
    simp only [repeatM] at h
    rw [pure_ok] at h
    obtain ⟨rfl, rfl⟩ := h
    exact ⟨by simp, hs⟩
  | succ k ih =>
    intro st out st' hs h
    simp only [repeatM] at h
    rw [bind_ok] at h
    obtain ⟨x, s1, h1, h2⟩ := h
    rw [bind_ok] at h2
    obtain ⟨rest, s2, h3, h4⟩ := h2
    rw [pure_ok] at h4
    obtain ⟨rfl, rfl⟩ := h4
    obtain ⟨hx, hs1⟩ := hf pop st x s1 hp hs h1
    obtain ⟨hr, hs2⟩ := ih s1 rest s2 hs1 h3
    refine ⟨?_, hs2⟩
    intro y hy
    rcases List.mem_append.mp hy with h | h
    · exact hx y h
    · exact hr y h

theorem untilM_preserves {f : Pop → M Pop} (hf : Preserves P S f) (pop : Pop) (hp : ∀ x ∈ pop, P x) :
    ∀ n st out st', S st.nextUid → untilM f pop n st = .ok (out, st') →
      (∀ y ∈ out, P y) ∧ S st'.nextUid := by
  intro n
  induction n with
  | zero =>
    intro st out st' hs h
    simp only [untilM] at h
    exact hf pop st out st' hp hs h
  | succ n ih =>
    intro st out st' hs h
    simp only [untilM] at h
    rw [bind_ok] at h
    obtain ⟨o, s1, h1, h2⟩ := h
    obtain ⟨ho, hs1⟩ := hf pop st o s1 hp hs h1
    split at h2
    · rw [pure_ok] at h2
      obtain ⟨rfl, rfl⟩ := h2
      exact ⟨ho, hs1⟩
    · exact ih s1 out st' hs1 h2

/-! ## Set-like combinators only select -/

theorem mem_dedupUid : ∀ (l acc : Pop) (z : Ind), z ∈ dedupUid l acc → z ∈ l ∨ z ∈ acc := by
  intro l
  induction l with
  | nil => intro acc z h; simp only [dedupUid, List.mem_reverse] at h; exact Or.inr h
  | cons x xs ih =>
    intro acc z h
    simp only [dedupUid] at h
    split at h
    · rcases ih acc z h with h | h
      · exact Or.inl (List.mem_cons_of_mem _ h)
      · exact Or.inr h
    · rcases ih (x :: acc) z h with h | h
      · exact Or.inl (List.mem_cons_of_mem _ h)
      · rcases List.mem_cons.mp h with h | h
        · exact Or.inl (by rw [h]; exact List.mem_cons_self)
        · exact Or.inr h

theorem mem_everyNth {α : Type} (step : Nat) : ∀ (l : List α) (n : Nat) (z : α), z ∈ everyNth step l n → z ∈ l := by
  intro l
  induction l with
  | nil => intro n z h; simp [everyNth] at h
  | cons a as ih =>
    intro n z h
    cases n with
    | zero =>
      simp only [everyNth] at h
      rcases List.mem_cons.mp h with h | h
      · rw [h]; exact List.mem_cons_self
      · exact List.mem_cons_of_mem _ (ih _ z h)
    | succ n =>
      simp only [everyNth] at h
      exact List.mem_cons_of_mem _ (ih _ z h)

theorem getOr_ok (x : Option Ind) (st : St) (out : Pop) (st' : St)
    (h : (match x with | some a => (pure [a] : M Pop) | none => fail .index) st = .ok (out, st')) :
    ∃ a, x = some a ∧ out = [a] ∧ st' = st := by
  cases x with
  | none => exact ((fail_ok _ _ _).mp h).elim
  | some a =>
    simp only [] at h
    rw [pure_ok] at h
    exact ⟨a, rfl, h.1.symm, h.2.symm⟩

theorem applySlice_sub (s : SliceSpec) (l : Pop) (st : St) (out : Pop) (st' : St)
    (h : applySlice s l st = .ok (out, st')) : (∀ y ∈ out, y ∈ l) ∧ st' = st := by
  cases s with
  | index i =>
    unfold applySlice at h
    simp only [] at h
    obtain ⟨a, ha, rfl, rfl⟩ := getOr_ok _ _ _ _ h
    refine ⟨?_, rfl⟩
    intro y hy
    simp only [List.mem_singleton] at hy
    rw [hy]
    rw [Option.bind_eq_some_iff] at ha
    obtain ⟨n, _, hn⟩ := ha
    exact List.mem_of_getElem? hn
  | range start stop step =>
    unfold applySlice at h
    simp only [] at h
    rw [pure_ok] at h
    obtain ⟨rfl, rfl⟩ := h
    refine ⟨?_, rfl⟩
    intro y hy
    have := mem_everyNth _ _ _ _ hy
    exact List.mem_of_mem_take (List.mem_of_mem_drop this)

/-! ## The algebra -/

mutual
  theorem eval_preserves : ∀ (e : OpExpr), (∀ op ∈ leaves e, Preserves P S op) → Preserves P S (eval e)
    | .leaf op, hl => by
        intro pop st out st' hp hs h
        simp only [eval] at h
        exact hl op (by simp [leaves]) pop st out st' hp hs h
    | .identity, _ => by
        intro pop st out st' hp hs h
        simp only [eval] at h
        rw [pure_ok] at h
        obtain ⟨rfl, rfl⟩ := h
        exact ⟨hp, hs⟩
    | .seq a b, hl => by
        intro pop st out st' hp hs h
        simp only [eval] at h
        rw [bind_ok] at h
        obtain ⟨q, s1, h1, h2⟩ := h
        have ha := eval_preserves a (fun op ho => hl op (by simp [leaves, ho]))
        have hb := eval_preserves b (fun op ho => hl op (by simp [leaves, ho]))
        obtain ⟨hq, hs1⟩ := ha pop st q s1 hp hs h1
        exact hb q s1 out st' hq hs1 h2
    | .concat a b, hl => by
        intro pop st out st' hp hs h
        simp only [eval] at h
        rw [bind_ok] at h
        obtain ⟨x, s1, h1, h2⟩ := h
        rw [bind_ok] at h2
        obtain ⟨y, s2, h3, h4⟩ := h2
        rw [pure_ok] at h4
        obtain ⟨rfl, rfl⟩ := h4
        have ha := eval_preserves a (fun op ho => hl op (by simp [leaves, ho]))
        have hb := eval_preserves b (fun op ho => hl op (by simp [leaves, ho]))
        obtain ⟨hx, hs1⟩ := ha pop st x s1 hp hs h1
        obtain ⟨hy, hs2⟩ := hb pop s1 y s2 hp hs1 h3
        refine ⟨?_, hs2⟩
        intro z hz
        rcases List.mem_append.mp hz with h | h
        · exact hx z h
        · exact hy z h
    | .union a b, hl => by
        intro pop st out st' hp hs h
        simp only [eval] at h
        rw [bind_ok] at h
        obtain ⟨x, s1, h1, h2⟩ := h
        rw [bind_ok] at h2
        obtain ⟨y, s2, h3, h4⟩ := h2
        rw [pure_ok] at h4
        obtain ⟨rfl, rfl⟩ := h4
        have ha := eval_preserves a (fun op ho => hl op (by simp [leaves, ho]))
        have hb := eval_preserves b (fun op ho => hl op (by simp [leaves, ho]))
        obtain ⟨hx, hs1⟩ := ha pop st x s1 hp hs h1
        obtain ⟨hy, hs2⟩ := hb pop s1 y s2 hp hs1 h3
        refine ⟨?_, hs2⟩
        intro z hz
        rcases mem_dedupUid _ _ _ hz with h | h
        · rcases List.mem_append.mp h with h | h
          · exact hx z h
          · exact hy z h
        · simp at h
    | .inter a b, hl => by
        intro pop st out st' hp hs h
        simp only [eval] at h
        rw [bind_ok] at h
        obtain ⟨y, s1, h1, h2⟩ := h
        rw [bind_ok] at h2
        obtain ⟨x, s2, h3, h4⟩ := h2
        rw [pure_ok] at h4
        obtain ⟨rfl, rfl⟩ := h4
        have ha := eval_preserves a (fun op ho => hl op (by simp [leaves, ho]))
        have hb := eval_preserves b (fun op ho => hl op (by simp [leaves, ho]))
        obtain ⟨_, hs1⟩ := hb pop st y s1 hp hs h1
        obtain ⟨hx, hs2⟩ := ha pop s1 x s2 hp hs1 h3
        exact ⟨fun z hz => hx z ((List.mem_filter.mp hz).1), hs2⟩
    | .diff a b, hl => by
        intro pop st out st' hp hs h
        simp only [eval] at h
        rw [bind_ok] at h
        obtain ⟨y, s1, h1, h2⟩ := h
        rw [bind_ok] at h2
        obtain ⟨x, s2, h3, h4⟩ := h2
        rw [pure_ok] at h4
        obtain ⟨rfl, rfl⟩ := h4
        have ha := eval_preserves a (fun op ho => hl op (by simp [leaves, ho]))
        have hb := eval_preserves b (fun op ho => hl op (by simp [leaves, ho]))
        obtain ⟨_, hs1⟩ := hb pop st y s1 hp hs h1
        obtain ⟨hx, hs2⟩ := ha pop s1 x s2 hp hs1 h3
        exact ⟨fun z hz => hx z ((List.mem_filter.mp hz).1), hs2⟩
    | .symdiff a b, hl => by
        intro pop st out st' hp hs h
        simp only [eval] at h
        rw [bind_ok] at h
        obtain ⟨x, s1, h1, h2⟩ := h
        rw [bind_ok] at h2
        obtain ⟨y, s2, h3, h4⟩ := h2
        rw [pure_ok] at h4
        obtain ⟨rfl, rfl⟩ := h4
        have ha := eval_preserves a (fun op ho => hl op (by simp [leaves, ho]))
        have hb := eval_preserves b (fun op ho => hl op (by simp [leaves, ho]))
        obtain ⟨hx, hs1⟩ := ha pop st x s1 hp hs h1
        obtain ⟨hy, hs2⟩ := hb pop s1 y s2 hp hs1 h3
        refine ⟨?_, hs2⟩
        intro z hz
        rcases List.mem_append.mp ((List.mem_filter.mp hz).1) with h | h
        · exact hx z h
        · exact hy z h
    | .inversion a, hl => by
        intro pop st out st' hp hs h
        simp only [eval] at h
        rw [bind_ok] at h
        obtain ⟨y, s1, h1, h2⟩ := h
        rw [pure_ok] at h2
        obtain ⟨rfl, rfl⟩ := h2
        have ha := eval_preserves a (fun op ho => hl op (by simp [leaves, ho]))
        obtain ⟨_, hs1⟩ := ha pop st y s1 hp hs h1
        exact ⟨fun z hz => hp z ((List.mem_filter.mp hz).1), hs1⟩
    | .slice a s, hl => by
        intro pop st out st' hp hs h
        simp only [eval] at h
        rw [bind_ok] at h
        obtain ⟨x, s1, h1, h2⟩ := h
        have ha := eval_preserves a (fun op ho => hl op (by simp [leaves, ho]))
        obtain ⟨hx, hs1⟩ := ha pop st x s1 hp hs h1
        obtain ⟨hsub, rfl⟩ := applySlice_sub s x s1 out st' h2
        exact ⟨fun z hz => hx z (hsub z hz), hs1⟩
    | .repeat_ a k, hl => by
        intro pop st out st' hp hs h
        simp only [eval] at h
        have ha := eval_preserves a (fun op ho => hl op (by simp [leaves, ho]))
        exact repeatM_preserves ha pop hp k st out st' hs h
    | .power a k, hl => by
        intro pop st out st' hp hs h
        simp only [eval] at h
        have ha := eval_preserves a (fun op ho => hl op (by simp [leaves, ho]))
        exact iterM_preserves ha k pop st out st' hp hs h
    | .choice ops probs limit, hl => by
        intro pop st out st' hp hs h
        simp only [eval] at h
        exact evalChoice_preserves ops probs limit 0 (fun op ho => hl op (by simp [leaves, ho])) pop st out st' hp hs h
    | .cond pred t f, hl => by
        intro pop st out st' hp hs h
        simp only [eval] at h
        have ht := eval_preserves t (fun op ho => hl op (by simp [leaves, ho]))
        have hf := eval_preserves f (fun op ho => hl op (by simp [leaves, ho]))
        split at h
        · exact ht pop st out st' hp hs h
        · exact hf pop st out st' hp hs h
    | .untilChange a n, hl => by
        intro pop st out st' hp hs h
        simp only [eval] at h
        have ha := eval_preserves a (fun op ho => hl op (by simp [leaves, ho]))
        exact untilM_preserves ha pop hp n st out st' hs h
  theorem evalChoice_preserves : ∀ (ops : List OpExpr) (probs : List Q) (limit : Option Nat) (done : Nat),
      (∀ op ∈ leavesAll ops, Preserves P S op) → Preserves P S (evalChoice ops probs limit done)
    | [], probs, limit, done, _ => by
        intro pop st out st' hp hs h
        simp only [evalChoice] at h
        rw [pure_ok] at h
        obtain ⟨rfl, rfl⟩ := h
        exact ⟨hp, hs⟩
    | op :: ops, [], limit, done, _ => by
        intro pop st out st' hp hs h
        simp only [evalChoice] at h
        rw [pure_ok] at h
        obtain ⟨rfl, rfl⟩ := h
        exact ⟨hp, hs⟩
    | op :: ops, pr :: probs, limit, done, hl => by
        intro pop st out st' hp hs h
        simp only [evalChoice] at h
        rw [bind_ok] at h
        obtain ⟨r, s1, h1, h2⟩ := h
        have hs1 : S s1.nextUid := by rw [nextRandom_uid h1]; exact hs
        have hop := eval_preserves op (fun o ho => hl o (by simp [leavesAll, ho]))
        split at h2
        · rw [bind_ok] at h2
          obtain ⟨q, s2, h3, h4⟩ := h2
          obtain ⟨hq, hs2⟩ := hop pop s1 q s2 hp hs1 h3
          split at h4
          · rw [pure_ok] at h4
            obtain ⟨rfl, rfl⟩ := h4
            exact ⟨hq, hs2⟩
          · exact evalChoice_preserves ops probs limit (done + 1)
              (fun o ho => hl o (by simp [leavesAll, ho])) q s2 out st' hq hs2 h4
        · exact evalChoice_preserves ops probs limit done
            (fun o ho => hl o (by simp [leavesAll, ho])) pop s1 out st' hp hs1 h2
end

end Pg.C14

namespace Pg.C14

/-! ## forEachM -/

inductive All2 {α β : Type} (R : α → β → Prop) : List α → List β → Prop where
  | nil : All2 R [] []
  | cons {a : α} {b : β} {as : List α} {bs : List β} : R a b → All2 R as bs → All2 R (a :: as) (b :: bs)

theorem forEachM_spec {α β : Type} (f : α → M β) (I : St → Prop) (R : α → β → Prop) :
    ∀ (l : List α), (∀ a ∈ l, ∀ s b s', I s → f a s = .ok (b, s') → R a b ∧ I s') →
    ∀ s bs s', I s → forEachM f l s = .ok (bs, s') → All2 R l bs ∧ I s' := by
  intro l
  induction l with
  | nil =>
    intro _ s bs s' hi h
    simp only [forEachM] at h
    rw [pure_ok] at h
    obtain ⟨rfl, rfl⟩ := h
    exact ⟨All2.nil, hi⟩
  | cons a as ih =>
    intro hf s bs s' hi h
    simp only [forEachM] at h
    rw [bind_ok] at h
    obtain ⟨b, s1, h1, h2⟩ := h
    rw [bind_ok] at h2
    obtain ⟨bs', s2, h3, h4⟩ := h2
    rw [pure_ok] at h4
    obtain ⟨rfl, rfl⟩ := h4
    obtain ⟨hr, hi1⟩ := hf a List.mem_cons_self s b s1 hi h1
    obtain ⟨hrs, hi2⟩ := ih (fun a' ha' => hf a' (List.mem_cons_of_mem _ ha')) s1 bs' s2 hi1 h3
    exact ⟨All2.cons hr hrs, hi2⟩

theorem forall₂_length {α β : Type} {R : α → β → Prop} {l : List α} {bs : List β}
    (h : All2 R l bs) : bs.length = l.length := by
  induction h with
  | nil => rfl
  | cons _ _ ih => simp [ih]

theorem forall₂_right {α β : Type} {R : α → β → Prop} {l : List α} {bs : List β}
    (h : All2 R l bs) : ∀ b ∈ bs, ∃ a ∈ l, R a b := by
  induction h with
  | nil => intro b hb; simp at hb
  | cons hr _ ih =>
    intro b hb
    rcases List.mem_cons.mp hb with rfl | hb
    · exact ⟨_, List.mem_cons_self, hr⟩
    · obtain ⟨a, ha, hab⟩ := ih b hb
      exact ⟨a, List.mem_cons_of_mem _ ha, hab⟩

/-! ## Selectors -/

theorem pickAll_spec (pop : Pop) (is : List Nat) (st : St) (out : Pop) (st' : St)
    (h : pickAll pop is st = .ok (out, st')) :
    (∀ y ∈ out, y ∈ pop) ∧ out.length = is.length ∧ st' = st := by
  unfold pickAll at h
  have := forEachM_spec (fun i => match pop[i]? with | some x => (pure x : M Ind) | none => fail .desync)
    (fun s => s = st) (fun _ y => y ∈ pop) is
    (by
      intro i _ s b s' hs hb
      cases hx : pop[i]? with
      | none => rw [hx] at hb; exact ((fail_ok _ _ _).mp hb).elim
      | some x =>
        rw [hx] at hb
        simp only [] at hb
        rw [pure_ok] at hb
        obtain ⟨rfl, rfl⟩ := hb
        exact ⟨List.mem_of_getElem? hx, hs⟩)
    st out st' rfl h
  obtain ⟨hf, rfl⟩ := this
  refine ⟨?_, forall₂_length hf, rfl⟩
  intro y hy
  obtain ⟨_, _, h⟩ := forall₂_right hf y hy
  exact h

theorem nextIdx_spec {k : RK} {n : Nat} {s : St} {i : Nat} {s' : St} (h : nextIdx k n s = .ok (i, s')) :
    i < n ∧ s'.nextUid = s.nextUid := by
  unfold nextIdx at h
  rw [bind_ok] at h
  obtain ⟨e, s1, h1, h2⟩ := h
  have hu := popEv_uid h1
  split at h2
  · split at h2
    · rename_i hc
      rw [pure_ok] at h2
      obtain ⟨rfl, rfl⟩ := h2
      exact ⟨hc.2.2, hu⟩
    · exact ((fail_ok _ _ _).mp h2).elim
  · exact ((fail_ok _ _ _).mp h2).elim

theorem nextSample_spec {n k : Nat} {s : St} {is : List Nat} {s' : St} (h : nextSample n k s = .ok (is, s')) :
    is.length = k ∧ allLt n is = true ∧ nodupNat is = true ∧ s'.nextUid = s.nextUid := by
  unfold nextSample at h
  rw [bind_ok] at h
  obtain ⟨e, s1, h1, h2⟩ := h
  have hu := popEv_uid h1
  split at h2
  · split at h2
    · rename_i hc
      rw [pure_ok] at h2
      obtain ⟨rfl, rfl⟩ := h2
      exact ⟨hc.2.2.2.1, hc.2.2.2.2.1, hc.2.2.2.2.2, hu⟩
    · exact ((fail_ok _ _ _).mp h2).elim
  · exact ((fail_ok _ _ _).mp h2).elim

theorem nextChoices_spec {n k : Nat} {s : St} {is : List Nat} {s' : St} (h : nextChoices n k s = .ok (is, s')) :
    is.length = k ∧ allLt n is = true ∧ s'.nextUid = s.nextUid := by
  unfold nextChoices at h
  rw [bind_ok] at h
  obtain ⟨e, s1, h1, h2⟩ := h
  have hu := popEv_uid h1
  split at h2
  · split at h2
    · rename_i hc
      rw [pure_ok] at h2
      obtain ⟨rfl, rfl⟩ := h2
      exact ⟨hc.2.2.2.1, hc.2.2.2.2, hu⟩
    · exact ((fail_ok _ _ _).mp h2).elim
  · exact ((fail_ok _ _ _).mp h2).elim

theorem nextShuffle_spec {n : Nat} {s : St} {is : List Nat} {s' : St} (h : nextShuffle n s = .ok (is, s')) :
    is.length = n ∧ allLt n is = true ∧ s'.nextUid = s.nextUid := by
  unfold nextShuffle at h
  rw [bind_ok] at h
  obtain ⟨e, s1, h1, h2⟩ := h
  have hu := popEv_uid h1
  split at h2
  · split at h2
    · rename_i hc
      rw [pure_ok] at h2
      obtain ⟨rfl, rfl⟩ := h2
      exact ⟨hc.2.2.1, hc.2.2.2.1, hu⟩
    · exact ((fail_ok _ _ _).mp h2).elim
  · exact ((fail_ok _ _ _).mp h2).elim

theorem nextUniform_spec {lo hi : Q} {s : St} {q : Q} {s' : St} (h : nextUniform lo hi s = .ok (q, s')) :
    qle lo q = true ∧ qle q hi = true ∧ s'.nextUid = s.nextUid := by
  unfold nextUniform at h
  rw [bind_ok] at h
  obtain ⟨e, s1, h1, h2⟩ := h
  have hu := popEv_uid h1
  split at h2
  · split at h2
    · rename_i hc
      rw [pure_ok] at h2
      obtain ⟨rfl, rfl⟩ := h2
      exact ⟨hc.2.1, hc.2.2, hu⟩
    · exact ((fail_ok _ _ _).mp h2).elim
  · exact ((fail_ok _ _ _).mp h2).elim

/-- `k` draws of one index each keep the uid counter and give `k` results. -/
theorem nextIdxs_spec (kd : RK) (n : Nat) (l : List Nat) (s : St) (is : List Nat) (s' : St)
    (h : forEachM (fun _ => nextIdx kd n) l s = .ok (is, s')) :
    is.length = l.length ∧ (∀ i ∈ is, i < n) ∧ s'.nextUid = s.nextUid := by
  have := forEachM_spec (fun _ => nextIdx kd n) (fun t => t.nextUid = s.nextUid) (fun _ i => i < n) l
    (by
      intro a _ t b t' ht hb
      obtain ⟨h1, h2⟩ := nextIdx_spec hb
      exact ⟨h1, by rw [h2, ht]⟩)
    s is s' rfl h
  obtain ⟨hf, hu⟩ := this
  refine ⟨forall₂_length hf, ?_, hu⟩
  intro i hi
  obtain ⟨_, _, h⟩ := forall₂_right hf i hi
  exact h

end Pg.C14
