/- C14 — alignment (every subchoice entry is bound to the decision point of its position) is kept
   by the mutators. -/
import PgProofs.EvoMut
namespace Pg.C14

def entryAligned (p : Nat) : DNA → Bool
  | .sub b _ d => decide (b = p) && aligned d
  | d => aligned d

theorem alignedFrom_cons (k : Nat) (x : DNA) (rest : List DNA) :
    alignedFrom k (x :: rest) = (entryAligned k x && alignedFrom (k + 1) rest) := by
  cases x <;> simp [alignedFrom, entryAligned]

theorem alignedFrom_iff : ∀ (l : List DNA) (k : Nat),
    alignedFrom k l = true ↔ ∀ i (h : i < l.length), entryAligned (k + i) l[i] = true := by
  intro l
  induction l with
  | nil => intro k; simp [alignedFrom]
  | cons x rest ih =>
    intro k
    rw [alignedFrom_cons, Bool.and_eq_true, ih (k + 1)]
    constructor
    · rintro ⟨h0, hr⟩ i hi
      cases i with
      | zero => simpa using h0
      | succ i =>
        have := hr i (by simpa using hi)
        simpa [Nat.add_assoc, Nat.add_comm 1 i] using this
    · intro h
      refine ⟨by have := h 0 (by simp); simpa only [List.getElem_cons_zero, Nat.add_zero] using this, ?_⟩
      intro i hi
      have := h (i + 1) (by simpa using hi)
      simpa [Nat.add_assoc, Nat.add_comm 1 i] using this

theorem alignedFrom_set {l : List DNA} {k : Nat} (h : alignedFrom k l = true) (i : Nat) (e : DNA)
    (he : entryAligned (k + i) e = true) : alignedFrom k (l.set i e) = true := by
  rw [alignedFrom_iff] at h ⊢
  intro i' hi'
  rw [List.getElem_set]
  split
  · rename_i heq; rw [← heq]; exact he
  · exact h i' (by simpa using hi')

theorem entryAligned_rebindEntry (p : Nat) (d : DNA) : entryAligned p (rebindEntry p d) = true := by
  cases d with
  | sub b v d => simp [rebindEntry, entryAligned, aligned_rebind]
  | space ds =>
    have := aligned_rebind (.space ds)
    simp only [rebind] at this
    simpa only [rebindEntry, rebind, entryAligned] using this
  | choices ss =>
    have := aligned_rebind (.choices ss)
    simp only [rebind] at this
    simpa only [rebindEntry, rebind, entryAligned] using this
  | float v => simp [rebindEntry, entryAligned, rebind, aligned]

theorem swapList_aligned (l : List DNA) (i j : Nat) (h : alignedFrom 0 l = true) :
    alignedFrom 0 (swapList l i j) = true := by
  unfold swapList
  cases hi : l[i]? with
  | none => simpa using h
  | some a =>
    cases hj : l[j]? with
    | none => simpa using h
    | some b =>
      simp only []
      apply alignedFrom_set
      · apply alignedFrom_set h
        simpa using entryAligned_rebindEntry i b
      · simpa using entryAligned_rebindEntry j a

mutual
  theorem swapAt_aligned (w : Where) : ∀ (d : DNA) (g : GSpec) (coll : Bool) (c i j : Nat),
      aligned d = true → aligned (swapAt w g coll d c i j) = true
    | .space ds, g, coll, c, i, j, ha => by
        cases g with
        | space es =>
          simp only [swapAt, aligned] at ha ⊢
          exact swapAtElems_aligned w ds es _ c i j ha
        | choices k cands dist srt => simpa [swapAt] using ha
        | float lo hi => simpa [swapAt] using ha
    | .choices subs, g, coll, c, i, j, ha => by
        cases g with
        | space es => simpa [swapAt] using ha
        | float lo hi => simpa [swapAt] using ha
        | choices k cands dist srt =>
          simp only [swapAt]
          simp only [aligned] at ha
          split
          · cases srt with
            | true => simpa [aligned] using ha
            | false =>
              simp only [Bool.false_eq_true, if_false, aligned]
              exact swapList_aligned subs i j ha
          · simp only [aligned]
            exact swapAtSubs_aligned w subs cands _ i j 0 ha
    | .float v, g, coll, c, i, j, ha => by
        cases g <;> simpa [swapAt] using ha
    | .sub b v d, g, coll, c, i, j, ha => by
        cases g <;> simpa [swapAt] using ha
  theorem swapAtElems_aligned (w : Where) : ∀ (ds : List DNA) (es : List GSpec) (cl : Bool) (c i j : Nat),
      alignedAll ds = true → alignedAll (swapAtElems w es cl ds c i j) = true
    | [], es, cl, c, i, j, ha => by
        cases es <;> simpa [swapAtElems] using ha
    | d :: ds, es, cl, c, i, j, ha => by
        cases es with
        | nil => simpa [swapAtElems] using ha
        | cons e es =>
          simp only [alignedAll, Bool.and_eq_true] at ha
          simp only [swapAtElems]
          split
          · simp only [alignedAll, Bool.and_eq_true]
            exact ⟨swapAt_aligned w d e cl c i j ha.1, ha.2⟩
          · simp only [alignedAll, Bool.and_eq_true]
            exact ⟨ha.1, swapAtElems_aligned w ds es cl _ i j ha.2⟩
  theorem swapAtSubs_aligned (w : Where) : ∀ (subs : List DNA) (cands : List GSpec) (c i j k : Nat),
      alignedFrom k subs = true → alignedFrom k (swapAtSubs w cands subs c i j) = true
    | [], cands, c, i, j, k, ha => by simpa [swapAtSubs] using ha
    | .space x :: rest, cands, c, i, j, k, ha => by simpa [swapAtSubs] using ha
    | .choices x :: rest, cands, c, i, j, k, ha => by simpa [swapAtSubs] using ha
    | .float x :: rest, cands, c, i, j, k, ha => by simpa [swapAtSubs] using ha
    | .sub b v d :: rest, cands, c, i, j, k, ha => by
        simp only [alignedFrom, Bool.and_eq_true, decide_eq_true_eq] at ha
        simp only [swapAtSubs]
        cases hc : cands[v]? with
        | none => simp only [alignedFrom, Bool.and_eq_true, decide_eq_true_eq]; exact ha
        | some cs =>
          simp only []
          split
          · simp only [alignedFrom, Bool.and_eq_true, decide_eq_true_eq]
            exact ⟨⟨ha.1.1, swapAt_aligned w d cs true c i j ha.1.2⟩, ha.2⟩
          · simp only [alignedFrom, Bool.and_eq_true, decide_eq_true_eq]
            exact ⟨ha.1, swapAtSubs_aligned w rest cands _ i j (k + 1) ha.2⟩
end

theorem mutSwapOne_aligned (w : Where) (g : GSpec) (d : DNA) (s : St) (d' : DNA) (s' : St)
    (ha : aligned d = true) (h : mutSwapOne w g d s = .ok (d', s')) : aligned d' = true := by
  simp only [mutSwapOne] at h
  rw [bind_ok] at h
  obtain ⟨perm, s1, h1, h2⟩ := h
  generalize findFirstUnsorted (swapCands w g false d) perm = r at h2
  cases r with
  | none =>
    simp only [] at h2
    rw [pure_ok] at h2
    obtain ⟨rfl, rfl⟩ := h2
    exact ha
  | some cn =>
    obtain ⟨c, n⟩ := cn
    simp only [] at h2
    rw [bind_ok] at h2
    obtain ⟨ij, s2, h3, h4⟩ := h2
    rcases ij with _ | ⟨i, _ | ⟨j, _ | ⟨k, t⟩⟩⟩
    · exact ((fail_ok _ _ _).mp h4).elim
    · exact ((fail_ok _ _ _).mp h4).elim
    · simp only [] at h4
      rw [pure_ok] at h4
      obtain ⟨rfl, rfl⟩ := h4
      exact swapAt_aligned w d g false _ _ _ ha
    · exact ((fail_ok _ _ _).mp h4).elim

theorem mutSwapW_aligned (w : Where) (g : GSpec) (pop : Pop) (st : St) (out : Pop) (st' : St)
    (hp : ∀ x ∈ pop, valid g x.dna = true ∧ aligned x.dna = true) (h : mutSwapW w g pop st = .ok (out, st')) :
    ∀ y ∈ out, valid g y.dna = true ∧ aligned y.dna = true := by
  simp only [mutSwapW] at h
  obtain ⟨_, hall⟩ := mapChild_spec (mutSwapOne w g) (fun _ d' => valid g d' = true ∧ aligned d' = true) pop
    (fun x hx s d' s' hd => by
      obtain ⟨hv, hu⟩ := mutSwapOne_spec w g x.dna s d' s' (hp x hx).1 hd
      exact ⟨⟨hv, mutSwapOne_aligned w g x.dna s d' s' (hp x hx).2 hd⟩, hu⟩) st out st' h
  intro y hy
  obtain ⟨x, _, hr⟩ := all2_out hall y hy
  exact hr.1

theorem mutSwap_aligned (g : GSpec) (pop : Pop) (st : St) (out : Pop) (st' : St)
    (hp : ∀ x ∈ pop, valid g x.dna = true ∧ aligned x.dna = true) (h : mutSwap g pop st = .ok (out, st')) :
    ∀ y ∈ out, valid g y.dna = true ∧ aligned y.dna = true :=
  mutSwapW_aligned _ g pop st out st' hp h

end Pg.C14
