/-
  `allow_partial` of a clone at every node: exact characterisation (C07, F120).
-/
import PgProofs.SymFree
namespace Pg.Sym

mutual
  theorem partEq_congr : (s s' t : Tree) → s.partEq s' = true → t.partEq s = t.partEq s'
    | .leaf _, .leaf _, t, _ => by cases t <;> rfl
    | .leaf _, .node _ _, _, h => by simp [Tree.partEq] at h
    | .node _ _, .leaf _, _, h => by simp [Tree.partEq] at h
    | .node m its, .node m' its', t, h => by
      simp only [Tree.partEq, Bool.and_eq_true, beq_iff_eq] at h
      cases t with
      | leaf a => rfl
      | node mt itst =>
        simp only [Tree.partEq]
        rw [h.1, partEqItems_congr its its' itst h.2]
  theorem partEqItems_congr : (xs xs' ts : Items) → partEqItems xs xs' = true → partEqItems ts xs = partEqItems ts xs'
    | [], [], ts, _ => rfl
    | [], _ :: _, _, h => by simp [partEqItems] at h
    | (_, _) :: _, [], _, h => by simp [partEqItems] at h
    | (k, c) :: r, (k', c') :: r', ts, h => by
      simp only [partEqItems, Bool.and_eq_true] at h
      cases ts with
      | nil => rfl
      | cons x ts =>
        obtain ⟨kx, cx⟩ := x
        simp only [partEqItems]
        rw [partEq_congr c c' cx h.1, partEqItems_congr r r' ts h.2]
end

mutual
  theorem partEq_refl : (s : Tree) → s.partEq s = true
    | .leaf _ => rfl
    | .node m its => by simp only [Tree.partEq, beq_self_eq_true, Bool.true_and]; exact partEqItems_refl its
  theorem partEqItems_refl : (its : Items) → partEqItems its its = true
    | [] => rfl
    | (k, c) :: r => by simp only [partEqItems, partEq_refl c, partEqItems_refl r, Bool.and_self]
end

mutual
  theorem partEq_setPath_self (q : List Key) : (s : Tree) → s.partEq (s.setPath q) = true
    | .leaf _ => rfl
    | .node m its => by
      unfold Tree.setPath
      split
      · exact partEq_refl _
      · simp only [Tree.partEq, beq_self_eq_true, Bool.true_and]; exact partEqItems_setPath_self q its
  theorem partEqItems_setPath_self (q : List Key) : (its : Items) → partEqItems its (setPathItems q its) = true
    | [] => rfl
    | (k, c) :: r => by
      simp only [setPathItems, partEqItems, partEq_setPath_self (q ++ [k]) c, partEqItems_setPath_self q r, Bool.and_self]
end

mutual
  theorem partEq_seal_self (b : Bool) : (s : Tree) → s.partEq (s.seal b) = true
    | .leaf _ => rfl
    | .node m its => by
      simp only [Tree.seal, Tree.partEq, beq_self_eq_true, Bool.true_and]; exact partEqItems_seal_self b its
  theorem partEqItems_seal_self (b : Bool) : (its : Items) → partEqItems its (sealItems b its) = true
    | [] => rfl
    | (k, c) :: r => by
      simp only [sealItems, partEqItems, partEq_seal_self b c, partEqItems_seal_self b r, Bool.and_self]
end

theorem partEq_sealIf_self (b : Bool) (s : Tree) : s.partEq (sealIf b s) = true := by
  unfold sealIf; split
  · exact partEq_seal_self true s
  · exact partEq_refl s

theorem partEqItems_renumber_self : (n : Nat) → (its : Items) → partEqItems its (renumberFrom n its) = true
  | _, [] => rfl
  | n, (k, c) :: r => by
    simp only [renumberFrom, partEqItems, partEq_refl c, partEqItems_renumber_self (n + 1) r, Bool.and_self]

theorem partEqItems_trans {a b c : Items} (h1 : partEqItems a b = true) (h2 : partEqItems b c = true) :
    partEqItems a c = true := by
  rw [← partEqItems_congr b c a h2]; exact h1

/-- what the holder's constructor does to a stored child. -/
def adoptOpt : Option Bool → Tree → Tree
  | none, t => t
  | some b, t => adoptPartial true b t

def adoptOptItems (a : Option Bool) (its : Items) : Items := its.map (fun kv => (kv.1, adoptOpt a kv.2))

theorem adoptOptItems_none (its : Items) : adoptOptItems none its = its := by
  unfold adoptOptItems adoptOpt
  induction its with
  | nil => rfl
  | cons x xs ih => obtain ⟨k, c⟩ := x; simp only [List.map_cons] at ih ⊢; rw [ih]

/-- `adoptOpt` commutes with everything that leaves `allow_partial` alone. -/
theorem adoptOpt_congr (a : Option Bool) : (s s' : Tree) → s.partEq s' = true →
    (∀ m its m' its', s = .node m its → s' = .node m' its' → m.typed = m'.typed) →
    (adoptOpt a s).partEq (adoptOpt a s') = true := by
  intro s s' h ht
  cases a with
  | none => exact h
  | some b =>
    cases s with
    | leaf x => cases s' with
      | leaf y => rfl
      | node _ _ => simp [Tree.partEq] at h
    | node m its => cases s' with
      | leaf y => simp [Tree.partEq] at h
      | node m' its' =>
        have hty := ht m its m' its' rfl rfl
        simp only [Tree.partEq, Bool.and_eq_true, beq_iff_eq] at h
        simp only [adoptOpt, adoptPartial, Bool.true_and, ← hty]
        split <;> simp [Tree.partEq, h.1, h.2]

mutual
  /-- **`allow_partial` of a clone, exactly.** -/
  theorem clone_partEq (cfg : Cfg) (deep : Bool) (next : Nat) (par : Option Nat) (p : List Key) :
      (t : Tree) → t.noMissing = true → ∀ adopt,
        t.partEq (adoptOpt adopt (t.clone cfg deep next par p).1) = t.partFaithful cfg adopt
    | .leaf a, _, adopt => by
      cases adopt <;> cases a <;> cases deep <;> simp [Tree.clone, Tree.partEq, Tree.partFaithful, adoptOpt, adoptPartial]
    | .node m its, hm, adopt => by
      simp only [Tree.noMissing] at hm
      unfold Tree.clone
      simp only
      have ih := cloneItems_partEq cfg deep (next + 1) next p its hm
      -- whatever the per-kind rewrite of the copied items: only its `allow_partial` content matters
      have key : ∀ (m0 : Meta) (its' : Items) (a' : Option Bool), m0.part = m.part → m0.typed = m.typed →
          partEqItems (adoptOptItems a' (cloneItems cfg deep (next + 1) next p its).1) its' = true →
          (Tree.node m its).partEq (adoptOpt adopt (sealIf (cloneSealed cfg m) (Tree.node m0 its'))) =
          ((match adopt with
            | some b => !m.typed || m.part == b
            | none => true) && partFaithfulItems cfg a' its) := by
        intro m0 its' a' hp0 ht0 he
        have h1 : (Tree.node m0 its').partEq (sealIf (cloneSealed cfg m) (Tree.node m0 its')) = true :=
          partEq_sealIf_self _ _
        have hty : ∀ ma itsa mb itsb, Tree.node m0 its' = .node ma itsa →
            sealIf (cloneSealed cfg m) (Tree.node m0 its') = .node mb itsb → ma.typed = mb.typed := by
          intro ma itsa mb itsb e1 e2
          cases e1
          unfold sealIf at e2
          split at e2
          · simp only [Tree.seal, Tree.node.injEq] at e2; rw [← e2.1]
          · cases e2; rfl
        rw [← partEq_congr _ _ _ (adoptOpt_congr adopt _ _ h1 hty)]
        have h2 : (Tree.node m0 (adoptOptItems a' (cloneItems cfg deep (next + 1) next p its).1)).partEq
            (Tree.node m0 its') = true := by
          simp only [Tree.partEq, beq_self_eq_true, Bool.true_and]; exact he
        rw [← partEq_congr _ _ _ (adoptOpt_congr adopt _ _ h2 (by
          intro ma itsa mb itsb e1 e2; cases e1; cases e2; rfl))]
        rw [← ih a']
        cases adopt with
        | none => simp only [adoptOpt, Tree.partEq, hp0, beq_self_eq_true, Bool.true_and]
        | some b =>
          simp only [adoptOpt, adoptPartial, Bool.true_and, ht0]
          cases hty' : m.typed with
          | true => simp [Tree.partEq]
          | false => simp [Tree.partEq, hp0]
      cases hk : m.kind with
      | list =>
        simp only [Tree.partFaithful, hk]
        refine key _ _ none rfl rfl ?_
        rw [adoptOptItems_none]
        rw [filter_id_of_all _ _ (by
          intro kv hkv
          have := cloneItems_noMissing cfg deep next p its (next + 1) hm kv hkv
          simp [this])]
        exact partEqItems_trans (partEqItems_renumber_self 0 _) (partEqItems_setPath_self p _)
      | dict =>
        simp only [Tree.partFaithful, hk]
        refine key _ _ none rfl rfl ?_
        rw [adoptOptItems_none]; exact partEqItems_refl _
      | obj c =>
        simp only [Tree.partFaithful, hk]
        refine key _ _ (some (cfg.scopePartial.getD m.part)) rfl rfl ?_
        exact partEqItems_refl _
  theorem cloneItems_partEq (cfg : Cfg) (deep : Bool) (next : Nat) (h : Nat) (p : List Key) :
      (its : Items) → noMissingItems its = true → ∀ adopt,
        partEqItems its (adoptOptItems adopt (cloneItems cfg deep next h p its).1) = partFaithfulItems cfg adopt its
    | [], _, adopt => by simp [cloneItems, adoptOptItems, partEqItems, partFaithfulItems]
    | (k, c) :: r, hm, adopt => by
      simp only [noMissingItems, Bool.and_eq_true] at hm
      unfold cloneItems
      simp only [adoptOptItems, List.map_cons, partEqItems, partFaithfulItems]
      rw [clone_partEq cfg deep next (some h) (p ++ [k]) c hm.1.2 adopt]
      have := cloneItems_partEq cfg deep (c.clone cfg deep next (some h) (p ++ [k])).2 h p r hm.2 adopt
      unfold adoptOptItems at this
      rw [this]
end

end Pg.Sym
