/- C14 — cluster selectors `Top(n, cluster=True)` / `Bottom(n, cluster=True)`: whole key classes, exactly the n best distinct keys. -/
import PgModel.Evo
import PgProofs.Evo
import Mathlib.Data.List.Perm.Subperm
import Mathlib.Data.List.Nodup
namespace Pg.C14

theorem mem_dedupInt : ∀ (l : List Int) (a : Int), a ∈ dedupInt l ↔ a ∈ l := by
  intro l
  induction l with
  | nil => intro a; simp [dedupInt]
  | cons b t ih =>
    intro a
    simp only [dedupInt, List.mem_cons, List.mem_filter, ih]
    by_cases h : a = b
    · simp [h]
    · simp [h]

theorem nodup_dedupInt : ∀ (l : List Int), (dedupInt l).Nodup := by
  intro l
  induction l with
  | nil => simp [dedupInt]
  | cons b t ih =>
    simp only [dedupInt, List.nodup_cons, List.mem_filter]
    refine ⟨by simp, ih.filter _⟩

/-- the `n` best distinct keys: distinct, keys of members, exactly `min n #clusters` of them. -/
theorem bestKeys_spec (desc : Bool) (n : Nat) (pop : Pop) :
    (bestKeys desc n pop).Nodup ∧
    (∀ k ∈ bestKeys desc n pop, ∃ x ∈ pop, fitKey x = k) ∧
    (bestKeys desc n pop).length = min n (dedupInt (pop.map fitKey)).length := by
  unfold bestKeys
  have hperm := List.mergeSort_perm (dedupInt (pop.map fitKey))
    (fun a b => if desc then decide (a ≥ b) else decide (a ≤ b))
  refine ⟨?_, ?_, ?_⟩
  · exact (hperm.nodup_iff.mpr (nodup_dedupInt _)).sublist (List.take_sublist _ _)
  · intro k hk
    have := hperm.mem_iff.mp (List.mem_of_mem_take hk)
    rw [mem_dedupInt] at this
    obtain ⟨x, hx, hxe⟩ := List.mem_map.mp this
    exact ⟨x, hx, hxe⟩
  · rw [List.length_take, hperm.length_eq]

/-- the cluster selectors: nothing is created, members only; whole key classes are taken (a member
with the key of a returned one is returned too); every one of the `min n #classes` best distinct keys
is represented — so exactly that many clusters come back. -/
theorem selCluster_spec (desc : Bool) (n : NSpec) (pop : Pop) (st : St) (out : Pop) (st' : St)
    (h : (if desc then selTopCluster n else selBottomCluster n) pop st = .ok (out, st')) :
    st' = st ∧ (∀ y ∈ out, y ∈ pop) ∧
    (∀ y ∈ out, ∀ x ∈ pop, fitKey x = fitKey y → x ∈ out) ∧
    (∀ y ∈ out, fitKey y ∈ bestKeys desc (numOutput n pop.length) pop) ∧
    (∀ k ∈ bestKeys desc (numOutput n pop.length) pop, ∃ y ∈ out, fitKey y = k) := by
  have key : ∀ (le : Ind → Ind → Bool),
      (if pop.any (fun x => x.fit.isNone) then (fail .key : M Pop)
       else pure ((pop.filter (fun x => (bestKeys desc (numOutput n pop.length) pop).contains (fitKey x))).mergeSort le))
        st = .ok (out, st') →
      st' = st ∧ (∀ y ∈ out, y ∈ pop) ∧
      (∀ y ∈ out, ∀ x ∈ pop, fitKey x = fitKey y → x ∈ out) ∧
      (∀ y ∈ out, fitKey y ∈ bestKeys desc (numOutput n pop.length) pop) ∧
      (∀ k ∈ bestKeys desc (numOutput n pop.length) pop, ∃ y ∈ out, fitKey y = k) := by
    intro le h
    split at h
    · exact ((fail_ok _ _ _).mp h).elim
    · rw [pure_ok] at h
      obtain ⟨rfl, rfl⟩ := h
      have hm : ∀ y, y ∈ (pop.filter (fun x => (bestKeys desc (numOutput n pop.length) pop).contains (fitKey x))).mergeSort le ↔
          y ∈ pop ∧ fitKey y ∈ bestKeys desc (numOutput n pop.length) pop := by
        intro y
        rw [(List.mergeSort_perm _ _).mem_iff, List.mem_filter]
        simp
      refine ⟨rfl, fun y hy => ((hm y).mp hy).1, ?_, fun y hy => ((hm y).mp hy).2, ?_⟩
      · intro y hy x hx hxy
        exact (hm x).mpr ⟨hx, hxy ▸ ((hm y).mp hy).2⟩
      · intro k hk
        obtain ⟨x, hx, hxe⟩ := (bestKeys_spec desc _ pop).2.1 k hk
        exact ⟨x, (hm x).mpr ⟨hx, hxe ▸ hk⟩, hxe⟩
  cases desc with
  | true => exact key _ h
  | false => exact key _ h

end Pg.C14
