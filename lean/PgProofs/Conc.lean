/- C16 — the global invariant and its preservation by every action of `exec` (all regions atomic). -/
import PgProofs.ConcStudy
namespace Pg.C16

/-- Program counters that occur when every region is atomic. -/
def okPc : PC → Bool
  | .start | .preSetup | .loop | .next | .hold _ | .finished | .exhausted | .crashed => true
  | _ => false

/-- The worker is past the set-up of the shared algorithm. -/
def pastSetup : PC → Bool
  | .loop | .next | .hold _ | .finished | .exhausted | .crashed => true
  | _ => false

/-- What the workers' program counters say about the study. -/
structure WorkersInv (maxT : Option Nat) (n : Nat) (workers : Nat → Worker) (st : Study) : Prop where
  holdOk : ∀ i t, (workers i).pc = .hold t → ∃ tr ∈ st.trials, tr.id = t ∧ tr.group = (workers i).group
  finOk : ∀ i, (workers i).pc = .finished → st.active = true →
    (∃ m, maxT = some m ∧ st.trials.length = m) ∧
    ∀ k, st.latest (workers i).group = some k → st.isPending k = false
  exhOk : ∀ i, (workers i).pc = .exhausted → st.active = true →
    ∀ k, st.latest (workers i).group = some k → st.isPending k = false
  groupOk : ∀ t ∈ st.trials, ∃ i, i < n ∧ (workers i).group = t.group

/-- The global invariant. -/
structure Inv (s : State) : Prop where
  wstudy : ∀ i, (s.workers i).study = 0
  pcOk : ∀ i, okPc (s.workers i).pc = true
  shape : (s.studies = [] ∧ s.registry = none) ∨ (∃ st, s.studies = [st] ∧ s.registry = some 0)
  noStudy : s.studies = [] → (∀ i, (s.workers i).pc = .start) ∧ s.algo.isSetup = false
  setupFirst : ∀ i, pastSetup (s.workers i).pc = true → s.algo.isSetup = true
  fresh : s.algo.isSetup = false →
    s.algo.fedBack = [] ∧ s.algo.numProposals = 0 ∧ s.algo.numFeedbacks = 0 ∧ ∀ st ∈ s.studies, st.trials = []
  study : ∀ st ∈ s.studies, StudyInv s.maxTrials st s.algo ∧ WorkersInv s.maxTrials s.nWorkers s.workers st
  /-- A worker whose loop ended by exhaustion of the proposer: the proposer stays exhausted. -/
  exhAlgo : ∀ i, (s.workers i).pc = .exhausted → s.algo.spaceExhausted = true

theorem inv_init (n : Nat) (groups : Nat → Nat) (maxT : Option Nat) (space : Option Nat := none) :
    Inv (init n groups maxT space) := by
  constructor
  · intro i; rfl
  · intro i; rfl
  · left; exact ⟨rfl, rfl⟩
  · intro _; exact ⟨fun _ => rfl, rfl⟩
  · intro i h; cases h
  · intro _; exact ⟨rfl, rfl, rfl, fun st h => by cases h⟩
  · intro st h; cases h
  · intro i h; cases h

theorem studyInv_new (maxT : Option Nat) (a : Algo) (h1 : a.fedBack = []) (h2 : a.numProposals = 0)
    (h3 : a.numFeedbacks = 0) : StudyInv maxT Study.new a := by
  constructor <;> simp [Study.new, h1, h2, h3]

theorem StudyInv.setup {m st a} (h : StudyInv m st a) (h1 : a.fedBack = []) (h2 : st.trials = []) :
    StudyInv m st a.setup := by
  constructor
  · exact h.ids
  · exact h.bound
  · exact h.cPending
  · exact h.cCompleted
  · exact h.cInfeasible
  · exact h.infCompleted
  · exact h.finalSome
  · exact h.latestSome
  · exact h.pendingLatest
  · intro k; simp [Algo.setup, h1, h2]
  · simp [Algo.setup, h1]
  · simp [Algo.setup, h2]
  · exact h.bestOk
  · exact h.bestNone
  · intro sp _; simp [Algo.setup]

theorem StudyInv.setActive {m st a} (h : StudyInv m st a) {b : Bool} :
    StudyInv m { st with active := b } a :=
  ⟨h.ids, h.bound, h.cPending, h.cCompleted, h.cInfeasible, h.infCompleted, h.finalSome, h.latestSome,
   h.pendingLatest, h.fed, h.nFeedbacks, h.nProposals, h.bestOk, h.bestNone, h.spaceBound⟩

/-! ### Rebuilding `Inv` after a change of one worker / of the study -/

theorem Inv.updWorker {s : State} (h : Inv s) (w : Nat) (pc' : PC)
    (h1 : okPc pc' = true) (h2 : pastSetup pc' = true → s.algo.isSetup = true)
    (h3 : s.studies = [] → pc' = .start)
    (h4 : ∀ st ∈ s.studies,
      (∀ t, pc' = .hold t → ∃ tr ∈ st.trials, tr.id = t ∧ tr.group = (s.workers w).group) ∧
      (pc' = .finished → st.active = true →
        (∃ m, s.maxTrials = some m ∧ st.trials.length = m) ∧
        ∀ k, st.latest (s.workers w).group = some k → st.isPending k = false) ∧
      (pc' = .exhausted → st.active = true →
        ∀ k, st.latest (s.workers w).group = some k → st.isPending k = false))
    (h5 : pc' = .exhausted → s.algo.spaceExhausted = true) :
    Inv (s.setPc w pc') := by
  constructor
  · intro i
    simp only [State.setPc, State.setW]
    by_cases hi : i = w
    · simp only [hi, if_true]; exact h.wstudy w
    · simp only [hi, if_false]; exact h.wstudy i
  · intro i
    simp only [State.setPc, State.setW]
    by_cases hi : i = w
    · simp only [hi, if_true]; exact h1
    · simp only [hi, if_false]; exact h.pcOk i
  · exact h.shape
  · intro hs
    refine ⟨?_, (h.noStudy hs).2⟩
    intro i
    simp only [State.setPc, State.setW]
    by_cases hi : i = w
    · simp only [hi, if_true]; exact h3 hs
    · simp only [hi, if_false]; exact (h.noStudy hs).1 i
  · intro i
    simp only [State.setPc, State.setW]
    by_cases hi : i = w
    · simp only [hi, if_true]; exact h2
    · simp only [hi, if_false]; exact h.setupFirst i
  · exact h.fresh
  · intro st hst
    obtain ⟨hS, hW⟩ := h.study st hst
    refine ⟨hS, ?_⟩
    constructor
    · intro i t
      simp only [State.setPc, State.setW]
      by_cases hi : i = w
      · simp only [hi, if_true]; exact (h4 st hst).1 t
      · simp only [hi, if_false]; exact hW.holdOk i t
    · intro i
      simp only [State.setPc, State.setW]
      by_cases hi : i = w
      · simp only [hi, if_true]; exact (h4 st hst).2.1
      · simp only [hi, if_false]; exact hW.finOk i
    · intro i
      simp only [State.setPc, State.setW]
      by_cases hi : i = w
      · simp only [hi, if_true]; exact (h4 st hst).2.2
      · simp only [hi, if_false]; exact hW.exhOk i
    · intro t ht
      obtain ⟨i, hi, hg⟩ := hW.groupOk t ht
      refine ⟨i, hi, ?_⟩
      simp only [State.setPc, State.setW]
      by_cases hiw : i = w
      · simp only [hiw, if_true]; rw [← hiw]; exact hg
      · simp only [hiw, if_false]; exact hg
  · intro i
    simp only [State.setPc, State.setW]
    by_cases hi : i = w
    · simp only [hi, if_true]; exact h5
    · simp only [hi, if_false]; exact h.exhAlgo i

/-- `updWorker` for a new program counter other than `exhausted` (the old interface). -/
theorem Inv.updWorker' {s : State} (h : Inv s) (w : Nat) (pc' : PC) (hne : pc' ≠ .exhausted)
    (h1 : okPc pc' = true) (h2 : pastSetup pc' = true → s.algo.isSetup = true)
    (h3 : s.studies = [] → pc' = .start)
    (h4 : ∀ st ∈ s.studies,
      (∀ t, pc' = .hold t → ∃ tr ∈ st.trials, tr.id = t ∧ tr.group = (s.workers w).group) ∧
      (pc' = .finished → st.active = true →
        (∃ m, s.maxTrials = some m ∧ st.trials.length = m) ∧
        ∀ k, st.latest (s.workers w).group = some k → st.isPending k = false)) :
    Inv (s.setPc w pc') :=
  h.updWorker w pc' h1 h2 h3
    (fun st hst => ⟨(h4 st hst).1, (h4 st hst).2, fun he => absurd he hne⟩) (fun he => absurd he hne)

theorem spaceExhausted_iff (a : Algo) :
    a.spaceExhausted = true ↔ ∃ sp, a.space = some sp ∧ sp ≤ a.numProposals := by
  unfold Algo.spaceExhausted
  cases a.space with
  | none => simp
  | some sp => simp

theorem spaceExhausted_propose {a : Algo} (h : a.spaceExhausted = true) : a.propose.spaceExhausted = true := by
  rw [spaceExhausted_iff] at h ⊢
  obtain ⟨sp, h1, h2⟩ := h
  exact ⟨sp, h1, Nat.le_succ_of_le h2⟩

theorem spaceExhausted_feedback {a : Algo} (k : Nat) (h : a.spaceExhausted = true) :
    (a.feedback k).spaceExhausted = true := h

/-- Replace the (single) study and the algorithm state; the algorithm stays set up. -/
theorem Inv.updStudy {s : State} (h : Inv s) (st st' : Study) (a' : Algo) (hs : s.studies = [st])
    (hset : a'.isSetup = true)
    (hI : StudyInv s.maxTrials st' a')
    (hW : WorkersInv s.maxTrials s.nWorkers s.workers st → WorkersInv s.maxTrials s.nWorkers s.workers st')
    (hmono : s.algo.spaceExhausted = true → a'.spaceExhausted = true) :
    Inv { s with studies := [st'], algo := a' } := by
  constructor
  · exact h.wstudy
  · exact h.pcOk
  · right
    rcases h.shape with ⟨h1, _⟩ | ⟨st0, _, h2⟩
    · rw [hs] at h1; cases h1
    · exact ⟨st', rfl, h2⟩
  · intro h0; cases h0
  · intro i _; exact hset
  · intro h0; simp only [] at h0; rw [hset] at h0; cases h0
  · intro x hx
    simp only [List.mem_singleton] at hx
    subst hx
    exact ⟨hI, hW (h.study st (by rw [hs]; simp)).2⟩
  · intro i hp; exact hmono (h.exhAlgo i hp)

theorem studyOf_eq {s : State} (h : Inv s) (w : Nat) {st : Study} (hs : s.studies = [st]) :
    s.studyOf w = some st := by
  simp [State.studyOf, h.wstudy w, hs]

theorem setStudy_eq {s : State} (h : Inv s) (w : Nat) {st : Study} (hs : s.studies = [st]) (st' : Study) :
    s.setStudy w st' = { s with studies := [st'] } := by
  simp [State.setStudy, h.wstudy w, hs]

/-- A worker that is not at `start` has the study. -/
theorem studies_of_pc {s : State} (h : Inv s) (w : Nat) (hpc : (s.workers w).pc ≠ .start) :
    ∃ st, s.studies = [st] := by
  rcases h.shape with ⟨h1, _⟩ | ⟨st, h1, _⟩
  · exact absurd ((h.noStudy h1).1 w) hpc
  · exact ⟨st, h1⟩

end Pg.C16
