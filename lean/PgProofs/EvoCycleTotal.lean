/- C14 — totality of the Cycle crossover on valid parents: every cycle closes within `size` steps
   (pigeonhole on an injective map), every position gets a side, so the operator never raises KeyError. -/
import PgProofs.EvoCyclePerm
import Mathlib.Data.Fintype.Pigeonhole
import Mathlib.Data.Fintype.Fin
namespace Pg.C14

/-- `x` never fails with error `e`. -/
def NoErr {α : Type} (e : Err) (x : M α) : Prop := ∀ s, x s ≠ .error e

theorem NoErr.pure {α : Type} (e : Err) (a : α) : NoErr e (Pure.pure a : M α) := by
  intro s h
  have : (Pure.pure a : M α) s = .ok (a, s) := rfl
  rw [this] at h; cases h

theorem NoErr.fail {α : Type} (e e' : Err) (he : e' ≠ e) : NoErr e (fail e' : M α) := by
  intro s h
  simp only [Pg.C14.fail, Except.error.injEq] at h
  exact he h

/-- bind, with the continuation only needed on values the first part can return. -/
theorem NoErr.bind {α β : Type} {e : Err} {x : M α} {f : α → M β} (hx : NoErr e x)
    (hf : ∀ a s s1, x s = .ok (a, s1) → f a s1 ≠ .error e) : NoErr e (x >>= f) := by
  intro s h
  have hb : (x >>= f) s = (match x s with | .ok (a, s1) => f a s1 | .error e => .error e) := by
    show (StateT.bind x f) s = _
    unfold StateT.bind
    cases x s with
    | error e => rfl
    | ok r => obtain ⟨a, s1⟩ := r; rfl
  rw [hb] at h
  cases hxs : x s with
  | error e' =>
    rw [hxs] at h
    simp only [Except.error.injEq] at h
    exact hx s (by rw [hxs, h])
  | ok r =>
    obtain ⟨a, s1⟩ := r
    rw [hxs] at h
    exact hf a s s1 hxs h

theorem NoErr_nextIdx (k : RK) (n : Nat) : NoErr .key (nextIdx k n) := by
  intro s h
  unfold nextIdx at h
  have hb : ∀ (e : Ev) (s1 : St), (match e with
      | .idx k' m i => if k' = k ∧ m = n ∧ i < n then (Pure.pure i : M Nat) else fail .desync
      | _ => fail .desync) s1 ≠ .error .key := by
    intro e s1
    split
    · split
      · exact NoErr.pure _ _ s1
      · exact NoErr.fail _ _ (by decide) s1
    · exact NoErr.fail _ _ (by decide) s1
  refine NoErr.bind (x := popEv) ?_ (fun e s0 s1 _ => hb e s1) s h
  intro s0 h0
  unfold popEv at h0
  split at h0 <;> cases h0

section
variable {p0 p1 : List Nat} (hn : p0.Nodup) (hp : p1.Perm p0)
include hn hp

theorem cycNext_inj (a b : Nat) (ha : a < p0.length) (hb : b < p0.length)
    (h : cycNext p0 p1 a = cycNext p0 p1 b) : a = b := by
  have hl : p1.length = p0.length := hp.length_eq
  have h1 := (cycNext_spec hn hp a ha).2
  have h2 := (cycNext_spec hn hp b hb).2
  rw [h] at h1
  rw [h1] at h2
  rw [List.getD_eq_getElem _ _ (by omega : a < p1.length),
    List.getD_eq_getElem _ _ (by omega : b < p1.length)] at h2
  exact (List.Nodup.getElem_inj_iff (hp.nodup_iff.mpr hn)).mp h2

theorem iter_lt (i : Nat) (hi : i < p0.length) : ∀ t, iter (cycNext p0 p1) t i < p0.length := by
  intro t
  induction t with
  | zero => exact hi
  | succ t ih => rw [iter_succ_right]; exact (cycNext_spec hn hp _ ih).1

theorem iter_cancel (i : Nat) (hi : i < p0.length) : ∀ a d,
    iter (cycNext p0 p1) a i = iter (cycNext p0 p1) (a + d) i → iter (cycNext p0 p1) d i = i := by
  intro a
  induction a with
  | zero =>
    intro d h
    rw [Nat.zero_add] at h
    exact h.symm
  | succ a ih =>
    intro d h
    have e : a + 1 + d = (a + d) + 1 := by omega
    rw [iter_succ_right, e, iter_succ_right] at h
    exact ih d (cycNext_inj hn hp _ _ (iter_lt hn hp i hi a) (iter_lt hn hp i hi (a + d)) h)

/-- pigeonhole: the walk from `i` is back at `i` after at most `size` steps. -/
theorem returns_within (i : Nat) (hi : i < p0.length) :
    ∃ t, 1 ≤ t ∧ t ≤ p0.length ∧ iter (cycNext p0 p1) t i = i := by
  let f : Fin (p0.length + 1) → Fin p0.length := fun t => ⟨iter (cycNext p0 p1) t.val i, iter_lt hn hp i hi t.val⟩
  obtain ⟨a, b, hab, hf⟩ := Fintype.exists_ne_map_eq_of_card_lt f (by simp)
  have hv : iter (cycNext p0 p1) a.val i = iter (cycNext p0 p1) b.val i := by
    have := congrArg Fin.val hf
    simpa [f] using this
  have hne : a.val ≠ b.val := fun h => hab (Fin.ext h)
  rcases Nat.lt_or_gt_of_ne hne with hlt | hlt
  · refine ⟨b.val - a.val, by omega, by have := b.isLt; omega, ?_⟩
    apply iter_cancel hn hp i hi a.val
    rw [show a.val + (b.val - a.val) = b.val by omega]; exact hv
  · refine ⟨a.val - b.val, by omega, by have := a.isLt; omega, ?_⟩
    apply iter_cancel hn hp i hi b.val
    rw [show b.val + (a.val - b.val) = a.val by omega]; exact hv.symm

theorem orbitFrom_some (i : Nat) : ∀ (fuel j : Nat) (acc : List Nat), j < p0.length →
    (∃ t, 1 ≤ t ∧ t ≤ fuel ∧ iter (cycNext p0 p1) t j = i) → (orbitFrom p0 p1 i fuel j acc).isSome := by
  intro fuel
  induction fuel with
  | zero => intro j acc _ h; obtain ⟨t, h1, h2, _⟩ := h; omega
  | succ f ih =>
    intro j acc hj h
    obtain ⟨t, h1, h2, h3⟩ := h
    simp only [orbitFrom]
    split
    · rfl
    · rename_i hne
      have hlt := (cycNext_spec hn hp j hj).1
      rw [if_pos hlt]
      apply ih _ _ hlt
      cases t with
      | zero => omega
      | succ t =>
        refine ⟨t, ?_, by omega, h3⟩
        cases t with
        | zero => exact absurd h3 hne
        | succ t => omega

theorem orbit_some (i : Nat) (hi : i < p0.length) : (orbit p0 p1 i).isSome := by
  unfold orbit
  obtain ⟨t, h1, h2, h3⟩ := returns_within hn hp i hi
  exact orbitFrom_some hn hp i _ i [] hi ⟨t, h1, h2, h3⟩

/-- the loop never raises KeyError, and afterwards every processed position has a side. -/
theorem cycleLoop_total : ∀ (is : List Nat) (asg : List (Option Bool)), (∀ i ∈ is, i < p0.length) →
    asg.length = p0.length →
    NoErr .key (cycleLoop p0 p1 is asg) ∧
    ∀ st res st', cycleLoop p0 p1 is asg st = .ok (res, st') →
      ∀ x, ((asg.getD x none).isSome ∨ x ∈ is) → (res.getD x none).isSome := by
  intro is
  induction is with
  | nil =>
    intro asg _ _
    refine ⟨by simp only [cycleLoop]; exact NoErr.pure _ _, ?_⟩
    intro st res st' h x hx
    simp only [cycleLoop] at h
    rw [pure_ok] at h
    rw [← h.1]
    rcases hx with hx | hx
    · exact hx
    · simp at hx
  | cons i is ih =>
    intro asg hlt hl
    have hi := hlt i List.mem_cons_self
    have hlt' : ∀ j ∈ is, j < p0.length := fun j hj => hlt j (List.mem_cons_of_mem _ hj)
    obtain ⟨o, ho⟩ := Option.isSome_iff_exists.mp (orbit_some hn hp i hi)
    obtain ⟨_, _, o3, o4⟩ := orbit_spec p0 p1 i hi o ho
    have hlo : ∀ y ∈ o, y < asg.length := fun y hy => by rw [hl]; exact o4 y hy
    constructor
    · simp only [cycleLoop]
      split
      · exact (ih asg hlt' hl).1
      · refine NoErr.bind (NoErr_nextIdx _ _) ?_
        intro c s s1 _
        rw [ho]
        exact (ih _ hlt' (by rw [length_assignAll]; exact hl)).1 s1
    · intro st res st' h x hx
      simp only [cycleLoop] at h
      split at h
      · rename_i hsome
        refine (ih asg hlt' hl).2 st res st' h x ?_
        rcases hx with hx | hx
        · exact Or.inl hx
        · rcases List.mem_cons.mp hx with rfl | hx
          · exact Or.inl hsome
          · exact Or.inr hx
      · rw [bind_ok] at h
        obtain ⟨c, s1, _, h2⟩ := h
        rw [ho] at h2
        simp only [] at h2
        refine (ih _ hlt' (by rw [length_assignAll]; exact hl)).2 s1 res st' h2 x ?_
        rw [assignAll_getD o asg _ x hlo]
        rcases hx with hx | hx
        · left; split
          · rfl
          · exact hx
        · rcases List.mem_cons.mp hx with rfl | hx
          · left; rw [if_pos o3]; rfl
          · exact Or.inr hx

theorem allSomeBool_isSome : ∀ (asg : List (Option Bool)), (∀ x, x < asg.length → (asg.getD x none).isSome) →
    (allSomeBool asg).isSome := by
  intro asg
  induction asg with
  | nil => intro _; rfl
  | cons a t ih =>
    intro h
    have h0 := h 0 (by simp)
    cases a with
    | none => simp at h0
    | some b =>
      simp only [allSomeBool, Option.isSome_map]
      apply ih
      intro x hx
      have := h (x + 1) (by simpa using hx)
      simpa using this

/-- Cycle crossover on two arrangements of the same distinct items never raises KeyError: with
`permuteCycle_perm`, it always returns two arrangements of those items (given well-formed draws). -/
theorem permuteCycle_total : NoErr .key (permuteCycle p0 p1) := by
  unfold permuteCycle
  obtain ⟨hne, hall⟩ := cycleLoop_total hn hp (List.range p0.length) (List.replicate p0.length none)
    (by intro i hi; exact List.mem_range.mp hi) (by simp)
  refine NoErr.bind hne ?_
  intro asg s s1 hs
  have hlen := (cycleLoop_closed p0 p1 _ _ s asg s1 (by intro i hi; exact List.mem_range.mp hi) (by simp)
    (by intro j b hj; simp [List.getD_eq_getElem?_getD, List.getElem?_replicate] at hj; split at hj <;> simp at hj)
    hs).1
  have hsome := allSomeBool_isSome hn hp asg (fun x hx =>
    hall s asg s1 hs x (Or.inr (List.mem_range.mpr (by omega))))
  obtain ⟨sides, hsides⟩ := Option.isSome_iff_exists.mp hsome
  rw [hsides]
  exact NoErr.pure _ _ s1

end

end Pg.C14
